// C13 — rendering is a deterministic function of template and data; templates are immutable.
package c13

import (
	"encoding/json"
	"fmt"
	"html/template"
	"math"
	"reflect"
	"regexp"
	"sort"
	"strings"
	"sync"
	"sync/atomic"
	"testing"
	"time"

	"verif/corpus"
	"verif/internal/model"
	"verif/internal/progs"
	"verif/internal/vk"

	plush "github.com/gobuffalo/plush/v5"
	"pgregory.net/rapid"
)

func TestMain(m *testing.M) { vk.Main(m) }

// ---- deep structural hash of a parsed program (H1) ----------------------------------------

// FNV-1a, written out so that hashing a tree allocates nothing but the table of pointers seen
type hasher struct {
	sum  uint64
	seen map[uintptr]int
}

const fnvOffset, fnvPrime = 14695981039346656037, 1099511628211

func structHash(v interface{}) uint64 {
	hs := &hasher{sum: fnvOffset, seen: map[uintptr]int{}}
	hs.walk(reflect.ValueOf(v))
	return hs.sum
}

func (h *hasher) str(s string) {
	for i := 0; i < len(s); i++ {
		h.sum = (h.sum ^ uint64(s[i])) * fnvPrime
	}
	h.sum = (h.sum ^ 0xff) * fnvPrime // terminator: "ab","c" differs from "a","bc"
}

func (h *hasher) num(tag byte, n uint64) {
	h.sum = (h.sum ^ uint64(tag)) * fnvPrime
	for i := 0; i < 8; i++ {
		h.sum = (h.sum ^ (n & 0xff)) * fnvPrime
		n >>= 8
	}
}

// names of a struct type's fields (reflect.Type.Field is slow and allocates)
var fieldNames sync.Map

func fields(t reflect.Type) []string {
	if v, ok := fieldNames.Load(t); ok {
		return v.([]string)
	}
	names := make([]string, t.NumField())
	for i := range names {
		names[i] = t.Field(i).Name
	}
	fieldNames.Store(t, names)
	return names
}

func (h *hasher) walk(v reflect.Value) {
	if !v.IsValid() {
		h.str("<invalid>")
		return
	}
	switch v.Kind() {
	case reflect.Ptr:
		if v.IsNil() {
			h.str("nilptr:")
			h.str(v.Type().String())
			return
		}
		p := v.Pointer()
		if id, ok := h.seen[p]; ok {
			h.num('r', uint64(id)) // pointer topology, cycle-safe
			return
		}
		h.seen[p] = len(h.seen)
		h.str("ptr:")
		h.str(v.Type().String())
		h.walk(v.Elem())
	case reflect.Interface:
		if v.IsNil() {
			h.str("niliface")
			return
		}
		h.str("iface:")
		h.str(v.Elem().Type().String())
		h.walk(v.Elem())
	case reflect.Struct:
		h.str("struct:")
		h.str(v.Type().String())
		for i, name := range fields(v.Type()) {
			h.str(name)
			h.walk(v.Field(i))
		}
	case reflect.Slice:
		if v.IsNil() {
			h.str("nilslice")
			return
		}
		h.num('s', uint64(v.Len()))
		for i := 0; i < v.Len(); i++ {
			h.walk(v.Index(i))
		}
	case reflect.Map:
		if v.IsNil() {
			h.str("nilmap")
			return
		}
		// keys are AST nodes already numbered through the Order slice: visit in that order
		type ent struct {
			id   int
			k, v reflect.Value
		}
		var es []ent
		for _, k := range v.MapKeys() {
			id := 1 << 30
			kk := k
			for kk.Kind() == reflect.Interface && !kk.IsNil() {
				kk = kk.Elem()
			}
			if kk.Kind() == reflect.Ptr && !kk.IsNil() {
				if n, ok := h.seen[kk.Pointer()]; ok {
					id = n
				}
			}
			es = append(es, ent{id, k, v.MapIndex(k)})
		}
		sort.SliceStable(es, func(i, j int) bool { return es[i].id < es[j].id })
		h.num('m', uint64(len(es)))
		for _, e := range es {
			h.walk(e.k)
			h.walk(e.v)
		}
	case reflect.String:
		h.str("s:")
		h.str(v.String())
	case reflect.Bool:
		if v.Bool() {
			h.num('b', 1)
		} else {
			h.num('b', 0)
		}
	case reflect.Int, reflect.Int8, reflect.Int16, reflect.Int32, reflect.Int64:
		h.num('i', uint64(v.Int()))
	case reflect.Uint, reflect.Uint8, reflect.Uint16, reflect.Uint32, reflect.Uint64:
		h.num('u', v.Uint())
	case reflect.Float32, reflect.Float64:
		h.num('f', math.Float64bits(v.Float()))
	case reflect.Func:
		h.str("func")
	default:
		h.str("kind:" + v.Kind().String())
	}
}

// ---- cases -----------------------------------------------------------------------------------

type Tmpl struct {
	Src      string            `json:"src"`
	Partials map[string]string `json:"partials,omitempty"`
	Prog     json.RawMessage   `json:"prog,omitempty"` // informational
	// Data names the context data the template is executed with: "" = the shared generator's fixed data,
	// "rich" = the same plus maps, structs with (stateful) methods, typed slices, a time, an iterator (richData)
	Data string `json:"data,omitempty"`
}

type Case struct {
	Templates []Tmpl `json:"templates"`
	// Actions: pairs (template index, action index)
	Actions [][2]int `json:"actions"`
}

// The first eight keep their index (committed replay files name them by index); new routes are appended.
var actionNames = []string{"Exec again", "NewTemplate+Exec", "Clone+Exec", "Render cache off", "Render cache on (cold)", "Render cache on (warm)", "Parse cache on then Exec", "Exec on the cached template",
	"BuffaloRenderer cache off", "BuffaloRenderer cache on", "RenderR cache off", "zero-value Template: lazy parse in Exec, then Exec again", "Parse() again then Exec", "Clone of a Clone + Exec, then Exec on the original",
	"Render cache on (the text as it is)"}

const (
	aExec, aNew, aClone, aRender, aCold, aWarm, aParseExec, aCachedTwice = 0, 1, 2, 3, 4, 5, 6, 7
	aBuffalo, aBuffaloCache, aRenderR, aLazy, aReparse, aCloneClone      = 8, 9, 10, 11, 12, 13
	aAsIs                                                                = 14
)

var addr = regexp.MustCompile(`0x[0-9a-f]+`)

type result struct {
	out   string
	err   string
	trace string
}

func (r result) String() string { return fmt.Sprintf("out=%q err=%q trace=%s", r.out, r.err, r.trace) }

var uniq int64

type state struct {
	parsed   *plush.Template
	perr     error
	first    *result
	firstBy  string
	coldSrc  string
	progHash uint64
}

// ---- context data ------------------------------------------------------------------------------

// obj is a struct value of the rich data: fields, a nested pointer, a method with per-instance state (Count), a
// method that records its invocation (Say) and a value-receiver method (Upper).
type obj struct {
	Name  string
	Tags  []string
	Meta  map[string]interface{}
	Next  *obj
	n     int
	trace *[]string
}

func (o *obj) Count() int { o.n++; return o.n }
func (o *obj) Say(s string) string {
	*o.trace = append(*o.trace, "say:"+o.Name+":"+s)
	return o.Name + " says " + s
}
func (o obj) Upper() string { return strings.ToUpper(o.Name) }

type iter struct{ i int }

func (it *iter) Next() interface{} {
	if it.i >= 3 {
		return nil
	}
	it.i++
	return it.i * 11
}

// richData: equal data = the same constructor run again (fresh instances, fresh counters).
// Two struct types that PRINT alike (both are "c13.row": declared inside different functions) and hold the same
// fields in another order. Executions get one or the other in turn: equal data, equal output.
var rowFlip int64

func rowA() interface{} {
	type row struct {
		ID   int
		Name string
		Tags []string
	}
	return row{ID: 7, Name: "seven", Tags: []string{"t<1>"}}
}

func rowB() interface{} {
	type row struct {
		Tags []string
		Name string
		ID   int
	}
	return row{ID: 7, Name: "seven", Tags: []string{"t<1>"}}
}

func richData(trace *[]string) map[string]interface{} {
	d := progs.Data()
	bob := &obj{Name: "Bob", Tags: []string{"b1"}, Meta: map[string]interface{}{}, trace: trace}
	ann := &obj{Name: "Ann", Tags: []string{"x<y", "z"}, Meta: map[string]interface{}{"k": "v&w"}, Next: bob, trace: trace}
	for k, v := range map[string]interface{}{
		"m0": map[string]interface{}{}, "m1": map[string]interface{}{"only": 1}, "m3": map[string]interface{}{"a": 1, "b": "two", "c": true},
		"mi": map[int]string{1: "one"}, "mnest": map[string]interface{}{"in": map[string]interface{}{"x": 5}},
		"ann": ann, "bob": bob, "objs": []*obj{ann, bob}, "uval": obj{Name: "Val", trace: trace}, "nilp": (*obj)(nil),
		"strs": []string{"p", "q"}, "ints": []int{4, 5, 6}, "when": time.Date(2020, 2, 3, 4, 5, 6, 0, time.UTC), "html": template.HTML("<b>ok</b>"),
		"it": &iter{},
		"row": func() interface{} {
			if atomic.AddInt64(&rowFlip, 1)%2 == 0 {
				return rowA()
			}
			return rowB()
		}(),
		"rows": []interface{}{rowA(), rowB(), rowA()},
		"tagopt": func(opts map[string]interface{}) string {
			if c, ok := opts["class"].(string); ok {
				opts["class"] = c + " btn"
			} else {
				opts["class"] = "btn"
			}
			return fmt.Sprintf("class=%v n=%d", opts["class"], len(opts))
		},
		"tagopt2": func(name string, opts map[string]interface{}, help plush.HelperContext) string {
			opts["n"+fmt.Sprint(len(opts))] = name
			return fmt.Sprintf("%s:%d:%v", name, len(opts), help.HasBlock())
		},
	} {
		d[k] = v
	}
	return d
}

// env is one execution's world: fresh-but-equal data, helpers that record into this execution's trace.
type env struct {
	t     Tmpl
	trace []string
	ticks int
}

func (e *env) data() map[string]interface{} {
	if e.t.Data == "rich" {
		return richData(&e.trace)
	}
	return progs.Data()
}

func (e *env) helpers() map[string]model.Helper {
	return progs.Helpers(map[string]model.Helper{
		"rec": func(a []interface{}) (interface{}, error) {
			e.trace = append(e.trace, fmt.Sprint(a[0]))
			return a[0], nil
		},
		"tick": func(a []interface{}) (interface{}, error) { e.ticks++; return e.ticks, nil }, // state per context
		"boom": func(a []interface{}) (interface{}, error) { return nil, fmt.Errorf("boom") },
		"pnk":  func(a []interface{}) (interface{}, error) { panic("helper panics") },
	})
}

func (e *env) ctx() *plush.Context { return progs.Context(e.data(), e.helpers(), e.t.Partials) }

// maps gives the same world as two plain maps, the way BuffaloRenderer takes it.
func (e *env) maps() (map[string]interface{}, map[string]interface{}) {
	data := e.data()
	hs := map[string]interface{}{}
	for name, h := range e.helpers() {
		h := h
		hs[name] = func(args ...interface{}) (interface{}, error) {
			in := make([]interface{}, len(args))
			for i := range args {
				in[i] = model.FromPlush(args[i])
			}
			v, err := h(in)
			if err != nil {
				return nil, err
			}
			return model.ToPlush(v), nil
		}
	}
	parts := e.t.Partials
	hs["partialFeeder"] = func(name string) (string, error) {
		s, ok := parts[name]
		if !ok {
			return "", fmt.Errorf("no partial %q", name)
		}
		return s, nil
	}
	hs["blk"] = func(help plush.HelperContext) (template.HTML, error) {
		s, err := help.BlockWith(help.New())
		return template.HTML(s), err
	}
	return data, hs
}

func errText(err error) string { return addr.ReplaceAllString(err.Error(), "0xADDR") }

// run executes fn in a fresh world and returns (output, normalised error, helper trace).
func run(t Tmpl, fn func(e *env) (string, error)) result {
	e := &env{t: t}
	res := vk.Safe(func() (string, error) { return fn(e) })
	r := result{out: res.Out, trace: strings.Join(e.trace, ",")}
	if res.Panicked() {
		r.err = "PANIC " + fmt.Sprint(res.Panic)
	} else if res.Err != nil {
		r.err = errText(res.Err)
	}
	return r
}

// hashed executes tm in a fresh world and verifies that neither the parsed program nor the input text changed.
func hashed(t Tmpl, tm *plush.Template, known map[*plush.Template]uint64, mutated *string, what string) result {
	var before uint64
	had := tm.VerifProgram() != nil
	if had {
		// the hash taken after the template's last execution in this history is the one before this execution
		if h, ok := known[tm]; ok {
			before = h
		} else {
			before = structHash(tm.VerifProgram())
		}
	}
	input := tm.Input
	res := run(t, func(e *env) (string, error) { return tm.Exec(e.ctx()) })
	if tm.Input != input && *mutated == "" {
		*mutated = fmt.Sprintf("%s: the Input of the template changed from %q to %q", what, input, tm.Input)
	}
	if had && *mutated == "" {
		if tm.VerifProgram() == nil {
			*mutated = what + ": the parsed program is gone"
		} else if after := structHash(tm.VerifProgram()); after != before {
			*mutated = fmt.Sprintf("%s: the parsed program changed during the execution: structural hash %x -> %x", what, before, after)
		} else {
			known[tm] = after
		}
	}
	return res
}

func runCase(r *vk.Run, c Case, class string) *vk.Fail {
	defer r.Watch("history", c)()
	saved := plush.CacheEnabled
	defer func() { plush.CacheEnabled = saved }()
	sts := make([]*state, len(c.Templates))
	known := map[*plush.Template]uint64{}
	fail := func(f string, a ...interface{}) *vk.Fail {
		return &vk.Fail{Kind: "history", Case: c, Msg: fmt.Sprintf(f, a...)}
	}
	for i, t := range c.Templates {
		st := &state{}
		plush.CacheEnabled = false
		st.parsed, st.perr = plush.NewTemplate(t.Src)
		if st.perr == nil {
			st.progHash = structHash(st.parsed.VerifProgram())
			known[st.parsed] = st.progHash
		}
		sts[i] = st
	}
	for step, a := range c.Actions {
		ti, ai := a[0]%len(c.Templates), a[1]%len(actionNames)
		t, st := c.Templates[ti], sts[ti]
		var ress []result // everything this route executed, in order
		mutated := ""
		checkHash := false
		// the one parsed template (or the template NewTemplate returned next to a parse error: executing it reports the error)
		onParsed := func(pick func(tm *plush.Template) []*plush.Template) {
			if st.parsed == nil {
				ress = append(ress, result{err: errText(st.perr)})
				return
			}
			if st.perr != nil {
				// the error value handed out by the parse keeps its text
				ress = append(ress, result{err: errText(st.perr)})
			}
			for _, tm := range pick(st.parsed) {
				ress = append(ress, hashed(t, tm, known, &mutated, actionNames[ai]))
			}
			checkHash = st.perr == nil
		}
		viaCache := func(src string, twice bool) {
			plush.CacheEnabled = true
			pt, err := plush.Parse(src)
			if err != nil {
				ress = append(ress, result{err: errText(err)})
				// the template returned next to the error reports it too
				if pt != nil {
					ress = append(ress, hashed(t, pt, known, &mutated, actionNames[ai]))
				}
				return
			}
			ress = append(ress, hashed(t, pt, known, &mutated, actionNames[ai]))
			if twice {
				ress = append(ress, hashed(t, pt, known, &mutated, actionNames[ai]))
			}
		}
		switch ai {
		case aExec: // Exec again on the one parsed template
			onParsed(func(tm *plush.Template) []*plush.Template { return []*plush.Template{tm} })
		case aNew:
			plush.CacheEnabled = false
			ress = append(ress, run(t, func(e *env) (string, error) {
				nt, err := plush.NewTemplate(t.Src)
				if err != nil {
					return "", err
				}
				return nt.Exec(e.ctx())
			}))
		case aClone:
			onParsed(func(tm *plush.Template) []*plush.Template { return []*plush.Template{tm.Clone()} })
		case aRender:
			plush.CacheEnabled = false
			ress = append(ress, run(t, func(e *env) (string, error) { return plush.Render(t.Src, e.ctx()) }))
		case aCold, aWarm:
			// cold: make the text unique with a leading comment tag (contributes nothing, whatever the template's end looks like);
			// warm: the same text again, now served from the cache
			plush.CacheEnabled = true
			if ai == aCold || st.coldSrc == "" {
				st.coldSrc = fmt.Sprintf("<%%# cache-buster %d %%>%s", atomic.AddInt64(&uniq, 1), t.Src)
			}
			src := st.coldSrc
			var cached *plush.Template
			var before uint64
			if ai == aWarm {
				// the cached object, if there is one already: its program must survive the render unchanged
				if pt, err := plush.Parse(src); err == nil && pt.VerifProgram() != nil {
					cached, before = pt, structHash(pt.VerifProgram())
				}
			}
			ress = append(ress, run(t, func(e *env) (string, error) { return plush.Render(src, e.ctx()) }))
			if cached != nil {
				if after := structHash(cached.VerifProgram()); after != before {
					mutated = fmt.Sprintf("%s: the program of the cached template changed during the render: structural hash %x -> %x", actionNames[ai], before, after)
				}
			}
		case aParseExec: // Parse through the cache, then Exec
			viaCache(t.Src, false)
		case aCachedTwice: // the cached template object executed twice in a row
			viaCache(t.Src, true)
		case aBuffalo, aBuffaloCache:
			plush.CacheEnabled = ai == aBuffaloCache
			ress = append(ress, run(t, func(e *env) (string, error) {
				data, helpers := e.maps()
				return plush.BuffaloRenderer(t.Src, data, helpers)
			}))
		case aRenderR:
			plush.CacheEnabled = false
			ress = append(ress, run(t, func(e *env) (string, error) { return plush.RenderR(strings.NewReader(t.Src), e.ctx()) }))
		case aLazy: // a Template made by hand parses on its first Exec and keeps the program for the second
			plush.CacheEnabled = false
			tm := &plush.Template{Input: t.Src}
			ress = append(ress, hashed(t, tm, known, &mutated, actionNames[ai]), hashed(t, tm, known, &mutated, actionNames[ai]), hashed(t, tm.Clone(), known, &mutated, actionNames[ai]))
		case aReparse: // "Parse ... can be called many times"
			onParsed(func(tm *plush.Template) []*plush.Template {
				if err := tm.Parse(); err != nil {
					ress = append(ress, result{err: errText(err)})
				}
				return []*plush.Template{tm}
			})
		case aAsIs: // Render through the cache under the template's own text: whatever is cached under that text, or under a text the cache takes for it
			plush.CacheEnabled = true
			ress = append(ress, run(t, func(e *env) (string, error) { return plush.Render(t.Src, e.ctx()) }))
		default: // aCloneClone
			onParsed(func(tm *plush.Template) []*plush.Template { return []*plush.Template{tm.Clone().Clone(), tm} })
		}
		plush.CacheEnabled = false
		for _, res := range ress {
			if strings.HasPrefix(res.err, "PANIC") {
				r.Exclude("panic (subject of C03/C04)")
				return nil
			}
		}
		for k, res := range ress {
			if st.first == nil {
				cp := res
				st.first = &cp
				st.firstBy = actionNames[ai]
			} else if *st.first != res {
				return fail("template %d %q: step %d (%s, result %d of the step) gave %s, but the first execution (%s) gave %s", ti, t.Src, step+1, actionNames[ai], k+1, res, st.firstBy, *st.first)
			}
		}
		if mutated != "" {
			return fail("template %d %q: step %d: %s", ti, t.Src, step+1, mutated)
		}
		if checkHash && known[st.parsed] != st.progHash {
			return fail("template %d %q: the parsed program changed during step %d (%s): structural hash %x -> %x", ti, t.Src, step+1, actionNames[ai], st.progHash, known[st.parsed])
		}
	}
	b, _ := json.Marshal(c)
	nt := ""
	if len(c.Actions) >= 3 {
		nt = string(b)
	}
	r.Count(nt, class)
	if nt != "" {
		r.Sample(func() interface{} {
			var acts []string
			for _, a := range c.Actions {
				acts = append(acts, fmt.Sprintf("t%d:%s", a[0]%len(c.Templates), actionNames[a[1]%len(actionNames)]))
			}
			if len(acts) > 40 {
				acts = append(acts[:40], fmt.Sprintf("... (%d actions)", len(c.Actions)))
			}
			var srcs []string
			for _, t := range c.Templates {
				srcs = append(srcs, t.Src)
			}
			first := "(template 0 was not executed in this history)"
			if sts[0].first != nil {
				first = sts[0].first.String()
			}
			return map[string]interface{}{"templates": srcs, "actions": acts, "first_result": first}
		})
	}
	return nil
}

// ---- generators ------------------------------------------------------------------------------------

var hashSnippets = []string{
	`<% let h = {k1: rec(1), k2: rec(2), k3: rec(3)} %><%= h["k2"] %>`,
	`<%= {a: rec("first"), a: rec("second")}["a"] %>`,
	`<%= {a: 1, b: 2, a: 3, c: 4, a: 5}["a"] %>`,
	`<% let h = {x: rec("x"), y: rec("y"), z: rec("z"), w: rec("w"), v: rec("v")} %><%= h["z"] %><%= h["v"] %>`,
	`<%= id({one: rec(1), two: rec(2), three: rec(3), four: rec(4)})["three"] %>`,
	`<%= for (i) in two { %><%= {p: rec(i), q: rec(i + 10), p: rec(i + 20)}["p"] %>,<% } %>`,
	`<% let f = fn(m) { return m["b"] } %><%= f({a: rec("A"), b: rec("B"), c: rec("C")}) %>`,
	`<%= {a: rec(1), b: boomy(), c: rec(3)}["a"] %>`,
	`<%= {a: nosuch, b: rec(2), c: 1 / 0}["a"] %>`,
}

func genTmpl(t *rapid.T) Tmpl {
	g := progs.New(t, progs.Options{MaxDepth: 3, FaultRate: rapid.SampledFrom([]int{0, 0, 12}).Draw(t, "faults"),
		Faults: []model.Expr{model.Var{Name: "nosuch"}, model.Bin{Op: "/", L: model.Lit{V: 1}, R: model.Lit{V: 0}}, model.Idx{X: model.Var{Name: "arr"}, I: model.Lit{V: 9}}}})
	prog := g.Nodes(3, false)
	pr := model.Printer{Compact: rapid.Bool().Draw(t, "compact")}
	src := pr.Nodes(prog)
	// splice hash literals with side-effecting values and duplicate keys
	for n := rapid.IntRange(0, 2).Draw(t, "nhash"); n > 0; n-- {
		sn := rapid.SampledFrom(hashSnippets).Draw(t, "hash")
		if rapid.Bool().Draw(t, "front") {
			src = sn + src
		} else {
			src = src + sn
		}
	}
	return Tmpl{Src: src, Partials: progs.PartialText(pr, g.Partials), Prog: model.Encode(prog)}
}

// ---- shapes: templates written as text over the rich data ------------------------------------------

// litHash spells a hash literal of n entries over a small key pool (so duplicate keys are frequent for n > 3):
// keys as identifiers or strings; values that record (rec), count (tick), are plain literals, or nest.
func litHash(t *rapid.T, n int, mode int) (string, []string) {
	var parts, keys []string
	seen := map[string]bool{}
	for i := 0; i < n; i++ {
		k := fmt.Sprintf("k%d", rapid.IntRange(0, 5).Draw(t, "key"))
		if !seen[k] {
			seen[k] = true
			keys = append(keys, k)
		}
		spelt := k
		if rapid.Bool().Draw(t, "quoted") {
			spelt = `"` + k + `"`
		}
		vk := mode
		if mode == 2 {
			vk = rapid.IntRange(0, 5).Draw(t, "val")
		}
		var v string
		switch vk {
		case 0: // literals only
			v = rapid.SampledFrom([]string{"1", "22", `"s"`, "true", "3.5", `"a<b"`}).Draw(t, "lit")
		case 1:
			v = fmt.Sprintf("rec(%d)", i+1)
		case 3:
			v = "tick()"
		case 4:
			v = fmt.Sprintf("{x: rec(%d), y: %d, x: rec(%d)}", 100+i, i, 200+i)
		case 5:
			v = fmt.Sprintf("[rec(%d), %d]", 300+i, i)
		default:
			v = fmt.Sprintf("rec(%d) + i%d", i+1, rapid.SampledFrom([]int{0, 1, 2, 7}).Draw(t, "var"))
		}
		parts = append(parts, spelt+": "+v)
	}
	sort.Strings(keys)
	return "{" + strings.Join(parts, ", ") + "}", keys
}

func reads(name string, keys []string) string {
	var b strings.Builder
	for _, k := range append(append([]string{}, keys...), "absent") {
		fmt.Fprintf(&b, `<%%= %s["%s"] %%>,`, name, k)
	}
	fmt.Fprintf(&b, `<%%= len(%s) %%>;`, name)
	return b.String()
}

// hashShape: a hash literal of 0..12 entries, used in place, through a let, in a loop body and a function body
// that are entered several times, as the data of a partial / of contentOf, and assigned to after it was made
// (a literal that is evaluated again must start from its spelling, in this execution and in every later one).
func hashShape(t *rapid.T) Tmpl {
	n := rapid.SampledFrom([]int{0, 1, 1, 2, 2, 3, 3, 4, 5, 6, 8, 9, 12}).Draw(t, "n")
	lit, keys := litHash(t, n, rapid.SampledFrom([]int{0, 0, 1, 2, 2}).Draw(t, "mode"))
	mutate := func(name string) string {
		k := "k9"
		if len(keys) > 0 && rapid.Bool().Draw(t, "existing") {
			k = rapid.SampledFrom(keys).Draw(t, "mkey")
		}
		switch rapid.IntRange(0, 2).Draw(t, "mut") {
		case 0:
			return ""
		case 1:
			return fmt.Sprintf(`<%% %s["%s"] = 77 %%>`, name, k)
		}
		return fmt.Sprintf(`<%% %s["%s"] = rec("m") %%><%%= %s["%s"] %%>/`, name, k, name, k)
	}
	tm := Tmpl{Data: "rich"}
	rk := append(append([]string{}, keys...), "k9")
	switch rapid.IntRange(0, 7).Draw(t, "use") {
	case 0:
		tm.Src = `<% let h = ` + lit + ` %>` + mutate("h") + reads("h", rk)
	case 1:
		k := "k0"
		if len(keys) > 0 {
			k = rapid.SampledFrom(keys).Draw(t, "rkey")
		}
		tm.Src = fmt.Sprintf(`<%%= %s["%s"] %%>|<%%= id(%s)["%s"] %%>|<%%= len(%s) %%>`, lit, k, lit, k, lit)
	case 2: // the literal in a loop body: made afresh on every iteration
		tm.Src = `<%= for (i) in arr { %><% let h = ` + lit + ` %>` + reads("h", rk) + mutate("h") + `<% h["k9"] = i %>|<% } %>`
	case 3: // the literal in a function body called several times; the results are distinct values
		tm.Src = `<% let mk = fn() { return ` + lit + ` } %><% let h = mk() %>` + mutate("h") + `<% h["k9"] = 1 %><% let g = mk() %>` + reads("g", rk) + reads("h", rk)
	case 4: // as the data of a partial
		var b strings.Builder
		for _, k := range keys {
			fmt.Fprintf(&b, "<%%= %s %%>,", k)
		}
		tm.Partials = map[string]string{"hp": "(" + b.String() + "<%= i1 %>)"}
		tm.Src = `<%= partial("hp", ` + lit + `) %><%= for (i) in two { %><%= partial("hp", ` + lit + `) %><% } %>`
	case 5: // as the data of contentOf
		var b strings.Builder
		for _, k := range keys {
			fmt.Fprintf(&b, "<%%= %s %%>,", k)
		}
		tm.Src = `<% contentFor("hc") { %>[` + b.String() + `]<% } %><%= contentOf("hc", ` + lit + `) %><%= contentOf("hc", ` + lit + `) %>`
	case 6: // nested in an array and in a hash
		tm.Src = `<% let a = [` + lit + `, ` + lit + `] %><% let x = a[0] %>` + mutate("x") + `<% let y = a[1] %>` + reads("y", rk) + `<% let o = {in: ` + lit + `} %><% let z = o["in"] %>` + reads("z", rk)
	default: // encoded as a whole (keys are printed sorted)
		tm.Src = `<% let h = ` + lit + ` %>` + mutate("h") + `<%= toJSON(h) %>|<%= inspect(h) %>|<%= "" + h %>`
	}
	return tm
}

// arrayShape: the same for array literals (0..6 elements) with in-place element assignment.
func arrayShape(t *rapid.T) Tmpl {
	n := rapid.IntRange(0, 6).Draw(t, "n")
	var els []string
	for i := 0; i < n; i++ {
		els = append(els, rapid.SampledFrom([]string{"1", "20", `"s"`, "true", "rec(5)", "i2", "tick()", "[1, 2]", "{a: 1}"}).Draw(t, "el"))
	}
	if rapid.Bool().Draw(t, "scalars") {
		for i := range els {
			els[i] = fmt.Sprint(i + 1)
		}
	}
	lit := "[" + strings.Join(els, ", ") + "]"
	rd := func(name string) string {
		var b strings.Builder
		for i := 0; i < n; i++ {
			fmt.Fprintf(&b, "<%%= %s[%d] %%>,", name, i)
		}
		fmt.Fprintf(&b, "<%%= len(%s) %%>;", name)
		return b.String()
	}
	mut := func(name string) string {
		if n == 0 {
			return ""
		}
		i := rapid.IntRange(0, n-1).Draw(t, "mi")
		return fmt.Sprintf(`<%% %s[%d] = "M" %%>`, name, i)
	}
	tm := Tmpl{Data: "rich"}
	switch rapid.IntRange(0, 3).Draw(t, "use") {
	case 0:
		tm.Src = `<% let a = ` + lit + ` %>` + mut("a") + rd("a")
	case 1:
		tm.Src = `<%= for (i) in two { %><% let a = ` + lit + ` %>` + rd("a") + mut("a") + `|<% } %>`
	case 2:
		tm.Src = `<% let mk = fn() { return ` + lit + ` } %><% let a = mk() %>` + mut("a") + `<% let b = mk() %>` + rd("b") + rd("a")
	default:
		tm.Src = `<%= for (x) in ` + lit + ` { %><%= x %>.<% } %><%= ` + lit + ` %>`
	}
	return tm
}

// pieces over the rich data; every one renders without error on its own (a failing piece would cut the rest short)
var richPieces = []string{
	// a struct whose type changes from execution to execution to one that prints alike and is laid out differently
	`<%= row.Name %>/<%= row.ID %>/<%= row.Tags[0] %>`, `<%= for (r) in rows { %><%= r.Name %>:<%= r.ID %>;<% } %>`,
	// helpers that fill defaults into the options map they are given (omitted, empty, with an entry): every call
	// starts from what the call supplied, whatever earlier calls, executions or templates did with their maps
	`<%= tagopt() %>|<%= tagopt() %>`, `<%= tagopt({}) %>|<%= tagopt({class: "own"}) %>|<%= tagopt() %>`, `<%= for (i) in ints { %><%= tagopt() %>;<% } %>`, `<%= tagopt2("a") %>|<%= tagopt2("b", {id: 1}) %>|<%= tagopt2("c") %>`,
	`<%= ann.Name %>`, `<%= ann.Next.Name %>`, `<%= ann.Tags[0] %>`, `<%= ann.Meta["k"] %>`, `<%= ann.Count() %><%= ann.Count() %>`, `<%= ann.Say("hi") %>`,
	`<%= ann.Upper() %>`, `<%= uval.Upper() %>`, `<%= uval.Name %>`, `<%= for (o) in objs { %><%= o.Name %>:<%= o.Count() %>;<% } %>`, `<%= objs[1].Name %>`, `<%= objs[0].Count() %>`,
	`<%= nilp %>|<%= nilp == nil %>`, `<%= len(strs) %>`, `<%= for (s) in strs { %><%= s %><% } %>`, `<%= ints[1] + 1 %>`, `<%= when %>`, `<%= html %>`, `<%= toJSON(m3) %>`, `<%= inspect(m3) %>`,
	`<%= m1["only"] %>`, `<%= mi[1] %>`, `<%= mnest["in"]["x"] %>`, `<%= len(m3) %>`, `<%= "" + m3 %>`,
	// for over a Go map where the visiting order cannot show: no entry, one entry, a body that does not look at the entry
	`<%= for (k, v) in m1 { %><%= k %>=<%= v %><% } %>`, `<%= for (k, v) in m0 { %>never<% } %>`, `<%= for (k, v) in m3 { %>x<% } %>`, `<%= for (k, v) in m3 { %>y<% break %><% } %>`,
	`<%= for (k, v) in {only: rec(1)} { %><%= k %><%= v %><% } %>`,
	`<%= for (x) in it { %><%= x %>,<% } %>`, `<%= for (i) in range(1, 3) { %><%= i %><% } %>`, `<%= for (i) in between(1, 4) { %><%= i %><% } %>`, `<%= for (i) in until(3) { %><%= i %><% } %>`,
	`<%= for (g) in groupBy(2, arr) { %>[<%= for (x) in g { %><%= x %> <% } %>]<% } %>`, `<%= truncate(s3, {size: 4}) %>`, `<%= capitalize(s3) %>`, `<%= pluralize(s3) %>`, `<%= tick() %><%= tick() %>`,
	`<%= raw(s1) %>`, `<%= json(arr) %>`, `<%= debug(arr) %>`, `<%= ann.Next.Next %>`, `<%= objs[0].Say("yo") %>`, `<%= ann.Next.Say("x") %>`, `<%= upcase(ann.Name) %>`,
	`<%= if (ann.Next) { %>has<% } %>`, `<% let q = ann %><%= q.Count() %>`, `<%= ann.Meta["none"] %>`, `<%= ann.Tags %>`, `<%= strs %>`,
	`<% let n = 0 %><%= for (i) in arr { %><% n = n + i %><% } %><%= n %>`, `<% let w = fn(o) { return o.Count() + o.Count() } %><%= w(ann) %>,<%= w(bob) %>,<%= w(ann) %>`,
	`<%= for (o) in objs { %><%= o.Say(o.Upper()) %> <% } %>`, `<% let p = fn(n) { if (n > 0) { return p(n - 1) + tick() } return 0 } %><%= p(3) %>`,
	// a name made inside a loop body, a function body, a helper block, a partial or a stored block, read before it is
	// made: nothing of an earlier entry (of this execution or of an earlier one) may be left when the body is entered again
	`<%= for (i) in two { %><%= if (seen) { %>again<% } else { %>first<% } %><% let seen = true %><% } %>`,
	"<% let g = fn() {\n if (inside) {\n return \"stale\"\n }\n let inside = 1\n return \"fresh\"\n} %><%= g() %><%= g() %>",
	`<%= blk() { %><%= if (inblk) { %>stale<% } %><% let inblk = 1 %>b<% } %><%= blk() { %><%= if (inblk) { %>stale<% } %>c<% } %>`,
	`<%= partial("rp") %><%= partial("rp") %>`,
	`<% contentFor("rc") { %><%= if (inc) { %>stale<% } %><% let inc = 1 %>c<% } %><%= contentOf("rc") %><%= contentOf("rc") %>`,
	`<%= if (nosuch()) { %>x<% } %>`, `<%= partial("n1") %>`,
	// a map printed whole (nothing today): whatever is printed must not depend on the map's order
	`<%= m3 %>|<%= {a: 1, b: 2, c: 3} %>|<%= [m3, m1] %>|<%= arr + m3 %>`,
	// a partial that is given no data still reads the context it is called in
	`<%= for (x) in arr { %><%= partial("px") %><% } %>`, `<% let v = 1 %><%= partial("pv") %><% v = 2 %><%= partial("pv", {}) %><%= partial("pv") %>`,
	" \n", "  ", "\n", "text <b>bold</b> ", "7 ", "x9 ",
}

// pieces that fail: the error text must be the same on every route (nothing in it may depend on a map's order, on an
// address or on what was rendered before)
var failingPieces = []string{
	`<%= sx %>`, `<%= ix %>`, `<%= tx %>`, `<%= ax %>`, `<%= mx %>`, `<%= ann.Nope %>`, `<%= ann.Nope() %>`, `<%= nilp.Name %>`, `<%= arr[9] %>`, `<%= m3[1] %>`, `<%= 1 / 0 %>`, `<%= "a" ~= "(" %>`,
	`<%= len(1) %>`, `<%= id() %>`, `<%= truncate(1) %>`, `<%= ann.Say(1) %>`, `<% strs[0] = 1 %>`, `<%= ints["a"] %>`, `<%= undefinedfn(1) %>`, `<%= partial("zzz") %>`,
	`<%= ann.Say("a", "b") %>`, `<%= m3 + 1 %>`, `<%= ann + 1 %>`, `<%= toJSON(id) %>`, `<%= for (x) in 5 { %><% } %>`, `<%= for (x) in ann { %><% } %>`, `<%= objs[0].nm7 %>`, `<%= range("a", m3) %>`, `<%= ann.Meta.k %>`,
	`<%= truncate(m3) %>`, `<%= truncate(ann) %>`, `<%= ann.Say(m3) %>`, `<%= ann.Say(objs) %>`, `<%= ann.Say(mnest) %>`, `<%= truncate({z: 1, y: 2, x: 3, w: [1, {b: 1, a: 2}]}) %>`, `<%= len(m3, m3, strs) %>`, `<%= m3[ann] %>`, `<%= mi["x"] %>`,
	`<%= boom() %>`, `<%= pnk() %>`, `<%= tick(1) + m3 %>`, `<%= "x" + 1 + m3 + ann.Nope %>`,
}

var richPartials = map[string]string{"px": `[<%= x %>]`, "pv": `(<%= v %>)`, "rp": `<%= if (inp) { %>stale<% } %><% let inp = 1 %>p`, "n1": `a<%= partial("n2") %>`, "n2": `b<%= partial("n3") %>`, "n3": `c<%= i1 %>`}

// templates at the edges of the grammar and of size
func boundaryTemplates() []string {
	out := []string{"", " ", "\n", "plain text only", "<%", "%>", "<%=", "<% %>", "<%= %>", "<%=%>", "\\<% not a tag %>", "<%% x %>", "<%# c %>", "<%#\n%>x", "<%= 1 %", "<%= \"a\" %>\n"}
	out = append(out, strings.Repeat("<%= i1 %> ", 400), strings.Repeat("text ", 20000))
	out = append(out, strings.Repeat("<%= if (t) { %>(", 40)+"x"+strings.Repeat(")<% } %>", 40))
	var kv, el []string
	for i := 0; i < 200; i++ {
		kv = append(kv, fmt.Sprintf("k%d: %d", i%150, i)) // the last 50 keys repeat earlier ones
		el = append(el, fmt.Sprint(i))
	}
	out = append(out, `<% let h = {`+strings.Join(kv, ", ")+`} %><%= h["k7"] %>,<%= h["k149"] %>,<%= len(h) %>`, `<% let a = [`+strings.Join(el, ", ")+`] %><%= a[199] %>,<%= len(a) %>`)
	return out
}

// templates that fail (or forgive a failure) on every execution, and one that must go on working however often they failed
var stormers = []Tmpl{
	{Src: `<%= partial("bad") %>`},
	{Src: `<%= partial("p") %>`, Partials: map[string]string{"p": `x<%= nosuch %>`}},
	{Src: `<%= partial("p") %>`, Partials: map[string]string{"p": `x<%= ( %>`}},
	{Src: `<%= partial("p", {layout: "lay"}) %>`, Partials: map[string]string{"p": `x`, "lay": `<%= yield %><%= nosuch %>`}},
	{Src: `<%= if (nosuch()) { %>x<% } %><%= nosuch() == nil %><%= !nosuch() %>ok`},
	{Src: `<%= boom() %>`},
	{Src: `<%= pnk() %>`},
	{Src: `<%= id(boom()) %>`},
	{Src: `<%= for (x) in arr { %><%= partial("p") %><% } %>`, Partials: map[string]string{"p": `<%= arr[5] %>`}},
	{Src: `<%= blk() { %>a<%= nosuch %><% } %>`},
	{Src: `<%= contentOf("none") %>`},
	{Src: `<% let a = [[1]] %><%= a %><%= a[0][3] %>`},
	{Src: `<%= ( %>`},
	{Src: `<% let f = fn(n) { if (n > 12) { return nosuch } return f(n + 1) } %><%= f(0) %>`}, // fails 12 calls deep
}

// hostile neighbours: templates the parser refuses in ways that leave it in an unusual state (code nested deeper than
// any limit, in every nesting construct; input that ends inside a string, a comment, a tag, a block; 200 errors in a
// row). Parsing one of them must leave nothing behind that the NEXT parse - of another text - notices.
func hostileNeighbours() []Tmpl {
	deep := 10050
	var out []Tmpl
	add := func(src string) { out = append(out, Tmpl{Src: src}) }
	add("<%= " + strings.Repeat("(", deep) + "1" + strings.Repeat(")", deep) + " %>")
	add("<%= " + strings.Repeat("[", deep) + "1" + strings.Repeat("]", deep) + " %>")
	add("<%= " + strings.Repeat("!", deep) + "true %>")
	add("<%= " + strings.Repeat("f(", deep) + "1" + strings.Repeat(")", deep) + " %>")
	add("<%= 1" + strings.Repeat(" + (1", deep) + strings.Repeat(")", deep) + " %>")
	add(strings.Repeat("<% if (true) { %>", deep) + "x" + strings.Repeat("<% } %>", deep))
	add(strings.Repeat("<% for (x) in [1] { %>", deep) + "x" + strings.Repeat("<% } %>", deep))
	add("<% let f = " + strings.Repeat("fn() { return ", deep) + "1" + strings.Repeat(" }", deep) + " %>")
	add("<%= " + strings.Repeat("{a: ", deep) + "1" + strings.Repeat("}", deep) + " %>")
	add("<%= " + strings.Repeat("(", deep)) // and the input ends there
	add(`a<%= "never closed`)
	add("a<%# never closed")
	add("a<%= if (true) { %>never closed")
	add("a<%= for (x) in [1, 2] { %>never closed<% break ")
	add(strings.Repeat("<%= ) %>", 200))
	add("<% let f = fn() { %>never closed")
	return out
}

var canary = Tmpl{Src: `<%= partial("n1") %>|<% let f = fn(n) { if (n > 0) { return f(n - 1) + 1 } return 0 } %><%= f(8) %>|<%= blk() { %>in<%= i1 %><% } %>|<%= for (x) in [[1, 2], [3]] { %><%= x %><% } %>|<%= contentOf("d") { %>dflt<% } %>`,
	Partials: map[string]string{"n1": `a<%= partial("n2") %>`, "n2": `b<%= partial("n3") %>`, "n3": `c<%= i1 %>`}}

func richShape(t *rapid.T) Tmpl {
	n := rapid.IntRange(1, 7).Draw(t, "pieces")
	var b strings.Builder
	for i := 0; i < n; i++ {
		b.WriteString(rapid.SampledFrom(richPieces).Draw(t, "piece"))
		if rapid.IntRange(0, 3).Draw(t, "gap") == 0 {
			b.WriteString(rapid.SampledFrom([]string{" ", "\n", "  \n ", "-"}).Draw(t, "ws"))
		}
	}
	if rapid.IntRange(0, 5).Draw(t, "fails") == 0 {
		b.WriteString(rapid.SampledFrom(failingPieces).Draw(t, "failing"))
	}
	return Tmpl{Src: b.String(), Data: "rich", Partials: richPartials}
}

// tags the parser rejects (each verified to be a parse error on its own)
var broken = []string{`<%= ( %>`, `<% break %>`, `<%= {"a": } %>`, `<% if %>`, `<% let = 1 %>`, `<% let x 1 %>`, `<%= [1, %>`, `<% for (x) in { %>`, `<%= fn( %>`, `<%= a.b.( %>`,
	`<% continue %>`, `<%= 1 ) %>`, `<%= if (true) %>`, `<% else %>`, `<%= x[ %>`, `<%= @ %>`, `<% let a = [1,2 %>`, "<%\n\n= ( %>"}

// breakIt plants one rejected tag in front of a tag of the template (or at its end).
func breakIt(t *rapid.T, base Tmpl) Tmpl {
	bad := rapid.SampledFrom(broken).Draw(t, "broken")
	at := []int{len(base.Src)}
	for i := 0; i+1 < len(base.Src); i++ {
		if base.Src[i] == '<' && base.Src[i+1] == '%' {
			at = append(at, i)
		}
	}
	pos := rapid.SampledFrom(at).Draw(t, "at")
	base.Src = base.Src[:pos] + bad + base.Src[pos:]
	base.Prog = nil
	return base
}

var twinKinds = []string{"space after", "space before", "newline after", "newline before", "tab and newline around", "one digit changed", "one letter's case changed", "two bytes swapped", "last byte dropped", "first byte doubled"}

// twin derives a template whose text differs from base as little as a text can: the cache must still tell them apart.
func twin(t *rapid.T, base Tmpl) Tmpl {
	s := base.Src
	pick := func(ok func(c byte) bool) int {
		var at []int
		for i := 0; i < len(s); i++ {
			if ok(s[i]) {
				at = append(at, i)
			}
		}
		if len(at) == 0 {
			return -1
		}
		return rapid.SampledFrom(at).Draw(t, "pos")
	}
	switch rapid.IntRange(0, len(twinKinds)-1).Draw(t, "twin") {
	case 0:
		s += " "
	case 1:
		s = " " + s
	case 2:
		s += "\n"
	case 3:
		s = "\n" + s
	case 4:
		s = "\t" + s + "\n"
	case 5:
		if i := pick(func(c byte) bool { return c >= '0' && c <= '9' }); i >= 0 {
			s = s[:i] + string('0'+(s[i]-'0'+1)%10) + s[i+1:]
		} else {
			s += "1"
		}
	case 6:
		if i := pick(func(c byte) bool { return c >= 'a' && c <= 'z' }); i >= 0 {
			s = s[:i] + string(s[i]-32) + s[i+1:]
		} else {
			s += "a"
		}
	case 7:
		if len(s) >= 2 {
			i := rapid.IntRange(0, len(s)-2).Draw(t, "swap")
			s = s[:i] + string(s[i+1]) + string(s[i]) + s[i+2:]
		}
	case 8:
		if len(s) > 0 {
			s = s[:len(s)-1]
		}
	default:
		if len(s) > 0 {
			s = s[:1] + s
		}
	}
	base.Src = s
	base.Prog = nil
	return base
}

// ---- near-duplicates: texts a cache key must keep apart ---------------------------------------------

type variant struct{ kind, src string }

// sitePoints lists byte offsets of a template text by the site they lie in: 0 = literal text, 1 = inside a string
// literal of a tag, 2 = code of a tag (after a blank, before the closer). It only steers generation (where to plant a
// difference); nothing is asserted from it.
func sitePoints(s string) [3][]int {
	var pts [3][]int
	inTag, quote := false, false
	for i := 0; i < len(s); i++ {
		switch {
		case !inTag:
			if strings.HasPrefix(s[i:], "<%") {
				inTag = true
				i++
				continue
			}
			pts[0] = append(pts[0], i)
		case quote:
			pts[1] = append(pts[1], i)
			if s[i] == '\\' {
				i++
			} else if s[i] == '"' {
				quote = false
			}
		default:
			if strings.HasPrefix(s[i:], "%>") {
				inTag = false
				pts[2] = append(pts[2], i)
				i++
				continue
			}
			if s[i] == '"' {
				quote = true
			} else if s[i] == ' ' || s[i] == '\n' {
				pts[2] = append(pts[2], i+1)
			}
		}
	}
	return pts
}

var siteNames = [3]string{"literal text", "string literal", "code"}

// blanks a text may differ by at one point
var pointFillers = []string{" ", "\t", "\n", "\r\n", "\r", "\n\r", "  ", " \n", "\u00a0", "\x00"}

// what a text may differ by at its start or end
var endFillers = []string{" ", "\t", "\n", "\r\n", "\r", "\x00", "\ufeff", "\u00a0", "\u200b", "\u00e9", "e\u0301", "\xff", "\ufffd", "K", "\u212a", "k"}

// bump gives s with the k-th (0 = first, 1 = middle, 2 = last) letter or digit replaced by the next one (same length) or, with
// flip, with the k-th letter in the other case; "" if there is none.
func bump(s string, k int, flip bool) string {
	var at []int
	for i := 0; i < len(s); i++ {
		c := s[i]
		if c >= 'a' && c <= 'z' || c >= 'A' && c <= 'Z' || !flip && c >= '0' && c <= '9' {
			at = append(at, i)
		}
	}
	if len(at) == 0 {
		return ""
	}
	i := at[[]int{0, len(at) / 2, len(at) - 1}[k]]
	c := s[i]
	switch {
	case flip:
		c ^= 0x20
	case c == 'z' || c == 'Z' || c == '9':
		c -= 'z' - 'a' // 'z'-'a' == 25; '9' becomes a control byte: take '0' instead
		if s[i] == '9' {
			c = '0'
		}
	default:
		c++
	}
	return s[:i] + string(c) + s[i+1:]
}

// nearDuplicates gives the text itself and texts that differ from it as little as texts can, in the ways a cache key
// that is not the full text (a normalised, trimmed, folded, truncated, hashed-in-part or re-encoded text) would confuse.
func nearDuplicates(s string, pad int) []variant {
	out := []variant{{"the text itself", s}}
	seen := map[string]bool{s: true}
	add := func(kind, v string) {
		if !seen[v] {
			seen[v] = true
			out = append(out, variant{kind, v})
		}
	}
	// line endings: all of them, one of them, mixed
	lf := strings.ReplaceAll(strings.ReplaceAll(s, "\r\n", "\n"), "\r", "\n")
	add("line endings: LF", lf)
	add("line endings: CRLF", strings.ReplaceAll(lf, "\n", "\r\n"))
	add("line endings: CR", strings.ReplaceAll(lf, "\n", "\r"))
	add("line endings: LF CR", strings.ReplaceAll(lf, "\n", "\n\r"))
	if i := strings.Index(lf, "\n"); i >= 0 {
		add("line endings: first one CRLF", lf[:i]+"\r\n"+lf[i+1:])
		add("line endings: first one CR", lf[:i]+"\r"+lf[i+1:])
		j := strings.LastIndex(lf, "\n")
		add("line endings: last one CRLF", lf[:j]+"\r\n"+lf[j+1:])
		parts := strings.Split(lf, "\n")
		mixed := parts[0]
		for k, p := range parts[1:] {
			mixed += []string{"\r\n", "\n", "\r"}[k%3] + p
		}
		add("line endings: mixed", mixed)
		add("line endings: a blank before each", strings.ReplaceAll(lf, "\n", " \n"))
		add("line endings: doubled", strings.ReplaceAll(lf, "\n", "\n\n"))
	}
	// start and end
	for _, e := range endFillers {
		add(fmt.Sprintf("%q appended", e), s+e)
		add(fmt.Sprintf("%q prepended", e), e+s)
	}
	add("trimmed", strings.TrimSpace(s))
	add("trimmed right", strings.TrimRight(s, " \t\r\n"))
	add("blanks collapsed", strings.Join(strings.Fields(s), " "))
	add("doubled", s+s)
	// tabs and spaces
	add("spaces -> tabs", strings.ReplaceAll(s, " ", "\t"))
	add("tabs -> spaces", strings.ReplaceAll(s, "\t", "    "))
	add("double spaces -> one", strings.ReplaceAll(s, "  ", " "))
	add("spaces -> no-break spaces", strings.ReplaceAll(s, " ", "\u00a0"))
	// case and look-alikes
	add("upper case", strings.ToUpper(s))
	add("lower case", strings.ToLower(s))
	for k, where := range []string{"first", "middle", "last"} {
		add(where+" letter's case flipped", bump(s, k, true))
		add(where+" letter or digit replaced by the next (same length)", bump(s, k, false))
	}
	for _, p := range [][2]string{{"a", "\u0430"}, {"o", "\u03bf"}, {"e", "\u0435"}, {"\u00e9", "e\u0301"}, {"&", "&amp;"}, {"<", "&lt;"}, {"\"", "&#34;"}, {"'", "\""}} {
		add(fmt.Sprintf("first %q -> %q", p[0], p[1]), strings.Replace(s, p[0], p[1], 1))
	}
	// a difference planted at the first and the last point of each site
	pts := sitePoints(s)
	for site, ps := range pts {
		if len(ps) == 0 {
			continue
		}
		for _, at := range []int{ps[0], ps[len(ps)-1]} {
			for _, f := range pointFillers {
				add(fmt.Sprintf("%q inserted in %s", f, siteNames[site]), s[:at]+f+s[at:])
			}
		}
	}
	// equal up to a long common prefix / suffix / both
	if pad > 0 {
		p := strings.Repeat("0123456789abcde\n", pad/16)
		for k, where := range []string{"start", "middle", "end"} {
			if b := bump(s, k, false); b != "" {
				add("long common prefix, the text", p+s)
				add("long common prefix, one byte at the "+where+" differs", p+b)
				add("long common suffix, the text", s+p)
				add("long common suffix, one byte at the "+where+" differs", b+p)
				add("long common prefix and suffix, the text", p+s+p)
				add("long common prefix and suffix, one byte at the "+where+" differs", p+b+p)
			}
		}
	}
	delete(seen, "") // bump's "none"
	return out
}

// a variant that might newly name the one Go map of the data with several entries could show the licensed variation
func mayShowMapOrder(base, v string) bool {
	return strings.Contains(v, "m3") && !strings.Contains(base, "m3")
}

// dupSites: "¤" is the slot that the members of a family fill differently, "§" a number new for every family (the
// cache is global: a text rendered earlier in the process must not hide a confusion).
var dupSites = []Tmpl{
	{Src: "fam§ line one¤line two <%= i1 %>"},
	{Src: "¤<p>fam§\n<%= i1 %></p>"},
	{Src: "<p>fam§<%= i1 %></p>¤"},
	{Src: "fam§<%= i1 %>¤<%= i2 %>"},
	{Src: `fam§<%= "a¤b" %>|`},
	{Src: `fam§<% let s = "x¤y" %><%= s + "¤" %>|<%= len(s) %>|<%= s == "x y" %>`},
	{Src: `fam§<%= {"k¤": 1}["k "] %>|<%= {"k¤": 1}["k¤"] %>`},
	{Src: `fam§<%= partial("px", {x: "[¤]"}) %>`, Partials: richPartials},
	{Src: "fam§<%= i1 +¤i2 %>"},
	{Src: "fam§<%=¤i1 %>|<%= i2¤%>"},
	{Src: "fam§<%= if (t) {¤%>yes<% }¤else { %>no<% } %>"},
	{Src: "fam§<%= for (x) in [1, 2] { %>¤<%= x %><% } %>"},
	{Src: "fam§<% let f = fn(a) {¤return a + 1¤} %><%= f(1) %>"},
	{Src: "fam§<%= blk() { %>a¤b<% } %>|<%= contentOf(\"d\") { %>d¤e<% } %>"},
	{Src: "fam§<%# note¤here %>after"},
	{Src: "fam§<%= s¤3 %>|<%= s3¤ %>"},
}

var slotFillers = []string{"\n", "\r\n", "\r", "\n\r", "\r\r\n", "\n\n", "\r\n\r\n", " \n", "\n ", " \r\n", "\t\n", " ", "  ", "\t", "    ", " \t", "", "\x00", "\ufeff", "\u00a0", "\u200b", "\u2028", "\u0085", "\v", "\f",
	"\u00e9", "e\u0301", "\u00c9", "E\u0301", "K", "\u212a", "k", "fi", "\ufb01", "\u00df", "ss", "SS", "\xff", "\ufffd", "\xc3", "A", "a", "\u0430", "&", "&amp;", "&#38;", "<", "&lt;", `\n`, `\r\n`, "0", "1", "\uff10", "%", "%%"}

// dupActions: every text first through a fresh parse with the cache off (its own reference), then the texts in
// turn (A, B, C, ..., A, B, C, ...) through every route that looks the text up in the cache, backwards, and cache-off again.
func dupActions(n int) [][2]int {
	var acts [][2]int
	for i := 0; i < n; i++ {
		acts = append(acts, [2]int{i, aNew})
	}
	for _, route := range []int{aAsIs, aParseExec, aBuffaloCache, aCachedTwice} {
		for i := 0; i < n; i++ {
			acts = append(acts, [2]int{i, route})
		}
	}
	for i := n - 1; i >= 0; i-- {
		acts = append(acts, [2]int{i, aAsIs})
	}
	for i := 0; i < n; i++ {
		acts = append(acts, [2]int{i, aRender})
	}
	return acts
}

// ---- names that must not travel from one template to another ----------------------------------------

// "§" stands for a number that is new for every history: a name that leaked earlier in the process must not hide a leak
var definers = []Tmpl{
	{Src: `<% let shared§ = 5 %><%= shared§ %>`},
	{Src: `<% let sf§ = fn(x) { return x + 1 } %><%= sf§(1) %>`},
	{Src: `<% contentFor("scf§") { %>CF<% } %><%= contentOf("scf§") %>`},
	{Src: `<%= partial("sp§") %>`, Partials: map[string]string{"sp§": `<% let inpart§ = 1 %>P<%= inpart§ %>`}},
	{Src: `<%= for (lv§) in two { %><%= lv§ %><% } %>`},
	{Src: `<% let sh§ = {a: 1} %><% sh§["a"] = 2 %><%= sh§["a"] %>`},
	{Src: `<%= objs[0].nm§ %>`, Data: "rich"}, // the name as a member selected from an element / a call result (fails: no such field)
	{Src: `<%= id(ann).nm§ %>|<%= ann.nm§ %>`, Data: "rich"},
	{Src: `<% let shared§ = 5 %><% let sf§ = fn(x) { return x + 1 } %><% contentFor("scf§") { %>CF<% } %><%= for (lv§) in two { %><%= lv§ %><% } %><%= partial("sp§") %><%= shared§ %><%= sf§(1) %><%= contentOf("scf§") %>`,
		Partials: map[string]string{"sp§": `<% let inpart§ = 1 %><% let sf2§ = fn() { return 2 } %><% contentFor("scf2§") { %>in partial<% } %>P<%= inpart§ %>`}},
}

var users = []Tmpl{
	{Src: `<%= shared§ %>`},
	{Src: `[<%= shared§ == nil %>|<%= if (sf§) { %>sf<% } else { %>none<% } %>|<%= if (sh§) { %>sh<% } %>]`},
	{Src: `<%= sf§(2) %>`},
	{Src: `<%= contentOf("scf§") %>`},
	{Src: `<%= contentOf("scf§") { %>fallback<% } %>|<%= contentOf("scf2§") { %>fallback2<% } %>`},
	{Src: `<%= partial("sp§") %>`},
	{Src: `<%= partial("sp§") %>`, Partials: map[string]string{"sp§": `other text <%= i1 %>`}},
	{Src: `<%= if (lv§) { %>lv<% } %>|<%= if (inpart§) { %>inpart<% } %>|<%= sf2§() %>`},
	{Src: `<% let nm§ = "v" %><%= nm§ %>|<%= if (nm§) { %>set<% } %>`},
	{Src: `<% let shared§ = 1 %><% let sf§ = fn(x) { return x * 2 } %><% contentFor("scf§") { %>own<% } %><%= shared§ %><%= sf§(3) %><%= contentOf("scf§") %>`},
}

// numbered replaces "§" by n in the text, the partial names and the partial texts.
func numbered(t Tmpl, n int64) Tmpl {
	id := fmt.Sprint(n)
	out := Tmpl{Src: strings.ReplaceAll(t.Src, "§", id), Data: t.Data}
	for k, v := range t.Partials {
		if out.Partials == nil {
			out.Partials = map[string]string{}
		}
		out.Partials[strings.ReplaceAll(k, "§", id)] = strings.ReplaceAll(v, "§", id)
	}
	return out
}

const rule = "templates: (1) random programs over all constructs (shared generator; some with planted faults so that errors must be deterministic too) spliced with hash literals of 3-5 entries whose values call a recording helper and with duplicate keys; (2) SHAPES written as text over richer data (maps, structs with a nested pointer, a method with per-instance state, a recording method, a value-receiver method, typed slices, a time, an iterator, a helper that counts per context): hash literals of 0..12 entries over a 6-key pool (identifier and string keys, duplicate keys, values that record / count / are literals only / nest) used in place, through let, in a loop body and a function body entered several times, as data of a partial and of contentOf, nested in arrays and hashes, encoded whole, and assigned to after they were made; array literals of 0..6 elements likewise; 1-7 pieces out of 77 (among them a struct value whose Go type alternates, from execution to execution and within one render, between two types that print alike and hold the same fields in another order; among them helpers that fill defaults into the options map they are given - omitted, empty, with an entry -; sometimes followed by one of 42 pieces that fail: unknown names, missing members, bad indexes and arguments whose printed form holds maps and pointers, failing and panicking helpers) over the rich data (member paths, methods, built-in helpers, iterators, names read before they are made inside a loop body / function body / helper block / partial / stored block that is entered twice, for over a Go map only where the order cannot show: no entry, one entry, a body blind to the entry); (3) any of these with one tag the parser rejects planted in front of one of its tags (18 rejected tags); (4) TWINS: a template of the history again with a minimal difference (white space before/after, one digit, one letter's case, two bytes swapped, last byte dropped, first byte doubled); plus (E) each of the 77 + 42 pieces on its own, the 277 templates harvested from the repository's tests, 9 hash-literal snippets, 21 boundary templates (empty, a lone tag opener or closer, escaped opener, 400 tags, 100 kB of text, 40 nested ifs, a 200-entry hash and array literal) and a partial that includes itself (overlapping executions of one cached template object). Histories: 1-3 templates x up to 14 interleaved actions from 15 routes {Exec again on the parsed template, NewTemplate+Exec, Clone+Exec, Render with the cache off, Render with the cache on and cold (text made unique by a leading comment tag), Render cache-on warm, Parse through the cache then Exec, Exec twice on the cached object, BuffaloRenderer cache off / on, RenderR, a zero-value Template{Input} that parses in its first Exec + second Exec + Clone, Parse() again then Exec, Clone of a Clone then the original, Render with the cache on under the text as it is}; a template the parser rejects goes through the same routes (Exec / Clone on the Template returned next to the error; the text of the error value held from the first parse is read again at every step); context data rebuilt fresh-but-equal for every execution. (E) every template x all 15 actions x 2 rounds; (E) long runs: one route repeated 40 times (Exec, Clone, warm cache, cached object) for the snippets, every 8th harvested template and fixed templates with white-space-only text between tags; (E) error storms: 14 templates that fail or forgive a failure (partial feeder / render / parse error inside a partial and its layout, a forgiven unknown function, a helper that fails or panics, a failure in a helper block, in a loop, a missing block, a parse error, a failure 12 calls deep in a recursion) executed 1100 times in a row on three routes between executions of a healthy template (nested partials, recursion, helper block, nested arrays, default block) that then goes through all routes; (E) hostile neighbours: 16 templates the parser refuses in an unusual state (code nested 10050 levels deep in each of 9 nesting constructs - the parser's nesting limit -, input that ends inside a string / comment / tag / block / function literal, 200 syntax errors in a row) parsed through every route (quick: 5) between executions of 4 healthy templates, which then go through all 15 routes and are parsed cold again; (E) name leaks: [user, definer, user, definer, user] for 10 templates that only USE a name (let variable, function, contentFor block, partial, loop variable, names made inside a partial; or that make it for themselves) x definers of these names (also as a member name after an index or a call) x every route for the definer (quick: 5 routes) x every route for the user, the names numbered afresh for every history; (E)+(R) NEAR-DUPLICATES (added later): families of DIFFERENT texts that a cache key other than the full text (normalised, trimmed, case-folded, re-encoded, truncated, hashed in part) would take for one: 16 sites with a slot (literal text at the start / inside / at the end / between tags, a string literal printed / bound and compared / as hash key / passed to a partial, code between operands / at a tag's edges / around block braces / in a function body, block bodies, a comment, inside a name) x 55 fillers of the slot (LF, CRLF, CR, LF CR, doubled and blank-padded line breaks, space / two / four spaces / tab, nothing, NUL, BOM, no-break / zero-width space, U+2028, NEL, VT, FF, composed vs decomposed accents, Kelvin sign vs K vs k, ligature vs letters, sharp s vs ss vs SS, an ill-formed byte vs U+FFFD, Latin vs Cyrillic a, & vs its entities, an escape sequence vs the character, ASCII vs full-width digit) as one family of 55 texts, forwards and backwards, each family numbered afresh; every pool template (hash snippets, harvested templates, pieces over the rich data, the sites; quick: every 8th) with all its near-duplicates (91 texts on average, up to ~150) as one family: line endings converted all / the first / the last / mixed, 16 things appended and prepended, trimmed, blanks collapsed, tabs <-> spaces, upper / lower case and one letter's case at the start / middle / end, one letter or digit replaced by the next at the start / middle / end (same length), look-alike letters, entities, 10 blanks inserted at the first and the last point of each site (literal text, string literal, code), and the text and its one-byte variants behind a 4-16 kB common prefix, before a common suffix, between both; (R) a generated / harvested / site template with 1-5 of its near-duplicates (those, plus fillers inserted or put in place of a blank at random points of a random site). History of a family: every text first through a fresh parse with the cache off (its own reference), then the texts in turn (A, B, C, ..., A, B, C, ...) through each route that looks the text up in the cache (Render as is, Parse+Exec, BuffaloRenderer, cached object twice), then backwards, then cache off again ((R): 2-5 random actions per text over these routes and Exec / Render / re-Parse); each text must give what its own first execution gave - no expectation about what a variant means is used, a variant the parser rejects must be rejected the same way every time. Not asserted: a variant that newly names the one multi-entry Go map of the data (counted as excluded). (R) random histories over (1), and over (1)-(4) mixed. Oracle: every (output, error text with addresses normalised, recorded helper invocation order) equals the first result for that template; the deep structural hash of the parsed program (all fields incl. token lines, pointer topology, H1 accessor) and the Input are identical after every Exec, also for the cached object around a warm render. Excluded by construction: for over Go maps / multi-entry hash literals where the order can show (the licensed variation); printing pointers (addresses are not data). Non-trivial = histories of >= 3 actions; distinct by (templates, actions)."

func setup(t *testing.T) *vk.Run {
	r := vk.Start(t, "C13", rule,
		"equal data = the same constructors run again; functions compare by behaviour, not by address",
		"the hook H1 (build tag verif) exposes the parsed program read-only",
		"one process, sequential: the global CacheEnabled flag is switched per action and restored")
	r.Replayer("history", func(raw json.RawMessage) *vk.Fail {
		var c Case
		if f := vk.Decode(raw, &c); f != nil {
			return f
		}
		if len(c.Templates) == 0 {
			return &vk.Fail{Kind: "decode", Msg: "no templates"}
		}
		// determinism failures are probabilistic (map order): replay a few times (long histories repeat in themselves)
		reps := 40
		if len(c.Actions) > 60 {
			reps = 3
		}
		for i := 0; i < reps; i++ {
			if f := runCase(r, c, "replay"); f != nil {
				return f
			}
		}
		return nil
	})
	return r
}

func TestReplay(t *testing.T) { setup(t).ReplayEnv() }

func TestProp(t *testing.T) {
	r := setup(t)
	defer r.Finish()
	r.ReplayCommitted()

	// E: every harvested template and every hash snippet through all actions, twice
	var all [][2]int
	for round := 0; round < 2; round++ {
		for a := range actionNames {
			all = append(all, [2]int{0, a})
		}
	}
	srcs := append(append(append([]string{}, hashSnippets...), corpus.Templates()...), boundaryTemplates()...)
	var n int64
	for i, s := range srcs {
		if !r.Mine(int64(i)) {
			continue
		}
		reps := 1
		if i < len(hashSnippets) {
			reps = r.Pick(30, 200) // map-order dependence shows up with probability < 1 per run
		}
		for k := 0; k < reps; k++ {
			r.Check(runCase(r, Case{Templates: []Tmpl{{Src: s}}, Actions: all}, "corpus"))
			n++
		}
	}
	// every piece of the rich pool on its own, through all actions twice
	for i, pc := range append(append([]string{}, richPieces...), failingPieces...) {
		if r.Mine(int64(i)) {
			r.Check(runCase(r, Case{Templates: []Tmpl{{Src: pc, Data: "rich", Partials: richPartials}}, Actions: all}, "corpus"))
			n++
		}
	}
	// a partial that includes itself: with the cache on, the nested Render gets the SAME cached *Template as the
	// execution it is called from, so two executions of one template object overlap
	self := `<%= n %>(<%= if (n > 0) { %><%= partial("self", {n: n - 1}) %><% } %>)<%= n %>`
	rec := Tmpl{Src: `[<%= partial("self", {n: i2}) %>|<%= partial("self", {n: i1}) %>]`, Partials: map[string]string{"self": self}}
	for k := 0; k < 3; k++ {
		r.Check(runCase(r, Case{Templates: []Tmpl{rec, {Src: self + `<% let n = 1 %>`, Partials: map[string]string{"self": self}}}, Actions: append(append([][2]int{}, all...), [2]int{1, 4}, [2]int{1, 5}, [2]int{0, 5}, [2]int{1, 6})}, "recursive-partial"))
		n++
	}
	r.Subspace("harvested templates, hash snippets, boundary templates, the 71 + 42 pieces over the rich data and a self-including partial x all 15 actions x 2 rounds", n, true)

	// E: long runs of one route: state that builds up per template object or per cache entry (a use counter, say)
	// shows only after many executions
	long := []Tmpl{{Src: "<%= i1 %> <%= i2 %>\n<%= s3 %>  \n"}, {Src: " <% let a = 1 %> \n <%= a %> \n"}, {Src: "<%= for (x) in arr { %> <%= x %> <% } %> \t <%= t %>"},
		{Src: `<%= ann.Count() %> <%= for (o) in objs { %> <%= o.Count() %> <% } %> <%= tick() %>`, Data: "rich"}}
	for _, s := range hashSnippets {
		long = append(long, Tmpl{Src: s})
	}
	for i, s := range corpus.Templates() {
		if i%8 == 0 {
			long = append(long, Tmpl{Src: s})
		}
	}
	n = 0
	for i, tm := range long {
		if !r.Mine(int64(i)) {
			continue
		}
		for _, a := range []int{aExec, aClone, aWarm, aCachedTwice} {
			acts := [][2]int{{0, aRender}}
			for k := 0; k < 40; k++ {
				acts = append(acts, [2]int{0, a})
			}
			acts = append(acts, [2]int{0, aNew})
			r.Check(runCase(r, Case{Templates: []Tmpl{tm}, Actions: acts}, "long-run"))
			n++
		}
	}
	r.Subspace("long runs: templates x {Exec, Clone, warm cache, cached object} x 40 repetitions", n, true)

	// E: error storms: a template that fails (or forgives a failure) 1100 times in a row - more often than any depth
	// limit counts - must fail the same way every time, and must leave nothing behind that a healthy template notices
	n = 0
	for i, sm := range stormers {
		if !r.Mine(int64(i)) {
			continue
		}
		for _, route := range []int{aRender, aParseExec, aExec} {
			acts := [][2]int{{0, aRender}, {0, aExec}}
			for k := 0; k < 1100; k++ {
				acts = append(acts, [2]int{1, route})
			}
			for a := range actionNames {
				acts = append(acts, [2]int{0, a})
			}
			r.Check(runCase(r, Case{Templates: []Tmpl{canary, sm}, Actions: acts}, "storm"))
			n++
		}
	}
	r.Subspace("error storms: failing templates x {Render, cached object, Exec again} x 1100 repetitions around a healthy template", n, true)

	// E: hostile neighbours: [healthy, hostile, healthy through every route] for every route of the hostile one
	n = 0
	cellH := int64(0)
	healthy := []Tmpl{canary, {Src: `a<%= i1 %>b<%= for (x) in [1, 2] { %>[<%= x %>]<% } %><% let f = fn(y) { return y + 1 } %><%= f(2) %>`}, {Src: "<p>seeded-demo mark</p>"},
		{Src: `<%= if (t) { %>(<%= if (!f) { %>in<% } else { %>no<% } %>)<% } %><%= {a: 1}["a"] %><%= [[1, 2], [3]][0][1] %>`}}
	for ni, hn := range hostileNeighbours() {
		slow := ni >= 5 && ni <= 7 // 10050 nested BLOCKS take seconds to refuse
		for hi, ht := range healthy {
			for rh := range actionNames {
				if r.Quick() && (rh != aNew && rh != aRender && rh != aCold && rh != aLazy && rh != aParseExec || hi > 1) {
					continue
				}
				if slow && (r.Quick() && (rh != aNew || hi > 0) || rh != aNew && rh != aRender && rh != aCold && rh != aLazy) {
					continue
				}
				cellH++
				if !r.Mine(cellH) {
					continue
				}
				acts := [][2]int{{0, aRender}, {1, rh}}
				for a := range actionNames {
					acts = append(acts, [2]int{0, a})
				}
				acts = append(acts, [2]int{1, rh}, [2]int{0, aCold}, [2]int{0, aWarm}, [2]int{0, aNew})
				r.Check(runCase(r, Case{Templates: []Tmpl{ht, hn}, Actions: acts}, "hostile-neighbour"))
				n++
			}
		}
	}
	r.Subspace("hostile neighbours: 16 templates the parser refuses in an unusual state (code nested 10050 deep in each of 9 nesting constructs, input ending inside a string / comment / tag / block / function, 200 errors in a row) x route, between executions of 4 healthy templates that then go through all routes", n, true)

	// E: a name made by one template must not reach another template, whatever routes the two take
	n = 0
	defs := definers[len(definers)-3:]
	if r.Thorough() {
		defs = definers
	}
	var cell int64
	for _, d := range defs {
		for _, u := range users {
			for rd := range actionNames {
				if r.Quick() && rd != aExec && rd != aRender && rd != aWarm && rd != aParseExec && rd != aLazy {
					continue
				}
				for ru := range actionNames {
					cell++
					if !r.Mine(cell) {
						continue
					}
					c := Case{Templates: []Tmpl{numbered(u, cell), numbered(d, cell)}, Actions: [][2]int{{0, aRender}, {1, rd}, {0, ru}, {1, rd}, {0, ru}}}
					r.Check(runCase(r, c, "name-leak"))
					n++
				}
			}
		}
	}
	r.Subspace("name leaks: users x definers x route of the definer x route of the user, history [user, definer, user, definer, user]", n, true)

	// E: near-duplicates. A cache must keep apart what differs, however little: families of texts that differ only in
	// their line endings, blanks, case, look-alike or ill-formed characters, a NUL or a BOM, or in one byte behind / before a
	// long common part - in literal text, in a string literal, in code - go through the cache in turn; each must
	// give what its own fresh parse gave.
	n = 0
	var fam int64
	for _, site := range dupSites {
		for _, backwards := range []bool{false, true} {
			fam++
			if !r.Mine(fam) {
				continue
			}
			var c Case
			for _, f := range slotFillers {
				tm := numbered(site, fam)
				tm.Src = strings.ReplaceAll(tm.Src, "¤", f)
				if backwards {
					c.Templates = append([]Tmpl{tm}, c.Templates...)
				} else {
					c.Templates = append(c.Templates, tm)
				}
			}
			c.Actions = dupActions(len(c.Templates))
			r.Check(runCase(r, c, "near-duplicates"))
			n++
		}
	}
	r.Subspace(fmt.Sprintf("near-duplicates: %d sites (literal text at the start / inside / at the end / between tags, string literals printed / bound / as hash key / passed to a partial, code between operands / at the tag's edges / around block braces / in a function body, block bodies, a comment, inside a name) x %d fillers of the slot as one family, forwards and backwards, x [fresh parse each; each cache route in turn; backwards; cache off]", len(dupSites), len(slotFillers)), n, true)

	var pool []Tmpl
	for _, s := range append(append([]string{}, hashSnippets...), corpus.Templates()...) {
		pool = append(pool, Tmpl{Src: s})
	}
	for _, pc := range append(append([]string{}, richPieces...), failingPieces...) {
		pool = append(pool, Tmpl{Src: pc, Data: "rich", Partials: richPartials})
	}
	for _, site := range dupSites {
		tm := numbered(site, 0)
		tm.Src = strings.ReplaceAll(tm.Src, "¤", "\n")
		pool = append(pool, tm)
	}
	n = 0
	stride := r.Pick(8, 1)
	for i, base := range pool {
		if (i+int(r.Seed))%stride != 0 || !r.Mine(int64(i)) {
			continue
		}
		c := Case{}
		for _, v := range nearDuplicates(base.Src, r.Pick(4096, 16384)) {
			if mayShowMapOrder(base.Src, v.src) {
				r.Exclude("near-duplicate that might name the multi-entry Go map (licensed variation)")
				continue
			}
			tm := base
			tm.Src = v.src
			c.Templates = append(c.Templates, tm)
			r.Class("near-duplicate: " + v.kind)
		}
		c.Actions = dupActions(len(c.Templates))
		r.Check(runCase(r, c, "near-duplicates"))
		n++
	}
	r.Subspace("near-duplicates of pool templates (hash snippets, harvested templates, pieces over the rich data, the sites; quick: every 8th): each with all its near-duplicates (line endings all / one / mixed, 16 things appended and prepended, trimmed, blanks collapsed, tabs <-> spaces, case, one byte replaced at the start / middle / end, look-alikes, entities, 10 blanks inserted at the first and last point of each site, a long common prefix / suffix / both) as one family", n, true)

	r.Rapid("near-duplicates", r.Pick(400, 3000), func(t *rapid.T) *vk.Fail {
		var base Tmpl
		switch rapid.IntRange(0, 6).Draw(t, "base") {
		case 0:
			base = genTmpl(t)
		case 1:
			base = hashShape(t)
		case 2, 3:
			base = richShape(t)
		case 4:
			base = arrayShape(t)
		case 5:
			base = Tmpl{Src: rapid.SampledFrom(corpus.Templates()).Draw(t, "harvested")}
		default:
			base = numbered(rapid.SampledFrom(dupSites).Draw(t, "site"), atomic.AddInt64(&uniq, 1))
			base.Src = strings.ReplaceAll(base.Src, "¤", rapid.SampledFrom(slotFillers).Draw(t, "filler"))
		}
		base.Prog = nil
		vs := nearDuplicates(base.Src, 0)
		// differences at random points: a filler inserted, a blank or a line break replaced
		pts := sitePoints(base.Src)
		for k := rapid.IntRange(0, 6).Draw(t, "points"); k > 0; k-- {
			site := rapid.IntRange(0, 2).Draw(t, "site")
			if len(pts[site]) == 0 {
				continue
			}
			at := rapid.SampledFrom(pts[site]).Draw(t, "at")
			f := rapid.SampledFrom(slotFillers).Draw(t, "what")
			s := base.Src
			if at < len(s) && (s[at] == ' ' || s[at] == '\n') && rapid.Bool().Draw(t, "replace") {
				vs = append(vs, variant{fmt.Sprintf("%q in place of a blank in %s", f, siteNames[site]), s[:at] + f + s[at+1:]})
			} else {
				vs = append(vs, variant{fmt.Sprintf("%q inserted in %s", f, siteNames[site]), s[:at] + f + s[at:]})
			}
		}
		c := Case{Templates: []Tmpl{base}}
		for k := rapid.IntRange(1, 5).Draw(t, "twins"); k > 0; k-- {
			v := vs[rapid.IntRange(0, len(vs)-1).Draw(t, "variant")]
			if mayShowMapOrder(base.Src, v.src) {
				r.Exclude("near-duplicate that might name the multi-entry Go map (licensed variation)")
				continue
			}
			tm := base
			tm.Src = v.src
			if rapid.IntRange(0, 3).Draw(t, "front") == 0 {
				c.Templates = append([]Tmpl{tm}, c.Templates...)
			} else {
				c.Templates = append(c.Templates, tm)
			}
		}
		nt := len(c.Templates)
		for i := 0; i < nt; i++ {
			c.Actions = append(c.Actions, [2]int{i, aNew})
		}
		routes := []int{aAsIs, aAsIs, aParseExec, aBuffaloCache, aCachedTwice, aWarm, aExec, aRender, aReparse}
		for k := rapid.IntRange(2*nt, 5*nt).Draw(t, "nactions"); k > 0; k-- {
			c.Actions = append(c.Actions, [2]int{rapid.IntRange(0, nt-1).Draw(t, "tmpl"), rapid.SampledFrom(routes).Draw(t, "route")})
		}
		return runCase(r, c, "near-duplicates (R)")
	})

	histories := func(gen func(t *rapid.T, prev []Tmpl) Tmpl, class string) func(t *rapid.T) *vk.Fail {
		return func(t *rapid.T) *vk.Fail {
			nt := rapid.IntRange(1, 3).Draw(t, "ntemplates")
			c := Case{}
			for i := 0; i < nt; i++ {
				c.Templates = append(c.Templates, gen(t, c.Templates))
			}
			na := rapid.IntRange(2, 14).Draw(t, "nactions")
			for i := 0; i < na; i++ {
				c.Actions = append(c.Actions, [2]int{rapid.IntRange(0, nt-1).Draw(t, "tmpl"), rapid.IntRange(0, len(actionNames)-1).Draw(t, "action")})
			}
			return runCase(r, c, class)
		}
	}
	r.Rapid("histories", r.Pick(2000, 15000), histories(func(t *rapid.T, _ []Tmpl) Tmpl { return genTmpl(t) }, "random"))

	r.Rapid("shapes", r.Pick(3000, 20000), histories(func(t *rapid.T, prev []Tmpl) Tmpl {
		k := rapid.IntRange(0, 9).Draw(t, "family")
		if len(prev) > 0 && k >= 7 {
			return twin(t, prev[rapid.IntRange(0, len(prev)-1).Draw(t, "of")])
		}
		var tm Tmpl
		switch k % 7 {
		case 0, 1:
			tm = hashShape(t)
		case 2:
			tm = arrayShape(t)
		case 3, 4:
			tm = richShape(t)
		case 5:
			tm = genTmpl(t)
		default:
			tm = hashShape(t)
			tm.Src += richShape(t).Src
		}
		if rapid.IntRange(0, 4).Draw(t, "break") == 0 {
			tm = breakIt(t, tm)
		}
		return tm
	}, "shapes"))
}
