// C13 — rendering is a deterministic function of template and data; templates are immutable.
package c13

import (
	"encoding/json"
	"fmt"
	"hash/fnv"
	"reflect"
	"regexp"
	"sort"
	"strings"
	"sync/atomic"
	"testing"

	"verif/corpus"
	"verif/internal/model"
	"verif/internal/progs"
	"verif/internal/vk"

	plush "github.com/gobuffalo/plush/v5"
	"pgregory.net/rapid"
)

func TestMain(m *testing.M) { vk.Main(m) }

// ---- deep structural hash of a parsed program (H1) ----------------------------------------

type hasher struct {
	h    interface{ Write([]byte) (int, error) }
	sum  func() uint64
	seen map[uintptr]int
}

func structHash(v interface{}) uint64 {
	f := fnv.New64a()
	hs := &hasher{h: f, sum: f.Sum64, seen: map[uintptr]int{}}
	hs.walk(reflect.ValueOf(v))
	return f.Sum64()
}

func (h *hasher) str(s string) { h.h.Write([]byte(s)); h.h.Write([]byte{0}) }

func (h *hasher) walk(v reflect.Value) {
	if !v.IsValid() {
		h.str("<invalid>")
		return
	}
	switch v.Kind() {
	case reflect.Ptr:
		if v.IsNil() {
			h.str("nilptr:" + v.Type().String())
			return
		}
		p := v.Pointer()
		if id, ok := h.seen[p]; ok {
			h.str(fmt.Sprintf("ref#%d", id)) // pointer topology, cycle-safe
			return
		}
		h.seen[p] = len(h.seen)
		h.str("ptr:" + v.Type().String())
		h.walk(v.Elem())
	case reflect.Interface:
		if v.IsNil() {
			h.str("niliface")
			return
		}
		h.str("iface:" + v.Elem().Type().String())
		h.walk(v.Elem())
	case reflect.Struct:
		h.str("struct:" + v.Type().String())
		for i := 0; i < v.NumField(); i++ {
			h.str(v.Type().Field(i).Name)
			h.walk(v.Field(i))
		}
	case reflect.Slice:
		if v.IsNil() {
			h.str("nilslice")
			return
		}
		h.str(fmt.Sprintf("slice[%d]", v.Len()))
		for i := 0; i < v.Len(); i++ {
			h.walk(v.Index(i))
		}
	case reflect.Map:
		if v.IsNil() {
			h.str("nilmap")
			return
		}
		// keys are AST nodes already numbered through the Order slice: visit in that order
		type ent struct {
			id   int
			k, v reflect.Value
		}
		var es []ent
		for _, k := range v.MapKeys() {
			id := 1 << 30
			kk := k
			for kk.Kind() == reflect.Interface && !kk.IsNil() {
				kk = kk.Elem()
			}
			if kk.Kind() == reflect.Ptr && !kk.IsNil() {
				if n, ok := h.seen[kk.Pointer()]; ok {
					id = n
				}
			}
			es = append(es, ent{id, k, v.MapIndex(k)})
		}
		sort.SliceStable(es, func(i, j int) bool { return es[i].id < es[j].id })
		h.str(fmt.Sprintf("map[%d]", len(es)))
		for _, e := range es {
			h.walk(e.k)
			h.walk(e.v)
		}
	case reflect.String:
		h.str("s:" + v.String())
	case reflect.Bool:
		h.str(fmt.Sprint("b:", v.Bool()))
	case reflect.Int, reflect.Int8, reflect.Int16, reflect.Int32, reflect.Int64:
		h.str(fmt.Sprint("i:", v.Int()))
	case reflect.Uint, reflect.Uint8, reflect.Uint16, reflect.Uint32, reflect.Uint64:
		h.str(fmt.Sprint("u:", v.Uint()))
	case reflect.Float32, reflect.Float64:
		h.str(fmt.Sprint("f:", v.Float()))
	case reflect.Func:
		h.str("func")
	default:
		h.str("kind:" + v.Kind().String())
	}
}

// ---- cases -----------------------------------------------------------------------------------

type Tmpl struct {
	Src      string            `json:"src"`
	Partials map[string]string `json:"partials,omitempty"`
	Prog     json.RawMessage   `json:"prog,omitempty"` // informational
}

type Case struct {
	Templates []Tmpl `json:"templates"`
	// Actions: pairs (template index, action index)
	Actions [][2]int `json:"actions"`
}

var actionNames = []string{"Exec again", "NewTemplate+Exec", "Clone+Exec", "Render cache off", "Render cache on (cold)", "Render cache on (warm)", "Parse cache on then Exec", "Exec on the cached template"}

var addr = regexp.MustCompile(`0x[0-9a-f]+`)

type result struct {
	out   string
	err   string
	trace string
}

func (r result) String() string { return fmt.Sprintf("out=%q err=%q trace=%s", r.out, r.err, r.trace) }

var uniq int64

type state struct {
	parsed   *plush.Template
	perr     error
	first    *result
	firstBy  string
	coldSrc  string
	progHash uint64
}

func execOne(t Tmpl, fn func(ctx *plush.Context) (string, error)) result {
	var trace []string
	helpers := progs.Helpers(map[string]model.Helper{
		"rec": func(a []interface{}) (interface{}, error) { trace = append(trace, fmt.Sprint(a[0])); return a[0], nil },
	})
	ctx := progs.Context(progs.Data(), helpers, t.Partials)
	res := vk.Safe(func() (string, error) { return fn(ctx) })
	r := result{out: res.Out, trace: strings.Join(trace, ",")}
	if res.Panicked() {
		r.err = "PANIC " + fmt.Sprint(res.Panic)
	} else if res.Err != nil {
		r.err = addr.ReplaceAllString(res.Err.Error(), "0xADDR")
	}
	return r
}

func runCase(r *vk.Run, c Case, class string) *vk.Fail {
	defer r.Watch("history", c)()
	saved := plush.CacheEnabled
	defer func() { plush.CacheEnabled = saved }()
	sts := make([]*state, len(c.Templates))
	fail := func(f string, a ...interface{}) *vk.Fail {
		return &vk.Fail{Kind: "history", Case: c, Msg: fmt.Sprintf(f, a...)}
	}
	for i, t := range c.Templates {
		st := &state{}
		plush.CacheEnabled = false
		st.parsed, st.perr = plush.NewTemplate(t.Src)
		if st.perr == nil {
			st.progHash = structHash(st.parsed.VerifProgram())
		}
		sts[i] = st
	}
	for step, a := range c.Actions {
		ti, ai := a[0]%len(c.Templates), a[1]%len(actionNames)
		t, st := c.Templates[ti], sts[ti]
		var res result
		checkHash := false
		switch ai {
		case 0: // Exec again on the one parsed template
			if st.perr != nil {
				res = result{err: addr.ReplaceAllString(st.perr.Error(), "0xADDR")}
			} else {
				res = execOne(t, func(ctx *plush.Context) (string, error) { return st.parsed.Exec(ctx) })
				checkHash = true
			}
		case 1:
			plush.CacheEnabled = false
			res = execOne(t, func(ctx *plush.Context) (string, error) {
				nt, err := plush.NewTemplate(t.Src)
				if err != nil {
					return "", err
				}
				return nt.Exec(ctx)
			})
		case 2:
			if st.perr != nil {
				res = result{err: addr.ReplaceAllString(st.perr.Error(), "0xADDR")}
			} else {
				res = execOne(t, func(ctx *plush.Context) (string, error) { return st.parsed.Clone().Exec(ctx) })
				checkHash = true
			}
		case 3:
			plush.CacheEnabled = false
			res = execOne(t, func(ctx *plush.Context) (string, error) { return plush.Render(t.Src, ctx) })
		case 4: // cold: make the text unique with a leading comment tag (contributes nothing, whatever the template's end looks like)
			plush.CacheEnabled = true
			st.coldSrc = fmt.Sprintf("<%%# cache-buster %d %%>%s", atomic.AddInt64(&uniq, 1), t.Src)
			src := st.coldSrc
			res = execOne(t, func(ctx *plush.Context) (string, error) { return plush.Render(src, ctx) })
		case 5: // warm: the same text again, now served from the cache
			plush.CacheEnabled = true
			if st.coldSrc == "" {
				st.coldSrc = fmt.Sprintf("<%%# cache-buster %d %%>%s", atomic.AddInt64(&uniq, 1), t.Src)
			}
			src := st.coldSrc
			res = execOne(t, func(ctx *plush.Context) (string, error) { return plush.Render(src, ctx) })
		case 6: // Parse through the cache, then Exec
			plush.CacheEnabled = true
			res = execOne(t, func(ctx *plush.Context) (string, error) {
				pt, err := plush.Parse(t.Src)
				if err != nil {
					return "", err
				}
				return pt.Exec(ctx)
			})
		default: // the cached template object executed twice in a row
			plush.CacheEnabled = true
			res = execOne(t, func(ctx *plush.Context) (string, error) {
				pt, err := plush.Parse(t.Src)
				if err != nil {
					return "", err
				}
				if _, err := pt.Exec(progs.Context(progs.Data(), progs.Helpers(map[string]model.Helper{"rec": func(a []interface{}) (interface{}, error) { return a[0], nil }}), t.Partials)); err != nil {
					_ = err
				}
				return pt.Exec(ctx)
			})
		}
		plush.CacheEnabled = false
		if strings.HasPrefix(res.err, "PANIC") {
			r.Exclude("panic (subject of C03/C04)")
			return nil
		}
		if st.first == nil {
			cp := res
			st.first = &cp
			st.firstBy = actionNames[ai]
		} else if *st.first != res {
			return fail("template %d %q: step %d (%s) gave %s, but the first execution (%s) gave %s", ti, t.Src, step+1, actionNames[ai], res, st.firstBy, *st.first)
		}
		if checkHash {
			if h := structHash(st.parsed.VerifProgram()); h != st.progHash {
				return fail("template %d %q: the parsed program changed during step %d (%s): structural hash %x -> %x", ti, t.Src, step+1, actionNames[ai], st.progHash, h)
			}
		}
	}
	b, _ := json.Marshal(c)
	nt := ""
	if len(c.Actions) >= 3 {
		nt = string(b)
	}
	r.Count(nt, class)
	if nt != "" {
		r.Sample(func() interface{} {
			var acts []string
			for _, a := range c.Actions {
				acts = append(acts, fmt.Sprintf("t%d:%s", a[0]%len(c.Templates), actionNames[a[1]%len(actionNames)]))
			}
			var srcs []string
			for _, t := range c.Templates {
				srcs = append(srcs, t.Src)
			}
			first := "(template 0 was not executed in this history)"
			if sts[0].first != nil {
				first = sts[0].first.String()
			}
			return map[string]interface{}{"templates": srcs, "actions": acts, "first_result": first}
		})
	}
	return nil
}

// ---- generators ------------------------------------------------------------------------------------

var hashSnippets = []string{
	`<% let h = {k1: rec(1), k2: rec(2), k3: rec(3)} %><%= h["k2"] %>`,
	`<%= {a: rec("first"), a: rec("second")}["a"] %>`,
	`<%= {a: 1, b: 2, a: 3, c: 4, a: 5}["a"] %>`,
	`<% let h = {x: rec("x"), y: rec("y"), z: rec("z"), w: rec("w"), v: rec("v")} %><%= h["z"] %><%= h["v"] %>`,
	`<%= id({one: rec(1), two: rec(2), three: rec(3), four: rec(4)})["three"] %>`,
	`<%= for (i) in two { %><%= {p: rec(i), q: rec(i + 10), p: rec(i + 20)}["p"] %>,<% } %>`,
	`<% let f = fn(m) { return m["b"] } %><%= f({a: rec("A"), b: rec("B"), c: rec("C")}) %>`,
	`<%= {a: rec(1), b: boomy(), c: rec(3)}["a"] %>`,
	`<%= {a: nosuch, b: rec(2), c: 1 / 0}["a"] %>`,
}

func genTmpl(t *rapid.T) Tmpl {
	g := progs.New(t, progs.Options{MaxDepth: 3, FaultRate: rapid.SampledFrom([]int{0, 0, 12}).Draw(t, "faults"),
		Faults: []model.Expr{model.Var{Name: "nosuch"}, model.Bin{Op: "/", L: model.Lit{V: 1}, R: model.Lit{V: 0}}, model.Idx{X: model.Var{Name: "arr"}, I: model.Lit{V: 9}}}})
	prog := g.Nodes(3, false)
	pr := model.Printer{Compact: rapid.Bool().Draw(t, "compact")}
	src := pr.Nodes(prog)
	// splice hash literals with side-effecting values and duplicate keys
	for n := rapid.IntRange(0, 2).Draw(t, "nhash"); n > 0; n-- {
		sn := rapid.SampledFrom(hashSnippets).Draw(t, "hash")
		if rapid.Bool().Draw(t, "front") {
			src = sn + src
		} else {
			src = src + sn
		}
	}
	return Tmpl{Src: src, Partials: progs.PartialText(pr, g.Partials), Prog: model.Encode(prog)}
}

const rule = "templates: random programs over all constructs (shared generator; some with planted faults so that errors must be deterministic too) spliced with hash literals of 3-5 entries whose values call a recording helper and with duplicate keys; plus (E) the 277 templates harvested from the repository's tests, 9 hash-literal snippets and a partial that includes itself (overlapping executions of one cached template object). Histories: 1-3 templates x up to 14 interleaved actions from {Exec again on the parsed template, NewTemplate+Exec, Clone+Exec, Render with the cache off, Render with the cache on and cold (text made unique by a leading comment tag), Render cache-on warm, Parse through the cache then Exec, Exec twice on the cached object}; context data rebuilt fresh-but-equal for every execution. (E) every template x all 8 actions x 2 rounds; (R) random histories. Oracle: every (output, error text with addresses normalised, recorded helper invocation order) equals the first result for that template; the deep structural hash of the parsed program (all fields incl. token lines, pointer topology, H1 accessor) is identical after every Exec. Excluded by construction: for over Go maps / multi-entry hash literals (the licensed variation). Non-trivial = histories of >= 3 actions; distinct by (templates, actions)."

func setup(t *testing.T) *vk.Run {
	r := vk.Start(t, "C13", rule,
		"equal data = the same constructors run again; functions compare by behaviour, not by address",
		"the hook H1 (build tag verif) exposes the parsed program read-only",
		"one process, sequential: the global CacheEnabled flag is switched per action and restored")
	r.Replayer("history", func(raw json.RawMessage) *vk.Fail {
		var c Case
		if f := vk.Decode(raw, &c); f != nil {
			return f
		}
		if len(c.Templates) == 0 {
			return &vk.Fail{Kind: "decode", Msg: "no templates"}
		}
		// determinism failures are probabilistic (map order): replay a few times
		for i := 0; i < 40; i++ {
			if f := runCase(r, c, "replay"); f != nil {
				return f
			}
		}
		return nil
	})
	return r
}

func TestReplay(t *testing.T) { setup(t).ReplayEnv() }

func TestProp(t *testing.T) {
	r := setup(t)
	defer r.Finish()
	r.ReplayCommitted()

	// E: every harvested template and every hash snippet through all actions, twice
	var all [][2]int
	for round := 0; round < 2; round++ {
		for a := range actionNames {
			all = append(all, [2]int{0, a})
		}
	}
	srcs := append(append([]string{}, hashSnippets...), corpus.Templates()...)
	var n int64
	for i, s := range srcs {
		if !r.Mine(int64(i)) {
			continue
		}
		reps := 1
		if i < len(hashSnippets) {
			reps = r.Pick(30, 200) // map-order dependence shows up with probability < 1 per run
		}
		for k := 0; k < reps; k++ {
			r.Check(runCase(r, Case{Templates: []Tmpl{{Src: s}}, Actions: all}, "corpus"))
			n++
		}
	}
	// a partial that includes itself: with the cache on, the nested Render gets the SAME cached *Template as the
	// execution it is called from, so two executions of one template object overlap
	self := `<%= n %>(<%= if (n > 0) { %><%= partial("self", {n: n - 1}) %><% } %>)<%= n %>`
	rec := Tmpl{Src: `[<%= partial("self", {n: i2}) %>|<%= partial("self", {n: i1}) %>]`, Partials: map[string]string{"self": self}}
	for k := 0; k < 3; k++ {
		r.Check(runCase(r, Case{Templates: []Tmpl{rec, {Src: self + `<% let n = 1 %>`, Partials: map[string]string{"self": self}}}, Actions: append(append([][2]int{}, all...), [2]int{1, 4}, [2]int{1, 5}, [2]int{0, 5}, [2]int{1, 6})}, "recursive-partial"))
		n++
	}
	r.Subspace("harvested templates, hash snippets and a self-including partial x all 8 actions x 2 rounds", n, true)

	r.Rapid("histories", r.Pick(2500, 30000), func(t *rapid.T) *vk.Fail {
		nt := rapid.IntRange(1, 3).Draw(t, "ntemplates")
		c := Case{}
		for i := 0; i < nt; i++ {
			c.Templates = append(c.Templates, genTmpl(t))
		}
		na := rapid.IntRange(2, 14).Draw(t, "nactions")
		for i := 0; i < na; i++ {
			c.Actions = append(c.Actions, [2]int{rapid.IntRange(0, nt-1).Draw(t, "tmpl"), rapid.IntRange(0, len(actionNames)-1).Draw(t, "action")})
		}
		return runCase(r, c, "random")
	})
}
