// C10 — Context behaves as a chain of scopes for every history of
// New/Set/Value/Has.
package c10

import (
	"context"
	"encoding/json"
	"fmt"
	"reflect"
	"testing"

	"verif/internal/vk"

	plush "github.com/gobuffalo/plush/v5"
	"github.com/gobuffalo/plush/v5/helpers/hctx"
	"pgregory.net/rapid"
)

func TestMain(m *testing.M) { vk.Main(m) }

type Op struct {
	New bool   `json:"new,omitempty"` // New(ctx) else Set(ctx, key, val)
	Ctx int    `json:"ctx"`           // index into the contexts created so far (taken modulo their number)
	Key string `json:"key,omitempty"`
	Val int    `json:"val,omitempty"` // 0 = nil, 1, 2
}

type Case struct {
	Root int  `json:"root"`
	Ops  []Op `json:"ops"`
}

var keys = []string{"a", "b", "len"}

const builtin = "BUILTIN:len"

type wkey string

// roots: how the root context is constructed, and what the model starts from.
var rootNames = []string{
	"NewContext()", "NewContextWith({})", `NewContextWith({"len": 7})`, `NewContextWith({"len": nil, "a": 1})`,
	`NewContextWithContext(WithValue("b","W"))`, `NewContextWith({"b": nil})`,
}

func mkRoot(kind int) (hctx.Context, *mctx) {
	m := &mctx{data: map[string]interface{}{}}
	var c *plush.Context
	switch kind {
	case 0:
		c = plush.NewContext()
	case 1:
		c = plush.NewContextWith(map[string]interface{}{})
	case 2:
		c = plush.NewContextWith(map[string]interface{}{"len": 7})
		m.data["len"] = 7
	case 3:
		c = plush.NewContextWith(map[string]interface{}{"len": nil, "a": 1})
		m.data["len"] = nil
		m.data["a"] = 1
	case 4:
		c = plush.NewContextWithContext(context.WithValue(context.Background(), "b", "W"))
		m.wrapped = map[string]interface{}{"b": "W"}
	default:
		c = plush.NewContextWith(map[string]interface{}{"b": nil})
		m.data["b"] = nil
	}
	// construction-time injection of the built-in: only when the name yields nil.
	// (for kind 4 the built-ins are injected before the wrapped context is attached)
	if kind == 4 {
		m.data["len"] = builtin
	} else if m.value("len") == nil {
		m.data["len"] = builtin
	}
	return c, m
}

// ---- reference model: a chain of maps ----

type mctx struct {
	data    map[string]interface{}
	outer   *mctx
	wrapped map[string]interface{}
}

func (m *mctx) value(k string) interface{} {
	if v, ok := m.data[k]; ok {
		return v
	}
	if m.outer != nil {
		return m.outer.value(k)
	}
	return m.wrapped[k]
}

func (m *mctx) child() *mctx {
	c := &mctx{data: map[string]interface{}{}, outer: m}
	if c.value("len") == nil {
		c.data["len"] = builtin
	}
	return c
}

var builtinLen = reflect.ValueOf(plush.Helpers.All()["len"]).Pointer()

func same(real, model interface{}) bool {
	if model == builtin {
		rv := reflect.ValueOf(real)
		return rv.IsValid() && rv.Kind() == reflect.Func && rv.Pointer() == builtinLen
	}
	return reflect.DeepEqual(real, model)
}

func val(v int) interface{} {
	if v == 0 {
		return nil
	}
	return v
}

func (o Op) String() string {
	if o.New {
		return fmt.Sprintf("c%d.New()", o.Ctx)
	}
	return fmt.Sprintf("c%d.Set(%q, %v)", o.Ctx, o.Key, val(o.Val))
}

func runCase(r *vk.Run, c Case) *vk.Fail {
	defer r.Watch("history", c)()
	var fail *vk.Fail
	res := vk.Safe(func() (string, error) {
		root, mroot := mkRoot(c.Root)
		real := []hctx.Context{root}
		model := []*mctx{mroot}
		check := func(step int, what string) bool {
			for i := range real {
				for _, k := range keys {
					want := model[i].value(k)
					got := real[i].Value(k)
					if !same(got, want) {
						fail = vk.Failf("history", c, "root %s, after step %d (%s): c%d.Value(%q) = %v, model says %v", rootNames[c.Root], step, what, i, k, got, want)
						return false
					}
					if has := real[i].Has(k); has != (want != nil) {
						fail = vk.Failf("history", c, "root %s, after step %d (%s): c%d.Has(%q) = %v but the visible value is %v", rootNames[c.Root], step, what, i, k, has, want)
						return false
					}
				}
			}
			return true
		}
		if !check(0, "construction") {
			return "", nil
		}
		for si, o := range c.Ops {
			i := o.Ctx % len(real)
			o.Ctx = i
			if o.New {
				real = append(real, real[i].New())
				model = append(model, model[i].child())
			} else {
				real[i].Set(o.Key, val(o.Val))
				model[i].data[o.Key] = val(o.Val)
			}
			if !check(si+1, o.String()) {
				return "", nil
			}
		}
		return "", nil
	})
	if res.Panicked() {
		return vk.Failf("history", c, "root %s ops %v: %s", rootNames[c.Root], c.Ops, res)
	}
	if fail != nil {
		return fail
	}
	// evidence: non-trivial = a Set after a New (shadowing or sibling isolation can matter)
	news, setsAfterNew, nilSet, lenSet := 0, 0, false, false
	for _, o := range c.Ops {
		if o.New {
			news++
		} else {
			if news > 0 {
				setsAfterNew++
			}
			if o.Val == 0 {
				nilSet = true
			}
			if o.Key == "len" {
				lenSet = true
			}
		}
	}
	nt := ""
	if news > 0 && setsAfterNew > 0 {
		b, _ := json.Marshal(c)
		nt = string(b)
	}
	cls := fmt.Sprintf("root%d", c.Root)
	if nilSet {
		cls += "+nilset"
	}
	if lenSet {
		cls += "+builtin-key"
	}
	r.Count(nt, cls)
	if nt != "" {
		r.Sample(func() interface{} {
			var ops []string
			for _, o := range c.Ops {
				ops = append(ops, o.String())
			}
			return map[string]interface{}{"root": rootNames[c.Root], "ops": ops}
		})
	}
	return nil
}

const rule = "histories over a tree of contexts: root built by one of 6 constructors (NewContext, NewContextWith with user maps that do / do not pre-bind the built-in name 'len' or bind nil, NewContextWithContext over a context.Context holding a string key), then operations New(c) and Set(c,k,v) with keys {a,b,len} and values {1,2,nil}; after EVERY step every (context,key) pair is read with Value and Has and compared with a chain-of-maps reference model (nearest entry wins; Has <=> visible value non-nil; the built-in is injected into a new context iff the name yields nil there). (E) every history of length <= L (quick 4, thorough 5) over <= 4 contexts for every root; (R) random histories of up to 300 operations over unboundedly many contexts, all calls made through the hctx.Context interface. Non-trivial = the history contains a Set after a New; distinct by (root, history)."

func setup(t *testing.T) *vk.Run {
	r := vk.Start(t, "C10", rule,
		"functions are compared by code pointer",
		"sequential histories only (concurrent use is C14)")
	r.Replayer("history", func(raw json.RawMessage) *vk.Fail {
		var c Case
		if f := vk.Decode(raw, &c); f != nil {
			return f
		}
		if c.Root < 0 || c.Root >= len(rootNames) {
			return &vk.Fail{Kind: "decode", Msg: "bad root"}
		}
		return runCase(r, c)
	})
	return r
}

func TestReplay(t *testing.T) { setup(t).ReplayEnv() }

func TestProp(t *testing.T) {
	r := setup(t)
	defer r.Finish()
	r.ReplayCommitted()

	L := r.Pick(4, 5)
	const maxCtx = 4
	var leaves int64
	var rec func(root int, ops []Op, nctx int)
	rec = func(root int, ops []Op, nctx int) {
		if len(ops) == L {
			if r.Mine(leaves) {
				r.Check(runCase(r, Case{Root: root, Ops: append([]Op(nil), ops...)}))
			}
			leaves++
			return
		}
		for c := 0; c < nctx; c++ {
			if nctx < maxCtx {
				rec(root, append(ops, Op{New: true, Ctx: c}), nctx+1)
			}
			for _, k := range keys {
				for v := 0; v <= 2; v++ {
					rec(root, append(ops, Op{Ctx: c, Key: k, Val: v}), nctx)
				}
			}
		}
	}
	for root := range rootNames {
		rec(root, nil, 1)
	}
	r.Subspace(fmt.Sprintf("all New/Set histories of length %d over <=4 contexts x 6 roots (every prefix checked after every step)", L), leaves, true)

	opGen := rapid.Custom(func(t *rapid.T) Op {
		o := Op{Ctx: rapid.IntRange(0, 1<<20).Draw(t, "ctx")}
		if rapid.IntRange(0, 3).Draw(t, "kind") == 0 {
			o.New = true
			return o
		}
		o.Key = rapid.SampledFrom(keys).Draw(t, "key")
		o.Val = rapid.IntRange(0, 2).Draw(t, "val")
		return o
	})
	r.Rapid("histories", r.Pick(3000, 40000), func(t *rapid.T) *vk.Fail {
		c := Case{Root: rapid.IntRange(0, len(rootNames)-1).Draw(t, "root"), Ops: rapid.SliceOfN(opGen, 1, 300).Draw(t, "ops")}
		// prefer recent contexts half of the time so deep chains appear
		return runCase(r, c)
	})
}
