// C10 — Context behaves as a chain of scopes for every history of
// New/Set/Value/Has.
package c10

import (
	"context"
	"encoding/json"
	"fmt"
	"os"
	"reflect"
	"sort"
	"strings"
	"testing"

	"verif/internal/vk"

	plush "github.com/gobuffalo/plush/v5"
	"github.com/gobuffalo/plush/v5/helpers/hctx"
	"pgregory.net/rapid"
)

func TestMain(m *testing.M) { vk.Main(m) }

type Op struct {
	New bool   `json:"new,omitempty"` // New(ctx) else Set(ctx, key, val)
	Ctx int    `json:"ctx"`           // index into the contexts created so far (taken modulo their number)
	Key string `json:"key,omitempty"`
	Val int    `json:"val,omitempty"` // 0 = nil, 1, 2
}

type Case struct {
	Root int  `json:"root"`
	Ops  []Op `json:"ops"`
}

var keys = []string{"a", "b", "len"}

const builtin = "BUILTIN:len"

type wkey string

// roots: how the root context is constructed, and what the model starts from.
var rootNames = []string{
	"NewContext()", "NewContextWith({})", `NewContextWith({"len": 7})`, `NewContextWith({"len": nil, "a": 1})`,
	`NewContextWithContext(WithValue("b","W"))`, `NewContextWith({"b": nil})`,
}

func mkRoot(kind int) (hctx.Context, *mctx) {
	m := &mctx{data: map[string]interface{}{}}
	var c *plush.Context
	switch kind {
	case 0:
		c = plush.NewContext()
	case 1:
		c = plush.NewContextWith(map[string]interface{}{})
	case 2:
		c = plush.NewContextWith(map[string]interface{}{"len": 7})
		m.data["len"] = 7
	case 3:
		c = plush.NewContextWith(map[string]interface{}{"len": nil, "a": 1})
		m.data["len"] = nil
		m.data["a"] = 1
	case 4:
		c = plush.NewContextWithContext(context.WithValue(context.Background(), "b", "W"))
		m.wrapped = map[string]interface{}{"b": "W"}
	default:
		c = plush.NewContextWith(map[string]interface{}{"b": nil})
		m.data["b"] = nil
	}
	// construction-time injection of the built-in: only when the name yields nil.
	// (for kind 4 the built-ins are injected before the wrapped context is attached)
	if kind == 4 {
		m.data["len"] = builtin
	} else if m.value("len") == nil {
		m.data["len"] = builtin
	}
	return c, m
}

// ---- reference model: a chain of maps ----

type mctx struct {
	data    map[string]interface{}
	outer   *mctx
	wrapped map[string]interface{}
}

func (m *mctx) value(k string) interface{} {
	if v, ok := m.data[k]; ok {
		return v
	}
	if m.outer != nil {
		return m.outer.value(k)
	}
	return m.wrapped[k]
}

func (m *mctx) child() *mctx {
	c := &mctx{data: map[string]interface{}{}, outer: m}
	if c.value("len") == nil {
		c.data["len"] = builtin
	}
	return c
}

var builtinLen = reflect.ValueOf(plush.Helpers.All()["len"]).Pointer()

func same(real, model interface{}) bool {
	if model == builtin {
		rv := reflect.ValueOf(real)
		return rv.IsValid() && rv.Kind() == reflect.Func && rv.Pointer() == builtinLen
	}
	return reflect.DeepEqual(real, model)
}

func val(v int) interface{} {
	if v == 0 {
		return nil
	}
	return v
}

func (o Op) String() string {
	if o.New {
		return fmt.Sprintf("c%d.New()", o.Ctx)
	}
	return fmt.Sprintf("c%d.Set(%q, %v)", o.Ctx, o.Key, val(o.Val))
}

func runCase(r *vk.Run, c Case) *vk.Fail {
	defer r.Watch("history", c)()
	var fail *vk.Fail
	res := vk.Safe(func() (string, error) {
		root, mroot := mkRoot(c.Root)
		real := []hctx.Context{root}
		model := []*mctx{mroot}
		check := func(step int, what string) bool {
			for i := range real {
				for _, k := range keys {
					want := model[i].value(k)
					got := real[i].Value(k)
					if !same(got, want) {
						fail = vk.Failf("history", c, "root %s, after step %d (%s): c%d.Value(%q) = %v, model says %v", rootNames[c.Root], step, what, i, k, got, want)
						return false
					}
					if has := real[i].Has(k); has != (want != nil) {
						fail = vk.Failf("history", c, "root %s, after step %d (%s): c%d.Has(%q) = %v but the visible value is %v", rootNames[c.Root], step, what, i, k, has, want)
						return false
					}
				}
			}
			return true
		}
		if !check(0, "construction") {
			return "", nil
		}
		for si, o := range c.Ops {
			i := o.Ctx % len(real)
			o.Ctx = i
			if o.New {
				real = append(real, real[i].New())
				model = append(model, model[i].child())
			} else {
				real[i].Set(o.Key, val(o.Val))
				model[i].data[o.Key] = val(o.Val)
			}
			if !check(si+1, o.String()) {
				return "", nil
			}
		}
		return "", nil
	})
	if res.Panicked() {
		return vk.Failf("history", c, "root %s ops %v: %s", rootNames[c.Root], c.Ops, res)
	}
	if fail != nil {
		return fail
	}
	// evidence: non-trivial = a Set after a New (shadowing or sibling isolation can matter)
	news, setsAfterNew, nilSet, lenSet := 0, 0, false, false
	for _, o := range c.Ops {
		if o.New {
			news++
		} else {
			if news > 0 {
				setsAfterNew++
			}
			if o.Val == 0 {
				nilSet = true
			}
			if o.Key == "len" {
				lenSet = true
			}
		}
	}
	nt := ""
	if news > 0 && setsAfterNew > 0 {
		b, _ := json.Marshal(c)
		nt = string(b)
	}
	cls := fmt.Sprintf("root%d", c.Root)
	if nilSet {
		cls += "+nilset"
	}
	if lenSet {
		cls += "+builtin-key"
	}
	r.Count(nt, cls)
	if nt != "" {
		r.Sample(func() interface{} {
			var ops []string
			for _, o := range c.Ops {
				ops = append(ops, o.String())
			}
			return map[string]interface{}{"root": rootNames[c.Root], "ops": ops}
		})
	}
	return nil
}

// ============================================================================
// Widened histories (kind "xhist"): more keys (several built-in names, a helper
// registered late with plush.Helpers.Add, "", "A"), more values (falsy non-nil
// values, uncomparable values, a function), child creation with initial data
// (NewContextWithOuter), explicit Value / Has operations with no reads in
// between (sparse histories), deep chains, and a sweep over EVERY built-in name.
// ============================================================================

// knownOpen: generator classes that are NOT ASSERTED (the general generators steer away from them, counted with
// r.Exclude). Neither is covered by the statement, which speaks of New, Set, Value and Has with the keys Set takes:
//
//	nil-data-map             NewContextWith(nil) / NewContextWithOuter(nil, c) fail in (or right after) the constructor:
//	                         misuse of the constructor, no history of New / Set / Value / Has is involved
//	typed-key-through-outer  a non-string key held by a wrapped context.Context is not visible from child contexts:
//	                         such keys cannot be Set at all; what a child shows of them is not stated
//
// The shapes stay in the generator behind this switch (and C10_WITNESSES=1 runs the eight fixed witnesses).
var knownOpen = map[string]bool{
	"nil-data-map":            true, // NewContextWith(nil) / NewContextWithOuter(nil, c): assignment to entry in nil map
	"typed-key-through-outer": true, // a non-string key of the wrapped context.Context is invisible from child contexts
}

type XOp struct {
	Op      string            `json:"op"`  // new | newouter | set | value | has
	Ctx     int               `json:"ctx"` // index modulo the number of contexts so far; -1 = the most recently created
	Key     string            `json:"key,omitempty"`
	Val     string            `json:"val,omitempty"`     // name in the value pool
	Data    map[string]string `json:"data,omitempty"`    // newouter: initial data (key -> value name)
	NilData bool              `json:"nildata,omitempty"` // newouter: pass a nil map
}

type XCase struct {
	Root   int   `json:"root"`
	Sparse bool  `json:"sparse,omitempty"` // no reads except the explicit value / has operations and the final sweep
	Ops    []XOp `json:"ops"`
}

const lateName = "c10late"

func lateHelper() string { return "late" }
func userFn() string     { return "user" }

var (
	valMap   = map[string]interface{}{"x": 1}
	valSlice = []int{1, 2}
)

// value pool, by name. "nil" is the absent / nil value.
var xvals = []string{"nil", "1", "2", "0", "false", "empty", "map", "slice", "func"}

func xval(name string) interface{} {
	switch name {
	case "nil":
		return nil
	case "1":
		return 1
	case "2":
		return 2
	case "0":
		return 0
	case "false":
		return false
	case "empty":
		return ""
	case "map":
		return valMap
	case "slice":
		return valSlice
	case "func":
		return userFn
	case "W":
		return "W"
	case "T":
		return "T"
	}
	panic("harness: unknown value name " + name)
}

func fptr(v interface{}) (uintptr, bool) {
	rv := reflect.ValueOf(v)
	if !rv.IsValid() || rv.Kind() != reflect.Func {
		return 0, false
	}
	return rv.Pointer(), true
}

// xsame: is real the value named by the model? Reference values must be the very
// value that was Set (same map, same backing array, same function).
func xsame(real interface{}, name string) bool {
	if strings.HasPrefix(name, "BUILTIN:") {
		h := name[len("BUILTIN:"):]
		if wp, ok := helperPtr[h]; ok {
			rp, ok2 := fptr(real)
			return ok2 && rp == wp
		}
		return reflect.DeepEqual(real, plush.Helpers.All()[h])
	}
	switch name {
	case "nil":
		return real == nil
	case "map":
		m, ok := real.(map[string]interface{})
		return ok && reflect.ValueOf(m).Pointer() == reflect.ValueOf(valMap).Pointer()
	case "slice":
		sl, ok := real.([]int)
		return ok && len(sl) == len(valSlice) && &sl[0] == &valSlice[0]
	case "func":
		rp, ok := fptr(real)
		up, _ := fptr(userFn)
		return ok && rp == up
	}
	return reflect.DeepEqual(real, xval(name))
}

var (
	xkeys       = []string{"a", "b", "", "A", "len", "partial", "raw", lateName}
	inXkeys     = map[string]bool{"a": true, "b": true, "": true, "A": true, "len": true, "partial": true, "raw": true, lateName: true}
	helperNames []string // every name in plush.Helpers, sorted (filled by setup, after the late registration)
	isHelper    = map[string]bool{}
	helperPtr   = map[string]uintptr{} // code pointer of every built-in that is a function
)

func registerLate() {
	// anything plush computes lazily on first use is computed now, BEFORE the late helper is registered
	_ = plush.NewContext().New()
	plush.Helpers.Add(lateName, lateHelper)
	helperNames = helperNames[:0]
	for k, v := range plush.Helpers.All() {
		helperNames = append(helperNames, k)
		isHelper[k] = true
		if p, ok := fptr(v); ok {
			helperPtr[k] = p
		}
	}
	sort.Strings(helperNames)
}

type xctx struct {
	data    map[string]string
	outer   *xctx
	wrapped map[string]string // string keys of the wrapped context.Context (root only)
	typed   map[string]string // wkey keys of the wrapped context.Context (root only)
}

func (m *xctx) value(k string) string {
	if v, ok := m.data[k]; ok {
		return v
	}
	if m.outer != nil {
		return m.outer.value(k)
	}
	if v, ok := m.wrapped[k]; ok {
		return v
	}
	return "nil"
}

func (m *xctx) tvalue(k string) string {
	if m.outer != nil {
		return m.outer.tvalue(k)
	}
	if v, ok := m.typed[k]; ok {
		return v
	}
	return "nil"
}

// inject: construction-time injection of every built-in whose name yields nil there.
func (m *xctx) inject() {
	for _, h := range helperNames {
		if m.value(h) == "nil" {
			m.data[h] = "BUILTIN:" + h
		}
	}
}

func (m *xctx) child(data map[string]string) *xctx {
	c := &xctx{data: map[string]string{}, outer: m}
	for k, v := range data {
		c.data[k] = v
	}
	c.inject()
	return c
}

func realMap(names map[string]string) map[string]interface{} {
	m := map[string]interface{}{}
	for k, v := range names {
		m[k] = xval(v)
	}
	return m
}

type xroot struct {
	name  string
	data  map[string]string // NewContextWith(data)
	nil_  bool              // NewContextWith(nil)
	wrap  map[string]string // NewContextWithContext over string keys
	typed map[string]string // ... and wkey keys
	inner map[string]string // NewContextWithContext(<a plush context built from this map>)
	class string            // open class this root belongs to
}

var xroots = []xroot{
	{name: "NewContext()"},
	{name: "NewContextWith({})", data: map[string]string{}},
	{name: `NewContextWith({"len": 1})`, data: map[string]string{"len": "1"}},
	{name: `NewContextWith({"len": nil, "a": 1})`, data: map[string]string{"len": "nil", "a": "1"}},
	{name: `NewContextWithContext(WithValue("b","W"))`, wrap: map[string]string{"b": "W"}},
	{name: `NewContextWith({"b": nil, "partial": 2, "c10late": userFn})`, data: map[string]string{"b": "nil", "partial": "2", lateName: "func"}},
	{name: `NewContextWith({"": 1, "A": 2, "raw": false})`, data: map[string]string{"": "1", "A": "2", "raw": "false"}},
	{name: `NewContextWithContext(NewContextWith({"a": 1, "b": nil}))`, inner: map[string]string{"a": "1", "b": "nil"}},
	{name: `NewContextWithContext(WithValue(WithValue("b","W"), wkey("t"), "T"))`, wrap: map[string]string{"b": "W"}, typed: map[string]string{"t": "T"}, class: "typed-key-through-outer"},
	{name: "NewContextWith(nil)", nil_: true, class: "nil-data-map"},
}

func mkXRoot(kind int) (hctx.Context, *xctx) {
	x := xroots[kind]
	m := &xctx{data: map[string]string{}}
	var c *plush.Context
	switch {
	case x.nil_:
		c = plush.NewContextWith(nil)
		m.inject()
	case x.wrap != nil || x.typed != nil:
		ctx := context.Background()
		for _, k := range sortedKeys(x.wrap) {
			ctx = context.WithValue(ctx, k, xval(x.wrap[k]))
		}
		for _, k := range sortedKeys(x.typed) {
			ctx = context.WithValue(ctx, wkey(k), xval(x.typed[k]))
		}
		c = plush.NewContextWithContext(ctx)
		m.inject() // the built-ins are injected before the context.Context is attached
		m.wrapped, m.typed = x.wrap, x.typed
	case x.inner != nil:
		c = plush.NewContextWithContext(plush.NewContextWith(realMap(x.inner)))
		m.inject()
		m.wrapped = map[string]string{}
		for k, v := range x.inner {
			m.wrapped[k] = v
		}
	case x.data != nil:
		c = plush.NewContextWith(realMap(x.data))
		for k, v := range x.data {
			m.data[k] = v
		}
		m.inject()
	default:
		c = plush.NewContext()
		m.inject()
	}
	return c, m
}

func sortedKeys(m map[string]string) []string {
	var ks []string
	for k := range m {
		ks = append(ks, k)
	}
	sort.Strings(ks)
	return ks
}

func (o XOp) String() string {
	c := fmt.Sprintf("c%d", o.Ctx)
	if o.Ctx < 0 {
		c = "last"
	}
	switch o.Op {
	case "new":
		return c + ".New()"
	case "newouter":
		if o.NilData {
			return "NewContextWithOuter(nil, " + c + ")"
		}
		var parts []string
		for _, k := range sortedKeys(o.Data) {
			parts = append(parts, fmt.Sprintf("%q: %s", k, o.Data[k]))
		}
		return "NewContextWithOuter({" + strings.Join(parts, ", ") + "}, " + c + ")"
	case "set":
		return fmt.Sprintf("%s.Set(%q, %s)", c, o.Key, o.Val)
	case "value":
		return fmt.Sprintf("%s.Value(%q)", c, o.Key)
	case "has":
		return fmt.Sprintf("%s.Has(%q)", c, o.Key)
	}
	return "?" + o.Op
}

// xclass: the open defect class a case belongs to ("" = none).
func xclass(c XCase) string {
	if c.Root >= 0 && c.Root < len(xroots) && xroots[c.Root].class != "" {
		return xroots[c.Root].class
	}
	for _, o := range c.Ops {
		if o.Op == "newouter" && o.NilData {
			return "nil-data-map"
		}
	}
	return ""
}

func validX(c XCase) bool {
	if c.Root < 0 || c.Root >= len(xroots) {
		return false
	}
	for _, o := range c.Ops {
		switch o.Op {
		case "new", "value", "has":
		case "set":
			if !knownVal(o.Val) {
				return false
			}
		case "newouter":
			for k, v := range o.Data {
				// a nil entry under a built-in name in the initial data of a child: whether the
				// built-in replaces it is not fixed by the statement (unspecified, never generated)
				if !knownVal(v) || (v == "nil" && isHelper[k]) {
					return false
				}
			}
		default:
			return false
		}
	}
	return true
}

func knownVal(v string) bool {
	for _, x := range xvals {
		if x == v {
			return true
		}
	}
	return false
}

func runX(r *vk.Run, c XCase) *vk.Fail {
	defer r.Watch("xhist", c)()
	cls := xclass(c)
	mk := func(format string, a ...interface{}) *vk.Fail {
		f := vk.Failf("xhist", c, format, a...)
		f.Class = cls
		return f
	}
	var fail *vk.Fail
	step, what := 0, "construction"
	res := vk.Safe(func() (string, error) {
		root, mroot := mkXRoot(c.Root)
		real := []hctx.Context{root}
		model := []*xctx{mroot}
		rootName := xroots[c.Root].name
		read := func(i int, k string) bool {
			want := model[i].value(k)
			if got := real[i].Value(k); !xsame(got, want) {
				fail = mk("root %s, after step %d (%s): c%d.Value(%q) = %v (%T), model says %s", rootName, step, what, i, k, got, got, want)
				return false
			}
			return true
		}
		has := func(i int, k string) bool {
			want := model[i].value(k)
			if h := real[i].Has(k); h != (want != "nil") {
				fail = mk("root %s, after step %d (%s): c%d.Has(%q) = %v but the visible value is %s", rootName, step, what, i, k, h, want)
				return false
			}
			return true
		}
		sweep := func(all bool) bool {
			for i := range real {
				for _, k := range xkeys {
					if !read(i, k) || !has(i, k) {
						return false
					}
				}
				if all {
					for _, k := range helperNames {
						if inXkeys[k] {
							continue
						}
						if !read(i, k) || !has(i, k) {
							return false
						}
					}
					for _, k := range sortedKeys(mroot.typed) {
						want := model[i].tvalue(k)
						if got := real[i].Value(wkey(k)); !xsame(got, want) {
							fail = mk("root %s, after step %d (%s): c%d.Value(wkey(%q)) = %v but the root's wrapped context.Context holds %s and no context on the path can shadow a non-string key", rootName, step, what, i, k, got, want)
							return false
						}
					}
				}
			}
			return true
		}
		// construction: the pool keys (the final sweep reads every built-in name in every context, the root included)
		if !sweep(len(c.Ops) == 0) {
			return "", nil
		}
		for si, o := range c.Ops {
			i := o.Ctx
			if i < 0 {
				i = len(real) - 1
			} else {
				i %= len(real)
			}
			o.Ctx = i
			step, what = si+1, o.String()
			switch o.Op {
			case "new":
				real = append(real, real[i].New())
				model = append(model, model[i].child(nil))
			case "newouter":
				var d map[string]interface{}
				if !o.NilData {
					d = realMap(o.Data)
				}
				real = append(real, plush.NewContextWithOuter(d, real[i].(*plush.Context)))
				model = append(model, model[i].child(o.Data))
			case "set":
				real[i].Set(o.Key, xval(o.Val))
				model[i].data[o.Key] = o.Val
			case "value":
				if !read(i, o.Key) {
					return "", nil
				}
			case "has":
				if !has(i, o.Key) {
					return "", nil
				}
			}
			if !c.Sparse && !sweep(false) {
				return "", nil
			}
		}
		what += ", final sweep over every key and every built-in name"
		sweep(true)
		return "", nil
	})
	if res.Panicked() {
		return mk("root %s, at step %d (%s): %s", xroots[c.Root].name, step, what, res)
	}
	if fail != nil {
		return fail
	}
	// evidence: non-trivial = a write (Set, or initial data of a child) at or after the creation of a child
	news, writesAfterNew, depth := 0, 0, 0
	feat := map[string]bool{}
	for _, o := range c.Ops {
		switch o.Op {
		case "new", "newouter":
			news++
			if o.Ctx < 0 {
				depth++
			}
			if o.Op == "newouter" {
				feat["newouter"] = true
				if len(o.Data) > 0 {
					writesAfterNew++
				}
			}
		case "set":
			if news > 0 {
				writesAfterNew++
			}
			switch o.Val {
			case "nil":
				feat["nilset"] = true
			case "0", "false", "empty":
				feat["falsy"] = true
			case "map", "slice", "func":
				feat["reference-value"] = true
			}
			if isHelper[o.Key] {
				feat["builtin-key"] = true
			}
		case "value", "has":
			feat["read-op"] = true
		}
	}
	if depth >= 32 {
		feat["deep>=32"] = true
	}
	if c.Sparse {
		feat["sparse"] = true
	}
	nt := ""
	if news > 0 && writesAfterNew > 0 {
		b, _ := json.Marshal(c)
		nt = "x" + string(b)
	}
	r.Count(nt, fmt.Sprintf("x:root%d", c.Root))
	for _, f := range []string{"newouter", "nilset", "falsy", "reference-value", "builtin-key", "read-op", "deep>=32", "sparse"} {
		if feat[f] {
			r.Class("x:+" + f)
		}
	}
	if nt != "" {
		r.Sample(func() interface{} {
			var ops []string
			for _, o := range c.Ops {
				ops = append(ops, o.String())
			}
			return map[string]interface{}{"root": xroots[c.Root].name, "sparse": c.Sparse, "ops": ops}
		})
	}
	return nil
}

// isOpen: the class is listed in knownOpen or by an open entry of known_findings.json.
func isOpen(r *vk.Run, class string) bool { return knownOpen[class] || r.OpenClass(class) }

// xrootPool: the roots the general generators may use (open classes steered away from).
func xrootPool(r *vk.Run) []int {
	var out []int
	for i, x := range xroots {
		if x.class != "" && isOpen(r, x.class) {
			continue
		}
		out = append(out, i)
	}
	return out
}

const rule = "histories over a tree of contexts: root built by one of 6 constructors (NewContext, NewContextWith with user maps that do / do not pre-bind the built-in name 'len' or bind nil, NewContextWithContext over a context.Context holding a string key), then operations New(c) and Set(c,k,v) with keys {a,b,len} and values {1,2,nil}; after EVERY step every (context,key) pair is read with Value and Has and compared with a chain-of-maps reference model (nearest entry wins; Has <=> visible value non-nil; the built-in is injected into a new context iff the name yields nil there). (E) every history of length <= L (quick 4, thorough 5) over <= 4 contexts for every root; (R) random histories of up to 300 operations over unboundedly many contexts, all calls made through the hctx.Context interface. WIDE histories (kind xhist) against the same model extended to every name in plush.Helpers: 10 roots (also: user maps binding 'partial', 'raw': false, '', 'A', a helper registered with plush.Helpers.Add AFTER a first context was built; a wrapped plush context; a wrapped context.Context with a non-string key; a nil map), keys {a, b, '', A, len, partial, raw, c10late}, values {nil, 1, 2, 0, false, '', a map, a slice, a function} (reference values must come back identical, not equal), operations New, NewContextWithOuter(data, c) with initial data (never nil under a built-in name: unspecified) or a nil map, Set, and explicit Value / Has reads; dense cases read every (context, pool key) after every step, sparse cases only where the history says so; every case ends with a sweep of every context over the pool keys AND every built-in name (and the non-string key of the wrapped context.Context, which every context of the tree must see). (G, only with C10_WITNESSES=1) 8 fixed witnesses of the two classes that are generated but not asserted (nil data map handed to a constructor; non-string keys of a wrapped context.Context seen from a child); (E2) every single-key wide history of length 3 (quick: 2 except for keys a and c10late) over <= 3 contexts for every root and key; (R2) random wide histories of <= 40 operations, a third of the operations aimed at the most recent context; (R3) chains of up to D contexts (quick 160, thorough 320) with writes and reads on the way down and 1-3 late writes high up, read from every context. Generators steer away from the classes in knownOpen / open known findings (counted as excluded). Non-trivial = the history contains a Set after a New (wide: a Set, or initial data of a child, at or after the creation of a child); distinct by (root, history)."

func setup(t *testing.T) *vk.Run {
	r := vk.Start(t, "C10", rule,
		"functions are compared by code pointer",
		"a helper registered with plush.Helpers.Add counts as a built-in for every context built afterwards",
		"injection of a built-in is modelled as a Set made by the constructor: a nil entry on the path at construction time lets the built-in in, and a later user Set on an ancestor does not remove it",
		"chains deeper than 160 (thorough 320) contexts are not explored",
		"sequential histories only (concurrent use is C14)")
	registerLate()
	r.Replayer("xhist", func(raw json.RawMessage) *vk.Fail {
		var c XCase
		if f := vk.Decode(raw, &c); f != nil {
			return f
		}
		if !validX(c) {
			return &vk.Fail{Kind: "decode", Msg: "bad xhist case"}
		}
		return runX(r, c)
	})
	r.Replayer("history", func(raw json.RawMessage) *vk.Fail {
		var c Case
		if f := vk.Decode(raw, &c); f != nil {
			return f
		}
		if c.Root < 0 || c.Root >= len(rootNames) {
			return &vk.Fail{Kind: "decode", Msg: "bad root"}
		}
		return runCase(r, c)
	})
	return r
}

func TestReplay(t *testing.T) { setup(t).ReplayEnv() }

func TestProp(t *testing.T) {
	r := setup(t)
	defer r.Finish()
	r.ReplayCommitted()

	L := r.Pick(4, 5)
	const maxCtx = 4
	var leaves int64
	var rec func(root int, ops []Op, nctx int)
	rec = func(root int, ops []Op, nctx int) {
		if len(ops) == L {
			if r.Mine(leaves) {
				r.Check(runCase(r, Case{Root: root, Ops: append([]Op(nil), ops...)}))
			}
			leaves++
			return
		}
		for c := 0; c < nctx; c++ {
			if nctx < maxCtx {
				rec(root, append(ops, Op{New: true, Ctx: c}), nctx+1)
			}
			for _, k := range keys {
				for v := 0; v <= 2; v++ {
					rec(root, append(ops, Op{Ctx: c, Key: k, Val: v}), nctx)
				}
			}
		}
	}
	for root := range rootNames {
		rec(root, nil, 1)
	}
	r.Subspace(fmt.Sprintf("all New/Set histories of length %d over <=4 contexts x 6 roots (every prefix checked after every step)", L), leaves, true)

	opGen := rapid.Custom(func(t *rapid.T) Op {
		o := Op{Ctx: rapid.IntRange(0, 1<<20).Draw(t, "ctx")}
		if rapid.IntRange(0, 3).Draw(t, "kind") == 0 {
			o.New = true
			return o
		}
		o.Key = rapid.SampledFrom(keys).Draw(t, "key")
		o.Val = rapid.IntRange(0, 2).Draw(t, "val")
		return o
	})
	r.Rapid("histories", r.Pick(3000, 40000), func(t *rapid.T) *vk.Fail {
		c := Case{Root: rapid.IntRange(0, len(rootNames)-1).Draw(t, "root"), Ops: rapid.SliceOfN(opGen, 1, 300).Draw(t, "ops")}
		return runCase(r, c)
	})

	// ---- (G) witnesses of the two classes that are not asserted ----
	for _, c := range []XCase{
		{Root: 9},
		{Root: 9, Ops: []XOp{{Op: "set", Ctx: 0, Key: "a", Val: "1"}, {Op: "new", Ctx: 0}}},
		{Root: 0, Ops: []XOp{{Op: "newouter", Ctx: 0, NilData: true}, {Op: "set", Ctx: -1, Key: "a", Val: "1"}}},
		{Root: 3, Ops: []XOp{{Op: "newouter", Ctx: 0, NilData: true}, {Op: "new", Ctx: -1}, {Op: "set", Ctx: 1, Key: "len", Val: "2"}}},
		{Root: 8},
		{Root: 8, Ops: []XOp{{Op: "new", Ctx: 0}}},
		{Root: 8, Ops: []XOp{{Op: "new", Ctx: 0}, {Op: "new", Ctx: -1}, {Op: "set", Ctx: 1, Key: "b", Val: "nil"}}},
		{Root: 8, Sparse: true, Ops: []XOp{{Op: "newouter", Ctx: 0, Data: map[string]string{"a": "1"}}}},
	} {
		if os.Getenv("C10_WITNESSES") == "" {
			break // the two classes are not asserted: the witnesses run only on request
		}
		r.Check(runX(r, c))
	}

	pool := xrootPool(r)
	nilDataOK := !isOpen(r, "nil-data-map")

	// ---- (E2) every single-key history over the wide key / value pools ----
	// quick: length 2 for every key, length 3 for a plain key and the late-registered built-in; thorough: length 3 for every key
	L2 := 3
	shortKeys := map[string]bool{}
	if r.Quick() {
		for _, k := range xkeys {
			shortKeys[k] = k != "a" && k != lateName
		}
	}
	var leaves2 int64
	var rec2 func(root int, key string, ops []XOp, nctx int)
	rec2 = func(root int, key string, ops []XOp, nctx int) {
		if len(ops) == L2 || (len(ops) == 2 && shortKeys[key]) {
			if r.Mine(leaves2) {
				r.Check(runX(r, XCase{Root: root, Ops: append([]XOp(nil), ops...)}))
			}
			leaves2++
			return
		}
		for c := 0; c < nctx; c++ {
			if nctx < 3 {
				rec2(root, key, append(ops, XOp{Op: "new", Ctx: c}), nctx+1)
				for _, v := range []string{"1", "func"} {
					rec2(root, key, append(ops, XOp{Op: "newouter", Ctx: c, Data: map[string]string{key: v}}), nctx+1)
				}
				if nilDataOK {
					rec2(root, key, append(ops, XOp{Op: "newouter", Ctx: c, NilData: true}), nctx+1)
				} else {
					r.Exclude("nil-data-map")
				}
			}
			for _, v := range xvals {
				rec2(root, key, append(ops, XOp{Op: "set", Ctx: c, Key: key, Val: v}), nctx)
			}
		}
	}
	for _, root := range pool {
		for _, k := range xkeys {
			rec2(root, k, nil, 1)
		}
	}
	for _, x := range xroots {
		if x.class != "" && isOpen(r, x.class) {
			r.Exclude(x.class)
		}
	}
	r.Subspace(fmt.Sprintf("all single-key histories of length %d (quick: 2 except for keys a and c10late) over <=3 contexts (New, NewContextWithOuter with initial data {key: 1|func}, Set with 9 values) x %d keys x %d roots; dense reads, final sweep over all %d built-in names", L2, len(xkeys), len(pool), len(helperNames)), leaves2, true)

	// ---- (R2) random wide histories: all operation kinds, dense or sparse reads, recent-context bias ----
	xopGen := rapid.Custom(func(t *rapid.T) XOp {
		o := XOp{Ctx: rapid.IntRange(0, 1<<20).Draw(t, "ctx")}
		if rapid.IntRange(0, 2).Draw(t, "recent") == 0 {
			o.Ctx = -1
		}
		switch k := rapid.IntRange(0, 11).Draw(t, "kind"); {
		case k <= 1:
			o.Op = "new"
		case k == 2:
			o.Op = "newouter"
			if nilDataOK && rapid.IntRange(0, 7).Draw(t, "nildata") == 0 {
				o.NilData = true
				return o
			}
			o.Data = map[string]string{}
			for n := rapid.IntRange(0, 3).Draw(t, "ndata"); n > 0; n-- {
				k := rapid.SampledFrom(xkeys).Draw(t, "dkey")
				v := rapid.SampledFrom(xvals).Draw(t, "dval")
				if v == "nil" && isHelper[k] {
					r.Exclude("unspecified: nil under a built-in name in a child's initial data")
					continue
				}
				o.Data[k] = v
			}
		case k <= 7:
			o.Op = "set"
			o.Key = rapid.SampledFrom(xkeys).Draw(t, "key")
			o.Val = rapid.SampledFrom(xvals).Draw(t, "val")
		case k <= 9:
			o.Op = "value"
			o.Key = rapid.SampledFrom(xkeys).Draw(t, "key")
		default:
			o.Op = "has"
			o.Key = rapid.SampledFrom(xkeys).Draw(t, "key")
		}
		return o
	})
	r.Rapid("wide-histories", r.Pick(8000, 30000), func(t *rapid.T) *vk.Fail {
		c := XCase{
			Root:   rapid.SampledFrom(pool).Draw(t, "root"),
			Sparse: rapid.Bool().Draw(t, "sparse"),
			Ops:    rapid.SliceOfN(xopGen, 1, 40).Draw(t, "ops"),
		}
		return runX(r, c)
	})

	// ---- (R3) deep chains: a chain of up to D contexts, writes at random depths, sparse reads ----
	D := r.Pick(160, 320)
	r.Rapid("deep-chains", r.Pick(30, 40), func(t *rapid.T) *vk.Fail {
		c := XCase{Root: rapid.SampledFrom(pool).Draw(t, "root"), Sparse: true}
		depth := rapid.IntRange(1, D).Draw(t, "depth")
		if rapid.Bool().Draw(t, "nearmax") {
			depth = D - depth%16
		}
		for d := 0; d < depth; d++ {
			switch rapid.IntRange(0, 9).Draw(t, "write") {
			case 0:
				c.Ops = append(c.Ops, XOp{Op: "set", Ctx: -1, Key: rapid.SampledFrom(xkeys).Draw(t, "key"), Val: rapid.SampledFrom(xvals).Draw(t, "val")})
			case 1:
				c.Ops = append(c.Ops, XOp{Op: "value", Ctx: rapid.IntRange(0, d).Draw(t, "rctx"), Key: rapid.SampledFrom(xkeys).Draw(t, "key")})
			}
			c.Ops = append(c.Ops, XOp{Op: "new", Ctx: -1})
		}
		// late writes high up in the chain, read from the leaf by the final sweep
		for n := rapid.IntRange(1, 3).Draw(t, "late"); n > 0; n-- {
			c.Ops = append(c.Ops, XOp{Op: "set", Ctx: rapid.IntRange(0, depth).Draw(t, "wctx"), Key: rapid.SampledFrom(xkeys).Draw(t, "key"), Val: rapid.SampledFrom(xvals).Draw(t, "val")})
		}
		return runX(r, c)
	})
}
