// C09 — names bound inside for/function/partial/contentOf scopes never leak or clobber.
package c09

import (
	"encoding/json"
	"fmt"
	"html/template"
	"sort"
	"strings"
	"testing"

	"verif/internal/match"
	"verif/internal/model"
	"verif/internal/vk"

	plush "github.com/gobuffalo/plush/v5"
	"pgregory.net/rapid"
)

func TestMain(m *testing.M) { vk.Main(m) }

type Case struct {
	Src      string                     `json:"src"` // informational
	Prog     json.RawMessage            `json:"prog"`
	Partials map[string]json.RawMessage `json:"partials,omitempty"`
}

var names = []string{"x", "y", "v", "p", "k"}

func baseData() map[string]interface{} {
	return map[string]interface{}{"one": []interface{}{"e1"}, "two": []interface{}{1, 2}, "g": "G0"}
}

func run(r *vk.Run, prog []model.Node, partials map[string][]model.Node, class string) *vk.Fail {
	pr := model.Printer{}
	src := pr.Nodes(prog)
	c := Case{Src: src, Prog: model.Encode(prog)}
	ptext := map[string]string{}
	var pnames []string
	for n, body := range partials {
		if c.Partials == nil {
			c.Partials = map[string]json.RawMessage{}
		}
		c.Partials[n] = model.Encode(body)
		ptext[n] = pr.Nodes(body)
		pnames = append(pnames, n)
	}
	sort.Strings(pnames)
	defer r.Watch("scope", c)()
	want := model.RunWith(prog, baseData(), nil, partials)
	if want.Unspec != "" {
		r.Exclude("unspecified")
		return nil
	}
	ctx := model.Context(baseData(), nil)
	ctx.Set("partialFeeder", func(name string) (string, error) {
		s, ok := ptext[name]
		if !ok {
			return "", fmt.Errorf("no partial %q", name)
		}
		return s, nil
	})
	ctx.Set("blk", func(help plush.HelperContext) (template.HTML, error) {
		s, err := help.BlockWith(help.New())
		return template.HTML(s), err
	})
	ctx.Set("blkd", func(data map[string]interface{}, help plush.HelperContext) (template.HTML, error) {
		hc := help.New()
		for k, v := range data {
			hc.Set(k, v)
		}
		s, err := help.BlockWith(hc)
		return template.HTML(s), err
	})
	res := vk.Safe(func() (string, error) { return plush.Render(src, ctx) })
	full := src
	for _, n := range pnames {
		full += fmt.Sprintf("\n  partial %s: %s", n, ptext[n])
	}
	r.Count(full, class)
	r.Sample(func() interface{} {
		return map[string]interface{}{"template": src, "partials": ptext, "expected": want.Out, "expected_error": want.Err}
	})
	fail := func(f string, a ...interface{}) *vk.Fail {
		return &vk.Fail{Kind: "scope", Case: c, Msg: full + ": " + fmt.Sprintf(f, a...)}
	}
	if res.Panicked() {
		return fail("%s", res)
	}
	if want.Err != "" {
		if res.Err == nil {
			return fail("reference says error (%s), render gave %q", want.Err, res.Out)
		}
		return nil
	}
	if res.Err != nil {
		return fail("render failed: %v; reference output %q", res.Err, want.Out)
	}
	if !match.SameText(res.Out, want.Out) {
		return fail("output\n    %q, reference says\n    %q", res.Out, want.Out)
	}
	return nil
}

// ---- building blocks ---------------------------------------------------------------------

func T(s string) model.Node { return model.Text{S: s} }

// probe prints [n=value] or [n=-] when n is not visible.
func probe(n string) model.Node {
	return model.EmitIf{If: &model.If{Cond: model.Var{Name: n},
		Then:    []model.Node{T("[" + n + "="), model.Emit{X: model.Var{Name: n}}, T("]")},
		HasElse: true, Else: []model.Node{T("[" + n + "=-]")}}}
}

func probes(ns ...string) []model.Node {
	var out []model.Node
	for _, n := range ns {
		out = append(out, probe(n))
	}
	return out
}

func let(n, v string) model.Node { return model.Code{S: model.LetS{Name: n, X: model.Lit{V: v}}} }

type builder struct {
	partials map[string][]model.Node
	seq      int
	repeat   map[int]bool // levels whose construct is entered twice
	replay   bool         // a block of literal text stored at top level is replayed with contentOf at every deeper level, before that level's lets
}

func (b *builder) next(prefix string) string {
	b.seq++
	return fmt.Sprintf("%s%d", prefix, b.seq)
}

// construct wraps body in scope construct kind, binding `bind` (a name from the
// pool, or "") the way that construct binds names (loop variable / parameter /
// data key), to the value val.
func (b *builder) construct(kind int, bind, val string, body []model.Node) []model.Node {
	var data []model.KV
	if bind != "" {
		data = []model.KV{{K: bind, V: model.Lit{V: val}}}
	}
	switch kind {
	case 0: // for: the loop variable is the bound name
		lv := bind
		if lv == "" {
			lv = b.next("lv")
		}
		// the single element is the value, so the loop variable shows val
		return []model.Node{model.EmitFor{For: &model.For{Val: lv, Iter: model.Arr{Els: []model.Expr{model.Lit{V: val}}}, Body: body}}}
	case 1: // user function defined and called on the spot; parameter is the bound name
		fn := b.next("fun")
		var params []string
		var args []model.Expr
		if bind != "" {
			params = []string{bind}
			args = []model.Expr{model.Lit{V: val}}
		}
		return []model.Node{
			model.Code{S: model.LetS{Name: fn, X: model.FnLit{Params: params, Body: body}}},
			model.Emit{X: model.Call{Fn: fn, Args: args}},
		}
	case 2: // partial with data
		pn := b.next("part")
		b.partials[pn] = body
		if data == nil {
			data = []model.KV{}
		}
		// and the partial a second time without data
		return []model.Node{model.EmitPartial{Name: pn, Data: data}, T("~again:"), model.EmitPartial{Name: pn, Data: []model.KV{}}}
	case 3: // contentFor + contentOf with data, in the same scope
		cn := b.next("cf")
		if data == nil {
			data = []model.KV{}
		}
		// the stored block is replayed a SECOND time without data: what the first replay was given, and what the
		// block let-bound while it ran, belongs to that replay only
		return []model.Node{model.ContentFor{Name: cn, Body: body}, T("~"), model.EmitContentOf{Name: cn, Data: data},
			T("~again:"), model.EmitContentOf{Name: cn, Data: []model.KV{}}}
	default: // block helper rendering its block on a fresh child context
		if bind == "" {
			return []model.Node{model.EmitBlock{Helper: "blk", Body: body}}
		}
		return []model.Node{model.EmitBlock{Helper: "blkd", Data: data, Body: body}}
	}
}

var kindNames = []string{"for", "fn", "partial", "contentFor/Of", "block-helper"}

// nest builds a fixed pattern: at every level shadow x, add a fresh name,
// bind one pool name through the construct, and probe everything before,
// inside and after.
// twice wraps nodes in a loop of two iterations that binds nothing of its own
// except a unique loop variable: whatever construct is inside is ENTERED TWICE
// under the same enclosing scope, and must start from scratch the second time.
func (b *builder) twice(ns []model.Node) []model.Node {
	return []model.Node{T("{2x:"), model.EmitFor{For: &model.For{Val: b.next("rep"), Iter: model.Var{Name: "two"}, Body: ns}}, T("}")}
}

func (b *builder) nest(kinds []int, level int, binds []string) []model.Node {
	all := append(append([]string{}, names...), "g")
	lv := fmt.Sprintf("L%d", level)
	var out []model.Node
	out = append(out, T(fmt.Sprintf("<%d:", level)))
	if b.replay && level == 0 {
		out = append(out, model.ContentFor{Name: "topblock", Body: []model.Node{T("(stored)")}})
	}
	out = append(out, probes(all...)...)
	if b.replay && level > 0 {
		// replaying a block stored in an OUTER scope must not disturb where this scope's later bindings go
		out = append(out, model.EmitContentOf{Name: "topblock", Data: []model.KV{}})
	}
	out = append(out, let("x", "x"+lv)) // shadows / rebinds x at this level
	if level%2 == 1 {
		out = append(out, let("y", "y"+lv))
	}
	out = append(out, probe("x"), probe("y"))
	if len(kinds) > 0 {
		inner := b.nest(kinds[1:], level+1, binds[1:])
		cons := b.construct(kinds[0], binds[0], binds[0]+"@"+lv, inner)
		if b.repeat[level] {
			cons = b.twice(cons)
		}
		out = append(out, cons...)
		out = append(out, T("|after:"))
		out = append(out, probes(all...)...)
	}
	out = append(out, T(">"))
	return out
}

// ---- random generator ---------------------------------------------------------------------

type rgen struct {
	t      *rapid.T
	b      *builder
	n      int
	replay bool
}

func (g *rgen) nodes(depth int) []model.Node {
	t := g.t
	var out []model.Node
	cnt := rapid.IntRange(1, 5).Draw(t, "cnt")
	for i := 0; i < cnt; i++ {
		switch k := rapid.IntRange(0, 9).Draw(t, "k"); {
		case k <= 2:
			out = append(out, probe(rapid.SampledFrom(append(names, "g")).Draw(t, "pn")))
		case k <= 5:
			g.n++
			out = append(out, let(rapid.SampledFrom(names).Draw(t, "ln"), fmt.Sprintf("V%d", g.n)))
		case k == 6:
			if g.replay {
				out = append(out, model.EmitContentOf{Name: "topblock", Data: []model.KV{}})
			} else {
				out = append(out, T("."))
			}
		default:
			if depth > 0 {
				g.n++
				bind := rapid.SampledFrom(append([]string{""}, names...)).Draw(t, "bind")
				kind := rapid.IntRange(0, 4).Draw(t, "kind")
				out = append(out, T("("))
				cons := g.b.construct(kind, bind, fmt.Sprintf("B%d", g.n), g.nodes(depth-1))
				if rapid.IntRange(0, 2).Draw(t, "twice") == 0 {
					cons = g.b.twice(cons)
				}
				out = append(out, cons...)
				out = append(out, T(")"))
			}
		}
	}
	// always end a block by probing every name
	out = append(out, probes(append(append([]string{}, names...), "g")...)...)
	return out
}

const rule = "scope constructs {for, user function defined and called on the spot, partial with data, contentFor + contentOf with data in one scope (the stored block, and likewise the partial, is used a second time WITHOUT data: nothing the first use was given or let-bound may be visible), block helper rendering its block with BlockWith on a fresh child context}; names {x, y, v, p, k} bound by let (fresh and shadowing), and through the construct itself (loop variable / parameter / data key equal to a name that is let-bound outside); probes <%= if (n) { %>[n=<%= n %>]<% } else { %>[n=-]<% } %> for every name before, inside and after each construct. (E) every nesting of 1, 2 and 3 constructs (5 + 25 + 125) x 4 binding patterns x every subset of levels whose construct is ENTERED TWICE (wrapped in a two-iteration loop that binds nothing else), with a fixed let/probe pattern at every level; in half of them a block of literal text stored at top level is replayed with contentOf inside every deeper scope before that scope's lets; (R) random let/probe/construct sequences nested to depth 3. Oracle: environment-chain reference interpreter (each construct is a child scope; lets and bound names vanish when it ends; outer names stay readable and unchanged; top-level let persists). Non-trivial: every case nests at least one construct (distinct by template + partial texts)."

func setup(t *testing.T) *vk.Run {
	r := vk.Start(t, "C09", rule,
		"loops that bind names run a single iteration; constructs are re-entered through a two-iteration wrapper loop that lets nothing itself; reading a name let-bound in an earlier iteration of the same loop is Unspecified in the model",
		"functions are defined immediately before their call, so lexical and dynamic resolution of free names agree; contentFor and contentOf are used in the same scope",
		"if blocks and plain Block() helpers are not scopes and are not used as such; bare assignment inside a scope is not used")
	r.Replayer("scope", func(raw json.RawMessage) *vk.Fail {
		var c Case
		if f := vk.Decode(raw, &c); f != nil {
			return f
		}
		prog, err := model.Decode(c.Prog)
		if err != nil {
			return &vk.Fail{Kind: "decode", Msg: err.Error()}
		}
		parts := map[string][]model.Node{}
		for n, raw := range c.Partials {
			body, err := model.Decode(raw)
			if err != nil {
				return &vk.Fail{Kind: "decode", Msg: err.Error()}
			}
			parts[n] = body
		}
		return run(r, prog, parts, "replay")
	})
	return r
}

func TestReplay(t *testing.T) { setup(t).ReplayEnv() }

func TestProp(t *testing.T) {
	r := setup(t)
	defer r.Finish()
	r.ReplayCommitted()

	patterns := [][]string{{"v", "p", "k"}, {"x", "x", "x"}, {"", "y", ""}, {"k", "k", "v"}}
	var cells int64
	for depth := 1; depth <= 3; depth++ {
		total := 1
		for i := 0; i < depth; i++ {
			total *= 5
		}
		for code := 0; code < total; code++ {
			kinds := make([]int, depth)
			c := code
			for i := range kinds {
				kinds[i] = c % 5
				c /= 5
			}
			for _, pat := range patterns {
				if r.Quick() && depth == 3 && (code+len(pat[0]))%2 == 1 {
					continue
				}
				for mask := 0; mask < 1<<depth; mask++ {
					if r.Quick() && depth == 3 && mask != 0 && mask != 2 && mask != 7 {
						continue
					}
					if r.Mine(cells) {
						b := &builder{partials: map[string][]model.Node{}, repeat: map[int]bool{}, replay: (code+mask)%2 == 1}
						for l := 0; l < depth; l++ {
							b.repeat[l] = mask&(1<<l) != 0
						}
						prog := b.nest(kinds, 0, pat[:depth])
						var kn []string
						for l, k := range kinds {
							n := kindNames[k]
							if b.repeat[l] {
								n += "x2"
							}
							kn = append(kn, n)
						}
						r.Check(run(r, prog, b.partials, "nest/"+strings.Join(kn, ">")))
					}
					cells++
				}
			}
		}
	}
	r.Subspace("every nesting of 1..3 scope constructs (5+25+125) x 4 binding patterns x every subset of levels entered twice (quick: half of depth 3, 3 of 8 subsets there)", cells, !r.Quick())

	r.Rapid("random", r.Pick(3000, 40000), func(t *rapid.T) *vk.Fail {
		g := &rgen{t: t, b: &builder{partials: map[string][]model.Node{}}}
		g.replay = rapid.Bool().Draw(t, "replay")
		prog := g.nodes(3)
		if g.replay {
			prog = append([]model.Node{model.ContentFor{Name: "topblock", Body: []model.Node{T("(stored)")}}}, prog...)
		}
		return run(r, prog, g.b.partials, "random")
	})
}
