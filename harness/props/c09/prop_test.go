// C09 — names bound inside for/function/partial/contentOf scopes never leak or clobber.
package c09

import (
	"encoding/json"
	"errors"
	"fmt"
	"html/template"
	"sort"
	"strings"
	"testing"

	"verif/internal/match"
	"verif/internal/model"
	"verif/internal/vk"

	plush "github.com/gobuffalo/plush/v5"
	"github.com/gobuffalo/plush/v5/helpers/content"
	"pgregory.net/rapid"
)

func TestMain(m *testing.M) { vk.Main(m) }

type Case struct {
	Src      string                     `json:"src"` // informational
	Prog     json.RawMessage            `json:"prog"`
	Partials map[string]json.RawMessage `json:"partials,omitempty"`
	// Bare: partial("n") and contentOf("n") are spelled without the empty data hash.
	Bare bool `json:"bare,omitempty"`
	// Again: the template is parsed once and executed twice on fresh contexts; both executions must agree.
	Again bool `json:"again,omitempty"`
	// Alt (kind "alt"): the statements do not say whether Prog renders at all (a condition that is a call of a
	// function whose body fails on an unknown identifier; a silent construct whose body returns from inside a loop
	// or reads what an earlier iteration bound). The render may fail; IF it succeeds the output must be that of
	// Alt: the same program with the condition's value written out, or with the silent construct erased.
	Alt json.RawMessage `json:"alt,omitempty"`
	// Strict (kind "assign"): Prog holds bare assignments `n = v` to names that are bound OUTSIDE the scope
	// construct the assignment stands in (user function, partial, contentFor/contentOf block, block helper with
	// its own context, or a for nested in one of those). The statement makes such a write the construct's own
	// ("names set inside ... leave same-named outer variables unchanged"), so Prog must render, and render what
	// Alt renders: the same program with each of these assignments written as `let n = v`. AltPartials are the
	// partials of Alt.
	Strict      bool                       `json:"strict,omitempty"`
	AltPartials map[string]json.RawMessage `json:"alt_partials,omitempty"`
}

var names = []string{"x", "y", "v", "p", "k"}

// probed everywhere: the pool, the data-only name g, and len - a name of the DATA that is also the name of a default helper
var allNames = []string{"x", "y", "v", "p", "k", "g", "len"}

func baseData() map[string]interface{} {
	return map[string]interface{}{"one": []interface{}{"e1"}, "two": []interface{}{1, 2}, "g": "G0", "len": "LEN0"}
}

// listIter is an Iterator for both sides (model.Iterator and plush.Iterator have the same method).
type listIter struct {
	vs []interface{}
	i  int
}

func (l *listIter) Next() interface{} {
	if l.i >= len(l.vs) {
		return nil
	}
	l.i++
	return l.vs[l.i-1]
}

// helpers known to both sides: iter(a, b, ...) returns a fresh Iterator over its arguments
func helpers() map[string]model.Helper {
	return map[string]model.Helper{"iter": func(args []interface{}) (interface{}, error) {
		return &listIter{vs: append([]interface{}{}, args...)}, nil
	}}
}

type opts struct {
	bare  bool
	alt   []model.Node
	again bool   // parse once, execute twice on fresh contexts
	why   string // with alt: what alt is
	// strict: alt is not an allowed alternative but THE reference (see Case.Strict); altParts are its partials
	strict   bool
	altParts map[string][]model.Node
}

var errTwoExecs = errors.New("two executions of one parsed template disagree")

func bareText(s string) string { return strings.ReplaceAll(s, ", {})", ")") }

func run(r *vk.Run, prog []model.Node, partials map[string][]model.Node, class string, o opts) *vk.Fail {
	pr := model.Printer{}
	src := pr.Nodes(prog)
	if o.bare {
		src = bareText(src)
	}
	c := Case{Src: src, Prog: model.Encode(prog), Bare: o.bare, Again: o.again}
	kind := "scope"
	if o.alt != nil {
		c.Alt = model.Encode(o.alt)
		kind = "alt"
		if o.strict {
			kind, c.Strict = "assign", true
			for n, body := range o.altParts {
				if c.AltPartials == nil {
					c.AltPartials = map[string]json.RawMessage{}
				}
				c.AltPartials[n] = model.Encode(body)
			}
		}
	}
	ptext := map[string]string{}
	var pnames []string
	for n, body := range partials {
		if c.Partials == nil {
			c.Partials = map[string]json.RawMessage{}
		}
		c.Partials[n] = model.Encode(body)
		ptext[n] = pr.Nodes(body)
		if o.bare {
			ptext[n] = bareText(ptext[n])
		}
		pnames = append(pnames, n)
	}
	sort.Strings(pnames)
	defer r.Watch(kind, c)()
	ref, refParts := prog, partials
	if o.alt != nil {
		ref = o.alt
		if o.strict && o.altParts != nil {
			refParts = o.altParts
		}
	}
	want := model.RunWith(ref, baseData(), helpers(), refParts)
	if want.Unspec != "" || (o.alt != nil && want.Err != "") {
		r.Exclude("unspecified")
		return nil
	}
	mkctx := func() *plush.Context {
		ctx := model.Context(baseData(), helpers())
		ctx.Set("partialFeeder", func(name string) (string, error) {
			s, ok := ptext[name]
			if !ok {
				return "", fmt.Errorf("no partial %q", name)
			}
			return s, nil
		})
		ctx.Set("blk", func(help plush.HelperContext) (template.HTML, error) {
			s, err := help.BlockWith(help.New())
			return template.HTML(s), err
		})
		// cofb is contentOf for a name that nothing stores: contentOf then renders its own (default) block, with the data
		ctx.Set("cofb", func(data map[string]interface{}, help plush.HelperContext) (template.HTML, error) {
			return content.ContentOf("a name that nothing stores", data, help)
		})
		ctx.Set("blkd", func(data map[string]interface{}, help plush.HelperContext) (template.HTML, error) {
			hc := help.New()
			for k, v := range data {
				hc.Set(k, v)
			}
			s, err := help.BlockWith(hc)
			return template.HTML(s), err
		})
		return ctx
	}
	var res vk.Res
	if !o.again {
		res = vk.Safe(func() (string, error) { return plush.Render(src, mkctx()) })
	} else {
		// the template is parsed once and executed twice, each time on a fresh context: the second execution
		// must not see anything of the first (it is judged below in place of the first, which must agree with it)
		res = vk.Safe(func() (string, error) {
			t, err := plush.NewTemplate(src)
			if err != nil {
				return "", err
			}
			o1, e1 := t.Exec(mkctx())
			o2, e2 := t.Exec(mkctx())
			if (e1 == nil) != (e2 == nil) || (e1 == nil && o1 != o2) {
				return "", fmt.Errorf("%w: first %q, %v; second %q, %v", errTwoExecs, o1, e1, o2, e2)
			}
			return o2, e2
		})
		if errors.Is(res.Err, errTwoExecs) {
			r.Count(src, class)
			return &vk.Fail{Kind: kind, Case: c, Msg: src + ": " + res.Err.Error()}
		}
	}
	full := src
	for _, n := range pnames {
		full += fmt.Sprintf("\n  partial %s: %s", n, ptext[n])
	}
	r.Count(full, class)
	r.Sample(func() interface{} {
		return map[string]interface{}{"template": src, "partials": ptext, "expected": want.Out, "expected_error": want.Err}
	})
	fail := func(f string, a ...interface{}) *vk.Fail {
		return &vk.Fail{Kind: kind, Case: c, Msg: full + ": " + fmt.Sprintf(f, a...)}
	}
	if res.Panicked() {
		return fail("%s", res)
	}
	if o.strict {
		full += "\n  (reference: " + o.why + ")"
	}
	if o.alt != nil && !o.strict {
		if res.Err != nil {
			r.Class(o.why + ": the render failed (allowed)")
			return nil
		}
		r.Class(o.why + ": the render went on")
		if !match.SameText(res.Out, want.Out) {
			return fail("the render succeeded, so its output must be that of the %s;\n    got %q, reference says\n    %q", o.why, res.Out, want.Out)
		}
		return nil
	}
	if want.Err != "" {
		r.Class("the reference says the render must fail")
		if res.Err == nil {
			return fail("reference says error (%s), render gave %q", want.Err, res.Out)
		}
		return nil
	}
	if res.Err != nil {
		if want.Lenient != "" && strings.Contains(res.Err.Error(), "unknown identifier") {
			r.Exclude("nested unknown identifier not forgiven")
			return nil
		}
		return fail("render failed: %v; reference output %q", res.Err, want.Out)
	}
	if !match.SameText(res.Out, want.Out) {
		if o.strict {
			// lead with the place where the two part: the template is long
			i := 0
			for i < len(res.Out) && i < len(want.Out) && res.Out[i] == want.Out[i] {
				i++
			}
			from := strings.LastIndex(want.Out[:i], "[") // start of the probe that differs
			if from < 0 {
				from = i
			}
			win := func(s string) string {
				if from >= len(s) {
					return ""
				}
				if len(s) > from+40 {
					return s[from:from+40] + "…"
				}
				return s[from:]
			}
			return &vk.Fail{Kind: kind, Case: c, Msg: fmt.Sprintf("a bare assignment in a scope of its own is not that scope's own: output parts from the reference at byte %d: got %q, reference %q; %s\n    output %q, reference says\n    %q",
				i, win(res.Out), win(want.Out), full, res.Out, want.Out)}
		}
		return fail("output\n    %q, reference says\n    %q", res.Out, want.Out)
	}
	return nil
}

// ---- building blocks ---------------------------------------------------------------------

func T(s string) model.Node { return model.Text{S: s} }

// probe prints [n=value] or [n=-] when n is not visible.
func probe(n string) model.Node {
	return model.EmitIf{If: &model.If{Cond: model.Var{Name: n},
		Then:    []model.Node{T("[" + n + "="), model.Emit{X: model.Var{Name: n}}, T("]")},
		HasElse: true, Else: []model.Node{T("[" + n + "=-]")}}}
}

func probes(ns ...string) []model.Node {
	var out []model.Node
	for _, n := range ns {
		out = append(out, probe(n))
	}
	return out
}

func lit(v interface{}) model.Expr { return model.Lit{V: v} }

func let(n, v string) model.Node { return model.Code{S: model.LetS{Name: n, X: model.Lit{V: v}}} }

func letx(n string, x model.Expr) model.Node { return model.Code{S: model.LetS{Name: n, X: x}} }

// chain is `let n = n + suffix`: the new binding is computed from the one it shadows
func chain(n, suffix string) model.Node {
	return letx(n, model.Bin{Op: "+", L: model.Var{Name: n}, R: lit(suffix)})
}

// spices: shapes added to the fixed let/probe pattern of every level (and drawn by the random generator)
type spice int

const (
	spOuterFn spice = 1 << iota // a function defined ONCE at top level is called at every level; it lets x and k before it reads them
	spAssign                    // a name let-bound in a scope is then re-assigned there with a bare `x = ...`
	spChain                     // inner shadowing lets read the binding they shadow: let x = x + "~L1"
	spIfLet                     // a let inside an if block inside the scope, read after the scope has ended
	spBare                      // partial("n") / contentOf("n") without the empty data hash
	spAll           = spOuterFn | spAssign | spChain | spIfLet | spBare
	// spOuterAssign (not part of spAll; its oracle is the let-rewritten program, see outerAssign): inside every
	// scope of its own a BARE assignment to names that are bound further out - by a let, by an outer construct
	// (parameter / data key / loop variable), by the context data (g, len)
	spOuterAssign spice = 1 << 5
)

var spiceNames = []string{"outer-fn", "assign", "chain-let", "if-let", "bare", "outer-assign"}

func (s spice) String() string {
	if s == 0 {
		return "plain"
	}
	var out []string
	for i, n := range spiceNames {
		if s&(1<<i) != 0 {
			out = append(out, n)
		}
	}
	return strings.Join(out, "+")
}

type builder struct {
	partials  map[string][]model.Node
	seq       int
	repeat    map[int]bool // levels whose construct is entered twice
	replay    bool         // a block of literal text stored at top level is replayed with contentOf at every deeper level, before that level's lets
	sp        spice
	letsFirst bool // every level lets its names before it reads anything (needed under a loop of two iterations that binds names)
	// spOuterAssign
	kinds     []int            // the whole nesting; level l > 0 is the body of kinds[l-1]
	binds     []string         // the whole binding pattern
	asLet     bool             // build the REFERENCE program: the outer assignments are written as let
	skipAfter map[int][]string // level -> names not probed after that level's construct (a for under it wrote them: open)
	nOuter    int              // outer assignments emitted
}

// ownScope: the construct runs its body in a scope of its own that is NOT the caller's frame continued: what is
// set there is the construct's ("parameters and let-bound names inside a user-defined function, and names set
// inside a partial or a contentOf/contentFor block with its own data ... leave same-named outer variables
// unchanged"). The loops are left out: whether a bare assignment in a loop body directly under the binding frame
// lands in the loop's scope or in the enclosing one is not said anywhere.
func ownScope(kind int) bool {
	switch kind {
	case kPartial, kContent, kPartialVar, kContentDeflt, kPartialLay, kPartialHeld, kContentHeld, kPartialLoop:
		return true
		// user functions (kFn, kFnReturn, kFnReturnIf, kFnTwoParams, kFnTwice, kFnRec) and the block helper on a child
		// context (kBlock) are left out on purpose: for functions the statement speaks of "parameters and let-bound
		// names" only - an engine whose function bodies assign to the variables of the enclosing scope (closures)
		// keeps it -, and block helpers are not named at all
	}
	return false
}

var ownKinds = func() (ks []int) {
	for k := 0; k < nKinds; k++ {
		if ownScope(k) {
			ks = append(ks, k)
		}
	}
	return
}()

// set is the bare assignment n = x, or, in the reference program, let n = x
func (b *builder) set(n string, x model.Expr) model.Node {
	b.nOuter++
	if b.asLet {
		return letx(n, x)
	}
	return model.Code{S: model.AssignS{Name: n, X: x}}
}

// outerAssign gives what spOuterAssign adds to level `level`: `top` goes before anything the level reads, `mid`
// after its first probes and before its own lets.
//
// DIRECT (the level is the body of an own-scope construct): after the probes have shown the outer values, assign
// x (let-bound one level up, or bound by an outer construct), g and len (context data), y (let-bound two levels
// up) - whichever is not bound by the construct just entered; g and len only if no loop further in assigns them -, g from its own outer value, len inside an if
// block (no scope), and probe them. The write is the construct's own, exactly like a let: so the reference is the
// same program with let.
//
// UNDER A FOR (the level is the body of a loop, and further out there is an own-scope construct S with nothing
// but single-pass loops in between): assign g and len, which no frame from S inwards binds, as the FIRST thing of
// every pass, and probe them. Inside the pass the new value is read; once S has ended the outer one is back.
// Whether the loop's write is still seen in S after the loop is not said (it may be the loop's or S's), so those
// names are not probed between the end of the loop and the end of S, and a recursive function (which probes at
// its end) is not taken as S.
// underFor: level is a loop body with an own-scope construct kinds[s] further out and single-pass loops only in between; else -1
func (b *builder) underFor(level int) int {
	if level < 2 || ownScope(b.kinds[level-1]) {
		return -1
	}
	for i := level - 2; i >= 0; i-- {
		if ownScope(b.kinds[i]) {
			if b.kinds[i] == kFnRec {
				return -1
			}
			return i
		}
		// a loop in between must run its body once, or its second pass would read what the first one's inner loop wrote
		if b.kinds[i] == kForTwo || b.repeat[i] {
			return -1
		}
	}
	return -1
}

func (b *builder) outerAssign(level int) (top, mid []model.Node) {
	if b.sp&spOuterAssign == 0 || level == 0 {
		return
	}
	lv := fmt.Sprintf("L%d", level)
	entered := b.kinds[level-1]
	bound := b.binds[level-1]
	if ownScope(entered) {
		cand := []string{"x", "g", "len"}
		if level >= 2 {
			cand = append(cand, "y")
		}
		// g and len are left to a loop further in, if there is one that assigns them: they must not be bound here then
		later := false
		for l := level + 1; l <= len(b.kinds); l++ {
			later = later || b.underFor(l) == level-1
		}
		var done []string
		for _, n := range cand {
			if n == bound || (later && (n == "g" || n == "len")) {
				continue
			}
			switch n {
			case "g":
				mid = append(mid, b.set("g", model.Bin{Op: "+", L: model.Var{Name: "g"}, R: lit("!A" + lv)}))
			case "len":
				mid = append(mid, model.EmitIf{If: &model.If{Cond: model.Var{Name: "g"}, Then: []model.Node{b.set("len", lit("len!A"+lv))}}})
			default:
				mid = append(mid, b.set(n, lit(n+"!A"+lv)))
			}
			done = append(done, n)
		}
		mid = append(mid, T("{set:"))
		mid = append(mid, probes(done...)...)
		mid = append(mid, T("}"))
		return
	}
	s := b.underFor(level)
	if s < 0 {
		return
	}
	names := []string{"g", "len"}
	for _, n := range names {
		top = append(top, b.set(n, lit(n+"!F"+lv)))
	}
	top = append(top, T("{set:"))
	top = append(top, probes(names...)...)
	top = append(top, T("}"))
	for l := s + 1; l < level; l++ {
		b.skipAfter[l] = names
	}
	return
}

func (b *builder) next(prefix string) string {
	b.seq++
	return fmt.Sprintf("%s%d", prefix, b.seq)
}

const (
	kFor = iota
	kFn
	kPartial
	kContent
	kBlock
	// the widened kinds
	kForKey       // for (bind, lv) in [val]: the KEY variable is the bound name (value 0)
	kForMapKey    // for (bind, lv) in {a: val}: the bound name is the key of a map entry
	kForMapVal    // for (lk, bind) in {a: val}
	kForIter      // for (bind) in iter(val): an Iterator
	kForIterKey   // for (bind, lv) in iter(val)
	kForEmpty     // for (bind) in []: no iteration
	kForNil       // for (bind) in nil
	kForTwo       // for (bind) in [val+"a", val+"b"]: two iterations that bind the name
	kForSilent    // <% for (bind) in [val] { %>...<% } %>: a loop in a silent tag
	kFnReturn     // function whose body ends in a return statement
	kFnReturnIf   // function that returns from inside an if block, with dead lets after it
	kFnTwoParams  // fn(q, bind)
	kFnTwice      // function defined once and called twice with different arguments
	kFnRec        // function that calls itself twice deep and probes again after the inner call
	kPartialVar   // partial whose data value reads a variable of the caller
	kContentDeflt // contentOf for a name nothing stores: its own block is rendered with the data (twice, second time without)
	kPartialLay   // partial with data and a layout; the layout lets x, v and k and prints nothing but the partial (again without data and layout)
	kForCall      // for (bind) in mk(): the iterable comes from a function that lets x and v before it returns it
	kPartialHeld  // the data hash of a partial is held in a variable and used by two calls; the hash is read back afterwards
	kContentHeld  // the same for contentFor + contentOf
	kPartialLoop  // one held data hash handed to the same partial on each of two loop passes
	nKinds
)

var kindNames = []string{"for", "fn", "partial", "contentFor/Of", "block-helper",
	"for-key", "for-map-key", "for-map-val", "for-iter", "for-iter-key", "for-empty", "for-nil", "for-two", "for-silent",
	"fn-return", "fn-return-if", "fn-2params", "fn-called-twice", "fn-recursive", "partial-datavar", "contentOf-default-block", "partial-with-layout", "for-over-call",
	"partial-held-data", "contentOf-held-data", "partial-held-data-in-loop"}

// construct wraps body in scope construct kind, binding `bind` (a name from the
// pool, or "") the way that construct binds names (loop variable / parameter /
// data key), to the value val (for a key variable: to 0 or "a").
func (b *builder) construct(kind int, bind, val string, body []model.Node) []model.Node {
	var data []model.KV
	if bind != "" {
		data = []model.KV{{K: bind, V: model.Lit{V: val}}}
	}
	orFresh := func(prefix string) string {
		if bind != "" {
			return bind
		}
		return b.next(prefix)
	}
	one := model.Arr{Els: []model.Expr{lit(val)}}
	hash := model.Hash{KVs: []model.KV{{K: "a", V: lit(val)}}}
	iter := model.Call{Fn: "iter", Args: []model.Expr{lit(val)}}
	loop := func(key, v string, it model.Expr) []model.Node {
		return []model.Node{model.EmitFor{For: &model.For{Key: key, Val: v, Iter: it, Body: body}}}
	}
	// fn defines a function (parameters: the bound name, if any, after `before`) and calls it with the given leading arguments
	fn := func(before []string, lead []model.Expr, body []model.Node) (string, []model.Node) {
		name := b.next("fun")
		params := append([]string{}, before...)
		args := append([]model.Expr{}, lead...)
		if bind != "" {
			params = append(params, bind)
			args = append(args, lit(val))
		}
		return name, []model.Node{
			letx(name, model.FnLit{Params: params, Body: body}),
			model.Emit{X: model.Call{Fn: name, Args: args}},
		}
	}
	switch kind {
	case kFor: // the loop variable is the bound name; the single element is the value, so the loop variable shows val
		return loop("", orFresh("lv"), one)
	case kFn: // user function defined and called on the spot; parameter is the bound name
		_, ns := fn(nil, nil, body)
		return ns
	case kPartial: // partial with data
		pn := b.next("part")
		b.partials[pn] = body
		if data == nil {
			data = []model.KV{}
		}
		// and the partial a second time without data
		return []model.Node{model.EmitPartial{Name: pn, Data: data}, T("~again:"), model.EmitPartial{Name: pn, Data: []model.KV{}}}
	case kContent: // contentFor + contentOf with data, in the same scope
		cn := b.next("cf")
		if data == nil {
			data = []model.KV{}
		}
		// the stored block is replayed a SECOND time without data: what the first replay was given, and what the
		// block let-bound while it ran, belongs to that replay only
		return []model.Node{model.ContentFor{Name: cn, Body: body}, T("~"), model.EmitContentOf{Name: cn, Data: data},
			T("~again:"), model.EmitContentOf{Name: cn, Data: []model.KV{}}}
	case kBlock: // block helper rendering its block on a fresh child context
		if bind == "" {
			return []model.Node{model.EmitBlock{Helper: "blk", Body: body}}
		}
		return []model.Node{model.EmitBlock{Helper: "blkd", Data: data, Body: body}}

	case kForKey:
		return loop(orFresh("lk"), b.next("lv"), one)
	case kForMapKey:
		return loop(orFresh("lk"), b.next("lv"), hash)
	case kForMapVal:
		return loop(b.next("lk"), orFresh("lv"), hash)
	case kForIter:
		return loop("", orFresh("lv"), iter)
	case kForIterKey:
		return loop(orFresh("lk"), b.next("lv"), iter)
	case kForEmpty:
		return loop("", orFresh("lv"), model.Arr{})
	case kForNil:
		return loop("", orFresh("lv"), lit(nil))
	case kForTwo:
		return loop("", orFresh("lv"), model.Arr{Els: []model.Expr{lit(val + "a"), lit(val + "b")}})
	case kForSilent:
		return []model.Node{model.Code{S: model.ForS{For: &model.For{Val: orFresh("lv"), Iter: one, Body: body}}}}
	case kFnReturn:
		_, ns := fn(nil, nil, append(append([]model.Node{}, body...), model.Code{S: model.ReturnS{X: lit("R" + val)}}))
		return ns
	case kFnReturnIf:
		_, ns := fn(nil, nil, append(append([]model.Node{}, body...),
			model.Code{S: model.IfS{If: &model.If{Cond: model.Var{Name: "g"}, Then: []model.Node{model.Code{S: model.ReturnS{X: lit("R" + val)}}}}}},
			let("x", "dead"), let("v", "dead"), T("dead")))
		return ns
	case kFnTwoParams:
		_, ns := fn([]string{b.next("q")}, []model.Expr{lit("q")}, body)
		return ns
	case kFnTwice:
		name, ns := fn(nil, nil, body)
		var args []model.Expr
		if bind != "" {
			args = []model.Expr{lit(val + "2")}
		}
		return append(ns, T("~again:"), model.Emit{X: model.Call{Fn: name, Args: args}})
	case kFnRec:
		name, n := b.next("fun"), b.next("n")
		params, args, inner := []string{n}, []model.Expr{lit(2)}, []model.Expr{model.Bin{Op: "-", L: model.Var{Name: n}, R: lit(1)}}
		if bind != "" {
			params, args = append(params, bind), append(args, lit(val))
			inner = append(inner, model.Bin{Op: "+", L: model.Var{Name: bind}, R: lit("r")})
		}
		rec := append(append([]model.Node{}, body...),
			model.EmitIf{If: &model.If{Cond: model.Bin{Op: ">", L: model.Var{Name: n}, R: lit(0)},
				Then: []model.Node{T("{rec:"), model.Emit{X: model.Call{Fn: name, Args: inner}}, T("}")}}})
		// after the inner call every name, the counter included, is what it was before it
		rec = append(rec, probes(append(append([]string{}, allNames...), n)...)...)
		return []model.Node{letx(name, model.FnLit{Params: params, Body: rec}), model.Emit{X: model.Call{Fn: name, Args: args}}}
	case kPartialVar:
		pn := b.next("part")
		b.partials[pn] = body
		d := []model.KV{}
		if bind != "" {
			d = []model.KV{{K: bind, V: model.Bin{Op: "+", L: model.Var{Name: "g"}, R: lit(val)}}}
		}
		return []model.Node{model.EmitPartial{Name: pn, Data: d}}
	case kForCall:
		mk := b.next("mk")
		return append([]model.Node{letx(mk, model.FnLit{Body: []model.Node{let("x", "mk-x"), let("v", "mk-v"), code(model.ReturnS{X: one})}})},
			loop("", orFresh("lv"), model.Call{Fn: mk})...)
	case kPartialLay:
		pn, ln := b.next("part"), b.next("lay")
		b.partials[pn] = body
		b.partials[ln] = []model.Node{let("x", "lay"), let("v", "lay"), let("k", "lay"), model.Emit{X: model.Var{Name: "yield"}}}
		d := append([]model.KV{{K: "layout", V: lit(ln)}}, data...)
		return []model.Node{model.EmitPartial{Name: pn, Data: d}, T("~again:"), model.EmitPartial{Name: pn, Data: []model.KV{}}}
	case kPartialHeld, kContentHeld, kPartialLoop:
		// let ov = {bind: val, z: "z"}; the construct twice with ov as its data; ov[bind] afterwards: what the
		// construct lets is its own, also when the next use is handed the same hash
		ov := b.next("held")
		kvs := []model.KV{{K: "zz", V: lit("z")}}
		back := "zz"
		if bind != "" {
			kvs = append([]model.KV{{K: bind, V: lit(val)}}, kvs...)
			back = bind
		}
		out := []model.Node{letx(ov, model.Hash{KVs: kvs})}
		readBack := []model.Node{T("~held:"), model.Emit{X: model.Idx{X: model.Var{Name: ov}, I: lit(back)}}}
		switch kind {
		case kPartialHeld:
			pn := b.next("part")
			b.partials[pn] = body
			out = append(out, model.EmitPartial{Name: pn, Var: ov}, T("~again:"), model.EmitPartial{Name: pn, Var: ov})
		case kPartialLoop:
			pn := b.next("part")
			b.partials[pn] = body
			out = append(out, model.EmitFor{For: &model.For{Val: b.next("lv"), Iter: model.Arr{Els: []model.Expr{lit(1), lit(2)}}, Body: []model.Node{model.EmitPartial{Name: pn, Var: ov}, T(";")}}})
		default:
			cn := b.next("cf")
			out = append(out, model.ContentFor{Name: cn, Body: body}, model.EmitContentOf{Name: cn, Var: ov}, T("~again:"), model.EmitContentOf{Name: cn, Var: ov})
		}
		return append(out, readBack...)
	case kContentDeflt:
		return []model.Node{model.EmitBlock{Helper: "cofb", Data: data, Body: body}, T("~again:"), model.EmitBlock{Helper: "cofb", Body: body}}
	}
	panic("unknown kind")
}

// prelet makes a body fit for a loop of several iterations: every name the body lets at its own level is let at
// its start, so that no iteration reads what an earlier iteration bound (which the statements leave open).
func prelet(body []model.Node) []model.Node {
	var pre []model.Node
	seen := map[string]bool{}
	for _, n := range body {
		if c, ok := n.(model.Code); ok {
			if l, ok := c.S.(model.LetS); ok && !seen[l.Name] {
				if _, isFn := l.X.(model.FnLit); !isFn {
					seen[l.Name] = true
					pre = append(pre, let(l.Name, "pre-"+l.Name))
				}
			}
		}
	}
	return append(pre, body...)
}

// twice wraps nodes in a loop of two iterations that binds nothing of its own
// except a unique loop variable: whatever construct is inside is ENTERED TWICE
// under the same enclosing scope, and must start from scratch the second time.
func (b *builder) twice(ns []model.Node) []model.Node {
	return []model.Node{T("{2x:"), model.EmitFor{For: &model.For{Val: b.next("rep"), Iter: model.Var{Name: "two"}, Body: ns}}, T("}")}
}

// hfDef is the function of spOuterFn. Its body lets x and k BEFORE it reads them and reads nothing else but its
// parameter, so it means the same whether free names of a function resolve where it was defined or where it is called.
func hfDef() model.Node {
	return letx("hf", model.FnLit{Params: []string{"hp"}, Body: append([]model.Node{T("(hf:"), let("x", "hfx"), let("k", "hfk")},
		append(probes("x", "k", "hp"), T(")"))...)})
}

func hfCall(arg string) model.Node {
	return model.Emit{X: model.Call{Fn: "hf", Args: []model.Expr{lit(arg)}}}
}

// nest builds a fixed pattern: at every level shadow x, add a fresh name,
// bind one pool name through the construct, and probe everything before,
// inside and after.
func (b *builder) nest(kinds []int, level int, binds []string) []model.Node {
	lv := fmt.Sprintf("L%d", level)
	var out []model.Node
	out = append(out, T(fmt.Sprintf("<%d:", level)))
	oaTop, oaMid := b.outerAssign(level)
	out = append(out, oaTop...)
	if b.replay && level == 0 {
		out = append(out, model.ContentFor{Name: "topblock", Body: []model.Node{T("(stored)")}})
	}
	if b.sp&spOuterFn != 0 && level == 0 {
		out = append(out, hfDef())
	}
	if !b.letsFirst {
		out = append(out, probes(allNames...)...)
	}
	if b.replay && level > 0 {
		// replaying a block stored in an OUTER scope must not disturb where this scope's later bindings go
		out = append(out, model.EmitContentOf{Name: "topblock", Data: []model.KV{}})
	}
	out = append(out, oaMid...)
	// shadows / rebinds x at this level
	if b.sp&spChain != 0 && level > 0 && !b.letsFirst {
		out = append(out, chain("x", "~"+lv))
	} else {
		out = append(out, let("x", "x"+lv))
	}
	if b.sp&spAssign != 0 {
		out = append(out, model.Code{S: model.AssignS{Name: "x", X: lit("x" + lv + "!")}})
	}
	if level%2 == 1 {
		out = append(out, let("y", "y"+lv))
	}
	if b.letsFirst {
		out = append(out, probes(allNames...)...)
	} else {
		out = append(out, probe("x"), probe("y"))
	}
	if b.sp&spOuterFn != 0 {
		out = append(out, hfCall("a"+lv), probe("x"), probe("k"), probe("hp"))
	}
	if b.sp&spIfLet != 0 && level > 0 {
		q := fmt.Sprintf("q%d", level)
		out = append(out, model.EmitIf{If: &model.If{Cond: model.Var{Name: "g"}, Then: []model.Node{let(q, q+"in"), probe(q)}}})
	}
	if len(kinds) > 0 {
		inner := b.nest(kinds[1:], level+1, binds[1:])
		cons := b.construct(kinds[0], binds[0], binds[0]+"@"+lv, inner)
		if b.repeat[level] {
			cons = b.twice(cons)
		}
		out = append(out, cons...)
		out = append(out, T("|after:"))
		for _, n := range allNames {
			open := false
			for _, sk := range b.skipAfter[level] {
				open = open || sk == n
			}
			if !open {
				out = append(out, probe(n))
			}
		}
		if b.sp&spIfLet != 0 {
			out = append(out, probe(fmt.Sprintf("q%d", level+1)))
		}
		if b.sp&spOuterFn != 0 {
			out = append(out, hfCall("z"+lv), probe("x"), probe("k"))
		}
	}
	out = append(out, T(">"))
	return out
}

func kindLabel(kinds []int, repeat map[int]bool) string {
	var kn []string
	for l, k := range kinds {
		n := kindNames[k]
		if repeat[l] {
			n += "x2"
		}
		kn = append(kn, n)
	}
	return strings.Join(kn, ">")
}

// nestCase builds and runs one cell of the exhaustive matrices.
func nestCase(r *vk.Run, kinds []int, pat []string, mask int, replay bool, sp spice, class string, again bool) *vk.Fail {
	build := func(asLet bool) (*builder, []model.Node) {
		b := &builder{partials: map[string][]model.Node{}, repeat: map[int]bool{}, replay: replay, sp: sp,
			kinds: kinds, binds: pat[:len(kinds)], asLet: asLet, skipAfter: map[int][]string{}}
		for l, k := range kinds {
			b.repeat[l] = mask&(1<<l) != 0
			if k == kForTwo {
				b.letsFirst = true
			}
			if pat[l] == "x" && (k == kForKey || k == kForIterKey) {
				b.sp &^= spChain // x is then a number inside
			}
		}
		return b, b.nest(kinds, 0, pat[:len(kinds)])
	}
	b, prog := build(false)
	o := opts{bare: b.sp&spBare != 0, again: again}
	if sp&spOuterAssign != 0 {
		if b.nOuter == 0 {
			// no level of this nesting is a scope of its own above which a name is bound (loops only): nothing to ask
			r.Exclude("outer assignment: no scope of its own in this nesting")
			return nil
		}
		ab, alt := build(true)
		o.alt, o.altParts, o.strict, o.why = alt, ab.partials, true, outerWhy
	}
	return run(r, prog, b.partials, class+"/"+kindLabel(kinds, b.repeat), o)
}

const outerWhy = "the same program with every bare assignment to a name bound outside the function / partial / stored block / helper block written as let"

// ---- failing function as a condition ----------------------------------------------------------

var forms = []string{"f()", "!f()", "f() == nil", "f() != nil"}

// forgiven builds the program and its written-out twin: a function (parameter bind, if any) whose body lets x and y,
// and then reads an unknown identifier - directly or inside construct `wrap` - is called as the condition `form`;
// host says where the if stands (0 top level, 1 in a for body, 2 in a function body, 3 in a loop of two iterations).
func forgiven(form, wrap, host int, bind string) (prog, alt []model.Node, partials map[string][]model.Node) {
	build := func(written bool) ([]model.Node, map[string][]model.Node) {
		b := &builder{partials: map[string][]model.Node{}}
		failing := []model.Node{let("v", "deep"), T("(before)"), model.Emit{X: model.Var{Name: "unk"}}, T("(after)"), let("k", "late")}
		if wrap >= 0 {
			failing = b.construct(wrap, "p", "P-in", failing)
		}
		body := append([]model.Node{let("x", "x-in"), let("y", "y-in")}, probes(allNames...)...)
		body = append(body, failing...)
		body = append(body, let("y", "y-late"))
		var params []string
		var args []model.Expr
		if bind != "" {
			params, args = []string{bind}, []model.Expr{lit(bind + "-arg")}
		}
		var call model.Expr = model.Call{Fn: "ff", Args: args}
		var cond model.Expr
		switch form {
		case 0:
			cond = call
		case 1:
			cond = model.Not{X: call}
		case 2:
			cond = model.Bin{Op: "==", L: call, R: lit(nil)}
		default:
			cond = model.Bin{Op: "!=", L: call, R: lit(nil)}
		}
		if written {
			cond = lit(form == 1 || form == 2) // the failed call counts as nil
		}
		test := []model.Node{model.EmitIf{If: &model.If{Cond: cond, Then: []model.Node{T("[then]")}, HasElse: true, Else: []model.Node{T("[else]")}}}}
		test = append(test, T("|after:"))
		test = append(test, probes(allNames...)...)
		var hosted []model.Node
		switch host {
		case 0:
			hosted = test
		case 1:
			hosted = b.construct(kFor, "v", "v-host", append(append([]model.Node{let("y", "y-host")}, test...), let("p", "p-host")))
		case 2:
			hosted = b.construct(kFn, "v", "v-host", append(append([]model.Node{let("y", "y-host")}, test...), let("p", "p-host")))
		default:
			hosted = b.twice(test)
		}
		out := []model.Node{let("x", "X0"), letx("ff", model.FnLit{Params: params, Body: body})}
		out = append(out, hosted...)
		out = append(out, T("|end:"))
		out = append(out, probes(allNames...)...)
		return out, b.partials
	}
	prog, partials = build(false)
	alt, _ = build(true)
	return
}

// ---- silent constructs with bodies the statements leave open -------------------------------------

func code(s model.Stmt) model.Node { return model.Code{S: s} }

func vr(n string) model.Expr { return model.Var{Name: n} }

func forIn(key, val string, it model.Expr, body ...model.Node) model.Node {
	return model.EmitFor{For: &model.For{Key: key, Val: val, Iter: it, Body: body}}
}

func silentIf(cond model.Expr, then ...model.Node) model.Node {
	return code(model.IfS{If: &model.If{Cond: cond, Then: then}})
}

type wildBody struct {
	name   string
	fnOnly bool // has a return statement: only as a function body
	body   func(b *builder) []model.Node
}

// what these bodies print or return is not fixed by the statements (return inside a loop, names an earlier iteration
// bound, text in a silent if that ends in continue); that nothing they bind outlives them is
var wild = []wildBody{
	{"return inside a loop", true, func(b *builder) []model.Node {
		return []model.Node{let("x", "w-x"), forIn("", "v", vr("two"), let("y", "w-y"), code(model.ReturnS{X: vr("v")}), let("k", "dead")), let("p", "w-late")}
	}},
	{"reads what the last iteration bound", false, func(b *builder) []model.Node {
		return []model.Node{forIn("", "v", vr("two"), probe("x"), probe("y"), let("x", "w-x"), let("y", "w-y"), probe("x"))}
	}},
	{"continue and break inside ifs", false, func(b *builder) []model.Node {
		return []model.Node{forIn("k", "v", vr("two"), let("x", "w-x"),
			silentIf(model.Bin{Op: "==", L: vr("k"), R: lit(0)}, let("p", "w-p"), T("text"), code(model.ContinueS{})),
			let("y", "w-y"), code(model.BreakS{}), let("v", "dead")), let("k", "w-k")}
	}},
	{"break first", false, func(b *builder) []model.Node {
		return []model.Node{let("v", "w-v"), forIn("", "p", vr("two"), let("x", "w-x"), code(model.BreakS{}), let("y", "dead")), let("k", "w-k")}
	}},
	{"return from a nested if", true, func(b *builder) []model.Node {
		return []model.Node{let("x", "w-x"), silentIf(vr("g"), let("y", "w-y"), silentIf(vr("g"), code(model.ReturnS{X: lit("r")}))), let("k", "dead")}
	}},
	{"loop in a loop, the inner one returns", true, func(b *builder) []model.Node {
		return []model.Node{forIn("", "v", vr("two"), let("x", "w-x"),
			forIn("", "p", vr("two"), let("y", "w-y"), code(model.ReturnS{X: vr("p")})), let("k", "w-k"))}
	}},
	{"calls a function that returns from a loop", false, func(b *builder) []model.Node {
		wf := b.next("wf")
		return []model.Node{letx(wf, model.FnLit{Params: []string{"v"}, Body: []model.Node{
			forIn("", "k", vr("two"), let("x", "wf-x"), code(model.ReturnS{X: vr("k")}))}}),
			letx("y", model.Call{Fn: wf, Args: []model.Expr{lit("a")}}), let("x", "w-x"), model.Emit{X: model.Call{Fn: wf, Args: []model.Expr{lit("b")}}}}
	}},
	{"shadowing let reading what the last iteration bound", false, func(b *builder) []model.Node {
		return []model.Node{forIn("", "v", vr("two"), chain("x", "'"), probe("x"), let("p", "w-p"))}
	}},
	{"stored block defined and used in every iteration", false, func(b *builder) []model.Node {
		return []model.Node{forIn("", "v", vr("two"), append(b.construct(kContent, "k", "w-k", []model.Node{let("x", "w-x"), probe("x"), probe("y")}), let("y", "w-y"))...)}
	}},
	{"loops that never run", false, func(b *builder) []model.Node {
		return []model.Node{forIn("", "x", model.Arr{}, let("y", "dead")), forIn("p", "y", lit(nil), let("x", "dead")), let("v", "w-v")}
	}},
}

var silentForms = []string{"<% let r = f(..) %>", "<% f(..) %>", "<% for (..) in [one] { %>..<% } %>", "<% for (..) in [a, b] { %>..<% } %>"}

// erasure builds a program with one silent construct (form) around wild body w, binding bind, at host (0 top level,
// 1 in a for body, 2 in a function body, 3 in a loop of two iterations) - and the same program without it.
func erasure(w, form, host int, bind string) (prog, alt []model.Node, partials map[string][]model.Node) {
	build := func(erased bool) ([]model.Node, map[string][]model.Node) {
		b := &builder{partials: map[string][]model.Node{}}
		var silent []model.Node
		if !erased {
			body := wild[w].body(b)
			switch form {
			case 0, 1:
				name := b.next("fun")
				var params []string
				var args []model.Expr
				if bind != "" {
					params, args = []string{bind}, []model.Expr{lit(bind + "-arg")}
				}
				call := model.Call{Fn: name, Args: args}
				silent = []model.Node{letx(name, model.FnLit{Params: params, Body: body})}
				if form == 0 {
					silent = append(silent, letx("r", call))
				} else {
					silent = append(silent, code(model.ExprS{X: call}))
				}
			default:
				lv := bind
				if lv == "" {
					lv = b.next("lv")
				}
				var it model.Expr = model.Arr{Els: []model.Expr{lit(bind + "-el")}}
				if form == 3 {
					it = model.Arr{Els: []model.Expr{lit(bind + "-a"), lit(bind + "-b")}}
				}
				silent = []model.Node{code(model.ForS{For: &model.For{Val: lv, Iter: it, Body: body}})}
			}
		}
		test := append(probes(allNames...), silent...)
		test = append(test, T("|after:"))
		test = append(test, probes(allNames...)...)
		var hosted []model.Node
		switch host {
		case 0:
			hosted = test
		case 1:
			hosted = b.construct(kFor, "v", "v-host", append(append([]model.Node{let("y", "y-host")}, test...), let("p", "p-host")))
		case 2:
			hosted = b.construct(kFn, "v", "v-host", append(append([]model.Node{let("y", "y-host")}, test...), let("p", "p-host")))
		default:
			hosted = b.twice(test)
		}
		out := append([]model.Node{let("x", "X0"), let("k", "K0")}, hosted...)
		out = append(out, T("|end:"))
		out = append(out, probes(allNames...)...)
		return out, b.partials
	}
	prog, partials = build(false)
	alt, _ = build(true)
	return
}

// ---- random generator ---------------------------------------------------------------------

type rgen struct {
	t       *rapid.T
	b       *builder
	n       int
	replay  bool
	outerFn bool
	qnames  []string // names let inside an if block inside some construct: read at the very end
	// pair: also draw bare assignments to names bound further out (directly in the body of a construct with a scope
	// of its own); the reference program, built alongside with builder ab, spells them as let
	pair   bool
	ab     *builder
	nOuter int
}

func sorted(m map[string]bool) []string {
	var out []string
	for k, v := range m {
		if v {
			out = append(out, k)
		}
	}
	sort.Strings(out)
	return out
}

// nodes draws a block. vis: pool names known to hold a string here; top: the block is the template itself.
func (g *rgen) nodes(depth int, vis map[string]bool, top bool) []model.Node {
	out, _ := g.nodes2(depth, vis, top, false, map[string]bool{"g": true, "len": true})
	return out
}

// nodes2 also gives the reference block (see pair). own: the block is directly the body of a construct with a
// scope of its own; sure: names that are certainly bound when the block runs (context data, names let-bound
// earlier in an enclosing block).
func (g *rgen) nodes2(depth int, vis map[string]bool, top, own bool, sure map[string]bool) (out, alt []model.Node) {
	t := g.t
	local := map[string]bool{}
	hi := 15
	if g.pair {
		hi = 23
	}
	cnt := rapid.IntRange(1, 5).Draw(t, "cnt")
	for i := 0; i < cnt; i++ {
		alt = append(alt, out[len(alt):]...) // what the cases below add to out alone is the same on both sides
		switch k := rapid.IntRange(0, hi).Draw(t, "k"); {
		case k >= 16 && own: // bare assignment to a name bound further out
			var cand []string
			for _, n := range sorted(sure) {
				if !local[n] {
					cand = append(cand, n)
				}
			}
			if len(cand) > 0 {
				g.n++
				g.nOuter++
				n := rapid.SampledFrom(cand).Draw(t, "on")
				v := lit(fmt.Sprintf("OA%d", g.n))
				out = append(out, model.Code{S: model.AssignS{Name: n, X: v}}, probe(n))
				alt = append(alt, letx(n, v), probe(n))
				local[n] = true
				if n != "g" && n != "len" {
					vis[n] = true
				}
			}
		case k <= 2:
			out = append(out, probe(rapid.SampledFrom(allNames).Draw(t, "pn")))
		case k <= 5:
			g.n++
			n := rapid.SampledFrom(names).Draw(t, "ln")
			out = append(out, let(n, fmt.Sprintf("V%d", g.n)))
			vis[n], local[n] = true, true
		case k == 6:
			if g.replay {
				out = append(out, model.EmitContentOf{Name: "topblock", Data: []model.KV{}})
			} else {
				out = append(out, T("."))
			}
		case k == 7: // a shadowing let that reads what it shadows
			if vs := sorted(vis); len(vs) > 0 {
				g.n++
				n := rapid.SampledFrom(vs).Draw(t, "cn")
				out = append(out, chain(n, fmt.Sprintf("~%d", g.n)))
				local[n] = true
			}
		case k == 8: // bare assignment to a name let-bound in this very block
			if ls := sorted(local); len(ls) > 0 {
				g.n++
				n := rapid.SampledFrom(ls).Draw(t, "an")
				out = append(out, model.Code{S: model.AssignS{Name: n, X: lit(fmt.Sprintf("A%d", g.n))}})
			}
		case k == 9: // a let inside an if block; the name is unique and is read again only at the very end
			g.n++
			q := fmt.Sprintf("q%d", g.n)
			out = append(out, model.EmitIf{If: &model.If{Cond: model.Var{Name: "g"}, Then: []model.Node{let(q, "Q"), probe(q)}}})
			if !top {
				g.qnames = append(g.qnames, q)
			}
		case k == 10:
			if g.outerFn {
				g.n++
				out = append(out, hfCall(fmt.Sprintf("h%d", g.n)))
			}
		default:
			if depth > 0 {
				g.n++
				bind := rapid.SampledFrom(append([]string{""}, names...)).Draw(t, "bind")
				kind := 0
				if k >= 16 { // pair: no scope of its own here to assign in, so open one
					kind = rapid.SampledFrom(ownKinds).Draw(t, "okind")
				} else {
					kind = rapid.IntRange(0, nKinds-1).Draw(t, "kind")
				}
				inner := map[string]bool{}
				for n, v := range vis {
					inner[n] = v
				}
				if bind != "" {
					inner[bind] = kind != kForKey && kind != kForIterKey
				}
				isure := map[string]bool{}
				for n := range sure {
					isure[n] = true
				}
				for n := range local {
					isure[n] = true
				}
				body, abody := g.nodes2(depth-1, inner, false, ownScope(kind), isure)
				if kind == kForTwo {
					body, abody = prelet(body), prelet(abody)
				}
				out = append(out, T("("))
				alt = append(alt, T("("))
				val := fmt.Sprintf("B%d", g.n)
				cons := g.b.construct(kind, bind, val, body)
				var acons []model.Node
				if g.ab != nil {
					acons = g.ab.construct(kind, bind, val, abody)
				}
				if rapid.IntRange(0, 2).Draw(t, "twice") == 0 {
					cons = g.b.twice(cons)
					if g.ab != nil {
						acons = g.ab.twice(acons)
					}
				}
				out = append(out, cons...)
				out = append(out, T(")"))
				alt = append(alt, acons...)
				alt = append(alt, T(")"))
			}
		}
	}
	alt = append(alt, out[len(alt):]...)
	// always end a block by probing every name
	out = append(out, probes(allNames...)...)
	alt = append(alt, probes(allNames...)...)
	return out, alt
}

const rule = "scope constructs {partial and contentFor / contentOf whose data hash is HELD in a variable, used by two calls and read back afterwards, one held hash handed to a partial on two loop passes; for, user function defined and called on the spot, partial with data, contentFor + contentOf with data in one scope (the stored block, and likewise the partial, is used a second time WITHOUT data: nothing the first use was given or let-bound may be visible), block helper rendering its block with BlockWith on a fresh child context} and 18 further kinds of them {for binding the name as its KEY variable; for over a hash literal binding the name as key / as value; for over an Iterator, name as value / as key; for over [] and over nil (no iteration); for of TWO iterations binding the name; for in a silent tag; function ending in return; function returning from inside an if with dead lets after it; function of two parameters; function defined once and CALLED TWICE with other arguments; function that calls itself two deep and probes every name again after the inner call; partial whose data value reads a variable of the caller; contentOf for a name nothing stores, rendering its own default block with the data, and again without; partial with data and a layout that lets x, v, k and prints only the partial; for over the result of a function that lets x and v before it returns the collection}; names {x, y, v, p, k} bound by let (fresh and shadowing), and through the construct itself (loop variable / key variable / parameter / data key equal to a name that is let-bound outside); g and len come from the data only (len is also the name of a default helper and must stay the data's value in every scope); probes <%= if (n) { %>[n=<%= n %>]<% } else { %>[n=-]<% } %> for every name before, inside and after each construct. Spices on the fixed pattern: a function defined once at top level and called at every level (it lets x and k before reading them, so definition-site and call-site resolution agree); bare assignment to a name let-bound in the same scope; shadowing lets that read what they shadow (let x = x + \"~L1\"); a let inside an if block inside the scope, read after the scope ended; partial(\"n\") / contentOf(\"n\") spelled without data. (E1) every nesting of 1, 2 and 3 of the five basic constructs (5 + 25 + 125) x 4 binding patterns x every subset of levels whose construct is ENTERED TWICE (wrapped in a two-iteration loop that binds nothing else), with a fixed let/probe pattern at every level; in half of them a block of literal text stored at top level is replayed with contentOf inside every deeper scope before that scope's lets; (E2) each of the 18 further kinds alone, inside and around each basic construct, x 4 binding patterns x every subset of levels entered twice; (E3) each spice alone and all together x every nesting of 1 and 2 of all 23 kinds x 4 binding patterns; (E4) BARE ASSIGNMENT TO NAMES BOUND FURTHER OUT: inside the body of every construct for which the statement says 'names set inside' (partial in its 6 kinds, contentFor / contentOf in its 3 kinds; NOT user functions, for which it names parameters and let-bound names only, and not block helpers, which it does not name) the fixed pattern first probes, then writes `n = v` without let to x (let-bound one level up, or bound there as parameter / data key / loop variable), y (let-bound two levels up), g and len (bound by the context data only) - whichever the construct just entered does not bind itself; g from its own outer value (g = g + ..), len inside an if block (not a scope) - and probes them again, inside and after the construct, also when it is entered twice; and, when a loop of any of the 11 kinds stands inside such a construct S (only single-pass loops in between, S not the recursive function), its body assigns g and len as the first thing of every pass (S then leaves them alone, so that they are bound two or three frames up and in no frame from S inwards): the new value is read in the pass, the old one after S; what S itself sees between the end of the loop and its own end is not probed (the write may be the loop's or S's: not said). Loops directly under the binding frame and nestings of loops only are left out (not said either). Every nesting of 1 and 2 of the 26 kinds that holds such a construct x 4 binding patterns, a sample of depth 3, a third also with the bare / if-let / chain-let shapes. Oracle: the statement makes what is set inside these constructs their own (\"parameters and let-bound names inside a user-defined function, and names set inside a partial or a contentOf/contentFor block with its own data ... leave same-named outer variables unchanged\"; child lookups fall through, writes stay local), so the program must render exactly what the SAME PROGRAM WITH EACH OF THESE ASSIGNMENTS WRITTEN AS let renders under the reference interpreter (kind \"assign\"; no failure tolerated); (RA) the random sequences of (R) with such assignments drawn directly in the bodies of own-scope constructs, to names that are certainly bound there (context data, names let-bound earlier in an enclosing block), same oracle; (F) a function that lets x and y and then fails on an unknown identifier - directly or inside any of the 21 constructs that run their body - called as the condition f() / !f() / f() == nil / f() != nil, at top level, in a for body, in a function body and in a loop of two iterations: the statements do not say whether that failure is tolerated, so the render may fail, and IF it succeeds its output must be that of the program with the condition written out as the literal a nil call gives; (R) random let/probe/construct sequences nested to depth 3 over all 23 kinds with the spices as further statements; (S) ten bodies whose own meaning the statements leave open (return inside a loop, in a nested loop, from a nested if; reading or shadowing what the last iteration bound; continue and break inside silent ifs, also after text; a function that returns from a loop, called twice; a block stored and used in every iteration; loops that never run) inside a SILENT construct - <% let r = f(..) %>, <% f(..) %>, a silent for of one and of two iterations - at top level, in a for body, in a function body and in a loop of two iterations: the render may fail, and IF it succeeds its output must be that of the program without the silent construct. In every phase a quarter of the cases parse their template once and execute it twice on fresh contexts; both executions must agree. Oracle: environment-chain reference interpreter (each construct is a child scope; lets and bound names vanish when it ends; outer names stay readable and unchanged; top-level let persists). Non-trivial: every case nests at least one construct (distinct by template + partial texts)."

func decodeCase(raw json.RawMessage) (c Case, prog []model.Node, parts map[string][]model.Node, alt []model.Node, f *vk.Fail) {
	if f = vk.Decode(raw, &c); f != nil {
		return
	}
	bad := func(err error) *vk.Fail { return &vk.Fail{Kind: "decode", Msg: err.Error()} }
	prog, err := model.Decode(c.Prog)
	if err != nil {
		f = bad(err)
		return
	}
	parts = map[string][]model.Node{}
	for n, raw := range c.Partials {
		body, err := model.Decode(raw)
		if err != nil {
			f = bad(err)
			return
		}
		parts[n] = body
	}
	if c.Alt != nil {
		if alt, err = model.Decode(c.Alt); err != nil {
			f = bad(err)
		}
	}
	return
}

func setup(t *testing.T) *vk.Run {
	r := vk.Start(t, "C09", rule,
		"loops that bind names run a single iteration, except the two-iteration kind, whose bodies let every name before reading it; constructs are re-entered through a two-iteration wrapper loop that lets nothing itself; reading a name let-bound in an earlier iteration of the same loop is Unspecified in the model",
		"functions are defined immediately before their call, so lexical and dynamic resolution of free names agree; the one function defined at top level and called from inner scopes reads only what it has bound itself; contentFor and contentOf are used in the same scope",
		"if blocks and plain Block() helpers are not scopes and are not used as such: a name let inside an if block is read inside that block and after the enclosing construct has ended, never in between; bare assignment is used on names let-bound in the same scope, and on names bound further out only inside constructs with a scope of their own (function, partial, stored block, block helper on a child context) or in a loop under one, where the reference is the same program with let; a bare assignment in a loop body directly under the frame that binds the name is never generated (nothing says whose the write is)",
		"a failing function called as a condition: both a failed render and a render that goes on as if the call gave nil are accepted")
	r.Replayer("scope", func(raw json.RawMessage) *vk.Fail {
		c, prog, parts, _, f := decodeCase(raw)
		if f != nil {
			return f
		}
		return run(r, prog, parts, "replay", opts{bare: c.Bare, again: c.Again})
	})
	r.Replayer("alt", func(raw json.RawMessage) *vk.Fail {
		c, prog, parts, alt, f := decodeCase(raw)
		if f != nil {
			return f
		}
		if alt == nil {
			return &vk.Fail{Kind: "decode", Msg: "an alt case without alt"}
		}
		return run(r, prog, parts, "replay", opts{bare: c.Bare, again: c.Again, alt: alt, why: "alternative program"})
	})
	r.Replayer("assign", func(raw json.RawMessage) *vk.Fail {
		c, prog, parts, alt, f := decodeCase(raw)
		if f != nil {
			return f
		}
		if alt == nil {
			return &vk.Fail{Kind: "decode", Msg: "an assign case without alt"}
		}
		aparts := map[string][]model.Node{}
		for n, raw := range c.AltPartials {
			body, err := model.Decode(raw)
			if err != nil {
				return &vk.Fail{Kind: "decode", Msg: err.Error()}
			}
			aparts[n] = body
		}
		return run(r, prog, parts, "replay", opts{bare: c.Bare, again: c.Again, alt: alt, altParts: aparts, strict: true, why: outerWhy})
	})
	return r
}

func TestReplay(t *testing.T) { setup(t).ReplayEnv() }

var patterns = [][]string{{"v", "p", "k"}, {"x", "x", "x"}, {"", "y", ""}, {"k", "k", "v"}}

func TestProp(t *testing.T) {
	r := setup(t)
	defer r.Finish()
	r.ReplayCommitted()

	// every exhaustive phase collects its cells and runs them on all cores
	var cells []func() *vk.Fail
	flush := func(name string, exhaustive bool) {
		cs := cells
		r.Parallel(int64(len(cs)), 0, func(i int64) { r.Check(cs[i]()) })
		r.Subspace(name, int64(len(cs)), exhaustive)
		cells = nil
	}
	// every fourth cell parses its template once and executes it twice
	again := func() bool { return len(cells)%4 == 3 }
	nestCell := func(kinds []int, pat []string, mask int, replay bool, sp spice, class string) {
		kinds, ag := append([]int{}, kinds...), again()
		cells = append(cells, func() *vk.Fail { return nestCase(r, kinds, pat, mask, replay, sp, class, ag) })
	}

	// E1
	for depth := 1; depth <= 3; depth++ {
		total := 1
		for i := 0; i < depth; i++ {
			total *= 5
		}
		for code := 0; code < total; code++ {
			kinds := make([]int, depth)
			c := code
			for i := range kinds {
				kinds[i] = c % 5
				c /= 5
			}
			for _, pat := range patterns {
				if r.Quick() && depth == 3 && (code+len(pat[0]))%2 == 1 {
					continue
				}
				for mask := 0; mask < 1<<depth; mask++ {
					if r.Quick() && depth == 3 && mask != 0 && mask != 2 && mask != 7 {
						continue
					}
					nestCell(kinds, pat, mask, (code+mask)%2 == 1, 0, "nest")
				}
			}
		}
	}
	flush("every nesting of 1..3 basic scope constructs (5+25+125) x 4 binding patterns x every subset of levels entered twice (quick: half of depth 3, 3 of 8 subsets there)", !r.Quick())

	// E2: the further kinds alone, inside and around every basic construct
	for k2 := kForKey; k2 < nKinds; k2++ {
		nestings := [][]int{{k2}}
		for k := 0; k < 5; k++ {
			nestings = append(nestings, []int{k, k2}, []int{k2, k})
		}
		for ni, kinds := range nestings {
			for pi, pat := range patterns {
				for mask := 0; mask < 1<<len(kinds); mask++ {
					nestCell(kinds, pat, mask, (ni+pi+mask)%2 == 1, 0, "variant")
				}
			}
		}
	}
	flush("each of the 18 further kinds alone, inside and around each of the 5 basic constructs x 4 binding patterns x every subset of levels entered twice", true)

	// E3: the spices
	for _, sp := range []spice{spOuterFn, spAssign, spChain, spIfLet, spBare, spAll} {
		for a := 0; a < nKinds; a++ {
			for b := -1; b < nKinds; b++ {
				kinds := []int{a}
				if b >= 0 {
					kinds = append(kinds, b)
				}
				for pi, pat := range patterns {
					if r.Quick() && b >= 0 && (a+b+pi)%8 != 0 {
						continue
					}
					nestCell(kinds, pat, (a+pi)%2*(1<<(len(kinds)-1)), (a+b+pi)%3 == 0, sp, "spice:"+sp.String())
				}
			}
		}
	}
	flush("5 spices singly and all together x every nesting of 1 and 2 of the 23 kinds x 4 binding patterns (quick: an eighth of the depth-2 cells)", !r.Quick())

	// E4: bare assignments to names bound further out, inside scopes of their own
	for a := 0; a < nKinds; a++ {
		for b := -1; b < nKinds; b++ {
			for c := -1; c < 5; c++ {
				if c >= 0 && (b < 0 || (a >= 5 && b >= 5)) {
					continue // depth 3: a basic construct innermost, and at least one more basic construct
				}
				kinds := []int{a}
				if b >= 0 {
					kinds = append(kinds, b)
				}
				if c >= 0 {
					kinds = append(kinds, c)
				}
				own := false
				for _, k := range kinds {
					own = own || ownScope(k)
				}
				if !own {
					continue
				}
				for pi, pat := range patterns {
					if r.Quick() && len(kinds) == 2 && (a+b+pi)%2 != 0 {
						continue
					}
					if len(kinds) == 3 && (a+b+c+pi)%r.Pick(16, 2) != 0 {
						continue
					}
					for _, sp := range []spice{spOuterAssign, spOuterAssign | spBare | spIfLet | spChain} {
						if sp != spOuterAssign && (a+b+c+pi)%3 != 0 {
							continue
						}
						nestCell(kinds, pat, (a+pi)%2*(1<<(len(kinds)-1))+(b+pi+3)%3/2, (a+b+pi)%3 == 0, sp, "outer-assign:"+sp.String())
					}
				}
			}
		}
	}
	flush("bare assignment to names bound further out (let, construct, data) inside every scope of its own, and in loops under one: every nesting of 1 and 2 of the 26 kinds that holds a scope of its own x 4 binding patterns (quick: half of depth 2), a sample of depth 3; a third also with the bare / if-let / chain-let shapes", false)

	// F: a failing function as a condition
	for form := range forms {
		for wrap := -1; wrap < nKinds; wrap++ {
			if wrap == kForEmpty || wrap == kForNil {
				continue // the failing read would never run
			}
			for host := 0; host < 4; host++ {
				for _, bind := range []string{"", "x", "p"} {
					form, wrap, host, bind, ag := form, wrap, host, bind, again()
					cells = append(cells, func() *vk.Fail {
						prog, alt, parts := forgiven(form, wrap, host, bind)
						w := "direct"
						if wrap >= 0 {
							w = "in " + kindNames[wrap]
						}
						return run(r, prog, parts, "forgiven/"+forms[form]+"/"+w, opts{alt: alt, again: ag, why: "program with the condition written out as the literal a nil call gives"})
					})
				}
			}
		}
	}
	flush("failing function as a condition: 4 forms x failing read direct or inside each of the 21 kinds that run their body x 4 hosts x 3 parameter names", true)

	// S: silent constructs around bodies the statements leave open
	for w := range wild {
		for form := range silentForms {
			if wild[w].fnOnly && form >= 2 {
				continue
			}
			for host := 0; host < 4; host++ {
				for _, bind := range []string{"", "x", "p"} {
					w, form, host, bind, ag := w, form, host, bind, again()
					cells = append(cells, func() *vk.Fail {
						prog, alt, parts := erasure(w, form, host, bind)
						return run(r, prog, parts, "silent/"+silentForms[form]+"/"+wild[w].name, opts{alt: alt, again: ag, why: "program without the silent construct"})
					})
				}
			}
		}
	}
	flush("silent constructs: 10 bodies the statements leave open x 4 silent forms (functions only for bodies that return) x 4 hosts x 3 bound names", true)

	r.Rapid("random", r.Pick(3000, 40000), func(t *rapid.T) *vk.Fail {
		g := &rgen{t: t, b: &builder{partials: map[string][]model.Node{}}}
		g.replay = rapid.Bool().Draw(t, "replay")
		g.outerFn = rapid.Bool().Draw(t, "outerFn")
		bare := rapid.IntRange(0, 3).Draw(t, "bare") == 0
		ag := rapid.IntRange(0, 3).Draw(t, "again") == 0
		prog := g.nodes(3, map[string]bool{"g": false}, true)
		for _, q := range g.qnames {
			prog = append(prog, probe(q))
		}
		if g.outerFn {
			prog = append([]model.Node{hfDef()}, prog...)
		}
		if g.replay {
			prog = append([]model.Node{model.ContentFor{Name: "topblock", Body: []model.Node{T("(stored)")}}}, prog...)
		}
		return run(r, prog, g.b.partials, "random", opts{bare: bare, again: ag})
	})

	// RA: the random sequences with bare assignments to names bound further out; reference: the let spelling
	r.Rapid("random-outer-assign", r.Pick(600, 8000), func(t *rapid.T) *vk.Fail {
		g := &rgen{t: t, b: &builder{partials: map[string][]model.Node{}}, ab: &builder{partials: map[string][]model.Node{}}, pair: true}
		g.replay = rapid.Bool().Draw(t, "replay")
		g.outerFn = rapid.Bool().Draw(t, "outerFn")
		bare := rapid.IntRange(0, 3).Draw(t, "bare") == 0
		ag := rapid.IntRange(0, 3).Draw(t, "again") == 0
		prog, alt := g.nodes2(3, map[string]bool{"g": false}, true, false, map[string]bool{"g": true, "len": true})
		if g.nOuter == 0 {
			r.Exclude("outer assignment: none drawn")
			return nil
		}
		for _, q := range g.qnames {
			prog, alt = append(prog, probe(q)), append(alt, probe(q))
		}
		if g.outerFn {
			prog, alt = append([]model.Node{hfDef()}, prog...), append([]model.Node{hfDef()}, alt...)
		}
		if g.replay {
			cf := model.ContentFor{Name: "topblock", Body: []model.Node{T("(stored)")}}
			prog, alt = append([]model.Node{cf}, prog...), append([]model.Node{cf}, alt...)
		}
		return run(r, prog, g.b.partials, "random-outer-assign", opts{bare: bare, again: ag, alt: alt, altParts: g.ab.partials, strict: true, why: outerWhy})
	})
}
