// C01 — string data is always HTML-escaped on output; only trusted HTML is verbatim.
package c01

import (
	"encoding/json"
	"fmt"
	"html/template"
	"sort"
	"strings"
	"testing"

	"verif/internal/gen"
	"verif/internal/match"
	"verif/internal/model"
	"verif/internal/vk"

	plush "github.com/gobuffalo/plush/v5"
	"pgregory.net/rapid"
)

func TestMain(m *testing.M) { vk.Main(m) }

// A case: a payload, how it is typed, where it comes from (base), what it is
// passed through (wraps, innermost first) and where it is emitted (sink).
type Case struct {
	Payload vk.Text  `json:"payload"`
	Tag     string   `json:"tag"` // string | html | htmler | raw
	Base    string   `json:"base"`
	Wraps   []string `json:"wraps"`
	Sink    string   `json:"sink"`
}

type htmler struct{ s string }

func (h htmler) HTML() template.HTML { return template.HTML(h.s) }

type inner struct {
	F  string
	H  template.HTML
	Hr htmler
}
type outer struct {
	F  string
	H  template.HTML
	Hr htmler
	In inner
	P  *inner
}

func (o outer) GetIn() inner                      { return o.In }
func (o outer) Echo(s string) string              { return s }
func (o outer) EchoAny(x interface{}) interface{} { return x }

// Base is embedded in emb: its fields are reached as promoted fields.
type Base struct {
	F  string
	H  template.HTML
	Hr htmler
}
type emb struct {
	Base
	PS *string        // pointer fields: plush reads through them
	PH *template.HTML //
	I  interface{}    // holds the typed payload
	SS []string
	SI []interface{}
	MS map[string]string
}

// further ways of being "explicitly typed as trusted HTML"
type strHTMLer string // an HTMLer of string kind

func (s strHTMLer) HTML() template.HTML { return template.HTML(s) }

type phtmler struct{ s string } // HTMLer through a pointer receiver

func (h *phtmler) HTML() template.HTML { return template.HTML(h.s) }

type both struct{ s string } // an HTMLer that is also a fmt.Stringer: it still is an HTMLer

func (b both) HTML() template.HTML { return template.HTML(b.s) }
func (b both) String() string      { return "String() of an HTMLer must not be used: " + b.s }

// named is a string type that is neither a Go string nor trusted HTML: whether it prints at all is open, but
// if it does it may not print verbatim ("ONLY values explicitly typed as trusted HTML are emitted verbatim").
type named string

// boxed is a wrapper in the manner of nulls.String: it prints what Interface() returns.
type boxed struct{ v interface{} }

func (b boxed) Interface() interface{} { return b.v }

type iter struct {
	xs []interface{}
	i  int
}

func (it *iter) Next() interface{} {
	if it.i >= len(it.xs) {
		return nil
	}
	it.i++
	return it.xs[it.i-1]
}

type baseDef struct {
	expr  func(tag string) string
	tags  string // which tags the base can carry: s=string h=html r=htmler
	isLit bool
	// weak: the statement does not say whether such a value prints at all (a pointer to a string, a named string
	// type); asserted is only that it prints either nothing or exactly what a value of its tag must print.
	weak bool
}

// bases: expression that yields the payload with its type, given the data
// built by mkData. trusted says for which tags the base is available.
var bases = map[string]baseDef{
	"var":                {expr: func(t string) string { return "p" }, tags: "shr"},
	"literal":            {tags: "s", isLit: true},
	"backquoted literal": {tags: "s", isLit: true},
	"struct field":       {expr: func(t string) string { return "st." + fld(t) }, tags: "shr"},
	"pointer field":      {expr: func(t string) string { return "pst." + fld(t) }, tags: "shr"},
	"nested field":       {expr: func(t string) string { return "st.In." + fld(t) }, tags: "shr"},
	"pointer in field":   {expr: func(t string) string { return "st.P." + fld(t) }, tags: "shr"},
	"slice of struct":    {expr: func(t string) string { return "sts[1]." + fld(t) }, tags: "shr"},
	"map[string]string":  {expr: func(t string) string { return `ms["k"]` }, tags: "s"},
	"map[string]any":     {expr: func(t string) string { return `mi["k"]` }, tags: "shr"},
	"[]string elem":      {expr: func(t string) string { return "ss[1]" }, tags: "s"},
	"[]any elem":         {expr: func(t string) string { return "si[1]" }, tags: "shr"},
	"[2]string elem":     {expr: func(t string) string { return "as[1]" }, tags: "s"},
	"helper->string":     {expr: func(t string) string { return "hs()" }, tags: "s"},
	"helper->any":        {expr: func(t string) string { return "hi()" }, tags: "shr"},
	"helper->HTML":       {expr: func(t string) string { return "hh()" }, tags: "h"},
	"helper->HTMLer":     {expr: func(t string) string { return "hr()" }, tags: "r"},
	"method":             {expr: func(t string) string { return "st.In.Get" + fld(t) + "()" }, tags: "sh"},
	// promoted, pointer, interface and collection-typed FIELDS
	"promoted field":          {expr: func(t string) string { return "e." + fld(t) }, tags: "shr"},
	"embedded struct's field": {expr: func(t string) string { return "e.Base." + fld(t) }, tags: "shr"},
	"pointer-typed field":     {expr: func(t string) string { return map[string]string{"string": "e.PS", "raw": "e.PS", "html": "e.PH"}[t] }, tags: "sh", weak: true},
	"interface-typed field":   {expr: func(t string) string { return "e.I" }, tags: "shr"},
	"[]string field elem":     {expr: func(t string) string { return "e.SS[1]" }, tags: "s"},
	"[]any field elem":        {expr: func(t string) string { return "e.SI[1]" }, tags: "shr"},
	"map field elem":          {expr: func(t string) string { return `e.MS["k"]` }, tags: "s"},
	// collections whose ELEMENT TYPE is the trusted type, or a collection again
	"map[string]HTML":          {expr: func(t string) string { return `mh["k"]` }, tags: "h"},
	"[]HTML elem":              {expr: func(t string) string { return "hsl[1]" }, tags: "h"},
	"map[string]HTMLer":        {expr: func(t string) string { return `mhr["k"]` }, tags: "r"},
	"[]HTMLer elem":            {expr: func(t string) string { return "hrl[1]" }, tags: "r"},
	"[][]string elem":          {expr: func(t string) string { return "sss[1][1]" }, tags: "s"},
	"map[string][]string elem": {expr: func(t string) string { return `msl["k"][1]` }, tags: "s"},
	"map of struct":            {expr: func(t string) string { return `mst["k"].` + fld(t) }, tags: "shr"},
	// results of calls
	"helper->(string, error)": {expr: func(t string) string { return "hse()" }, tags: "s"},
	"helper->[]string elem":   {expr: func(t string) string { return "hss()[1]" }, tags: "s"},
	"helper->struct, field":   {expr: func(t string) string { return "hst()." + fld(t) }, tags: "shr"},
	"method->struct, field":   {expr: func(t string) string { return "st.GetIn()." + fld(t) }, tags: "shr"},
	"method->struct, method":  {expr: func(t string) string { return "st.GetIn().Get" + fld(t) + "()" }, tags: "sh"},
	// other spellings of "trusted HTML"
	"HTMLer of string kind": {expr: func(t string) string { return "sh" }, tags: "r"},
	"HTMLer by pointer":     {expr: func(t string) string { return "php" }, tags: "r"},
	"HTMLer and Stringer":   {expr: func(t string) string { return "both" }, tags: "r"},
	// values the statement does not oblige plush to print, but which may never print verbatim
	"*string var":              {expr: func(t string) string { return map[string]string{"string": "ptrs", "raw": "ptrs", "html": "ptrh"}[t] }, tags: "sh", weak: true},
	"[]*string elem":           {expr: func(t string) string { return "ips[1]" }, tags: "s", weak: true},
	"helper->*string":          {expr: func(t string) string { return "hps()" }, tags: "s", weak: true},
	"wrapper with Interface()": {expr: func(t string) string { return "bx" }, tags: "shr", weak: true},
	"named string type":        {expr: func(t string) string { return "nm" }, tags: "s", weak: true},
}

func (i inner) GetF() string        { return i.F }
func (i inner) GetH() template.HTML { return i.H }

func fld(tag string) string {
	switch tag {
	case "html":
		return "H"
	case "htmler":
		return "Hr"
	}
	return "F"
}

// wraps: expression -> expression, value and type preserved unless noted
type wrapDef struct {
	f        func(e string) string
	strOnly  bool   // only defined for plain strings (concatenation, typed parameters)
	pre, suf string // text added around the payload (escaped with it)
}

var wraps = map[string]wrapDef{
	"empty+E": {func(e string) string { return `"" + ` + e }, true, "", ""},
	"E+empty": {func(e string) string { return e + ` + ""` }, true, "", ""},
	"q+E+r":   {func(e string) string { return `"<q>" + ` + e + ` + "&r"` }, true, "<q>", "&r"},
	"E+1":     {func(e string) string { return e + ` + 1` }, true, "", "1"},
	// a string concatenated with a TRUSTED value is still a string (C06: string + x concatenates the printed form of x)
	"E+raw":               {func(e string) string { return e + ` + raw("<i>&")` }, true, "", "<i>&"},
	"E+htmlvar":           {func(e string) string { return e + ` + trusted` }, true, "", "<em>T</em>"},
	"lit+E+raw":           {func(e string) string { return `"a&" + ` + e + ` + raw("<u>")` }, true, "a&", "<u>"},
	"[E][0]":              {func(e string) string { return "[" + e + "][0]" }, false, "", ""},
	"[x,E][1]":            {func(e string) string { return `["x", ` + e + "][1]" }, false, "", ""},
	"[[E]][0][0]":         {func(e string) string { return "[[" + e + "]][0][0]" }, false, "", ""},
	`{k:E}["k"]`:          {func(e string) string { return "{k: " + e + `}["k"]` }, false, "", ""},
	`{k:{j:E}}["k"]["j"]`: {func(e string) string { return "{k: {j: " + e + `}}["k"]["j"]` }, false, "", ""},
	"id(E)":               {func(e string) string { return "id(" + e + ")" }, false, "", ""},
	"uf(E)":               {func(e string) string { return "uf(" + e + ")" }, false, "", ""},
	"ids(E)":              {func(e string) string { return "ids(" + e + ")" }, true, "", ""}, // Go helper string -> string
	"(E)":                 {func(e string) string { return "(" + e + ")" }, false, "", ""},
	"pick(E)":             {func(e string) string { return "pick(" + e + `, "other")` }, false, "", ""}, // user function with if/return
	"pair(E)[0]":          {func(e string) string { return "pair(" + e + ")[0]" }, false, "", ""},       // user function returning an array
	"opt({v:E})":          {func(e string) string { return "opt({v: " + e + "})" }, false, "", ""},      // through a helper's options map
	"varii(1,E)":          {func(e string) string { return "varii(1, " + e + ")" }, false, "", ""},      // variadic ...interface{}
	"vari(a,E)":           {func(e string) string { return `vari("a", ` + e + ")" }, true, "", ""},      // variadic ...string
	"st.Echo(E)":          {func(e string) string { return "st.Echo(" + e + ")" }, true, "", ""},        // method with a string parameter
	"st.EchoAny(E)":       {func(e string) string { return "st.EchoAny(" + e + ")" }, false, "", ""},
	// handled by the builder: statements before the sink
	"let":          {nil, false, "", ""},
	"assign":       {nil, false, "", ""}, // let v = "" ; v = E
	"index-assign": {nil, false, "", ""}, // let v = ["x", "y"] ; v[1] = E ; v[1]
	"hash-assign":  {nil, false, "", ""}, // let v = {} ; v["k"] = E ; v["k"]
	"closure":      {nil, false, "", ""}, // let v = fn() { return E } ; v()
	// stores into containers supplied from Go whose element type is fixed: a plain string stored into a
	// []template.HTML is refused or printed as text, never taken for trusted HTML
	"hsl[0]=E":  {nil, false, "", ""}, // []template.HTML
	"mh[w]=E":   {nil, false, "", ""}, // map[string]template.HTML
	"ss[0]=E":   {nil, true, "", ""},  // []string
	"ms[w]=E":   {nil, true, "", ""},  // map[string]string
	"si[0]=E":   {nil, false, "", ""}, // []interface{}
	"mi[w]=E":   {nil, false, "", ""}, // map[string]interface{}
	"e.SS[0]=E": {nil, true, "", ""},  // []string held in a struct field
	// a Go helper called WITH a block: what it returns is typed like any other result (a string stays a string,
	// whether or not the helper looks at its block)
	"ids(E){}":   {nil, true, "", ""},  // string -> string, the block is ignored
	"id(E){}":    {nil, false, "", ""}, // interface{} -> interface{}, the block is ignored
	"sblk(E){t}": {nil, true, "", "t"}, // string + the text of its block, returned as a string
	"trunc(E){}": {nil, true, "", ""},  // a built-in string helper with a trailing block
}

var sinks = []string{
	"top", "in if", "in else", "in else if", "for loop var", "for over [E] with key", "array emitted whole", "array with neighbours", "fn body", "fn return",
	"block helper", "block helper in if", "contentFor/Of", "contentOf data", "partial data", "partial data + layout", "nested partial data",
	"if in for in fn", "let at top then in block", "return in if", "return in for",
	// blocks whose whole body is exactly ONE output tag (no text next to it)
	"bare in if", "bare in for", "bare fn body", "bare block helper", "bare contentFor/Of", "bare contentOf default block", "bare partial",
	// a loop body cut short after the output tag: what it rendered so far travels with the continue / break
	"before continue", "before break", "before continue in if",
	// ... in each of the three kinds of loop (slice, map, Iterator), which are evaluated by separate code
	"before continue in map loop", "before break in map loop", "before continue in iterator loop", "before break in iterator loop", "map loop var", "iterator loop body",
	// arrays built by the template and emitted whole
	"array + E emitted whole", "nested arrays emitted whole", "fn returns array emitted whole", "for in for", "fn calls fn", "fn body result held in let", "same array emitted repeatedly and nested",
	// one block / stored block / partial rendered SEVERAL times in one execution, for trusted and untrusted values in turn
	"block helper twice", "block helper arg in block context", "block helper per item, trust alternating",
	"contentOf data, trust alternating", "partial data, trust alternating", "partial per item, trust alternating",
	// ... and for the SAME text once trusted (raw(E)) and once not: nothing may be keyed by the printed form of a value
	"same text trusted and not: loop", "same text trusted and not: fn body", "same text trusted and not: block helper", "same text trusted and not: contentOf data", "same text trusted and not: partial data",
	// composition of the composition mechanisms
	"helper Render of held", "partial in contentFor", "block helper in partial",
	// a helper whose parameter is template.HTML: a plain string is not one (an error is fine, trusting the string is not)
	"helper with template.HTML parameter",
	// plush's own debug() helper wraps the printed form of its argument in <pre> tags: the tags are markup, the argument is text
	"built-in debug helper",
}

// sinks for context collections that are emitted without an expression route; the value says which tags apply
var wholeSinks = []string{"[]string emitted whole", "[]any emitted whole", "for over []string", "for over []any", "for over [2]string", "for over map[string]string", "for over sts",
	// ONE output tag emits trusted and untrusted values in turn (what it did for the value before says nothing about this one)
	"for over mixed trust", "mixed trust emitted whole", "fn body called for trusted then string",
	// collections typed by a trusted element type, payload as a map KEY, iterator, collections from fields and helpers
	"for over []HTML", "for over []HTMLer", "for over map[string]HTML", "for over map with payload key", "for over map[string]any with payload key",
	"for over iterator", "[]string field emitted whole", "helper->[]string emitted whole", "helper->[]any emitted whole", "for over [][]string",
	"for over hash literal with payload key", "for over []named string", "for over []*string"}

var wholeTags = map[string]string{
	"[]string emitted whole": "s", "[]any emitted whole": "shr", "for over []string": "s", "for over []any": "shr", "for over [2]string": "s",
	"for over map[string]string": "s", "for over sts": "shr", "for over mixed trust": "s", "mixed trust emitted whole": "s", "fn body called for trusted then string": "s",
	"for over []HTML": "h", "for over []HTMLer": "r", "for over map[string]HTML": "h", "for over map with payload key": "s", "for over map[string]any with payload key": "s",
	"for over iterator": "shr", "[]string field emitted whole": "s", "helper->[]string emitted whole": "s", "helper->[]any emitted whole": "shr", "for over [][]string": "s",
	"for over hash literal with payload key": "s", "for over []named string": "s", "for over []*string": "s",
}

func mkData(p, tag string, partials map[string]string) map[string]interface{} {
	var v interface{} = p
	in := inner{F: p, H: template.HTML(p), Hr: htmler{p}}
	switch tag {
	case "html":
		v = template.HTML(p)
	case "htmler":
		v = htmler{p}
	}
	ps, px, ph := p, "x", template.HTML(p) // fresh variables: the data holds pointers to them
	return map[string]interface{}{
		"trusted": template.HTML("<em>T</em>"),
		"p":       v, "st": outer{F: p, H: template.HTML(p), Hr: htmler{p}, In: in, P: &in}, "pst": &outer{F: p, H: template.HTML(p), Hr: htmler{p}, In: in, P: &in},
		"sts": []outer{{F: "zero"}, {F: p, H: template.HTML(p), Hr: htmler{p}}},
		"ms":  map[string]string{"k": p}, "mi": map[string]interface{}{"k": v},
		"mix": []interface{}{template.HTML("<i>"), p, htmler{"<b>"}, p, template.HTML(p), p},
		"ss":  []string{"s0", p}, "si": []interface{}{"i0", v}, "as": [2]string{"a0", p},
		"hs": func() string { return p }, "hi": func() interface{} { return v },
		"hh": func() template.HTML { return template.HTML(p) }, "hr": func() plush.HTMLer { return htmler{p} },
		"id": func(x interface{}) interface{} { return x }, "ids": func(s string) string { return s },
		"blk":  func(h plush.HelperContext) (template.HTML, error) { s, err := h.Block(); return template.HTML(s), err },
		"sblk": func(s string, h plush.HelperContext) (string, error) { b, err := h.Block(); return s + b, err },
		// fields
		"e": emb{Base: Base{F: p, H: template.HTML(p), Hr: htmler{p}}, PS: &ps, PH: &ph, I: v, SS: []string{"s0", p}, SI: []interface{}{"i0", v}, MS: map[string]string{"k": p}},
		// typed collections
		"mh": map[string]template.HTML{"k": template.HTML(p)}, "hsl": []template.HTML{"<i>", template.HTML(p)},
		"mhr": map[string]htmler{"k": {p}}, "hrl": []htmler{{"<i>"}, {p}},
		"sss": [][]string{{"a"}, {"b", p}}, "msl": map[string][]string{"k": {"a", p}},
		"mst": map[string]outer{"k": {F: p, H: template.HTML(p), Hr: htmler{p}}},
		"mk":  map[string]string{p: "v"}, "mik": map[string]interface{}{p: 1},
		"it": &iter{xs: []interface{}{"i0", v}},
		// other spellings of trusted, and values that are neither strings nor trusted
		"sh": strHTMLer(p), "php": &phtmler{p}, "both": both{p},
		"bx":   boxed{v},
		"ptrs": &ps, "ptrh": &ph, "ips": []*string{&px, &ps}, "nm": named(p), "nms": []named{"n0", named(p)},
		// helpers
		"hse":   func() (string, error) { return p, nil },
		"hss":   func() []string { return []string{"h0", p} },
		"hsi":   func() []interface{} { return []interface{}{"<a>", v, template.HTML("<i>")} },
		"hps":   func() *string { return &ps },
		"hst":   func() outer { return outer{F: p, H: template.HTML(p), Hr: htmler{p}} },
		"opt":   func(o map[string]interface{}) interface{} { return o["v"] },
		"idh":   func(h template.HTML) template.HTML { return h }, // accepts trusted HTML only
		"vari":  func(a ...string) string { return a[len(a)-1] },
		"varii": func(a ...interface{}) interface{} { return a[len(a)-1] },
		"blk2": func(h plush.HelperContext) (template.HTML, error) {
			s1, err := h.Block()
			if err != nil {
				return "", err
			}
			s2, err := h.Block()
			return template.HTML(s1 + "|" + s2), err
		},
		"with": func(x interface{}, h plush.HelperContext) (template.HTML, error) {
			c := h.New()
			c.Set("item", x)
			s, err := h.BlockWith(c)
			return template.HTML(s), err
		},
		"rend": func(src string, h plush.HelperContext) (template.HTML, error) {
			s, err := h.Render(src)
			return template.HTML(s), err
		},
		"partialFeeder": func(name string) (string, error) {
			s, ok := partials[name]
			if !ok {
				return "", fmt.Errorf("no partial %s", name)
			}
			return s, nil
		},
	}
}

const prelude = `<% let uf = fn(x) { return x } %><% let pick = fn(x, y) { if (true) { return x } return y } %><% let pair = fn(x) { return [x, "y"] } %>`

func cat(pp ...[]match.Part) []match.Part {
	var out []match.Part
	for _, p := range pp {
		out = append(out, p...)
	}
	return out
}

func lit(s string) []match.Part { return []match.Part{match.L(s)} }

// build produces the template, the partial texts and the expected parts. With dropped set the expectation is that
// of a payload that prints nothing at all (the second alternative of a weak base, see baseDef.weak).
func build(c Case, dropped bool) (src string, partials map[string]string, parts []match.Part, skip string) {
	p := string(c.Payload)
	partials = map[string]string{}
	esc := func(s string) match.Part {
		if c.Tag == "string" {
			return match.E(s)
		}
		return match.R(s)
	}
	var sb strings.Builder
	sb.WriteString(prelude)
	// whole-collection sinks
	if tags, isWhole := wholeTags[c.Sink]; isWhole {
		ws := c.Sink
		if c.Tag == "raw" {
			return "", nil, nil, "raw() is applied to an expression, not to a collection"
		}
		if !strings.Contains(tags, map[string]string{"string": "s", "html": "h", "htmler": "r"}[c.Tag]) {
			return "", nil, nil, "the collection of this sink is typed for another tag"
		}
		if len(c.Wraps) > 0 || c.Base != "var" {
			return "", nil, nil, "whole-collection sink has no route"
		}
		ret := func(tmpl string, parts ...match.Part) (string, map[string]string, []match.Part, string) {
			sb.WriteString(tmpl)
			return sb.String(), partials, parts, ""
		}
		switch ws {
		case "[]string emitted whole":
			return ret("[<%= ss %>]", match.L("[s0"), match.E(p), match.L("]"))
		case "[]any emitted whole":
			return ret("[<%= si %>]", match.L("[i0"), esc(p), match.L("]"))
		case "for over []string":
			return ret("<%= for (x) in ss { %>[<%= x %>]<% } %>", match.L("[s0]["), match.E(p), match.L("]"))
		case "for over []any":
			return ret("<%= for (x) in si { %>[<%= x %>]<% } %>", match.L("[i0]["), esc(p), match.L("]"))
		case "for over [2]string":
			return ret("<%= for (x) in as { %>[<%= x %>]<% } %>", match.L("[a0]["), match.E(p), match.L("]"))
		case "for over map[string]string":
			return ret("<%= for (k, x) in ms { %>[<%= k %>=<%= x %>]<% } %>", match.L("[k="), match.E(p), match.L("]"))
		case "for over mixed trust":
			return ret("<%= for (x) in mix { %>[<%= x %>]<% } %>", match.L("[<i>]["), match.E(p), match.L("][<b>]["), match.E(p), match.L("]["), match.R(p), match.L("]["), match.E(p), match.L("]"))
		case "mixed trust emitted whole":
			return ret("[<%= mix %>]", match.L("[<i>"), match.E(p), match.L("<b>"), match.E(p), match.R(p), match.E(p), match.L("]"))
		case "fn body called for trusted then string":
			return ret("<% let show = fn(x) { %>[<%= x %>]<% } %><%= show(trusted) %><%= show(p) %><%= show(trusted) %><%= show(p) %>",
				match.L("[<em>T</em>]["), match.E(p), match.L("][<em>T</em>]["), match.E(p), match.L("]"))
		case "for over sts":
			tmpl := "<%= for (o) in sts { %>[<%= o." + fld(c.Tag) + " %>]<% } %>"
			if c.Tag == "string" {
				return ret(tmpl, match.L("[zero]["), match.E(p), match.L("]"))
			}
			return ret(tmpl, match.L("[]["), esc(p), match.L("]"))
		case "for over []HTML":
			return ret("<%= for (x) in hsl { %>[<%= x %>]<% } %>", match.L("[<i>]["), match.R(p), match.L("]"))
		case "for over []HTMLer":
			return ret("<%= for (x) in hrl { %>[<%= x %>]<% } %>", match.L("[<i>]["), match.R(p), match.L("]"))
		case "for over map[string]HTML":
			return ret("<%= for (k, x) in mh { %>[<%= k %>=<%= x %>]<% } %>", match.L("[k="), match.R(p), match.L("]"))
		case "for over map with payload key":
			return ret("<%= for (k, x) in mk { %>[<%= k %>=<%= x %>]<% } %>", match.L("["), match.E(p), match.L("=v]"))
		case "for over map[string]any with payload key":
			return ret("<%= for (k, x) in mik { %>[<%= k %>=<%= x %>]<% } %>", match.L("["), match.E(p), match.L("=1]"))
		case "for over iterator":
			return ret("<%= for (x) in it { %>[<%= x %>]<% } %>", match.L("[i0]["), esc(p), match.L("]"))
		case "[]string field emitted whole":
			return ret("[<%= e.SS %>]", match.L("[s0"), match.E(p), match.L("]"))
		case "helper->[]string emitted whole":
			return ret("[<%= hss() %>]", match.L("[h0"), match.E(p), match.L("]"))
		case "helper->[]any emitted whole":
			return ret("[<%= hsi() %>]", match.L("["), match.E("<a>"), esc(p), match.L("<i>]"))
		case "for over [][]string":
			return ret("<%= for (row) in sss { %><%= for (x) in row { %>[<%= x %>]<% } %><% } %>", match.L("[a][b]["), match.E(p), match.L("]"))
		case "for over hash literal with payload key":
			q, ok := model.QuoteString(p)
			if !ok {
				return "", nil, nil, "payload not expressible as a literal"
			}
			return ret("<%= for (k, x) in {"+q+": \"<v>\"} { %>[<%= k %>=<%= x %>]<% } %>", match.L("["), match.E(p), match.L("="), match.E("<v>"), match.L("]"))
		case "for over []named string": // weak: both elements print as strings do, or neither prints
			if dropped {
				return ret("<%= for (x) in nms { %>[<%= x %>]<% } %>", match.L("[][]"))
			}
			return ret("<%= for (x) in nms { %>[<%= x %>]<% } %>", match.L("[n0]["), match.E(p), match.L("]"))
		case "for over []*string": // weak
			if dropped {
				return ret("<%= for (x) in ips { %>[<%= x %>]<% } %>", match.L("[][]"))
			}
			return ret("<%= for (x) in ips { %>[<%= x %>]<% } %>", match.L("[x]["), match.E(p), match.L("]"))
		}
		return "", nil, nil, "unknown whole-collection sink"
	}
	b, ok := bases[c.Base]
	if !ok {
		return "", nil, nil, "unknown base"
	}
	tagKey := map[string]string{"string": "s", "raw": "s", "html": "h", "htmler": "r"}[c.Tag]
	if !strings.Contains(b.tags, tagKey) {
		return "", nil, nil, "base cannot carry this tag"
	}
	if b.weak && (len(c.Wraps) > 0 || c.Tag == "raw" || p == "") {
		return "", nil, nil, "a value that need not print is emitted as it is, and not empty"
	}
	var e string
	switch {
	case c.Base == "backquoted literal":
		if strings.ContainsAny(p, "`\x00") {
			return "", nil, nil, "payload not expressible as a literal"
		}
		e = "`" + p + "`"
	case b.isLit:
		lit, ok := model.QuoteString(p)
		if !ok || strings.ContainsAny(p, "\x00") {
			return "", nil, nil, "payload not expressible as a literal"
		}
		e = lit
	default:
		e = b.expr(c.Tag)
	}
	pre, suf := "", ""
	nlet := 0
	for _, wn := range c.Wraps {
		w, ok := wraps[wn]
		if !ok {
			return "", nil, nil, "unknown wrap"
		}
		if w.strOnly && (c.Tag == "html" || c.Tag == "htmler") {
			return "", nil, nil, "concatenation is defined for plain strings only"
		}
		if w.f == nil { // statements before the sink
			nlet++
			name := fmt.Sprintf("v%d", nlet)
			switch wn {
			case "let":
				sb.WriteString("<% let " + name + " = " + e + " %>")
				e = name
			case "assign":
				sb.WriteString("<% let " + name + " = \"\" %><% " + name + " = " + e + " %>")
				e = name
			case "index-assign":
				sb.WriteString("<% let " + name + " = [\"x\", \"y\"] %><% " + name + "[1] = " + e + " %>")
				e = name + "[1]"
			case "hash-assign":
				sb.WriteString("<% let " + name + " = {} %><% " + name + "[\"k\"] = " + e + " %>")
				e = name + "[\"k\"]"
			case "closure":
				sb.WriteString("<% let " + name + " = fn() { return " + e + " } %>")
				e = name + "()"
			case "hsl[0]=E", "ss[0]=E", "si[0]=E", "e.SS[0]=E":
				if c.Tag == "htmler" && wn == "hsl[0]=E" {
					return "", nil, nil, "an HTMLer is not a template.HTML"
				}
				target := strings.TrimSuffix(wn, "=E")
				sb.WriteString("<% " + target + " = " + e + " %>")
				e = target
			case "ids(E){}", "id(E){}":
				sb.WriteString("<% let " + name + " = " + strings.TrimSuffix(wn, "(E){}") + "(" + e + ") { %>unused<% } %>")
				e = name
			case "sblk(E){t}":
				sb.WriteString("<% let " + name + " = sblk(" + e + ") { %>t<% } %>")
				e = name
				suf += "t"
			case "trunc(E){}":
				sb.WriteString("<% let " + name + " = truncate(" + e + ", {size: 100000}) { %><% } %>")
				e = name
			case "mh[w]=E", "ms[w]=E", "mi[w]=E":
				if c.Tag == "htmler" && wn == "mh[w]=E" {
					return "", nil, nil, "an HTMLer is not a template.HTML"
				}
				target := wn[:2] + "[\"w\"]"
				sb.WriteString("<% " + target + " = " + e + " %>")
				e = target
			default:
				return "", nil, nil, "unknown wrap"
			}
			continue
		}
		e = w.f(e)
		pre, suf = w.pre+pre, suf+w.suf
	}
	if c.Tag == "raw" {
		e = "raw(" + e + ")"
	}
	payloadParts := func() []match.Part {
		if dropped {
			return nil
		}
		return []match.Part{esc(pre + p + suf)}
	}
	P := payloadParts
	T := "<em>T</em>" // what the context variable `trusted` prints
	around := func(a string, mid []match.Part, z string) []match.Part {
		return append(append([]match.Part{match.L(a)}, mid...), match.L(z))
	}
	if strings.HasPrefix(c.Sink, "nest:") {
		tmpl, np, ok := nest(strings.Split(strings.TrimPrefix(c.Sink, "nest:"), ","), e, P, partials)
		if !ok {
			return "", nil, nil, "unknown sink"
		}
		sb.WriteString(tmpl)
		return sb.String(), partials, np, ""
	}
	switch c.Sink {
	case "top":
		sb.WriteString("[<%= " + e + " %>]")
		parts = around("[", payloadParts(), "]")
	case "in if":
		sb.WriteString("<%= if (true) { %>[<%= " + e + " %>]<% } %>")
		parts = around("[", payloadParts(), "]")
	case "in else":
		sb.WriteString("<%= if (false) { %>no<% } else { %>[<%= " + e + " %>]<% } %>")
		parts = around("[", payloadParts(), "]")
	case "in else if":
		sb.WriteString("<%= if (false) { %>no<% } else if (true) { %>[<%= " + e + " %>]<% } else { %>no<% } %>")
		parts = around("[", payloadParts(), "]")
	case "for loop var":
		sb.WriteString("<%= for (x) in [" + e + "] { %>[<%= x %>]<% } %>")
		parts = around("[", payloadParts(), "]")
	case "for over [E] with key":
		sb.WriteString("<%= for (k, x) in [1, " + e + "] { %>[<%= k %>:<%= x %>]<% } %>")
		parts = around("[0:1][1:", payloadParts(), "]")
	case "array emitted whole":
		sb.WriteString("[<%= [" + e + "] %>]")
		parts = around("[", payloadParts(), "]")
	case "array with neighbours":
		sb.WriteString("[<%= [\"<a>\", " + e + ", 7] %>]")
		parts = append(append([]match.Part{match.L("["), match.E("<a>")}, payloadParts()...), match.L("7]"))
	case "fn body":
		sb.WriteString("<% let show = fn(x) { %>[<%= x %>]<% } %><%= show(" + e + ") %>")
		parts = around("[", payloadParts(), "]")
	case "fn return":
		sb.WriteString("<% let give = fn(x) { if (x) { return x } return \"\" } %>[<%= give(" + e + ") %>]")
		parts = around("[", payloadParts(), "]")
	case "block helper":
		sb.WriteString("<%= blk() { %>[<%= " + e + " %>]<% } %>")
		parts = around("[", payloadParts(), "]")
	case "block helper in if":
		sb.WriteString("<%= if (true) { %><%= blk() { %>[<%= " + e + " %>]<% } %><% } %>")
		parts = around("[", payloadParts(), "]")
	case "contentFor/Of":
		sb.WriteString("<% contentFor(\"c\") { %>[<%= " + e + " %>]<% } %>|<%= contentOf(\"c\") %>|<%= contentOf(\"c\") %>")
		parts = append(around("|[", payloadParts(), "]"), around("|[", payloadParts(), "]")...)
	case "contentOf data":
		sb.WriteString("<% contentFor(\"c\") { %>[<%= d %>]<% } %><%= contentOf(\"c\", {d: " + e + "}) %>")
		parts = around("[", payloadParts(), "]")
	case "partial data":
		partials["part"] = "[<%= d %>]"
		sb.WriteString("<%= partial(\"part\", {d: " + e + "}) %>")
		parts = around("[", payloadParts(), "]")
	case "partial data + layout":
		partials["part"] = "[<%= d %>]"
		partials["lay"] = "(<%= yield %>)"
		sb.WriteString("<%= partial(\"part\", {d: " + e + ", layout: \"lay\"}) %>")
		parts = around("([", payloadParts(), "])")
	case "nested partial data":
		partials["part"] = "[<%= d %>]"
		partials["outerp"] = "{<%= partial(\"part\", {d: dd}) %>}"
		sb.WriteString("<%= partial(\"outerp\", {dd: " + e + "}) %>")
		parts = around("{[", payloadParts(), "]}")
	case "if in for in fn":
		sb.WriteString("<% let deep = fn(x) { %><%= for (i) in [1, 2] { %><%= if (i == 2) { %>[<%= x %>]<% } %><% } %><% } %><%= deep(" + e + ") %>")
		parts = around("[", payloadParts(), "]")
	case "return in if":
		sb.WriteString("[<%= if (true) { return " + e + " } %>]")
		parts = around("[", payloadParts(), "]")
	case "return in for":
		sb.WriteString("<%= for (x) in [" + e + "] { return x } %>|<%= for (x) in [1, 2] { %>[<% return " + e + " %>]<% } %>")
		parts = append(append(payloadParts(), match.L("|[")), append(payloadParts(), append([]match.Part{match.L("[")}, payloadParts()...)...)...)
	case "bare in if":
		sb.WriteString("[<%= if (true) { %><%= " + e + " %><% } %>]")
		parts = around("[", payloadParts(), "]")
	case "bare in for":
		sb.WriteString("[<%= for (x) in [" + e + "] { %><%= x %><% } %>]")
		parts = around("[", payloadParts(), "]")
	case "bare fn body":
		sb.WriteString("<% let show = fn(x) { %><%= x %><% } %>[<%= show(" + e + ") %>]")
		parts = around("[", payloadParts(), "]")
	case "bare block helper":
		sb.WriteString("[<%= blk() { %><%= " + e + " %><% } %>]")
		parts = around("[", payloadParts(), "]")
	case "bare contentFor/Of":
		sb.WriteString("<% contentFor(\"c\") { %><%= " + e + " %><% } %>[<%= contentOf(\"c\") %>]")
		parts = around("[", payloadParts(), "]")
	case "bare contentOf default block":
		sb.WriteString("[<%= contentOf(\"undefined-name\") { %><%= " + e + " %><% } %>]")
		parts = around("[", payloadParts(), "]")
	case "bare partial":
		partials["part"] = "<%= d %>"
		sb.WriteString("[<%= partial(\"part\", {d: " + e + "}) %>]")
		parts = around("[", payloadParts(), "]")
	case "let at top then in block":
		sb.WriteString("<% let held = " + e + " %><%= blk() { %><%= if (held) { %>[<%= held %>]<% } %><% } %>")
		if p == "" && pre == "" && suf == "" && c.Tag != "htmler" { // an empty string / empty HTML is falsy, an HTMLer struct is not
			parts = nil
		} else {
			parts = around("[", payloadParts(), "]")
		}
	case "before continue":
		sb.WriteString("<%= for (i) in [1, 2] { %>[<%= " + e + " %><% continue %>no]<% } %>")
		parts = cat(lit("["), P(), lit("["), P())
	case "before break":
		sb.WriteString("<%= for (i) in [1, 2] { %>[<%= " + e + " %><% break %>no]<% } %>")
		parts = cat(lit("["), P())
	case "before continue in if":
		sb.WriteString("<%= for (i) in [1, 2] { %>[<%= " + e + " %><% if (i == 1) { continue } %>]<% } %>")
		parts = cat(lit("["), P(), lit("["), P(), lit("]"))
	case "before continue in map loop":
		sb.WriteString("<%= for (k, v) in {a: 1, b: 2} { %>[<%= " + e + " %><% continue %>no]<% } %>")
		parts = cat(lit("["), P(), lit("["), P())
	case "before break in map loop":
		sb.WriteString("<%= for (k, v) in {a: 1, b: 2} { %>[<%= " + e + " %><% break %>no]<% } %>")
		parts = cat(lit("["), P())
	case "before continue in iterator loop":
		sb.WriteString("<%= for (i) in range(1, 2) { %>[<%= " + e + " %><% continue %>no]<% } %>")
		parts = cat(lit("["), P(), lit("["), P())
	case "before break in iterator loop":
		sb.WriteString("<%= for (i) in range(1, 2) { %>[<%= " + e + " %><% break %>no]<% } %>")
		parts = cat(lit("["), P())
	case "map loop var":
		sb.WriteString("<%= for (k, x) in {a: " + e + "} { %>[<%= k %>=<%= x %>]<% } %>")
		parts = cat(lit("[a="), P(), lit("]"))
	case "iterator loop body":
		sb.WriteString("<%= for (i) in range(1, 2) { %>[<%= i %>:<%= " + e + " %>]<% } %>")
		parts = cat(lit("[1:"), P(), lit("][2:"), P(), lit("]"))
	case "array + E emitted whole":
		sb.WriteString("[<%= [\"<a>\"] + (" + e + ") %>]")
		parts = cat(lit("["), []match.Part{match.E("<a>")}, P(), lit("]"))
	case "nested arrays emitted whole":
		sb.WriteString("[<%= [[" + e + ", [\"<a>\"]], trusted, [[[" + e + "]]]] %>]")
		parts = cat(lit("["), P(), []match.Part{match.E("<a>")}, lit(T), P(), lit("]"))
	case "fn returns array emitted whole":
		sb.WriteString("<% let mk3 = fn(x) { return [\"<a>\", x, trusted] } %>[<%= mk3(" + e + ") %>]")
		parts = cat(lit("["), []match.Part{match.E("<a>")}, P(), lit(T+"]"))
	case "for in for":
		sb.WriteString("<%= for (row) in [[" + e + ", \"<a>\"], [trusted]] { %><%= for (x) in row { %>[<%= x %>]<% } %><% } %>")
		parts = cat(lit("["), P(), lit("]["), []match.Part{match.E("<a>")}, lit("]["+T+"]"))
	case "fn calls fn":
		sb.WriteString("<% let fa = fn(x) { return x } %><% let fb = fn(y) { %>(<%= fa(y) %>)<% } %>[<%= fb(" + e + ") %>]")
		parts = cat(lit("[("), P(), lit(")]"))
	case "fn body result held in let":
		sb.WriteString("<% let show = fn(x) { %>(<%= x %>)<% } %><% let held = show(" + e + ") %>[<%= held %>|<%= held %>]")
		parts = cat(lit("[("), P(), lit(")|("), P(), lit(")]"))
	case "same array emitted repeatedly and nested":
		sb.WriteString("<% let arr = [" + e + "] %>[<%= [arr, arr, [arr, [arr]]] %>|<%= arr %>]")
		parts = cat(lit("["), P(), P(), P(), P(), lit("|"), P(), lit("]"))
	case "block helper twice":
		sb.WriteString("<%= blk2() { %>[<%= " + e + " %>]<% } %>")
		parts = cat(lit("["), P(), lit("]|["), P(), lit("]"))
	case "block helper arg in block context":
		sb.WriteString("<%= with(" + e + ") { %>[<%= item %>]<% } %>")
		parts = around("[", payloadParts(), "]")
	case "block helper per item, trust alternating":
		sb.WriteString("<%= for (x) in [trusted, " + e + ", trusted, " + e + "] { %><%= blk() { %>[<%= x %>]<% } %><% } %>")
		parts = cat(lit("["+T+"]["), P(), lit("]["+T+"]["), P(), lit("]"))
	case "contentOf data, trust alternating":
		sb.WriteString("<% contentFor(\"c\") { %>[<%= d %>]<% } %><%= contentOf(\"c\", {d: trusted}) %><%= contentOf(\"c\", {d: " + e + "}) %><%= contentOf(\"c\", {d: trusted}) %><%= contentOf(\"c\", {d: " + e + "}) %>")
		parts = cat(lit("["+T+"]["), P(), lit("]["+T+"]["), P(), lit("]"))
	case "partial data, trust alternating":
		partials["part"] = "[<%= d %>]"
		sb.WriteString("<%= partial(\"part\", {d: trusted}) %><%= partial(\"part\", {d: " + e + "}) %><%= partial(\"part\", {d: trusted}) %><%= partial(\"part\", {d: " + e + "}) %>")
		parts = cat(lit("["+T+"]["), P(), lit("]["+T+"]["), P(), lit("]"))
	case "partial per item, trust alternating":
		partials["part"] = "[<%= d %>]"
		sb.WriteString("<%= for (x) in [trusted, " + e + ", trusted] { %><%= partial(\"part\", {d: x}) %><% } %>")
		parts = cat(lit("["+T+"]["), P(), lit("]["+T+"]"))
	case "same text trusted and not: loop", "same text trusted and not: fn body", "same text trusted and not: block helper", "same text trusted and not: contentOf data", "same text trusted and not: partial data":
		if c.Tag != "string" || b.weak {
			return "", nil, nil, "raw(E) next to E needs a plain string"
		}
		re := "raw(" + e + ")"
		switch strings.TrimPrefix(c.Sink, "same text trusted and not: ") {
		case "loop":
			sb.WriteString("<%= for (x) in [" + re + ", " + e + ", " + re + ", " + e + "] { %>[<%= x %>]<% } %>")
		case "fn body":
			sb.WriteString("<% let show = fn(x) { %>[<%= x %>]<% } %><%= show(" + re + ") %><%= show(" + e + ") %><%= show(" + re + ") %><%= show(" + e + ") %>")
		case "block helper":
			sb.WriteString("<%= for (x) in [" + re + ", " + e + ", " + re + ", " + e + "] { %><%= blk() { %>[<%= x %>]<% } %><% } %>")
		case "contentOf data":
			sb.WriteString("<% contentFor(\"c\") { %>[<%= d %>]<% } %><%= contentOf(\"c\", {d: " + re + "}) %><%= contentOf(\"c\", {d: " + e + "}) %><%= contentOf(\"c\", {d: " + re + "}) %><%= contentOf(\"c\", {d: " + e + "}) %>")
		case "partial data":
			partials["part"] = "[<%= d %>]"
			sb.WriteString("<%= partial(\"part\", {d: " + re + "}) %><%= partial(\"part\", {d: " + e + "}) %><%= partial(\"part\", {d: " + re + "}) %><%= partial(\"part\", {d: " + e + "}) %>")
		}
		var rp []match.Part
		if !dropped {
			rp = []match.Part{match.R(pre + p + suf)}
		}
		parts = cat(lit("["), rp, lit("]["), P(), lit("]["), rp, lit("]["), P(), lit("]"))
	case "helper with template.HTML parameter":
		if b.weak {
			return "", nil, nil, "a pointer is not a template.HTML argument"
		}
		sb.WriteString("[<%= idh(" + e + ") %>]")
		parts = around("[", payloadParts(), "]")
	case "built-in debug helper":
		if c.Tag != "string" || b.weak {
			return "", nil, nil, "debug() prints the Go form of its argument: asserted for plain strings"
		}
		sb.WriteString("[<%= debug(" + e + ") %>]")
		parts = cat(lit("[<pre>"), P(), lit("</pre>]"))
	case "helper Render of held":
		sb.WriteString("<% let held = " + e + " %><%= rend(\"[<%= held %>]\") %>")
		parts = around("[", payloadParts(), "]")
	case "partial in contentFor":
		partials["part"] = "[<%= d %>]"
		sb.WriteString("<% contentFor(\"c\") { %><%= partial(\"part\", {d: " + e + "}) %><% } %>(<%= contentOf(\"c\") %>)")
		parts = around("([", payloadParts(), "])")
	case "block helper in partial":
		partials["part"] = "<%= blk() { %>[<%= d %>]<% } %>"
		sb.WriteString("(<%= partial(\"part\", {d: " + e + "}) %>)")
		parts = around("([", payloadParts(), "])")
	default:
		return "", nil, nil, "unknown sink"
	}
	return sb.String(), partials, parts, ""
}

// Nests: the output tag sits inside up to four block constructs nested in any order. A path is a list of
// constructs, outermost first, and a leaf; a construct with a trailing '+' has literal text next to its content
// (so the enclosing block has several parts), without it the content is all the block holds.
var nestElems = []string{"if", "else", "for", "formap", "foriter", "fn", "blk", "cfo", "cod", "part"}
var nestLeaves = []string{"bare", "boxed"}

func nest(path []string, e string, P func() []match.Part, partials map[string]string) (string, []match.Part, bool) {
	n := 0
	var rec func(path []string) (string, []match.Part, bool)
	rec = func(path []string) (string, []match.Part, bool) {
		if len(path) == 0 {
			return "", nil, false
		}
		if len(path) == 1 {
			switch path[0] {
			case "bare":
				return "<%= " + e + " %>", P(), true
			case "boxed":
				return "[<%= " + e + " %>]", cat(lit("["), P(), lit("]")), true
			}
			return "", nil, false
		}
		n++
		id := fmt.Sprint(n)
		in, ip, ok := rec(path[1:])
		if !ok {
			return "", nil, false
		}
		el := path[0]
		if strings.HasSuffix(el, "+") {
			el = strings.TrimSuffix(el, "+")
			in, ip = "("+in+")", cat(lit("("), ip, lit(")"))
		}
		switch el {
		case "if":
			return "<%= if (true) { %>" + in + "<% } %>", ip, true
		case "else":
			return "<%= if (false) { %>no<% } else { %>" + in + "<% } %>", ip, true
		case "for":
			return "<%= for (ni" + id + ") in [1, 2] { %>" + in + "<% } %>", cat(ip, ip), true
		case "formap":
			return "<%= for (nk" + id + ", nv" + id + ") in {a: 1} { %>" + in + "<% } %>", ip, true
		case "foriter":
			return "<%= for (ni" + id + ") in range(1, 2) { %>" + in + "<% } %>", cat(ip, ip), true
		case "fn":
			return "<% let nf" + id + " = fn() { %>" + in + "<% } %><%= nf" + id + "() %>", ip, true
		case "blk":
			return "<%= blk() { %>" + in + "<% } %>", ip, true
		case "cfo":
			return "<% contentFor(\"c" + id + "\") { %>" + in + "<% } %><%= contentOf(\"c" + id + "\") %>", ip, true
		case "cod":
			return "<%= contentOf(\"undefined" + id + "\") { %>" + in + "<% } %>", ip, true
		case "part":
			partials["n"+id] = in
			return "<%= partial(\"n" + id + "\") %>", ip, true
		}
		return "", nil, false
	}
	tmpl, parts, ok := rec(path)
	return "{" + tmpl + "}", cat(lit("{"), parts, lit("}")), ok
}

// generator class of a genuine defect found by this check (helpers/debug/debug.go: Debug does not escape what Inspect
// prints); while known_findings.json lists it as open the sink is skipped and counted, afterwards it is regression coverage
const classDebugHelper = "built-in debug helper emits its argument verbatim"

func check(r *vk.Run, c Case) *vk.Fail {
	defer r.Watch("route", c)()
	if c.Sink == "built-in debug helper" && r.OpenClass(classDebugHelper) {
		r.Exclude(classDebugHelper)
		return nil
	}
	src, partials, parts, skip := build(c, false)
	if skip != "" {
		r.Exclude("not-applicable: " + skip)
		return nil
	}
	p := string(c.Payload)
	data := mkData(p, c.Tag, partials)
	res := vk.Safe(func() (string, error) { return plush.Render(src, plush.NewContextWith(data)) })
	route := c.Base + " | " + strings.Join(c.Wraps, " > ") + " | " + c.Sink + " | " + c.Tag
	nt := ""
	if (gen.HasSpecial(p) || strings.Contains(p, "&")) && (len(c.Wraps) > 0 || c.Sink != "top" || c.Base != "var") {
		nt = route + " | " + p
	}
	if strings.HasPrefix(c.Sink, "nest:") {
		r.Count(nt, fmt.Sprintf("sink/nest of depth %d", strings.Count(c.Sink, ",")))
	} else {
		r.Count(nt, "sink/"+c.Sink)
	}
	r.Class("tag/" + c.Tag)
	r.Class("base/" + c.Base)
	if nt != "" {
		r.Sample(func() interface{} {
			return map[string]interface{}{"route": route, "payload": c.Payload, "template": vk.Text(src), "expected": match.Describe(parts)}
		})
	}
	fail := func(f string, a ...interface{}) *vk.Fail {
		return &vk.Fail{Kind: "route", Case: c, Msg: fmt.Sprintf("route [%s] payload %q: template %q: ", route, p, src) + fmt.Sprintf(f, a...)}
	}
	if rejected(r, c, res) {
		return nil
	}
	if res.Panicked() || res.Err != nil {
		return fail("%s", res)
	}
	if m := match.Match(parts, res.Out); m != "" {
		if weakRoute(c) {
			// the value need not print: the other admissible output is the one without it
			if _, _, alt, _ := build(c, true); match.Match(alt, res.Out) == "" {
				r.Class("weak route: value not printed")
				return nil
			}
			return fail("output %q is neither the value printed like a value of its tag (%s) nor the value left out", res.Out, m)
		}
		return fail("output %q: %s", res.Out, m)
	}
	return nil
}

// rejected: a helper whose parameter is template.HTML may refuse a plain string or an HTMLer; then nothing is emitted.
func rejected(r *vk.Run, c Case, res vk.Res) bool {
	if !res.Panicked() && res.Err != nil && c.Sink == "helper with template.HTML parameter" && (c.Tag == "string" || c.Tag == "htmler") {
		r.Class("helper with template.HTML parameter: other type rejected")
		return true
	}
	// a container whose element type is template.HTML may refuse a plain string
	if !res.Panicked() && res.Err != nil && (c.Tag == "string" || c.Tag == "raw") {
		for _, w := range c.Wraps {
			if w == "hsl[0]=E" || w == "mh[w]=E" {
				r.Class("typed container of template.HTML: plain string rejected")
				return true
			}
		}
	}
	return false
}

func weakRoute(c Case) bool {
	return bases[c.Base].weak && wholeTags[c.Sink] == "" || c.Sink == "for over []named string" || c.Sink == "for over []*string"
}

// ---- one template, several executions --------------------------------------------------------------------------
//
// What an execution did for a value says nothing about the next one: the SAME parsed template (and, with the
// template cache on, the same parsed partials) is executed several times while the type and the text of the
// payload change from execution to execution.
type History struct {
	Payload vk.Text  `json:"payload"`
	Sink    string   `json:"sink"`
	Tags    []string `json:"tags"`   // tag of the payload in execution i: string | html | htmler
	Cached  bool     `json:"cached"` // plush.CacheEnabled with plush.Render, else one plush.Template executed repeatedly
}

func checkHistory(r *vk.Run, h History) *vk.Fail {
	defer r.Watch("history", h)()
	fail := func(f string, a ...interface{}) *vk.Fail {
		return &vk.Fail{Kind: "history", Case: h, Msg: fmt.Sprintf("sink %q tags %v cached=%v payload %q: ", h.Sink, h.Tags, h.Cached, string(h.Payload)) + fmt.Sprintf(f, a...)}
	}
	if len(h.Tags) == 0 {
		r.Exclude("not-applicable: empty history")
		return nil
	}
	var tmpl *plush.Template
	src0 := ""
	if h.Cached {
		old := plush.CacheEnabled
		plush.CacheEnabled = true
		defer func() { plush.CacheEnabled = old }()
	}
	for i, tag := range h.Tags {
		p := string(h.Payload)
		if i%2 == 1 {
			p = "<x>&" + p // the text changes as well
		}
		c := Case{Payload: vk.Text(p), Tag: tag, Base: "var", Sink: h.Sink}
		if weakRoute(c) || h.Sink == "built-in debug helper" {
			r.Exclude("not-applicable: judged by the route check")
			return nil
		}
		src, partials, parts, skip := build(c, false)
		if skip != "" || tag == "raw" {
			r.Exclude("not-applicable: " + skip)
			return nil
		}
		if i == 0 {
			src0 = src
		} else if src != src0 {
			r.Exclude("not-applicable: the template of this sink depends on the tag")
			return nil
		}
		data := mkData(p, tag, partials)
		var res vk.Res
		if h.Cached {
			res = vk.Safe(func() (string, error) { return plush.Render(src, plush.NewContextWith(data)) })
		} else {
			if tmpl == nil {
				t, err := plush.NewTemplate(src)
				if err != nil {
					return fail("template %q: %v", src, err)
				}
				tmpl = t
			}
			res = vk.Safe(func() (string, error) { return tmpl.Exec(plush.NewContextWith(data)) })
		}
		nt := ""
		if i > 0 && gen.HasSpecial(p) {
			nt = fmt.Sprintf("%s | %v | %v | %d | %s", h.Sink, h.Tags, h.Cached, i, p)
		}
		r.Count(nt, "history/"+h.Sink)
		if rejected(r, c, res) {
			continue
		}
		if res.Panicked() || res.Err != nil {
			return fail("execution %d (%s) of template %q: %s", i, tag, src, res)
		}
		if m := match.Match(parts, res.Out); m != "" {
			return fail("execution %d (%s, payload %q) of template %q: output %q: %s", i, tag, p, src, res.Out, m)
		}
	}
	return nil
}

const rule = "payload strings (22 fixed hostile payloads, among them quotes only and a 4.3 kB string with specials at the 64 / 256 / 4096 byte marks; random payloads over the five specials, entity and tag look-alikes, quotes, multi-byte, combining and invalid bytes) x type tag {plain string, template.HTML, HTMLer, raw()} x base (context variable, literal double- and back-quoted, struct / pointer / nested / pointer-in-struct / promoted / embedded / interface-typed field, slice and map of structs, map[string]string, map[string]interface{}, []string / []interface{} / [2]string / [][]string / map[string][]string element, slice and map fields, collections whose element type is template.HTML or an HTMLer, helpers returning string / (string, error) / interface{} / HTML / HTMLer / []string / struct, methods, fields and methods of method results, an HTMLer of string kind / by pointer receiver / that is also a Stringer; and 'weak' bases - *string and *template.HTML variable, pointer-typed field, []*string element, helper returning *string, named string type, wrapper with an Interface() method - for which only 'printed like a value of its tag or not at all, never verbatim' is asserted) x up to 4 wraps (\"\"+E, E+\"\", q+E+r, E+1, E+raw(..), E+trusted variable, lit+E+raw(..), [E][0], [x,E][1], [[E]][0][0], {k:E}[\"k\"], {k:{j:E}}[\"k\"][\"j\"], Go helper, typed Go helper, helper options map, variadic helpers, methods with a parameter, user function, user function with if/return, user function returning an array, closure, parentheses, let, assignment, index assignment, hash-entry assignment, stores into containers supplied from Go - []template.HTML, map[string]template.HTML, []string, map[string]string, []interface{}, map[string]interface{}, a []string field - read back afterwards: a plain string may be refused, never trusted; Go helpers called WITH a block whose result is a string / an interface{} / the argument plus the block's text) x sink (top, if, else, else-if, loop variable, loop with key, array emitted whole, array with neighbours, function body, function return, block helper, block helper in if, contentFor+contentOf twice, contentOf data, partial data, partial data with layout, nested partial data, if in for in function, let then block, return inside an emitted if, return inside a loop body; seven 'bare' sinks whose block body is exactly one output tag with no text next to it; loop bodies cut short by continue / break / continue inside an if AFTER the output tag, in slice, map and Iterator loops; map and Iterator loop bodies; array + E, nested arrays, one array emitted several times by one tag, also nested, an array returned by a function emitted whole, loop in loop, function calling function, a function's rendered body held in a variable and emitted twice; one block executed twice by its helper, helper argument handed to the block through BlockWith; one block helper / stored block / partial / function / loop body used several times in ONE execution for trusted and untrusted values in turn, also for the SAME text once as raw(E) and once as E; helper calling Render, partial inside contentFor, block helper inside a partial; a helper whose parameter is template.HTML (a plain string may be rejected, never trusted); plush's own debug() helper, whose argument is text) plus whole-collection sinks ([]string, []interface{} emitted whole; for over []string, []interface{}, [2]string, map[string]string, slice of structs, []template.HTML, []HTMLer, map[string]template.HTML, maps and hash literals whose KEY is the payload, an Iterator, [][]string; collections from a field and from helpers emitted whole; mixed trusted / untrusted collections; weak: []named string, []*string). (E) every base x sink with no wrap, every single wrap x sink from a variable, for all fixed payloads and tags; (N) nests: the output tag (bare or with text) inside up to 4 block constructs nested in any order - if, else, slice / map / Iterator loop, function body, block helper, contentFor+contentOf, contentOf default block, partial - each with or without text next to its content: exhaustive to depth 2, random to depth 4 with random bases and wraps; (H) histories: one parsed template (plush.Template executed repeatedly, and plush.Render with the template cache on, which also re-uses parsed partials) executed 2-5 times while the payload's type and text change, every sink x 3 payloads x 5 tag sequences, and random; (R) random compositions to depth 4. Oracle: entity-decoding matcher over the whole output: plain payloads only entity-encoded and decoding back to the payload, trusted payloads byte-identical, each exactly once. Non-trivial = payload contains a special and the route is not the bare variable at top level; distinct by (route, tag, payload); for histories an execution after the first whose payload contains a special."

func setup(t *testing.T) *vk.Run {
	r := vk.Start(t, "C01", rule,
		"template.HTML + x, fmt.Stringer that is not an HTMLer, and emitting a whole fixed-size array, map, struct or a slice of another element type than string / interface{} are outside the statement",
		"pointers to strings and named string types: the statement does not oblige plush to print them (today: a pointer FIELD is read through, a pointer value and a named string print nothing); asserted is that they print like a string or not at all - never verbatim, because ONLY trusted HTML is emitted verbatim",
		"helpers written for the test return template.HTML of their block; a helper that returns its block as a plain string would be escaped again by design")
	r.Replayer("route", func(raw json.RawMessage) *vk.Fail {
		var c Case
		if f := vk.Decode(raw, &c); f != nil {
			return f
		}
		return check(r, c)
	})
	r.Replayer("history", func(raw json.RawMessage) *vk.Fail {
		var h History
		if f := vk.Decode(raw, &h); f != nil {
			return f
		}
		return checkHistory(r, h)
	})
	return r
}

func TestReplay(t *testing.T) { setup(t).ReplayEnv() }

func sortedNames(n int, each func(add func(string))) []string {
	out := make([]string, 0, n)
	each(func(s string) { out = append(out, s) })
	sort.Strings(out)
	return out
}

// longPayload has a special character at, just before and just after the 64, 256 and 4096 byte marks, and at both ends.
func longPayload() string {
	b := []byte(strings.Repeat("a", 4300))
	for i, at := range []int{0, 63, 64, 65, 255, 256, 257, 4095, 4096, 4097, 4299} {
		b[at] = "<>&'\""[i%5]
	}
	return string(b)
}

func TestProp(t *testing.T) {
	r := setup(t)
	defer r.Finish()
	r.ReplayCommitted()

	baseNames := sortedNames(len(bases), func(add func(string)) {
		for k := range bases {
			add(k)
		}
	})
	wrapNames := sortedNames(len(wraps), func(add func(string)) {
		for k := range wraps {
			add(k)
		}
	})
	tags := []string{"string", "html", "htmler", "raw"}
	payloads := append(append([]string{}, gen.Fixed...), "it's \"q\"", longPayload())
	if r.Quick() {
		payloads = []string{"", "plain", "<b>&'\"</b>", "&amp;", "&lt;b&gt;", "<%= x %>", "é漢é", "\xff<\xc3", "<script>alert('x & \"y\"')</script>", "a\nb\r\nc", "it's \"q\"", longPayload()}
	}
	var cases []Case
	for _, p := range payloads {
		for _, tg := range tags {
			for _, s := range sinks {
				for _, b := range baseNames {
					cases = append(cases, Case{Payload: vk.Text(p), Tag: tg, Base: b, Sink: s})
				}
				for _, w := range wrapNames {
					cases = append(cases, Case{Payload: vk.Text(p), Tag: tg, Base: "var", Wraps: []string{w}, Sink: s})
				}
			}
			for _, s := range wholeSinks {
				cases = append(cases, Case{Payload: vk.Text(p), Tag: tg, Base: "var", Sink: s})
			}
		}
	}
	r.Subspace(fmt.Sprintf("%d payloads x 4 tags x ((%d bases + %d single wraps) x %d sinks + %d whole-collection sinks) (inapplicable combinations counted under excluded)", len(payloads), len(baseNames), len(wrapNames), len(sinks), len(wholeSinks)), int64(len(cases)), true)
	r.Parallel(int64(len(cases)), 0, func(i int64) { r.Check(check(r, cases[i])) })

	// nests: every path of depth 1 and 2 over the 8 constructs (with and without text next to the content) x 2 leaves
	var elems []string
	for _, el := range nestElems {
		elems = append(elems, el, el+"+")
	}
	var paths []string
	for _, a := range elems {
		for _, leaf := range nestLeaves {
			paths = append(paths, "nest:"+a+","+leaf)
			for _, b := range elems {
				paths = append(paths, "nest:"+a+","+b+","+leaf)
			}
		}
	}
	var ncases []Case
	for _, p := range []string{"<b>&'\"</b>", "&lt;b&gt;", ""} {
		for _, tg := range tags {
			for _, s := range paths {
				ncases = append(ncases, Case{Payload: vk.Text(p), Tag: tg, Base: "var", Sink: s})
			}
		}
	}
	r.Subspace(fmt.Sprintf("nests: 3 payloads x 4 tags x %d paths (depth 1 and 2 over %d constructs, each with and without text next to its content, x 2 leaves)", len(paths), len(nestElems)), int64(len(ncases)), true)
	r.Parallel(int64(len(ncases)), 0, func(i int64) { r.Check(check(r, ncases[i])) })

	// histories: sequential, because the template cache is switched by a package variable of plush
	var hist []History
	seqs := [][]string{{"string", "html", "string"}, {"html", "string", "html", "string"}, {"string", "htmler", "string", "html", "string"}, {"htmler", "string"}, {"string", "string"}}
	for _, p := range []string{"<b>&'\"</b>", "&lt;b&gt;", "plain"} {
		for _, s := range append(append([]string{}, sinks...), wholeSinks...) {
			for _, q := range seqs {
				for _, cached := range []bool{false, true} {
					hist = append(hist, History{Payload: vk.Text(p), Sink: s, Tags: q, Cached: cached})
				}
			}
		}
	}
	r.Subspace(fmt.Sprintf("histories: 3 payloads x %d sinks x %d tag sequences x {one Template executed repeatedly, Render with the template cache on}", len(sinks)+len(wholeSinks), len(seqs)), int64(len(hist)), true)
	for i, h := range hist {
		if r.Mine(int64(i)) {
			r.Check(checkHistory(r, h))
		}
	}

	r.Rapid("compositions", r.Pick(8000, 100000), func(t *rapid.T) *vk.Fail {
		c := Case{Payload: vk.Text(gen.Payload(t, "p")), Tag: rapid.SampledFrom(tags).Draw(t, "tag"), Sink: rapid.SampledFrom(sinks).Draw(t, "sink")}
		// pick a base that can carry the tag
		tagKey := map[string]string{"string": "s", "raw": "s", "html": "h", "htmler": "r"}[c.Tag]
		var ok []string
		for _, b := range baseNames {
			if strings.Contains(bases[b].tags, tagKey) {
				ok = append(ok, b)
			}
		}
		c.Base = rapid.SampledFrom(ok).Draw(t, "base")
		var wok []string
		for _, w := range wrapNames {
			if !(wraps[w].strOnly && (c.Tag == "html" || c.Tag == "htmler")) {
				wok = append(wok, w)
			}
		}
		n := rapid.IntRange(0, 4).Draw(t, "depth")
		if bases[c.Base].weak {
			n = 0
		}
		for i := 0; i < n; i++ {
			c.Wraps = append(c.Wraps, rapid.SampledFrom(wok).Draw(t, "wrap"))
		}
		return check(r, c)
	})

	r.Rapid("nests", r.Pick(6000, 60000), func(t *rapid.T) *vk.Fail {
		c := Case{Payload: vk.Text(gen.Payload(t, "p")), Tag: rapid.SampledFrom(tags).Draw(t, "tag")}
		tagKey := map[string]string{"string": "s", "raw": "s", "html": "h", "htmler": "r"}[c.Tag]
		var ok []string
		for _, b := range baseNames {
			if strings.Contains(bases[b].tags, tagKey) && !bases[b].weak {
				ok = append(ok, b)
			}
		}
		c.Base = rapid.SampledFrom(ok).Draw(t, "base")
		if rapid.IntRange(0, 2).Draw(t, "wrapped") == 0 {
			var wok []string
			for _, w := range wrapNames {
				if !(wraps[w].strOnly && (c.Tag == "html" || c.Tag == "htmler")) {
					wok = append(wok, w)
				}
			}
			c.Wraps = []string{rapid.SampledFrom(wok).Draw(t, "wrap")}
		}
		path := "nest:"
		for i, d := 0, rapid.IntRange(1, 4).Draw(t, "depth"); i < d; i++ {
			path += rapid.SampledFrom(elems).Draw(t, "construct") + ","
		}
		c.Sink = path + rapid.SampledFrom(nestLeaves).Draw(t, "leaf")
		return check(r, c)
	})

	r.Rapid("histories", r.Pick(1500, 20000), func(t *rapid.T) *vk.Fail {
		h := History{Payload: vk.Text(gen.Payload(t, "p")), Sink: rapid.SampledFrom(append(append([]string{}, sinks...), wholeSinks...)).Draw(t, "sink"), Cached: rapid.Bool().Draw(t, "cached")}
		n := rapid.IntRange(2, 5).Draw(t, "n")
		for i := 0; i < n; i++ {
			h.Tags = append(h.Tags, rapid.SampledFrom([]string{"string", "html", "htmler"}).Draw(t, "tag"))
		}
		return checkHistory(r, h)
	})
}
