// C01 — string data is always HTML-escaped on output; only trusted HTML is verbatim.
package c01

import (
	"encoding/json"
	"fmt"
	"html/template"
	"strings"
	"testing"

	"verif/internal/gen"
	"verif/internal/match"
	"verif/internal/model"
	"verif/internal/vk"

	plush "github.com/gobuffalo/plush/v5"
	"pgregory.net/rapid"
)

func TestMain(m *testing.M) { vk.Main(m) }

// A case: a payload, how it is typed, where it comes from (base), what it is
// passed through (wraps, innermost first) and where it is emitted (sink).
type Case struct {
	Payload vk.Text  `json:"payload"`
	Tag     string   `json:"tag"` // string | html | htmler | raw
	Base    string   `json:"base"`
	Wraps   []string `json:"wraps"`
	Sink    string   `json:"sink"`
}

type htmler struct{ s string }

func (h htmler) HTML() template.HTML { return template.HTML(h.s) }

type inner struct {
	F  string
	H  template.HTML
	Hr htmler
}
type outer struct {
	F  string
	H  template.HTML
	Hr htmler
	In inner
	P  *inner
}

// bases: expression that yields the payload with its type, given the data
// built by mkData. trusted says for which tags the base is available.
var bases = map[string]struct {
	expr  func(tag string) string
	tags  string // which tags the base can carry: s=string h=html r=htmler
	isLit bool
}{
	"var":               {func(t string) string { return "p" }, "shr", false},
	"literal":           {nil, "s", true},
	"struct field":      {func(t string) string { return "st." + fld(t) }, "shr", false},
	"pointer field":     {func(t string) string { return "pst." + fld(t) }, "shr", false},
	"nested field":      {func(t string) string { return "st.In." + fld(t) }, "shr", false},
	"pointer in field":  {func(t string) string { return "st.P." + fld(t) }, "shr", false},
	"slice of struct":   {func(t string) string { return "sts[1]." + fld(t) }, "shr", false},
	"map[string]string": {func(t string) string { return `ms["k"]` }, "s", false},
	"map[string]any":    {func(t string) string { return `mi["k"]` }, "shr", false},
	"[]string elem":     {func(t string) string { return "ss[1]" }, "s", false},
	"[]any elem":        {func(t string) string { return "si[1]" }, "shr", false},
	"[2]string elem":    {func(t string) string { return "as[1]" }, "s", false},
	"helper->string":    {func(t string) string { return "hs()" }, "s", false},
	"helper->any":       {func(t string) string { return "hi()" }, "shr", false},
	"helper->HTML":      {func(t string) string { return "hh()" }, "h", false},
	"helper->HTMLer":    {func(t string) string { return "hr()" }, "r", false},
	"method":            {func(t string) string { return "st.In.Get" + fld(t) + "()" }, "sh", false},
}

func (i inner) GetF() string        { return i.F }
func (i inner) GetH() template.HTML { return i.H }

func fld(tag string) string {
	switch tag {
	case "html":
		return "H"
	case "htmler":
		return "Hr"
	}
	return "F"
}

// wraps: expression -> expression, value and type preserved unless noted
var wraps = map[string]struct {
	f        func(e string) string
	strOnly  bool   // only defined for plain strings (concatenation)
	pre, suf string // text added around the payload (escaped with it)
}{
	"empty+E": {func(e string) string { return `"" + ` + e }, true, "", ""},
	"E+empty": {func(e string) string { return e + ` + ""` }, true, "", ""},
	"q+E+r":   {func(e string) string { return `"<q>" + ` + e + ` + "&r"` }, true, "<q>", "&r"},
	// a string concatenated with a TRUSTED value is still a string (C06: string + x concatenates the printed form of x)
	"E+raw":      {func(e string) string { return e + ` + raw("<i>&")` }, true, "", "<i>&"},
	"E+htmlvar":  {func(e string) string { return e + ` + trusted` }, true, "", "<em>T</em>"},
	"lit+E+raw":  {func(e string) string { return `"a&" + ` + e + ` + raw("<u>")` }, true, "a&", "<u>"},
	"[E][0]":     {func(e string) string { return "[" + e + "][0]" }, false, "", ""},
	"[x,E][1]":   {func(e string) string { return `["x", ` + e + "][1]" }, false, "", ""},
	`{k:E}["k"]`: {func(e string) string { return "{k: " + e + `}["k"]` }, false, "", ""},
	"id(E)":      {func(e string) string { return "id(" + e + ")" }, false, "", ""},
	"uf(E)":      {func(e string) string { return "uf(" + e + ")" }, false, "", ""},
	"ids(E)":     {func(e string) string { return "ids(" + e + ")" }, true, "", ""}, // Go helper string -> string
	"(E)":        {func(e string) string { return "(" + e + ")" }, false, "", ""},
	"pick(E)":    {func(e string) string { return "pick(" + e + `, "other")` }, false, "", ""}, // user function with if/return
	"let":        {nil, false, "", ""},                                                         // handled by the builder
}

var sinks = []string{
	"top", "in if", "in else", "for loop var", "for over [E] with key", "array emitted whole", "array with neighbours", "fn body", "fn return",
	"block helper", "block helper in if", "contentFor/Of", "contentOf data", "partial data", "partial data + layout", "nested partial data",
	"if in for in fn", "let at top then in block", "return in if", "return in for",
	// blocks whose whole body is exactly ONE output tag (no text next to it)
	"bare in if", "bare in for", "bare fn body", "bare block helper", "bare contentFor/Of", "bare contentOf default block", "bare partial",
}

// sinks for context collections that are emitted without an expression route
var wholeSinks = []string{"[]string emitted whole", "[]any emitted whole", "for over []string", "for over []any", "for over [2]string", "for over map[string]string", "for over sts",
	// ONE output tag emits trusted and untrusted values in turn (what it did for the value before says nothing about this one)
	"for over mixed trust", "mixed trust emitted whole", "fn body called for trusted then string"}

func mkData(p, tag string, partials map[string]string) map[string]interface{} {
	var v interface{} = p
	in := inner{F: p, H: template.HTML(p), Hr: htmler{p}}
	switch tag {
	case "html":
		v = template.HTML(p)
	case "htmler":
		v = htmler{p}
	}
	return map[string]interface{}{
		"trusted": template.HTML("<em>T</em>"),
		"p":       v, "st": outer{F: p, H: template.HTML(p), Hr: htmler{p}, In: in, P: &in}, "pst": &outer{F: p, H: template.HTML(p), Hr: htmler{p}, In: in, P: &in},
		"sts": []outer{{F: "zero"}, {F: p, H: template.HTML(p), Hr: htmler{p}}},
		"ms":  map[string]string{"k": p}, "mi": map[string]interface{}{"k": v},
		"mix": []interface{}{template.HTML("<i>"), p, htmler{"<b>"}, p, template.HTML(p), p},
		"ss":  []string{"s0", p}, "si": []interface{}{"i0", v}, "as": [2]string{"a0", p},
		"hs": func() string { return p }, "hi": func() interface{} { return v },
		"hh": func() template.HTML { return template.HTML(p) }, "hr": func() plush.HTMLer { return htmler{p} },
		"id": func(x interface{}) interface{} { return x }, "ids": func(s string) string { return s },
		"blk": func(h plush.HelperContext) (template.HTML, error) { s, err := h.Block(); return template.HTML(s), err },
		"partialFeeder": func(name string) (string, error) {
			s, ok := partials[name]
			if !ok {
				return "", fmt.Errorf("no partial %s", name)
			}
			return s, nil
		},
	}
}

const prelude = `<% let uf = fn(x) { return x } %><% let pick = fn(x, y) { if (true) { return x } return y } %>`

// build produces the template, the partial texts and the expected parts.
func build(c Case) (src string, partials map[string]string, parts []match.Part, skip string) {
	p := string(c.Payload)
	partials = map[string]string{}
	esc := func(s string) match.Part {
		if c.Tag == "string" {
			return match.E(s)
		}
		return match.R(s)
	}
	var sb strings.Builder
	sb.WriteString(prelude)
	// whole-collection sinks
	for _, ws := range wholeSinks {
		if c.Sink == ws {
			if c.Tag == "raw" {
				return "", nil, nil, "raw() is applied to an expression, not to a collection"
			}
			if c.Tag != "string" && !strings.Contains(ws, "any") && ws != "for over sts" {
				return "", nil, nil, "typed sink needs a plain string"
			}
			if len(c.Wraps) > 0 || c.Base != "var" {
				return "", nil, nil, "whole-collection sink has no route"
			}
			switch ws {
			case "[]string emitted whole":
				sb.WriteString("[<%= ss %>]")
				return sb.String(), partials, []match.Part{match.L("[s0"), match.E(p), match.L("]")}, ""
			case "[]any emitted whole":
				sb.WriteString("[<%= si %>]")
				return sb.String(), partials, []match.Part{match.L("[i0"), esc(p), match.L("]")}, ""
			case "for over []string":
				sb.WriteString("<%= for (x) in ss { %>[<%= x %>]<% } %>")
				return sb.String(), partials, []match.Part{match.L("[s0]["), match.E(p), match.L("]")}, ""
			case "for over []any":
				sb.WriteString("<%= for (x) in si { %>[<%= x %>]<% } %>")
				return sb.String(), partials, []match.Part{match.L("[i0]["), esc(p), match.L("]")}, ""
			case "for over [2]string":
				sb.WriteString("<%= for (x) in as { %>[<%= x %>]<% } %>")
				return sb.String(), partials, []match.Part{match.L("[a0]["), match.E(p), match.L("]")}, ""
			case "for over map[string]string":
				sb.WriteString("<%= for (k, x) in ms { %>[<%= k %>=<%= x %>]<% } %>")
				return sb.String(), partials, []match.Part{match.L("[k="), match.E(p), match.L("]")}, ""
			case "for over mixed trust":
				sb.WriteString("<%= for (x) in mix { %>[<%= x %>]<% } %>")
				return sb.String(), partials, []match.Part{match.L("[<i>]["), match.E(p), match.L("][<b>]["), match.E(p), match.L("]["), match.R(p), match.L("]["), match.E(p), match.L("]")}, ""
			case "mixed trust emitted whole":
				sb.WriteString("[<%= mix %>]")
				return sb.String(), partials, []match.Part{match.L("[<i>"), match.E(p), match.L("<b>"), match.E(p), match.R(p), match.E(p), match.L("]")}, ""
			case "fn body called for trusted then string":
				sb.WriteString("<% let show = fn(x) { %>[<%= x %>]<% } %><%= show(trusted) %><%= show(p) %><%= show(trusted) %><%= show(p) %>")
				return sb.String(), partials, []match.Part{match.L("[<em>T</em>]["), match.E(p), match.L("][<em>T</em>]["), match.E(p), match.L("]")}, ""
			default:
				sb.WriteString("<%= for (o) in sts { %>[<%= o." + fld(c.Tag) + " %>]<% } %>")
				if c.Tag == "string" {
					return sb.String(), partials, []match.Part{match.L("[zero]["), match.E(p), match.L("]")}, ""
				}
				return sb.String(), partials, []match.Part{match.L("[]["), esc(p), match.L("]")}, ""
			}
		}
	}
	b, ok := bases[c.Base]
	if !ok {
		return "", nil, nil, "unknown base"
	}
	tagKey := map[string]string{"string": "s", "raw": "s", "html": "h", "htmler": "r"}[c.Tag]
	if !strings.Contains(b.tags, tagKey) {
		return "", nil, nil, "base cannot carry this tag"
	}
	var e string
	if b.isLit {
		lit, ok := model.QuoteString(p)
		if !ok || strings.ContainsAny(p, "\x00") {
			return "", nil, nil, "payload not expressible as a literal"
		}
		e = lit
	} else {
		e = b.expr(c.Tag)
	}
	pre, suf := "", ""
	nlet := 0
	for _, wn := range c.Wraps {
		w, ok := wraps[wn]
		if !ok {
			return "", nil, nil, "unknown wrap"
		}
		if w.strOnly && (c.Tag == "html" || c.Tag == "htmler") {
			return "", nil, nil, "concatenation is defined for plain strings only"
		}
		if wn == "let" {
			nlet++
			name := fmt.Sprintf("v%d", nlet)
			sb.WriteString("<% let " + name + " = " + e + " %>")
			e = name
			continue
		}
		e = w.f(e)
		pre, suf = w.pre+pre, suf+w.suf
	}
	if c.Tag == "raw" {
		e = "raw(" + e + ")"
	}
	payloadParts := func() []match.Part { return []match.Part{esc(pre + p + suf)} }
	around := func(a string, mid []match.Part, z string) []match.Part {
		return append(append([]match.Part{match.L(a)}, mid...), match.L(z))
	}
	switch c.Sink {
	case "top":
		sb.WriteString("[<%= " + e + " %>]")
		parts = around("[", payloadParts(), "]")
	case "in if":
		sb.WriteString("<%= if (true) { %>[<%= " + e + " %>]<% } %>")
		parts = around("[", payloadParts(), "]")
	case "in else":
		sb.WriteString("<%= if (false) { %>no<% } else { %>[<%= " + e + " %>]<% } %>")
		parts = around("[", payloadParts(), "]")
	case "for loop var":
		sb.WriteString("<%= for (x) in [" + e + "] { %>[<%= x %>]<% } %>")
		parts = around("[", payloadParts(), "]")
	case "for over [E] with key":
		sb.WriteString("<%= for (k, x) in [1, " + e + "] { %>[<%= k %>:<%= x %>]<% } %>")
		parts = around("[0:1][1:", payloadParts(), "]")
	case "array emitted whole":
		sb.WriteString("[<%= [" + e + "] %>]")
		parts = around("[", payloadParts(), "]")
	case "array with neighbours":
		sb.WriteString("[<%= [\"<a>\", " + e + ", 7] %>]")
		parts = append(append([]match.Part{match.L("["), match.E("<a>")}, payloadParts()...), match.L("7]"))
	case "fn body":
		sb.WriteString("<% let show = fn(x) { %>[<%= x %>]<% } %><%= show(" + e + ") %>")
		parts = around("[", payloadParts(), "]")
	case "fn return":
		sb.WriteString("<% let give = fn(x) { if (x) { return x } return \"\" } %>[<%= give(" + e + ") %>]")
		parts = around("[", payloadParts(), "]")
	case "block helper":
		sb.WriteString("<%= blk() { %>[<%= " + e + " %>]<% } %>")
		parts = around("[", payloadParts(), "]")
	case "block helper in if":
		sb.WriteString("<%= if (true) { %><%= blk() { %>[<%= " + e + " %>]<% } %><% } %>")
		parts = around("[", payloadParts(), "]")
	case "contentFor/Of":
		sb.WriteString("<% contentFor(\"c\") { %>[<%= " + e + " %>]<% } %>|<%= contentOf(\"c\") %>|<%= contentOf(\"c\") %>")
		parts = append(around("|[", payloadParts(), "]"), around("|[", payloadParts(), "]")...)
	case "contentOf data":
		sb.WriteString("<% contentFor(\"c\") { %>[<%= d %>]<% } %><%= contentOf(\"c\", {d: " + e + "}) %>")
		parts = around("[", payloadParts(), "]")
	case "partial data":
		partials["part"] = "[<%= d %>]"
		sb.WriteString("<%= partial(\"part\", {d: " + e + "}) %>")
		parts = around("[", payloadParts(), "]")
	case "partial data + layout":
		partials["part"] = "[<%= d %>]"
		partials["lay"] = "(<%= yield %>)"
		sb.WriteString("<%= partial(\"part\", {d: " + e + ", layout: \"lay\"}) %>")
		parts = around("([", payloadParts(), "])")
	case "nested partial data":
		partials["part"] = "[<%= d %>]"
		partials["outerp"] = "{<%= partial(\"part\", {d: dd}) %>}"
		sb.WriteString("<%= partial(\"outerp\", {dd: " + e + "}) %>")
		parts = around("{[", payloadParts(), "]}")
	case "if in for in fn":
		sb.WriteString("<% let deep = fn(x) { %><%= for (i) in [1, 2] { %><%= if (i == 2) { %>[<%= x %>]<% } %><% } %><% } %><%= deep(" + e + ") %>")
		parts = around("[", payloadParts(), "]")
	case "return in if":
		sb.WriteString("[<%= if (true) { return " + e + " } %>]")
		parts = around("[", payloadParts(), "]")
	case "return in for":
		sb.WriteString("<%= for (x) in [" + e + "] { return x } %>|<%= for (x) in [1, 2] { %>[<% return " + e + " %>]<% } %>")
		parts = append(append(payloadParts(), match.L("|[")), append(payloadParts(), append([]match.Part{match.L("[")}, payloadParts()...)...)...)
	case "bare in if":
		sb.WriteString("[<%= if (true) { %><%= " + e + " %><% } %>]")
		parts = around("[", payloadParts(), "]")
	case "bare in for":
		sb.WriteString("[<%= for (x) in [" + e + "] { %><%= x %><% } %>]")
		parts = around("[", payloadParts(), "]")
	case "bare fn body":
		sb.WriteString("<% let show = fn(x) { %><%= x %><% } %>[<%= show(" + e + ") %>]")
		parts = around("[", payloadParts(), "]")
	case "bare block helper":
		sb.WriteString("[<%= blk() { %><%= " + e + " %><% } %>]")
		parts = around("[", payloadParts(), "]")
	case "bare contentFor/Of":
		sb.WriteString("<% contentFor(\"c\") { %><%= " + e + " %><% } %>[<%= contentOf(\"c\") %>]")
		parts = around("[", payloadParts(), "]")
	case "bare contentOf default block":
		sb.WriteString("[<%= contentOf(\"undefined-name\") { %><%= " + e + " %><% } %>]")
		parts = around("[", payloadParts(), "]")
	case "bare partial":
		partials["part"] = "<%= d %>"
		sb.WriteString("[<%= partial(\"part\", {d: " + e + "}) %>]")
		parts = around("[", payloadParts(), "]")
	case "let at top then in block":
		sb.WriteString("<% let held = " + e + " %><%= blk() { %><%= if (held) { %>[<%= held %>]<% } %><% } %>")
		if p == "" && pre == "" && suf == "" && c.Tag != "htmler" { // an empty string / empty HTML is falsy, an HTMLer struct is not
			parts = nil
		} else {
			parts = around("[", payloadParts(), "]")
		}
	default:
		return "", nil, nil, "unknown sink"
	}
	return sb.String(), partials, parts, ""
}

func check(r *vk.Run, c Case) *vk.Fail {
	defer r.Watch("route", c)()
	src, partials, parts, skip := build(c)
	if skip != "" {
		r.Exclude("not-applicable: " + skip)
		return nil
	}
	p := string(c.Payload)
	if p == "" && c.Base == "var" {
		// an empty string / nil is an unset name: keep the variable truthy-independent
	}
	data := mkData(p, c.Tag, partials)
	res := vk.Safe(func() (string, error) { return plush.Render(src, plush.NewContextWith(data)) })
	route := c.Base + " | " + strings.Join(c.Wraps, " > ") + " | " + c.Sink + " | " + c.Tag
	nt := ""
	if (gen.HasSpecial(p) || strings.Contains(p, "&")) && (len(c.Wraps) > 0 || c.Sink != "top" || c.Base != "var") {
		nt = route + " | " + p
	}
	r.Count(nt, "sink/"+c.Sink)
	r.Class("tag/" + c.Tag)
	r.Class("base/" + c.Base)
	if nt != "" {
		r.Sample(func() interface{} {
			return map[string]interface{}{"route": route, "payload": c.Payload, "template": vk.Text(src), "expected": match.Describe(parts)}
		})
	}
	fail := func(f string, a ...interface{}) *vk.Fail {
		return &vk.Fail{Kind: "route", Case: c, Msg: fmt.Sprintf("route [%s] payload %q: template %q: ", route, p, src) + fmt.Sprintf(f, a...)}
	}
	if res.Panicked() || res.Err != nil {
		return fail("%s", res)
	}
	if m := match.Match(parts, res.Out); m != "" {
		return fail("output %q: %s", res.Out, m)
	}
	return nil
}

const rule = "payload strings (20 fixed hostile payloads; random payloads over the five specials, entity and tag look-alikes, quotes, multi-byte, combining and invalid bytes) x type tag {plain string, template.HTML, HTMLer, raw()} x base (context variable, literal, struct / pointer / nested / pointer-in-struct field, slice of structs, map[string]string, map[string]interface{}, []string / []interface{} / [2]string element, helpers returning string / interface{} / HTML / HTMLer, method) x up to 4 wraps (\"\"+E, E+\"\", q+E+r, E+raw(..), E+trusted variable, lit+E+raw(..), [E][0], [x,E][1], {k:E}[\"k\"], Go helper, user function, user function with if/return, parentheses, let) x sink (top, if, else, loop variable, loop with key, array emitted whole, array with neighbours, function body, function return, block helper, block helper in if, contentFor+contentOf twice, contentOf data, partial data, partial data with layout, nested partial data, if in for in function, let then block, return inside an emitted if, return inside a loop body, and seven 'bare' sinks whose block body is exactly one output tag with no text next to it: if, for, function body, block helper, contentFor/contentOf, contentOf default block, partial) plus whole-collection sinks ([]string, []interface{} emitted whole; for over []string, []interface{}, [2]string, map[string]string, slice of structs). (E) every base x sink with no wrap, every single wrap x sink from a variable, for all fixed payloads and tags; (R) random compositions to depth 4. Oracle: entity-decoding matcher over the whole output: plain payloads only entity-encoded and decoding back to the payload, trusted payloads byte-identical, each exactly once. Non-trivial = payload contains a special and the route is not the bare variable at top level; distinct by (route, tag, payload)."

func setup(t *testing.T) *vk.Run {
	r := vk.Start(t, "C01", rule,
		"template.HTML + x, fmt.Stringer and named string types, and emitting a whole fixed-size array, map or struct are outside the statement",
		"helpers written for the test return template.HTML of their block; a helper that returns its block as a plain string would be escaped again by design")
	r.Replayer("route", func(raw json.RawMessage) *vk.Fail {
		var c Case
		if f := vk.Decode(raw, &c); f != nil {
			return f
		}
		return check(r, c)
	})
	return r
}

func TestReplay(t *testing.T) { setup(t).ReplayEnv() }

func sortedKeys(m interface{}) []string {
	var out []string
	switch t := m.(type) {
	case map[string]struct {
		expr  func(tag string) string
		tags  string
		isLit bool
	}:
		for k := range t {
			out = append(out, k)
		}
	case map[string]struct {
		f        func(e string) string
		strOnly  bool
		pre, suf string
	}:
		for k := range t {
			out = append(out, k)
		}
	}
	for i := 1; i < len(out); i++ {
		for j := i; j > 0 && out[j-1] > out[j]; j-- {
			out[j-1], out[j] = out[j], out[j-1]
		}
	}
	return out
}

func TestProp(t *testing.T) {
	r := setup(t)
	defer r.Finish()
	r.ReplayCommitted()

	baseNames, wrapNames := sortedKeys(bases), sortedKeys(wraps)
	tags := []string{"string", "html", "htmler", "raw"}
	payloads := gen.Fixed
	if r.Quick() {
		payloads = []string{"", "plain", "<b>&'\"</b>", "&amp;", "&lt;b&gt;", "<%= x %>", "é漢é", "\xff<\xc3", "<script>alert('x & \"y\"')</script>", "a\nb\r\nc"}
	}
	var cases []Case
	for _, p := range payloads {
		for _, tg := range tags {
			for _, s := range sinks {
				for _, b := range baseNames {
					cases = append(cases, Case{Payload: vk.Text(p), Tag: tg, Base: b, Sink: s})
				}
				for _, w := range wrapNames {
					cases = append(cases, Case{Payload: vk.Text(p), Tag: tg, Base: "var", Wraps: []string{w}, Sink: s})
				}
			}
			for _, s := range wholeSinks {
				cases = append(cases, Case{Payload: vk.Text(p), Tag: tg, Base: "var", Sink: s})
			}
		}
	}
	r.Subspace(fmt.Sprintf("%d payloads x 4 tags x (17 bases + 15 single wraps) x 27 sinks + 7 whole-collection sinks (inapplicable combinations counted under excluded)", len(payloads)), int64(len(cases)), true)
	r.Parallel(int64(len(cases)), 0, func(i int64) { r.Check(check(r, cases[i])) })

	r.Rapid("compositions", r.Pick(8000, 100000), func(t *rapid.T) *vk.Fail {
		c := Case{Payload: vk.Text(gen.Payload(t, "p")), Tag: rapid.SampledFrom(tags).Draw(t, "tag"), Sink: rapid.SampledFrom(sinks).Draw(t, "sink")}
		// pick a base that can carry the tag
		tagKey := map[string]string{"string": "s", "raw": "s", "html": "h", "htmler": "r"}[c.Tag]
		var ok []string
		for _, b := range baseNames {
			if strings.Contains(bases[b].tags, tagKey) {
				ok = append(ok, b)
			}
		}
		c.Base = rapid.SampledFrom(ok).Draw(t, "base")
		var wok []string
		for _, w := range wrapNames {
			if !(wraps[w].strOnly && (c.Tag == "html" || c.Tag == "htmler")) {
				wok = append(wok, w)
			}
		}
		n := rapid.IntRange(0, 4).Draw(t, "depth")
		for i := 0; i < n; i++ {
			c.Wraps = append(c.Wraps, rapid.SampledFrom(wok).Draw(t, "wrap"))
		}
		return check(r, c)
	})
}
