// C04 — evaluation is total: runtime type/arity/index faults are errors, never panics.
package c04

import (
	"bufio"
	"bytes"
	"context"
	"database/sql"
	"encoding/json"
	"errors"
	"fmt"
	"html/template"
	"io"
	"math"
	"math/big"
	"os"
	"os/exec"
	"reflect"
	"regexp"
	"runtime"
	"runtime/debug"
	"sort"
	"strconv"
	"strings"
	"sync"
	"sync/atomic"
	"syscall"
	"testing"
	"time"
	"unsafe"

	"verif/internal/vk"

	plush "github.com/gobuffalo/plush/v5"
	"github.com/gobuffalo/plush/v5/helpers/hctx"
	"github.com/gobuffalo/plush/v5/helpers/helptest"
	"pgregory.net/rapid"
)

func TestMain(m *testing.M) { vk.Main(m) }

// knownOpen lists the panic root causes that are triaged as genuine defects of plush and still open
// (all reproduce with plain plush.Render outside this harness). A key is "<innermost plush function>@<file>:
// <normalised panic message>", i.e. a Class without its leading "<matrix>/" (a full class name is accepted
// too). A failing cell whose class is listed is counted with r.Exclude(<key>) instead of being reported, so
// the matrices and the random phase keep exploring past it; every other panic is a VIOLATION (one per root
// cause, with the smallest witness). Delete lines (or empty the table) as the defects get fixed in /repo.
// Keys carry no line numbers, so they survive unrelated edits of the file; the NOTE line printed for every
// class at the end of a run lists the exact file:line sites seen. While a key is listed, another bug that
// panics in the same function with the same message is hidden (for "reflect: index out of range" the key
// additionally says whether the cell had a negative/extreme operand, so a lost upper-bound check still shows).
var knownOpen = map[string]bool{
	// (the 27 root causes found when this check was first run, and AF-29..32, were fixed in /repo)

	// (cyclic values AF-38, foreign contexts AF-37 and panicking print methods AF-39, found by widening the pool, were
	// fixed in /repo as well)
}

// ---- the value pool -----------------------------------------------------------------------------------

type S struct {
	F      string
	N      int
	P      *S
	Fn     func(int) int
	L      []int
	M      map[string]int
	Any    interface{}
	T      *time.Time
	hidden int
}

func (s S) Hello() string         { return "hi " + s.F }
func (s S) Add(a int) int         { return s.N + a }
func (s S) Var(xs ...int) int     { return len(xs) }
func (s S) Fail() (string, error) { return "", errors.New("S.Fail says no") }
func (s S) Blk(h plush.HelperContext) (template.HTML, error) {
	if !h.HasBlock() {
		return "noblock", nil
	}
	b, err := h.Block()
	return template.HTML(b), err
}
func (s *S) PHello() string { // nil-safe: a panic can not be this method's fault
	if s == nil {
		return "nil S"
	}
	return "p " + s.F
}

type Str struct{ V string }

func (s Str) String() string { return "Str(" + s.V + ")" }

type Hr struct{ V string }

func (h Hr) HTML() template.HTML { return template.HTML("<i>" + h.V + "</i>") }

type Ifc struct{}

func (Ifc) Interface() interface{} { return 5 }

// iterT is a finite iterator; Next is nil-safe.
type iterT struct {
	items []interface{}
	n     int
}

func (i *iterT) Next() interface{} {
	if i == nil || i.n >= len(i.items) {
		return nil
	}
	v := i.items[i.n]
	i.n++
	return v
}

type (
	EmbV struct {
		S
		Tag string
	} // value embedding
	MyInt   int
	MyStr   string
	MySlice []int
	MyMap   map[string]int
	Holder  struct {
		Any interface{}
		Err error
		St  fmt.Stringer
	}
	// Unh is a comparable TYPE whose values need not be hashable: the interface field can hold a slice
	Unh struct{ I interface{} }
)

// Emb embeds *S: S's fields (F, N, P, ...) and methods (Hello, Add, ...) are promoted.
type Emb struct {
	*S
	Tag string
}

// ---- further shapes of ordinary Go data (widePool) ----

type Namer interface{ Name() string }

type namerT struct{ n string }

func (n namerT) Name() string { return n.n }

// EmbIface embeds an interface: Name is promoted; with a nil Namer the promoted method can only be reached
// through a call expression (reflect.Value.Call, recovered by the engine), never by emitting the value.
type EmbIface struct {
	Namer
	Tag string
}

type inner struct {
	X    int
	y    int
	Deep *S
}

func (i inner) InnerM() string { return "im" }

type (
	OuterV struct {
		inner
		Z int
	} // embeds an unexported struct by value
	OuterP struct {
		*inner
		Z int
	} // embeds a pointer to an unexported struct (nil or not)
	Hid struct {
		f   func() string
		m   map[string]int
		p   *S
		i   interface{}
		s   []int
		Pub int
	}
	MyFn     func(int) int
	FnHolder struct {
		F0   func() string
		F1   func(int) int
		FNil func() string
		FV   func(...int) int
		M    MyFn
		Any  interface{}
	}
	Arrs struct {
		A  [2]int
		PA *[2]int
		AA [2][2]int
		IA [2]interface{}
	}
	Node struct {
		Next *Node
		V    int
		Kids []*Node
		Up   map[string]*Node
	}
	KeyS struct {
		A [2]int
		B string
	}
	IterFn func() interface{}
	Tree   struct {
		V    int
		Kids []Tree
	}
	Rec struct{ ID interface{} }
)

// Values whose OWN method panics when the engine prints them: a String / HTML method promoted through an embedded
// pointer or interface that is nil (compiler-generated, like the pointer wrapper of a value method), and
// reflect.Value.Interface on the zero Value. fmt, text/template and html/template print all of them without
// panicking; plush's output tag calls the method unprotected. Whether that is the engine's defect or the
// application's is a judgement call (see suspectPool), so they are not part of the pool by default.
type (
	EmbStringerNil struct{ fmt.Stringer }
	EmbPStr        struct{ *Str }
	EmbPHr         struct{ *Hr }
)

// Pr implements ast.Printable (the engine prints such a value with the HTML escaper); IfcSelf's Interface()
// returns the value itself, IfcChain's a value one step shorter.
type (
	Pr       struct{ V interface{} }
	IfcSelf  struct{}
	IfcChain struct{ N int }
	StrHTML  struct{} // both a Stringer and an HTMLer
)

// AllKinds has an exported field of every kind, Meths methods of every shape (all total).
type AllKinds struct {
	KBool    bool
	KInt8    int8
	KUint64  uint64
	KUintptr uintptr
	KFloat32 float32
	KCplx    complex128
	KStr     string
	KPInt    *int
	KPPS     **S
	KPNil    *S
	KIface   interface{}
	KIfaceP  interface{}
	KErr     error
	KStrnger fmt.Stringer
	KSlice   []interface{}
	KNilSl   []string
	KArr     [2]*S
	KMap     map[interface{}]interface{}
	KNilMap  map[string]int
	KChan    chan int
	KFunc    func(...interface{}) (int, error)
	KNilFunc func()
	KUnsafe  unsafe.Pointer
	KTime    time.Time
	KPTime   *time.Time
	KDur     time.Duration
	KRV      reflect.Value
	KAnon    struct{ In *S }
	KIter    plush.Iterator
	KHTML    template.HTML
}

type Meths struct{ N int }

func (m Meths) None()                             {}
func (m Meths) Three() (int, string, error)       { return m.N, "s", nil }
func (m Meths) TwoNoErr() (int, int)              { return 1, 2 }
func (m Meths) ErrOnly() error                    { return nil }
func (m Meths) Iface(v interface{}) interface{}   { return v }
func (m Meths) Vari(a int, xs ...interface{}) int { return a + len(xs) }
func (m Meths) Opt(o map[string]interface{}) int  { return len(o) }
func (m Meths) Help(h plush.HelperContext) bool   { return h.HasBlock() }
func (m Meths) OptHelp(s string, o hctx.Map, h hctx.HelperContext) string {
	return fmt.Sprint(s, len(o), h.HasBlock())
}
func (m Meths) Self() Meths          { return m }
func (m Meths) PSelf() *Meths        { return &m }
func (m Meths) NilP() *Meths         { return nil }
func (m Meths) FnRet() func(int) int { return func(i int) int { return i + m.N } }
func (m Meths) Iter() plush.Iterator { return &iterT{items: []interface{}{1, 2}} }
func (m Meths) N2() int              { return m.N }
func (m *Meths) PtrRecv(i int) int { // nil-safe
	if m == nil {
		return i
	}
	return m.N + i
}

// MyErr: a pointer type implementing error; a nil *MyErr returned as error is a non-nil error value
type MyErr struct{ msg string }

func (e *MyErr) Error() string { // nil-safe
	if e == nil {
		return "nil *MyErr"
	}
	return e.msg
}

func (Pr) Printable() bool               { return true }
func (s IfcSelf) Interface() interface{} { return s }
func (c IfcChain) Interface() interface{} {
	if c.N <= 0 {
		return "end"
	}
	return IfcChain{c.N - 1}
}
func (StrHTML) String() string      { return "<s>" }
func (StrHTML) HTML() template.HTML { return "<h>" }

func (f MyFn) Twice(i int) int { // nil-safe
	if f == nil {
		return i
	}
	return f(f(i))
}

func (f IterFn) Next() interface{} { // nil-safe
	if f == nil {
		return nil
	}
	return f()
}

func newNode(n int) *Node {
	var head *Node
	for i := 0; i < n; i++ {
		head = &Node{Next: head, V: i}
	}
	return head
}

func deepSlice(n int) interface{} {
	var v interface{} = "bottom"
	for i := 0; i < n; i++ {
		v = []interface{}{v}
	}
	return v
}

func deepMap(n int) interface{} {
	var v interface{} = "bottom"
	for i := 0; i < n; i++ {
		v = map[string]interface{}{"a": v}
	}
	return v
}

func newS() S {
	return S{F: "eff", N: 7, Fn: func(a int) int { return a + 1 }, L: []int{4, 5}, M: map[string]int{"k": 1}, Any: "any", hidden: 1}
}

// pv is one named pool value. A case refers to pool values by Name only; Mk builds the value afresh for
// every render (nil Mk: nothing is bound - literals, the nil literal, the unknown identifier), Prelude is
// template text that defines the value (template-defined functions).
type pv struct {
	Name    string
	Spell   string // spelling inside a template (default: Name)
	Mk      func() interface{}
	Prelude string
	Kind    string // int, float, string, bool, nil, nilptr, slice, array, map, struct, ptr, func, iter, html, time, ufn, ...
	Key     string // maps: kind of the key
	Odd     bool   // nil / typed nil / negative / extreme / unknown: non-trivial whatever the operation
	Wide    bool   // one of the further shapes of widePool: paired with a core subset only where a full square is too large
	Heavy   bool   // costly to build (depth 2000): not bound in the native fuzz target
	Fatal   bool   // contains itself: a naive traversal ends in a fatal stack overflow, so cases that mention it run in a child process
}

func (p *pv) spell() string {
	if p.Spell != "" {
		return p.Spell
	}
	return p.Name
}

func feeder(name string) (string, error) {
	if name == "abc" || name == "p" {
		return `[partial <%= 1 + 1 %>]`, nil
	}
	switch name {
	case "selfp": // includes itself without end
		return `x<%= partial("selfp") %>`, nil
	case "pinga":
		return `a<%= partial("pingb") %>`, nil
	case "pingb":
		return `b<%= partial("pinga") %>`, nil
	case "selflay": // its layout is itself
		return `l<%= partial("p", {layout: "selflay"}) %>`, nil
	case "countp": // finite: includes itself while n < 60
		return `[<%= n %>]<%= if (n < 60) { %><%= partial("countp", {n: n + 1}) %><% } %>`, nil
	}
	return "", fmt.Errorf("no partial named %q", name)
}

var pool = []*pv{
	// numbers of every width
	{Name: "int", Kind: "int", Mk: func() interface{} { return 1 }},
	{Name: "int0", Kind: "int", Mk: func() interface{} { return 0 }},
	{Name: "intneg", Kind: "int", Odd: true, Mk: func() interface{} { return -1 }},
	{Name: "intmax", Kind: "int", Odd: true, Mk: func() interface{} { return math.MaxInt }},
	{Name: "intmin", Kind: "int", Odd: true, Mk: func() interface{} { return math.MinInt }},
	{Name: "int8", Kind: "int8", Mk: func() interface{} { return int8(2) }},
	{Name: "int16", Kind: "int16", Mk: func() interface{} { return int16(2) }},
	{Name: "int32", Kind: "int32", Mk: func() interface{} { return int32(2) }},
	{Name: "int64", Kind: "int64", Mk: func() interface{} { return int64(2) }},
	{Name: "int64neg", Kind: "int64", Odd: true, Mk: func() interface{} { return int64(-2) }},
	{Name: "uint", Kind: "uint", Mk: func() interface{} { return uint(2) }},
	{Name: "uint8", Kind: "uint8", Mk: func() interface{} { return uint8(2) }},
	{Name: "uint16", Kind: "uint16", Mk: func() interface{} { return uint16(2) }},
	{Name: "uint32", Kind: "uint32", Mk: func() interface{} { return uint32(2) }},
	{Name: "uint64", Kind: "uint64", Odd: true, Mk: func() interface{} { return uint64(math.MaxUint64) }},
	{Name: "float32", Kind: "float32", Mk: func() interface{} { return float32(1.5) }},
	{Name: "float64", Kind: "float", Mk: func() interface{} { return 2.5 }},
	{Name: "floatneg", Kind: "float", Odd: true, Mk: func() interface{} { return -0.5 }},
	{Name: "nan", Kind: "float", Odd: true, Mk: func() interface{} { return math.NaN() }},
	// strings, bools
	{Name: "strempty", Kind: "string", Mk: func() interface{} { return "" }},
	{Name: "str", Kind: "string", Mk: func() interface{} { return "abc" }},
	{Name: "strnum", Kind: "string", Mk: func() interface{} { return "1" }},
	{Name: "strre", Kind: "string", Odd: true, Mk: func() interface{} { return "a(" }}, // not a regular expression
	{Name: "strlong", Kind: "string", Mk: func() interface{} { return strings.Repeat("héllo wörld ", 6) }},
	{Name: "btrue", Kind: "bool", Mk: func() interface{} { return true }},
	{Name: "bfalse", Kind: "bool", Mk: func() interface{} { return false }},
	{Name: "html", Kind: "html", Mk: func() interface{} { return template.HTML("<b>x</b>") }},
	{Name: "htmler", Kind: "struct", Mk: func() interface{} { return Hr{"h"} }},
	{Name: "stringer", Kind: "struct", Mk: func() interface{} { return Str{"s"} }},
	{Name: "ifaceable", Kind: "struct", Mk: func() interface{} { return Ifc{} }},
	// nil, unknown identifier, typed nils
	{Name: "nil", Kind: "nil", Odd: true},
	{Name: "unk", Kind: "nil", Odd: true}, // never bound: the unknown identifier
	{Name: "nilpS", Kind: "nilptr", Odd: true, Mk: func() interface{} { return (*S)(nil) }},
	{Name: "nilpslice", Kind: "nilptr", Odd: true, Mk: func() interface{} { return (*[]int)(nil) }},
	{Name: "nilptime", Kind: "nilptr", Odd: true, Mk: func() interface{} { return (*time.Time)(nil) }},
	{Name: "nilpstringer", Kind: "nilptr", Odd: true, Mk: func() interface{} { return (*Str)(nil) }},
	{Name: "nilslice", Kind: "slice", Odd: true, Mk: func() interface{} { return []int(nil) }},
	{Name: "nilmap", Kind: "map", Key: "string", Odd: true, Mk: func() interface{} { return map[string]int(nil) }},
	{Name: "nilfunc", Kind: "func", Odd: true, Mk: func() interface{} { return (func() string)(nil) }},
	{Name: "niliter", Kind: "iter", Odd: true, Mk: func() interface{} { return (*iterT)(nil) }},
	// slices, arrays
	{Name: "ints", Kind: "slice", Mk: func() interface{} { return []int{1, 2, 3} }},
	{Name: "strs", Kind: "slice", Mk: func() interface{} { return []string{"a", "b"} }},
	{Name: "anys", Kind: "slice", Mk: func() interface{} { return []interface{}{1, nil, "x", (*S)(nil)} }},
	{Name: "emptyints", Kind: "slice", Mk: func() interface{} { return []int{} }},
	{Name: "bytes", Kind: "slice", Mk: func() interface{} { return []byte("xy") }},
	{Name: "structs", Kind: "slice", Mk: func() interface{} { return []S{newS(), {}} }},
	{Name: "pstructs", Kind: "slice", Mk: func() interface{} { s := newS(); return []*S{&s, nil} }},
	{Name: "pints", Kind: "ptr", Mk: func() interface{} { return &[]int{1, 2, 3} }},
	{Name: "arr", Kind: "array", Mk: func() interface{} { return [3]int{1, 2, 3} }},
	{Name: "arr0", Kind: "array", Mk: func() interface{} { return [0]string{} }},
	{Name: "parr", Kind: "ptr", Mk: func() interface{} { return &[3]int{1, 2, 3} }},
	// maps with string / int / interface{} / other keys
	{Name: "msi", Kind: "map", Key: "string", Mk: func() interface{} { return map[string]int{"a": 1, "abc": 2} }},
	{Name: "msa", Kind: "map", Key: "string", Mk: func() interface{} {
		return map[string]interface{}{"a": 1, "abc": nil, "size": "big", "trail": 3, "layout": 4}
	}},
	{Name: "mis", Kind: "map", Key: "int", Mk: func() interface{} { return map[int]string{1: "one", 0: "zero"} }},
	{Name: "maa", Kind: "map", Key: "any", Mk: func() interface{} { return map[interface{}]interface{}{"a": 1, 1: "one", true: nil} }},
	{Name: "msS", Kind: "map", Key: "string", Mk: func() interface{} { return map[string]S{"a": newS(), "abc": {}} }},
	{Name: "mfs", Kind: "map", Key: "float", Mk: func() interface{} { return map[float64]string{2.5: "x"} }},
	{Name: "pmsi", Kind: "ptr", Mk: func() interface{} { return &map[string]int{"a": 1} }},
	// structs, pointers
	{Name: "sval", Kind: "struct", Mk: func() interface{} { return newS() }},
	// more shapes of ordinary Go data: value embedding, named types, pointer to pointer, interface fields holding
	// typed nils, struct-keyed and pointer-keyed maps, byte slices, nested collections, channels, complex numbers
	{Name: "embval", Kind: "struct", Mk: func() interface{} { return EmbV{S: newS(), Tag: "t"} }},
	{Name: "myint", Kind: "int", Odd: true, Mk: func() interface{} { return MyInt(3) }},
	{Name: "mystr", Kind: "string", Odd: true, Mk: func() interface{} { return MyStr("ms") }},
	{Name: "myslice", Kind: "slice", Odd: true, Mk: func() interface{} { return MySlice{1, 2} }},
	{Name: "mymap", Kind: "map", Key: "string", Odd: true, Mk: func() interface{} { return MyMap{"a": 1} }},
	{Name: "myints", Kind: "slice", Odd: true, Mk: func() interface{} { return []MyInt{1, 2} }},
	{Name: "ppS2", Kind: "ptr", Odd: true, Mk: func() interface{} { s := newS(); p := &s; return &p }},
	{Name: "ifacenil", Kind: "struct", Odd: true, Mk: func() interface{} { return Holder{Any: (*S)(nil), Err: nil, St: (*Str)(nil)} }},
	{Name: "mstructkey", Kind: "map", Key: "struct", Odd: true, Mk: func() interface{} { return map[Str]int{{V: "k"}: 1} }},
	{Name: "mptrkey", Kind: "map", Key: "ptr", Odd: true, Mk: func() interface{} { k := &S{}; return map[*S]int{k: 1} }},
	{Name: "mboolkey", Kind: "map", Key: "bool", Odd: true, Mk: func() interface{} { return map[bool]string{true: "t"} }},
	{Name: "mfloatkey", Kind: "map", Key: "float", Odd: true, Mk: func() interface{} { return map[float64]string{1.5: "f"} }},
	{Name: "bytesl", Kind: "slice", Odd: true, Mk: func() interface{} { return []byte("ab") }},
	{Name: "nested", Kind: "slice", Mk: func() interface{} { return [][]int{{1}, {}, nil} }},
	{Name: "mapofslices", Kind: "map", Key: "string", Mk: func() interface{} { return map[string][]string{"a": {"x"}, "n": nil} }},
	{Name: "sliceofmaps", Kind: "slice", Mk: func() interface{} { return []map[string]interface{}{{"a": 1}, nil} }},
	{Name: "arrofptr", Kind: "array", Odd: true, Mk: func() interface{} { return [2]*S{nil, {F: "x"}} }},
	{Name: "chanint", Kind: "chan", Odd: true, Mk: func() interface{} { return make(chan int, 1) }},
	{Name: "cplx", Kind: "complex", Odd: true, Mk: func() interface{} { return complex(1, 2) }},
	{Name: "errval", Kind: "struct", Odd: true, Mk: func() interface{} { return errors.New("an error value") }},
	{Name: "rune", Kind: "int32", Mk: func() interface{} { return 'x' }},
	// slices of a non-empty interface type, keys that are comparable by type but not by value, a NaN map key
	{Name: "errs", Kind: "slice", Odd: true, Mk: func() interface{} { return []error{errors.New("e0"), nil} }},
	{Name: "stringers", Kind: "slice", Odd: true, Mk: func() interface{} { return []fmt.Stringer{Str{V: "s0"}} }},
	{Name: "unhash", Kind: "struct", Odd: true, Mk: func() interface{} { return Unh{I: []int{1}} }},
	{Name: "hashable", Kind: "struct", Odd: true, Mk: func() interface{} { return Unh{I: 1} }},
	{Name: "munhkey", Kind: "map", Key: "struct", Odd: true, Mk: func() interface{} { return map[Unh]string{{I: 1}: "one"} }},
	{Name: "manykey", Kind: "map", Key: "any", Odd: true, Mk: func() interface{} { return map[interface{}]string{1: "i", "s": "s", Unh{I: 1}: "u"} }},
	{Name: "mnankey", Kind: "map", Key: "float", Odd: true, Mk: func() interface{} { return map[float64]string{math.NaN(): "nan", 1: "one"} }},
	{Name: "merrval", Kind: "map", Key: "string", Odd: true, Mk: func() interface{} { return map[string]error{"a": errors.New("e")} }},
	// structs that EMBED a pointer: fields and methods are promoted through it, also when it is nil
	{Name: "embnil", Kind: "struct", Odd: true, Mk: func() interface{} { return Emb{Tag: "t"} }},
	{Name: "pembnil", Kind: "ptr", Odd: true, Mk: func() interface{} { return &Emb{Tag: "t"} }},
	{Name: "emb", Kind: "struct", Mk: func() interface{} { s := newS(); return Emb{S: &s, Tag: "t"} }},
	{Name: "szero", Kind: "struct", Mk: func() interface{} { return S{} }},
	{Name: "pS", Kind: "ptr", Mk: func() interface{} { s := newS(); s.P = &S{F: "inner"}; return &s }},
	{Name: "ppS", Kind: "ptr", Mk: func() interface{} { s := newS(); p := &s; return &p }},
	{Name: "pint", Kind: "ptr", Mk: func() interface{} { i := 3; return &i }},
	{Name: "anon", Kind: "struct", Mk: func() interface{} { return struct{ F string }{"anon"} }},
	{Name: "tim", Kind: "time", Mk: func() interface{} { return time.Date(2020, 1, 2, 3, 4, 5, 0, time.UTC) }},
	{Name: "ptim", Kind: "ptr", Mk: func() interface{} { t := time.Date(2020, 1, 2, 3, 4, 5, 0, time.UTC); return &t }},
	// functions of several signatures (all total: none of them can panic on any argument of its types)
	{Name: "f0", Kind: "func", Mk: func() interface{} { return func() string { return "f0" } }},
	{Name: "f1", Kind: "func", Mk: func() interface{} { return func(a int) int { return a + 1 } }},
	{Name: "f2", Kind: "func", Mk: func() interface{} { return func(s string, n int) string { return fmt.Sprint(s, n) } }},
	{Name: "fvar", Kind: "func", Mk: func() interface{} { return func(xs ...int) int { return len(xs) } }},
	{Name: "fvar2", Kind: "func", Mk: func() interface{} {
		return func(s string, xs ...interface{}) string { return fmt.Sprint(s, len(xs)) }
	}},
	{Name: "fany", Kind: "func", Mk: func() interface{} { return func(v interface{}) interface{} { return v } }},
	{Name: "fmap", Kind: "func", Mk: func() interface{} { return func(m map[string]interface{}) int { return len(m) } }},
	{Name: "fblk", Kind: "func", Mk: func() interface{} {
		return func(h plush.HelperContext) (template.HTML, error) {
			if !h.HasBlock() {
				return "noblock", nil
			}
			s, err := h.Block()
			return template.HTML(s), err
		}
	}},
	{Name: "fopts", Kind: "func", Mk: func() interface{} {
		return func(s string, o map[string]interface{}, h plush.HelperContext) string {
			return fmt.Sprint(s, len(o), h.HasBlock())
		}
	}},
	{Name: "fhctx", Kind: "func", Mk: func() interface{} {
		return func(n int, h hctx.HelperContext) string { return fmt.Sprint(n, h != nil) }
	}},
	{Name: "ferr", Kind: "func", Mk: func() interface{} { return func() (string, error) { return "", errors.New("ferr says no") } }},
	{Name: "fonlyerr", Kind: "func", Mk: func() interface{} { return func() error { return errors.New("fonlyerr says no") } }},
	{Name: "fvoid", Kind: "func", Mk: func() interface{} { return func() {} }},
	{Name: "fmulti", Kind: "func", Mk: func() interface{} { return func() (int, string) { return 1, "two" } }},
	{Name: "fptr", Kind: "func", Mk: func() interface{} { return func(p *S) string { return p.PHello() } }},
	{Name: "fstruct", Kind: "func", Mk: func() interface{} { return func(s S) string { return s.F } }},
	{Name: "fslice", Kind: "func", Mk: func() interface{} { return func(xs []int) int { return len(xs) } }},
	{Name: "fstringer", Kind: "func", Mk: func() interface{} {
		return func(s fmt.Stringer) string {
			if s == nil {
				return "nil stringer"
			}
			return "stringer"
		}
	}},
	{Name: "ffunc", Kind: "func", Mk: func() interface{} {
		return func(f func() string) string {
			if f == nil {
				return "nil f"
			}
			return f()
		}
	}},
	{Name: "fnilret", Kind: "func", Mk: func() interface{} { return func() interface{} { return nil } }},
	{Name: "fpnilret", Kind: "func", Mk: func() interface{} { return func() *S { return nil } }},
	{Name: "pf0", Kind: "ptr", Mk: func() interface{} { f := func() string { return "pf0" }; return &f }},
	// iterators
	{Name: "iter", Kind: "iter", Mk: func() interface{} { return &iterT{items: []interface{}{1, "two", (*S)(nil), 4.0}} }},
	{Name: "iterempty", Kind: "iter", Mk: func() interface{} { return &iterT{} }},
	// template-defined functions
	{Name: "ufn", Kind: "ufn", Prelude: `<% let ufn = fn(a, b) { return a } %>`},
	{Name: "ufn0", Kind: "ufn", Prelude: `<% let ufn0 = fn() { return "u0" } %>`},
	// literals
	{Name: "lit_int", Spell: `2`, Kind: "int"},
	{Name: "lit_zero", Spell: `0`, Kind: "int"},
	{Name: "lit_float", Spell: `1.5`, Kind: "float"},
	{Name: "lit_str", Spell: `"abc"`, Kind: "string"},
	{Name: "lit_true", Spell: `true`, Kind: "bool"},
	{Name: "lit_arr", Spell: `[1, nil, "x"]`, Kind: "slice"},
	{Name: "lit_hash", Spell: `{"a": 1, "abc": nil}`, Kind: "map", Key: "string"},
}

// widePool: further shapes of ordinary Go data (all Wide and Odd). Everything callable in it is total: no
// function, method or iterator below can panic for any receiver or argument of its types.
func w(name, kind string, mk func() interface{}) *pv {
	return &pv{Name: name, Kind: kind, Mk: mk, Odd: true, Wide: true}
}

func wm(name, key string, mk func() interface{}) *pv {
	return &pv{Name: name, Kind: "map", Key: key, Mk: mk, Odd: true, Wide: true}
}

var widePool = []*pv{
	// arrays and slices of interfaces, of arrays, of slices; pointers to them
	w("arrany", "array", func() interface{} { return [2]interface{}{1, nil} }),
	w("arrerrs", "array", func() interface{} { return [2]error{errors.New("e0"), nil} }),
	w("parrany", "ptr", func() interface{} { return &[2]interface{}{"x", nil} }),
	w("pparr", "ptr", func() interface{} { a := &[3]int{1, 2, 3}; return &a }),
	w("arrarr", "array", func() interface{} { return [2][2]int{{1, 2}, {3, 4}} }),
	w("slarr", "slice", func() interface{} { return [][2]int{{1, 2}} }),
	w("arrsl", "array", func() interface{} { return [2][]int{{1}, nil} }),
	w("ints3", "slice", func() interface{} { return [][][]int{{{1, 2}, nil}, nil} }),
	w("bytes2", "slice", func() interface{} { return [][]byte{[]byte("a"), nil} }),
	w("anysnil", "slice", func() interface{} { return []interface{}{nil, nil} }),
	w("funcs", "slice", func() interface{} {
		return []func() string{func() string { return "fs0" }, nil}
	}),
	w("ptrs", "slice", func() interface{} { i := 1; return []*int{&i, nil} }),
	w("slmaps", "slice", func() interface{} { return []map[int]string{{1: "x"}, nil} }),
	// maps: interface element types, nested nils, array / struct-with-array / interface keys holding NaN or pointers
	wm("nilmsa", "string", func() interface{} { return map[string]interface{}(nil) }),
	wm("msnested", "string", func() interface{} {
		return map[string]interface{}{"n": nil, "a": map[string]interface{}{"n": nil, "a": []interface{}{nil}}, "abc": []interface{}{nil, map[string]interface{}(nil)}, "p": (*S)(nil)}
	}),
	wm("mstringerelem", "string", func() interface{} {
		return map[string]fmt.Stringer{"a": Str{"x"}, "n": nil, "abc": (*Str)(nil)}
	}),
	wm("mfuncval", "string", func() interface{} {
		return map[string]func() string{"a": func() string { return "mfa" }, "abc": nil}
	}),
	wm("mmap", "string", func() interface{} { return map[string]map[string]int{"a": {"a": 1}, "abc": nil} }),
	wm("marrkey", "array", func() interface{} { return map[[2]int]string{{1, 2}: "x"} }),
	wm("marranykey", "array", func() interface{} {
		return map[[1]interface{}]string{{1}: "one", {math.NaN()}: "nan", {(*S)(nil)}: "nilp"}
	}),
	wm("mkeyS", "struct", func() interface{} { return map[KeyS]int{{A: [2]int{1, 2}, B: "b"}: 1} }),
	wm("mifacekeys", "any", func() interface{} {
		return map[interface{}]int{math.NaN(): 1, (*S)(nil): 2, [1]int{1}: 3, Unh{I: math.NaN()}: 4, nil: 5, &S{}: 6, 1.5: 7, int8(1): 8}
	}),
	wm("mstringerkey", "iface", func() interface{} { return map[fmt.Stringer]int{Str{"k"}: 1, (*Str)(nil): 2} }),
	wm("merrkey", "iface", func() interface{} { return map[error]int{} }),
	wm("munhnan", "struct", func() interface{} { return map[Unh]string{{I: math.NaN()}: "n", {I: nil}: "nil"} }),
	wm("mchankey", "chan", func() interface{} { return map[chan int]int{nil: 1, make(chan int): 2} }),
	wm("mint8key", "int8", func() interface{} { return map[int8]string{1: "x"} }),
	wm("muintkey", "uint", func() interface{} { return map[uint]string{1: "x"} }),
	wm("mmyintkey", "int", func() interface{} { return map[MyInt]string{1: "x"} }),
	wm("mmystrkey", "string", func() interface{} { return map[MyStr]int{"a": 1} }),
	wm("mint64key", "int64", func() interface{} { return map[int64]string{2: "x"} }),
	wm("mcplxkey", "complex", func() interface{} { return map[complex128]int{complex(1, 2): 1} }),
	// values meant as keys
	w("arrkey", "array", func() interface{} { return [2]int{1, 2} }),
	w("arranynan", "array", func() interface{} { return [1]interface{}{math.NaN()} }),
	w("arrunh", "array", func() interface{} { return [1]interface{}{[]int{1}} }), // comparable type, unhashable value
	w("keyS", "struct", func() interface{} { return KeyS{A: [2]int{1, 2}, B: "b"} }),
	w("unhnan", "struct", func() interface{} { return Unh{I: math.NaN()} }),
	w("unhmap", "struct", func() interface{} { return Unh{I: map[string]int{}} }),
	w("unhfunc", "struct", func() interface{} { return Unh{I: func() {}} }),
	w("int8v", "int8", func() interface{} { return int8(1) }),
	// structs: embedded interface (nil or not), embedded unexported struct (value / pointer / nil pointer),
	// unexported fields of every kind, func fields, array fields
	w("embiface", "struct", func() interface{} { return EmbIface{Namer: namerT{"n"}, Tag: "t"} }),
	w("embifacenil", "struct", func() interface{} { return EmbIface{Tag: "t"} }),
	w("pembifacenil", "ptr", func() interface{} { return &EmbIface{Tag: "t"} }),
	w("outerv", "struct", func() interface{} { return OuterV{inner{1, 2, &S{F: "deep"}}, 3} }),
	w("outerp", "struct", func() interface{} { return OuterP{&inner{1, 2, nil}, 3} }),
	w("outerpnil", "struct", func() interface{} { return OuterP{Z: 3} }),
	w("pouterpnil", "ptr", func() interface{} { return &OuterP{Z: 3} }),
	w("hid", "struct", func() interface{} {
		return Hid{f: func() string { return "f" }, m: map[string]int{"a": 1}, p: &S{}, i: 1, s: []int{1}, Pub: 1}
	}),
	w("phid", "ptr", func() interface{} { return &Hid{} }),
	w("fnholder", "struct", func() interface{} {
		return FnHolder{F0: func() string { return "F0" }, F1: func(i int) int { return i }, FV: func(x ...int) int { return len(x) }, M: func(i int) int { return i + 1 }, Any: func() string { return "any" }}
	}),
	w("pfnholder", "ptr", func() interface{} { return &FnHolder{} }),
	w("arrs", "struct", func() interface{} { return Arrs{A: [2]int{1, 2}, IA: [2]interface{}{1, nil}} }),
	w("parrs", "ptr", func() interface{} {
		return &Arrs{A: [2]int{1, 2}, PA: &[2]int{3, 4}, IA: [2]interface{}{[]int{1}, nil}}
	}),
	w("anonnested", "struct", func() interface{} {
		return struct {
			In struct{ F string }
			P  *struct{ F string }
		}{}
	}),
	w("emptystruct", "struct", func() interface{} { return struct{}{} }),
	// linked structures: a chain, and pointer cycles (fmt prints a pointer below the top level as an address,
	// encoding/json reports a cycle: neither recurses for ever)
	w("chain3", "ptr", func() interface{} { return newNode(3) }),
	w("pcycle", "ptr", func() interface{} { n := &Node{V: 1}; n.Next = n; return n }),
	w("kidcycle", "ptr", func() interface{} { n := &Node{V: 1}; n.Kids = []*Node{n}; return n }),
	w("upcycle", "ptr", func() interface{} { n := &Node{V: 1}; n.Up = map[string]*Node{"a": n}; return n }),
	w("cyclekids", "slice", func() interface{} { n := &Node{V: 1}; n.Kids = []*Node{n}; return n.Kids }),
	// pointers to pointers, to nil pointers, to interfaces, to scalars, to nil maps
	w("pppS", "ptr", func() interface{} { s := newS(); p := &s; pp := &p; return &pp }),
	w("pnilp", "ptr", func() interface{} { var p *S; return &p }),
	w("pifc", "ptr", func() interface{} { var i interface{} = 1; return &i }),
	w("pifcnil", "ptr", func() interface{} { var i interface{}; return &i }),
	w("pifcS", "ptr", func() interface{} { var i interface{} = newS(); return &i }),
	w("pstr", "ptr", func() interface{} { s := "ps"; return &s }),
	w("pbool", "ptr", func() interface{} { b := false; return &b }),
	w("pnilmap", "ptr", func() interface{} { var m map[string]int; return &m }),
	w("pnilslice", "ptr", func() interface{} { var s []int; return &s }),
	w("pmsa", "ptr", func() interface{} { return &map[string]interface{}{"a": 1} }),
	w("panys", "ptr", func() interface{} { return &[]interface{}{1, nil} }),
	w("piter", "ptr", func() interface{} { it := &iterT{items: []interface{}{1}}; return &it }),
	w("perr", "ptr", func() interface{} { e := errors.New("pe"); return &e }),
	// values the output tag treats specially: ast.Printable, Interface() chains, Stringer + HTMLer
	w("printable", "struct", func() interface{} { return Pr{V: []interface{}{1, "<b>", nil}} }),
	w("ifcself", "struct", func() interface{} { return IfcSelf{} }),
	w("ifcchain", "struct", func() interface{} { return IfcChain{N: 3000} }),
	w("stringerhtmler", "struct", func() interface{} { return StrHTML{} }),
	w("anysprintable", "slice", func() interface{} {
		return []interface{}{Pr{}, IfcSelf{}, IfcChain{N: 5}, StrHTML{}, Hr{"h"}, Str{"s"}}
	}),
	{Name: "selfprintable", Kind: "struct", Odd: true, Wide: true, Fatal: true, Mk: func() interface{} { s := []interface{}{nil}; s[0] = s; return Pr{V: s} }},
	// library types that turn up as data
	w("rvint", "struct", func() interface{} { return reflect.ValueOf(42) }),
	w("rvslice", "struct", func() interface{} { return reflect.ValueOf([]int{1, 2}) }),
	w("rvnilptr", "struct", func() interface{} { return reflect.ValueOf((*S)(nil)) }),
	w("rtype", "ptr", func() interface{} { return reflect.TypeOf(1) }),
	w("dur", "int64", func() interface{} { return 1500 * time.Millisecond }),
	w("month", "int", func() interface{} { return time.March }),
	w("loc", "ptr", func() interface{} { return time.UTC }),
	w("timzero", "time", func() interface{} { return time.Time{} }),
	w("jsonnum", "string", func() interface{} { return json.Number("12") }),
	w("jsonnumbad", "string", func() interface{} { return json.Number("x1") }),
	w("rawmsg", "slice", func() interface{} { return json.RawMessage(`{"a":1}`) }),
	w("rawbad", "slice", func() interface{} { return json.RawMessage(`{`) }),
	w("bigint", "ptr", func() interface{} { return new(big.Int).Lsh(big.NewInt(1), 80) }),
	w("bigintnil", "nilptr", func() interface{} { return (*big.Int)(nil) }),
	w("bigintval", "struct", func() interface{} { return *big.NewInt(5) }),
	w("bigfloat", "ptr", func() interface{} { return big.NewFloat(1.5) }),
	w("bigrat", "ptr", func() interface{} { return big.NewRat(1, 3) }),
	w("nullstr", "struct", func() interface{} { return sql.NullString{String: "x", Valid: true} }),
	w("nullstrnot", "struct", func() interface{} { return sql.NullString{} }),
	w("nullint", "struct", func() interface{} { return sql.NullInt64{Int64: 1, Valid: true} }),
	w("htmlattr", "string", func() interface{} { return template.HTMLAttr(`a="b"`) }),
	w("js", "string", func() interface{} { return template.JS(`alert(1)`) }),
	w("regexpv", "ptr", func() interface{} { return regexp.MustCompile("a+") }),
	w("sbuilder", "ptr", func() interface{} { return &strings.Builder{} }),
	w("plushctx", "ptr", func() interface{} { return plush.NewContext() }),
	w("hctxmap", "map", func() interface{} { return hctx.Map{"a": 1} }),
	// strings: invalid UTF-8, NUL, format verbs, template text, hostile regular expressions, long
	w("strbadutf", "string", func() interface{} { return "a\xff\xfeb\xc0" }),
	w("strnul", "string", func() interface{} { return "a\x00b" }),
	w("strfmt", "string", func() interface{} { return "%s%d%!%n%*d%[9]v%" }),
	w("strtmpl", "string", func() interface{} { return `<%= ints[5] %><%= unk.F %><% break %>` }),
	w("strtmplok", "string", func() interface{} { return `<%= 1 + 1 %><% let str = 9 %>` }),
	w("strrebomb", "string", func() interface{} { return "(a{1000}){1000}" }),
	w("strrenest", "string", func() interface{} { return strings.Repeat("(", 1500) + strings.Repeat(")", 1500) }),
	w("strreslow", "string", func() interface{} { return "(a*)*(b|a?)+$" }),
	w("strrebs", "string", func() interface{} { return `\` }),
	w("strrecls", "string", func() interface{} { return `[[:foo:]]\p{Nope}(?P<n>` }),
	w("strbig", "string", func() interface{} { return strings.Repeat("aé", 1000) }),
	w("strspace", "string", func() interface{} { return " \t\n" }),
	w("strhtml", "string", func() interface{} { return `<script>"'&</script>` }),
	w("strdots", "string", func() interface{} { return "a.b[0]" }),
	w("strurl", "string", func() interface{} { return "http://x/%zz?a=b" }),
	w("bytesbad", "slice", func() interface{} { return []byte{0xff, 0, 0xfe} }),
	w("runes", "slice", func() interface{} { return []rune("héé") }),
	// numbers: extremes of every width, infinities, negative zero, uintptr, complex
	w("fmax", "float", func() interface{} { return math.MaxFloat64 }),
	w("fsmall", "float", func() interface{} { return math.SmallestNonzeroFloat64 }),
	w("finf", "float", func() interface{} { return math.Inf(1) }),
	w("fneginf", "float", func() interface{} { return math.Inf(-1) }),
	w("fnegzero", "float", func() interface{} { return math.Copysign(0, -1) }),
	w("f32nan", "float32", func() interface{} { return float32(math.NaN()) }),
	w("int8min", "int8", func() interface{} { return int8(math.MinInt8) }),
	w("int64min", "int64", func() interface{} { return int64(math.MinInt64) }),
	w("int64max", "int64", func() interface{} { return int64(math.MaxInt64) }),
	w("int64zero", "int64", func() interface{} { return int64(0) }),
	w("int64one", "int64", func() interface{} { return int64(-1) }),
	w("uint0", "uint", func() interface{} { return uint(0) }),
	w("uintptrv", "uint", func() interface{} { return uintptr(7) }),
	w("cplx64", "complex", func() interface{} { return complex64(complex(1, -1)) }),
	w("cplxnan", "complex", func() interface{} { return complex(math.NaN(), math.Inf(1)) }),
	w("mybool", "bool", func() interface{} { type B bool; return B(true) }),
	w("myfloat", "float", func() interface{} { type F float64; return F(1.5) }),
	// channels, unsafe pointers
	w("nilchan", "chan", func() interface{} { return (chan int)(nil) }),
	w("closedchan", "chan", func() interface{} { c := make(chan int, 1); c <- 1; close(c); return c }),
	w("rochan", "chan", func() interface{} { c := make(chan string, 1); return (<-chan string)(c) }),
	w("upnil", "ptr", func() interface{} { return unsafe.Pointer(nil) }),
	w("up", "ptr", func() interface{} { i := 1; return unsafe.Pointer(&i) }),
	// deep nesting (depth 2000): output, string conversion, toJSON, inspect, debug, len, for
	{Name: "deepslice", Kind: "slice", Odd: true, Wide: true, Heavy: true, Mk: func() interface{} { return deepSlice(2000) }},
	{Name: "deepmap", Kind: "map", Key: "string", Odd: true, Wide: true, Heavy: true, Mk: func() interface{} { return deepMap(2000) }},
	{Name: "deepchain", Kind: "ptr", Odd: true, Wide: true, Heavy: true, Mk: func() interface{} { return newNode(2000) }},
	// values that contain themselves (Fatal: cases that mention them are rendered in a child process)
	{Name: "selfslice", Kind: "slice", Odd: true, Wide: true, Fatal: true, Mk: func() interface{} { s := []interface{}{nil, 1}; s[0] = s; return s }},
	{Name: "selfmap", Kind: "map", Key: "string", Odd: true, Wide: true, Fatal: true, Mk: func() interface{} { m := map[string]interface{}{"a": 1}; m["abc"] = m; return m }},
	{Name: "selfkids", Kind: "struct", Odd: true, Wide: true, Fatal: true, Mk: func() interface{} {
		t := Tree{V: 1, Kids: []Tree{{V: 2}}}
		t.Kids[0].Kids = t.Kids // no pointer, no interface: the element's slice is the slice it is an element of
		return t
	}},
	{Name: "selfid", Kind: "struct", Odd: true, Wide: true, Fatal: true, Mk: func() interface{} {
		s := []interface{}{nil}
		s[0] = s
		return Rec{ID: s}
	}},
	{Name: "selfptr", Kind: "ptr", Odd: true, Wide: true, Fatal: true, Mk: func() interface{} { s := []interface{}{nil}; s[0] = &s; return &s }},
	{Name: "tselfarr", Kind: "slice", Odd: true, Wide: true, Fatal: true, Prelude: `<% let tselfarr = [nil, 1] %><% tselfarr[0] = tselfarr %>`},
	{Name: "tselfhash", Kind: "map", Key: "string", Odd: true, Wide: true, Fatal: true, Prelude: `<% let tselfhash = {"a": 1} %><% tselfhash["abc"] = tselfhash %>`},
	// functions: 0, 1, 2 (second not an error), 3 results; nil error; functions as results
	w("f3", "func", func() interface{} { return func() (int, string, error) { return 1, "s", nil } }),
	w("f3err", "func", func() interface{} { return func() (int, string, error) { return 1, "s", errors.New("f3err says no") } }),
	w("f3int", "func", func() interface{} { return func() (int, int, int) { return 1, 2, 3 } }),
	w("f2bool", "func", func() interface{} { return func() (string, bool) { return "s", false } }),
	w("f2errfirst", "func", func() interface{} { return func() (error, string) { return errors.New("first"), "s" } }),
	w("fnilerr", "func", func() interface{} { return func() error { return nil } }),
	w("fanyerr", "func", func() interface{} { return func() (interface{}, error) { return nil, nil } }),
	w("fnil2", "func", func() interface{} { return func() (interface{}, string) { return nil, "x" } }),
	w("ffnret", "func", func() interface{} {
		return func() func() string { return func() string { return "inner" } }
	}),
	w("ffnret1", "func", func() interface{} {
		return func(a int) func(int) int { return func(b int) int { return a + b } }
	}),
	w("ffnretnil", "func", func() interface{} { return func() func() string { return nil } }),
	w("frvret", "func", func() interface{} { return func() reflect.Value { return reflect.ValueOf("rv") } }),
	w("fiterret", "func", func() interface{} {
		return func() plush.Iterator { return &iterT{items: []interface{}{1, 2}} }
	}),
	w("fiterretnil", "func", func() interface{} { return func() plush.Iterator { return nil } }),
	// functions taking pointers, interfaces, functions, channels, named types, arrays
	w("fpint", "func", func() interface{} {
		return func(p *int) int {
			if p == nil {
				return 0
			}
			return *p
		}
	}),
	w("ferrarg", "func", func() interface{} {
		return func(e error) string {
			if e == nil {
				return "nil error"
			}
			return "error"
		}
	}),
	w("ffuncarg", "func", func() interface{} {
		return func(f func(int) int) int {
			if f == nil {
				return 0
			}
			return f(1)
		}
	}),
	w("fchanarg", "func", func() interface{} { return func(c chan int) int { return len(c) } }),
	w("fmyint", "func", func() interface{} { return func(i MyInt) MyInt { return i + 1 } }),
	w("fmystr", "func", func() interface{} { return func(s MyStr) string { return string(s) } }),
	w("fhctxmap", "func", func() interface{} { return func(m hctx.Map) int { return len(m) } }),
	w("fmymap", "func", func() interface{} { return func(m MyMap) int { return len(m) } }),
	w("farr", "func", func() interface{} { return func(a [3]int) int { return a[0] } }),
	w("fparr", "func", func() interface{} {
		return func(a *[3]int) int {
			if a == nil {
				return 0
			}
			return a[0]
		}
	}),
	w("fppS", "func", func() interface{} {
		return func(p **S) string {
			if p == nil {
				return "nil"
			}
			return (*p).PHello()
		}
	}),
	w("fint8", "func", func() interface{} { return func(i int8) int8 { return i } }),
	w("fint64", "func", func() interface{} { return func(i int64) int64 { return i } }),
	w("ffloat", "func", func() interface{} { return func(f float64) float64 { return f } }),
	w("fbool", "func", func() interface{} { return func(b bool) bool { return !b } }),
	w("fanys", "func", func() interface{} { return func(xs []interface{}) int { return len(xs) } }),
	w("fhtml", "func", func() interface{} { return func(h template.HTML) template.HTML { return h } }),
	w("ftime", "func", func() interface{} { return func(t time.Time) string { return "t" } }),
	w("fctxarg", "func", func() interface{} { return func(c hctx.Context) bool { return c == nil } }),
	w("f2zero", "func", func() interface{} { return func(a int, b S, c *S) string { return b.F + c.PHello() } }),
	w("f4", "func", func() interface{} { return func(a, b, c, d int) int { return a + b + c + d } }),
	// variadic of each
	w("fvany", "func", func() interface{} { return func(xs ...interface{}) int { return len(xs) } }),
	w("fvstr", "func", func() interface{} { return func(xs ...string) string { return strings.Join(xs, ",") } }),
	w("fvptr", "func", func() interface{} { return func(xs ...*S) int { return len(xs) } }),
	w("fverr", "func", func() interface{} { return func(xs ...error) int { return len(xs) } }),
	w("fvstringer", "func", func() interface{} { return func(xs ...fmt.Stringer) int { return len(xs) } }),
	w("fvfunc", "func", func() interface{} { return func(xs ...func() string) int { return len(xs) } }),
	w("fvmyint", "func", func() interface{} { return func(xs ...MyInt) int { return len(xs) } }),
	w("fvslices", "func", func() interface{} { return func(xs ...[]int) int { return len(xs) } }),
	w("fvmap", "func", func() interface{} { return func(a int, xs ...map[string]interface{}) int { return a + len(xs) } }),
	w("fvhc", "func", func() interface{} { return func(xs ...plush.HelperContext) int { return len(xs) } }),
	w("fvhelp", "func", func() interface{} {
		return func(s string, h plush.HelperContext, xs ...int) string { return fmt.Sprint(s, h.HasBlock(), len(xs)) }
	}),
	// helper-context parameters in every position; helpers that use the context
	w("fhcfirst", "func", func() interface{} {
		return func(h plush.HelperContext, s string) string { return fmt.Sprint(h.HasBlock(), s) }
	}),
	w("fhconly", "func", func() interface{} { return func(h hctx.HelperContext) bool { return h.HasBlock() } }),
	w("fphc", "func", func() interface{} { return func(h *plush.HelperContext) bool { return h == nil } }),
	w("fmapmap", "func", func() interface{} {
		return func(a map[string]interface{}, b map[string]interface{}) int { return len(a) + len(b) }
	}),
	w("fopts3", "func", func() interface{} {
		return func(a interface{}, o hctx.Map, h hctx.HelperContext) string { return fmt.Sprint(len(o), h.HasBlock()) }
	}),
	w("fhcmap", "func", func() interface{} {
		return func(h plush.HelperContext, o map[string]interface{}) string { return fmt.Sprint(len(o), h.HasBlock()) }
	}),
	w("frender", "func", func() interface{} {
		return func(s string, h plush.HelperContext) (string, error) { return h.Render(s) }
	}),
	w("fblock2", "func", func() interface{} {
		return func(h plush.HelperContext) (string, error) { // runs its block twice, the second time in a child context
			if !h.HasBlock() {
				return "noblock", nil
			}
			a, err := h.Block()
			if err != nil {
				return "", err
			}
			b, err := h.BlockWith(h.New())
			return a + b, err
		}
	}),
	w("fblockwithnil", "func", func() interface{} {
		return func(h plush.HelperContext) (string, error) { return h.BlockWith(nil) }
	}),
	w("fctxset", "func", func() interface{} {
		return func(k string, v interface{}, h plush.HelperContext) interface{} { h.Set(k, v); return h.Value(k) }
	}),
	w("fctxhas", "func", func() interface{} {
		return func(k string, h plush.HelperContext) bool { return h.Has(k) }
	}),
	// an error result that is a typed nil pointer; a helper that keeps its HelperContext for later; plush's own types as data
	w("ftypednilerr", "func", func() interface{} { return func() (string, error) { var e *MyErr; return "x", e } }),
	w("ftypederr", "func", func() interface{} { return func() (string, error) { return "x", &MyErr{"typed"} } }),
	w("fstash", "func", func() interface{} {
		return func(h plush.HelperContext) string { h.Set("stashed", h); return "" }
	}),
	w("hczero", "struct", func() interface{} { return plush.HelperContext{} }),
	w("phczero", "ptr", func() interface{} { return &plush.HelperContext{} }),
	w("hcbare", "struct", func() interface{} { return plush.HelperContext{Context: plush.NewContext()} }),
	w("tmplval", "ptr", func() interface{} { t, _ := plush.NewTemplate("<%= 1 %>"); return t }),
	w("myerrnil", "nilptr", func() interface{} { return (*MyErr)(nil) }),
	w("errtypednil", "struct", func() interface{} { var e *MyErr; return error(e) }),
	w("allkinds", "struct", func() interface{} {
		i := 1
		s := newS()
		ps := &s
		t := time.Date(2020, 1, 2, 3, 4, 5, 0, time.UTC)
		return AllKinds{KInt8: -1, KUint64: math.MaxUint64, KCplx: complex(1, 1), KStr: "k", KPInt: &i, KPPS: &ps, KIface: 1, KIfaceP: (*S)(nil), KErr: errors.New("ke"), KStrnger: (*Str)(nil),
			KSlice: []interface{}{nil, 1}, KArr: [2]*S{nil, ps}, KMap: map[interface{}]interface{}{1: "a", "a": nil}, KChan: make(chan int), KFunc: func(xs ...interface{}) (int, error) { return len(xs), nil },
			KUnsafe: unsafe.Pointer(&i), KTime: t, KPTime: &t, KDur: time.Second, KRV: reflect.ValueOf(1), KIter: &iterT{items: []interface{}{1}}, KHTML: "<b>"}
	}),
	// (KRV is set: reflect.Value.Interface panics on the zero Value, see suspectPool)
	w("allkindszero", "struct", func() interface{} { return AllKinds{KRV: reflect.ValueOf(0)} }),
	w("pallkinds", "ptr", func() interface{} { return &AllKinds{KRV: reflect.ValueOf(0)} }),
	w("meths", "struct", func() interface{} { return Meths{N: 1} }),
	w("pmeths", "ptr", func() interface{} { return &Meths{N: 2} }),
	w("nilpmeths", "nilptr", func() interface{} { return (*Meths)(nil) }),
	wm("mmeths", "string", func() interface{} { return map[string]Meths{"a": {N: 3}} }),
	w("slmeths", "slice", func() interface{} { return []Meths{{N: 4}} }),
	// named function types, method values, method expressions
	w("myfn", "func", func() interface{} { return MyFn(func(i int) int { return i + 1 }) }),
	w("myfnnil", "func", func() interface{} { return MyFn(nil) }),
	w("mvhello", "func", func() interface{} { return newS().Hello }),
	w("mvadd", "func", func() interface{} { s := newS(); return (&s).Add }),
	w("mvphello", "func", func() interface{} { return (*S)(nil).PHello }),
	w("mexpr", "func", func() interface{} { return S.Add }),
	w("mexprp", "func", func() interface{} { return (*S).PHello }),
	w("pfnil", "ptr", func() interface{} { var f func() string; return &f }),
	w("ppf0", "ptr", func() interface{} { f := func() string { return "ppf0" }; p := &f; return &p }),
	// iterators of other shapes
	w("iterfn", "iter", func() interface{} {
		n := 0
		return IterFn(func() interface{} {
			n++
			if n > 3 {
				return nil
			}
			return n
		})
	}),
	w("iterfnnil", "iter", func() interface{} { return IterFn(nil) }),
	w("iternested", "iter", func() interface{} {
		return &iterT{items: []interface{}{[]int{1}, &iterT{items: []interface{}{"in"}}, map[string]int{"a": 1}, (*iterT)(nil), [0]int{}}}
	}),
	w("itertypednil", "iter", func() interface{} {
		return &iterT{items: []interface{}{(*S)(nil), (*int)(nil), []int(nil), map[string]int(nil), (func())(nil)}}
	}),
	w("iterfuncs", "iter", func() interface{} {
		return &iterT{items: []interface{}{func() string { return "it" }, errors.New("e"), reflect.ValueOf(1)}}
	}),
}

// suspectPool is appended to the pool when includeSuspect is set (or VERIF_C04_SUSPECT=1): see the types above.
// Root cause on the current tree: compiler.go write() calls t.Interface() / t.HTML() / t.String() without recover.
var includeSuspect = true // the output sink recovers such panics since AF-39

var suspectPool = []*pv{
	w("rvzero", "struct", func() interface{} { return reflect.Value{} }),
	w("embstringernil", "struct", func() interface{} { return EmbStringerNil{} }),
	w("embpstrnil", "struct", func() interface{} { return EmbPStr{} }),
	w("embphrnil", "struct", func() interface{} { return EmbPHr{} }),
	w("anyssuspect", "slice", func() interface{} { return []interface{}{1, EmbPStr{}} }),
	w("allkindsrvzero", "struct", func() interface{} { return AllKinds{} }), // .KRV is the zero reflect.Value
}

var byName = map[string]*pv{}

func P(name string) *pv {
	p := byName[name]
	if p == nil {
		panic("no pool value " + name)
	}
	return p
}

// derived spellings: a member of a pool value used as a callee / iterable / operand
func sub(name, suffix string) *pv {
	p := *P(name)
	p.Spell = p.spell() + suffix
	p.Odd = true
	p.Kind = "derived"
	return &p
}

// six kinds used where a full pool dimension would be too large
func six() []*pv { return []*pv{P("int"), P("str"), P("nil"), P("sval"), P("ints"), P("msa")} }
func eight() []*pv {
	return []*pv{P("intneg"), P("str"), P("nil"), P("nilpS"), P("ints"), P("msa"), P("f0"), P("float64")}
}

// core: the partners a Wide value is paired with where the full pool x pool square is too large
var coreNames = []string{"int", "int0", "intneg", "float64", "nan", "str", "strempty", "btrue", "nil", "unk", "nilpS", "nilslice", "nilmap",
	"ints", "anys", "arr", "msa", "msi", "maa", "sval", "pS", "f0", "f1", "fany", "iter", "unhash", "errs", "html", "tim", "ufn", "lit_arr", "lit_hash"}

var core = map[*pv]bool{}

// quickCore: the (fewer) partners of a Wide value in the quick tier
var quickCoreNames = map[string]bool{"int": true, "intneg": true, "str": true, "nil": true, "unk": true, "nilpS": true, "ints": true, "msa": true, "sval": true, "f0": true, "unhash": true, "lit_arr": true}

var tiny = map[*pv]bool{} // six(): the partners of a value that contains itself in the quick tier

// pairOK tells whether the pair (a, b) is enumerated. Pairs of two values of the original pool always are.
// A Wide value meets: every value (thorough) or twelve of the core values (quick); another Wide value only in the cheap
// matrices (square=true) of the thorough tier.
func pairOK(r *vk.Run, a, b *pv, square bool) bool {
	if r.Quick() && (a.Fatal || b.Fatal) {
		// every such case costs a round trip to a child process, and a new process when it dies: in the quick
		// tier two of the values that contain themselves are paired, with six partners; the others stand alone
		f, o := a, b
		if !f.Fatal {
			f, o = b, a
		}
		return (f.Name == "selfslice" || f.Name == "tselfhash") && tiny[o]
	}
	if a.Fatal || b.Fatal { // thorough: every value that contains itself, with the core partners (and with itself)
		return a == b || a.Fatal && core[b] || b.Fatal && core[a]
	}
	switch {
	case !a.Wide && !b.Wide:
		return true
	case a.Wide && b.Wide:
		return square && r.Thorough()
	case a.Wide:
		return r.Thorough() || core[b] && quickCoreNames[b.Name]
	}
	return r.Thorough() || core[a] && quickCoreNames[a.Name]
}

func init() {
	pool = append(pool, widePool...)
	if includeSuspect || os.Getenv("VERIF_C04_SUSPECT") != "" {
		pool = append(pool, suspectPool...)
	} else {
		for _, p := range suspectPool { // known by name, so that a saved case replays; not generated
			byName[p.Name] = p
		}
	}
	for _, p := range pool {
		if byName[p.Name] != nil {
			panic("duplicate pool name " + p.Name)
		}
		byName[p.Name] = p
	}
	for k := range plush.Helpers.All() {
		if byName[k] != nil {
			panic("pool name collides with helper " + k)
		}
	}
	for _, n := range coreNames {
		core[P(n)] = true
	}
	for _, p := range six() {
		tiny[p] = true
	}
}

// ---- cases ----------------------------------------------------------------------------------------------

// Case is self-contained: the matrix (or "random"), the template text, and the names of the pool values
// bound to context variables of the same name.
type Case struct {
	Matrix string   `json:"matrix"`
	Tmpl   vk.Text  `json:"template"`
	Vars   []string `json:"vars"`
	Iso    bool     `json:"isolate,omitempty"` // render in a child process (the template itself builds a value that contains itself)
	Ctx    string   `json:"context,omitempty"` // "": plush.NewContextWith(data); "helptest": plush's other hctx.Context implementation
	// Seq: the template is parsed ONCE and executed once per entry of Vars, each time on a fresh context in which
	// the variable x holds that pool value (state kept between executions, e.g. in the syntax tree, would show)
	Seq bool `json:"sequence,omitempty"`
}

type cell struct {
	c   Case
	nt  bool
	sub string
}

func mkCase(matrix, body string, vs ...*pv) Case {
	var pre strings.Builder
	var names []string
	seen := map[string]bool{}
	for _, p := range vs {
		if seen[p.Name] {
			continue
		}
		seen[p.Name] = true
		names = append(names, p.Name)
		pre.WriteString(p.Prelude)
	}
	return Case{Matrix: matrix, Tmpl: vk.Text(pre.String() + body), Vars: names}
}

func buildData(vars []string) (map[string]interface{}, error) {
	data := map[string]interface{}{"partialFeeder": feeder}
	for _, n := range vars {
		p := byName[n]
		if p == nil {
			return nil, fmt.Errorf("unknown pool value %q", n)
		}
		if p.Mk != nil {
			data[n] = p.Mk()
		}
	}
	return data, nil
}

// ---- oracle ---------------------------------------------------------------------------------------------

var msgRules = []struct {
	re *regexp.Regexp
	to string
}{
	{regexp.MustCompile(`hash of unhashable type .*`), "hash of unhashable type T"},
	{regexp.MustCompile(`value of type .* (is )?not assignable to type .*`), "value of type T is not assignable to type U"},
	{regexp.MustCompile(`interface conversion: .* is .*, not .*`), "interface conversion: interface is T, not U"},
	{regexp.MustCompile(`value method .* called using nil .* pointer`), "value method called using nil pointer"},
	{regexp.MustCompile(`call of (reflect\.Value\.\w+) on zero Value`), "call of $1 on the zero reflect.Value"},
	{regexp.MustCompile(`call of (reflect\.Value\.\w+) on .* Value$`), "call of $1 on wrong-kind Value"},
	{regexp.MustCompile(`call of unknown method on .* Value`), "call of unknown method on wrong-kind Value"},
	{regexp.MustCompile(`(array|slice|string) index out of range`), "index out of range"},
	{regexp.MustCompile(`Call using .* as type .*`), "Call using T as type U"},
	{regexp.MustCompile(`0x[0-9a-f]+|-?\d+`), "N"},
}

// msgKind normalises a panic message so that one root cause gives one text whatever the operand values
// and types were.
func msgKind(p interface{}) string {
	s := fmt.Sprint(p)
	if e, ok := p.(error); ok {
		s = e.Error()
	}
	s = strings.TrimPrefix(s, "runtime error: ")
	for _, r := range msgRules {
		s = r.re.ReplaceAllString(s, r.to)
	}
	s = strings.Join(strings.Fields(s), " ")
	if len(s) > 100 {
		s = s[:100]
	}
	return s
}

// site is the innermost plush frame of the panic: "evalAccessIndex@compiler.go:340".
func site(res vk.Res) string {
	s := res.PanicSite()
	if i := strings.Index(s, " < "); i >= 0 {
		s = s[:i]
	}
	s = strings.TrimPrefix(s, ".")
	s = strings.TrimPrefix(s, "/")
	s = strings.Replace(s, "(*compiler).", "", 1)
	if s == "" {
		s = "outside-plush"
	}
	return s
}

func indexTag(c Case) string {
	if c.Matrix == "random" {
		return " [random program]"
	}
	for _, v := range c.Vars {
		if p := byName[v]; p != nil && p.Odd && (p.Kind == "int" || p.Kind == "int64" || p.Kind == "float") {
			return " [negative or extreme operand]"
		}
	}
	return " [ordinary operands]"
}

var reLine = regexp.MustCompile(`:\d+$`)

// siteKey is site without the line number: class names stay valid while the file is edited elsewhere.
func siteKey(res vk.Res) string { return reLine.ReplaceAllString(site(res), "") }

// inCall reports whether the panic was raised underneath the reflect.Value.Call of evalCallExpression,
// i.e. whether a recover() around that call (text/template's safeCall) would turn it into an error.
func inCall(res vk.Res) bool {
	lines := strings.Split(res.Stack, "\n")
	seenCall := false
	for _, l := range lines {
		if strings.HasPrefix(l, "reflect.Value.Call(") {
			seenCall = true
		}
		if seenCall && strings.Contains(l, "(*compiler).evalCallExpression(") {
			return true
		}
	}
	return false
}

type classInfo struct {
	n        int64
	inCall   int64
	wit      Case
	msg      string
	site2    string
	sites    map[string]bool
	matrices map[string]int64
}

// rootOf strips the matrix name from a class: "index/evalAccessIndex@compiler.go:340: msg" -> "evalAccessIndex@...".
func rootOf(class string) string {
	if i := strings.Index(class, "/"); i >= 0 {
		return class[i+1:]
	}
	return class
}

// isKnown: the class (or its root cause, whatever the matrix) is listed as known-open.
func isKnown(r *vk.Run, class string) bool {
	if strings.HasPrefix(class, "random/") && strings.HasSuffix(class, ": fatal error: stack overflow") && knownOpen["fatal error: stack overflow [random program, any site]"] {
		return true
	}
	return knownOpen[class] || knownOpen[rootOf(class)] || r.OpenClass(class) || r.OpenClass(rootOf(class))
}

var (
	aggMu     sync.Mutex
	classes   = map[string]*classInfo{} // by root cause
	replaying bool
)

func smaller(a, b Case) bool {
	if (a.Matrix == "random") != (b.Matrix == "random") {
		return b.Matrix == "random" // a matrix cell is a better witness than a random program
	}
	if len(a.Vars) != len(b.Vars) {
		return len(a.Vars) < len(b.Vars)
	}
	if len(a.Tmpl) != len(b.Tmpl) {
		return len(a.Tmpl) < len(b.Tmpl)
	}
	return a.Tmpl < b.Tmpl
}

func record(class string, c Case, res vk.Res) {
	aggMu.Lock()
	defer aggMu.Unlock()
	root := rootOf(class)
	ci := classes[root]
	if ci == nil {
		ci = &classInfo{wit: c, msg: fmt.Sprint(res.Panic), site2: res.PanicSite(), sites: map[string]bool{}, matrices: map[string]int64{}}
		classes[root] = ci
	}
	ci.n++
	ci.sites[site(res)] = true
	ci.matrices[c.Matrix]++
	if inCall(res) {
		ci.inCall++
	}
	if smaller(c, ci.wit) {
		ci.wit, ci.msg, ci.site2 = c, fmt.Sprint(res.Panic), res.PanicSite()
	}
}

func seenInMatrices(class string) bool {
	aggMu.Lock()
	defer aggMu.Unlock()
	ci := classes[rootOf(class)]
	if ci == nil {
		return false
	}
	for m := range ci.matrices {
		if m != "random" {
			return true
		}
	}
	return false
}

// render runs one case: Parse, then Exec on a context holding freshly built pool values.
func render(c Case) (res vk.Res, parseErr error, harness error) {
	data, err := buildData(c.Vars)
	if err != nil {
		return vk.Res{}, nil, err
	}
	var tpl *plush.Template
	pres := vk.Safe(func() (string, error) {
		t, err := plush.Parse(string(c.Tmpl))
		tpl = t
		return "", err
	})
	if pres.Panicked() {
		return vk.Res{}, fmt.Errorf("parser panic (C03): %v", pres.Panic), nil
	}
	if pres.Err != nil {
		return vk.Res{}, pres.Err, nil
	}
	if c.Matrix == "shared" {
		parts := strings.SplitN(string(c.Tmpl), sharedSep, 2)
		for _, part := range parts {
			res = vk.Safe(func() (string, error) { return plush.Render(part, plush.NewContextWith(data)) })
			if res.Panicked() {
				return res, nil, nil
			}
		}
		return vk.Res{Out: res.Out, Err: res.Err}, nil, nil
	}
	if c.Seq {
		for _, n := range c.Vars {
			d, err := buildData([]string{n, "fblk", "fany"})
			if err != nil {
				return vk.Res{}, nil, err
			}
			d["x"] = d[n]
			res = vk.Safe(func() (string, error) { return tpl.Exec(plush.NewContextWith(d)) })
			if res.Panicked() {
				return res, nil, nil
			}
		}
		return vk.Res{Out: "sequence done"}, nil, nil
	}
	res = vk.Safe(func() (string, error) {
		switch c.Ctx {
		case "nildata": // no data at all: a nil map
			return tpl.Exec(plush.NewContextWith(nil))
		case "buffalo-nildata":
			return plush.BuffaloRenderer(string(c.Tmpl), nil, map[string]interface{}{"f0": func() string { return "f0" }})
		case "buffalo":
			return plush.BuffaloRenderer(string(c.Tmpl), data, map[string]interface{}{"f0": func() string { return "f0" }})
		case "ctxvalue": // the values come from the context.Context underneath, not from the data map
			var cc context.Context = context.Background()
			for _, k := range c.Vars {
				if v, ok := data[k]; ok {
					cc = context.WithValue(cc, k, v) // string keys are what a template can name
				}
			}
			pc := plush.NewContextWithContext(cc)
			pc.Set("partialFeeder", feeder)
			return tpl.Exec(pc)
		case "outer": // the values live in the outer context, the render runs on a child of a child
			return tpl.Exec(plush.NewContextWithOuter(map[string]interface{}{}, plush.NewContextWith(data)).New())
		}
		if c.Ctx == "helptest" { // plush's own second implementation of hctx.Context (helpers/helptest)
			ctx := helptest.NewContext()
			for k, v := range plush.Helpers.All() {
				ctx.Set(k, v)
			}
			for k, v := range data {
				ctx.Set(k, v)
			}
			return tpl.Exec(ctx)
		}
		return tpl.Exec(plush.NewContextWith(data))
	})
	return res, nil, nil
}

// ---- isolation: cases that can end in a FATAL error ---------------------------------------------------------
//
// A value that contains itself (a []interface{} stored into one of its own elements, a map stored under one of
// its own keys) makes every naive traversal recurse until the stack is exhausted. That is a fatal error: no
// recover() sees it and the whole test process dies. A case that mentions such a value (pv.Fatal) is therefore
// rendered in a child process (this test binary running TestIsoChild, a line-oriented server: one JSON case in,
// one JSON result out). When the child dies on a case, the case is the witness, the runtime's report is its
// stack, and the class is grouped like a panic's (innermost plush frame of the part of the stack that is printed).

type isoRes struct {
	Out   string `json:"out"`
	Err   string `json:"err,omitempty"`
	Perr  string `json:"perr,omitempty"`
	Herr  string `json:"herr,omitempty"`
	Panic string `json:"panic,omitempty"`
	Stack string `json:"stack,omitempty"`
}

const isoEnv = "VERIF_C04_ISO_CHILD"

// TestIsoChild is the child side; it does nothing unless started by isoPool.
func TestIsoChild(t *testing.T) {
	if os.Getenv(isoEnv) == "" {
		t.Skip("only run as a child of TestProp / TestReplay")
	}
	debug.SetMaxStack(256 << 20) // the output sink may legitimately recurse 100000 deep (values that unwrap to themselves end in an error there: ~40 MB); an unbounded recursion still ends within a second
	in := bufio.NewReaderSize(os.Stdin, 1<<20)
	out := bufio.NewWriter(os.Stdout)
	for {
		line, err := in.ReadBytes('\n')
		if len(line) > 1 {
			var c Case
			var ir isoRes
			if e := json.Unmarshal(line, &c); e != nil {
				ir.Herr = e.Error()
			} else {
				res, perr, herr := render(c)
				ir.Out = res.Out
				if res.Err != nil {
					ir.Err = res.Err.Error()
					if ir.Err == "" {
						ir.Err = "(empty error text)"
					}
				}
				if perr != nil {
					ir.Perr = perr.Error() + " "
				}
				if herr != nil {
					ir.Herr = herr.Error() + " "
				}
				if res.Panicked() {
					ir.Panic = fmt.Sprint(res.Panic) + " "
					ir.Stack = res.Stack
				}
			}
			b, _ := json.Marshal(ir)
			out.WriteString("ISO ")
			out.Write(b)
			out.WriteByte('\n')
			out.Flush()
		}
		if err != nil {
			break
		}
	}
	os.Exit(0)
}

type isoChild struct {
	cmd    *exec.Cmd
	in     io.WriteCloser
	out    *bufio.Reader
	stderr *bytes.Buffer
}

var (
	isoOnce  sync.Once
	isoFree  chan *isoChild
	isoCount int64 // children started
)

func isoWorkers() int {
	if n, _ := strconv.Atoi(os.Getenv("VERIF_SHARDS")); n > 1 {
		return 2
	}
	return runtime.GOMAXPROCS(0)
}

func isoStart() (*isoChild, error) {
	cmd := exec.Command(os.Args[0], "-test.run", "^TestIsoChild$", "-test.timeout", "0")
	cmd.Env = append(os.Environ(), isoEnv+"=1", "VERIF_REPLAY_CHILD=1")
	cmd.SysProcAttr = &syscall.SysProcAttr{Pdeathsig: syscall.SIGKILL} // a child never outlives the run
	in, err := cmd.StdinPipe()
	if err != nil {
		return nil, err
	}
	out, err := cmd.StdoutPipe()
	if err != nil {
		return nil, err
	}
	ch := &isoChild{cmd: cmd, in: in, out: bufio.NewReaderSize(out, 1<<20), stderr: &bytes.Buffer{}}
	cmd.Stderr = ch.stderr
	if err := cmd.Start(); err != nil {
		return nil, err
	}
	atomic.AddInt64(&isoCount, 1)
	return ch, nil
}

func (ch *isoChild) stop() {
	ch.in.Close()
	ch.cmd.Process.Kill()
	ch.cmd.Wait()
}

// renderIsolated is render in a child process. A child that dies gives a Res whose Panic is the runtime's
// "fatal error: ..." line and whose Stack is the runtime's report.
func renderIsolated(c Case) (res vk.Res, parseErr error, harness error) {
	isoOnce.Do(func() {
		n := isoWorkers()
		isoFree = make(chan *isoChild, n)
		for i := 0; i < n; i++ {
			isoFree <- nil // started on first use
		}
	})
	ch := <-isoFree
	defer func() { isoFree <- ch }()
	if ch == nil {
		var err error
		if ch, err = isoStart(); err != nil {
			ch = nil
			return vk.Res{}, nil, fmt.Errorf("cannot start the isolation child: %v", err)
		}
	}
	line, _ := json.Marshal(c)
	ch.in.Write(append(line, '\n'))
	// safety net: a case costs microseconds; a child that has not answered after three minutes is killed, which
	// ends the read below (the case is then reported like a death of the child, with this message)
	hung := int32(0)
	proc := ch.cmd.Process
	timer := time.AfterFunc(3*time.Minute, func() { atomic.StoreInt32(&hung, 1); proc.Kill() })
	defer timer.Stop()
	for {
		l, err := ch.out.ReadString('\n')
		if strings.HasPrefix(l, "ISO ") {
			var ir isoRes
			if e := json.Unmarshal([]byte(l[4:]), &ir); e != nil {
				return vk.Res{}, nil, fmt.Errorf("isolation child answered %q: %v", l, e)
			}
			res.Out = ir.Out
			if ir.Err != "" {
				res.Err = errors.New(ir.Err)
			}
			if ir.Panic != "" {
				res.Panic, res.Stack, res.Out, res.Err = strings.TrimSuffix(ir.Panic, " "), ir.Stack, "", nil
			}
			if ir.Perr != "" {
				parseErr = errors.New(ir.Perr)
			}
			if ir.Herr != "" {
				harness = errors.New(ir.Herr)
			}
			return res, parseErr, harness
		}
		if err != nil { // the child died on this case
			ch.cmd.Wait()
			report := ch.stderr.String()
			ch = nil
			msg := "fatal error (child process died)"
			if atomic.LoadInt32(&hung) == 1 {
				msg = "no result within 3 minutes (the child process was killed)"
			}
			for _, sl := range strings.Split(report, "\n") {
				if strings.HasPrefix(sl, "fatal error: ") || strings.HasPrefix(sl, "panic: ") {
					msg = sl
					break
				}
			}
			if len(report) > 1<<16 {
				report = report[:1<<16]
			}
			return vk.Res{Panic: msg, Stack: report}, nil, nil
		}
	}
}

func isoShutdown() {
	if isoFree == nil {
		return
	}
	for {
		select {
		case ch := <-isoFree:
			if ch != nil {
				ch.stop()
			}
		default:
			return
		}
	}
}

func needsIsolation(c Case) bool {
	if os.Getenv(isoEnv) != "" {
		return false
	}
	for _, v := range c.Vars {
		if p := byName[v]; p != nil && p.Fatal {
			return true
		}
	}
	return c.Iso
}

// check is the oracle: the result is (out, nil) or ("", err); never a panic.
func check(r *vk.Run, c Case, nt bool, sub string) *vk.Fail {
	defer r.Watch("case", c)()
	var res vk.Res
	var perr, herr error
	if needsIsolation(c) {
		res, perr, herr = renderIsolated(c)
	} else {
		res, perr, herr = render(c)
	}
	if herr != nil {
		return &vk.Fail{Kind: "decode", Msg: herr.Error()}
	}
	if perr != nil {
		// the property quantifies over templates that parse
		r.Exclude("does-not-parse")
		noteParse(c, perr)
		return nil
	}
	key := ""
	if nt {
		key = c.Matrix + "|" + string(c.Tmpl)
	}
	if c.Matrix == "random" { // generator health: how far do random programs get
		switch {
		case res.Panicked():
			sub += "/panic"
		case res.Err != nil:
			sub += "/error"
		default:
			sub += "/ok"
		}
	}
	r.Count(key, sub)
	r.Sample(func() interface{} {
		return map[string]interface{}{"matrix": c.Matrix, "template": c.Tmpl, "vars": c.Vars, "result": res.String()}
	})
	switch {
	case res.Panicked():
		class := c.Matrix + "/" + siteKey(res) + ": " + msgKind(res.Panic)
		if strings.Contains(class, "reflect: index out of range") {
			// reflect does not say which bound was crossed; the inputs do. Without this the open
			// "negative index" class would hide an index >= len reaching reflect.
			class += indexTag(c)
		}
		if !replaying {
			record(class, c, res)
		}
		return &vk.Fail{Kind: "case", Class: class, Case: c,
			Msg: fmt.Sprintf("%s with %v panicked: %v  [site %s]", c.Tmpl, c.Vars, res.Panic, res.PanicSite())}
	case res.Err != nil && res.Out != "":
		return &vk.Fail{Kind: "case", Class: c.Matrix + "/output-with-error", Case: c,
			Msg: fmt.Sprintf("%s with %v returned both output %q and error %v", c.Tmpl, c.Vars, res.Out, res.Err)}
	}
	return nil
}

var (
	parseMu    sync.Mutex
	parseNotes = map[string]string{}
)

func noteParse(c Case, err error) {
	parseMu.Lock()
	if len(parseNotes) < 4000 {
		parseNotes[c.Matrix+" "+string(c.Tmpl)] = strings.SplitN(err.Error(), "\n", 2)[0]
	}
	parseMu.Unlock()
}

// ---- the matrices ---------------------------------------------------------------------------------------

var binops = []string{"+", "-", "*", "/", "<", ">", "<=", ">=", "==", "!=", "&&", "||", "~="}

func opNatural(kind, op string) bool {
	switch kind {
	case "int", "float":
		return op != "~=" && op != "&&" && op != "||"
	case "string":
		return op != "-" && op != "*" && op != "/" && op != "&&" && op != "||"
	case "bool":
		return op == "==" || op == "!=" || op == "&&" || op == "||"
	}
	return false
}

func matrixOps(r *vk.Run, b *builder) {
	for _, op := range binops {
		for _, l := range pool {
			for _, rr := range pool {
				if !pairOK(r, l, rr, true) && l != rr {
					continue
				}
				natural := !l.Odd && !rr.Odd && l.Kind == rr.Kind && opNatural(l.Kind, op)
				b.add(cell{mkCase("ops", fmt.Sprintf("<%%= %s %s %s %%>", l.spell(), op, rr.spell()), l, rr), !natural, "ops/" + op})
			}
		}
	}
	for _, x := range pool {
		b.add(cell{mkCase("ops", fmt.Sprintf("<%%= !%s %%>", x.spell()), x), x.Odd || x.Kind != "bool", "ops/!"})
		b.add(cell{mkCase("ops", fmt.Sprintf("<%%= !(%s == %s) %%>", x.spell(), x.spell()), x), x.Odd, "ops/!"})
	}
}

func indexNatural(c, i *pv) bool {
	if c.Odd || i.Odd {
		return false
	}
	switch c.Kind {
	case "slice", "array":
		return i.Kind == "int"
	case "map":
		return c.Key == i.Kind || c.Key == "any"
	}
	return false
}

func matrixIndex(r *vk.Run, b *builder) {
	reads := []string{"<%%= %s[%s] %%>", "<%%= %s[%s].F %%>", "<%%= %s[%s].Hello() %%>", "<%%= %s[%s][0] %%>", "<%%= if (%s[%s]) { %%>T<%% } %%>"}
	conts := append([]*pv{}, pool...)
	conts = append(conts, sub("pS", ".L"), sub("pS", ".M"), sub("sval", ".L"), sub("pS", ".Any"), sub("pS", ".P"))
	for _, c := range conts {
		for _, i := range pool {
			if !pairOK(r, c, i, true) && !(c.Kind == "map" && c.Wide && !c.Fatal && !i.Fatal) { // the further maps meet every key
				continue
			}
			nt := !indexNatural(c, i)
			for k, f := range reads {
				b.add(cell{mkCase("index", fmt.Sprintf(f, c.spell(), i.spell()), c, i), nt, fmt.Sprintf("index/read%d", k)})
			}
			vs := six()
			if r.Quick() && (c.Wide || i.Wide) {
				vs = vs[:3] // quick: a further value is written int, str and nil
			}
			for _, v := range vs {
				b.add(cell{mkCase("index", fmt.Sprintf("<%% %s[%s] = %s %%>ok", c.spell(), i.spell(), v.spell()), c, i, v), true, "index/write"})
			}
		}
	}
	// the assigned value from the whole pool, for a few natural (container, index) pairs
	for _, ci := range [][2]string{{"ints", "int"}, {"anys", "int0"}, {"arr", "int"}, {"parr", "int"}, {"msi", "str"}, {"msa", "str"}, {"mis", "int"}, {"maa", "str"}, {"nilmap", "str"}, {"strs", "int"}, {"structs", "int0"}, {"pstructs", "int0"}, {"lit_arr", "int"}, {"lit_hash", "str"}, {"str", "int"},
		{"arrany", "int0"}, {"parrany", "int0"}, {"mstringerelem", "str"}, {"errs", "int0"}, {"stringers", "int0"}, {"mfuncval", "str"}, {"mmap", "str"}, {"slarr", "int0"}, {"arrsl", "int0"}, {"bytes2", "int0"},
		{"marrkey", "arrkey"}, {"mifacekeys", "nan"}, {"mifacekeys", "arrunh"}, {"marranykey", "arranynan"}, {"funcs", "int0"}, {"ptrs", "int0"}, {"msnested", "str"}, {"ints3", "int0"}, {"mstringerkey", "stringer"}, {"bytes", "int0"}, {"runes", "int0"}} {
		c, i := P(ci[0]), P(ci[1])
		for _, v := range pool {
			// c[i] = c builds a collection that contains itself; emitting it used to overflow the stack
			// (fixed in /repo: the nesting depth of printed collections is bounded), so it is generated too
			b.add(cell{mkCase("index", fmt.Sprintf("<%% %s[%s] = %s %%><%%= %s[%s] %%>", c.spell(), i.spell(), v.spell(), c.spell(), i.spell()), c, i, v), true, "index/write-any"})
		}
	}
}

var members = []string{
	".F", ".N", ".P", ".P.F", ".P.P.F", ".T", ".Any", ".L", ".M", ".Fn", ".hidden", ".Nope", ".Nope.F", ".V",
	".Hello()", ".PHello()", ".Add(1)", ".Add()", ".Add(1, 2)", `.Add("x")`, ".Add(nil)", ".Var()", ".Var(1, 2)", `.Var("x")`, ".Var(nil)",
	".Fail()", ".Nope()", ".hidden()", ".F()", ".Fn(1)", ".Fn()", ".Next()", ".String()", ".HTML()", ".Interface()", `.Format("2006")`, ".Unix()",
	".L[0]", ".L[5]", `.M["k"]`, ".P.Hello()", ".Blk()", ".Blk() { %>x<% }", ".Hello() { %>x<% }", ".F.F", ".L.F", ".Len()", ".Hello().F", ".Hello", ".Add",
}

func matrixMember(r *vk.Run, b *builder) {
	for _, rcv := range pool {
		if rcv.Spell != "" {
			continue // member access on a literal does not parse
		}
		natural := !rcv.Odd && (rcv.Name == "sval" || rcv.Name == "pS")
		for _, m := range members {
			nt := !natural || strings.Contains(m, "Nope") || strings.Contains(m, "hidden")
			b.add(cell{mkCase("member", fmt.Sprintf("<%%= %s%s %%>", rcv.spell(), m), rcv), nt, "member/" + m})
		}
		b.add(cell{mkCase("member", fmt.Sprintf("<%% let y = %s.F %%><%%= if (%s.P) { %%>T<%% } %%>", rcv.spell(), rcv.spell()), rcv), !natural, "member/let+if"})
		for _, a := range pool {
			if pairOK(r, rcv, a, false) {
				b.add(cell{mkCase("member", fmt.Sprintf("<%%= %s.Add(%s) %%>", rcv.spell(), a.spell()), rcv, a), true, "member/.Add(x)"})
			}
		}
	}
}

func matrixFor(r *vk.Run, b *builder) {
	its := append([]*pv{}, pool...)
	for _, s := range []string{"range(1, 3)", "between(0, 3)", "until(2)", "until(intneg)", "groupBy(2, ints)", "groupBy(2, arr)", "groupBy(1, anys)", "fany(ints)", "fany(nil)", "fnilret()", "fpnilret()", "ufn(ints, 1)", "pS.L", "pS.M", "pS.P", "pS.T", "sval.Any", "anys[3]", "msa[str]", "[ints, nil, msi]"} {
		its = append(its, &pv{Name: "x", Spell: s, Kind: "derived", Odd: true})
	}
	deps := []*pv{P("ints"), P("arr"), P("anys"), P("fany"), P("fnilret"), P("fpnilret"), P("ufn"), P("pS"), P("sval"), P("msa"), P("str"), P("msi"), P("intneg")}
	forms := []string{
		"<%%= for (k, v) in %[1]s { %%>[<%%= k %%>=<%%= v %%>]<%% } %%>",
		"<%%= for (v) in %[1]s { %%><%%= v %%><%% } %%>",
		"<%% for (k, v) in %[1]s { %%>x<%% } %%>",
		"<%%= for (k, v) in %[1]s { %%>a<%% break %%>b<%% } %%>",
		"<%%= for (k, v) in %[1]s { %%>a<%% continue %%>b<%% } %%>",
		"<%%= for (k, v) in %[1]s { return v } %%>",
		"<%%= for (k, v) in %[1]s { %%><%%= v.F %%><%% } %%>",
		"<%%= for (k, v) in %[1]s { %%><%%= %[1]s[k] %%><%% } %%>",
		"<%%= for (k, v) in %[1]s { %%><%% %[1]s[k] = v %%><%% } %%>",
		"<%%= for (k, v) in %[1]s { %%><%%= k + 1 %%><%%= v + v %%><%% } %%>",
		"<%%= for (k, v) in %[1]s { %%><%%= for (j, w) in v { %%><%%= w %%><%% } %%><%% } %%>",
		"<%% let f = fn(x) { for (k, v) in x { return v } } %%><%%= f(%[1]s) %%>",
		"<%%= fblk() { %%><%%= for (k, v) in %[1]s { %%><%%= v %%><%% } %%><%% } %%>",
	}
	for _, it := range its {
		natural := !it.Odd && (it.Kind == "slice" || it.Kind == "array" || it.Kind == "map" || it.Kind == "iter")
		for k, f := range forms {
			vs := []*pv{it}
			if it.Name == "x" {
				vs = deps
			}
			if strings.Contains(f, "fblk") {
				vs = append(append([]*pv{}, vs...), P("fblk"))
			}
			c := mkCase("for", fmt.Sprintf(f, it.spell()), vs...)
			if it.Name == "x" {
				c.Vars = trimVars(c)
			}
			b.add(cell{c, !natural, fmt.Sprintf("for/form%d", k)})
		}
	}
	for _, a := range pool {
		for _, a2 := range pool {
			if !pairOK(r, a, a2, true) {
				continue
			}
			b.add(cell{mkCase("for", fmt.Sprintf("<%%= for (k, v) in %s { %%><%%= for (j, w) in %s { %%><%%= v %%><%%= w %%><%% } %%><%% } %%>", a.spell(), a2.spell()), a, a2), true, "for/nested"})
		}
	}
}

var identRe = regexp.MustCompile(`[A-Za-z_][A-Za-z0-9_]*`)

// trimVars keeps only the variables the template text mentions (smaller witnesses).
func trimVars(c Case) []string {
	used := map[string]bool{}
	for _, id := range identRe.FindAllString(string(c.Tmpl), -1) {
		used[id] = true
	}
	var out []string
	for _, v := range c.Vars {
		if used[v] {
			out = append(out, v)
		}
	}
	return out
}

func argLists(from []*pv, max int) [][]*pv {
	out := [][]*pv{{}}
	prev := [][]*pv{{}}
	for n := 1; n <= max; n++ {
		var next [][]*pv
		for _, p := range prev {
			for _, a := range from {
				l := append(append([]*pv{}, p...), a)
				next = append(next, l)
			}
		}
		out = append(out, next...)
		prev = next
	}
	return out
}

func spellArgs(args []*pv) string {
	var s []string
	for _, a := range args {
		s = append(s, a.spell())
	}
	return strings.Join(s, ", ")
}

func callCase(matrix, callee string, args []*pv, block bool, deps ...*pv) Case {
	body := fmt.Sprintf("<%%= %s(%s) %%>", callee, spellArgs(args))
	if block {
		body = fmt.Sprintf("<%%= %s(%s) { %%>B<%% } %%>", callee, spellArgs(args))
	}
	return mkCase(matrix, body, append(append([]*pv{}, deps...), args...)...)
}

func callable(p *pv) bool {
	return p.Kind == "func" || p.Kind == "ufn" || p.Kind == "derived" || p.Kind == "ptr"
}

// takesTwo: a template-defined function, a derived callee, or a Go function (possibly behind pointers) that is
// variadic or has at least two parameters
func takesTwo(p *pv) bool {
	if p.Kind == "ufn" || p.Kind == "derived" {
		return true
	}
	if p.Mk == nil || p.Heavy || p.Fatal {
		return false
	}
	t := reflect.TypeOf(p.Mk())
	for t != nil && t.Kind() == reflect.Ptr {
		t = t.Elem()
	}
	return t != nil && t.Kind() == reflect.Func && (t.IsVariadic() || t.NumIn() >= 2)
}

func matrixCall(r *vk.Run, b *builder) {
	callees := append([]*pv{}, pool...)
	callees = append(callees, sub("pS", ".Add"), sub("pS", ".Var"), sub("pS", ".Fn"), sub("sval", ".Fn"), sub("szero", ".Fn"), sub("pS", ".PHello"), sub("nilpS", ".PHello"), sub("pS", ".Blk"), sub("pS", ".F"), sub("anys", "[0]"))
	lists := argLists(six(), 3)
	for _, cal := range callees {
		for _, args := range lists {
			if r.Quick() && len(args) == 3 && cal.Wide && !callable(cal) {
				continue // quick: a further value that is not callable is called with 0-2 arguments
			}
			for _, block := range []bool{false, true} {
				b.add(cell{callCase("call", cal.spell(), args, block, cal), true, fmt.Sprintf("call/%d args", len(args))})
			}
		}
		for _, a := range pool {
			if !pairOK(r, cal, a, true) && !(callable(cal) && !(r.Quick() && a.Fatal && !core[cal])) {
				continue
			}
			b.add(cell{callCase("call", cal.spell(), []*pv{a}, false, cal), true, "call/1 arg, whole pool"})
			b.add(cell{callCase("call", cal.spell(), []*pv{P("str"), a}, false, cal), true, "call/2 args, whole pool"})
			b.add(cell{callCase("call", cal.spell(), []*pv{P("int"), a}, false, cal), true, "call/2 args, whole pool"})
		}
	}
	if r.Thorough() { // two arguments, both from the whole pool
		for _, cal := range callees {
			if !takesTwo(cal) { // what is not callable, or takes fewer than two arguments, fails before its arguments are looked at (1 argument: whole pool, above)
				continue
			}
			for _, a := range pool {
				for _, a2 := range pool {
					if pairOK(r, a, a2, false) {
						b.add(cell{callCase("call", cal.spell(), []*pv{a, a2}, false, cal), true, "call/2 args, pool x pool"})
					}
				}
			}
		}
	}
	// calls whose result is used: chained, indexed, as operand
	for _, cal := range pool {
		for _, f := range []string{"<%%= %s().F %%>", "<%%= %s() + 1 %%>", "<%%= %s()[0] %%>", "<%%= if (%s()) { %%>T<%% } %%>", "<%% let y = %s() %%><%%= y %%>", "<%%= fany(%s) %%>", "<%%= fany(%s)() %%>", "<%%= len(%s()) %%>"} {
			b.add(cell{mkCase("call", fmt.Sprintf(f, cal.spell()), cal, P("fany")), true, "call/result used"})
		}
	}
}

func helperNames() []string {
	var hs []string
	for k := range plush.Helpers.All() {
		hs = append(hs, k)
	}
	sort.Strings(hs)
	return hs
}

func matrixHelper(r *vk.Run, b *builder) {
	dozen := map[*pv]bool{}
	for _, p := range append(six(), eight()...) {
		dozen[p] = true
	}
	l2 := argLists(pool, 2)
	{ // quick: 0-1 arguments from the whole pool; pairs where at least one side is one of every third value of the original pool
		third := map[*pv]bool{}
		for i, p := range pool {
			if !p.Wide && (i%3 == 0 || p.Odd && i%2 == 0) {
				third[p] = true
			}
		}
		var keep [][]*pv
		for _, l := range l2 {
			switch {
			case len(l) < 2:
			case !pairOK(r, l[0], l[1], false):
				continue
			case r.Quick() && !l[0].Wide && !l[1].Wide && !third[l[0]] && !third[l[1]]:
				continue
			case r.Quick() && (l[0].Wide && !dozen[l[1]] || l[1].Wide && !dozen[l[0]]):
				continue // quick: a further value meets twelve partners per helper
			}
			keep = append(keep, l)
		}
		l2 = keep
	}
	l3 := argLists(eight(), 3)
	if r.Thorough() { // three arguments from 24 kinds
		more := eight()
		for i, p := range pool {
			if i%4 == 0 && !p.Wide && !containsPV(more, p) {
				more = append(more, p)
			}
		}
		more = append(more, P("nilmsa"), P("hctxmap"), P("mifacekeys"), P("fvany"), P("strbadutf"), P("deepslice"))
		l3 = argLists(more, 3)
	}
	for _, h := range helperNames() {
		for _, args := range l2 {
			b.add(cell{callCase("helper", h, args, false), true, "helper/" + h})
			if len(args) <= 1 {
				b.add(cell{callCase("helper", h, args, true), true, "helper/" + h})
			}
		}
		for _, args := range l3 {
			if len(args) == 3 {
				b.add(cell{callCase("helper", h, args, false), true, "helper/" + h})
			}
		}
		for _, a := range eight() {
			for _, a2 := range eight() {
				b.add(cell{callCase("helper", h, []*pv{a, a2}, true), true, "helper/" + h})
			}
		}
	}
	// option maps with wrong-typed values
	for _, a := range pool {
		for _, a2 := range pool {
			if !pairOK(r, a, a2, false) {
				continue
			}
			b.add(cell{mkCase("helper", fmt.Sprintf(`<%%= truncate(strlong, {"size": %s, "trail": %s}) %%>`, a.spell(), a2.spell()), P("strlong"), a, a2), true, "helper/truncate options"})
		}
		for _, f := range []string{
			`<%%= truncate(strlong, {"size": %s}) %%>`, `<%%= truncate(strlong, {"trail": %s}) %%>`, `<%%= truncate(strlong, {"size": 3, "trail": %s}) %%>`,
			`<%%= truncate(strlong, {"size": %s, "trail": "…"}) %%>`, `<%%= truncate(strlong, %s) %%>`,
			`<%%= partial("p", {"layout": %s}) %%>`, `<%%= partial("p", {"k": %s}) %%>`, `<%%= partial(%s, {"layout": "p"}) %%>`,
			`<%% contentFor("c") { %%>B<%% } %%><%%= contentOf("c", {"k": %s}) %%>`, `<%% contentFor("c") { %%>B<%% } %%><%%= contentOf("c", %s) %%>`,
			`<%% contentFor(%s) { %%>B<%% } %%><%%= contentOf("c") %%>`, `<%% contentFor("c") { %%>B<%%= k %%><%% } %%><%%= contentOf(%s, {"k": 1}) %%>`,
			`<%%= contentOf("zz", {"k": %s}) { %%>D<%%= k %%><%% } %%>`, `<%% let len = %s %%><%%= len("abc") %%>`,
			`<%%= for (v) in groupBy(2, %s) { %%><%%= v %%><%% } %%>`, `<%%= for (v) in groupBy(%s, ints) { %%><%%= v %%><%% } %%>`,
			`<%%= for (v) in until(len(%s)) { %%><%%= v %%><%% } %%>`, `<%%= len(%s) + 1 %%>`,
		} {
			vs := []*pv{a}
			for _, d := range []string{"strlong", "ints"} {
				if strings.Contains(f, d) {
					vs = append(vs, P(d))
				}
			}
			b.add(cell{mkCase("helper", fmt.Sprintf(f, a.spell()), vs...), true, "helper/option maps, blocks, composition"})
		}
	}
}

func matrixStmt(r *vk.Run, b *builder) {
	forms := []string{
		"<%%= %s %%>", "<%% %s %%>", "<%% let y = %s %%><%%= y %%>", "<%% let y = 1 %%><%% y = %s %%><%%= y %%>", "<%% %[1]s = %[1]s %%>",
		"<%%= if (%s) { %%>T<%% } else { %%>F<%% } %%>", "<%%= if (%s == nil) { %%>T<%% } %%>", "<%%= if (false) { %%>a<%% } else if (%s) { %%>T<%% } %%>",
		"<%% let f = fn() { return %s } %%><%%= f() %%>", "<%% let f = fn(q) { return q } %%><%%= f(%s) %%>", "<%% let f = fn() { %%><%%= %s %%><%% } %%><%%= f() %%>",
		"<%%= [%[1]s, %[1]s] %%>", `<%%= {"k": %s} %%>`, `<%%= {"k": %s}["k"] %%>`, "<%%= [%s][0] %%>",
		"<%%= for (i) in [1, 2] { %%><%%= %s %%><%% } %%>", "<%%= fblk() { %%><%%= %s %%><%% } %%>", "<%%= if (true) { %%><%%= %s %%><%% } %%>", "<%%= if (true) { return %s } %%>",
		"<%% return %s %%>", "<%% let TIME_FORMAT = %s %%><%%= tim %%>", "<%% %s = 1 %%>ok", "<%% let y = %s %%><%% y[0] = 1 %%><%%= y %%>",
	}
	for _, x := range pool {
		for k, f := range forms {
			vs := []*pv{x}
			if strings.Contains(f, "fblk") {
				vs = append(vs, P("fblk"))
			}
			if strings.Contains(f, "tim") {
				vs = append(vs, P("tim"))
			}
			if strings.Contains(f, "= 1 %%>ok") && x.Mk == nil && x.Prelude == "" {
				continue // assignment to a literal is a parse-level matter
			}
			b.add(cell{mkCase("stmt", fmt.Sprintf(f, x.spell()), vs...), x.Odd, fmt.Sprintf("stmt/form%d", k)})
		}
	}
}

// matrixEndless: template programs that would never come to an end on their own - a function calling itself
// (directly, mutually, through a parameter), a stored block that renders itself, a partial that includes itself
// (directly, through another partial, through its layout). "Executing the template returns output or an error":
// each must end in an error, in bounded time. The finite neighbours (deep but terminating) must render.
func matrixEndless(r *vk.Run, b *builder) {
	endless := []string{
		`<% let f = fn() { return f() } %><%= f() %>`,
		`<% let f = fn(n) { return 1 + f(n + 1) } %><%= f(0) %>`,
		`<% let g = fn(n) { return h(n) } %><% let h = fn(n) { return g(n) } %><%= g(1) %>`,
		`<% let ap = fn(k) { return k(k) } %><%= ap(ap) %>`,
		`<% let f = fn() { %><%= f() %><% } %><%= f() %>`,
		`<% contentFor("selfc") { %>x<%= contentOf("selfc") %><% } %><%= contentOf("selfc") %>`,
		`<% contentFor("ca") { %>a<%= contentOf("cb") %><% } %><% contentFor("cb") { %>b<%= contentOf("ca") %><% } %><%= contentOf("ca") %>`,
		`<%= partial("selfp") %>`,
		`<%= partial("pinga") %>`,
		`<%= partial("selflay") %>`,
		`<% let f = fn() { %><%= partial("selfp") %><% } %><%= f() %>`,
	}
	for _, t := range endless {
		// in a child process: without a bound the program ends in a fatal stack overflow, which kills the process it runs in
		b.add(cell{Case{Matrix: "endless", Tmpl: vk.Text(t), Iso: true}, true, "endless/must fail"})
	}
	finite := []string{
		`<% let f = fn(n) { if (n == 0) { return 0 } return 1 + f(n - 1) } %><%= f(300) %>`,
		`<% let ev = fn(n) { if (n == 0) { return true } return od(n - 1) } %><% let od = fn(n) { if (n == 0) { return false } return ev(n - 1) } %><%= ev(200) %>`,
		`<%= partial("countp", {n: 1}) %>`,
		`<% contentFor("once") { %>x<% } %><%= for (i) in [1, 2, 3] { %><%= contentOf("once") %><% } %>`,
	}
	for _, t := range finite {
		b.add(cell{Case{Matrix: "endless", Tmpl: vk.Text(t)}, true, "endless/finite neighbour"})
	}
}

// ---- further constructs ---------------------------------------------------------------------------------

var members2 = []string{
	".X", ".y", ".Z", ".Deep", ".Deep.F", ".inner", ".inner.X", ".InnerM()", ".Namer", ".Name()", ".Name", ".Tag", ".f", ".f()", ".m", ".p", ".i", ".s", ".Pub",
	".F0()", ".F1(1)", ".F1()", ".FNil()", ".FV(1, 2)", ".M(1)", ".M.Twice(1)", ".Any()", ".F0", ".FNil", ".A", ".A[0]", ".A[5]", ".PA", ".PA[0]", ".AA[0][1]", ".AA[0]", ".IA[1]", ".IA[0][0]",
	".Next", ".Next.Next.V", ".Next.Next.Next.Next", ".Kids", ".Kids[0].V", ".Kids[0].Kids[0].Kids", `.Up["a"].V`, `.Up["zz"].V`, ".String", ".Valid", ".Twice(2)", ".Twice()", ".Int64()", ".Seconds()", ".Value()",
	".Err", ".St", ".St.String()", ".Any.F", ".Any[0]", ".I", ".S", ".S.F", ".S.Hello()", ".IsNil()", ".Kind()", ".Bool()", ".Index(0)", ".Sign()", ".New()", `.Has("a")`, `.Value("a")`, ".Done()", ".Err()",
	".KBool", ".KInt8", ".KUint64", ".KUintptr", ".KFloat32", ".KCplx", ".KStr", ".KPInt", ".KPPS", ".KPPS.F", ".KPNil", ".KPNil.F", ".KIface", ".KIfaceP", ".KIfaceP.F", ".KErr", ".KErr.Error()", ".KStrnger", ".KStrnger.String()",
	".KSlice", ".KSlice[0]", ".KNilSl", ".KNilSl[0]", ".KArr", ".KArr[1].F", ".KArr[0].F", ".KMap", ".KMap[1]", ".KNilMap", `.KNilMap["a"]`, ".KChan", ".KFunc", ".KFunc(1, nil)", ".KNilFunc", ".KNilFunc()", ".KUnsafe", ".KTime", ".KTime.Year()",
	".KPTime", ".KPTime.Unix()", ".KDur", ".KDur.String()", ".KRV", ".KRV.Int()", ".KAnon", ".KAnon.In", ".KAnon.In.F", ".KIter", ".KIter.Next()", ".KHTML",
	".None()", ".Three()", ".TwoNoErr()", ".ErrOnly()", ".Iface(nil)", ".Iface(1).F", ".Vari(1)", ".Vari()", ".Vari(1, nil, 2)", `.Vari("x")`, ".Opt()", `.Opt({"a": 1})`, ".Opt(nil)", ".Help()", ".Help() { %>B<% }", `.OptHelp("s")`, `.OptHelp("s", {"a": 1}) { %>B<% }`,
	".Self().Self().N", ".PSelf().N", ".NilP().N", ".NilP().Self()", ".FnRet()", ".FnRet()(1)", ".Iter()", ".N2()", ".N2", ".PtrRecv(1)", ".PtrRecv()", ".PtrRecv", ".N", ".N()",
	".Block()", ".HasBlock()", `.Render("<%= 1 %>")`, ".Context", ".BlockWith(nil)", `.Exec(nil)`, ".Input", ".Clone()", ".Error()",
	".Hello()()", ".Fn(1)(2)", ".L[0][0]", ".L[0]()", `.M["k"]["k"]`, ".P.L[0]", ".P.P.L[0]", ".PHello().F", ".Self", ".String().String()", ".T.Unix()", ".T.Year", ".Any.Any", ".Fn.F",
}

// matrixTarget: assignment to every kind of target: c[i][j] = v, c.Member[i] = v, c.Member[i][j] = v, c.F = v
func matrixTarget(r *vk.Run, b *builder) {
	idx := []*pv{P("int0"), P("int"), P("intneg"), P("lit_str"), P("nil"), P("float64"), P("unhash"), P("arrkey")}
	vals := []*pv{P("int"), P("str"), P("nil"), P("sval"), P("ints"), P("f0")}
	for _, c := range pool {
		if c.Spell != "" && c.Kind != "slice" && c.Kind != "map" {
			continue
		}
		for _, i := range idx {
			for _, j := range idx {
				for _, v := range vals[:r.Pick(3, 6)] {
					b.add(cell{mkCase("target", fmt.Sprintf("<%% %[1]s[%[2]s][%[3]s] = %[4]s %%><%%= %[1]s[%[2]s][%[3]s] %%>", c.spell(), i.spell(), j.spell(), v.spell()), c, i, j, v), true, "target/c[i][j] = v"})
				}
			}
		}
		b.add(cell{mkCase("target", fmt.Sprintf("<%% %[1]s[0][0][0] = 1 %%><%%= %[1]s[0][0][0] %%>", c.spell()), c), true, "target/c[0][0][0] = 1"})
		if c.Spell != "" {
			continue
		}
		ms := []string{".L", ".M", ".P.L", ".P.M", ".Any", ".A", ".PA", ".IA", ".AA[0]", ".Kids", ".Up", ".Next.Kids", ".s", ".m", ".F", ".Nope", ".Hello()", ".Err", ".Fn"}
		if r.Quick() && c.Wide && c.Kind != "struct" && c.Kind != "ptr" && c.Kind != "nilptr" && c.Kind != "map" {
			ms = ms[:2] // quick: a further value that has no members meets two member targets
		}
		for _, m := range ms {
			for _, i := range idx[:r.Pick(6, 8)] {
				for _, v := range vals[:r.Pick(3, 6)] {
					b.add(cell{mkCase("target", fmt.Sprintf("<%% %[1]s%[2]s[%[3]s] = %[4]s %%><%%= %[1]s%[2]s[%[3]s] %%>", c.spell(), m, i.spell(), v.spell()), c, i, v), true, "target/c.m[i] = v"})
				}
			}
		}
		for _, v := range pool {
			if !pairOK(r, c, v, false) {
				continue
			}
			b.add(cell{mkCase("target", fmt.Sprintf("<%% %[1]s.F = %[2]s %%><%%= %[1]s.F %%>", c.spell(), v.spell()), c, v), true, "target/c.F = v"})
			b.add(cell{mkCase("target", fmt.Sprintf("<%% let F = 1 %%><%% %[1]s.F = %[2]s %%><%%= F %%>", c.spell(), v.spell()), c, v), true, "target/c.F = v"})
		}
	}
}

// matrixChain: index chains, calls on results, members of results
func matrixChain(r *vk.Run, b *builder) {
	idx := []*pv{P("int0"), P("int"), P("lit_str"), P("nil"), P("intneg")}
	forms := []string{
		"<%%= %s()() %%>", "<%%= %s()()() %%>", "<%%= %s(1)(2) %%>", "<%%= %s[0]() %%>", `<%%= %s["a"]() %%>`, "<%%= %s[0]()() %%>", "<%%= %s[0][0]() %%>", `<%%= %s["a"]["a"] %%>`,
		"<%%= %s()[0][0] %%>", "<%%= %s()[0]() %%>", "<%%= %s[0](1, 2) %%>", `<%%= %s["abc"](nil) %%>`, "<%%= %s[0].F %%>", "<%%= %s[0].Hello() %%>", "<%%= %s[0].L[0] %%>", "<%%= %s[0].P.F %%>",
		"<%%= %s[0][0].F %%>", "<%%= %s[0].Kids[0].V %%>", "<%%= %s[1] %%>", "<%%= %s[1][0] %%>", "<%%= %s[1].F %%>", "<%%= %s[1]() %%>", "<%%= len(%s[0]) %%>", "<%%= for (v) in %s[0] { %%><%%= v %%><%% } %%>",
		"<%%= fany(%s)[0] %%>", "<%%= fany(%s)[0][0] %%>", "<%%= fany(fany(%s))() %%>", "<%% let y = %s %%><%%= y[0][0] %%><%%= y()() %%>", "<%% let y = %s %%><%%= y.F %%><%%= y.Hello() %%>",
		"<%% let g = fn(q) { return q } %%><%%= g(%s)() %%>", "<%% let g = fn(q) { return q } %%><%%= g(%s)[0] %%>", "<%% let g = fn(q) { return q } %%><%%= g(g)(%s) %%>", "<%% let g = fn(q) { return q() } %%><%%= g(%s) %%>",
		"<%% let g = fn(q) { return q[0] } %%><%%= g(%s) %%>", "<%% let g = fn(q) { return fn() { return q } } %%><%%= g(%s)() %%>", "<%% let g = fn(q) { return fn() { return q } } %%><%%= g(%s)()() %%>",
		"<%%= fn() { return %s }() %%>", "<%%= fn(q) { return q }(%s) %%>", "<%%= fn(q) { return q[0] }(%s) %%>", "<%%= fn(q) { %%><%%= q %%><%% }(%s) %%>",
	}
	for _, c := range pool {
		for k, f := range forms {
			if c.Spell != "" && strings.Contains(f, ".") {
				continue
			}
			b.add(cell{mkCase("chain", fmt.Sprintf(f, c.spell()), c, P("fany")), true, fmt.Sprintf("chain/form%d", k)})
		}
		for _, i := range idx {
			for _, j := range idx {
				for _, k := range idx {
					b.add(cell{mkCase("chain", fmt.Sprintf("<%%= %s[%s][%s][%s] %%>", c.spell(), i.spell(), j.spell(), k.spell()), c, i, j, k), true, "chain/c[i][j][k]"})
				}
			}
		}
		if c.Spell != "" {
			continue
		}
		for _, m := range members2 {
			b.add(cell{mkCase("chain", fmt.Sprintf("<%%= %s%s %%>", c.spell(), m), c), true, "chain/member " + m})
		}
		for _, a := range six() {
			for _, f := range []string{"<%%= %s()(%s) %%>", "<%%= %s[0](%s) %%>", `<%%= %s["a"](%s) %%>`, "<%%= %s(%s)() %%>", "<%%= %s(%s)[0] %%>", "<%%= %s(%s).F %%>", "<%%= %s.F0(%s) %%>", "<%%= %s.M(%s) %%>", "<%%= %s.FV(%s, %[2]s) %%>"} {
				b.add(cell{mkCase("chain", fmt.Sprintf(f, c.spell(), a.spell()), c, a), true, "chain/with argument"})
			}
		}
	}
}

// matrixOdd: loop variables re-assigned in the body, the iterable re-assigned or written while it is iterated,
// break / continue / return in odd positions, pool values as hash keys, context keys the engine itself reads
func matrixOdd(r *vk.Run, b *builder) {
	forms := []string{
		`<%%= for (k, v) in %[1]s { %%><%% v = 1 %%><%% k = "s" %%><%%= v %%><%%= k %%><%% } %%>`,
		`<%%= for (k, v) in %[1]s { %%><%% let v = k %%><%% let k = %[1]s %%><%%= v %%><%% } %%>`,
		`<%%= for (k, v) in %[1]s { %%><%% %[1]s = 1 %%><%%= v %%><%% } %%><%%= %[1]s %%>`,
		`<%%= for (k, v) in %[1]s { %%><%% %[1]s[k] = nil %%><%% } %%><%%= %[1]s %%>`,
		`<%%= for (k, v) in %[1]s { %%><%% %[1]s["new"] = 1 %%><%% %[1]s[0] = 1 %%><%%= v %%><%% } %%>`,
		`<%%= for (k, v) in %[1]s { %%><%% let k = nil %%><%% let v = nil %%><%% } %%>`,
		`<%%= for (k, k) in %[1]s { %%><%%= k %%><%% } %%>`,
		`<%%= for (nil, len) in %[1]s { %%><%%= len(nil) %%><%% } %%>`,
		`<%%= for (k, v) in %[1]s { let y = continue } %%>`,
		`<%%= for (k, v) in %[1]s { return break } %%>`,
		`<%%= for (k, v) in %[1]s { return continue } %%>`,
		`<%%= for (k, v) in %[1]s { let y = break %%>x<%% } %%>`,
		`<%%= for (k, v) in %[1]s { if (v) { break } else { continue } } %%>`,
		`<%%= for (k, v) in %[1]s { [break, v] } %%>`,
		`<%%= for (k, v) in %[1]s { {"a": continue} } %%>`,
		`<%%= for (k, v) in %[1]s { fany(break) } %%>`,
		`<%%= for (k, v) in %[1]s { %%><%%= fany(continue) %%><%% } %%>`,
		`<%%= for (k, v) in %[1]s { %%><%%= v[continue] %%><%% } %%>`,
		`<%%= for (k, v) in %[1]s { %%><%%= break + 1 %%><%% } %%>`,
		`<%%= for (k, v) in %[1]s { %%><%%= "s" + continue %%><%% } %%>`,
		`<%%= for (k, v) in %[1]s { %%><%%= len(break) %%><%% } %%>`,
		`<%%= for (k, v) in %[1]s { %%><%%= inspect(break) %%><%%= toJSON(continue) %%><%% } %%>`,
		`<%%= for (k, v) in %[1]s { %%><%% %[1]s[break] = 1 %%><%% } %%>`,
		`<%%= for (k, v) in %[1]s { %%><%% %[1]s[k] = continue %%><%% } %%><%%= %[1]s %%>`,
		`<%%= for (k, v) in %[1]s { %%><%%= !break %%><%%= break == continue %%><%%= nil == break %%><%% } %%>`,
		`<%%= for (k, v) in %[1]s { %%><%%= for (a, b) in break { %%>x<%% } %%><%% } %%>`,
		`<%%= for (k, v) in %[1]s { %%><%%= break() %%><%% } %%>`,
		`<%%= for (k, v) in %[1]s { %%><%%= continue.F %%><%% } %%>`,
		`<%%= for (k, v) in %[1]s { %%><%%= fblk() { %%>a<%% break %%>b<%% } %%>c<%% } %%>`,
		`<%%= for (k, v) in %[1]s { %%><%%= fblk() { %%>a<%% return v %%>b<%% } %%>c<%% } %%>`,
		`<%%= for (k, v) in %[1]s { %%><%% let f = fn() { return v } %%><%%= f() %%><%% } %%>`,
		`<%%= for (k, v) in %[1]s { %%><%%= for (a, b) in %[1]s { %%><%% break %%><%% } %%><%% continue %%>z<%% } %%>`,
		`<%%= for (k, v) in %[1]s { %%><%%= if (true) { %%>a<%% break %%><%% } %%>b<%% } %%>`,
		`<%%= for (k, v) in %[1]s { %%><%%= if (true) { return v } %%>b<%% } %%>tail`,
		`<%% let f = fn(q) { for (k, v) in q { if (v) { return v } } return 0 } %%><%%= f(%[1]s) %%>`,
		`<%% let f = fn(q) { for (k, v) in q { %%>x<%% continue %%>y<%% } } %%><%%= f(%[1]s) %%>`,
		`<%% let f = fn(len) { return len(%[1]s) } %%><%%= f(%[1]s) %%>`,
		`<%% let f = fn(q, q) { return q } %%><%%= f(1, %[1]s) %%>`,
		`<%% let f = fn(q) { q = 1 %%><%% return q } %%><%%= f(%[1]s) %%><%%= %[1]s %%>`,
		`<%%= {%[1]s: 1} %%>`, `<%%= {%[1]s: %[1]s}["%[1]s"] %%>`, `<%% let h = {"a": %[1]s} %%><%% h["b"] = h["a"] %%><%%= h["b"] %%>`,
		`<%%= if (%[1]s) { return %[1]s } else { %%>e<%% } %%>tail`,
		`<%%= if (%[1]s == %[1]s && %[1]s != nil || !%[1]s) { %%>T<%% } %%>`,
		`<%%= if (%[1]s) { %%>a<%% } else if (%[1]s[0]) { %%>b<%% } else if (%[1]s.F) { %%>c<%% } else { %%><%%= %[1]s %%><%% } %%>`,
		`<%% let contentType = %[1]s %%><%%= partial("p") %%>`,
		`<%% let contentType = "application/javascript" %%><%%= partial(%[1]s) %%>`,
		`<%% let partialFeeder = %[1]s %%><%%= partial("p") %%>`,
		`<%% let nil = %[1]s %%><%%= nil %%><%%= nil == nil %%><%%= unk == nil %%>`,
		`<%% let yield = %[1]s %%><%%= partial("p", {"layout": "p"}) %%>`,
		`<%% let TIME_FORMAT = %[1]s %%><%%= ptim %%><%%= [tim] %%>`,
		`<%% let fblk = %[1]s %%><%%= fblk() { %%>B<%% } %%>`,
		`<%% let x = %[1]s %%><%% let x = [x, x] %%><%% let x = [x, x] %%><%%= x %%><%%= inspect(x) %%><%%= toJSON(x) %%>`,
		`<%% let x = [%[1]s] %%><%% x[0] = x %%><%%= x %%>`,
		`<%% let x = {"a": %[1]s} %%><%% x["a"] = x %%><%%= x %%>`,
		`<%%= %[1]s %%><%%= raw(inspect(%[1]s)) %%><%%= "" + %[1]s %%><%%= json(%[1]s) %%>`,
		`<%%= "s" ~= "" + %[1]s %%>`,
		`<%%= fstash() { %%>[<%%= %[1]s %%>]<%% } %%><%%= stashed.Block() %%><%%= stashed.BlockWith(stashed.New()) %%><%%= for (v) in [1, 2] { %%><%%= stashed.Block() %%><%% } %%><%%= stashed.HasBlock() %%>`,
		`<%%= fstash() %%><%%= stashed.Block() %%><%%= stashed.Render(%[1]s) %%>`,
		`<%%= fstash() { %%>B<%% } %%><%%= contentFor("c", stashed) %%><%%= contentOf("c") %%><%%= partial("p", {"k": %[1]s}, stashed) %%><%%= htmlEscape("s", stashed) %%><%%= stashed %%><%%= inspect(stashed) %%>`,
		`<%%= for (v) in %[1]s { %%><%% contentFor("c") { %%>[<%%= v %%>]<%% } %%><%% } %%><%%= contentOf("c") %%>`,
		`<%% let f = fn(q) { %%><%% contentFor("c") { %%><%%= q %%><%% } %%><%% } %%><%% f(%[1]s) %%><%%= contentOf("c") %%><%%= contentOf("c", {"q": 1}) %%>`,
		`<%% contentFor("c") { %%><%%= contentOf("d") %%><%% } %%><%% contentFor("d") { %%><%%= %[1]s %%><%% } %%><%%= contentOf("c") %%>`,
		`<%%= partial(%[1]s, {"layout": %[1]s}) %%>`,
		`<%%= ftypednilerr() %%>`, `<%%= ftypederr() %%><%%= %[1]s %%>`,
		`<%%= contentFor("c") { %%><%%= %[1]s %%><%% } %%><%%= contentOf("c") %%><%%= contentOf("c", {"%[1]s": 1}) %%>`,
		`<%% contentFor("c") { %%><%%= for (v) in q { %%><%%= v %%><%% } %%><%% } %%><%%= contentOf("c", {"q": %[1]s}) %%>`,
	}
	deps := []*pv{P("fany"), P("fblk"), P("tim"), P("ptim"), P("fstash"), P("ftypednilerr"), P("ftypederr")}
	for _, x := range pool {
		for k, f := range forms {
			if x.Spell != "" && (strings.Contains(f, "%[1]s = ") || strings.Contains(f, "%[1]s[k] = ") || strings.Contains(f, "] = ") || strings.Contains(f, "{%[1]s")) {
				continue
			}
			c := mkCase("odd", fmt.Sprintf(f, x.spell()), append([]*pv{x}, deps...)...)
			c.Vars = trimVars(c)
			b.add(cell{c, true, fmt.Sprintf("odd/form%d", k)})
		}
	}
}

// matrixPrefix: the prefix operators "-" and "!" over the whole pool (incl. nil, the unknown identifier, typed
// nils), spelled in every position an operand can take, applied to calls, absent map entries and nil members,
// doubled, and nested in infix expressions. (On the current tree "-x" is the error "unknown operator -" for
// every x; the cells exist so that an implementation of unary minus is met by every operand kind.)
func matrixPrefix(r *vk.Run, b *builder) {
	forms := []string{
		"<%%= -%s %%>", "<%%= !%s %%>", "<%%= - %s %%>", "<%%= ! %s %%>", "<%%= !!%s %%>", "<%%= --%s %%>", "<%%= -(%s) %%>", "<%%= !(%s) %%>", "<%%= -!%s %%>", "<%%= !-%s %%>", "<%%= -(-(%s)) %%>",
		"<%%= -%s() %%>", "<%%= !%s() %%>", "<%%= -%s(1) %%>", `<%%= -%s["absent"] %%>`, `<%%= !%s["absent"] %%>`, "<%%= -%s[0] %%>", "<%%= -%s[5] %%>", "<%%= -fany(%s) %%>", "<%%= -len(%s) %%>",
		"<%%= 1 - -%s %%>", "<%%= 1 + -%s %%>", `<%%= "s" + -%s %%>`, "<%%= -%s - 1 %%>", "<%%= -%s + 1 %%>", `<%%= -%s + "s" %%>`, "<%%= -%[1]s == -%[1]s %%>", "<%%= -%[1]s * -%[1]s %%>", "<%%= 2.5 / -%s %%>", "<%%= nil == -%s %%>",
		"<%%= %[1]s || -%[1]s %%>", "<%%= !%[1]s && -%[1]s %%>", "<%%= -%[1]s || !%[1]s %%>", "<%%= %[1]s ~= -%[1]s %%>", "<%%= 1 < -%s %%>",
		"<%%= if (-%s) { %%>T<%% } else { %%>F<%% } %%>", "<%%= if (!%s) { %%>T<%% } else { %%>F<%% } %%>", "<%% let y = -%s %%><%%= y %%><%%= -y %%>", "<%% let y = 1 %%><%% y = -%s %%><%%= y %%>",
		"<%%= for (v) in -%s { %%>x<%% } %%>", "<%%= for (k, v) in %[1]s { %%><%%= -v %%><%%= -k %%><%%= !v %%><%% } %%>", "<%%= fany(-%s) %%>", "<%%= f1(-%s) %%>", "<%%= [-%[1]s, !%[1]s] %%>", `<%%= {"a": -%s}["a"] %%>`,
		"<%% return -%s %%>", "<%% let f = fn(q) { return -q } %%><%%= f(%s) %%>", "<%% let f = fn(q) { return !q } %%><%%= f(%s) %%>", "<%%= ints[-%s] %%>", "<%% ints[0] = -%s %%><%%= ints %%>", `<%%= truncate("abcdef", {"size": -%s}) %%>`,
		"<%%= until(-%s) %%>", "<%%= fblk() { %%><%%= -%s %%><%% } %%>",
	}
	memberForms := []string{"<%%= -%s.P %%>", "<%%= !%s.P %%>", "<%%= -%s.N %%>", "<%%= -%s.F %%>", "<%%= -%s.Nope %%>", "<%%= -%s.P.P %%>", "<%%= -%s.Add(1) %%>", "<%%= -%s.Hello() %%>", "<%%= -%s.L[0] %%>", `<%%= -%s.M["absent"] %%>`, "<%%= -%s.Any %%>", "<%%= -%s.T %%>", "<%%= 1 - -%s.N %%>", `<%%= "s" + -%s.P %%>`}
	deps := []*pv{P("fany"), P("f1"), P("ints"), P("fblk")}
	for _, x := range pool {
		fs := forms
		if x.Spell == "" {
			fs = append(append([]string{}, forms...), memberForms...)
		}
		for k, f := range fs {
			c := mkCase("prefix", fmt.Sprintf(f, x.spell()), append([]*pv{x}, deps...)...)
			c.Vars = trimVars(c)
			b.add(cell{c, true, fmt.Sprintf("prefix/form%d", k)})
		}
	}
	// the literal operands the pool does not spell
	for _, lit := range []string{"nil", "unknownName", "unknownName.F", "unknownName[0]", "unknownName()", "1", "0", "1.5", `"s"`, `""`, "true", "false", "[1]", "[]", `{"a": 1}`, "{}", "fn() { return 1 }", "fn() { return 1 }()", `"a" + "b"`, "(1 + 2)", "(nil)"} {
		for _, f := range []string{"<%%= -%s %%>", "<%%= - %s %%>", "<%%= !%s %%>", "<%%= !!%s %%>", "<%%= --%s %%>", "<%%= -(%s) %%>", "<%%= 1 - -%s %%>", `<%%= "s" + -%s %%>`, "<%%= -%s + 1 %%>", "<%%= if (-%s) { %%>T<%% } %%>", "<%% let y = -%s %%><%%= y %%>", "<%%= nil == -%s %%>", "<%%= -%[1]s == -%[1]s %%>", "<%%= !-%s %%>", "<%%= -!%s %%>"} {
			b.add(cell{Case{Matrix: "prefix", Tmpl: vk.Text(fmt.Sprintf(f, lit))}, true, "prefix/literal operand"})
		}
	}
}

// matrixCtx: the statement, loop and chain shapes under plush's other implementation of hctx.Context
// (helpers/helptest.HelperContext), which plush.Render and Template.Exec accept like any hctx.Context
func matrixCtx(r *vk.Run, b *builder) {
	forms := []string{
		"<%%= %s %%>", "<%% let y = %s %%><%%= y %%>", "<%% let y = 1 %%><%% y = %s %%><%%= y %%>", "<%%= if (%s) { %%>T<%% } else { %%>F<%% } %%>",
		"<%% let f = fn(q) { return q } %%><%%= f(%s) %%>", "<%%= [%[1]s, %[1]s] %%>", `<%%= {"k": %s}["k"] %%>`, "<%%= for (k, v) in %s { %%><%%= k %%><%%= v %%><%% } %%>",
		"<%%= for (v) in [%s] { %%><%%= v %%><%% } %%>", "<%%= %s[0] %%>", "<%%= %s[0].F %%>", "<%%= %s[0].Hello() %%>", "<%%= %s() %%>", "<%%= %s().F %%>", "<%%= %s.F %%>", "<%%= %s.Hello() %%>", "<%%= %s.Hello().F %%>",
		"<%%= %s.L[0] %%>", "<%%= fblk() { %%><%%= %s %%><%% } %%>", "<%%= len(%s) %%>", `<%%= partial("p", {"k": %s}) %%>`, `<%% contentFor("c") { %%>B<%% } %%><%%= contentOf("c", {"k": %s}) %%>`,
		`<%%= truncate("abcdef", {"size": %s}) %%>`, "<%%= %s + 1 %%>", `<%%= "s" + %s %%>`, "<%%= %[1]s == %[1]s %%>", "<%% %s[0] = 1 %%>ok", "<%%= groupBy(1, %s) %%>", "<%%= htmlEscape(%s) { %%>B<%% } %%>",
	}
	for _, x := range pool {
		if x.Fatal || x.Wide && !r.Thorough() && x.Kind != "func" && x.Kind != "iter" {
			continue
		}
		for k, f := range forms {
			if x.Spell != "" && (strings.Contains(f, ".") || strings.Contains(f, "] = ")) {
				continue
			}
			c := mkCase("ctx", fmt.Sprintf(f, x.spell()), x, P("fblk"))
			c.Vars = trimVars(c)
			c.Ctx = "helptest"
			b.add(cell{c, true, fmt.Sprintf("ctx/form%d", k)})
			if !x.Wide {
				c.Ctx = "buffalo"
				b.add(cell{c, true, "ctx/BuffaloRenderer"})
			}
			if !x.Wide || r.Thorough() {
				c.Ctx = "ctxvalue"
				b.add(cell{c, true, "ctx/values from context.Context"})
				c.Ctx = "outer"
				b.add(cell{c, true, "ctx/values in the outer context"})
			}
		}
	}
	// NewContextWith(nil) / BuffaloRenderer(input, nil, helpers) panic in the CONSTRUCTOR ("assignment to entry in nil
	// map"): no template is executed, the property does not reach it. The two context kinds stay decodable for
	// replays but are not generated.
}

// matrixReexec: ONE parsed template executed for a sequence of contexts in which x is of changing kind
func matrixReexec(r *vk.Run, b *builder) {
	var names []string
	for _, p := range pool {
		if p.Mk != nil && !p.Heavy && !p.Fatal {
			names = append(names, p.Name)
		}
	}
	forms := append([]string{}, sweepExprs...)
	for i, f := range forms {
		forms[i] = "<%= " + strings.ReplaceAll(f, "v", "x") + " %>"
	}
	forms = append(forms, "<%= for (k, w) in x { %><%= k %><%= w %><% } %>", "<%= if (x) { %>T<% } else { %>F<% } %>", "<% let y = x %><%= y %>", "<% x[0] = 1 %><%= x %>", `<% x["a"] = x %>ok`,
		"<%= x.P.F %>", "<%= x.Add(1) %>", "<%= x(1, 2) %>", "<%= -x %>", "<%= x[0].F %>", "<%= x().F %>", "<% let f = fn(q) { return q[0] } %><%= f(x) %>", "<%= fblk() { %><%= x %><% } %>", `<%= partial("p", {"k": x}) %>`, "<%= x ~= x %>")
	step := r.Pick(29, 5)
	for k, f := range forms {
		for rot := k % step; rot < len(names); rot += step {
			seq := append(append([]string{}, names[rot:]...), names[:rot]...)
			b.add(cell{Case{Matrix: "reexec", Tmpl: vk.Text(f), Vars: seq, Seq: true}, true, fmt.Sprintf("reexec/form%d", k)})
		}
	}
}

// matrixShared: two templates rendered one after the other on contexts built over the SAME data map (what the
// first one lets, defines or stores at the top level is what the second one finds)
func matrixShared(r *vk.Run, b *builder) {
	pairs := [][2]string{
		{`<%% let y = %s %%>`, `<%%= y %%><%%= y[0] %%><%%= y.F %%>`},
		{`<%% let g = fn(q) { return q } %%><%% let y = g(%s) %%>`, `<%%= g(y) %%><%%= g(g)(1) %%><%%= g %%>`},
		{`<%% let g = fn() { %%>[<%%= %[1]s %%>]<%% } %%>`, `<%%= g() %%><%%= for (v) in [1, 2] { %%><%%= g() %%><%% } %%>`},
		{`<%% contentFor("c") { %%>[<%%= %s %%>]<%% } %%>`, `<%%= contentOf("c") %%><%%= contentOf("c", {"k": 1}) %%>`},
		{`<%% let y = [%s] %%><%% y[0] = y %%>`, `<%%= y %%><%%= len(y) %%><%%= y[0][0] == nil %%>`},
		{`<%% let len = %s %%><%% let nil = 1 %%>`, `<%%= len("a") %%><%%= nil %%><%%= unk == nil %%>`},
		{`<%%= fstash() { %%>[<%%= %s %%>]<%% } %%>`, `<%%= stashed.Block() %%><%%= stashed.HasBlock() %%><%%= stashed.Render("<%%= 1 %%>") %%>`},
		{`<%% let y = %s %%><%% return 1 %%>tail`, `<%%= y %%>`},
		{`<%%= for (k, v) in %s { %%><%% let kept = v %%><%% } %%>`, `<%%= kept %%><%%= k %%><%%= v %%>`},
		{`<%% %[1]s = 1 %%>`, `<%%= %[1]s %%>`},
		{`<%%= %s.Nope %%>`, `ok<%%= 1 %%>`},
	}
	for _, x := range pool {
		if x.Fatal {
			continue
		}
		for k, p := range pairs {
			if x.Spell != "" && strings.Contains(p[0], "%[1]s = ") {
				continue
			}
			body := fmt.Sprintf(p[0], x.spell()) + sharedSep + fmt.Sprintf(p[1], x.spell())
			c := mkCase("shared", body, x, P("fstash"))
			c.Vars = trimVars(c)
			b.add(cell{c, true, fmt.Sprintf("shared/pair%d", k)})
		}
	}
}

// sharedSep separates the two templates of a "shared" case
const sharedSep = "\n<%# --- second template, same data map --- %>\n"

// sweepExprs: one expression evaluated in one render for a sequence of values of changing kind
var sweepExprs = []string{
	"v", "v[0]", `v["a"]`, "v.F", "v.Hello()", "v + 1", `"s" + v`, "v == v", "v == nil", "!v", "len(v)", "inspect(v)", "toJSON(v)", "fany(v)", "v()",
	"[v, v]", `{"a": v}`, "v.L[0]", "v.Next.V", "v[0][0]", "v ~= v", "v + v", "v < v",
}

// matrixSweep: for each expression, the pool values for which it evaluates without error on its own are
// found first (one render each); the expression is then evaluated for all of them in ONE loop, in rotated
// orders, and - as a sweep can only go on while nothing fails - once per pair (first a, then b).
func matrixSweep(r *vk.Run, b *builder) {
	var vals []*pv
	for _, p := range pool {
		if p.Spell == "" && p.Mk != nil && !p.Heavy && !p.Fatal {
			vals = append(vals, p)
		}
	}
	for ei, e := range sweepExprs {
		var ok []*pv
		for _, p := range vals {
			c := mkCase("sweep", fmt.Sprintf("<%%= for (v) in [%s] { %%><%%= %s %%><%% } %%>", p.Name, e), p, P("fany"))
			res, perr, herr := render(c)
			if perr == nil && herr == nil && !res.Panicked() && res.Err == nil {
				ok = append(ok, p)
			}
			b.add(cell{c, true, "sweep/single"})
		}
		if len(ok) == 0 {
			continue
		}
		step := r.Pick(7, 1)
		for rot := 0; rot < len(ok); rot += step {
			seq := append(append([]*pv{}, ok[rot:]...), ok[:rot]...)
			var names []string
			for _, p := range seq {
				names = append(names, p.Name)
			}
			body := fmt.Sprintf("<%%= for (v) in [%s] { %%><%%= %s %%><%% } %%>", strings.Join(names, ", "), e)
			b.add(cell{mkCase("sweep", body, append(seq, P("fany"))...), true, fmt.Sprintf("sweep/rotation of expr %d", ei)})
		}
		// value of the other kinds after a good one: the second evaluation fails or not, never panics
		for i, g := range ok {
			if i%r.Pick(9, 2) != 0 {
				continue
			}
			for _, p := range vals {
				if !pairOK(r, g, p, false) {
					continue
				}
				body := fmt.Sprintf("<%%= for (v) in [%s, %s, %s] { %%><%%= %s %%><%% } %%>", g.Name, p.Name, g.Name, e)
				b.add(cell{mkCase("sweep", body, g, p, P("fany")), true, "sweep/good then any"})
			}
		}
	}
}

// ---- random well-formed programs ------------------------------------------------------------------------

type progGen struct {
	t     *rapid.T
	used  map[string]bool
	fns   []string // template-defined functions defined so far (never reassigned, bodies only call earlier ones)
	lets  []string // let-variables: never used as callee, so no recursion can be built
	loops int
}

func (g *progGen) leaf() string {
	if len(g.lets) > 0 && rapid.IntRange(0, 5).Draw(g.t, "uselet") == 0 {
		return rapid.SampledFrom(g.lets).Draw(g.t, "let")
	}
	p := rapid.SampledFrom(pool).Draw(g.t, "leaf")
	g.used[p.Name] = true
	return p.spell()
}

// ident: a leaf that is an identifier (bound pool value, template-defined function or let-variable)
func (g *progGen) ident() string {
	if len(g.lets) > 0 && rapid.IntRange(0, 5).Draw(g.t, "uselet") == 0 {
		return rapid.SampledFrom(g.lets).Draw(g.t, "let")
	}
	p := rapid.SampledFrom(idents).Draw(g.t, "ident")
	g.used[p.Name] = true
	return p.Name
}

// simple: an expression that is not an array or hash literal and needs no parentheses (loop iterables, conditions)
func (g *progGen) simple(d int) string {
	switch rapid.IntRange(0, 8).Draw(g.t, "simplekind") {
	case 6: // any of the member shapes, on any identifier
		return g.ident() + rapid.SampledFrom(members2).Draw(g.t, "member2")
	case 7: // a call on a result, an element called
		return g.ident() + rapid.SampledFrom([]string{"()()", "[0]()", `["a"]()`, "(1)(2)", "[0][0]", `["a"]["a"]`, "()[0]", "[0].F", "[0].Hello()"}).Draw(g.t, "chain")
	case 8:
		if len(g.fns) > 0 {
			return rapid.SampledFrom(g.fns).Draw(g.t, "fn") + "(" + g.leaf() + ")" + rapid.SampledFrom([]string{"()", "[0]", ""}).Draw(g.t, "chain")
		}
		return g.ident()
	case 0, 1:
		return g.ident()
	case 2:
		return g.ident() + "[" + g.expr(d-1) + "]"
	case 3:
		return g.ident() + rapid.SampledFrom([]string{".L", ".M", ".P", ".Any", ".F", ".Nope"}).Draw(g.t, "member")
	case 4:
		if d > 0 {
			return g.call(d)
		}
	}
	return g.leaf()
}

func (g *progGen) cond(d int) string {
	switch rapid.IntRange(0, 3).Draw(g.t, "condkind") {
	case 0:
		return fmt.Sprintf("%s %s %s", g.operand(d), rapid.SampledFrom(binops).Draw(g.t, "op"), g.operand(d))
	case 1:
		return rapid.SampledFrom([]string{"!", "!", "-"}).Draw(g.t, "prefix") + g.simple(d)
	}
	return g.simple(d)
}

func (g *progGen) callee() string {
	n := rapid.IntRange(0, 9).Draw(g.t, "calleekind")
	switch {
	case n == 0 && len(g.fns) > 0:
		return rapid.SampledFrom(g.fns).Draw(g.t, "fn")
	case n <= 2:
		return rapid.SampledFrom(helpersForRandom).Draw(g.t, "helper")
	case n == 3:
		g.used["pS"] = true
		return "pS" + rapid.SampledFrom([]string{".Add", ".Var", ".Hello", ".PHello", ".Fn", ".Blk", ".Fail", ".Nope", ".P.Hello"}).Draw(g.t, "method")
	}
	p := rapid.SampledFrom(pool).Draw(g.t, "callee")
	g.used[p.Name] = true
	if p.Mk == nil && p.Prelude == "" {
		g.used["f1"] = true
		return "f1"
	}
	return p.Name
}

var helpersForRandom []string

var idents []*pv // pool values spelled as identifiers

var scalars = []string{"int", "intneg", "int64", "uint8", "float64", "str", "strempty", "btrue", "nil", "unk", "nilpS", "nilptime", "sval", "html", "tim", "f0", "lit_int", "lit_str"}

func (g *progGen) use(names ...string) {
	for _, n := range names {
		g.used[n] = true
	}
}

// intExpr: an expression that evaluates to an int (so that evaluation gets past it and reaches what follows)
func (g *progGen) intExpr(d int) string {
	k := rapid.IntRange(0, 9).Draw(g.t, "intexpr")
	if d <= 0 && k > 4 {
		k -= 5
	}
	switch k {
	case 0:
		g.use("int")
		return "int"
	case 1:
		g.use("int0")
		return "int0"
	case 2:
		g.use("intneg")
		return "intneg"
	case 3:
		return fmt.Sprint(rapid.IntRange(0, 4).Draw(g.t, "small"))
	case 4:
		g.use("strs")
		return "len(strs)"
	case 5:
		g.use("f1")
		return "f1(" + g.intExpr(d-1) + ")"
	case 6:
		return g.intExpr(d-1) + " " + rapid.SampledFrom([]string{"+", "-", "*"}).Draw(g.t, "arith") + " " + g.intExpr(d-1)
	case 7:
		g.use("ints")
		return "ints[" + g.intExpr(d-1) + "]"
	case 8:
		g.use("pS")
		return "pS.Add(" + g.intExpr(d-1) + ")"
	default:
		g.use("fvar")
		return "fvar(" + g.intExpr(d-1) + ", " + g.intExpr(d-1) + ")"
	}
}

// natural: a well-typed construct around arbitrary sub-expressions
func (g *progGen) natural(d int) string {
	switch rapid.IntRange(0, 11).Draw(g.t, "natural") {
	case 0:
		return g.intExpr(d)
	case 1:
		c := rapid.SampledFrom([]string{"ints", "anys", "strs", "structs", "pstructs", "arr", "parr", "bytes"}).Draw(g.t, "seq")
		g.use(c)
		return c + "[" + g.intExpr(d-1) + "]"
	case 2:
		c := rapid.SampledFrom([]string{"msi", "msa", "msS", "maa"}).Draw(g.t, "map")
		g.use(c)
		return c + "[" + rapid.SampledFrom([]string{`"a"`, `"abc"`, `"zz"`}).Draw(g.t, "key") + "]"
	case 3:
		g.use("str")
		return "str + " + g.operand(d-1)
	case 4:
		g.use("fany")
		return "fany(" + g.expr(d-1) + ")"
	case 5:
		g.use("ufn")
		return "ufn(" + g.expr(d-1) + ", " + g.expr(d-1) + ")"
	case 6:
		c := rapid.SampledFrom([]string{"ints", "anys", "strs", "msi", "str", "arr", "pints", "lit_arr"}).Draw(g.t, "sized")
		g.use(c)
		return "len(" + P(c).spell() + ")"
	case 7:
		g.use("anys")
		return "anys + " + g.operand(d-1)
	case 8:
		g.use("fvar2")
		return "fvar2(str, " + g.expr(d-1) + ", " + g.expr(d-1) + ")"
	case 9:
		g.use("strlong")
		return fmt.Sprintf(`truncate(strlong, {"size": %s})`, g.intExpr(d-1))
	case 10:
		g.use("ints")
		return "groupBy(" + g.intExpr(d-1) + ", ints)"
	default:
		return g.operand(d-1) + " == " + g.operand(d-1)
	}
}

func (g *progGen) expr(d int) string {
	if d <= 0 {
		return g.leaf()
	}
	if rapid.IntRange(0, 9).Draw(g.t, "wellTyped") < 4 {
		return g.natural(d)
	}
	switch rapid.IntRange(0, 11).Draw(g.t, "expr") {
	case 0, 1:
		return g.leaf()
	case 2, 3:
		return fmt.Sprintf("%s %s %s", g.operand(d-1), rapid.SampledFrom(binops).Draw(g.t, "op"), g.operand(d-1))
	case 4:
		return rapid.SampledFrom([]string{"!", "!", "-", "!!", "- ", "--", "!-", "-!"}).Draw(g.t, "prefix") + g.operand(d-1)
	case 5, 6:
		return fmt.Sprintf("%s[%s]", g.operand(d-1), g.expr(d-1))
	case 7:
		// member access is only spelled on identifiers (the parser rejects it after ")" and after literals)
		return g.ident() + rapid.SampledFrom([]string{".F", ".N", ".P", ".L", ".M", ".Any", ".Nope", ".hidden", ".Hello()", ".PHello()", ".Add(1)", ".Fail()", ".T"}).Draw(g.t, "member")
	case 8, 9:
		return g.call(d)
	case 10:
		n := rapid.IntRange(0, 3).Draw(g.t, "nelem")
		var el []string
		for i := 0; i < n; i++ {
			el = append(el, g.expr(d-1))
		}
		return "[" + strings.Join(el, ", ") + "]"
	default:
		n := rapid.IntRange(0, 2).Draw(g.t, "npairs")
		var el []string
		for i := 0; i < n; i++ {
			el = append(el, fmt.Sprintf("%q: %s", rapid.SampledFrom([]string{"a", "size", "trail", "layout", "k"}).Draw(g.t, "key"), g.expr(d-1)))
		}
		return "{" + strings.Join(el, ", ") + "}"
	}
}

// operand: an expression that can stand to the left of an operator, index or member access
func (g *progGen) operand(d int) string {
	if d <= 0 || rapid.IntRange(0, 2).Draw(g.t, "simple") > 0 {
		return g.leaf()
	}
	if rapid.Bool().Draw(g.t, "paren") {
		return "(" + g.expr(d) + ")"
	}
	return g.call(d)
}

func (g *progGen) call(d int) string {
	cal := g.callee()
	switch cal {
	case "range", "between", "until":
		// iterated only with small arguments here (extremes belong to C19)
		a, b := rapid.IntRange(0, 4).Draw(g.t, "small"), rapid.IntRange(0, 4).Draw(g.t, "small")
		if cal == "until" {
			return fmt.Sprintf("until(%d)", a)
		}
		return fmt.Sprintf("%s(%d, %d)", cal, a, b)
	}
	n := rapid.IntRange(0, 3).Draw(g.t, "nargs")
	var args []string
	for i := 0; i < n; i++ {
		args = append(args, g.expr(d-1))
	}
	return fmt.Sprintf("%s(%s)", cal, strings.Join(args, ", "))
}

func (g *progGen) stmts(d int, inLoop, inFn bool) string {
	var sb strings.Builder
	n := rapid.IntRange(1, 3).Draw(g.t, "nstmts")
	for i := 0; i < n; i++ {
		k := rapid.IntRange(0, 13).Draw(g.t, "stmt")
		switch {
		case k <= 2:
			fmt.Fprintf(&sb, "<%%= %s %%>", g.expr(d))
		case k == 3:
			v := fmt.Sprintf("x%d", rapid.IntRange(0, 2).Draw(g.t, "letvar"))
			fmt.Fprintf(&sb, "<%% let %s = %s %%>", v, g.expr(d))
			if !contains(g.lets, v) {
				g.lets = append(g.lets, v)
			}
		case k == 4 && len(g.lets) > 0:
			fmt.Fprintf(&sb, "<%% %s = %s %%>", rapid.SampledFrom(g.lets).Draw(g.t, "target"), g.expr(d))
		case k == 5:
			// the assigned value is a scalar: a collection stored into itself (directly or through a variable)
			// would make every later traversal (emit, inspect) recurse until the fatal stack overflow
			v := rapid.SampledFrom(scalars).Draw(g.t, "assigned")
			g.used[v] = true
			target := rapid.SampledFrom([]string{"", "", ".L", ".M", ".P.L", ".Any", ".IA", ".Kids", ".Up", ".KSlice", ".KMap", "[0]", `["a"]`}).Draw(g.t, "target")
			fmt.Fprintf(&sb, "<%% %s%s[%s] = %s %%>", g.ident(), target, g.expr(d-1), P(v).spell())
		case k == 6 && d > 0:
			fmt.Fprintf(&sb, "<%%= if (%s) { %%>%s<%% } else { %%>%s<%% } %%>", g.cond(d-1), g.stmts(d-1, inLoop, inFn), g.stmts(d-1, inLoop, inFn))
		case k == 7 && d > 0 && g.loops < 3:
			g.loops++
			fmt.Fprintf(&sb, "<%%= for (k%[1]d, v%[1]d) in %[2]s { %%>", g.loops, g.simple(d-1))
			g.lets = append(g.lets, fmt.Sprintf("k%d", g.loops), fmt.Sprintf("v%d", g.loops))
			sb.WriteString(g.stmts(d-1, true, inFn))
			g.lets = g.lets[:len(g.lets)-2]
			sb.WriteString("<% } %>")
		case k == 8 && d > 0 && !inFn && !inLoop && len(g.fns) < 3:
			name := fmt.Sprintf("g%d", len(g.fns))
			np := rapid.IntRange(0, 2).Draw(g.t, "nparams")
			params := []string{"pa", "pb"}[:np]
			saved := g.lets
			g.lets = append(append([]string{}, g.lets...), params...)
			body := g.stmts(d-1, false, true)
			g.lets = saved
			fmt.Fprintf(&sb, "<%% let %s = fn(%s) { %%>%s<%% } %%>", name, strings.Join(params, ", "), body)
			g.fns = append(g.fns, name)
		case k == 9 && d > 0:
			cal := g.callee()
			if cal == "range" || cal == "between" || cal == "until" {
				cal = "htmlEscape"
			}
			n := rapid.IntRange(0, 2).Draw(g.t, "nargs")
			var args []string
			for i := 0; i < n; i++ {
				args = append(args, g.expr(d-1))
			}
			fmt.Fprintf(&sb, "<%%= %s(%s) { %%>%s<%% } %%>", cal, strings.Join(args, ", "), g.stmts(d-1, inLoop, inFn))
		case k == 10 && inLoop:
			sb.WriteString(rapid.SampledFrom([]string{"<% break %>", "<% continue %>"}).Draw(g.t, "jump"))
		case k == 11 && (inFn || inLoop):
			fmt.Fprintf(&sb, "<%% return %s %%>", g.expr(d-1))
		default:
			sb.WriteString("t")
		}
	}
	return sb.String()
}

func containsPV(xs []*pv, p *pv) bool {
	for _, x := range xs {
		if x == p {
			return true
		}
	}
	return false
}

func contains(xs []string, s string) bool {
	for _, x := range xs {
		if x == s {
			return true
		}
	}
	return false
}

func genProgram(t *rapid.T) Case {
	g := &progGen{t: t, used: map[string]bool{}}
	body := g.stmts(3, false, false)
	var vs []*pv
	for _, p := range pool { // pool order, not map order
		if g.used[p.Name] {
			vs = append(vs, p)
		}
	}
	return mkCase("random", body, vs...)
}

// ---- driver ---------------------------------------------------------------------------------------------

const rule = "Sixteen exhaustive matrices over a pool of ~370 named Go values (a first pool of ~130: ints of every width incl. negative/min/max, uints, floats incl. NaN, " +
	"strings empty/non-empty/non-regex, bools, the nil literal, an unknown identifier, typed nils (*struct, *[]int, *time.Time, nil slice/map/func/iterator), " +
	"slices incl. []interface{} with nils inside, arrays, maps keyed by string/int/float/interface{}, structs with exported/unexported fields and value/pointer methods, " +
	"pointers (also to slices, arrays, maps, funcs, pointers), ~25 function signatures incl. variadic, block-taking, error-returning, void, " +
	"iterators, template.HTML, HTMLer, Stringer, time.Time, template-defined functions fn(a, b) and fn(), literals; and ~240 further shapes (Wide): arrays/slices/maps of interfaces, arrays, funcs, nested nils, " +
	"maps keyed by arrays / structs / interfaces / channels / named types holding NaN, nil and pointers, unhashable values of comparable types, structs embedding interfaces and unexported structs, unexported fields of every kind, " +
	"a struct with a field of every kind, methods of every shape, pointer cycles, pointers to pointers / interfaces / nil maps, reflect.Value, time.Duration, json.Number, big.Int/Float/Rat, sql.Null*, plush's own Context / HelperContext / Template as data, " +
	"strings with invalid UTF-8 / NUL / format verbs / template text / hostile regular expressions, extreme numbers of every width, channels, unsafe.Pointer, nesting of depth 2000, ~90 more function signatures " +
	"(0-3 results, typed-nil errors, functions as results, pointer / interface / func / chan / named / array parameters, variadic of each, helper contexts in every position, helpers that render, re-run their block, keep their context), " +
	"named func types, method values and expressions, iterators of other shapes, and values that CONTAIN THEMSELVES (Fatal: []interface{} / map / struct-of-slices / pointer, built in Go or by the template), " +
	"each built fresh for every render. A Wide value is paired with the whole pool in the thorough tier and with a core of 32 values in the quick tier (12 in the helper matrix); cases that mention a Fatal value are rendered in a child process, " +
	"so that a fatal stack overflow is a class with a witness like any panic (quick tier: two of them are paired, with six partners): " +
	"(ops) L op R for 13 binary operators and !; (index) c[i], c[i].F, c[i].M(), c[i][0], if (c[i]), c[i] = v; (member) r.F r.M() r.Nope r.unexported r.Nope() and 40 more member shapes, r.Add(x); " +
	"(for) 13 loop shapes over every kind incl. break/continue/return/write-back/nested; (call) callee(args) with 0-3 arguments from 6 kinds with and without block + 1-2 arguments from the whole pool, results used; " +
	"(helper) every built-in in plush.Helpers.All() x 0-2 arguments from the whole pool, 3 arguments from 8 kinds, with blocks, option maps for truncate/partial/contentOf with values from the whole pool " +
	"(range/between/until results are never iterated with large arguments); (stmt) emit/let/assign/if/else-if/return/array/hash/function-return of every kind; " +
	"(target) assignment to c[i][j], c[0][0][0], c.member[i] for 19 members, c.F; (chain) c[i][j][k], c()(), c[0](), g(c)(), fn literals called in place, 190 further member shapes; " +
	"(odd) 70 shapes: loop variables and the iterable re-assigned or written while iterated, break / continue / return as operands, arguments, elements and indexes, pool values as hash keys, the context keys the engine reads " +
	"(TIME_FORMAT, contentType, partialFeeder, yield, nil, len) bound to every value, stored helper contexts, contentFor / contentOf across loops and functions; " +
	"(prefix) 67 shapes of - and ! (spaced, doubled, parenthesised, on calls / absent entries / nil members, nested in infix expressions) + literal operands; " +
	"(ctx) 29 shapes executed with helpers/helptest.HelperContext as the context, through BuffaloRenderer, with the values in a context.Context or in an outer context, and with a nil data map; " +
	"(shared) 11 pairs of templates rendered one after the other over the same data map; (reexec) 38 templates parsed once and executed for every pool value in turn; " +
	"(sweep) 23 expressions evaluated in one loop over every value they accept, in rotated orders, and over every value after a good one. " +
	"Then random well-formed programs (all constructs, depth 3) whose leaves come from the pool. " +
	"Oracle: Parse then Exec returns (out, nil) or (\"\", err), never a panic; templates that do not parse are outside the property. " +
	"Panics are grouped by root cause: class = matrix/innermost plush frame: normalised message. " +
	"Non-trivial: the two operand kinds differ, or an operand is nil / typed nil / negative / extreme / wrong-typed for the operation (for calls: every cell); distinct by template text."

func setup(t *testing.T) *vk.Run {
	r := vk.Start(t, "C04", rule,
		"pool functions, methods and iterators are total and nil-safe, so a panic can only come from the engine, a built-in helper, or the reflect call the engine makes",
		"a panic inside the parser is C03's subject; such a template is counted as not parsing",
		"the context always holds partialFeeder (serves partials \"p\" and \"abc\")",
		"values whose own String / HTML / Interface method panics when the output tag calls it (a method promoted through a nil embedded pointer or interface, reflect.Value.Interface on the zero Value) are part of the pool: the Go runtime raises these panics at the call the engine makes, not application code",
		"a case that mentions a value that contains itself is rendered in a child process (TestIsoChild, 256 MB stack limit); a child that dies is a failure of the class 'fatal error: stack overflow' at the innermost plush frame of the runtime's report")
	r.Replayer("case", func(raw json.RawMessage) *vk.Fail {
		var c Case
		if f := vk.Decode(raw, &c); f != nil {
			return f
		}
		replaying = true
		defer func() { replaying = false }()
		f := check(r, c, true, "replay")
		if f != nil && f.Class != "" && isKnown(r, f.Class) {
			return nil
		}
		return f
	})
	r.Replayer("gofuzz", func(raw json.RawMessage) *vk.Fail {
		var c struct {
			CorpusFile string `json:"corpus_file"`
		}
		if f := vk.Decode(raw, &c); f != nil {
			return f
		}
		for _, l := range strings.Split(c.CorpusFile, "\n") {
			l = strings.TrimSpace(l)
			if strings.HasPrefix(l, "[]byte(") && strings.HasSuffix(l, ")") {
				src, err := strconv.Unquote(l[len("[]byte(") : len(l)-1])
				if err != nil {
					return &vk.Fail{Kind: "decode", Msg: err.Error()}
				}
				if len(src) > 512 {
					src = src[:512]
				}
				res := vk.Safe(func() (string, error) { return plush.Render(src, plush.NewContextWith(fuzzData())) })
				if res.Panicked() && !res.Budget {
					return &vk.Fail{Kind: "gofuzz", Case: c, Msg: fmt.Sprintf("template %q with the whole pool bound: %s", src, res)}
				}
				return nil
			}
		}
		return &vk.Fail{Kind: "decode", Msg: "no value in fuzz corpus file"}
	})
	helpersForRandom = helperNames()
	idents = nil
	for _, p := range pool {
		if p.Spell == "" {
			idents = append(idents, p)
		}
	}
	return r
}

func TestReplay(t *testing.T) { setup(t).ReplayEnv() }

// builder enumerates a matrix; only the cells of this shard are kept in memory.
type builder struct {
	r     *vk.Run
	n     int64
	cells []cell
}

func (b *builder) add(c cell) {
	if b.r.Mine(b.n) {
		b.cells = append(b.cells, c)
	}
	b.n++
}

// runCells evaluates one matrix in parallel; failures are collected per class and reported at the end.
func runCells(r *vk.Run, name string, build func(*vk.Run, *builder)) {
	b := &builder{r: r}
	build(r, b)
	r.Subspace(name, b.n, true)
	cells := b.cells
	var next int64
	var wg sync.WaitGroup
	for w := 0; w < runtime.GOMAXPROCS(0); w++ {
		wg.Add(1)
		go func() {
			defer wg.Done()
			for {
				i := atomic.AddInt64(&next, 1) - 1
				if i >= int64(len(cells)) {
					return
				}
				runCell(r, cells[i])
			}
		}()
	}
	wg.Wait()
}

func runCell(r *vk.Run, c cell) {
	{
		f := check(r, c.c, c.nt, c.sub)
		if f == nil {
			return
		}
		if f.Class != "" && isKnown(r, f.Class) {
			r.Exclude(rootOf(f.Class))
			return
		}
		if !strings.Contains(f.Class, ": ") { // not a panic class: report directly
			r.Check(f)
		}
	}
}

func TestProp(t *testing.T) {
	r := setup(t)
	defer r.Finish()
	r.ReplayCommitted()

	runCells(r, "ops: 13 binary operators x pool x pool, ! x pool", matrixOps)
	runCells(r, "index: (pool + derived containers) x pool x {5 read shapes, write of 6 kinds} + 15 natural pairs x whole pool assigned", matrixIndex)
	runCells(r, "member: pool x 50 member shapes + pool x .Add(pool)", matrixMember)
	runCells(r, "for: (pool + 20 derived iterables) x 13 loop shapes + pool x pool nested", matrixFor)
	runCells(r, "call: (pool + 10 derived callees) x 0-3 arguments from 6 kinds x block/no block + 1-2 arguments from the whole pool + results used", matrixCall)
	runCells(r, "helper: every built-in x 0-2 arguments from the whole pool (quick tier: pairs with at least one side in a 45-value subset; +block for 0-1) + 3 arguments from 8 kinds (thorough: 30) + 2 of 8 with block + option maps/composition x pool", matrixHelper)
	runCells(r, "stmt: pool x 23 statement shapes", matrixStmt)
	runCells(r, "target: assignment targets c[i][j] = v, c[0][0][0] = 1, c.member[i] = v for 19 members, c.F = v", matrixTarget)
	runCells(r, "chain: index chains c[i][j][k], calls on results c()() c[0]() g(c)(), 40 shapes + 100 further member shapes x pool", matrixChain)
	runCells(r, "odd: pool x 60 shapes: loop variables / iterable re-assigned in the body, break / continue / return in odd positions, pool values as hash keys, context keys the engine reads", matrixOdd)
	runCells(r, "prefix: pool x 67 shapes of the prefix operators - and ! (spaced, doubled, parenthesised, on calls / absent entries / nil members, nested in infix expressions, in if / let / for / return / arguments / literals) + 21 literal operands x 15 shapes", matrixPrefix)
	runCells(r, "endless: 11 template programs that never end on their own (recursion of functions, stored blocks and partials) + 4 finite neighbours", matrixEndless)
	runCells(r, "ctx: pool x 29 statement, loop, call and helper shapes executed with a helptest.HelperContext as the context and through BuffaloRenderer; 9 templates with a nil data map", matrixCtx)
	runCells(r, "shared: pool x 11 pairs of templates rendered one after the other over the same data map (let / fn / contentFor / stored helper context / self-containing array carried over)", matrixShared)
	runCells(r, "reexec: 38 templates, each parsed once and executed for every pool value in turn (x of changing kind), in rotated orders", matrixReexec)
	runCells(r, "sweep: 23 expressions evaluated in one loop over every pool value they accept, in rotated orders, and after a good value over every other value", matrixSweep)

	r.Rapid("random", r.Pick(20000, 150000), func(t *rapid.T) *vk.Fail {
		c := genProgram(t)
		f := check(r, c, true, "random")
		if f != nil && f.Class != "" && (isKnown(r, f.Class) || seenInMatrices(f.Class)) {
			// known-open, or already found (and reported below) by a matrix: keep exploring past it
			r.Exclude(rootOf(f.Class))
			return nil
		}
		return f
	})

	report(r)
}

// report prints one line per panic root cause and raises one VIOLATION (with the minimal witness) per
// root cause that is not listed as known-open.
func report(r *vk.Run) {
	isoShutdown()
	aggMu.Lock()
	defer aggMu.Unlock()
	var names []string
	for k := range classes {
		names = append(names, k)
	}
	sort.Strings(names)
	var summary []map[string]interface{}
	for _, k := range names {
		ci := classes[k]
		class := ci.wit.Matrix + "/" + k
		known := isKnown(r, class)
		cov := "never"
		if ci.inCall == ci.n {
			cov = "always"
		} else if ci.inCall > 0 {
			cov = fmt.Sprintf("%d/%d", ci.inCall, ci.n)
		}
		status := "NEW"
		if known {
			status = "known-open"
		}
		var ms []string
		onlyRandom := true
		for m, n := range ci.matrices {
			ms = append(ms, fmt.Sprintf("%s:%d", m, n))
			if m != "random" {
				onlyRandom = false
			}
		}
		sort.Strings(ms)
		var sites []string
		for x := range ci.sites {
			sites = append(sites, x)
		}
		sort.Strings(sites)
		fmt.Printf("NOTE: class %q %s cells=%v under-reflect-Call=%s sites=%v witness=%s vars=%v panic=%q\n", class, status, ms, cov, sites, ci.wit.Tmpl, ci.wit.Vars, ci.msg)
		summary = append(summary, map[string]interface{}{"class": class, "status": status, "cells": ci.matrices, "under_reflect_call": cov, "witness": ci.wit, "panic": ci.msg, "sites": sites, "frames": ci.site2})
		if !known && !onlyRandom { // failures seen only in the random phase were reported by r.Rapid
			r.Violation(&vk.Fail{Kind: "case", Class: class, Case: ci.wit,
				Msg: fmt.Sprintf("%s with %v panicked: %s (%d cells with this root cause)", ci.wit.Tmpl, ci.wit.Vars, ci.msg, ci.n)})
		}
	}
	r.Extra("panic_classes", summary)
	parseMu.Lock()
	if os.Getenv("VERIF_DEBUG") != "" {
		for k, v := range parseNotes {
			fmt.Printf("NOTE: does not parse: %s: %s\n", k, v)
		}
	}
	parseMu.Unlock()
}

// ---- native fuzzing of the evaluator (thorough tier only) ---------------------------------------------------
//
// FuzzRender: bytes -> template text, rendered with the WHOLE pool bound under
// its names. The oracle is the property's: output or error, never a panic.
// Excluded by construction, because they are non-terminating user programs and
// not engine faults: template-defined functions (unbounded recursion), the
// contentOf helper (a stored block can contain its own contentOf) and long
// iterator loops (range/between/until are capped at 64 steps here).

type cappedIter struct{ cur, end, left int }

func (c *cappedIter) Next() interface{} {
	if c.cur > c.end || c.left <= 0 {
		return nil
	}
	c.left--
	c.cur++
	return c.cur - 1
}

func fuzzData() map[string]interface{} {
	data := map[string]interface{}{}
	for _, p := range pool {
		if p.Mk != nil && !p.Heavy && !p.Fatal {
			data[p.Name] = p.Mk()
		}
	}
	data["range"] = func(a, b int) plush.Iterator { return &cappedIter{cur: a, end: b, left: 64} }
	data["between"] = func(a, b int) plush.Iterator { return &cappedIter{cur: a + 1, end: b - 1, left: 64} }
	data["until"] = func(a int) plush.Iterator { return &cappedIter{cur: 0, end: a - 1, left: 64} }
	data["contentOf"] = func(name string) string { return "" }
	return data
}

var fnWord = regexp.MustCompile(`\b(fn|func)\b`)

var indexAssign = regexp.MustCompile(`\]\s*=[^=]`)

func FuzzRender(f *testing.F) {
	r := &vk.Run{}
	b := &builder{r: r}
	_ = b
	seeds := 0
	for _, m := range []func(*vk.Run, *builder){matrixOps, matrixIndex, matrixMember, matrixFor, matrixCall, matrixStmt, matrixTarget, matrixChain, matrixOdd, matrixPrefix} {
		bb := &builder{r: &vk.Run{Shards: 1}}
		m(bb.r, bb)
		for i, c := range bb.cells {
			if i%997 == 0 && !fnWord.MatchString(string(c.c.Tmpl)) && !needsIsolation(c.c) && c.c.Ctx == "" {
				f.Add([]byte(c.c.Tmpl))
				seeds++
			}
		}
	}
	f.Fuzz(func(t *testing.T, in []byte) {
		if len(in) > 512 {
			in = in[:512]
		}
		src := string(in)
		if fnWord.MatchString(src) {
			t.Skip()
		}
		if knownOpen["stringsOperator@compiler.go: fatal error: stack overflow"] && indexAssign.MatchString(src) {
			t.Skip() // while the cyclic-value class is open: a template can store a collection into itself and print it with "" + x
		}
		res := vk.Safe(func() (string, error) { return plush.Render(src, plush.NewContextWith(fuzzData())) })
		if res.Panicked() && !res.Budget {
			t.Fatalf("template %q: %s\n%s", src, res, res.Stack)
		}
	})
}
