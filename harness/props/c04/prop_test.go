// C04 — evaluation is total: runtime type/arity/index faults are errors, never panics.
package c04

import (
	"encoding/json"
	"errors"
	"fmt"
	"html/template"
	"math"
	"os"
	"regexp"
	"runtime"
	"sort"
	"strconv"
	"strings"
	"sync"
	"sync/atomic"
	"testing"
	"time"

	"verif/internal/vk"

	plush "github.com/gobuffalo/plush/v5"
	"github.com/gobuffalo/plush/v5/helpers/hctx"
	"pgregory.net/rapid"
)

func TestMain(m *testing.M) { vk.Main(m) }

// knownOpen lists the panic root causes that are triaged as genuine defects of plush and still open
// (all reproduce with plain plush.Render outside this harness). A key is "<innermost plush function>@<file>:
// <normalised panic message>", i.e. a Class without its leading "<matrix>/" (a full class name is accepted
// too). A failing cell whose class is listed is counted with r.Exclude(<key>) instead of being reported, so
// the matrices and the random phase keep exploring past it; every other panic is a VIOLATION (one per root
// cause, with the smallest witness). Delete lines (or empty the table) as the defects get fixed in /repo.
// Keys carry no line numbers, so they survive unrelated edits of the file; the NOTE line printed for every
// class at the end of a run lists the exact file:line sites seen. While a key is listed, another bug that
// panics in the same function with the same message is hidden (for "reflect: index out of range" the key
// additionally says whether the cell had a negative/extreme operand, so a lost upper-bound check still shows).
var knownOpen = map[string]bool{
	// (empty: the 27 root causes found when this check was first run were fixed in /repo)
}

// ---- the value pool -----------------------------------------------------------------------------------

type S struct {
	F      string
	N      int
	P      *S
	Fn     func(int) int
	L      []int
	M      map[string]int
	Any    interface{}
	T      *time.Time
	hidden int
}

func (s S) Hello() string         { return "hi " + s.F }
func (s S) Add(a int) int         { return s.N + a }
func (s S) Var(xs ...int) int     { return len(xs) }
func (s S) Fail() (string, error) { return "", errors.New("S.Fail says no") }
func (s S) Blk(h plush.HelperContext) (template.HTML, error) {
	if !h.HasBlock() {
		return "noblock", nil
	}
	b, err := h.Block()
	return template.HTML(b), err
}
func (s *S) PHello() string { // nil-safe: a panic can not be this method's fault
	if s == nil {
		return "nil S"
	}
	return "p " + s.F
}

type Str struct{ V string }

func (s Str) String() string { return "Str(" + s.V + ")" }

type Hr struct{ V string }

func (h Hr) HTML() template.HTML { return template.HTML("<i>" + h.V + "</i>") }

type Ifc struct{}

func (Ifc) Interface() interface{} { return 5 }

// iterT is a finite iterator; Next is nil-safe.
type iterT struct {
	items []interface{}
	n     int
}

func (i *iterT) Next() interface{} {
	if i == nil || i.n >= len(i.items) {
		return nil
	}
	v := i.items[i.n]
	i.n++
	return v
}

type (
	EmbV struct {
		S
		Tag string
	} // value embedding
	MyInt   int
	MyStr   string
	MySlice []int
	MyMap   map[string]int
	Holder  struct {
		Any interface{}
		Err error
		St  fmt.Stringer
	}
	// Unh is a comparable TYPE whose values need not be hashable: the interface field can hold a slice
	Unh struct{ I interface{} }
)

// Emb embeds *S: S's fields (F, N, P, ...) and methods (Hello, Add, ...) are promoted.
type Emb struct {
	*S
	Tag string
}

func newS() S {
	return S{F: "eff", N: 7, Fn: func(a int) int { return a + 1 }, L: []int{4, 5}, M: map[string]int{"k": 1}, Any: "any", hidden: 1}
}

// pv is one named pool value. A case refers to pool values by Name only; Mk builds the value afresh for
// every render (nil Mk: nothing is bound - literals, the nil literal, the unknown identifier), Prelude is
// template text that defines the value (template-defined functions).
type pv struct {
	Name    string
	Spell   string // spelling inside a template (default: Name)
	Mk      func() interface{}
	Prelude string
	Kind    string // int, float, string, bool, nil, nilptr, slice, array, map, struct, ptr, func, iter, html, time, ufn, ...
	Key     string // maps: kind of the key
	Odd     bool   // nil / typed nil / negative / extreme / unknown: non-trivial whatever the operation
}

func (p *pv) spell() string {
	if p.Spell != "" {
		return p.Spell
	}
	return p.Name
}

func feeder(name string) (string, error) {
	if name == "abc" || name == "p" {
		return `[partial <%= 1 + 1 %>]`, nil
	}
	return "", fmt.Errorf("no partial named %q", name)
}

var pool = []*pv{
	// numbers of every width
	{Name: "int", Kind: "int", Mk: func() interface{} { return 1 }},
	{Name: "int0", Kind: "int", Mk: func() interface{} { return 0 }},
	{Name: "intneg", Kind: "int", Odd: true, Mk: func() interface{} { return -1 }},
	{Name: "intmax", Kind: "int", Odd: true, Mk: func() interface{} { return math.MaxInt }},
	{Name: "intmin", Kind: "int", Odd: true, Mk: func() interface{} { return math.MinInt }},
	{Name: "int8", Kind: "int8", Mk: func() interface{} { return int8(2) }},
	{Name: "int16", Kind: "int16", Mk: func() interface{} { return int16(2) }},
	{Name: "int32", Kind: "int32", Mk: func() interface{} { return int32(2) }},
	{Name: "int64", Kind: "int64", Mk: func() interface{} { return int64(2) }},
	{Name: "int64neg", Kind: "int64", Odd: true, Mk: func() interface{} { return int64(-2) }},
	{Name: "uint", Kind: "uint", Mk: func() interface{} { return uint(2) }},
	{Name: "uint8", Kind: "uint8", Mk: func() interface{} { return uint8(2) }},
	{Name: "uint16", Kind: "uint16", Mk: func() interface{} { return uint16(2) }},
	{Name: "uint32", Kind: "uint32", Mk: func() interface{} { return uint32(2) }},
	{Name: "uint64", Kind: "uint64", Odd: true, Mk: func() interface{} { return uint64(math.MaxUint64) }},
	{Name: "float32", Kind: "float32", Mk: func() interface{} { return float32(1.5) }},
	{Name: "float64", Kind: "float", Mk: func() interface{} { return 2.5 }},
	{Name: "floatneg", Kind: "float", Odd: true, Mk: func() interface{} { return -0.5 }},
	{Name: "nan", Kind: "float", Odd: true, Mk: func() interface{} { return math.NaN() }},
	// strings, bools
	{Name: "strempty", Kind: "string", Mk: func() interface{} { return "" }},
	{Name: "str", Kind: "string", Mk: func() interface{} { return "abc" }},
	{Name: "strnum", Kind: "string", Mk: func() interface{} { return "1" }},
	{Name: "strre", Kind: "string", Odd: true, Mk: func() interface{} { return "a(" }}, // not a regular expression
	{Name: "strlong", Kind: "string", Mk: func() interface{} { return strings.Repeat("héllo wörld ", 6) }},
	{Name: "btrue", Kind: "bool", Mk: func() interface{} { return true }},
	{Name: "bfalse", Kind: "bool", Mk: func() interface{} { return false }},
	{Name: "html", Kind: "html", Mk: func() interface{} { return template.HTML("<b>x</b>") }},
	{Name: "htmler", Kind: "struct", Mk: func() interface{} { return Hr{"h"} }},
	{Name: "stringer", Kind: "struct", Mk: func() interface{} { return Str{"s"} }},
	{Name: "ifaceable", Kind: "struct", Mk: func() interface{} { return Ifc{} }},
	// nil, unknown identifier, typed nils
	{Name: "nil", Kind: "nil", Odd: true},
	{Name: "unk", Kind: "nil", Odd: true}, // never bound: the unknown identifier
	{Name: "nilpS", Kind: "nilptr", Odd: true, Mk: func() interface{} { return (*S)(nil) }},
	{Name: "nilpslice", Kind: "nilptr", Odd: true, Mk: func() interface{} { return (*[]int)(nil) }},
	{Name: "nilptime", Kind: "nilptr", Odd: true, Mk: func() interface{} { return (*time.Time)(nil) }},
	{Name: "nilpstringer", Kind: "nilptr", Odd: true, Mk: func() interface{} { return (*Str)(nil) }},
	{Name: "nilslice", Kind: "slice", Odd: true, Mk: func() interface{} { return []int(nil) }},
	{Name: "nilmap", Kind: "map", Key: "string", Odd: true, Mk: func() interface{} { return map[string]int(nil) }},
	{Name: "nilfunc", Kind: "func", Odd: true, Mk: func() interface{} { return (func() string)(nil) }},
	{Name: "niliter", Kind: "iter", Odd: true, Mk: func() interface{} { return (*iterT)(nil) }},
	// slices, arrays
	{Name: "ints", Kind: "slice", Mk: func() interface{} { return []int{1, 2, 3} }},
	{Name: "strs", Kind: "slice", Mk: func() interface{} { return []string{"a", "b"} }},
	{Name: "anys", Kind: "slice", Mk: func() interface{} { return []interface{}{1, nil, "x", (*S)(nil)} }},
	{Name: "emptyints", Kind: "slice", Mk: func() interface{} { return []int{} }},
	{Name: "bytes", Kind: "slice", Mk: func() interface{} { return []byte("xy") }},
	{Name: "structs", Kind: "slice", Mk: func() interface{} { return []S{newS(), {}} }},
	{Name: "pstructs", Kind: "slice", Mk: func() interface{} { s := newS(); return []*S{&s, nil} }},
	{Name: "pints", Kind: "ptr", Mk: func() interface{} { return &[]int{1, 2, 3} }},
	{Name: "arr", Kind: "array", Mk: func() interface{} { return [3]int{1, 2, 3} }},
	{Name: "arr0", Kind: "array", Mk: func() interface{} { return [0]string{} }},
	{Name: "parr", Kind: "ptr", Mk: func() interface{} { return &[3]int{1, 2, 3} }},
	// maps with string / int / interface{} / other keys
	{Name: "msi", Kind: "map", Key: "string", Mk: func() interface{} { return map[string]int{"a": 1, "abc": 2} }},
	{Name: "msa", Kind: "map", Key: "string", Mk: func() interface{} {
		return map[string]interface{}{"a": 1, "abc": nil, "size": "big", "trail": 3, "layout": 4}
	}},
	{Name: "mis", Kind: "map", Key: "int", Mk: func() interface{} { return map[int]string{1: "one", 0: "zero"} }},
	{Name: "maa", Kind: "map", Key: "any", Mk: func() interface{} { return map[interface{}]interface{}{"a": 1, 1: "one", true: nil} }},
	{Name: "msS", Kind: "map", Key: "string", Mk: func() interface{} { return map[string]S{"a": newS(), "abc": {}} }},
	{Name: "mfs", Kind: "map", Key: "float", Mk: func() interface{} { return map[float64]string{2.5: "x"} }},
	{Name: "pmsi", Kind: "ptr", Mk: func() interface{} { return &map[string]int{"a": 1} }},
	// structs, pointers
	{Name: "sval", Kind: "struct", Mk: func() interface{} { return newS() }},
	// more shapes of ordinary Go data: value embedding, named types, pointer to pointer, interface fields holding
	// typed nils, struct-keyed and pointer-keyed maps, byte slices, nested collections, channels, complex numbers
	{Name: "embval", Kind: "struct", Mk: func() interface{} { return EmbV{S: newS(), Tag: "t"} }},
	{Name: "myint", Kind: "int", Odd: true, Mk: func() interface{} { return MyInt(3) }},
	{Name: "mystr", Kind: "string", Odd: true, Mk: func() interface{} { return MyStr("ms") }},
	{Name: "myslice", Kind: "slice", Odd: true, Mk: func() interface{} { return MySlice{1, 2} }},
	{Name: "mymap", Kind: "map", Key: "string", Odd: true, Mk: func() interface{} { return MyMap{"a": 1} }},
	{Name: "myints", Kind: "slice", Odd: true, Mk: func() interface{} { return []MyInt{1, 2} }},
	{Name: "ppS2", Kind: "ptr", Odd: true, Mk: func() interface{} { s := newS(); p := &s; return &p }},
	{Name: "ifacenil", Kind: "struct", Odd: true, Mk: func() interface{} { return Holder{Any: (*S)(nil), Err: nil, St: (*Str)(nil)} }},
	{Name: "mstructkey", Kind: "map", Key: "struct", Odd: true, Mk: func() interface{} { return map[Str]int{{V: "k"}: 1} }},
	{Name: "mptrkey", Kind: "map", Key: "ptr", Odd: true, Mk: func() interface{} { k := &S{}; return map[*S]int{k: 1} }},
	{Name: "mboolkey", Kind: "map", Key: "bool", Odd: true, Mk: func() interface{} { return map[bool]string{true: "t"} }},
	{Name: "mfloatkey", Kind: "map", Key: "float", Odd: true, Mk: func() interface{} { return map[float64]string{1.5: "f"} }},
	{Name: "bytesl", Kind: "slice", Odd: true, Mk: func() interface{} { return []byte("ab") }},
	{Name: "nested", Kind: "slice", Mk: func() interface{} { return [][]int{{1}, {}, nil} }},
	{Name: "mapofslices", Kind: "map", Key: "string", Mk: func() interface{} { return map[string][]string{"a": {"x"}, "n": nil} }},
	{Name: "sliceofmaps", Kind: "slice", Mk: func() interface{} { return []map[string]interface{}{{"a": 1}, nil} }},
	{Name: "arrofptr", Kind: "array", Odd: true, Mk: func() interface{} { return [2]*S{nil, {F: "x"}} }},
	{Name: "chanint", Kind: "chan", Odd: true, Mk: func() interface{} { return make(chan int, 1) }},
	{Name: "cplx", Kind: "complex", Odd: true, Mk: func() interface{} { return complex(1, 2) }},
	{Name: "errval", Kind: "struct", Odd: true, Mk: func() interface{} { return errors.New("an error value") }},
	{Name: "rune", Kind: "int32", Mk: func() interface{} { return 'x' }},
	// slices of a non-empty interface type, keys that are comparable by type but not by value, a NaN map key
	{Name: "errs", Kind: "slice", Odd: true, Mk: func() interface{} { return []error{errors.New("e0"), nil} }},
	{Name: "stringers", Kind: "slice", Odd: true, Mk: func() interface{} { return []fmt.Stringer{Str{V: "s0"}} }},
	{Name: "unhash", Kind: "struct", Odd: true, Mk: func() interface{} { return Unh{I: []int{1}} }},
	{Name: "hashable", Kind: "struct", Odd: true, Mk: func() interface{} { return Unh{I: 1} }},
	{Name: "munhkey", Kind: "map", Key: "struct", Odd: true, Mk: func() interface{} { return map[Unh]string{{I: 1}: "one"} }},
	{Name: "manykey", Kind: "map", Key: "any", Odd: true, Mk: func() interface{} { return map[interface{}]string{1: "i", "s": "s", Unh{I: 1}: "u"} }},
	{Name: "mnankey", Kind: "map", Key: "float", Odd: true, Mk: func() interface{} { return map[float64]string{math.NaN(): "nan", 1: "one"} }},
	{Name: "merrval", Kind: "map", Key: "string", Odd: true, Mk: func() interface{} { return map[string]error{"a": errors.New("e")} }},
	// structs that EMBED a pointer: fields and methods are promoted through it, also when it is nil
	{Name: "embnil", Kind: "struct", Odd: true, Mk: func() interface{} { return Emb{Tag: "t"} }},
	{Name: "pembnil", Kind: "ptr", Odd: true, Mk: func() interface{} { return &Emb{Tag: "t"} }},
	{Name: "emb", Kind: "struct", Mk: func() interface{} { s := newS(); return Emb{S: &s, Tag: "t"} }},
	{Name: "szero", Kind: "struct", Mk: func() interface{} { return S{} }},
	{Name: "pS", Kind: "ptr", Mk: func() interface{} { s := newS(); s.P = &S{F: "inner"}; return &s }},
	{Name: "ppS", Kind: "ptr", Mk: func() interface{} { s := newS(); p := &s; return &p }},
	{Name: "pint", Kind: "ptr", Mk: func() interface{} { i := 3; return &i }},
	{Name: "anon", Kind: "struct", Mk: func() interface{} { return struct{ F string }{"anon"} }},
	{Name: "tim", Kind: "time", Mk: func() interface{} { return time.Date(2020, 1, 2, 3, 4, 5, 0, time.UTC) }},
	{Name: "ptim", Kind: "ptr", Mk: func() interface{} { t := time.Date(2020, 1, 2, 3, 4, 5, 0, time.UTC); return &t }},
	// functions of several signatures (all total: none of them can panic on any argument of its types)
	{Name: "f0", Kind: "func", Mk: func() interface{} { return func() string { return "f0" } }},
	{Name: "f1", Kind: "func", Mk: func() interface{} { return func(a int) int { return a + 1 } }},
	{Name: "f2", Kind: "func", Mk: func() interface{} { return func(s string, n int) string { return fmt.Sprint(s, n) } }},
	{Name: "fvar", Kind: "func", Mk: func() interface{} { return func(xs ...int) int { return len(xs) } }},
	{Name: "fvar2", Kind: "func", Mk: func() interface{} {
		return func(s string, xs ...interface{}) string { return fmt.Sprint(s, len(xs)) }
	}},
	{Name: "fany", Kind: "func", Mk: func() interface{} { return func(v interface{}) interface{} { return v } }},
	{Name: "fmap", Kind: "func", Mk: func() interface{} { return func(m map[string]interface{}) int { return len(m) } }},
	{Name: "fblk", Kind: "func", Mk: func() interface{} {
		return func(h plush.HelperContext) (template.HTML, error) {
			if !h.HasBlock() {
				return "noblock", nil
			}
			s, err := h.Block()
			return template.HTML(s), err
		}
	}},
	{Name: "fopts", Kind: "func", Mk: func() interface{} {
		return func(s string, o map[string]interface{}, h plush.HelperContext) string {
			return fmt.Sprint(s, len(o), h.HasBlock())
		}
	}},
	{Name: "fhctx", Kind: "func", Mk: func() interface{} {
		return func(n int, h hctx.HelperContext) string { return fmt.Sprint(n, h != nil) }
	}},
	{Name: "ferr", Kind: "func", Mk: func() interface{} { return func() (string, error) { return "", errors.New("ferr says no") } }},
	{Name: "fonlyerr", Kind: "func", Mk: func() interface{} { return func() error { return errors.New("fonlyerr says no") } }},
	{Name: "fvoid", Kind: "func", Mk: func() interface{} { return func() {} }},
	{Name: "fmulti", Kind: "func", Mk: func() interface{} { return func() (int, string) { return 1, "two" } }},
	{Name: "fptr", Kind: "func", Mk: func() interface{} { return func(p *S) string { return p.PHello() } }},
	{Name: "fstruct", Kind: "func", Mk: func() interface{} { return func(s S) string { return s.F } }},
	{Name: "fslice", Kind: "func", Mk: func() interface{} { return func(xs []int) int { return len(xs) } }},
	{Name: "fstringer", Kind: "func", Mk: func() interface{} {
		return func(s fmt.Stringer) string {
			if s == nil {
				return "nil stringer"
			}
			return "stringer"
		}
	}},
	{Name: "ffunc", Kind: "func", Mk: func() interface{} {
		return func(f func() string) string {
			if f == nil {
				return "nil f"
			}
			return f()
		}
	}},
	{Name: "fnilret", Kind: "func", Mk: func() interface{} { return func() interface{} { return nil } }},
	{Name: "fpnilret", Kind: "func", Mk: func() interface{} { return func() *S { return nil } }},
	{Name: "pf0", Kind: "ptr", Mk: func() interface{} { f := func() string { return "pf0" }; return &f }},
	// iterators
	{Name: "iter", Kind: "iter", Mk: func() interface{} { return &iterT{items: []interface{}{1, "two", (*S)(nil), 4.0}} }},
	{Name: "iterempty", Kind: "iter", Mk: func() interface{} { return &iterT{} }},
	// template-defined functions
	{Name: "ufn", Kind: "ufn", Prelude: `<% let ufn = fn(a, b) { return a } %>`},
	{Name: "ufn0", Kind: "ufn", Prelude: `<% let ufn0 = fn() { return "u0" } %>`},
	// literals
	{Name: "lit_int", Spell: `2`, Kind: "int"},
	{Name: "lit_zero", Spell: `0`, Kind: "int"},
	{Name: "lit_float", Spell: `1.5`, Kind: "float"},
	{Name: "lit_str", Spell: `"abc"`, Kind: "string"},
	{Name: "lit_true", Spell: `true`, Kind: "bool"},
	{Name: "lit_arr", Spell: `[1, nil, "x"]`, Kind: "slice"},
	{Name: "lit_hash", Spell: `{"a": 1, "abc": nil}`, Kind: "map", Key: "string"},
}

var byName = map[string]*pv{}

func P(name string) *pv {
	p := byName[name]
	if p == nil {
		panic("no pool value " + name)
	}
	return p
}

// derived spellings: a member of a pool value used as a callee / iterable / operand
func sub(name, suffix string) *pv {
	p := *P(name)
	p.Spell = p.spell() + suffix
	p.Odd = true
	p.Kind = "derived"
	return &p
}

// six kinds used where a full pool dimension would be too large
func six() []*pv { return []*pv{P("int"), P("str"), P("nil"), P("sval"), P("ints"), P("msa")} }
func eight() []*pv {
	return []*pv{P("intneg"), P("str"), P("nil"), P("nilpS"), P("ints"), P("msa"), P("f0"), P("float64")}
}

func init() {
	for _, p := range pool {
		if byName[p.Name] != nil {
			panic("duplicate pool name " + p.Name)
		}
		byName[p.Name] = p
	}
	for k := range plush.Helpers.All() {
		if byName[k] != nil {
			panic("pool name collides with helper " + k)
		}
	}
}

// ---- cases ----------------------------------------------------------------------------------------------

// Case is self-contained: the matrix (or "random"), the template text, and the names of the pool values
// bound to context variables of the same name.
type Case struct {
	Matrix string   `json:"matrix"`
	Tmpl   vk.Text  `json:"template"`
	Vars   []string `json:"vars"`
}

type cell struct {
	c   Case
	nt  bool
	sub string
}

func mkCase(matrix, body string, vs ...*pv) Case {
	var pre strings.Builder
	var names []string
	seen := map[string]bool{}
	for _, p := range vs {
		if seen[p.Name] {
			continue
		}
		seen[p.Name] = true
		names = append(names, p.Name)
		pre.WriteString(p.Prelude)
	}
	return Case{Matrix: matrix, Tmpl: vk.Text(pre.String() + body), Vars: names}
}

func buildData(vars []string) (map[string]interface{}, error) {
	data := map[string]interface{}{"partialFeeder": feeder}
	for _, n := range vars {
		p := byName[n]
		if p == nil {
			return nil, fmt.Errorf("unknown pool value %q", n)
		}
		if p.Mk != nil {
			data[n] = p.Mk()
		}
	}
	return data, nil
}

// ---- oracle ---------------------------------------------------------------------------------------------

var msgRules = []struct {
	re *regexp.Regexp
	to string
}{
	{regexp.MustCompile(`hash of unhashable type .*`), "hash of unhashable type T"},
	{regexp.MustCompile(`value of type .* (is )?not assignable to type .*`), "value of type T is not assignable to type U"},
	{regexp.MustCompile(`interface conversion: .* is .*, not .*`), "interface conversion: interface is T, not U"},
	{regexp.MustCompile(`value method .* called using nil .* pointer`), "value method called using nil pointer"},
	{regexp.MustCompile(`call of (reflect\.Value\.\w+) on zero Value`), "call of $1 on the zero reflect.Value"},
	{regexp.MustCompile(`call of (reflect\.Value\.\w+) on .* Value$`), "call of $1 on wrong-kind Value"},
	{regexp.MustCompile(`call of unknown method on .* Value`), "call of unknown method on wrong-kind Value"},
	{regexp.MustCompile(`(array|slice|string) index out of range`), "index out of range"},
	{regexp.MustCompile(`Call using .* as type .*`), "Call using T as type U"},
	{regexp.MustCompile(`0x[0-9a-f]+|-?\d+`), "N"},
}

// msgKind normalises a panic message so that one root cause gives one text whatever the operand values
// and types were.
func msgKind(p interface{}) string {
	s := fmt.Sprint(p)
	if e, ok := p.(error); ok {
		s = e.Error()
	}
	s = strings.TrimPrefix(s, "runtime error: ")
	for _, r := range msgRules {
		s = r.re.ReplaceAllString(s, r.to)
	}
	s = strings.Join(strings.Fields(s), " ")
	if len(s) > 100 {
		s = s[:100]
	}
	return s
}

// site is the innermost plush frame of the panic: "evalAccessIndex@compiler.go:340".
func site(res vk.Res) string {
	s := res.PanicSite()
	if i := strings.Index(s, " < "); i >= 0 {
		s = s[:i]
	}
	s = strings.TrimPrefix(s, ".")
	s = strings.TrimPrefix(s, "/")
	s = strings.Replace(s, "(*compiler).", "", 1)
	if s == "" {
		s = "outside-plush"
	}
	return s
}

func indexTag(c Case) string {
	if c.Matrix == "random" {
		return " [random program]"
	}
	for _, v := range c.Vars {
		if p := byName[v]; p != nil && p.Odd && (p.Kind == "int" || p.Kind == "int64" || p.Kind == "float") {
			return " [negative or extreme operand]"
		}
	}
	return " [ordinary operands]"
}

var reLine = regexp.MustCompile(`:\d+$`)

// siteKey is site without the line number: class names stay valid while the file is edited elsewhere.
func siteKey(res vk.Res) string { return reLine.ReplaceAllString(site(res), "") }

// inCall reports whether the panic was raised underneath the reflect.Value.Call of evalCallExpression,
// i.e. whether a recover() around that call (text/template's safeCall) would turn it into an error.
func inCall(res vk.Res) bool {
	lines := strings.Split(res.Stack, "\n")
	seenCall := false
	for _, l := range lines {
		if strings.HasPrefix(l, "reflect.Value.Call(") {
			seenCall = true
		}
		if seenCall && strings.Contains(l, "(*compiler).evalCallExpression(") {
			return true
		}
	}
	return false
}

type classInfo struct {
	n        int64
	inCall   int64
	wit      Case
	msg      string
	site2    string
	sites    map[string]bool
	matrices map[string]int64
}

// rootOf strips the matrix name from a class: "index/evalAccessIndex@compiler.go:340: msg" -> "evalAccessIndex@...".
func rootOf(class string) string {
	if i := strings.Index(class, "/"); i >= 0 {
		return class[i+1:]
	}
	return class
}

// isKnown: the class (or its root cause, whatever the matrix) is listed as known-open.
func isKnown(r *vk.Run, class string) bool {
	return knownOpen[class] || knownOpen[rootOf(class)] || r.OpenClass(class) || r.OpenClass(rootOf(class))
}

var (
	aggMu     sync.Mutex
	classes   = map[string]*classInfo{} // by root cause
	replaying bool
)

func smaller(a, b Case) bool {
	if (a.Matrix == "random") != (b.Matrix == "random") {
		return b.Matrix == "random" // a matrix cell is a better witness than a random program
	}
	if len(a.Vars) != len(b.Vars) {
		return len(a.Vars) < len(b.Vars)
	}
	if len(a.Tmpl) != len(b.Tmpl) {
		return len(a.Tmpl) < len(b.Tmpl)
	}
	return a.Tmpl < b.Tmpl
}

func record(class string, c Case, res vk.Res) {
	aggMu.Lock()
	defer aggMu.Unlock()
	root := rootOf(class)
	ci := classes[root]
	if ci == nil {
		ci = &classInfo{wit: c, msg: fmt.Sprint(res.Panic), site2: res.PanicSite(), sites: map[string]bool{}, matrices: map[string]int64{}}
		classes[root] = ci
	}
	ci.n++
	ci.sites[site(res)] = true
	ci.matrices[c.Matrix]++
	if inCall(res) {
		ci.inCall++
	}
	if smaller(c, ci.wit) {
		ci.wit, ci.msg, ci.site2 = c, fmt.Sprint(res.Panic), res.PanicSite()
	}
}

func seenInMatrices(class string) bool {
	aggMu.Lock()
	defer aggMu.Unlock()
	ci := classes[rootOf(class)]
	if ci == nil {
		return false
	}
	for m := range ci.matrices {
		if m != "random" {
			return true
		}
	}
	return false
}

// render runs one case: Parse, then Exec on a context holding freshly built pool values.
func render(c Case) (res vk.Res, parseErr error, harness error) {
	data, err := buildData(c.Vars)
	if err != nil {
		return vk.Res{}, nil, err
	}
	var tpl *plush.Template
	pres := vk.Safe(func() (string, error) {
		t, err := plush.Parse(string(c.Tmpl))
		tpl = t
		return "", err
	})
	if pres.Panicked() {
		return vk.Res{}, fmt.Errorf("parser panic (C03): %v", pres.Panic), nil
	}
	if pres.Err != nil {
		return vk.Res{}, pres.Err, nil
	}
	res = vk.Safe(func() (string, error) { return tpl.Exec(plush.NewContextWith(data)) })
	return res, nil, nil
}

// check is the oracle: the result is (out, nil) or ("", err); never a panic.
func check(r *vk.Run, c Case, nt bool, sub string) *vk.Fail {
	defer r.Watch("case", c)()
	res, perr, herr := render(c)
	if herr != nil {
		return &vk.Fail{Kind: "decode", Msg: herr.Error()}
	}
	if perr != nil {
		// the property quantifies over templates that parse
		r.Exclude("does-not-parse")
		noteParse(c, perr)
		return nil
	}
	key := ""
	if nt {
		key = c.Matrix + "|" + string(c.Tmpl)
	}
	if c.Matrix == "random" { // generator health: how far do random programs get
		switch {
		case res.Panicked():
			sub += "/panic"
		case res.Err != nil:
			sub += "/error"
		default:
			sub += "/ok"
		}
	}
	r.Count(key, sub)
	r.Sample(func() interface{} {
		return map[string]interface{}{"matrix": c.Matrix, "template": c.Tmpl, "vars": c.Vars, "result": res.String()}
	})
	switch {
	case res.Panicked():
		class := c.Matrix + "/" + siteKey(res) + ": " + msgKind(res.Panic)
		if strings.Contains(class, "reflect: index out of range") {
			// reflect does not say which bound was crossed; the inputs do. Without this the open
			// "negative index" class would hide an index >= len reaching reflect.
			class += indexTag(c)
		}
		if !replaying {
			record(class, c, res)
		}
		return &vk.Fail{Kind: "case", Class: class, Case: c,
			Msg: fmt.Sprintf("%s with %v panicked: %v  [site %s]", c.Tmpl, c.Vars, res.Panic, res.PanicSite())}
	case res.Err != nil && res.Out != "":
		return &vk.Fail{Kind: "case", Class: c.Matrix + "/output-with-error", Case: c,
			Msg: fmt.Sprintf("%s with %v returned both output %q and error %v", c.Tmpl, c.Vars, res.Out, res.Err)}
	}
	return nil
}

var (
	parseMu    sync.Mutex
	parseNotes = map[string]string{}
)

func noteParse(c Case, err error) {
	parseMu.Lock()
	if len(parseNotes) < 4000 {
		parseNotes[c.Matrix+" "+string(c.Tmpl)] = strings.SplitN(err.Error(), "\n", 2)[0]
	}
	parseMu.Unlock()
}

// ---- the matrices ---------------------------------------------------------------------------------------

var binops = []string{"+", "-", "*", "/", "<", ">", "<=", ">=", "==", "!=", "&&", "||", "~="}

func opNatural(kind, op string) bool {
	switch kind {
	case "int", "float":
		return op != "~=" && op != "&&" && op != "||"
	case "string":
		return op != "-" && op != "*" && op != "/" && op != "&&" && op != "||"
	case "bool":
		return op == "==" || op == "!=" || op == "&&" || op == "||"
	}
	return false
}

func matrixOps(r *vk.Run, b *builder) {
	for _, op := range binops {
		for _, l := range pool {
			for _, rr := range pool {
				natural := !l.Odd && !rr.Odd && l.Kind == rr.Kind && opNatural(l.Kind, op)
				b.add(cell{mkCase("ops", fmt.Sprintf("<%%= %s %s %s %%>", l.spell(), op, rr.spell()), l, rr), !natural, "ops/" + op})
			}
		}
	}
	for _, x := range pool {
		b.add(cell{mkCase("ops", fmt.Sprintf("<%%= !%s %%>", x.spell()), x), x.Odd || x.Kind != "bool", "ops/!"})
		b.add(cell{mkCase("ops", fmt.Sprintf("<%%= !(%s == %s) %%>", x.spell(), x.spell()), x), x.Odd, "ops/!"})
	}
}

func indexNatural(c, i *pv) bool {
	if c.Odd || i.Odd {
		return false
	}
	switch c.Kind {
	case "slice", "array":
		return i.Kind == "int"
	case "map":
		return c.Key == i.Kind || c.Key == "any"
	}
	return false
}

func matrixIndex(r *vk.Run, b *builder) {
	reads := []string{"<%%= %s[%s] %%>", "<%%= %s[%s].F %%>", "<%%= %s[%s].Hello() %%>", "<%%= %s[%s][0] %%>", "<%%= if (%s[%s]) { %%>T<%% } %%>"}
	conts := append([]*pv{}, pool...)
	conts = append(conts, sub("pS", ".L"), sub("pS", ".M"), sub("sval", ".L"), sub("pS", ".Any"), sub("pS", ".P"))
	for _, c := range conts {
		for _, i := range pool {
			nt := !indexNatural(c, i)
			for k, f := range reads {
				b.add(cell{mkCase("index", fmt.Sprintf(f, c.spell(), i.spell()), c, i), nt, fmt.Sprintf("index/read%d", k)})
			}
			for _, v := range six() {
				b.add(cell{mkCase("index", fmt.Sprintf("<%% %s[%s] = %s %%>ok", c.spell(), i.spell(), v.spell()), c, i, v), true, "index/write"})
			}
		}
	}
	// the assigned value from the whole pool, for a few natural (container, index) pairs
	for _, ci := range [][2]string{{"ints", "int"}, {"anys", "int0"}, {"arr", "int"}, {"parr", "int"}, {"msi", "str"}, {"msa", "str"}, {"mis", "int"}, {"maa", "str"}, {"nilmap", "str"}, {"strs", "int"}, {"structs", "int0"}, {"pstructs", "int0"}, {"lit_arr", "int"}, {"lit_hash", "str"}, {"str", "int"}} {
		c, i := P(ci[0]), P(ci[1])
		for _, v := range pool {
			// c[i] = c builds a collection that contains itself; emitting it used to overflow the stack
			// (fixed in /repo: the nesting depth of printed collections is bounded), so it is generated too
			b.add(cell{mkCase("index", fmt.Sprintf("<%% %s[%s] = %s %%><%%= %s[%s] %%>", c.spell(), i.spell(), v.spell(), c.spell(), i.spell()), c, i, v), true, "index/write-any"})
		}
	}
}

var members = []string{
	".F", ".N", ".P", ".P.F", ".P.P.F", ".T", ".Any", ".L", ".M", ".Fn", ".hidden", ".Nope", ".Nope.F", ".V",
	".Hello()", ".PHello()", ".Add(1)", ".Add()", ".Add(1, 2)", `.Add("x")`, ".Add(nil)", ".Var()", ".Var(1, 2)", `.Var("x")`, ".Var(nil)",
	".Fail()", ".Nope()", ".hidden()", ".F()", ".Fn(1)", ".Fn()", ".Next()", ".String()", ".HTML()", ".Interface()", `.Format("2006")`, ".Unix()",
	".L[0]", ".L[5]", `.M["k"]`, ".P.Hello()", ".Blk()", ".Blk() { %>x<% }", ".Hello() { %>x<% }", ".F.F", ".L.F", ".Len()", ".Hello().F", ".Hello", ".Add",
}

func matrixMember(r *vk.Run, b *builder) {
	for _, rcv := range pool {
		if rcv.Spell != "" {
			continue // member access on a literal does not parse
		}
		natural := !rcv.Odd && (rcv.Name == "sval" || rcv.Name == "pS")
		for _, m := range members {
			nt := !natural || strings.Contains(m, "Nope") || strings.Contains(m, "hidden")
			b.add(cell{mkCase("member", fmt.Sprintf("<%%= %s%s %%>", rcv.spell(), m), rcv), nt, "member/" + m})
		}
		b.add(cell{mkCase("member", fmt.Sprintf("<%% let y = %s.F %%><%%= if (%s.P) { %%>T<%% } %%>", rcv.spell(), rcv.spell()), rcv), !natural, "member/let+if"})
		for _, a := range pool {
			b.add(cell{mkCase("member", fmt.Sprintf("<%%= %s.Add(%s) %%>", rcv.spell(), a.spell()), rcv, a), true, "member/.Add(x)"})
		}
	}
}

func matrixFor(r *vk.Run, b *builder) {
	its := append([]*pv{}, pool...)
	for _, s := range []string{"range(1, 3)", "between(0, 3)", "until(2)", "until(intneg)", "groupBy(2, ints)", "groupBy(2, arr)", "groupBy(1, anys)", "fany(ints)", "fany(nil)", "fnilret()", "fpnilret()", "ufn(ints, 1)", "pS.L", "pS.M", "pS.P", "pS.T", "sval.Any", "anys[3]", "msa[str]", "[ints, nil, msi]"} {
		its = append(its, &pv{Name: "x", Spell: s, Kind: "derived", Odd: true})
	}
	deps := []*pv{P("ints"), P("arr"), P("anys"), P("fany"), P("fnilret"), P("fpnilret"), P("ufn"), P("pS"), P("sval"), P("msa"), P("str"), P("msi"), P("intneg")}
	forms := []string{
		"<%%= for (k, v) in %[1]s { %%>[<%%= k %%>=<%%= v %%>]<%% } %%>",
		"<%%= for (v) in %[1]s { %%><%%= v %%><%% } %%>",
		"<%% for (k, v) in %[1]s { %%>x<%% } %%>",
		"<%%= for (k, v) in %[1]s { %%>a<%% break %%>b<%% } %%>",
		"<%%= for (k, v) in %[1]s { %%>a<%% continue %%>b<%% } %%>",
		"<%%= for (k, v) in %[1]s { return v } %%>",
		"<%%= for (k, v) in %[1]s { %%><%%= v.F %%><%% } %%>",
		"<%%= for (k, v) in %[1]s { %%><%%= %[1]s[k] %%><%% } %%>",
		"<%%= for (k, v) in %[1]s { %%><%% %[1]s[k] = v %%><%% } %%>",
		"<%%= for (k, v) in %[1]s { %%><%%= k + 1 %%><%%= v + v %%><%% } %%>",
		"<%%= for (k, v) in %[1]s { %%><%%= for (j, w) in v { %%><%%= w %%><%% } %%><%% } %%>",
		"<%% let f = fn(x) { for (k, v) in x { return v } } %%><%%= f(%[1]s) %%>",
		"<%%= fblk() { %%><%%= for (k, v) in %[1]s { %%><%%= v %%><%% } %%><%% } %%>",
	}
	for _, it := range its {
		natural := !it.Odd && (it.Kind == "slice" || it.Kind == "array" || it.Kind == "map" || it.Kind == "iter")
		for k, f := range forms {
			vs := []*pv{it}
			if it.Name == "x" {
				vs = deps
			}
			if strings.Contains(f, "fblk") {
				vs = append(append([]*pv{}, vs...), P("fblk"))
			}
			c := mkCase("for", fmt.Sprintf(f, it.spell()), vs...)
			if it.Name == "x" {
				c.Vars = trimVars(c)
			}
			b.add(cell{c, !natural, fmt.Sprintf("for/form%d", k)})
		}
	}
	for _, a := range pool {
		for _, a2 := range pool {
			b.add(cell{mkCase("for", fmt.Sprintf("<%%= for (k, v) in %s { %%><%%= for (j, w) in %s { %%><%%= v %%><%%= w %%><%% } %%><%% } %%>", a.spell(), a2.spell()), a, a2), true, "for/nested"})
		}
	}
}

var identRe = regexp.MustCompile(`[A-Za-z_][A-Za-z0-9_]*`)

// trimVars keeps only the variables the template text mentions (smaller witnesses).
func trimVars(c Case) []string {
	used := map[string]bool{}
	for _, id := range identRe.FindAllString(string(c.Tmpl), -1) {
		used[id] = true
	}
	var out []string
	for _, v := range c.Vars {
		if used[v] {
			out = append(out, v)
		}
	}
	return out
}

func argLists(from []*pv, max int) [][]*pv {
	out := [][]*pv{{}}
	prev := [][]*pv{{}}
	for n := 1; n <= max; n++ {
		var next [][]*pv
		for _, p := range prev {
			for _, a := range from {
				l := append(append([]*pv{}, p...), a)
				next = append(next, l)
			}
		}
		out = append(out, next...)
		prev = next
	}
	return out
}

func spellArgs(args []*pv) string {
	var s []string
	for _, a := range args {
		s = append(s, a.spell())
	}
	return strings.Join(s, ", ")
}

func callCase(matrix, callee string, args []*pv, block bool, deps ...*pv) Case {
	body := fmt.Sprintf("<%%= %s(%s) %%>", callee, spellArgs(args))
	if block {
		body = fmt.Sprintf("<%%= %s(%s) { %%>B<%% } %%>", callee, spellArgs(args))
	}
	return mkCase(matrix, body, append(append([]*pv{}, deps...), args...)...)
}

func matrixCall(r *vk.Run, b *builder) {
	callees := append([]*pv{}, pool...)
	callees = append(callees, sub("pS", ".Add"), sub("pS", ".Var"), sub("pS", ".Fn"), sub("sval", ".Fn"), sub("szero", ".Fn"), sub("pS", ".PHello"), sub("nilpS", ".PHello"), sub("pS", ".Blk"), sub("pS", ".F"), sub("anys", "[0]"))
	lists := argLists(six(), 3)
	for _, cal := range callees {
		for _, args := range lists {
			for _, block := range []bool{false, true} {
				b.add(cell{callCase("call", cal.spell(), args, block, cal), true, fmt.Sprintf("call/%d args", len(args))})
			}
		}
		for _, a := range pool {
			b.add(cell{callCase("call", cal.spell(), []*pv{a}, false, cal), true, "call/1 arg, whole pool"})
			b.add(cell{callCase("call", cal.spell(), []*pv{P("str"), a}, false, cal), true, "call/2 args, whole pool"})
			b.add(cell{callCase("call", cal.spell(), []*pv{P("int"), a}, false, cal), true, "call/2 args, whole pool"})
		}
	}
	if r.Thorough() { // two arguments, both from the whole pool
		for _, cal := range callees {
			for _, a := range pool {
				for _, a2 := range pool {
					b.add(cell{callCase("call", cal.spell(), []*pv{a, a2}, false, cal), true, "call/2 args, pool x pool"})
				}
			}
		}
	}
	// calls whose result is used: chained, indexed, as operand
	for _, cal := range pool {
		for _, f := range []string{"<%%= %s().F %%>", "<%%= %s() + 1 %%>", "<%%= %s()[0] %%>", "<%%= if (%s()) { %%>T<%% } %%>", "<%% let y = %s() %%><%%= y %%>", "<%%= fany(%s) %%>", "<%%= fany(%s)() %%>", "<%%= len(%s()) %%>"} {
			b.add(cell{mkCase("call", fmt.Sprintf(f, cal.spell()), cal, P("fany")), true, "call/result used"})
		}
	}
}

func helperNames() []string {
	var hs []string
	for k := range plush.Helpers.All() {
		hs = append(hs, k)
	}
	sort.Strings(hs)
	return hs
}

func matrixHelper(r *vk.Run, b *builder) {
	l2 := argLists(pool, 2)
	if r.Quick() { // quick: 0-1 arguments from the whole pool; pairs where at least one side is one of every third pool value
		third := map[*pv]bool{}
		for i, p := range pool {
			if i%3 == 0 || p.Odd && i%2 == 0 {
				third[p] = true
			}
		}
		var keep [][]*pv
		for _, l := range l2 {
			if len(l) < 2 || third[l[0]] || third[l[1]] {
				keep = append(keep, l)
			}
		}
		l2 = keep
	}
	l3 := argLists(eight(), 3)
	if r.Thorough() { // three arguments from 24 kinds
		more := eight()
		for i, p := range pool {
			if i%4 == 0 && !containsPV(more, p) {
				more = append(more, p)
			}
		}
		l3 = argLists(more, 3)
	}
	for _, h := range helperNames() {
		for _, args := range l2 {
			b.add(cell{callCase("helper", h, args, false), true, "helper/" + h})
			if len(args) <= 1 {
				b.add(cell{callCase("helper", h, args, true), true, "helper/" + h})
			}
		}
		for _, args := range l3 {
			if len(args) == 3 {
				b.add(cell{callCase("helper", h, args, false), true, "helper/" + h})
			}
		}
		for _, a := range eight() {
			for _, a2 := range eight() {
				b.add(cell{callCase("helper", h, []*pv{a, a2}, true), true, "helper/" + h})
			}
		}
	}
	// option maps with wrong-typed values
	for _, a := range pool {
		for _, a2 := range pool {
			b.add(cell{mkCase("helper", fmt.Sprintf(`<%%= truncate(strlong, {"size": %s, "trail": %s}) %%>`, a.spell(), a2.spell()), P("strlong"), a, a2), true, "helper/truncate options"})
		}
		for _, f := range []string{
			`<%%= truncate(strlong, {"size": %s}) %%>`, `<%%= truncate(strlong, {"trail": %s}) %%>`, `<%%= truncate(strlong, {"size": 3, "trail": %s}) %%>`,
			`<%%= truncate(strlong, {"size": %s, "trail": "…"}) %%>`, `<%%= truncate(strlong, %s) %%>`,
			`<%%= partial("p", {"layout": %s}) %%>`, `<%%= partial("p", {"k": %s}) %%>`, `<%%= partial(%s, {"layout": "p"}) %%>`,
			`<%% contentFor("c") { %%>B<%% } %%><%%= contentOf("c", {"k": %s}) %%>`, `<%% contentFor("c") { %%>B<%% } %%><%%= contentOf("c", %s) %%>`,
			`<%% contentFor(%s) { %%>B<%% } %%><%%= contentOf("c") %%>`, `<%% contentFor("c") { %%>B<%%= k %%><%% } %%><%%= contentOf(%s, {"k": 1}) %%>`,
			`<%%= contentOf("zz", {"k": %s}) { %%>D<%%= k %%><%% } %%>`, `<%% let len = %s %%><%%= len("abc") %%>`,
			`<%%= for (v) in groupBy(2, %s) { %%><%%= v %%><%% } %%>`, `<%%= for (v) in groupBy(%s, ints) { %%><%%= v %%><%% } %%>`,
			`<%%= for (v) in until(len(%s)) { %%><%%= v %%><%% } %%>`, `<%%= len(%s) + 1 %%>`,
		} {
			vs := []*pv{a}
			for _, d := range []string{"strlong", "ints"} {
				if strings.Contains(f, d) {
					vs = append(vs, P(d))
				}
			}
			b.add(cell{mkCase("helper", fmt.Sprintf(f, a.spell()), vs...), true, "helper/option maps, blocks, composition"})
		}
	}
}

func matrixStmt(r *vk.Run, b *builder) {
	forms := []string{
		"<%%= %s %%>", "<%% %s %%>", "<%% let y = %s %%><%%= y %%>", "<%% let y = 1 %%><%% y = %s %%><%%= y %%>", "<%% %[1]s = %[1]s %%>",
		"<%%= if (%s) { %%>T<%% } else { %%>F<%% } %%>", "<%%= if (%s == nil) { %%>T<%% } %%>", "<%%= if (false) { %%>a<%% } else if (%s) { %%>T<%% } %%>",
		"<%% let f = fn() { return %s } %%><%%= f() %%>", "<%% let f = fn(q) { return q } %%><%%= f(%s) %%>", "<%% let f = fn() { %%><%%= %s %%><%% } %%><%%= f() %%>",
		"<%%= [%[1]s, %[1]s] %%>", `<%%= {"k": %s} %%>`, `<%%= {"k": %s}["k"] %%>`, "<%%= [%s][0] %%>",
		"<%%= for (i) in [1, 2] { %%><%%= %s %%><%% } %%>", "<%%= fblk() { %%><%%= %s %%><%% } %%>", "<%%= if (true) { %%><%%= %s %%><%% } %%>", "<%%= if (true) { return %s } %%>",
		"<%% return %s %%>", "<%% let TIME_FORMAT = %s %%><%%= tim %%>", "<%% %s = 1 %%>ok", "<%% let y = %s %%><%% y[0] = 1 %%><%%= y %%>",
	}
	for _, x := range pool {
		for k, f := range forms {
			vs := []*pv{x}
			if strings.Contains(f, "fblk") {
				vs = append(vs, P("fblk"))
			}
			if strings.Contains(f, "tim") {
				vs = append(vs, P("tim"))
			}
			if strings.Contains(f, "= 1 %%>ok") && x.Mk == nil && x.Prelude == "" {
				continue // assignment to a literal is a parse-level matter
			}
			b.add(cell{mkCase("stmt", fmt.Sprintf(f, x.spell()), vs...), x.Odd, fmt.Sprintf("stmt/form%d", k)})
		}
	}
}

// ---- random well-formed programs ------------------------------------------------------------------------

type progGen struct {
	t     *rapid.T
	used  map[string]bool
	fns   []string // template-defined functions defined so far (never reassigned, bodies only call earlier ones)
	lets  []string // let-variables: never used as callee, so no recursion can be built
	loops int
}

func (g *progGen) leaf() string {
	if len(g.lets) > 0 && rapid.IntRange(0, 5).Draw(g.t, "uselet") == 0 {
		return rapid.SampledFrom(g.lets).Draw(g.t, "let")
	}
	p := rapid.SampledFrom(pool).Draw(g.t, "leaf")
	g.used[p.Name] = true
	return p.spell()
}

// ident: a leaf that is an identifier (bound pool value, template-defined function or let-variable)
func (g *progGen) ident() string {
	if len(g.lets) > 0 && rapid.IntRange(0, 5).Draw(g.t, "uselet") == 0 {
		return rapid.SampledFrom(g.lets).Draw(g.t, "let")
	}
	p := rapid.SampledFrom(idents).Draw(g.t, "ident")
	g.used[p.Name] = true
	return p.Name
}

// simple: an expression that is not an array or hash literal and needs no parentheses (loop iterables, conditions)
func (g *progGen) simple(d int) string {
	switch rapid.IntRange(0, 5).Draw(g.t, "simplekind") {
	case 0, 1:
		return g.ident()
	case 2:
		return g.ident() + "[" + g.expr(d-1) + "]"
	case 3:
		return g.ident() + rapid.SampledFrom([]string{".L", ".M", ".P", ".Any", ".F", ".Nope"}).Draw(g.t, "member")
	case 4:
		if d > 0 {
			return g.call(d)
		}
	}
	return g.leaf()
}

func (g *progGen) cond(d int) string {
	switch rapid.IntRange(0, 3).Draw(g.t, "condkind") {
	case 0:
		return fmt.Sprintf("%s %s %s", g.operand(d), rapid.SampledFrom(binops).Draw(g.t, "op"), g.operand(d))
	case 1:
		return "!" + g.simple(d)
	}
	return g.simple(d)
}

func (g *progGen) callee() string {
	n := rapid.IntRange(0, 9).Draw(g.t, "calleekind")
	switch {
	case n == 0 && len(g.fns) > 0:
		return rapid.SampledFrom(g.fns).Draw(g.t, "fn")
	case n <= 2:
		return rapid.SampledFrom(helpersForRandom).Draw(g.t, "helper")
	case n == 3:
		g.used["pS"] = true
		return "pS" + rapid.SampledFrom([]string{".Add", ".Var", ".Hello", ".PHello", ".Fn", ".Blk", ".Fail", ".Nope", ".P.Hello"}).Draw(g.t, "method")
	}
	p := rapid.SampledFrom(pool).Draw(g.t, "callee")
	g.used[p.Name] = true
	if p.Mk == nil && p.Prelude == "" {
		g.used["f1"] = true
		return "f1"
	}
	return p.Name
}

var helpersForRandom []string

var idents []*pv // pool values spelled as identifiers

var scalars = []string{"int", "intneg", "int64", "uint8", "float64", "str", "strempty", "btrue", "nil", "unk", "nilpS", "nilptime", "sval", "html", "tim", "f0", "lit_int", "lit_str"}

func (g *progGen) use(names ...string) {
	for _, n := range names {
		g.used[n] = true
	}
}

// intExpr: an expression that evaluates to an int (so that evaluation gets past it and reaches what follows)
func (g *progGen) intExpr(d int) string {
	k := rapid.IntRange(0, 9).Draw(g.t, "intexpr")
	if d <= 0 && k > 4 {
		k -= 5
	}
	switch k {
	case 0:
		g.use("int")
		return "int"
	case 1:
		g.use("int0")
		return "int0"
	case 2:
		g.use("intneg")
		return "intneg"
	case 3:
		return fmt.Sprint(rapid.IntRange(0, 4).Draw(g.t, "small"))
	case 4:
		g.use("strs")
		return "len(strs)"
	case 5:
		g.use("f1")
		return "f1(" + g.intExpr(d-1) + ")"
	case 6:
		return g.intExpr(d-1) + " " + rapid.SampledFrom([]string{"+", "-", "*"}).Draw(g.t, "arith") + " " + g.intExpr(d-1)
	case 7:
		g.use("ints")
		return "ints[" + g.intExpr(d-1) + "]"
	case 8:
		g.use("pS")
		return "pS.Add(" + g.intExpr(d-1) + ")"
	default:
		g.use("fvar")
		return "fvar(" + g.intExpr(d-1) + ", " + g.intExpr(d-1) + ")"
	}
}

// natural: a well-typed construct around arbitrary sub-expressions
func (g *progGen) natural(d int) string {
	switch rapid.IntRange(0, 11).Draw(g.t, "natural") {
	case 0:
		return g.intExpr(d)
	case 1:
		c := rapid.SampledFrom([]string{"ints", "anys", "strs", "structs", "pstructs", "arr", "parr", "bytes"}).Draw(g.t, "seq")
		g.use(c)
		return c + "[" + g.intExpr(d-1) + "]"
	case 2:
		c := rapid.SampledFrom([]string{"msi", "msa", "msS", "maa"}).Draw(g.t, "map")
		g.use(c)
		return c + "[" + rapid.SampledFrom([]string{`"a"`, `"abc"`, `"zz"`}).Draw(g.t, "key") + "]"
	case 3:
		g.use("str")
		return "str + " + g.operand(d-1)
	case 4:
		g.use("fany")
		return "fany(" + g.expr(d-1) + ")"
	case 5:
		g.use("ufn")
		return "ufn(" + g.expr(d-1) + ", " + g.expr(d-1) + ")"
	case 6:
		c := rapid.SampledFrom([]string{"ints", "anys", "strs", "msi", "str", "arr", "pints", "lit_arr"}).Draw(g.t, "sized")
		g.use(c)
		return "len(" + P(c).spell() + ")"
	case 7:
		g.use("anys")
		return "anys + " + g.operand(d-1)
	case 8:
		g.use("fvar2")
		return "fvar2(str, " + g.expr(d-1) + ", " + g.expr(d-1) + ")"
	case 9:
		g.use("strlong")
		return fmt.Sprintf(`truncate(strlong, {"size": %s})`, g.intExpr(d-1))
	case 10:
		g.use("ints")
		return "groupBy(" + g.intExpr(d-1) + ", ints)"
	default:
		return g.operand(d-1) + " == " + g.operand(d-1)
	}
}

func (g *progGen) expr(d int) string {
	if d <= 0 {
		return g.leaf()
	}
	if rapid.IntRange(0, 9).Draw(g.t, "wellTyped") < 4 {
		return g.natural(d)
	}
	switch rapid.IntRange(0, 11).Draw(g.t, "expr") {
	case 0, 1:
		return g.leaf()
	case 2, 3:
		return fmt.Sprintf("%s %s %s", g.operand(d-1), rapid.SampledFrom(binops).Draw(g.t, "op"), g.operand(d-1))
	case 4:
		return "!" + g.operand(d-1)
	case 5, 6:
		return fmt.Sprintf("%s[%s]", g.operand(d-1), g.expr(d-1))
	case 7:
		// member access is only spelled on identifiers (the parser rejects it after ")" and after literals)
		return g.ident() + rapid.SampledFrom([]string{".F", ".N", ".P", ".L", ".M", ".Any", ".Nope", ".hidden", ".Hello()", ".PHello()", ".Add(1)", ".Fail()", ".T"}).Draw(g.t, "member")
	case 8, 9:
		return g.call(d)
	case 10:
		n := rapid.IntRange(0, 3).Draw(g.t, "nelem")
		var el []string
		for i := 0; i < n; i++ {
			el = append(el, g.expr(d-1))
		}
		return "[" + strings.Join(el, ", ") + "]"
	default:
		n := rapid.IntRange(0, 2).Draw(g.t, "npairs")
		var el []string
		for i := 0; i < n; i++ {
			el = append(el, fmt.Sprintf("%q: %s", rapid.SampledFrom([]string{"a", "size", "trail", "layout", "k"}).Draw(g.t, "key"), g.expr(d-1)))
		}
		return "{" + strings.Join(el, ", ") + "}"
	}
}

// operand: an expression that can stand to the left of an operator, index or member access
func (g *progGen) operand(d int) string {
	if d <= 0 || rapid.IntRange(0, 2).Draw(g.t, "simple") > 0 {
		return g.leaf()
	}
	if rapid.Bool().Draw(g.t, "paren") {
		return "(" + g.expr(d) + ")"
	}
	return g.call(d)
}

func (g *progGen) call(d int) string {
	cal := g.callee()
	switch cal {
	case "range", "between", "until":
		// iterated only with small arguments here (extremes belong to C19)
		a, b := rapid.IntRange(0, 4).Draw(g.t, "small"), rapid.IntRange(0, 4).Draw(g.t, "small")
		if cal == "until" {
			return fmt.Sprintf("until(%d)", a)
		}
		return fmt.Sprintf("%s(%d, %d)", cal, a, b)
	}
	n := rapid.IntRange(0, 3).Draw(g.t, "nargs")
	var args []string
	for i := 0; i < n; i++ {
		args = append(args, g.expr(d-1))
	}
	return fmt.Sprintf("%s(%s)", cal, strings.Join(args, ", "))
}

func (g *progGen) stmts(d int, inLoop, inFn bool) string {
	var sb strings.Builder
	n := rapid.IntRange(1, 3).Draw(g.t, "nstmts")
	for i := 0; i < n; i++ {
		k := rapid.IntRange(0, 13).Draw(g.t, "stmt")
		switch {
		case k <= 2:
			fmt.Fprintf(&sb, "<%%= %s %%>", g.expr(d))
		case k == 3:
			v := fmt.Sprintf("x%d", rapid.IntRange(0, 2).Draw(g.t, "letvar"))
			fmt.Fprintf(&sb, "<%% let %s = %s %%>", v, g.expr(d))
			if !contains(g.lets, v) {
				g.lets = append(g.lets, v)
			}
		case k == 4 && len(g.lets) > 0:
			fmt.Fprintf(&sb, "<%% %s = %s %%>", rapid.SampledFrom(g.lets).Draw(g.t, "target"), g.expr(d))
		case k == 5:
			// the assigned value is a scalar: a collection stored into itself (directly or through a variable)
			// would make every later traversal (emit, inspect) recurse until the fatal stack overflow
			v := rapid.SampledFrom(scalars).Draw(g.t, "assigned")
			g.used[v] = true
			fmt.Fprintf(&sb, "<%% %s[%s] = %s %%>", g.ident(), g.expr(d-1), P(v).spell())
		case k == 6 && d > 0:
			fmt.Fprintf(&sb, "<%%= if (%s) { %%>%s<%% } else { %%>%s<%% } %%>", g.cond(d-1), g.stmts(d-1, inLoop, inFn), g.stmts(d-1, inLoop, inFn))
		case k == 7 && d > 0 && g.loops < 3:
			g.loops++
			fmt.Fprintf(&sb, "<%%= for (k%[1]d, v%[1]d) in %[2]s { %%>", g.loops, g.simple(d-1))
			g.lets = append(g.lets, fmt.Sprintf("k%d", g.loops), fmt.Sprintf("v%d", g.loops))
			sb.WriteString(g.stmts(d-1, true, inFn))
			g.lets = g.lets[:len(g.lets)-2]
			sb.WriteString("<% } %>")
		case k == 8 && d > 0 && !inFn && !inLoop && len(g.fns) < 3:
			name := fmt.Sprintf("g%d", len(g.fns))
			np := rapid.IntRange(0, 2).Draw(g.t, "nparams")
			params := []string{"pa", "pb"}[:np]
			saved := g.lets
			g.lets = append(append([]string{}, g.lets...), params...)
			body := g.stmts(d-1, false, true)
			g.lets = saved
			fmt.Fprintf(&sb, "<%% let %s = fn(%s) { %%>%s<%% } %%>", name, strings.Join(params, ", "), body)
			g.fns = append(g.fns, name)
		case k == 9 && d > 0:
			cal := g.callee()
			if cal == "range" || cal == "between" || cal == "until" {
				cal = "htmlEscape"
			}
			n := rapid.IntRange(0, 2).Draw(g.t, "nargs")
			var args []string
			for i := 0; i < n; i++ {
				args = append(args, g.expr(d-1))
			}
			fmt.Fprintf(&sb, "<%%= %s(%s) { %%>%s<%% } %%>", cal, strings.Join(args, ", "), g.stmts(d-1, inLoop, inFn))
		case k == 10 && inLoop:
			sb.WriteString(rapid.SampledFrom([]string{"<% break %>", "<% continue %>"}).Draw(g.t, "jump"))
		case k == 11 && (inFn || inLoop):
			fmt.Fprintf(&sb, "<%% return %s %%>", g.expr(d-1))
		default:
			sb.WriteString("t")
		}
	}
	return sb.String()
}

func containsPV(xs []*pv, p *pv) bool {
	for _, x := range xs {
		if x == p {
			return true
		}
	}
	return false
}

func contains(xs []string, s string) bool {
	for _, x := range xs {
		if x == s {
			return true
		}
	}
	return false
}

func genProgram(t *rapid.T) Case {
	g := &progGen{t: t, used: map[string]bool{}}
	body := g.stmts(3, false, false)
	var vs []*pv
	for _, p := range pool { // pool order, not map order
		if g.used[p.Name] {
			vs = append(vs, p)
		}
	}
	return mkCase("random", body, vs...)
}

// ---- driver ---------------------------------------------------------------------------------------------

const rule = "Seven exhaustive matrices over a pool of ~100 named Go values (ints of every width incl. negative/min/max, uints, floats incl. NaN, " +
	"strings empty/non-empty/non-regex, bools, the nil literal, an unknown identifier, typed nils (*struct, *[]int, *time.Time, nil slice/map/func/iterator), " +
	"slices incl. []interface{} with nils inside, arrays, maps keyed by string/int/float/interface{}, structs with exported/unexported fields and value/pointer methods, " +
	"pointers (also to slices, arrays, maps, funcs, pointers), ~25 function signatures incl. variadic, block-taking, error-returning, void, " +
	"iterators, template.HTML, HTMLer, Stringer, time.Time, template-defined functions fn(a, b) and fn(), literals), each built fresh for every render: " +
	"(ops) L op R for 13 binary operators and !; (index) c[i], c[i].F, c[i].M(), c[i][0], if (c[i]), c[i] = v; (member) r.F r.M() r.Nope r.unexported r.Nope() and 40 more member shapes, r.Add(x); " +
	"(for) 13 loop shapes over every kind incl. break/continue/return/write-back/nested; (call) callee(args) with 0-3 arguments from 6 kinds with and without block + 1-2 arguments from the whole pool, results used; " +
	"(helper) every built-in in plush.Helpers.All() x 0-2 arguments from the whole pool, 3 arguments from 8 kinds, with blocks, option maps for truncate/partial/contentOf with values from the whole pool " +
	"(range/between/until results are never iterated with large arguments); (stmt) emit/let/assign/if/else-if/return/array/hash/function-return of every kind. " +
	"Then random well-formed programs (all constructs, depth 3) whose leaves come from the pool. " +
	"Oracle: Parse then Exec returns (out, nil) or (\"\", err), never a panic; templates that do not parse are outside the property. " +
	"Panics are grouped by root cause: class = matrix/innermost plush frame: normalised message. " +
	"Non-trivial: the two operand kinds differ, or an operand is nil / typed nil / negative / extreme / wrong-typed for the operation (for calls: every cell); distinct by template text."

func setup(t *testing.T) *vk.Run {
	r := vk.Start(t, "C04", rule,
		"pool functions, methods and iterators are total and nil-safe, so a panic can only come from the engine, a built-in helper, or the reflect call the engine makes",
		"a panic inside the parser is C03's subject; such a template is counted as not parsing",
		"the context always holds partialFeeder (serves partials \"p\" and \"abc\")")
	r.Replayer("case", func(raw json.RawMessage) *vk.Fail {
		var c Case
		if f := vk.Decode(raw, &c); f != nil {
			return f
		}
		replaying = true
		defer func() { replaying = false }()
		f := check(r, c, true, "replay")
		if f != nil && f.Class != "" && isKnown(r, f.Class) {
			return nil
		}
		return f
	})
	r.Replayer("gofuzz", func(raw json.RawMessage) *vk.Fail {
		var c struct {
			CorpusFile string `json:"corpus_file"`
		}
		if f := vk.Decode(raw, &c); f != nil {
			return f
		}
		for _, l := range strings.Split(c.CorpusFile, "\n") {
			l = strings.TrimSpace(l)
			if strings.HasPrefix(l, "[]byte(") && strings.HasSuffix(l, ")") {
				src, err := strconv.Unquote(l[len("[]byte(") : len(l)-1])
				if err != nil {
					return &vk.Fail{Kind: "decode", Msg: err.Error()}
				}
				if len(src) > 512 {
					src = src[:512]
				}
				res := vk.Safe(func() (string, error) { return plush.Render(src, plush.NewContextWith(fuzzData())) })
				if res.Panicked() && !res.Budget {
					return &vk.Fail{Kind: "gofuzz", Case: c, Msg: fmt.Sprintf("template %q with the whole pool bound: %s", src, res)}
				}
				return nil
			}
		}
		return &vk.Fail{Kind: "decode", Msg: "no value in fuzz corpus file"}
	})
	helpersForRandom = helperNames()
	idents = nil
	for _, p := range pool {
		if p.Spell == "" {
			idents = append(idents, p)
		}
	}
	return r
}

func TestReplay(t *testing.T) { setup(t).ReplayEnv() }

// builder enumerates a matrix; only the cells of this shard are kept in memory.
type builder struct {
	r     *vk.Run
	n     int64
	cells []cell
}

func (b *builder) add(c cell) {
	if b.r.Mine(b.n) {
		b.cells = append(b.cells, c)
	}
	b.n++
}

// runCells evaluates one matrix in parallel; failures are collected per class and reported at the end.
func runCells(r *vk.Run, name string, build func(*vk.Run, *builder)) {
	b := &builder{r: r}
	build(r, b)
	r.Subspace(name, b.n, true)
	cells := b.cells
	var next int64
	var wg sync.WaitGroup
	for w := 0; w < runtime.GOMAXPROCS(0); w++ {
		wg.Add(1)
		go func() {
			defer wg.Done()
			for {
				i := atomic.AddInt64(&next, 1) - 1
				if i >= int64(len(cells)) {
					return
				}
				runCell(r, cells[i])
			}
		}()
	}
	wg.Wait()
}

func runCell(r *vk.Run, c cell) {
	{
		f := check(r, c.c, c.nt, c.sub)
		if f == nil {
			return
		}
		if f.Class != "" && isKnown(r, f.Class) {
			r.Exclude(rootOf(f.Class))
			return
		}
		if !strings.Contains(f.Class, ": ") { // not a panic class: report directly
			r.Check(f)
		}
	}
}

func TestProp(t *testing.T) {
	r := setup(t)
	defer r.Finish()
	r.ReplayCommitted()

	runCells(r, "ops: 13 binary operators x pool x pool, ! x pool", matrixOps)
	runCells(r, "index: (pool + derived containers) x pool x {5 read shapes, write of 6 kinds} + 15 natural pairs x whole pool assigned", matrixIndex)
	runCells(r, "member: pool x 50 member shapes + pool x .Add(pool)", matrixMember)
	runCells(r, "for: (pool + 20 derived iterables) x 13 loop shapes + pool x pool nested", matrixFor)
	runCells(r, "call: (pool + 10 derived callees) x 0-3 arguments from 6 kinds x block/no block + 1-2 arguments from the whole pool + results used", matrixCall)
	runCells(r, "helper: every built-in x 0-2 arguments from the whole pool (quick tier: pairs with at least one side in a 45-value subset; +block for 0-1) + 3 arguments from 8 kinds (thorough: 30) + 2 of 8 with block + option maps/composition x pool", matrixHelper)
	runCells(r, "stmt: pool x 23 statement shapes", matrixStmt)

	r.Rapid("random", r.Pick(20000, 150000), func(t *rapid.T) *vk.Fail {
		c := genProgram(t)
		f := check(r, c, true, "random")
		if f != nil && f.Class != "" && (isKnown(r, f.Class) || seenInMatrices(f.Class)) {
			// known-open, or already found (and reported below) by a matrix: keep exploring past it
			r.Exclude(rootOf(f.Class))
			return nil
		}
		return f
	})

	report(r)
}

// report prints one line per panic root cause and raises one VIOLATION (with the minimal witness) per
// root cause that is not listed as known-open.
func report(r *vk.Run) {
	aggMu.Lock()
	defer aggMu.Unlock()
	var names []string
	for k := range classes {
		names = append(names, k)
	}
	sort.Strings(names)
	var summary []map[string]interface{}
	for _, k := range names {
		ci := classes[k]
		class := ci.wit.Matrix + "/" + k
		known := isKnown(r, class)
		cov := "never"
		if ci.inCall == ci.n {
			cov = "always"
		} else if ci.inCall > 0 {
			cov = fmt.Sprintf("%d/%d", ci.inCall, ci.n)
		}
		status := "NEW"
		if known {
			status = "known-open"
		}
		var ms []string
		onlyRandom := true
		for m, n := range ci.matrices {
			ms = append(ms, fmt.Sprintf("%s:%d", m, n))
			if m != "random" {
				onlyRandom = false
			}
		}
		sort.Strings(ms)
		var sites []string
		for x := range ci.sites {
			sites = append(sites, x)
		}
		sort.Strings(sites)
		fmt.Printf("NOTE: class %q %s cells=%v under-reflect-Call=%s sites=%v witness=%s vars=%v panic=%q\n", class, status, ms, cov, sites, ci.wit.Tmpl, ci.wit.Vars, ci.msg)
		summary = append(summary, map[string]interface{}{"class": class, "status": status, "cells": ci.matrices, "under_reflect_call": cov, "witness": ci.wit, "panic": ci.msg, "sites": sites, "frames": ci.site2})
		if !known && !onlyRandom { // failures seen only in the random phase were reported by r.Rapid
			r.Violation(&vk.Fail{Kind: "case", Class: class, Case: ci.wit,
				Msg: fmt.Sprintf("%s with %v panicked: %s (%d cells with this root cause)", ci.wit.Tmpl, ci.wit.Vars, ci.msg, ci.n)})
		}
	}
	r.Extra("panic_classes", summary)
	parseMu.Lock()
	if os.Getenv("VERIF_DEBUG") != "" {
		for k, v := range parseNotes {
			fmt.Printf("NOTE: does not parse: %s: %s\n", k, v)
		}
	}
	parseMu.Unlock()
}

// ---- native fuzzing of the evaluator (thorough tier only) ---------------------------------------------------
//
// FuzzRender: bytes -> template text, rendered with the WHOLE pool bound under
// its names. The oracle is the property's: output or error, never a panic.
// Excluded by construction, because they are non-terminating user programs and
// not engine faults: template-defined functions (unbounded recursion), the
// contentOf helper (a stored block can contain its own contentOf) and long
// iterator loops (range/between/until are capped at 64 steps here).

type cappedIter struct{ cur, end, left int }

func (c *cappedIter) Next() interface{} {
	if c.cur > c.end || c.left <= 0 {
		return nil
	}
	c.left--
	c.cur++
	return c.cur - 1
}

func fuzzData() map[string]interface{} {
	data := map[string]interface{}{}
	for _, p := range pool {
		if p.Mk != nil {
			data[p.Name] = p.Mk()
		}
	}
	data["range"] = func(a, b int) plush.Iterator { return &cappedIter{cur: a, end: b, left: 64} }
	data["between"] = func(a, b int) plush.Iterator { return &cappedIter{cur: a + 1, end: b - 1, left: 64} }
	data["until"] = func(a int) plush.Iterator { return &cappedIter{cur: 0, end: a - 1, left: 64} }
	data["contentOf"] = func(name string) string { return "" }
	return data
}

var fnWord = regexp.MustCompile(`\b(fn|func)\b`)

func FuzzRender(f *testing.F) {
	r := &vk.Run{}
	b := &builder{r: r}
	_ = b
	seeds := 0
	for _, m := range []func(*vk.Run, *builder){matrixOps, matrixIndex, matrixMember, matrixFor, matrixCall, matrixStmt} {
		bb := &builder{r: &vk.Run{Shards: 1}}
		m(bb.r, bb)
		for i, c := range bb.cells {
			if i%997 == 0 && !fnWord.MatchString(string(c.c.Tmpl)) {
				f.Add([]byte(c.c.Tmpl))
				seeds++
			}
		}
	}
	f.Fuzz(func(t *testing.T, in []byte) {
		if len(in) > 512 {
			in = in[:512]
		}
		src := string(in)
		if fnWord.MatchString(src) {
			t.Skip()
		}
		res := vk.Safe(func() (string, error) { return plush.Render(src, plush.NewContextWith(fuzzData())) })
		if res.Panicked() && !res.Budget {
			t.Fatalf("template %q: %s\n%s", src, res, res.Stack)
		}
	})
}
