// C18 — layout inside code tags is insignificant: whitespace, comments, tag splitting.
package c18

import (
	"encoding/json"
	"fmt"
	"regexp"
	"sort"
	"strings"
	"testing"

	"verif/internal/match"
	"verif/internal/model"
	"verif/internal/progs"
	"verif/internal/vk"

	plush "github.com/gobuffalo/plush/v5"
	"pgregory.net/rapid"
)

func TestMain(m *testing.M) { vk.Main(m) }

// ---- chunks: a canonical template split into text and tags, tags into tokens -------------------

type chunk struct {
	text   string // literal text (tag == false)
	tag    bool
	opener string   // "<%" or "<%=" or "<%#"
	toks   []string // tokens of a code tag; "\n" marks a statement boundary of the compact printer
	body   string   // comment body
}

// tokenize splits the code of one tag (as printed by model.Printer) into tokens.
func tokenize(code string) ([]string, error) {
	var out []string
	i := 0
	isWord := func(c byte) bool {
		return c >= 'a' && c <= 'z' || c >= 'A' && c <= 'Z' || c >= '0' && c <= '9' || c == '_' || c == '.' || c == '-'
	}
	for i < len(code) {
		c := code[i]
		switch {
		case c == ' ' || c == '\t':
			i++
		case c == '\n':
			out = append(out, "\n")
			i++
		case c == '"':
			j := i + 1
			for j < len(code) && code[j] != '"' {
				if code[j] == '\\' && j+1 < len(code) && code[j+1] == '"' {
					j++
				}
				j++
			}
			if j >= len(code) {
				return nil, fmt.Errorf("unterminated string in %q", code)
			}
			out = append(out, code[i:j+1])
			i = j + 1
		case c == '`':
			j := strings.IndexByte(code[i+1:], '`')
			if j < 0 {
				return nil, fmt.Errorf("unterminated back-quoted string in %q", code)
			}
			out = append(out, code[i:i+j+2])
			i += j + 2
		case isWord(c) && !(c == '-' && (i+1 >= len(code) || code[i+1] == ' ')):
			j := i
			for j < len(code) && isWord(code[j]) {
				j++
			}
			out = append(out, code[i:j])
			i = j
		default:
			if i+1 < len(code) {
				two := code[i : i+2]
				switch two {
				case "==", "!=", "<=", ">=", "&&", "||", "~=":
					out = append(out, two)
					i += 2
					continue
				}
			}
			out = append(out, string(c))
			i++
		}
	}
	return out, nil
}

// tagEnd finds the %> closing the code tag whose code starts at i, skipping quoted strings.
func tagEnd(src string, i int) int {
	for i < len(src) {
		switch {
		case src[i] == '"':
			i++
			for i < len(src) && src[i] != '"' {
				if src[i] == '\\' && i+1 < len(src) && src[i+1] == '"' {
					i++
				}
				i++
			}
			i++
		case src[i] == '`':
			j := strings.IndexByte(src[i+1:], '`')
			if j < 0 {
				return -1
			}
			i += j + 2
		case strings.HasPrefix(src[i:], "%>"):
			return i
		default:
			i++
		}
	}
	return -1
}

func split(src string) ([]chunk, error) {
	var out []chunk
	pos := 0
	for pos < len(src) {
		o := strings.Index(src[pos:], "<%")
		if o < 0 {
			break
		}
		o += pos
		if o > pos {
			out = append(out, chunk{text: src[pos:o]})
		}
		switch {
		case strings.HasPrefix(src[o:], "<%#"):
			e := strings.Index(src[o:], "%>")
			if e < 0 {
				return nil, fmt.Errorf("unterminated comment")
			}
			out = append(out, chunk{tag: true, opener: "<%#", body: src[o+3 : o+e]})
			pos = o + e + 2
		default:
			opener := "<%"
			if strings.HasPrefix(src[o:], "<%=") {
				opener = "<%="
			}
			e := tagEnd(src, o+len(opener))
			if e < 0 {
				return nil, fmt.Errorf("unterminated tag")
			}
			toks, err := tokenize(src[o+len(opener) : e])
			if err != nil {
				return nil, err
			}
			out = append(out, chunk{tag: true, opener: opener, toks: toks})
			pos = e + 2
		}
	}
	if pos < len(src) {
		out = append(out, chunk{text: src[pos:]})
	}
	return out, nil
}

// ---- layout decisions (drawn by rapid or enumerated) ---------------------------------------------

// chooser supplies the layout decisions: n-way choices identified by a label.
type chooser interface{ pick(label string, n int) int }

type rapidChooser struct{ t *rapid.T }

func (r rapidChooser) pick(label string, n int) int { return rapid.IntRange(0, n-1).Draw(r.t, label) }

// fixed layout decisions, replayable
type listChooser struct {
	picks []int
	i     int
}

func (l *listChooser) pick(label string, n int) int {
	if l.i >= len(l.picks) {
		return 0
	}
	v := l.picks[l.i] % n
	l.i++
	return v
}

type recorder struct {
	inner chooser
	log   []int
}

func (r *recorder) pick(label string, n int) int {
	v := r.inner.pick(label, n)
	r.log = append(r.log, v)
	return v
}

var seps = []string{" ", "  ", "\t", "\n", "\r\n", " \n\t", " # a comment\n", "\n# note: 100% of x > y\n", " # this %> does not end the tag, nor does <% open one\n", " # first\n # second\n", "\n# one\n\n\t# two\r\n# three\n", " "}

const opChars = "=!<>&|~+*/"

// glueOps: operators may stand directly next to their operands (no white space). Off only for replaying cases
// recorded before this was generated.
var glueOps = true

func isOp(tok string) bool {
	switch tok {
	case "+", "*", "/", "<", ">", "<=", ">=", "==", "!=", "&&", "||", "~=", "=", "!":
		return true
	}
	return false
}

func isPunct(tok string) bool {
	switch tok {
	case "(", ")", "[", "]", "{", "}", ",", ":":
		return true
	}
	return false
}

// sep chooses the separator between tokens a and b inside one tag.
func sep(ch chooser, a, b string, mode int) string {
	if mode == 0 {
		return " "
	}
	n := len(seps)
	k := ch.pick("sep", n+2)
	if k >= n {
		// no separator at all, where no two tokens can fuse
		if isPunct(a) || isPunct(b) {
			if !(a == "{" && b == "}") {
				return ""
			}
		}
		if glueOps && (isOp(a) || isOp(b)) && a != "" && b != "" && !(strings.ContainsAny(a[len(a)-1:], opChars) && strings.ContainsAny(b[:1], opChars)) {
			return "" // 1+2, a==b, x=!y: an operator next to an operand (two operator characters in a row could spell another operator)
		}
		return " "
	}
	return seps[k]
}

// relayout prints the chunks again under the chosen mode.
//
//	mode 0: canonical (identity up to single spaces)
//	mode 1: random separators between tokens (spaces, tabs, newlines, CRLF, # line comments, none)
//	mode 2: + comment tags between chunks, + merging of adjacent silent tags, + cutting at statement boundaries, + ';'
func relayout(chs []chunk, ch chooser, mode int) string {
	var sb strings.Builder
	// a statement that begins with ( [ or { is never joined to the preceding tag: after an expression those tokens
	// continue it (call, index, helper block), so joining changes the grammar, not just the layout
	startsStmt := func(tok string) bool { return tok != "(" && tok != "[" && tok != "{" && tok != "\n" }
	i := 0
	for i < len(chs) {
		c := chs[i]
		if !c.tag {
			sb.WriteString(c.text)
			i++
			continue
		}
		if c.opener == "<%#" {
			sb.WriteString("<%#" + c.body + "%>")
			i++
			continue
		}
		if mode >= 2 && ch.pick("comment-tag-before", 6) == 0 {
			sb.WriteString(commentTags[ch.pick("which-comment", len(commentTags))])
		}
		// collect a run of tags that may be merged into this one
		toks := append([]string(nil), c.toks...)
		j := i + 1
		for mode >= 2 && j < len(chs) && chs[j].tag && chs[j].opener == "<%" && len(chs[j].toks) > 0 && len(toks) > 0 {
			// A must be a silent tag, or an output tag that ends by opening a block
			if c.opener == "<%=" && toks[len(toks)-1] != "{" {
				break
			}
			if !startsStmt(chs[j].toks[0]) {
				break
			}
			if ch.pick("merge", 3) != 0 {
				break
			}
			toks = append(append(toks, "\n"), chs[j].toks...)
			j++
		}
		sb.WriteString(c.opener)
		sb.WriteString(" ")
		prev := ""
		for k, t := range toks {
			if t == "\n" {
				// a statement boundary: newline, ';' (between two statements) or a cut into two tags
				next := ""
				if k+1 < len(toks) {
					next = toks[k+1]
				}
				choice := 0
				if mode >= 2 {
					choice = ch.pick("boundary", 4)
				}
				switch {
				case choice == 1 && prev != "{" && prev != "" && next != "}" && next != "" && next != "else" && prev != "}" && prev != ";":
					sb.WriteString(";")
					prev = ";"
				case choice == 2 && next != "" && startsStmt(next):
					sb.WriteString(" %><% ")
					prev = ""
				default:
					sb.WriteString("\n")
				}
				continue
			}
			if prev != "" && prev != ";" {
				sb.WriteString(sep(ch, prev, t, mode))
			} else if prev == ";" {
				sb.WriteString(" ")
			}
			sb.WriteString(t)
			prev = t
		}
		if mode >= 1 {
			sb.WriteString(seps[ch.pick("tail-sep", 6)]) // white space before %> (never a line comment: it would swallow the %>)
		} else {
			sb.WriteString(" ")
		}
		sb.WriteString("%>")
		i = j
	}
	return sb.String()
}

var commentTags = []string{"<%# note %>", "<%#%>", "<%# a \"quoted\" `comment` # with 100% %>", "<%#\n multi\n line\n%>", "<%# if (x) { %>"}

// ---- the check --------------------------------------------------------------------------------------

type Case struct {
	Canon    string                     `json:"canonical"` // informational
	Prog     json.RawMessage            `json:"prog"`
	Partials map[string]json.RawMessage `json:"partials,omitempty"`
	Compact  bool                       `json:"compact"`
	Mode     int                        `json:"mode"`
	Picks    []int                      `json:"picks"`
	Src      string                     `json:"src,omitempty"` // source-level case: the canonical text itself (no model program)
}

var lineNo = regexp.MustCompile(`line \d+:`)

func norm(err error) string {
	if err == nil {
		return ""
	}
	return lineNo.ReplaceAllString(err.Error(), "line N:")
}

func run(r *vk.Run, prog []model.Node, partials map[string][]model.Node, compact bool, mode int, ch chooser, class string) *vk.Fail {
	pr := model.Printer{Compact: compact}
	canon := pr.Nodes(prog)
	ptext := progs.PartialText(pr, partials)
	rec := &recorder{inner: ch}
	c := Case{Canon: canon, Prog: model.Encode(prog), Compact: compact, Mode: mode}
	var pn []string
	for n, body := range partials {
		if c.Partials == nil {
			c.Partials = map[string]json.RawMessage{}
		}
		c.Partials[n] = model.Encode(body)
		pn = append(pn, n)
	}
	sort.Strings(pn)
	defer r.Watch("layout", c)()
	chs, err := split(canon)
	if err != nil {
		r.Exclude("tokenizer: " + err.Error())
		return nil
	}
	variant := relayout(chs, rec, mode)
	// partials are re-laid-out too
	vtext := map[string]string{}
	for _, n := range pn {
		pc, err := split(ptext[n])
		if err != nil {
			r.Exclude("tokenizer: " + err.Error())
			return nil
		}
		vtext[n] = relayout(pc, rec, mode)
	}
	c.Picks = rec.log
	render := func(src string, parts map[string]string) vk.Res {
		return vk.Safe(func() (string, error) {
			return plush.Render(src, progs.Context(progs.Data(), progs.Helpers(nil), parts))
		})
	}
	base := render(canon, ptext)
	got := render(variant, vtext)
	nt := ""
	if variant != canon {
		nt = variant
	}
	if base.Err != nil {
		class += "/error"
	}
	r.Count(nt, class)
	if nt != "" {
		r.Sample(func() interface{} {
			return map[string]interface{}{"canonical": canon, "variant": variant, "output": base.Out, "error": norm(base.Err)}
		})
	}
	fail := func(f string, a ...interface{}) *vk.Fail {
		return &vk.Fail{Kind: "layout", Case: c, Msg: fmt.Sprintf("canonical %q\n   variant %q: ", canon, variant) + fmt.Sprintf(f, a...)}
	}
	if base.Panicked() || got.Panicked() {
		return fail("panic: canonical %s, variant %s", base, got)
	}
	if (base.Err == nil) != (got.Err == nil) {
		return fail("canonical gives %s, the re-laid-out variant gives %s", base, got)
	}
	if base.Err != nil {
		if norm(base.Err) != norm(got.Err) {
			return fail("errors differ beyond line numbers: %q vs %q", norm(base.Err), norm(got.Err))
		}
		return nil
	}
	if base.Out != got.Out {
		return fail("canonical renders %q, the variant renders %q", base.Out, got.Out)
	}
	// and the canonical form agrees with the reference interpreter
	want := model.RunWith(prog, progs.Data(), progs.Helpers(nil), partials)
	if want.Unspec == "" && want.Err == "" && !match.SameText(want.Out, base.Out) {
		return fail("canonical renders %q, the reference interpreter says %q", base.Out, want.Out)
	}
	return nil
}

// runSrc: a source-level case. The canonical text is given as written (spellings the printer never produces:
// numbers with a leading dot, operators without surrounding spaces); the oracle is the metamorphic one only.
func runSrc(r *vk.Run, canon string, mode int, ch chooser, class string) *vk.Fail {
	rec := &recorder{inner: ch}
	c := Case{Canon: canon, Src: canon, Mode: mode}
	defer r.Watch("layout", c)()
	chs, err := split(canon)
	if err != nil {
		return &vk.Fail{Kind: "decode", Msg: "tokenizer: " + err.Error()}
	}
	variant := relayout(chs, rec, mode)
	c.Picks = rec.log
	render := func(src string) vk.Res {
		return vk.Safe(func() (string, error) {
			return plush.Render(src, progs.Context(progs.Data(), progs.Helpers(nil), nil))
		})
	}
	base, got := render(canon), render(variant)
	nt := ""
	if variant != canon {
		nt = variant
	}
	r.Count(nt, class)
	if nt != "" {
		r.Sample(func() interface{} {
			return map[string]interface{}{"canonical": canon, "variant": variant, "output": base.Out, "error": norm(base.Err)}
		})
	}
	fail := func(f string, a ...interface{}) *vk.Fail {
		return &vk.Fail{Kind: "layout", Case: c, Msg: fmt.Sprintf("canonical %q\n   variant %q: ", canon, variant) + fmt.Sprintf(f, a...)}
	}
	if base.Panicked() || got.Panicked() {
		return fail("panic: canonical %s, variant %s", base, got)
	}
	if (base.Err == nil) != (got.Err == nil) {
		return fail("canonical gives %s, the re-laid-out variant gives %s", base, got)
	}
	if base.Err != nil {
		if norm(base.Err) != norm(got.Err) {
			return fail("errors differ beyond line numbers: %q vs %q", norm(base.Err), norm(got.Err))
		}
		return nil
	}
	if base.Out != got.Out {
		return fail("canonical renders %q, the variant renders %q", base.Out, got.Out)
	}
	return nil
}

// sourcePrograms: canonical texts with spellings the printer does not produce. Each renders without error.
var sourcePrograms = []string{
	`<%= .5 + 1.0 %>|<%= 1.5 + .5 %>|<%= 2.0 * .25 %>|<% let a = .5 %><%= a * 2.0 %>|<%= if (.5 < 1.5) { %>y<% } %>`,
	`<%= [.5, .25, 1] %>|<%= [.5] %>|<%= len([.5, .5]) %>|<%= {a: .5}["a"] %>|<% let f = fn(x) { return x + .5 } %><%= f(.5) %>`,
	`<%= 1 + 2 * 3 %>|<%= (1 + 2) * 3 %>|<%= 7 / 2 %>|<%= 1 < 2 && 2 <= 3 || !false %>|<%= "a" + "b" == "ab" %>|<%= "abc" ~= "b" %>`,
	`<% let x = 1 %><% x = x + 1 %><%= x != 2 %>|<%= x >= 2 %>|<%= !x %>|<%= x == 2 && !false %>|<%= 10 / 2 * 3 %>`,
}

// ---- fixed programs for the exhaustive cutting sweep ----------------------------------------------------

func fixedPrograms() [][]model.Node {
	T := func(s string) model.Node { return model.Text{S: s} }
	v := func(n string) model.Expr { return model.Var{Name: n} }
	lit := func(x interface{}) model.Expr { return model.Lit{V: x} }
	let := func(n string, e model.Expr) model.Node { return model.Code{S: model.LetS{Name: n, X: e}} }
	emit := func(e model.Expr) model.Node { return model.Emit{X: e} }
	sif := func(c model.Expr, ns ...model.Node) model.Node {
		return model.Code{S: model.IfS{If: &model.If{Cond: c, Then: ns}}}
	}
	sfor := func(val string, it model.Expr, ns ...model.Node) model.Node {
		return model.Code{S: model.ForS{For: &model.For{Val: val, Iter: it, Body: ns}}}
	}
	ret := func(e model.Expr) model.Node { return model.Code{S: model.ReturnS{X: e}} }
	return [][]model.Node{
		// a run of silent statements: every way of cutting it into tags
		{let("a", lit(1)), let("b", lit(2)), let("c", model.Bin{Op: "+", L: v("a"), R: v("b")}), model.Code{S: model.AssignS{Name: "a", X: lit(5)}}, let("d", lit("x")), emit(v("a")), emit(v("c")), emit(v("d"))},
		// statements directly after the closing brace of if / for / function in the same tag
		{let("a", lit(1)), sif(lit(true), let("a", lit(2))), let("b", lit(3)), emit(v("a")), emit(v("b"))},
		{let("a", lit(1)), sfor("x", v("two"), let("a", v("x"))), let("b", lit(3)), emit(v("a")), emit(v("b"))},
		{let("f", model.FnLit{Params: []string{"x"}, Body: []model.Node{ret(v("x"))}}), let("b", lit(3)), emit(model.Call{Fn: "f", Args: []model.Expr{v("b")}})},
		{let("f", model.FnLit{Body: []model.Node{sif(lit(false), ret(lit("no"))), let("q", lit("yes")), ret(v("q"))}}), let("b", model.Call{Fn: "f"}), emit(v("b"))},
		{T("a"), model.EmitFor{For: &model.For{Key: "k", Val: "x", Iter: v("arr"), Body: []model.Node{sif(model.Bin{Op: "==", L: v("k"), R: lit(1)}, model.Code{S: model.ContinueS{}}), let("y", model.Bin{Op: "*", L: v("x"), R: lit(2)}), emit(v("y")), T(",")}}}, T("b")},
		{model.EmitIf{If: &model.If{Cond: v("t"), Then: []model.Node{let("z", lit(1)), let("w", lit(2)), emit(model.Bin{Op: "+", L: v("z"), R: v("w")})}, HasElse: true, Else: []model.Node{T("no")}}}},
		{let("h", model.Hash{KVs: []model.KV{{K: "a", V: lit(1)}, {K: "b", V: lit("two")}}}), let("l", model.Arr{Els: []model.Expr{lit(1), lit(2), lit(3)}}), emit(model.Idx{X: v("h"), I: lit("b")}), emit(model.Idx{X: v("l"), I: lit(2)})},
		{let("s", lit("a # not a comment")), let("u", lit("%> not an end <%")), emit(v("s")), emit(v("u"))},
	}
}

const rule = "programs: (E) 9 fixed programs (runs of silent statements; statements directly after the closing brace of if / for / function; loops with continue; hash and array literals; strings containing # and tag delimiters) x both printers (tag per statement, compact single-tag blocks) x 600 enumerated layout decision vectors each; (E2) 4 source-level programs written with spellings the printer never produces (numbers with a leading dot such as .5 in every operand position, operators) x 2 modes x 2000 (quick 200) decision vectors; (R) random programs over all constructs from the shared generator. Re-layouts: between any two tokens of a tag one of {space, two spaces, tab, newline, CRLF, mixed white space, '# comment' + newline, a line comment containing % and >, two and three line comments in a row, nothing where no two tokens can fuse: next to ( ) [ ] { } , : and between an operator and its operand}; comment tags (empty, quoted, multi-line, code-like) between tags at top level and inside blocks; merging of adjacent silent tags (and of a silent tag into a preceding tag that opens a block) ; cutting a tag at statement boundaries; ';' between statements; the same applied to partial texts. Oracle: the variant renders exactly what the canonical layout renders (same output, or the same error modulo 'line N:'), and the canonical layout agrees with the reference interpreter. Excluded by construction: no space next to '-' / '.' inside identifiers and numbers, statements beginning with ( [ or { are never joined to a previous tag (after an expression they continue it: call, index, helper block), a # line comment never directly follows '<%' and never precedes '%>' on the same line, top-level return. Non-trivial = the variant text differs from the canonical text; distinct by variant text."

func setup(t *testing.T) *vk.Run {
	r := vk.Start(t, "C18", rule,
		"the tokenizer used for re-layout understands only what model.Printer prints; cases it cannot split are counted under excluded",
		"metamorphic: the canonical layout is the baseline; its agreement with the reference interpreter is checked where the reference is defined")
	r.Replayer("layout", func(raw json.RawMessage) *vk.Fail {
		var c Case
		if f := vk.Decode(raw, &c); f != nil {
			return f
		}
		if c.Src != "" {
			return runSrc(r, c.Src, c.Mode, &listChooser{picks: c.Picks}, "replay")
		}
		prog, err := model.Decode(c.Prog)
		if err != nil {
			return &vk.Fail{Kind: "decode", Msg: err.Error()}
		}
		parts := map[string][]model.Node{}
		for n, raw := range c.Partials {
			body, err := model.Decode(raw)
			if err != nil {
				return &vk.Fail{Kind: "decode", Msg: err.Error()}
			}
			parts[n] = body
		}
		return run(r, prog, parts, c.Compact, c.Mode, &listChooser{picks: c.Picks}, "replay")
	})
	return r
}

func TestReplay(t *testing.T) { setup(t).ReplayEnv() }

// deterministic pseudo-random decision vectors for the enumerated sweep (no RNG: a fixed LCG)
type lcg struct{ s uint64 }

func (l *lcg) pick(label string, n int) int {
	l.s = l.s*6364136223846793005 + 1442695040888963407
	return int((l.s >> 33) % uint64(n))
}

func TestProp(t *testing.T) {
	r := setup(t)
	defer r.Finish()
	r.ReplayCommitted()

	fx := fixedPrograms()
	per := r.Pick(150, 600)
	total := int64(len(fx)) * 2 * 2 * int64(per)
	r.Subspace(fmt.Sprintf("%d fixed programs x 2 printers x modes {separators, separators+comments+merge+cut} x %d enumerated decision vectors", len(fx), per), total, true)
	r.Parallel(total, 0, func(i int64) {
		k := int(i % int64(per))
		j := i / int64(per)
		mode := 1 + int(j%2)
		compact := (j/2)%2 == 1
		p := fx[j/4]
		r.Check(run(r, p, nil, compact, mode, &lcg{s: uint64(i)*7919 + uint64(k)}, fmt.Sprintf("fixed/mode%d", mode)))
	})

	{
		per := r.Pick(200, 2000)
		n := int64(len(sourcePrograms)) * 2 * int64(per)
		r.Subspace(fmt.Sprintf("%d source-level programs (leading-dot numbers, operators) x 2 modes x %d enumerated decision vectors", len(sourcePrograms), per), n, true)
		r.Parallel(n, 0, func(i int64) {
			mode := 1 + int(i%2)
			p := sourcePrograms[(i/2)%int64(len(sourcePrograms))]
			r.Check(runSrc(r, p, mode, &lcg{s: uint64(i)*104729 + 17}, fmt.Sprintf("source/mode%d", mode)))
		})
	}

	r.Rapid("programs", r.Pick(5000, 60000), func(t *rapid.T) *vk.Fail {
		g := progs.New(t, progs.Options{MaxDepth: 3})
		prog := g.Nodes(3, false)
		compact := rapid.Bool().Draw(t, "compact")
		mode := rapid.IntRange(1, 2).Draw(t, "mode")
		return run(r, prog, g.Partials, compact, mode, rapidChooser{t}, fmt.Sprintf("random/mode%d", mode))
	})
}
