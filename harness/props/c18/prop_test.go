// C18 — layout inside code tags is insignificant: whitespace, comments, tag splitting.
//
// Widened twice. Modes 1 and 2 of relayout are frozen (committed replay files record their decision sequences); everything
// added by the second pass lives in mode 3 ("wide"), in the source-level programs, in sgen and in the phases E3 / E4.
package c18

import (
	"bytes"
	"encoding/json"
	"fmt"
	"os"
	"os/exec"
	"regexp"
	"sort"
	"strings"
	"testing"
	"time"

	"verif/internal/match"
	"verif/internal/model"
	"verif/internal/progs"
	"verif/internal/vk"

	plush "github.com/gobuffalo/plush/v5"
	"pgregory.net/rapid"
)

func TestMain(m *testing.M) { vk.Main(m) }

// ---- chunks: a canonical template split into text and tags, tags into tokens -------------------

type chunk struct {
	text   string // literal text (tag == false)
	tag    bool
	opener string   // "<%" or "<%=" or "<%#"
	toks   []string // tokens of a code tag; "\n" marks a statement boundary of the compact printer
	body   string   // comment body
	open   bool     // the template ends inside this tag: there is no %> (plush renders such a template)
}

// tokenize splits the code of one tag (as printed by model.Printer) into tokens.
func tokenize(code string) ([]string, error) {
	var out []string
	i := 0
	isWord := func(c byte) bool {
		return c >= 'a' && c <= 'z' || c >= 'A' && c <= 'Z' || c >= '0' && c <= '9' || c == '_' || c == '.' || c == '-'
	}
	for i < len(code) {
		c := code[i]
		switch {
		case c == ' ' || c == '\t':
			i++
		case c == '\n':
			out = append(out, "\n")
			i++
		case c == '"':
			j := i + 1
			for j < len(code) && code[j] != '"' {
				if code[j] == '\\' && j+1 < len(code) && code[j+1] == '"' {
					j++
				}
				j++
			}
			if j >= len(code) {
				return nil, fmt.Errorf("unterminated string in %q", code)
			}
			out = append(out, code[i:j+1])
			i = j + 1
		case c == '`':
			j := strings.IndexByte(code[i+1:], '`')
			if j < 0 {
				return nil, fmt.Errorf("unterminated back-quoted string in %q", code)
			}
			out = append(out, code[i:i+j+2])
			i += j + 2
		case isWord(c) && !(c == '-' && (i+1 >= len(code) || code[i+1] == ' ')):
			j := i
			for j < len(code) && isWord(code[j]) {
				j++
			}
			out = append(out, code[i:j])
			i = j
		default:
			if i+1 < len(code) {
				two := code[i : i+2]
				switch two {
				case "==", "!=", "<=", ">=", "&&", "||", "~=":
					out = append(out, two)
					i += 2
					continue
				}
			}
			out = append(out, string(c))
			i++
		}
	}
	return out, nil
}

// tagEnd finds the %> closing the code tag whose code starts at i, skipping quoted strings.
func tagEnd(src string, i int) int {
	for i < len(src) {
		switch {
		case src[i] == '"':
			i++
			for i < len(src) && src[i] != '"' {
				if src[i] == '\\' && i+1 < len(src) && src[i+1] == '"' {
					i++
				}
				i++
			}
			i++
		case src[i] == '`':
			j := strings.IndexByte(src[i+1:], '`')
			if j < 0 {
				return -1
			}
			i += j + 2
		case strings.HasPrefix(src[i:], "%>"):
			return i
		default:
			i++
		}
	}
	return -1
}

func split(src string) ([]chunk, error) {
	var out []chunk
	pos := 0
	for pos < len(src) {
		o := strings.Index(src[pos:], "<%")
		if o < 0 {
			break
		}
		o += pos
		if o > pos {
			out = append(out, chunk{text: src[pos:o]})
		}
		switch {
		case strings.HasPrefix(src[o:], "<%#"):
			e := strings.Index(src[o:], "%>")
			if e < 0 {
				return nil, fmt.Errorf("unterminated comment")
			}
			out = append(out, chunk{tag: true, opener: "<%#", body: src[o+3 : o+e]})
			pos = o + e + 2
		default:
			opener := "<%"
			if strings.HasPrefix(src[o:], "<%=") {
				opener = "<%="
			}
			e := tagEnd(src, o+len(opener))
			open := false
			if e < 0 {
				if !openFinalTag {
					return nil, fmt.Errorf("unterminated tag")
				}
				e, open = len(src), true
			}
			toks, err := tokenize(src[o+len(opener) : e])
			if err != nil {
				return nil, err
			}
			out = append(out, chunk{tag: true, opener: opener, toks: toks, open: open})
			pos = e + 2
			if open {
				pos = e
			}
		}
	}
	if pos < len(src) {
		out = append(out, chunk{text: src[pos:]})
	}
	return out, nil
}

// ---- layout decisions (drawn by rapid or enumerated) ---------------------------------------------

// chooser supplies the layout decisions: n-way choices identified by a label.
type chooser interface{ pick(label string, n int) int }

type rapidChooser struct{ t *rapid.T }

func (r rapidChooser) pick(label string, n int) int { return rapid.IntRange(0, n-1).Draw(r.t, label) }

// fixed layout decisions, replayable
type listChooser struct {
	picks []int
	i     int
}

func (l *listChooser) pick(label string, n int) int {
	if l.i >= len(l.picks) {
		return 0
	}
	v := l.picks[l.i] % n
	l.i++
	return v
}

type recorder struct {
	inner chooser
	log   []int
}

func (r *recorder) pick(label string, n int) int {
	v := r.inner.pick(label, n)
	r.log = append(r.log, v)
	return v
}

var seps = []string{" ", "  ", "\t", "\n", "\r\n", " \n\t", " # a comment\n", "\n# note: 100% of x > y\n", " # this %> does not end the tag, nor does <% open one\n", " # first\n # second\n", "\n# one\n\n\t# two\r\n# three\n", " "}

// wideSeps (mode 3): seps plus an empty line comment, line comments glued to the token before them, line comments holding
// an unbalanced quote or back-quote, a comment ended by CRLF, blank lines.
var wideSeps = append(append([]string(nil), seps...),
	"#\n", " #\n", "# glued to the token before it\n", " # don't \"quote\n", " # a `tick\n", " #\r\n", "\n\n\n", "\t#c\n#\n", "\r\n\r\n", " # 'x' \"y\" `z` %> <%= 1 %>\n",
	" # caf\u00e9 \u6f22\u5b57 \xff\n", " # ends in a backslash \\\n", " # holds <%# a comment opener %>\n")

// heads (mode 3): what stands between the opener and the first token; tails: between the last token and %>.
var heads = []string{" ", "", "\t", "\n", "\r\n", " \n  ", " # head\n", "\n# head: let x = 1 %> <%\n", "  ", ""}
var tails = []string{" ", "", "\t", "\n", "\r\n", " # tail\n", "\n#\n", "\n # tail: %> <%= x\n\t", "# glued tail\n", ""}

// wideComments (mode 3): comment tags whose body begins with a character that means something in code.
var wideComments = append(append([]string(nil), commentTags...),
	"<%##%>", "<%#=1%>", "<%#\"%>", "<%#`%>", "<%# 100%%>", "<%#<% x %>", "<%# } %>", "<%# let a = 1\n a = 2 %>", "<%#\r\n%>", "<%#%%>", "<%# else { %>")

// emptyTags (mode 3): a tag holding no statement - the degenerate piece of a cut (the run of zero statements), also with
// nothing but white space or line comments in it. Switch off by emptying the slice.
var emptyTags = []string{"<% %>", "<%%>", "<%\n%>", "<% # only a comment\n%>", "<%\t\r\n%>", "<%\n#\n# two\n%>"}

const opChars = "=!<>&|~+*/"

// glueOps: operators may stand directly next to their operands (no white space). Off only for replaying cases
// recorded before this was generated.
var glueOps = true

func isOp(tok string) bool {
	switch tok {
	case "+", "*", "/", "<", ">", "<=", ">=", "==", "!=", "&&", "||", "~=", "=", "!":
		return true
	}
	return false
}

func isPunct(tok string) bool {
	switch tok {
	case "(", ")", "[", "]", "{", "}", ",", ":":
		return true
	}
	return false
}

// sep chooses the separator between tokens a and b inside one tag.
func sep(ch chooser, a, b string, mode int) string {
	if mode == 0 {
		return " "
	}
	list := seps
	if mode >= 3 {
		list = wideSeps
	}
	n := len(list)
	k := ch.pick("sep", n+2)
	if k >= n {
		// no separator at all, where no two tokens can fuse
		if isPunct(a) || isPunct(b) {
			if !(a == "{" && b == "}") || mode >= 3 {
				return ""
			}
		}
		if mode >= 3 && (isStr(a) != isStr(b)) {
			return "" // let a="x", return"x", "x"+y: a quoted literal cannot fuse with its neighbour
		}
		if glueOps && (isOp(a) || isOp(b)) && a != "" && b != "" && !(strings.ContainsAny(a[len(a)-1:], opChars) && strings.ContainsAny(b[:1], opChars)) {
			return "" // 1+2, a==b, x=!y: an operator next to an operand (two operator characters in a row could spell another operator)
		}
		return " "
	}
	return list[k]
}

func isStr(tok string) bool { return tok != "" && (tok[0] == '"' || tok[0] == '`') }

// relayout prints the chunks again under the chosen mode.
//
//	mode 0: canonical (identity up to single spaces)
//	mode 1: random separators between tokens (spaces, tabs, newlines, CRLF, # line comments, none)
//	mode 2: + comment tags between chunks, + merging of adjacent silent tags, + cutting at statement boundaries, + ';'
//	mode 3: mode 2 with the wide pools: separators after the opener and before the closer (none, white space, line
//	        comments), empty and glued line comments, quotes in comments, '{}' and quoted literals glued to their
//	        neighbours, a statement boundary spelled as a blank, a tab or any separator instead of a newline, several
//	        comment tags in a row, comment tags and empty tags before text, inside text and at the very end
//
// The decision sequence of modes 1 and 2 is frozen (committed replay files record it).
func relayout(chs []chunk, ch chooser, mode int) string {
	var sb strings.Builder
	wide := mode >= 3
	// a statement that begins with ( [ or { is never joined to the preceding tag: after an expression those tokens
	// continue it (call, index, helper block), so joining changes the grammar, not just the layout
	startsStmt := func(tok string) bool { return tok != "(" && tok != "[" && tok != "{" && tok != "\n" }
	// filler: comment tags / empty tags that may stand anywhere between two chunks (wide only)
	filler := func() {
		switch ch.pick("filler", 10) {
		case 0:
			sb.WriteString(wideComments[ch.pick("which-comment", len(wideComments))])
		case 1:
			for n := 2 + ch.pick("comments-in-a-row", 2); n > 0; n-- {
				sb.WriteString(wideComments[ch.pick("which-comment", len(wideComments))])
			}
		case 2:
			if len(emptyTags) > 0 {
				sb.WriteString(emptyTags[ch.pick("which-empty", len(emptyTags))])
			}
		}
	}
	appetite := 0
	if wide {
		appetite = ch.pick("merge-appetite", 3)
	}
	i := 0
	for i < len(chs) {
		c := chs[i]
		if wide {
			filler()
		}
		if !c.tag {
			t := c.text
			if wide && len(t) >= 2 && ch.pick("split-text", 4) == 0 {
				// a comment tag (or an empty tag) in the middle of literal text; never next to a character that could
				// form a tag opener or an escape with what follows
				p := 1 + ch.pick("split-at", len(t)-1)
				if !strings.ContainsAny(t[p-1:p+1], "\\<%>") {
					sb.WriteString(t[:p])
					if k := ch.pick("split-with", len(wideComments)+len(emptyTags)); k < len(wideComments) {
						sb.WriteString(wideComments[k])
					} else {
						sb.WriteString(emptyTags[k-len(wideComments)])
					}
					t = t[p:]
				}
			}
			sb.WriteString(t)
			i++
			continue
		}
		if c.opener == "<%#" {
			sb.WriteString("<%#" + c.body + "%>")
			i++
			continue
		}
		if mode == 2 && ch.pick("comment-tag-before", 6) == 0 {
			sb.WriteString(commentTags[ch.pick("which-comment", len(commentTags))])
		}
		// collect a run of tags that may be merged into this one
		toks := append([]string(nil), c.toks...)
		j := i + 1
		for mode >= 2 && j < len(chs) && chs[j].tag && chs[j].opener == "<%" && len(chs[j].toks) > 0 && len(toks) > 0 {
			// A must be a silent tag, or an output tag that ends by opening a block
			if c.opener == "<%=" && toks[len(toks)-1] != "{" {
				break
			}
			if !startsStmt(chs[j].toks[0]) {
				break
			}
			if wide {
				if ch.pick("merge", 3) > appetite { // appetite 2: every adjacent tag that can be joined is joined
					break
				}
			} else if ch.pick("merge", 3) != 0 {
				break
			}
			toks = append(append(toks, "\n"), chs[j].toks...)
			j++
		}
		sb.WriteString(c.opener)
		atOpener := true // nothing written since the opener: a '#' here would spell the comment opener <%#
		put := func(s string) {
			if s == "" {
				return
			}
			if atOpener && (s[0] == '#' || s[0] == '=') {
				sb.WriteString(" ")
			}
			sb.WriteString(s)
			atOpener = false
		}
		if wide {
			put(heads[ch.pick("head-sep", len(heads))])
		} else {
			put(" ")
		}
		prev := ""
		for k, t := range toks {
			if t == "\n" {
				// a statement boundary: newline, ';' (between two statements) or a cut into two tags
				next := ""
				if k+1 < len(toks) {
					next = toks[k+1]
				}
				choice := 0
				if wide {
					choice = ch.pick("boundary", 8)
				} else if mode >= 2 {
					choice = ch.pick("boundary", 4)
				}
				switch {
				case choice == 1 && prev != "{" && prev != "" && next != "}" && next != "" && next != "else" && prev != "}" && prev != ";":
					put(";")
					prev = ";"
				case choice == 2 && next != "" && startsStmt(next):
					if wide {
						put(tails[ch.pick("tail-sep", len(tails))])
						sb.WriteString("%><%")
						atOpener = true
						put(heads[ch.pick("head-sep", len(heads))])
					} else {
						put(" %><% ")
					}
					prev = ""
				case choice == 4 && prev != "":
					put(" ") // two statements on one line
				case choice == 5 && prev != "":
					put("\t")
				case choice == 6 && prev != "":
					s := wideSeps[ch.pick("boundary-sep", len(wideSeps))]
					put(s)
				case choice == 7 && next != "" && startsStmt(next) && prev != "":
					// a cut with comment tags (and empty tags) between the two pieces
					put(" %>")
					for n := 1 + ch.pick("comments-in-a-row", 2); n > 0; n-- {
						sb.WriteString(wideComments[ch.pick("which-comment", len(wideComments))])
					}
					if len(emptyTags) > 0 && ch.pick("empty-too", 3) == 0 {
						sb.WriteString(emptyTags[ch.pick("which-empty", len(emptyTags))])
					}
					sb.WriteString("<%")
					atOpener = true
					put(" ")
					prev = ""
				default:
					put("\n")
				}
				continue
			}
			if prev != "" && prev != ";" {
				put(sep(ch, prev, t, mode))
			} else if prev == ";" {
				put(" ")
			}
			put(t)
			prev = t
		}
		switch {
		case wide:
			put(tails[ch.pick("tail-sep", len(tails))])
		case mode >= 1:
			put(seps[ch.pick("tail-sep", 6)]) // white space before %> (never a line comment: it would swallow the %>)
		default:
			put(" ")
		}
		if j == len(chs) && chs[j-1].open {
			return sb.String() // the input ends inside the last tag
		}
		sb.WriteString("%>")
		i = j
	}
	if wide {
		filler()
	}
	return sb.String()
}

var commentTags = []string{"<%# note %>", "<%#%>", "<%# a \"quoted\" `comment` # with 100% %>", "<%#\n multi\n line\n%>", "<%# if (x) { %>"}

// ---- the check --------------------------------------------------------------------------------------

type Case struct {
	Canon    string                     `json:"canonical"` // informational
	Prog     json.RawMessage            `json:"prog"`
	Partials map[string]json.RawMessage `json:"partials,omitempty"`
	Compact  bool                       `json:"compact"`
	Mode     int                        `json:"mode"`
	Picks    []int                      `json:"picks"`
	Src      string                     `json:"src,omitempty"` // source-level case: the canonical text itself (no model program)
}

var lineNo = regexp.MustCompile(`line \d+:`)

func norm(err error) string {
	if err == nil {
		return ""
	}
	return lineNo.ReplaceAllString(err.Error(), "line N:")
}

func run(r *vk.Run, prog []model.Node, partials map[string][]model.Node, compact bool, mode int, ch chooser, class string) *vk.Fail {
	pr := model.Printer{Compact: compact}
	canon := pr.Nodes(prog)
	ptext := progs.PartialText(pr, partials)
	rec := &recorder{inner: ch}
	c := Case{Canon: canon, Prog: model.Encode(prog), Compact: compact, Mode: mode}
	var pn []string
	for n, body := range partials {
		if c.Partials == nil {
			c.Partials = map[string]json.RawMessage{}
		}
		c.Partials[n] = model.Encode(body)
		pn = append(pn, n)
	}
	sort.Strings(pn)
	defer r.Watch("layout", c)()
	chs, err := split(canon)
	if err != nil {
		r.Exclude("tokenizer: " + err.Error())
		return nil
	}
	variant := relayout(chs, rec, mode)
	// partials are re-laid-out too
	vtext := map[string]string{}
	for _, n := range pn {
		pc, err := split(ptext[n])
		if err != nil {
			r.Exclude("tokenizer: " + err.Error())
			return nil
		}
		vtext[n] = relayout(pc, rec, mode)
	}
	c.Picks = rec.log
	render := func(src string, parts map[string]string) vk.Res {
		return vk.Safe(func() (string, error) {
			return plush.Render(src, progs.Context(progs.Data(), progs.Helpers(nil), parts))
		})
	}
	base := render(canon, ptext)
	got := render(variant, vtext)
	nt := ""
	if variant != canon {
		nt = variant
	}
	if base.Err != nil {
		class += "/error"
	}
	r.Count(nt, class)
	if nt != "" {
		r.Sample(func() interface{} {
			return map[string]interface{}{"canonical": canon, "variant": variant, "output": base.Out, "error": norm(base.Err)}
		})
	}
	fail := func(f string, a ...interface{}) *vk.Fail {
		return &vk.Fail{Kind: "layout", Case: c, Msg: fmt.Sprintf("canonical %q\n   variant %q: ", canon, variant) + fmt.Sprintf(f, a...)}
	}
	if base.Panicked() || got.Panicked() {
		return fail("panic: canonical %s, variant %s", base, got)
	}
	if (base.Err == nil) != (got.Err == nil) {
		return fail("canonical gives %s, the re-laid-out variant gives %s", base, got)
	}
	if base.Err != nil {
		if norm(base.Err) != norm(got.Err) {
			return fail("errors differ beyond line numbers: %q vs %q", norm(base.Err), norm(got.Err))
		}
		return nil
	}
	if base.Out != got.Out {
		return fail("canonical renders %q, the variant renders %q", base.Out, got.Out)
	}
	// and the canonical form agrees with the reference interpreter
	want := model.RunWith(prog, progs.Data(), progs.Helpers(nil), partials)
	if want.Unspec == "" && want.Err == "" {
		r.Class(strings.SplitN(class, "/", 2)[0] + "/reference-defined")
	}
	if want.Lenient != "" && base.Err != nil && strings.Contains(base.Err.Error(), "unknown identifier") {
		return nil // forgiving an unknown identifier raised inside a tested expression is not demanded
	}
	if want.Unspec == "" && want.Err == "" && !match.SameText(want.Out, base.Out) {
		return fail("canonical renders %q, the reference interpreter says %q", base.Out, want.Out)
	}
	return nil
}

// runSrc: a source-level case. The canonical text is given as written (spellings the printer never produces:
// numbers with a leading dot, operators without surrounding spaces); the oracle is the metamorphic one only.
func runSrc(r *vk.Run, canon string, mode int, ch chooser, class string) *vk.Fail {
	rec := &recorder{inner: ch}
	c := Case{Canon: canon, Src: canon, Mode: mode}
	defer r.Watch("layout", c)()
	chs, err := split(canon)
	if err != nil {
		return &vk.Fail{Kind: "decode", Msg: "tokenizer: " + err.Error()}
	}
	variant := relayout(chs, rec, mode)
	c.Picks = rec.log
	render := func(src string) vk.Res {
		return vk.Safe(func() (string, error) {
			return plush.Render(src, srcContext())
		})
	}
	base, got := render(canon), render(variant)
	nt := ""
	if variant != canon {
		nt = variant
	}
	if base.Err != nil {
		class += "/canonical-error" // every source-level program is written to render: 0 of these on a correct tree
	}
	r.Count(nt, class)
	if nt != "" {
		r.Sample(func() interface{} {
			return map[string]interface{}{"canonical": canon, "variant": variant, "output": base.Out, "error": norm(base.Err)}
		})
	}
	fail := func(f string, a ...interface{}) *vk.Fail {
		return &vk.Fail{Kind: "layout", Case: c, Msg: fmt.Sprintf("canonical %q\n   variant %q: ", canon, variant) + fmt.Sprintf(f, a...)}
	}
	if base.Panicked() || got.Panicked() {
		return fail("panic: canonical %s, variant %s", base, got)
	}
	if (base.Err == nil) != (got.Err == nil) {
		return fail("canonical gives %s, the re-laid-out variant gives %s", base, got)
	}
	if base.Err != nil {
		if norm(base.Err) != norm(got.Err) {
			return fail("errors differ beyond line numbers: %q vs %q", norm(base.Err), norm(got.Err))
		}
		return nil
	}
	if base.Out != got.Out {
		return fail("canonical renders %q, the variant renders %q", base.Out, got.Out)
	}
	return nil
}

// sourcePrograms: canonical texts with spellings the printer does not produce. Each renders without error.
// Inside a tag a newline separates two statements (the tokenizer reports it as a boundary); no statement begins with
// ( [ or { and no '-' or '.' is written next to a letter or digit unless it belongs to the name / path / number.
var sourcePrograms = []string{
	`<%= .5 + 1.0 %>|<%= 1.5 + .5 %>|<%= 2.0 * .25 %>|<% let a = .5 %><%= a * 2.0 %>|<%= if (.5 < 1.5) { %>y<% } %>`,
	`<%= [.5, .25, 1] %>|<%= [.5] %>|<%= len([.5, .5]) %>|<%= {a: .5}["a"] %>|<% let f = fn(x) { return x + .5 } %><%= f(.5) %>`,
	`<%= 1 + 2 * 3 %>|<%= (1 + 2) * 3 %>|<%= 7 / 2 %>|<%= 1 < 2 && 2 <= 3 || !false %>|<%= "a" + "b" == "ab" %>|<%= "abc" ~= "b" %>`,
	`<% let x = 1 %><% x = x + 1 %><%= x != 2 %>|<%= x >= 2 %>|<%= !x %>|<%= x == 2 && !false %>|<%= 10 / 2 * 3 %>`,
	// --- added by the second widening pass (mode 3 runs over all of them, modes 1 and 2 as well) ---
	// if / else-if / else chains with further statements after each closing brace, all in one tag
	"<% let a = 0\nif (f) {\na = 1\n} else if (t) {\na = 2\n} else {\na = 3\n}\nlet b = a + 1\nif (t) {\nb = b * 2\n}\nb = b + 1\nif (f) {\nb = 0\n} else {\nb = b + 10\n}\nlet c = b %><%= a %>|<%= b %>|<%= c %>",
	// for over a call (the call takes the block), continue / break, statements after the loop's brace
	"<% let n = 0\nfor (x) in id(arr) {\nif (x == 20) {\ncontinue\n}\nn = n + x\n}\nlet after = 1 %><%= n %>|<%= after %>|<%= for (k, v) in id(words) {\nif (k == 1) {\nbreak\n}\nlet w = v + \"!\" %><%= w %>,<% }\nlet done = \"d\" %><%= done %>",
	// functions: early return, statements after an inner brace, a function after a function, functions as arguments
	"<% let f = fn(x) {\nif (x > 2) {\nreturn \"big\"\n}\nlet y = x * 2\nreturn y\n}\nlet g = fn(h, v) {\nreturn h(v)\n}\nlet r1 = f(1)\nlet r2 = g(f, 5) %><%= r1 %>|<%= r2 %>|<%= g(fn(z) {\nreturn z + 1\n}, 1) %>|<% let e = fn() {} %><%= e() %>",
	// member access after a call or an index: the '.' may be separated from what precedes it
	`<%= id(obj).Name %>|<%= id(obj).L[1] %>|<%= obj.L[0] + arr[1] %>|<%= [obj][0].Name %>|<%= id(id(obj)).Name %>|<%= obj.Name + obj.Name %>`,
	// strings holding comment signs, tag delimiters, quotes and line breaks
	"<%= `back\n# tick %> \"q\" <%= 1 ` %>|<%= \"esc \\\" # %> <% \" %>|<% let s = \"x\" %><%= s + \"y\" == \"xy\" %>|<%= \"it's\" ~= \"t\" %>|<%= `a` + \"b\" + `c` %>",
	// hash and array literals over several lines, nested, assigned through an index
	"<% let h = {a: 1, b: \"two\", c: [1, 2, 3]}\nlet l = [1, [2, 3], {k: \"v\"}]\nh[\"a\"] = 5\nl[0] = 9 %><%= h[\"a\"] %>|<%= h[\"c\"][2] %>|<%= l[0] %>|<%= l[1][1] %>|<%= l[2][\"k\"] %>|<%= len(l) %>|<%= {} %>|<%= [] %>",
	// a helper block, contentFor: statements after their closing braces
	"<%= blk() { %>x<%= i1 %>y<% }\nlet q = 2 %><%= q %><% contentFor(\"c\") { %>held<%= q %><% }\nlet r = 3 %><%= contentOf(\"c\") %><%= r %>",
	// numbers with a trailing dot, subtraction, division
	`<%= 1. + .5 %>|<%= 2.5 * 2.0 %>|<%= 1.0 / 4.0 %>|<%= 1 - 2 %>|<%= (1 - 2) * 3 %>|<%= i7 - i2 - i1 %>|<%= [1 - 1, 2][0] %>|<%= id(3) - id(1) %>`,
	// prefix operators, if as an expression with return, empty blocks
	"<%= !t %>|<%= !(t && f) %>|<%= !!t %>|<%= if (i1 == 1) { %>one<% } else if (i1 == 2) { %>two<% } else { %>other<% } %>|<%= if (f) {\nreturn \"x\"\n} else {\nreturn \"y\"\n} %>|<% if (t) {} else {} %><% for (x) in two {} %>ok",
	// loops in loops in one tag, break and continue at both levels, statements after every brace
	"<% let acc = \"\"\nfor (a) in two {\nfor (b) in two {\nif (a == b) {\ncontinue\n}\nacc = acc + \"x\"\n}\nif (a == 2) {\nbreak\n}\nlet z = a\n}\nlet fin = 1 %><%= acc %>|<%= fin %>|<%= for (a) in two { %><%= for (b) in two { %><%= a * b %>,<% }\nlet m = a %>;<%= m %><% }\nlet last = 7 %><%= last %>",
	// blocks nested eight deep in one tag, all closed at once; statements after the run of braces
	"<% let d = 0\nif (t) {\nif (t) {\nfor (x) in two {\nif (t) {\nif (!f) {\nfor (y) in two {\nif (t) {\nif (t) {\nd = d + 1\n}\n}\n}\n}\n}\n}\n}\n}\nlet after = d %><%= after %>|<%= if (t) { %><%= if (t) { %><%= for (x) in two { %><%= if (t) { %><%= if (t) { %><%= x %><% }\n}\n}\n}\n}\nlet z = 5 %><%= z %>",
	// text with line breaks around the tags: a comment tag or an empty tag set before it takes nothing away
	"line one\n<% let a = 1 %>\n<%= a %>\n\n<% if (t) { %>\n  yes\n<% } %>\n\tend\r\nlast\n",
	// comment tags already present, tags holding nothing, text around everything
	"head <%# first %><% let a = 1 %> mid <%# second %><%# third %><%= a %><% %> tail<%#%>",
}

// openFinalTag: templates whose last tag has no %> (the input ends inside it). plush renders them, so the tokens of that
// tag are tokens of a code tag like any other. Switch off to leave such templates out.
var openFinalTag = true

// openPrograms: source-level programs that end inside their last tag, written with one blank before the end of input.
var openPrograms = []string{
	`<%= id(i7) `,
	`<%= arr[1] `,
	`x<% let a = 1 %><%= a + id(i2) `,
	`<%= [i1, i2] `,
	`<%= len(arr) + arr[0] `,
	`<% let a = [1, 2] %><%= a[0] %>|<%= id(a)[1] `,
	`a<% if (t) { %>b<% } %>c<% let z = id(1) `,
	`<%= id("s") `,
	`<%= i7 `,
	`<%= i1 + 2 `,
}

// srcData: the data of the source-level programs: the shared data plus a struct with fields.
type srcObj struct {
	Name string
	L    []int
}

func srcContext() *plush.Context {
	ctx := progs.Context(progs.Data(), progs.Helpers(nil), nil)
	ctx.Set("obj", srcObj{Name: "bob", L: []int{4, 5}})
	return ctx
}

// ---- very long runs of one separator (the boundary "maximum") ------------------------------------------------

// LongCase: N copies of one separator between two tokens. Rendered in a child process, because what it looks for - a
// stack that grows with the length of the run - ends in a fatal error that no recover() catches.
type LongCase struct {
	Sep string `json:"sep"`
	N   int    `json:"n"`
}

// ManyCase: N statements, each in a tag of its own, against the same statements merged into ONE tag (separated by line
// ends / semicolons) and against the same tags inside one block: the number of tags is layout.
type ManyCase struct {
	Stmt int `json:"stmt"` // index into manyStmts
	N    int `json:"n"`
}

var manyStmts = []struct{ pre, stmt, post string }{
	{`<% let x = 0 %>`, `x = x + 1`, `<%= x %>`},
	{`<% let x = "" %>`, `let y = 1`, `<%= y %>`},
	{``, `id(1)`, `end`},
}

func runMany(r *vk.Run, c ManyCase, class string) *vk.Fail {
	defer r.Watch("many", c)()
	r.Count(fmt.Sprintf("%d x %d", c.Stmt, c.N), class)
	m := manyStmts[c.Stmt]
	split := m.pre + strings.Repeat("<% "+m.stmt+" %>", c.N) + m.post
	merged := m.pre + "<% " + strings.Repeat(m.stmt+"\n", c.N) + " %>" + m.post
	inBlock := m.pre + "<%= if (true) { %>" + strings.Repeat("<% "+m.stmt+" %>", c.N) + "<% } %>" + m.post
	emitSplit := m.pre + strings.Repeat("<%= 1 %>", c.N)
	emitBlock := m.pre + "<%= if (true) { %>" + strings.Repeat("<%= 1 %>", c.N) + "<% } %>"
	render := func(src string) vk.Res {
		return vk.Safe(func() (string, error) { return plush.Render(src, progs.Context(progs.Data(), progs.Helpers(nil), nil)) })
	}
	base := render(merged)
	for name, src := range map[string]string{"one tag per statement": split, "one tag per statement, inside a block": inBlock} {
		if got := render(src); got.Panicked() || norm(got.Err) != norm(base.Err) || got.Out != base.Out {
			return &vk.Fail{Kind: "many", Case: c, Msg: fmt.Sprintf("%d statements %q merged into one tag give %s; %s: %s", c.N, m.stmt, base, name, got)}
		}
	}
	if a, b := render(emitSplit), render(emitBlock); a.Panicked() || b.Panicked() || norm(a.Err) != norm(b.Err) || a.Out != b.Out {
		short := func(x vk.Res) string {
			s := x.String()
			if len(s) > 200 {
				s = s[:200] + "..."
			}
			return s
		}
		return &vk.Fail{Kind: "many", Case: c, Msg: fmt.Sprintf("%d output tags at top level give %s, the same tags inside one block give %s", c.N, short(a), short(b))}
	}
	return nil
}

// longRuns: switch for the phase E4.
var longRuns = true

const longCanon = "<% let a = i1 %><%= a + i2 %>"

func longVariant(c LongCase) string {
	return "<% let a = i1 " + strings.Repeat(c.Sep, c.N) + "%><%= a " + strings.Repeat(c.Sep, c.N/2) + "+ i2 %>"
}

const longEnv = "VERIF_C18_LONG"

// TestLongChild is the child side: it renders one long variant and prints the result.
func TestLongChild(t *testing.T) {
	spec := os.Getenv(longEnv)
	if spec == "" {
		t.Skip("child side of the long-run phase")
	}
	var c LongCase
	if err := json.Unmarshal([]byte(spec), &c); err != nil {
		fmt.Printf("LONG-BAD %v\n", err)
		os.Exit(0)
	}
	res := vk.Safe(func() (string, error) {
		return plush.Render(longVariant(c), progs.Context(progs.Data(), progs.Helpers(nil), nil))
	})
	b, _ := json.Marshal(map[string]string{"out": res.Out, "err": norm(res.Err), "panic": fmt.Sprint(res.Panic)})
	fmt.Printf("LONG %s\n", b)
	os.Exit(0)
}

func runLong(r *vk.Run, c LongCase, class string) *vk.Fail {
	r.Count(fmt.Sprintf("%q x %d", c.Sep, c.N), class)
	fail := func(f string, a ...interface{}) *vk.Fail {
		return &vk.Fail{Kind: "long", Case: c, Msg: fmt.Sprintf("canonical %q, variant: the same with %d x %q after 'i1' and %d x %q after 'a': ", longCanon, c.N, c.Sep, c.N/2, c.Sep) + fmt.Sprintf(f, a...)}
	}
	base := vk.Safe(func() (string, error) {
		return plush.Render(longCanon, progs.Context(progs.Data(), progs.Helpers(nil), nil))
	})
	spec, _ := json.Marshal(c)
	cmd := exec.Command(os.Args[0], "-test.run", "^TestLongChild$", "-test.timeout", "0")
	cmd.Env = append(os.Environ(), longEnv+"="+string(spec), "VERIF_REPLAY_CHILD=1")
	var stdout, stderr bytes.Buffer
	cmd.Stdout, cmd.Stderr = &stdout, &stderr
	if err := cmd.Start(); err != nil {
		return &vk.Fail{Kind: "decode", Msg: "cannot start the child: " + err.Error()}
	}
	done := make(chan error, 1)
	go func() { done <- cmd.Wait() }()
	select {
	case <-done:
	case <-time.After(10 * time.Minute): // safety net only; the verdict below never depends on the wall clock
		cmd.Process.Kill()
		<-done
		fmt.Printf("INCONCLUSIVE: the long-run child did not finish within 10 minutes (%q x %d)\n", c.Sep, c.N)
		r.Finish()
		os.Exit(2)
	}
	for _, l := range strings.Split(stdout.String(), "\n") {
		if strings.HasPrefix(l, "LONG ") {
			var got map[string]string
			if err := json.Unmarshal([]byte(l[5:]), &got); err != nil {
				return &vk.Fail{Kind: "decode", Msg: "child answered " + l}
			}
			if got["panic"] != "<nil>" {
				return fail("panic: %s", got["panic"])
			}
			if got["err"] != norm(base.Err) || got["out"] != base.Out {
				return fail("canonical gives %s, the variant gives output %q error %q", base, got["out"], got["err"])
			}
			return nil
		}
	}
	// the child died
	msg := "the child process died without an answer"
	for _, l := range strings.Split(stderr.String()+"\n"+stdout.String(), "\n") {
		if strings.HasPrefix(l, "fatal error: ") || strings.HasPrefix(l, "runtime: goroutine stack exceeds") {
			msg = l
			break
		}
	}
	return fail("canonical gives %s, rendering the variant killed the process: %s", base, msg)
}

// ---- fixed programs for the exhaustive cutting sweep ----------------------------------------------------

func fixedPrograms() [][]model.Node {
	T := func(s string) model.Node { return model.Text{S: s} }
	v := func(n string) model.Expr { return model.Var{Name: n} }
	lit := func(x interface{}) model.Expr { return model.Lit{V: x} }
	let := func(n string, e model.Expr) model.Node { return model.Code{S: model.LetS{Name: n, X: e}} }
	emit := func(e model.Expr) model.Node { return model.Emit{X: e} }
	sif := func(c model.Expr, ns ...model.Node) model.Node {
		return model.Code{S: model.IfS{If: &model.If{Cond: c, Then: ns}}}
	}
	sfor := func(val string, it model.Expr, ns ...model.Node) model.Node {
		return model.Code{S: model.ForS{For: &model.For{Val: val, Iter: it, Body: ns}}}
	}
	ret := func(e model.Expr) model.Node { return model.Code{S: model.ReturnS{X: e}} }
	asg := func(n string, e model.Expr) model.Node { return model.Code{S: model.AssignS{Name: n, X: e}} }
	return [][]model.Node{
		// a run of silent statements: every way of cutting it into tags
		{let("a", lit(1)), let("b", lit(2)), let("c", model.Bin{Op: "+", L: v("a"), R: v("b")}), model.Code{S: model.AssignS{Name: "a", X: lit(5)}}, let("d", lit("x")), emit(v("a")), emit(v("c")), emit(v("d"))},
		// statements directly after the closing brace of if / for / function in the same tag
		{let("a", lit(1)), sif(lit(true), let("a", lit(2))), let("b", lit(3)), emit(v("a")), emit(v("b"))},
		{let("a", lit(1)), sfor("x", v("two"), let("a", v("x"))), let("b", lit(3)), emit(v("a")), emit(v("b"))},
		{let("f", model.FnLit{Params: []string{"x"}, Body: []model.Node{ret(v("x"))}}), let("b", lit(3)), emit(model.Call{Fn: "f", Args: []model.Expr{v("b")}})},
		{let("f", model.FnLit{Body: []model.Node{sif(lit(false), ret(lit("no"))), let("q", lit("yes")), ret(v("q"))}}), let("b", model.Call{Fn: "f"}), emit(v("b"))},
		{T("a"), model.EmitFor{For: &model.For{Key: "k", Val: "x", Iter: v("arr"), Body: []model.Node{sif(model.Bin{Op: "==", L: v("k"), R: lit(1)}, model.Code{S: model.ContinueS{}}), let("y", model.Bin{Op: "*", L: v("x"), R: lit(2)}), emit(v("y")), T(",")}}}, T("b")},
		{model.EmitIf{If: &model.If{Cond: v("t"), Then: []model.Node{let("z", lit(1)), let("w", lit(2)), emit(model.Bin{Op: "+", L: v("z"), R: v("w")})}, HasElse: true, Else: []model.Node{T("no")}}}},
		{let("h", model.Hash{KVs: []model.KV{{K: "a", V: lit(1)}, {K: "b", V: lit("two")}}}), let("l", model.Arr{Els: []model.Expr{lit(1), lit(2), lit(3)}}), emit(model.Idx{X: v("h"), I: lit("b")}), emit(model.Idx{X: v("l"), I: lit(2)})},
		{let("s", lit("a # not a comment")), let("u", lit("%> not an end <%")), emit(v("s")), emit(v("u"))},
		// --- second widening pass: a statement directly after the closing brace of else, else-if, nested blocks, a loop
		// over a call, a helper block, a function in a function ---
		{let("a", lit(1)), model.Code{S: model.IfS{If: &model.If{Cond: v("f"), Then: []model.Node{asg("a", lit(2))}, HasElse: true, Else: []model.Node{asg("a", lit(3))}}}}, let("b", lit(4)), emit(v("a")), emit(v("b"))},
		{let("a", lit(1)), model.Code{S: model.IfS{If: &model.If{Cond: v("f"), Then: []model.Node{asg("a", lit(2))}, ElseIfs: []model.ElseIf{{Cond: v("f"), Then: []model.Node{asg("a", lit(5))}}, {Cond: v("t"), Then: []model.Node{asg("a", lit(6))}}}}}}, let("b", lit(4)), emit(v("a")), emit(v("b"))},
		{let("a", lit(1)), sif(v("t"), sif(v("t"), asg("a", lit(2))), asg("a", model.Bin{Op: "+", L: v("a"), R: lit(1)}), sif(v("f"), asg("a", lit(0)))), asg("a", model.Bin{Op: "*", L: v("a"), R: lit(10)}), emit(v("a"))},
		{let("a", lit("")), sfor("x", model.Call{Fn: "id", Args: []model.Expr{v("two")}}, let("q", v("x"))), let("b", lit(3)), emit(v("b")), model.EmitFor{For: &model.For{Val: "x", Iter: model.Call{Fn: "id", Args: []model.Expr{v("two")}}, Body: []model.Node{let("y", v("x")), emit(v("y"))}}}, let("c", lit(4)), emit(v("c"))},
		{model.EmitBlock{Helper: "blk", Body: []model.Node{T("x"), let("i", lit(1)), emit(v("i"))}}, let("q", lit(2)), emit(v("q"))},
		{let("f", model.FnLit{Params: []string{"x"}, Body: []model.Node{let("g", model.FnLit{Params: []string{"y"}, Body: []model.Node{sif(model.Bin{Op: ">", L: v("y"), R: lit(1)}, ret(lit("big"))), let("w", v("y")), ret(v("w"))}}), let("r", model.Call{Fn: "g", Args: []model.Expr{v("x")}}), ret(v("r"))}}), let("b", model.Call{Fn: "f", Args: []model.Expr{lit(1)}}), let("c", model.Call{Fn: "f", Args: []model.Expr{lit(2)}}), emit(v("b")), emit(v("c"))},
		{T("x\n"), let("a", lit(1)), T("\n"), emit(v("a")), T("\n\ny\n"), model.EmitIf{If: &model.If{Cond: v("t"), Then: []model.Node{T("\n in\n"), emit(v("a")), T("\n")}}}, T("\nz")},
		{T("a"), model.EmitFor{For: &model.For{Key: "k", Val: "x", Iter: v("arr"), Body: []model.Node{sfor("y", v("two"), sif(model.Bin{Op: "==", L: v("y"), R: lit(1)}, model.Code{S: model.ContinueS{}}), let("u", v("y"))), sif(model.Bin{Op: "==", L: v("k"), R: lit(1)}, model.Code{S: model.BreakS{}}), let("z", v("x")), emit(v("z")), T(",")}}}, let("e", lit(9)), emit(v("e"))},
	}
}

// ---- random programs of silent statements (the heart of "a statement after a closing brace in the same tag") -------

// sgen draws programs made of silent statements only: let, assignment, if / else-if / else, for (over a name, a call, a
// literal; with guarded break / continue), functions (in functions, with guarded early returns) defined and called, bare
// calls; now and then a piece of text that forces the enclosing block into the tag-per-statement layout. Everything a
// block binds is used inside that block only; the names bound at top level are emitted at the end.
type sgen struct {
	t   *rapid.T
	seq int
}

func (g *sgen) name(p string) string { g.seq++; return fmt.Sprintf("%s%d", p, g.seq) }

func (g *sgen) intExpr(vars []string, d int) model.Expr {
	t := g.t
	k := rapid.IntRange(0, 6).Draw(t, "ie")
	switch {
	case k <= 1 || (k <= 3 && len(vars) == 0):
		return model.Lit{V: rapid.IntRange(0, 9).Draw(t, "lit")}
	case k <= 3:
		return model.Var{Name: rapid.SampledFrom(vars).Draw(t, "var")}
	case k == 4 && d > 0:
		return model.Bin{Op: rapid.SampledFrom([]string{"+", "+", "-"}).Draw(t, "op"), L: g.intExpr(vars, d-1), R: g.intExpr(vars, d-1)}
	case k == 5 && d > 0:
		return model.Call{Fn: "id", Args: []model.Expr{g.intExpr(vars, d-1)}}
	case k == 6 && d > 0:
		return model.Bin{Op: "*", L: g.intExpr(vars, d-1), R: model.Lit{V: rapid.IntRange(0, 3).Draw(t, "lit")}}
	}
	return model.Var{Name: rapid.SampledFrom([]string{"i1", "i2", "i7"}).Draw(t, "data")}
}

func (g *sgen) cond(vars []string) model.Expr {
	t := g.t
	switch rapid.IntRange(0, 5).Draw(t, "ck") {
	case 0:
		return model.Var{Name: "t"}
	case 1:
		return model.Var{Name: "f"}
	case 2:
		return model.Not{X: model.Var{Name: "f"}}
	case 3:
		return model.Bin{Op: rapid.SampledFrom([]string{"&&", "||"}).Draw(t, "op"), L: g.cond(nil), R: model.Var{Name: rapid.SampledFrom([]string{"t", "f"}).Draw(t, "b")}}
	}
	return model.Bin{Op: rapid.SampledFrom([]string{"<", "<=", ">", ">=", "==", "!="}).Draw(t, "op"), L: g.intExpr(vars, 1), R: model.Lit{V: rapid.IntRange(0, 9).Draw(t, "lit")}}
}

// block draws 1..4 statements. vars: the integer names visible (and assignable) here; new ones are returned.
func (g *sgen) block(d int, vars []string, inLoop, inFn bool, loops int) ([]model.Node, []string) {
	t := g.t
	vars = append([]string(nil), vars...)
	var out []model.Node
	n := rapid.IntRange(1, 4).Draw(t, "stmts")
	for i := 0; i < n; i++ {
		k := rapid.IntRange(0, 12).Draw(t, "stmt")
		if d <= 0 && k >= 3 && k <= 8 {
			k = k % 3
		}
		switch k {
		case 0, 9:
			nm := g.name("v")
			out = append(out, model.Code{S: model.LetS{Name: nm, X: g.intExpr(vars, 2)}})
			vars = append(vars, nm)
		case 1, 2:
			if len(vars) == 0 {
				nm := g.name("v")
				out = append(out, model.Code{S: model.LetS{Name: nm, X: g.intExpr(vars, 1)}})
				vars = append(vars, nm)
				continue
			}
			out = append(out, model.Code{S: model.AssignS{Name: rapid.SampledFrom(vars).Draw(t, "target"), X: g.intExpr(vars, 2)}})
		case 3, 4, 5: // if chain
			f := &model.If{Cond: g.cond(vars)}
			f.Then, _ = g.block(d-1, vars, inLoop, inFn, loops)
			for j := rapid.IntRange(0, 2).Draw(t, "elseifs"); j > 0; j-- {
				b, _ := g.block(d-1, vars, inLoop, inFn, loops)
				f.ElseIfs = append(f.ElseIfs, model.ElseIf{Cond: g.cond(vars), Then: b})
			}
			if rapid.Bool().Draw(t, "else") {
				f.HasElse = true
				f.Else, _ = g.block(d-1, vars, inLoop, inFn, loops)
			}
			out = append(out, model.Code{S: model.IfS{If: f}})
		case 6, 7: // for
			if loops >= 2 {
				out = append(out, model.Code{S: model.ExprS{X: model.Call{Fn: "id", Args: []model.Expr{g.intExpr(vars, 1)}}}})
				continue
			}
			fo := &model.For{Val: g.name("e")}
			switch rapid.IntRange(0, 3).Draw(t, "iter") {
			case 0:
				fo.Iter = model.Var{Name: "two"}
			case 1:
				fo.Iter = model.Call{Fn: "id", Args: []model.Expr{model.Var{Name: "two"}}}
			case 2:
				fo.Iter = model.Arr{Els: []model.Expr{g.intExpr(vars, 1), g.intExpr(vars, 1)}}
			default:
				fo.Iter = model.Var{Name: "arr"}
			}
			inner := append(append([]string(nil), vars...), fo.Val)
			if rapid.Bool().Draw(t, "key") {
				fo.Key = g.name("k")
				inner = append(inner, fo.Key)
			}
			fo.Body, _ = g.block(d-1, inner, true, inFn, loops+1)
			out = append(out, model.Code{S: model.ForS{For: fo}})
		case 8: // a function defined, then called
			fn := g.name("fn")
			var params []string
			var args []model.Expr
			for j := rapid.IntRange(0, 2).Draw(t, "params"); j > 0; j-- {
				params = append(params, g.name("p"))
				args = append(args, g.intExpr(vars, 1))
			}
			body, bv := g.block(d-1, params, false, true, 0)
			body = append(body, model.Code{S: model.ReturnS{X: g.intExpr(bv, 1)}})
			res := g.name("r")
			out = append(out, model.Code{S: model.LetS{Name: fn, X: model.FnLit{Params: params, Body: body}}},
				model.Code{S: model.LetS{Name: res, X: model.Call{Fn: fn, Args: args}}})
			vars = append(vars, res)
		case 10: // a guarded jump
			var j model.Stmt
			switch {
			case inLoop && rapid.Bool().Draw(t, "brk"):
				j = model.BreakS{}
			case inLoop:
				j = model.ContinueS{}
			case inFn:
				j = model.ReturnS{X: g.intExpr(vars, 1)}
			default:
				j = model.ExprS{X: model.Call{Fn: "id", Args: []model.Expr{g.intExpr(vars, 1)}}}
			}
			out = append(out, model.Code{S: model.IfS{If: &model.If{Cond: g.cond(vars), Then: []model.Node{model.Code{S: j}}}}})
		case 11:
			out = append(out, model.Code{S: model.ExprS{X: model.Call{Fn: "id", Args: []model.Expr{g.intExpr(vars, 1)}}}})
		default:
			if rapid.IntRange(0, 2).Draw(t, "text") == 0 {
				out = append(out, model.Text{S: g.name(" s")})
			} else {
				out = append(out, model.Code{S: model.ExprS{X: g.intExpr(vars, 1)}})
			}
		}
	}
	return out, vars
}

func (g *sgen) program() []model.Node {
	body, vars := g.block(3, nil, false, false, 0)
	for _, v := range vars {
		body = append(body, model.Text{S: "|"}, model.Emit{X: model.Var{Name: v}})
	}
	return body
}

const rule = "programs: (E) 17 fixed programs (runs of silent statements; statements directly after the closing brace of if / else / else-if / for / for over a call / function / function in a function / helper block / nested blocks; loops with break and continue; hash and array literals; strings containing # and tag delimiters; text with line breaks) x both printers (tag per statement, compact single-tag blocks) x 3 modes x 600 (quick 100) enumerated layout decision vectors each; (E2) 17 source-level programs written with spellings the printer never produces (numbers with a leading or trailing dot in every operand position, operators, member access after a call or an index, back-quoted and escaped strings holding # %> and line breaks, literals over several lines, index assignment, empty blocks, if with return, chains and loops nested up to eight deep inside one tag, contentFor, comment tags and empty tags already present) x 3 modes x 2000 (quick 150) decision vectors; (E3) 10 source-level programs that END INSIDE their last tag (no %>; plush renders them) x 3 modes x 600 (quick 60) vectors; (E4) 6 separators repeated 1.5 to 3 million times in a row between two tokens, rendered in a child process; (E5) 3 statements x up to 30000 copies (around 10000): one tag per statement / all merged into one tag / one tag per statement inside a block, and as many output tags at top level / inside a block - the number of tags is layout; (R) random programs over all constructs from the shared generator; (R2) random programs of silent statements only (let, assignment, if chains, for over names / calls / literals with guarded break and continue, functions in functions with guarded early returns, bare calls, now and then a text) whose top-level names are emitted at the end. Re-layouts: mode 1: between any two tokens of a tag one of {space, two spaces, tab, newline, CRLF, mixed white space, '# comment' + newline, a line comment containing % and >, two and three line comments in a row, nothing where no two tokens can fuse: next to ( ) [ ] { } , : and between an operator and its operand}; mode 2: + comment tags (empty, quoted, multi-line, code-like) between tags at top level and inside blocks; merging of adjacent silent tags (and of a silent tag into a preceding tag that opens a block); cutting a tag at statement boundaries; ';' between statements; mode 3 (wide): + a separator (none, white space, line comments) between the opener and the first token and between the last token and %>; empty line comments, line comments glued to the token before them, line comments holding unbalanced quotes, back-quotes, non-ASCII bytes, a trailing backslash, tag openers; '{}' and quoted literals glued to their neighbours; a statement boundary spelled as one blank, a tab or any separator instead of a newline (two statements on one line); cuts with comment tags and empty tags between the pieces; all adjacent tags merged; 1 to 3 comment tags in a row (bodies beginning with # = \" ` % <% }, CRLF) and tags holding no statement (<% %>, <%%>, only white space, only line comments) before any tag, before text, inside text and at the very end; the same applied to partial texts. Oracle: the variant renders exactly what the canonical layout renders (same output, or the same error modulo 'line N:'), and the canonical layout agrees with the reference interpreter where that is defined (class */reference-defined). Excluded by construction: no space next to '-' / '.' inside identifiers and numbers, statements beginning with ( [ or { are never joined to a previous tag or line (after an expression they continue it: call, index, helper block), a # line comment never directly follows '<%' and never precedes '%>' on the same line, NUL inside a comment (the lexer's end marker, excluded by C02 as well), top-level return. Non-trivial = the variant text differs from the canonical text; distinct by variant text."

func setup(t *testing.T) *vk.Run {
	r := vk.Start(t, "C18", rule,
		"the tokenizer used for re-layout understands only what model.Printer prints; cases it cannot split are counted under excluded",
		"metamorphic: the canonical layout is the baseline; its agreement with the reference interpreter is checked where the reference is defined")
	r.Replayer("many", func(raw json.RawMessage) *vk.Fail {
		var c ManyCase
		if f := vk.Decode(raw, &c); f != nil {
			return f
		}
		if c.Stmt < 0 || c.Stmt >= len(manyStmts) || c.N < 0 || c.N > 200000 {
			return &vk.Fail{Kind: "decode", Msg: "bad case"}
		}
		return runMany(r, c, "replay")
	})
	r.Replayer("long", func(raw json.RawMessage) *vk.Fail {
		var c LongCase
		if f := vk.Decode(raw, &c); f != nil {
			return f
		}
		return runLong(r, c, "replay")
	})
	r.Replayer("layout", func(raw json.RawMessage) *vk.Fail {
		var c Case
		if f := vk.Decode(raw, &c); f != nil {
			return f
		}
		if c.Src != "" {
			return runSrc(r, c.Src, c.Mode, &listChooser{picks: c.Picks}, "replay")
		}
		prog, err := model.Decode(c.Prog)
		if err != nil {
			return &vk.Fail{Kind: "decode", Msg: err.Error()}
		}
		parts := map[string][]model.Node{}
		for n, raw := range c.Partials {
			body, err := model.Decode(raw)
			if err != nil {
				return &vk.Fail{Kind: "decode", Msg: err.Error()}
			}
			parts[n] = body
		}
		return run(r, prog, parts, c.Compact, c.Mode, &listChooser{picks: c.Picks}, "replay")
	})
	return r
}

func TestReplay(t *testing.T) { setup(t).ReplayEnv() }

// deterministic pseudo-random decision vectors for the enumerated sweep (no RNG: a fixed LCG)
type lcg struct{ s uint64 }

func (l *lcg) pick(label string, n int) int {
	l.s = l.s*6364136223846793005 + 1442695040888963407
	return int((l.s >> 33) % uint64(n))
}

func TestProp(t *testing.T) {
	r := setup(t)
	defer r.Finish()
	r.ReplayCommitted()

	fx := fixedPrograms()
	per := r.Pick(100, 600)
	total := int64(len(fx)) * 2 * 3 * int64(per)
	r.Subspace(fmt.Sprintf("%d fixed programs x 2 printers x modes {separators, separators+comments+merge+cut, wide} x %d enumerated decision vectors", len(fx), per), total, true)
	r.Parallel(total, 0, func(i int64) {
		k := int(i % int64(per))
		j := i / int64(per)
		mode := 1 + int(j%3)
		compact := (j/3)%2 == 1
		p := fx[j/6]
		r.Check(run(r, p, nil, compact, mode, &lcg{s: uint64(i)*7919 + uint64(k)}, fmt.Sprintf("fixed/mode%d", mode)))
	})

	{
		per := r.Pick(150, 2000)
		n := int64(len(sourcePrograms)) * 3 * int64(per)
		r.Subspace(fmt.Sprintf("%d source-level programs (leading-dot numbers, operators, chains after calls, strings, blocks in one tag) x 3 modes x %d enumerated decision vectors", len(sourcePrograms), per), n, true)
		r.Parallel(n, 0, func(i int64) {
			mode := 1 + int(i%3)
			p := sourcePrograms[(i/3)%int64(len(sourcePrograms))]
			r.Check(runSrc(r, p, mode, &lcg{s: uint64(i)*104729 + 17}, fmt.Sprintf("source/mode%d", mode)))
		})
	}

	if openFinalTag {
		// class open-final-tag: every violation of this phase is the defect "the last byte of the input is dropped
		// when it directly follows a name or a number" (lexer.skipWhitespace), see the report
		per := r.Pick(60, 600)
		n := int64(len(openPrograms)) * 3 * int64(per)
		r.Subspace(fmt.Sprintf("%d source-level programs that end inside their last tag x 3 modes x %d enumerated decision vectors", len(openPrograms), per), n, true)
		r.Parallel(n, 0, func(i int64) {
			mode := 1 + int(i%3)
			p := openPrograms[(i/3)%int64(len(openPrograms))]
			r.Check(runSrc(r, p, mode, &lcg{s: uint64(i)*15485863 + 5}, fmt.Sprintf("open-final-tag/mode%d", mode)))
		})
	}

	if r.Shard == 0 {
		var manys []ManyCase
		for si := range manyStmts {
			for _, n := range []int{1, 2, 100, 1000, 9999, 10000, 10001, 12000, 30000} {
				manys = append(manys, ManyCase{Stmt: si, N: n})
			}
		}
		r.Subspace("3 statements x {1, 2, 100, 1000, 9999, 10000, 10001, 12000, 30000} copies: one tag per statement / all merged into one tag / one tag per statement inside a block; as many output tags at top level / inside a block", int64(len(manys)), true)
		for _, c := range manys {
			r.Check(runMany(r, c, "many-tags"))
		}
	}
	if longRuns && r.Shard == 0 {
		// class long-run-of-line-comments: a violation of this phase with Sep "#\n" is the defect "the lexer recurses once
		// per line comment" (lexer.nextInsideToken), see the report
		longs := []LongCase{{" ", 3000000}, {"\n", 3000000}, {"\r\n", 1500000}, {"\t", 3000000}, {"#\n", 3000000}, {" # a comment\r\n", 3000000}}
		r.Subspace("6 separators, each repeated 1.5 to 3 million times in a row between two tokens (child process)", int64(len(longs)), true)
		for _, c := range longs {
			r.Check(runLong(r, c, "long-run"))
		}
	}
	r.Rapid("programs", r.Pick(3000, 40000), func(t *rapid.T) *vk.Fail {
		g := progs.New(t, progs.Options{MaxDepth: 3})
		prog := g.Nodes(3, false)
		compact := rapid.Bool().Draw(t, "compact")
		mode := rapid.IntRange(1, 3).Draw(t, "mode")
		return run(r, prog, g.Partials, compact, mode, rapidChooser{t}, fmt.Sprintf("random/mode%d", mode))
	})

	r.Rapid("silent", r.Pick(3000, 20000), func(t *rapid.T) *vk.Fail {
		g := &sgen{t: t}
		prog := g.program()
		compact := rapid.IntRange(0, 3).Draw(t, "compact") != 0
		mode := rapid.SampledFrom([]int{1, 2, 2, 3, 3, 3}).Draw(t, "mode")
		return run(r, prog, nil, compact, mode, rapidChooser{t}, fmt.Sprintf("silent/mode%d", mode))
	})
}
