// C02 — output = literal text verbatim + values of <%= %> tags, in source order.
package c02

import (
	"encoding/json"
	"fmt"
	"html/template"
	"strings"
	"sync"
	"testing"

	"verif/internal/gen"
	"verif/internal/match"
	"verif/internal/model"
	"verif/internal/vk"

	plush "github.com/gobuffalo/plush/v5"
	"pgregory.net/rapid"
)

func TestMain(m *testing.M) { vk.Main(m) }

// scrub renders an unrelated template whose output is longer than n bytes. Every
// check calls it between obtaining an output and comparing it: an output that
// shares memory with engine state reused by a later render (a pooled or
// per-template buffer) is then compared after that state has been overwritten.
func scrub(n int) {
	size := 64
	for size < n+16 {
		size *= 4
	}
	var t *plush.Template
	if v, ok := scrubbers.Load(size); ok {
		t = v.(*plush.Template)
	} else {
		t, _ = plush.NewTemplate(strings.Repeat("#", size) + "<%= 0 %>")
		scrubbers.Store(size, t)
	}
	vk.Safe(func() (string, error) { return t.Exec(plush.NewContext()) })
}

var scrubbers sync.Map // size -> parsed template

// ---- (1) reference text scanner ----------------------------------------------------------

const tag = "<%= 1 %>"

// tagSpec is one fixed, well-formed tag and what it contributes to the output.
type tagSpec struct{ Src, Val string }

// the tag kinds a literal text can stand next to: output tag, code tag, comment
// tag, output tag spelled without blanks holding a string literal.
var tagVariants = []tagSpec{{tag, "1"}, {"<% 2 %>", ""}, {"<%# 3 %>", ""}, {"<%=\"s\"%>", "s"}}

// refScan reads a template made of literal text and occurrences of the given
// fixed tags exactly as the statement describes: \<% is a literal <%, \\<% is
// one backslash followed by a live tag, every other byte is copied. status:
// "ok", "live" (a live opener that is not one of the fixed tags: not literal
// text) or "ambiguous" (three or more backslashes before <%: the statement does
// not say).
func refScan(src string, tags ...tagSpec) (out string, status string) {
	if len(tags) == 0 {
		tags = tagVariants[:1]
	}
	var sb strings.Builder
	i := 0
scan:
	for i < len(src) {
		switch {
		case strings.HasPrefix(src[i:], "<%"):
			for _, tg := range tags {
				if strings.HasPrefix(src[i:], tg.Src) {
					sb.WriteString(tg.Val)
					i += len(tg.Src)
					continue scan
				}
			}
			return "", "live"
		case src[i] == '\\':
			n := 0
			for i+n < len(src) && src[i+n] == '\\' {
				n++
			}
			if strings.HasPrefix(src[i+n:], "<%") {
				switch n {
				case 1:
					sb.WriteString("<%")
					i += 3
				case 2:
					sb.WriteString("\\")
					i += 2 // the opener is live: handled by the next iteration
				default:
					return "", "ambiguous"
				}
			} else {
				sb.WriteString(src[i : i+n])
				i += n
			}
		default:
			sb.WriteByte(src[i])
			i++
		}
	}
	return sb.String(), "ok"
}

type TextCase struct {
	S     vk.Text `json:"s"`
	S2    vk.Text `json:"s2,omitempty"`
	Frame int     `json:"frame"`
	Tag   int     `json:"tag,omitempty"` // index into tagVariants
}

var frameNames = []string{"s", "s+TAG", "TAG+s", "s+TAG+s2", "IF{s+TAG}", "FOR2{s+TAG}",
	"IF{TAG+s}", "ELSEIF{s+TAG+s}", "FN{s+TAG+s}", "BLK{TAG+s}", "SILENT-IF{s+TAG+s}", "FOR2{TAG+s}", "ELSE{TAG+s}"}

// textWrap is a block around the text under test: the text then stands directly
// after the tag that opens the block and directly before the tag that closes it.
type textWrap struct {
	pre, closer, post string
	reps              int // how often the body is emitted (0: a silent block)
}

var textWraps = map[string]textWrap{
	"if":     {"<%= if (true) { %>", "<% } %>", "", 1},
	"for":    {"<%= for (i) in two { %>", "<% } %>", "", 2},
	"elseif": {"<%= if (false) { %>n<% } else if (true) { %>", "<% } else { %>", "m<% } %>", 1},
	"else":   {"<%= if (false) { %>n<% } else { %>", "<% } %>", "", 1},
	"fn":     {"<% let f = fn() { %>", "<% } %>", "<%= f() %>", 1},
	"blk":    {"<%= blk() { %>", "<% } %>", "", 1},
	"silent": {"<% if (true) { %>", "<% } %>", "", 0},
}

func (c TextCase) source() (src string, wrap string) {
	s, s2 := string(c.S), string(c.S2)
	tg := tagVariants[c.Tag].Src
	switch c.Frame {
	case 0:
		return s, ""
	case 1:
		return s + tg, ""
	case 2:
		return tg + s, ""
	case 3:
		return s + tg + s2, ""
	case 4:
		return s + tg, "if"
	case 5:
		return s + tg, "for"
	case 6:
		return tg + s, "if"
	case 7:
		return s + tg + s, "elseif"
	case 8:
		return s + tg + s, "fn"
	case 9:
		return tg + s, "blk"
	case 10:
		return s + tg + s, "silent"
	case 11:
		return tg + s, "for"
	default:
		return tg + s, "else"
	}
}

func textData() map[string]interface{} {
	return map[string]interface{}{"two": []int{1, 2},
		"blk": func(h plush.HelperContext) (template.HTML, error) { s, err := h.Block(); return template.HTML(s), err }}
}

func checkText(r *vk.Run, c TextCase) *vk.Fail {
	defer r.Watch("text", c)()
	inner, wrap := c.source()
	src := inner
	var want, status string
	if wrap == "" {
		want, status = refScan(inner, tagVariants[c.Tag], tagVariants[0])
	} else {
		// the text also stands directly before the tag that closes the block:
		// that tag is one more fixed tag contributing nothing
		w := textWraps[wrap]
		if nb := len(inner) - len(strings.TrimRight(inner, "\\")); nb == 1 {
			// the backslash escapes the closing tag: the block is not closed, not a template of this frame
			r.Exclude("not-literal-text:escapes-the-closing-tag")
			return nil
		}
		want, status = refScan(inner+w.closer, tagVariants[c.Tag], tagSpec{w.closer, ""})
		want = strings.Repeat(want, w.reps)
		src = w.pre + inner + w.closer + w.post
	}
	if status != "ok" {
		r.Exclude("not-literal-text:" + status)
		return nil
	}
	res := vk.Safe(func() (string, error) { return plush.Render(src, plush.NewContextWith(textData())) })
	scrub(len(res.Out))
	nt := ""
	if strings.ContainsAny(inner, "\\<%") {
		nt = fmt.Sprintf("%d|%s", c.Frame, inner)
	}
	r.Count(nt, "text/"+frameNames[c.Frame])
	if nt != "" {
		r.Sample(func() interface{} { return map[string]interface{}{"template": vk.Text(src), "expected": vk.Text(want)} })
	}
	if res.Panicked() || res.Err != nil || res.Out != want {
		return &vk.Fail{Kind: "text", Case: c, Msg: fmt.Sprintf("template %q gave %s, the statement says %q", src, res, want)}
	}
	return nil
}

// RawCase: a longer text of arbitrary bytes with the fixed tags strewn in, at
// top level or as the body of a block.
type RawCase struct {
	S    vk.Text `json:"s"`
	Wrap string  `json:"wrap,omitempty"` // "" or a key of textWraps
}

func checkRaw(r *vk.Run, c RawCase) *vk.Fail {
	defer r.Watch("raw", c)()
	inner := strings.ReplaceAll(string(c.S), "\x00", "")
	src := inner
	var want, status string
	if c.Wrap == "" {
		want, status = refScan(inner, tagVariants...)
	} else {
		w := textWraps[c.Wrap]
		if nb := len(inner) - len(strings.TrimRight(inner, "\\")); nb == 1 {
			r.Exclude("not-literal-text:escapes-the-closing-tag")
			return nil
		}
		want, status = refScan(inner+w.closer, append([]tagSpec{{w.closer, ""}}, tagVariants...)...)
		want = strings.Repeat(want, w.reps)
		src = w.pre + inner + w.closer + w.post
	}
	if status != "ok" {
		r.Exclude("not-literal-text:" + status)
		return nil
	}
	res := vk.Safe(func() (string, error) { return plush.Render(src, plush.NewContextWith(textData())) })
	scrub(len(res.Out))
	r.Count(src, "raw-text/"+c.Wrap)
	r.Sample(func() interface{} { return map[string]interface{}{"template": vk.Text(src), "expected": vk.Text(want)} })
	if res.Panicked() || res.Err != nil || res.Out != want {
		return &vk.Fail{Kind: "raw", Case: c, Msg: fmt.Sprintf("template %q gave %s, the statement says %q", src, res, want)}
	}
	return nil
}

var rawFrags = []string{"\\", "\\", "<", "%", ">", "=", "#", "a", "\n", "\\<%", "\\\\", "<\\", "%>", "\"", "`", "é", "\xff", " "}

func genRaw(t *rapid.T) string {
	n := rapid.IntRange(0, 40).Draw(t, "rn")
	var sb strings.Builder
	for i := 0; i < n; i++ {
		switch k := rapid.IntRange(0, 9).Draw(t, "rk"); {
		case k == 0:
			sb.WriteString(tagVariants[rapid.IntRange(0, len(tagVariants)-1).Draw(t, "rt")].Src)
		case k == 1:
			if b := rapid.Byte().Draw(t, "rb"); b != 0 {
				sb.WriteByte(b)
			}
		default:
			sb.WriteString(rapid.SampledFrom(rawFrags).Draw(t, "rf"))
		}
	}
	return sb.String()
}

// ---- (2) string literals -------------------------------------------------------------------

type StrCase struct {
	V     vk.Text `json:"v"`
	Quote string  `json:"quote"` // `"` or "`"
	Place int     `json:"place"`
}

// places: %s stands for the literal; reps = how often [value] is expected
var strPlaces = []struct {
	name, tmpl string
	reps       int
}{
	{"top", "[<%= %s %>]", 1},
	{"in if", "<%= if (true) { %>[<%= %s %>]<% } %>", 1},
	{"as argument", "[<%= id(%s) %>]", 1},
	{"let then emit", "<% let z = %s %>[<%= z %>]", 1},
	{"in for", "<%= for (x) in two { %>[<%= %s %>]<% } %>", 2},
	{"argument of a template function", "<% let f = fn(p) { %>[<%= p %>]<% } %><%= f(%s) %>", 1},
	{"array element", "[<%= [%s][0] %>]", 1},
	{"silent tag with the same literal first", "<% %s %>[<%= %s %>]", 1},
	{"in else-if", "<%= if (false) { %>n<% } else if (true) { %>[<%= %s %>]<% } %>", 1},
	{"no blanks", "[<%=%s%>]", 1},
	{"in helper block", "<%= blk() { %>[<%= %s %>]<% } %>", 1},
	{"line breaks around", "[<%=\n%s\n%>]", 1},
}

func spell(v, quote string) (string, bool) {
	if quote == "`" {
		if strings.Contains(v, "`") {
			return "", false
		}
		return "`" + v + "`", true
	}
	if strings.HasSuffix(v, "\\") || strings.Contains(v, "\\\"") {
		return "", false
	}
	return "\"" + strings.ReplaceAll(v, "\"", "\\\"") + "\"", true
}

func strData() map[string]interface{} {
	return map[string]interface{}{"two": []int{1, 2},
		"id":   func(x interface{}) interface{} { return x },
		"cat2": func(a, b string) string { return a + "|" + b },
		"blk":  func(h plush.HelperContext) (template.HTML, error) { s, err := h.Block(); return template.HTML(s), err }}
}

func checkStr(r *vk.Run, c StrCase) *vk.Fail {
	defer r.Watch("strlit", c)()
	v := string(c.V)
	lit, ok := spell(v, c.Quote)
	if !ok || strings.ContainsRune(v, 0) {
		r.Exclude("string-not-expressible")
		return nil
	}
	pl := strPlaces[c.Place]
	src := strings.ReplaceAll(pl.tmpl, "%s", lit)
	res := vk.Safe(func() (string, error) { return plush.Render(src, plush.NewContextWith(strData())) })
	scrub(len(res.Out))
	nt := ""
	if strings.ContainsAny(v, "\"`%<>#\\\n") {
		nt = c.Quote + "|" + v + "|" + pl.name
	}
	r.Count(nt, "string-literal/"+map[string]string{"\"": "double", "`": "back"}[c.Quote])
	if nt != "" {
		r.Sample(func() interface{} { return map[string]interface{}{"template": vk.Text(src), "denotes": vk.Text(v)} })
	}
	if res.Panicked() || res.Err != nil {
		return &vk.Fail{Kind: "strlit", Case: c, Msg: fmt.Sprintf("template %q (string denoting %q): %s", src, v, res)}
	}
	var parts []match.Part
	for k := 0; k < pl.reps; k++ {
		parts = append(parts, match.L("["), match.E(v), match.L("]"))
	}
	if m := match.Match(parts, res.Out); m != "" {
		return &vk.Fail{Kind: "strlit", Case: c, Msg: fmt.Sprintf("template %q: the string denotes %q, output %q: %s", src, v, res.Out, m)}
	}
	return nil
}

// PairCase: two string literals in one template; what the first one was must
// not influence what the second one denotes.
type PairCase struct {
	V1    vk.Text `json:"v1"`
	Q1    string  `json:"q1"`
	V2    vk.Text `json:"v2"`
	Q2    string  `json:"q2"`
	Shape int     `json:"shape"`
}

var pairShapes = []string{"two tags", "two lets in one tag", "two arguments of one call"}

func checkPair(r *vk.Run, c PairCase) *vk.Fail {
	defer r.Watch("strpair", c)()
	v1, v2 := string(c.V1), string(c.V2)
	l1, ok1 := spell(v1, c.Q1)
	l2, ok2 := spell(v2, c.Q2)
	if !ok1 || !ok2 || strings.ContainsRune(v1+v2, 0) {
		r.Exclude("string-not-expressible")
		return nil
	}
	var src string
	switch c.Shape {
	case 0:
		src = "[<%= " + l1 + " %>|<%= " + l2 + " %>]"
	case 1:
		src = "<% let a = " + l1 + "\nlet b = " + l2 + " %>[<%= a %>|<%= b %>]"
	default:
		src = "[<%= cat2(" + l1 + ", " + l2 + ") %>]"
	}
	res := vk.Safe(func() (string, error) { return plush.Render(src, plush.NewContextWith(strData())) })
	scrub(len(res.Out))
	nt := ""
	if strings.ContainsAny(v1+v2, "\"`%<>#\\\n") {
		nt = fmt.Sprintf("%d|%s|%s", c.Shape, l1, l2)
	}
	r.Count(nt, "string-pair/"+pairShapes[c.Shape])
	if nt != "" {
		r.Sample(func() interface{} {
			return map[string]interface{}{"template": vk.Text(src), "denotes": []vk.Text{c.V1, c.V2}}
		})
	}
	if res.Panicked() || res.Err != nil {
		return &vk.Fail{Kind: "strpair", Case: c, Msg: fmt.Sprintf("template %q (strings denoting %q and %q): %s", src, v1, v2, res)}
	}
	parts := []match.Part{match.L("["), match.E(v1), match.L("|"), match.E(v2), match.L("]")}
	if c.Shape == 2 {
		parts = []match.Part{match.L("["), match.E(v1 + "|" + v2), match.L("]")}
	}
	if m := match.Match(parts, res.Out); m != "" {
		return &vk.Fail{Kind: "strpair", Case: c, Msg: fmt.Sprintf("template %q: the strings denote %q and %q, output %q: %s", src, v1, v2, res.Out, m)}
	}
	return nil
}

// ---- (2b) comment tags ------------------------------------------------------------------------

type CommentCase struct {
	B     vk.Text `json:"b"`
	Frame int     `json:"frame"`
}

// %s stands for the comment tag
var commentFrames = []struct {
	tmpl string
	want string
}{
	{"[%s]", "[]"},
	{"[%s<%= 1 %>]", "[1]"},
	{"[<%= 1 %>%sx]", "[1x]"},
	{"<%= if (true) { %>[%s]<% } %>", "[]"},
	{"[%s%s]", "[]"},
	{"<%= for (x) in two { %>[%sy%s]<% } %>%s", "[y][y]"},
	{"[<% let q = 4 %>%s<%= q %>]", "[4]"},
	// literal text after the comment that looks like the rest of a tag: a closer, a line comment, blank lines
	{"[%s\n%>b]", "[\n%>b]"},
	{"[%s %>b]", "[ %>b]"},
	{"[%s\n# x %>\n%>b]", "[\n# x %>\n%>b]"},
	{"<%= if (true) { %>[%s\n\n\t%>b]<% } %>", "[\n\n\t%>b]"},
}

func checkComment(r *vk.Run, c CommentCase) *vk.Fail {
	defer r.Watch("comment", c)()
	b := string(c.B)
	if strings.Contains(b, "%>") || strings.ContainsRune(b, 0) {
		r.Exclude("comment-body-ends-the-comment")
		return nil
	}
	fr := commentFrames[c.Frame]
	src := strings.ReplaceAll(fr.tmpl, "%s", "<%#"+b+"%>")
	res := vk.Safe(func() (string, error) {
		return plush.Render(src, plush.NewContextWith(map[string]interface{}{"two": []int{1, 2}}))
	})
	scrub(len(res.Out))
	r.Count(src, "comment/"+fr.tmpl)
	r.Sample(func() interface{} { return map[string]interface{}{"template": vk.Text(src), "expected": fr.want} })
	if res.Panicked() || res.Err != nil || res.Out != fr.want {
		return &vk.Fail{Kind: "comment", Case: c, Msg: fmt.Sprintf("template %q gave %s, the statement says %q (a comment tag contributes nothing)", src, res, fr.want)}
	}
	return nil
}

// ---- (3) segment sequences -------------------------------------------------------------------

type Seg struct {
	K    string  `json:"k"`
	S    vk.Text `json:"s,omitempty"`
	N    int     `json:"n,omitempty"`
	M    int     `json:"m,omitempty"`
	Body []Seg   `json:"body,omitempty"`

	id  int    // preorder number: names of variables and functions derive from it
	ref string // emit-it: the innermost name bound around it (loop variable or parameter)
}

type SegCase struct {
	Segs []Seg `json:"segs"`
	Pad  int   `json:"pad,omitempty"` // index into pads: the blanks inside the tag delimiters
}

var pads = []string{" ", "", "\n", "\t", "\r\n  "}

// append only: saved cases refer to these by index
var silentSrcs = []string{
	`1 + 2`, `"str<b>"`, `raw("<i>x</i>")`, `hv`, `sv`, `id("z")`, `id(hv)`, `[1, 2]`, `{a: 1}`, `true`, `nil`, `1.5`, `sv + "!"`, `!sv`, `len(sv)`,
	`let q = 5`, `let q = raw("<u>")`, "`back\nquoted %> <% `", `"%>"`, `uf()`, `two[0]`,
	// several statements in one tag, line comments, blocks written inside the tag
	"let q1 = 1\nlet q2 = raw(\"<u>\")", `let q3 = 3; let q4 = "<s>"`, "raw(\"<b>\")\nraw(\"<i>\")", "1 # note <b> \" ` <%= 1\n", "# only a comment\n",
	"# first\n# second\nlet q5 = 5\n", `fn() { return raw("<b>") }`, `if (true) { raw("<b>") }`, `for (x) in two { x }`, `if (false) { 1 } else { raw("<b>") }`,
	`let q6 = "<%= 1 %>"`, `sv == sv`, `[hv, sv]`, `{a: hv}`, `blk() { raw("<b>") }`,
}

const nIterKinds = 9
const nFnPatterns = 6
const nBlkKinds = 2
const nBranchKinds = 4

// prep numbers the segments, resolves what an emit-it refers to and separates
// text segments that would otherwise change the meaning of their neighbours.
func prep(segs []Seg, ctr *int, binder string, depth int) {
	endsLT := false // the source written so far in this list ends in a text '<'
	for i := range segs {
		s := &segs[i]
		*ctr++
		s.id = *ctr
		switch s.K {
		case "text":
			t := string(s.S)
			if endsLT && strings.HasPrefix(t, "%") {
				t = " " + t // two adjacent text segments must not spell a tag opener
			}
			if strings.HasSuffix(t, "\\") {
				t += "." // a trailing backslash would change the meaning of a tag that follows (covered by E1)
			}
			s.S = vk.Text(t)
			if t != "" {
				endsLT = strings.HasSuffix(t, "<")
			}
			continue
		case "emit-it":
			s.ref = binder
		case "for", "sfor":
			prep(s.Body, ctr, fmt.Sprintf("it%d", s.id), depth-1)
		case "fn", "scall":
			prep(s.Body, ctr, fmt.Sprintf("p%d", s.id), depth-1)
		default:
			prep(s.Body, ctr, binder, depth-1)
		}
		if nesting[s.K] && depth <= 0 {
			continue // not written at all (see walk)
		}
		endsLT = false
	}
}

var nesting = map[string]bool{"if": true, "else": true, "branch": true, "sbranch": true, "for": true, "sfor": true, "sif": true, "sblk": true, "fn": true, "scall": true, "blk": true}

func arrVals(variant, n int) []int {
	if variant == 0 {
		return []int{1, 2, 3}[:n]
	}
	return [][]int{{7}, {8, 9}, {4, 5, 6}}[n-1]
}

var strVals = []string{"a<b", "c&d", "e\"f"}

// iterable returns the source of the iterable and the values the loop variable takes.
func iterable(kind, n, variant int) (src string, vals []interface{}) {
	ints := func(xs []int) []interface{} {
		out := make([]interface{}, len(xs))
		for i, x := range xs {
			out[i] = x
		}
		return out
	}
	switch kind % nIterKinds {
	case 1:
		return []string{"[10]", "[10, 20]", "[10, 20, 30]"}[n-1], ints([]int{10, 20, 30}[:n])
	case 2:
		return fmt.Sprintf("range(1, %d)", n), ints([]int{1, 2, 3}[:n])
	case 3:
		return fmt.Sprintf("fix%d", n), ints(arrVals(variant, n))
	case 5:
		return fmt.Sprintf("ptr%d", n), ints(arrVals(variant, n))
	case 6:
		out := make([]interface{}, n)
		for i := range out {
			out[i] = strVals[i]
		}
		return fmt.Sprintf("strs%d", n), out
	case 7:
		return "one", []interface{}{5 + variant}
	case 8:
		return fmt.Sprintf("until(%d)", n), ints([]int{0, 1, 2}[:n])
	}
	return fmt.Sprintf("arr%d", n), ints(arrVals(variant, n)) // 0, and 4 (two-variable form)
}

func valPart(v interface{}) match.Part {
	if s, ok := v.(string); ok {
		return match.E(s)
	}
	return match.L(fmt.Sprint(v))
}

// walker turns segments into source text (when out != nil) and into the
// expected parts, for one variant of the data.
type walker struct {
	pad     string
	variant int
	data    map[string]interface{}
	err     string
}

func (w *walker) code(eq string, x string) string {
	pre := w.pad
	if pre == "" && eq == "" && (strings.HasPrefix(x, "#") || strings.HasPrefix(x, "=")) {
		pre = " " // <%# and <%= are other tags
	}
	return "<%" + eq + pre + x + w.pad + "%>"
}

func (w *walker) walk(segs []Seg, depth int, env map[string]interface{}, out *strings.Builder) []match.Part {
	var parts []match.Part
	p := func(s string) {
		if out != nil {
			out.WriteString(s)
		}
	}
	lit := func(s string) { parts = append(parts, match.L(s)) }
	with := func(name string, v interface{}, f func()) {
		old, had := env[name]
		env[name] = v
		f()
		if had {
			env[name] = old
		} else {
			delete(env, name)
		}
	}
	for i := range segs {
		s := segs[i]
		switch s.K {
		case "text":
			t := string(s.S)
			if strings.Contains(t, "<%") || strings.ContainsRune(t, 0) {
				w.err = "text segment contains a tag opener or NUL"
				return nil
			}
			p(t)
			lit(t)
		case "esc-tag": // \<%= 1 %> is literal text
			p("\\<%= 1 %>")
			lit("<%= 1 %>")
		case "bs-tag": // \\<%= 2 %> is one backslash and a live tag
			p("\\\\" + w.code("=", "2"))
			lit("\\2")
		case "emit-int":
			p(w.code("=", fmt.Sprint(s.N)))
			lit(fmt.Sprint(s.N))
		case "emit-it":
			if s.ref == "" {
				p(w.code("=", fmt.Sprint(s.N)))
				lit(fmt.Sprint(s.N))
				break
			}
			p(w.code("=", s.ref))
			if v, ok := env[s.ref]; ok {
				parts = append(parts, valPart(v))
			} else {
				w.err = "harness: unbound " + s.ref
				return nil
			}
		case "emit-var":
			name := fmt.Sprintf("pv%d", s.id)
			v := string(s.S)
			if v == "" {
				v = "x" // an empty string variable counts as unset
			}
			if w.variant == 1 {
				v += "<2>"
			}
			w.data[name] = v
			p(w.code("=", name))
			parts = append(parts, match.E(v))
		case "emit-html":
			name := fmt.Sprintf("ph%d", s.id)
			v := string(s.S)
			if v == "" {
				v = "<hr>"
			}
			if w.variant == 1 {
				v += "<i>2</i>"
			}
			w.data[name] = template.HTML(v)
			p(w.code("=", name))
			parts = append(parts, match.R(v))
		case "emit-mut":
			// an array printed, changed by the next tag, printed again: each tag prints what the array held when the
			// tag ran (at top level and inside blocks alike)
			name := fmt.Sprintf("mu%d", s.id)
			p("<% let " + name + " = [\"p<\", [1, \"q&\"]] %>")
			p(w.code("=", name))
			switch s.N % 3 {
			case 0:
				p(w.code("", name+"[0] = \"r>\""))
				p(w.code("=", name))
				parts = append(parts, match.E("p<"), match.L("1"), match.E("q&"), match.E("r>"), match.L("1"), match.E("q&"))
			case 1: // the nested array is changed
				p(w.code("", name+"[1][0] = 2"))
				p(w.code("=", name))
				parts = append(parts, match.E("p<"), match.L("1"), match.E("q&"), match.E("p<"), match.L("2"), match.E("q&"))
			default: // changed, not printed again
				p(w.code("", name+"[0] = \"r>\""))
				parts = append(parts, match.E("p<"), match.L("1"), match.E("q&"))
			}
		case "emit-arr":
			// ONE array value (a variable of the data, the same slice every time) printed whole: an array prints as
			// its elements in order, however often the same array is printed by one tag or one block
			forms := []string{"sharr", "[sharr, sharr]", "[sharr, [sharr, \"m\"], sharr]", "id(sharr)", "[lits, sharr, lits]"}
			counts := []int{1, 2, 3, 1, 1}
			f := s.N % len(forms)
			src := forms[f]
			one := []match.Part{match.E("x<y"), match.L("7"), match.R("<b>z</b>"), match.E("in&ner")}
			if f == 4 {
				p("<% let lits = [\"l<\", 1] %>")
			}
			p(w.code("=", src))
			for k := 0; k < counts[f]; k++ {
				if f == 4 && k == 0 {
					parts = append(parts, match.E("l<"), match.L("1"))
				}
				parts = append(parts, one...)
				if f == 2 && k == 1 {
					parts = append(parts, match.E("m"))
				}
				if f == 4 {
					parts = append(parts, match.E("l<"), match.L("1"))
				}
			}
		case "emit-str":
			q := "\""
			if s.N == 1 {
				q = "`"
			}
			l, ok := spell(string(s.S), q)
			if !ok {
				l, ok = spell(string(s.S), "`")
			}
			if !ok || strings.ContainsRune(string(s.S), 0) {
				w.err = "string literal not expressible"
				return nil
			}
			p(w.code("=", l))
			parts = append(parts, match.E(string(s.S)))
		case "silent":
			p(w.code("", silentSrcs[s.N%len(silentSrcs)]))
		case "silent-if":
			p("<% if (sv) { %>hidden text<%= sv %><% } %>")
		case "silent-for":
			p("<% for (x) in two { %>hidden<%= x %><% } %>")
		case "assign":
			p("<% let w = 1 %><% w = 2 %>")
		case "comment":
			c := string(s.S)
			if strings.Contains(c, "%>") || strings.ContainsRune(c, 0) {
				w.err = "comment body contains %>"
				return nil
			}
			p("<%#" + c + "%>")
		case "if":
			if depth <= 0 {
				continue
			}
			p(w.code("=", "if (true) {"))
			parts = append(parts, w.walk(s.Body, depth-1, env, out)...)
			p(w.code("", "}"))
		case "else":
			if depth <= 0 {
				continue
			}
			p(w.code("=", "if (false) {") + "never" + w.code("", "} else {"))
			parts = append(parts, w.walk(s.Body, depth-1, env, out)...)
			p(w.code("", "}"))
		case "branch", "sbranch": // the body is the taken branch of a chain; the others hold text and a tag as well
			if depth <= 0 {
				continue
			}
			eq := "="
			if s.K == "sbranch" {
				eq = "" // a code tag: the whole chain contributes nothing
			}
			never := func(k int) string { return fmt.Sprintf("never%d", k) + w.code("=", "9") }
			var pre, post string
			switch s.M % nBranchKinds {
			case 0:
				pre = w.code(eq, "if (true) {")
				post = w.code("", "} else if (true) {") + never(1) + w.code("", "} else {") + never(2) + w.code("", "}")
			case 1:
				pre = w.code(eq, "if (false) {") + never(0) + w.code("", "} else if (true) {")
				post = w.code("", "} else {") + never(2) + w.code("", "}")
			case 2:
				pre = w.code(eq, "if (false) {") + never(0) + w.code("", "} else if (false) {") + never(1) + w.code("", "} else if (true) {")
				post = w.code("", "}")
			default:
				pre = w.code(eq, "if (false) {") + never(0) + w.code("", "} else if (false) {") + never(1) + w.code("", "} else {")
				post = w.code("", "}")
			}
			p(pre)
			if ps := w.walk(s.Body, depth-1, env, out); s.K == "branch" {
				parts = append(parts, ps...)
			}
			p(post)
		case "for", "sfor":
			if depth <= 0 {
				continue
			}
			n := s.N%3 + 1
			kind := s.M % nIterKinds
			if kind == 7 {
				n = 1
			}
			isrc, vals := iterable(kind, n, w.variant)
			name := fmt.Sprintf("it%d", s.id)
			head := "for (" + name + ") in " + isrc + " {"
			if kind == 4 || kind == 7 {
				head = fmt.Sprintf("for (k%d, %s) in %s {", s.id, name, isrc)
			}
			eq := "="
			if s.K == "sfor" {
				eq = ""
			}
			p(w.code(eq, head))
			for k, v := range vals {
				o := out
				if k > 0 {
					o = nil // the source of the body is written once
				}
				with(name, v, func() {
					ps := w.walk(s.Body, depth-1, env, o)
					if s.K == "for" {
						parts = append(parts, ps...)
					}
				})
				if w.err != "" {
					return nil
				}
			}
			p(w.code("", "}"))
		case "sif": // a code tag: the whole block contributes nothing
			if depth <= 0 {
				continue
			}
			p(w.code("", "if (true) {"))
			w.walk(s.Body, depth-1, env, out)
			p(w.code("", "}"))
		case "sblk":
			if depth <= 0 {
				continue
			}
			p(w.code("", "blk() {"))
			w.walk(s.Body, depth-1, env, out)
			p(w.code("", "}"))
		case "fn", "scall":
			if depth <= 0 {
				continue
			}
			f, par := fmt.Sprintf("fun%d", s.id), fmt.Sprintf("p%d", s.id)
			p(w.code("", "let "+f+" = fn("+par+") {"))
			w.walk(s.Body, depth-1, fnEnv(par, 0), out) // the definition itself emits nothing
			p(w.code("", "}"))
			call := func(arg interface{}) {
				parts = append(parts, w.walk(s.Body, depth-1, fnEnv(par, arg), nil)...)
			}
			pat := s.M % nFnPatterns
			if s.K == "scall" {
				pat = 6
			}
			switch pat {
			case 0:
				p(w.code("=", f+"(1)"))
				call(1)
			case 1:
				p(w.code("=", f+"(1)") + w.code("=", f+`("s<2>")`))
				call(1)
				call("s<2>")
			case 2: // both results are alive inside one enclosing block
				p(w.code("=", "if (true) {") + "A" + w.code("=", f+"(3)") + "B" + w.code("=", f+"(4)") + "C" + w.code("", "}"))
				lit("A")
				call(3)
				lit("B")
				call(4)
				lit("C")
			case 3: // one call site, executed once per iteration
				q := fmt.Sprintf("q%d", s.id)
				p(w.code("=", "for ("+q+") in arr2 {") + w.code("=", f+"("+q+")") + w.code("", "}"))
				for _, v := range arrVals(w.variant, 2) {
					call(v)
				}
			case 4: // never called
			case 5: // called from a code tag first
				p(w.code("", f+"(1)") + w.code("=", f+"(2)"))
				call(2)
			default: // scall: only called from a code tag
				p(w.code("", f+"(1)"))
			}
		case "blk":
			if depth <= 0 {
				continue
			}
			if s.M%nBlkKinds == 1 { // the helper renders its block twice
				p(w.code("=", "blk2() {"))
				ps := w.walk(s.Body, depth-1, env, out)
				parts = append(parts, ps...)
				lit("|")
				parts = append(parts, ps...)
			} else {
				p(w.code("=", "blk() {"))
				parts = append(parts, w.walk(s.Body, depth-1, env, out)...)
			}
			p(w.code("", "}"))
		default:
			w.err = "unknown segment kind " + s.K
			return nil
		}
		if w.err != "" {
			return nil
		}
	}
	return parts
}

// the body of a function sees its parameter; loop variables of the definition
// site are not referred to inside it (prep resets the binder at the function)
func fnEnv(par string, v interface{}) map[string]interface{} {
	return map[string]interface{}{par: v}
}

func baseData(variant int) map[string]interface{} {
	d := map[string]interface{}{
		"hv": template.HTML("<em>H</em>"), "sv": "s<v>", "two": []int{1, 2},
		"id":  func(x interface{}) interface{} { return x },
		"blk": func(h plush.HelperContext) (template.HTML, error) { s, err := h.Block(); return template.HTML(s), err },
		"blk2": func(h plush.HelperContext) (template.HTML, error) {
			s, err := h.Block()
			if err != nil {
				return "", err
			}
			s2, err := h.Block()
			return template.HTML(s + "|" + s2), err
		},
		"uf":    func() template.HTML { return "<uf>" },
		"sharr": []interface{}{"x<y", 7, template.HTML("<b>z</b>"), []interface{}{"in&ner"}},
		"one":   map[string]int{"k": 5 + variant},
	}
	for n := 1; n <= 3; n++ {
		xs := arrVals(variant, n)
		d[fmt.Sprintf("arr%d", n)] = append([]int(nil), xs...)
		cp := append([]int(nil), xs...)
		d[fmt.Sprintf("ptr%d", n)] = &cp
		d[fmt.Sprintf("strs%d", n)] = append([]string(nil), strVals[:n]...)
	}
	d["fix1"] = [1]int{arrVals(variant, 1)[0]}
	d["fix2"] = [2]int{arrVals(variant, 2)[0], arrVals(variant, 2)[1]}
	d["fix3"] = [3]int{arrVals(variant, 3)[0], arrVals(variant, 3)[1], arrVals(variant, 3)[2]}
	return d
}

// build returns the source (variant 0 only), the expected parts and fresh data.
func build(c SegCase, variant int, withSrc bool) (src string, parts []match.Part, data map[string]interface{}, err string) {
	w := &walker{pad: pads[c.Pad], variant: variant, data: baseData(variant)}
	var sb strings.Builder
	var out *strings.Builder
	if withSrc {
		out = &sb
	}
	parts = w.walk(c.Segs, 3, map[string]interface{}{}, out)
	return sb.String(), parts, w.data, w.err
}

func checkSegs(r *vk.Run, c SegCase) *vk.Fail {
	defer r.Watch("segs", c)()
	if c.Pad < 0 || c.Pad >= len(pads) {
		return &vk.Fail{Kind: "decode", Msg: "bad pad"}
	}
	ctr := 0
	prep(c.Segs, &ctr, "", 3)
	src, parts0, data0, e := build(c, 0, true)
	if e != "" {
		if strings.HasPrefix(e, "harness:") {
			panic(e)
		}
		r.Exclude("inexpressible")
		return nil
	}
	_, parts1, data1, _ := build(c, 1, false)
	_, _, data2, _ := build(c, 0, false)

	// the same text rendered once through Render, then parsed once and executed
	// twice: with other values, and again with the first ones
	res0 := vk.Safe(func() (string, error) { return plush.Render(src, plush.NewContextWith(data0)) })
	var t *plush.Template
	resP := vk.Safe(func() (string, error) {
		var err error
		t, err = plush.Parse(src)
		return "", err
	})
	var res1, res2 vk.Res
	if !resP.Panicked() && resP.Err == nil && t != nil {
		res1 = vk.Safe(func() (string, error) { return t.Exec(plush.NewContextWith(data1)) })
		res2 = vk.Safe(func() (string, error) { return t.Exec(plush.NewContextWith(data2)) })
	}
	scrub(len(res0.Out) + len(res1.Out))

	nested := strings.Contains(src, "{"+pads[c.Pad]+"%>")
	nt := ""
	if strings.Contains(src, "<%"+pads[c.Pad]) && nested || strings.Contains(src, "\\") || strings.Contains(src, "<%#") || strings.ContainsAny(src, "`\n") {
		nt = src
	}
	cls := "segments/flat"
	if nested {
		cls = "segments/nested"
	}
	r.Count(nt, cls)
	r.Evals(2)
	if nt != "" {
		r.Sample(func() interface{} {
			return map[string]interface{}{"template": vk.Text(src), "expected": match.Describe(parts0), "expected with the second data": match.Describe(parts1)}
		})
	}
	if resP.Panicked() || resP.Err != nil {
		return &vk.Fail{Kind: "segs", Case: c, Msg: fmt.Sprintf("template %q: Parse: %s", src, resP)}
	}
	for _, x := range []struct {
		what  string
		res   vk.Res
		parts []match.Part
	}{{"Render", res0, parts0}, {"Exec of the parsed template with other values", res1, parts1}, {"Exec of the parsed template with the first values again", res2, parts0}} {
		if x.res.Panicked() || x.res.Err != nil {
			return &vk.Fail{Kind: "segs", Case: c, Msg: fmt.Sprintf("template %q: %s: %s", src, x.what, x.res)}
		}
		if m := match.Match(x.parts, x.res.Out); m != "" {
			return &vk.Fail{Kind: "segs", Case: c, Msg: fmt.Sprintf("template %q: %s gave %q; expected %s: %s", src, x.what, x.res.Out, match.Describe(x.parts), m)}
		}
	}
	return nil
}

// text fragments for generated literal segments (never containing "<%")
var textFrags = []string{
	"a", "b c", "<", ">", "%", "%>", "< %", "=", "#", "\"", "'", "`", "{", "}", "(", ")", "\\", "\\<", "\\\\", "\\%", "<\\%", "\n", "\r\n", "\t", " ",
	"é", "漢", "\xff", "<b>", "</b>", "&amp;", "&", "<!-- c -->", "if (x) {", "%}", "{{x}}", "$", "@", "return", "<?php", "<script>", "-->",
	"else", "} else {", "\n\n", "  ", "\v", "\f", " ", " ", "<%", "# x", "-%>", "<%-", "<%%", "%%>",
}

func genText(t *rapid.T) string {
	n := rapid.IntRange(0, 6).Draw(t, "tn")
	var sb strings.Builder
	for i := 0; i < n; i++ {
		sb.WriteString(rapid.SampledFrom(textFrags).Draw(t, "tf"))
	}
	return strings.ReplaceAll(sb.String(), "<%", "< %")
}

var nestKinds = []string{"if", "else", "branch", "for", "for", "fn", "blk", "sif", "sbranch", "sfor", "sblk", "scall"}

func genSegs(t *rapid.T, depth int) []Seg {
	n := rapid.IntRange(1, 6).Draw(t, "nseg")
	var out []Seg
	for i := 0; i < n; i++ {
		k := rapid.IntRange(0, 19).Draw(t, "seg")
		switch {
		case k <= 2:
			out = append(out, Seg{K: "text", S: vk.Text(genText(t))})
		case k == 3:
			out = append(out, Seg{K: rapid.SampledFrom([]string{"esc-tag", "bs-tag"}).Draw(t, "esc")})
		case k == 4:
			out = append(out, Seg{K: "emit-int", N: rapid.IntRange(0, 99).Draw(t, "n")})
		case k == 5:
			out = append(out, Seg{K: "emit-var", S: vk.Text(gen.Payload(t, "pv"))})
		case k == 6:
			out = append(out, Seg{K: "emit-html", S: vk.Text(gen.Payload(t, "ph"))})
		case k == 7 || k == 8:
			out = append(out, Seg{K: "emit-str", S: vk.Text(strings.ReplaceAll(gen.Payload(t, "sl"), "\x00", "0")), N: rapid.IntRange(0, 1).Draw(t, "q")})
		case k == 9 || k == 10:
			out = append(out, Seg{K: "silent", N: rapid.IntRange(0, len(silentSrcs)-1).Draw(t, "sn")})
		case k == 11:
			out = append(out, Seg{K: rapid.SampledFrom([]string{"silent-if", "silent-for", "assign"}).Draw(t, "sk")})
		case k == 12:
			c := strings.ReplaceAll(strings.ReplaceAll(gen.Payload(t, "cm"), "%>", "% >"), "\x00", "0")
			out = append(out, Seg{K: "comment", S: vk.Text(c)})
		case k == 13:
			out = append(out, Seg{K: "emit-it", N: rapid.IntRange(0, 99).Draw(t, "n")})
		case k == 14:
			if a := rapid.IntRange(0, 2).Draw(t, "arr"); a == 2 {
				out = append(out, Seg{K: "emit-mut", N: rapid.IntRange(0, 2).Draw(t, "form")})
			} else if a == 1 {
				out = append(out, Seg{K: "emit-arr", N: rapid.IntRange(0, 4).Draw(t, "form")})
			} else {
				out = append(out, Seg{K: "emit-it", N: rapid.IntRange(0, 99).Draw(t, "n")})
			}
		default:
			if depth > 0 {
				out = append(out, Seg{K: rapid.SampledFrom(nestKinds).Draw(t, "nest"), N: rapid.IntRange(0, 2).Draw(t, "reps"),
					M: rapid.IntRange(0, 17).Draw(t, "m"), Body: genSegs(t, depth-1)})
			} else {
				out = append(out, Seg{K: "text", S: vk.Text(genText(t))})
			}
		}
	}
	return out
}

// atoms: one representative of every segment kind, for the exhaustive
// neighbourhoods (every ordered pair and triple, in every kind of block)
func atoms() []Seg {
	body := func() []Seg { return []Seg{{K: "text", S: "t"}, {K: "emit-it", N: 5}} }
	return []Seg{
		{K: "text", S: "a"}, {K: "text", S: "<"}, {K: "text", S: "\n"}, {K: "text", S: " "}, {K: "text", S: "%>"},
		{K: "esc-tag"}, {K: "bs-tag"},
		{K: "emit-int", N: 7}, {K: "emit-var", S: "v<w>"}, {K: "emit-html", S: "<b>h</b>"}, {K: "emit-str", S: "%> <% \"`"}, {K: "emit-it", N: 8}, {K: "emit-arr", N: 0}, {K: "emit-arr", N: 1}, {K: "emit-mut", N: 0},
		{K: "silent", N: 0}, {K: "silent", N: 2}, {K: "silent", N: 15}, {K: "silent", N: 24}, {K: "silent", N: 25}, {K: "assign"},
		{K: "comment", S: ""}, {K: "comment", S: " c \" # ` <% "},
		{K: "if", Body: body()}, {K: "branch", M: 1, Body: body()}, {K: "branch", M: 3, Body: body()},
		{K: "for", N: 1, Body: body()}, {K: "for", N: 1, M: 2, Body: body()}, {K: "fn", M: 1, Body: body()}, {K: "fn", M: 2, Body: body()},
		{K: "blk", Body: body()}, {K: "blk", M: 1, Body: body()},
		{K: "sif", Body: body()}, {K: "sbranch", M: 1, Body: body()}, {K: "sfor", N: 1, Body: body()}, {K: "sblk", Body: body()}, {K: "scall", Body: body()},
	}
}

var contexts = []string{"top", "if", "branch1", "branch2", "branch3", "for2", "for-range2", "fn-twice", "fn-in-loop", "blk", "blk-twice", "sif"}

func inContext(ctx string, segs []Seg) []Seg {
	switch ctx {
	case "top":
		return segs
	case "if":
		return []Seg{{K: "if", Body: segs}}
	case "branch1", "branch2", "branch3":
		return []Seg{{K: "branch", M: int(ctx[6] - '0'), Body: segs}}
	case "for2":
		return []Seg{{K: "for", N: 1, Body: segs}}
	case "for-range2":
		return []Seg{{K: "for", N: 1, M: 2, Body: segs}}
	case "fn-twice":
		return []Seg{{K: "fn", M: 1, Body: segs}}
	case "fn-in-loop":
		return []Seg{{K: "fn", M: 3, Body: segs}}
	case "blk":
		return []Seg{{K: "blk", Body: segs}}
	case "blk-twice":
		return []Seg{{K: "blk", M: 1, Body: segs}}
	default:
		return []Seg{{K: "sif", Body: segs}}
	}
}

func cloneSegs(in []Seg) []Seg {
	out := make([]Seg, len(in))
	for i, s := range in {
		out[i] = s
		out[i].Body = cloneSegs(s.Body)
	}
	return out
}

// ---- (4) depth and width ------------------------------------------------------------------------

// DeepCase: N blocks nested in each other with text on both sides at every
// level, or N tags / iterations / bytes in a row.
type DeepCase struct {
	Kind string `json:"kind"`
	N    int    `json:"n"`
}

var deepKinds = []string{"if", "else", "for1", "mixed", "silent-inside", "fn", "blk"}
var wideKinds = []string{"wide-tags", "wide-silent", "wide-comments", "wide-loop", "wide-blocks", "long-text", "long-string"}

func (c DeepCase) build() (src, want string, data map[string]interface{}, ok bool) {
	data = map[string]interface{}{"arr1": []int{1},
		"blk": func(h plush.HelperContext) (template.HTML, error) { s, err := h.Block(); return template.HTML(s), err }}
	n := c.N
	var a, b strings.Builder
	opener := func(kind string, i int) (string, string) {
		switch kind {
		case "else":
			return "<%= if (false) { %>n<% } else { %>", "<% } %>"
		case "for1":
			return "<%= for (v) in arr1 { %>", "<% } %>"
		case "fn":
			return fmt.Sprintf("<%% let f%d = fn() { %%>", i), fmt.Sprintf("<%% } %%><%%= f%d() %%>", i)
		case "blk":
			return "<%= blk() { %>", "<% } %>"
		}
		return "<%= if (true) { %>", "<% } %>"
	}
	switch c.Kind {
	case "if", "else", "for1", "mixed", "silent-inside", "fn", "blk":
		closers := make([]string, n)
		for i := 0; i < n; i++ {
			kind := c.Kind
			if kind == "mixed" || kind == "silent-inside" {
				kind = []string{"if", "else", "for1"}[i%3]
			}
			o, cl := opener(kind, i)
			a.WriteString(o + "(")
			closers[i] = ")" + cl
		}
		a.WriteString("X")
		want = strings.Repeat("(", n) + "X" + strings.Repeat(")", n)
		if c.Kind == "silent-inside" { // the innermost block holds a silent block and a comment as well
			a.WriteString("<% if (true) { %>hidden<% } %><%# c %>Y")
			want = strings.Repeat("(", n) + "XY" + strings.Repeat(")", n)
		}
		for i := n - 1; i >= 0; i-- {
			a.WriteString(closers[i])
		}
		return "[" + a.String() + "]", "[" + want + "]", data, true
	case "wide-tags":
		for i := 0; i < n; i++ {
			fmt.Fprintf(&a, "x<%%= %d %%>", i%10)
			fmt.Fprintf(&b, "x%d", i%10)
		}
	case "wide-silent":
		for i := 0; i < n; i++ {
			a.WriteString("y<% 1 %>")
			b.WriteString("y")
		}
	case "wide-comments":
		for i := 0; i < n; i++ {
			a.WriteString("<%# c %>z")
			b.WriteString("z")
		}
	case "wide-loop":
		data["big"] = make([]int, n)
		a.WriteString("<%= for (v) in big { %>x<%= v %><% } %>")
		b.WriteString(strings.Repeat("x0", n))
	case "wide-blocks":
		for i := 0; i < n; i++ {
			fmt.Fprintf(&a, "<%%= if (true) { %%>%d<%% } %%>", i%10)
			fmt.Fprintf(&b, "%d", i%10)
		}
	case "long-text":
		unit := "ab<c\\d%e>f\n\"g\xff<\\%" + "\\<% not a tag %>" + "h\\\\" + tag + "<\\\\i"
		for a.Len() < n {
			a.WriteString(unit)
		}
		a.WriteString(tag)
		w, st := refScan(a.String())
		if st != "ok" {
			return "", "", nil, false
		}
		b.WriteString(w)
	case "long-string":
		unit := "ab<%c%>d#e\n"
		for b.Len() < n {
			b.WriteString(unit)
		}
		a.WriteString("<%= raw(`" + b.String() + "`) %>")
	default:
		return "", "", nil, false
	}
	return "[" + a.String() + "]", "[" + b.String() + "]", data, true
}

func checkDeep(r *vk.Run, c DeepCase) *vk.Fail {
	defer r.Watch("deep", c)()
	src, want, data, ok := c.build()
	if !ok || c.N < 0 || c.N > 1<<24 {
		return &vk.Fail{Kind: "decode", Msg: "bad deep case"}
	}
	res := vk.Safe(func() (string, error) { return plush.Render(src, plush.NewContextWith(data)) })
	scrub(len(res.Out))
	r.Count(fmt.Sprintf("%s/%d", c.Kind, c.N), "depth-and-width/"+c.Kind)
	r.Sample(func() interface{} { return c })
	if !res.Panicked() && res.Err != nil && c.N > 64 && !strings.HasPrefix(c.Kind, "wide") && !strings.HasPrefix(c.Kind, "long") {
		// how deep blocks and calls may nest is not stated: an engine may refuse (with an error) what is nested deeper than 64
		r.Class("deep nesting refused with an error")
		return nil
	}
	if res.Panicked() || res.Err != nil || res.Out != want {
		cls := ""
		if c.N >= 900 && !strings.HasPrefix(c.Kind, "wide") && !strings.HasPrefix(c.Kind, "long") {
			cls = "deep-block-nesting"
		}
		got := res.String()
		if len(got) > 200 {
			got = got[:100] + " … " + got[len(got)-100:]
		}
		return &vk.Fail{Kind: "deep", Class: cls, Case: c, Msg: fmt.Sprintf("%d x %s: output (%d bytes) %s; the statement says %d bytes: every text and tag value in source order", c.N, c.Kind, len(res.Out), got, len(want))}
	}
	return nil
}

// ---- the test -----------------------------------------------------------------------------------

const rule = "(E1) every string of length <= L (quick 4, thorough 6) over {a \\ < % > = # \"} that an independent reference scanner (written from the two escape rules of the statement) classifies as literal text, alone and next to a tag in the frames s+TAG, TAG+s, s+TAG+s2 (7 tails), and directly after the opening / directly before the closing tag of a block: IF{s+TAG}, IF{TAG+s}, ELSE{TAG+s}, ELSEIF{s+TAG+s}, FOR2{s+TAG}, FOR2{TAG+s}, FN{s+TAG+s}, BLK{TAG+s}, SILENT-IF{s+TAG+s}; TAG is an output tag, and for strings of length <= 5 (quick 3) also a code tag, a comment tag and an output tag without blanks; strings with a live opener or with >=3 backslashes before <% are outside the statement and counted under excluded. (E2) every string VALUE of length <= 5 (quick 4) over {a \\ \" ` % > < # newline} spelled as a double-quoted and as a back-quoted literal where expressible, at 12 places (top, if, else-if, for, helper block, helper argument, template-function argument, array element, let, after a silent tag holding the same literal, without blanks, with line breaks); the output must decode to exactly that value. (E3) every ordered pair of values of length <= 2 over {a \\ \" ` %> <% newline #} x the four quote combinations in one template (two tags, two lets in one tag, two arguments of one call). (E4) every comment body of length <= 3 (thorough 4) over {a blank % > < # \" ` \\ = newline -} not containing %>, in 11 frames (alone, before / after a tag, in a block, two in a row, in a loop, between let and use, followed by literal text that looks like the rest of a tag: a closer after blanks / a line break / a line comment). (E5) every ordered pair (thorough: and triple) of 37 representative segments (among them an array printed, changed by the next tag and printed again - each tag prints what the array held when it ran - and ONE shared array value printed whole, alone and twice inside one array literal: an array prints as its elements in order however often one tag or one block prints it) in 12 kinds of surroundings (top level, if, three else-if chain positions, two loops, function called twice / from a loop, helper block rendered once / twice, silent block). (E6) N blocks nested in each other (if, else, single-iteration for, mixed, with a silent block and a comment innermost, template functions, helper blocks) with text on both sides at every level, N up to 1500 (thorough 5000; functions and helpers up to 400; beyond 64 levels a refusal with an error is accepted, a render that succeeds must be right); N tags, code tags, comments, blocks, loop iterations in a row (up to 20000), 1 MiB of text and a 1 MiB string. (R1) texts of up to 40 fragments over {\\ < % > = # quotes newline \\<% \\\\ any byte} with the four fixed tags strewn in, at top level and as the body of every kind of block, against the reference scanner. (R) random segment sequences: literal text over an alphabet with <, %, >, \\, =, #, quotes, braces, newlines, other blanks, multi-byte and invalid bytes, delimiter look-alikes; \\<%..%> and \\\\<%..%> forms; output tags of ints, string variables, trusted HTML, string literals of arbitrary contents, the innermost loop variable / function parameter, one shared array value printed whole in five forms (alone, twice / three times inside an array literal, through a helper, between two printings of a let-bound literal array), an array printed, changed (itself or a nested array) and printed again; 36 kinds of silent tags (expressions of every value type incl. HTML-typed, let, assignment, helper calls, several statements in one tag, line comments, blocks inside the tag, silent if / for with text bodies); comment tags with arbitrary contents; at top level and nested to depth 3 in <%= if %>, else, every position of an else-if chain, <%= for %> x n over 9 kinds of iterables (slice, array literal, range, until, Go array, pointer, strings, one-entry map, two-variable form), template functions with a parameter (called once, twice, twice inside one block, from a loop, never, from a code tag first), block helpers rendering their block once or twice, and SILENT blocks (if, else-if chain, for, helper block, function called from a code tag) whose whole arbitrary body must contribute nothing; five spellings of the blanks inside the tag delimiters (one blank, none, newline, tab, CRLF). Every generated template is rendered with Render, then parsed once and executed twice with other values of every variable and again with the first values; every output is compared only after an unrelated longer render (an output must not share memory with engine state). Oracle: the expected part list built alongside (literal / escaped payload / verbatim payload) checked with the entity-decoding matcher. (F, thorough) native fuzzing of the text scanner against the reference scanner. Non-trivial = text with \\, < or %, a string literal with a delimiter/quote/newline, a silent tag inside a block, a comment, or a multi-line construct; distinct by template."

func setup(t *testing.T) *vk.Run {
	r := vk.Start(t, "C02", rule,
		"NUL bytes are excluded (the statement says NUL-free); three or more backslashes before <% are ambiguous under the statement",
		"text segments of the random phase never contain '<%' and never end in a backslash directly before a tag (those shapes are covered exhaustively by E1)",
		"template functions and helper blocks nested deeper than 400 are not generated: calls nested deeper than 1000 are a documented error",
		"what a loop variable or a parameter holds inside a helper block / an if of the same body is taken as the plain reading (the value bound); a function body does not refer to loop variables of its definition site")
	r.Replayer("text", func(raw json.RawMessage) *vk.Fail {
		var c TextCase
		if f := vk.Decode(raw, &c); f != nil {
			return f
		}
		if c.Frame < 0 || c.Frame >= len(frameNames) || c.Tag < 0 || c.Tag >= len(tagVariants) {
			return &vk.Fail{Kind: "decode", Msg: "bad frame"}
		}
		return checkText(r, c)
	})
	r.Replayer("raw", func(raw json.RawMessage) *vk.Fail {
		var c RawCase
		if f := vk.Decode(raw, &c); f != nil {
			return f
		}
		if _, ok := textWraps[c.Wrap]; !ok && c.Wrap != "" {
			return &vk.Fail{Kind: "decode", Msg: "bad wrap"}
		}
		return checkRaw(r, c)
	})
	r.Replayer("strlit", func(raw json.RawMessage) *vk.Fail {
		var c StrCase
		if f := vk.Decode(raw, &c); f != nil {
			return f
		}
		if c.Place < 0 || c.Place >= len(strPlaces) || (c.Quote != "\"" && c.Quote != "`") {
			return &vk.Fail{Kind: "decode", Msg: "bad case"}
		}
		return checkStr(r, c)
	})
	r.Replayer("strpair", func(raw json.RawMessage) *vk.Fail {
		var c PairCase
		if f := vk.Decode(raw, &c); f != nil {
			return f
		}
		okq := func(q string) bool { return q == "\"" || q == "`" }
		if c.Shape < 0 || c.Shape >= len(pairShapes) || !okq(c.Q1) || !okq(c.Q2) {
			return &vk.Fail{Kind: "decode", Msg: "bad case"}
		}
		return checkPair(r, c)
	})
	r.Replayer("comment", func(raw json.RawMessage) *vk.Fail {
		var c CommentCase
		if f := vk.Decode(raw, &c); f != nil {
			return f
		}
		if c.Frame < 0 || c.Frame >= len(commentFrames) {
			return &vk.Fail{Kind: "decode", Msg: "bad frame"}
		}
		return checkComment(r, c)
	})
	r.Replayer("segs", func(raw json.RawMessage) *vk.Fail {
		var c SegCase
		if f := vk.Decode(raw, &c); f != nil {
			return f
		}
		return checkSegs(r, c)
	})
	r.Replayer("deep", func(raw json.RawMessage) *vk.Fail {
		var c DeepCase
		if f := vk.Decode(raw, &c); f != nil {
			return f
		}
		return checkDeep(r, c)
	})
	r.Replayer("gofuzz", func(raw json.RawMessage) *vk.Fail {
		var c struct {
			CorpusFile string `json:"corpus_file"`
		}
		if f := vk.Decode(raw, &c); f != nil {
			return f
		}
		for _, l := range strings.Split(c.CorpusFile, "\n") {
			l = strings.TrimSpace(l)
			if strings.HasPrefix(l, "[]byte(") && strings.HasSuffix(l, ")") {
				var s string
				if _, err := fmt.Sscanf(l[len("[]byte("):len(l)-1], "%q", &s); err == nil {
					return checkText(r, TextCase{S: vk.Text(strings.ReplaceAll(s, "\x00", "")), Frame: 1})
				}
			}
		}
		return &vk.Fail{Kind: "decode", Msg: "no value in fuzz corpus file"}
	})
	return r
}

func TestReplay(t *testing.T) { setup(t).ReplayEnv() }

func enumStrings(alpha []string, maxLen int) []string {
	out := []string{""}
	prev := []string{""}
	for l := 1; l <= maxLen; l++ {
		var cur []string
		for _, p := range prev {
			for _, a := range alpha {
				cur = append(cur, p+a)
			}
		}
		out = append(out, cur...)
		prev = cur
	}
	return out
}

func TestProp(t *testing.T) {
	r := setup(t)
	defer r.Finish()
	r.ReplayCommitted()

	// E1
	strs := enumStrings([]string{"a", "\\", "<", "%", ">", "=", "#", "\""}, r.Pick(4, 6))
	tails := []string{"", "b", "\\", "<", "%>", "\\<", "<%= 1 %>"}
	blockFrames := []int{4, 5, 6, 7, 8, 9, 10, 11, 12}
	slots := int64(3 + len(blockFrames) + len(tails))
	nvar := int64(len(tagVariants))
	total := int64(len(strs)) * slots * nvar
	r.Subspace(fmt.Sprintf("literal text: %d strings over {a \\ < %% > = # \"} x frames {s, s+TAG, TAG+s, 9 block frames, s+TAG+s2 for 7 tails} x 4 kinds of TAG (the other three for length <= 5)", len(strs)), total, true)
	r.Parallel(total, 0, func(i int64) {
		per := int64(len(strs)) * slots
		tv := int(i / per) // the kind of tag is the slowest index: shards (i mod n) then share every kind evenly
		f := int(i % slots)
		s := strs[(i%per)/slots]
		if tv > 0 && (f == 0 || len(s) > r.Pick(3, 5)) {
			return
		}
		switch {
		case f < 3:
			r.Check(checkText(r, TextCase{S: vk.Text(s), Frame: f, Tag: tv}))
		case f < 3+len(blockFrames):
			r.Check(checkText(r, TextCase{S: vk.Text(s), Frame: blockFrames[f-3], Tag: tv}))
		default:
			r.Check(checkText(r, TextCase{S: vk.Text(s), S2: vk.Text(tails[f-3-len(blockFrames)]), Frame: 3, Tag: tv}))
		}
	})
	// E2
	vals := enumStrings([]string{"a", "\\", "\"", "`", "%", ">", "<", "#", "\n"}, r.Pick(4, 5))
	total = int64(len(vals)) * 2 * int64(len(strPlaces))
	r.Subspace(fmt.Sprintf("string literals: %d values over {a \\ \" ` %% > < # newline} x {double, back} quotes x %d places", len(vals), len(strPlaces)), total, true)
	r.Parallel(total, 0, func(i int64) {
		pl := int(i % int64(len(strPlaces)))
		q := []string{"\"", "`"}[(i/int64(len(strPlaces)))%2]
		v := vals[i/int64(len(strPlaces))/2]
		if pl > 0 && len(v) > 3 && !r.Thorough() {
			return
		}
		r.Check(checkStr(r, StrCase{V: vk.Text(v), Quote: q, Place: pl}))
	})
	// E3
	pvals := enumStrings([]string{"a", "\\", "\"", "`", "%>", "<%", "\n", "#"}, 2)
	np := int64(len(pvals))
	total = np * np * 4 * int64(len(pairShapes))
	r.Subspace(fmt.Sprintf("pairs of string literals: %d x %d values over {a \\ \" ` %%> <%% newline #} x 4 quote combinations x 3 shapes", np, np), total, true)
	r.Parallel(total, 0, func(i int64) {
		sh := int(i % 3)
		q := int((i / 3) % 4)
		j := i / 12
		qs := []string{"\"", "`"}
		r.Check(checkPair(r, PairCase{V1: vk.Text(pvals[j/np]), Q1: qs[q/2], V2: vk.Text(pvals[j%np]), Q2: qs[q%2], Shape: sh}))
	})
	// E4
	bodies := enumStrings([]string{"a", " ", "%", ">", "<", "#", "\"", "`", "\\", "=", "\n", "-"}, r.Pick(3, 4))
	total = int64(len(bodies)) * int64(len(commentFrames))
	r.Subspace(fmt.Sprintf("comment tags: %d bodies over {a blank %% > < # \" ` \\ = newline -} x %d frames", len(bodies), len(commentFrames)), total, true)
	r.Parallel(total, 0, func(i int64) {
		r.Check(checkComment(r, CommentCase{B: vk.Text(bodies[i/int64(len(commentFrames))]), Frame: int(i % int64(len(commentFrames)))}))
	})
	// E5
	at := atoms()
	na, nc := int64(len(at)), int64(len(contexts))
	total = na * na * nc * int64(len(pads))
	r.Subspace(fmt.Sprintf("neighbourhoods: every ordered pair of %d representative segments x %d surroundings x %d spellings of the blanks in tags", na, nc, len(pads)), total, true)
	r.Parallel(total, 0, func(i int64) {
		pad := int(i % int64(len(pads)))
		j := i / int64(len(pads))
		ctx := contexts[j%nc]
		j /= nc
		segs := cloneSegs([]Seg{at[j/na], at[j%na]})
		r.Check(checkSegs(r, SegCase{Segs: inContext(ctx, segs), Pad: pad}))
	})
	tripleCtx := contexts
	if !r.Thorough() {
		tripleCtx = []string{"top"}
	}
	ntc := int64(len(tripleCtx))
	total = na * na * na * ntc
	r.Subspace(fmt.Sprintf("neighbourhoods: every ordered triple of %d representative segments x %d surroundings", na, ntc), total, true)
	r.Parallel(total, 0, func(i int64) {
		ctx := tripleCtx[i%ntc]
		j := i / ntc
		segs := cloneSegs([]Seg{at[j/(na*na)], at[(j/na)%na], at[j%na]})
		r.Check(checkSegs(r, SegCase{Segs: inContext(ctx, segs), Pad: int(j % int64(len(pads)))}))
	})
	// E6
	depths := []int{0, 1, 2, 3, 10, 100, 500, 998, 999, 1000, 1001, 1500}
	if r.Thorough() {
		depths = append(depths, 997, 1002, 2000, 5000)
	}
	var deep []DeepCase
	for _, k := range deepKinds {
		for _, n := range depths {
			if (k == "fn" || k == "blk") && n > 400 {
				n = n % 401 // calls nested deeper than 1000 are a documented error
			}
			deep = append(deep, DeepCase{Kind: k, N: n})
		}
	}
	for _, k := range wideKinds {
		for _, n := range []int{0, 1, 2, 1000, r.Pick(20000, 200000)} {
			if strings.HasPrefix(k, "long") {
				n *= 50
			}
			deep = append(deep, DeepCase{Kind: k, N: n})
		}
	}
	r.Subspace(fmt.Sprintf("depth and width: %d kinds of nesting x %d depths, %d kinds of repetition x 5 lengths", len(deepKinds), len(depths), len(wideKinds)), int64(len(deep)), true)
	r.Parallel(int64(len(deep)), 0, func(i int64) { r.Check(checkDeep(r, deep[i])) })
	// R
	r.Rapid("raw text", r.Pick(4000, 30000), func(t *rapid.T) *vk.Fail {
		return checkRaw(r, RawCase{S: vk.Text(genRaw(t)), Wrap: rapid.SampledFrom([]string{"", "", "if", "for", "elseif", "else", "fn", "blk", "silent"}).Draw(t, "wrap")})
	})
	r.Rapid("segments", r.Pick(8000, 40000), func(t *rapid.T) *vk.Fail {
		return checkSegs(r, SegCase{Segs: genSegs(t, 3), Pad: rapid.SampledFrom([]int{0, 0, 0, 1, 2, 3, 4}).Draw(t, "pad")})
	})
	_ = model.QuoteString
}

// FuzzText: native coverage-guided fuzzing of literal text around one tag
// against the reference scanner (thorough tier only).
func FuzzText(f *testing.F) {
	for _, s := range []string{"a", "\\", "\\\\", "a\\<", "\\<%", "<", "%>", "a\\\\", "é\xff", "<%"} {
		f.Add([]byte(s))
	}
	f.Fuzz(func(t *testing.T, b []byte) {
		if len(b) > 256 {
			b = b[:256]
		}
		s := strings.ReplaceAll(string(b), "\x00", "")
		inner := s + tag
		want, status := refScan(inner)
		if status != "ok" {
			t.Skip()
		}
		res := vk.Safe(func() (string, error) { return plush.Render(inner, plush.NewContext()) })
		if res.Panicked() || res.Err != nil || res.Out != want {
			t.Fatalf("template %q gave %s, the statement says %q", inner, res, want)
		}
	})
}
