// C02 — output = literal text verbatim + values of <%= %> tags, in source order.
package c02

import (
	"encoding/json"
	"fmt"
	"html/template"
	"strings"
	"testing"

	"verif/internal/gen"
	"verif/internal/match"
	"verif/internal/model"
	"verif/internal/vk"

	plush "github.com/gobuffalo/plush/v5"
	"pgregory.net/rapid"
)

func TestMain(m *testing.M) { vk.Main(m) }

// ---- (1) reference text scanner ----------------------------------------------------------

const tag = "<%= 1 %>"

// refScan reads a template made of literal text and occurrences of the fixed
// tag <%= 1 %> exactly as the statement describes: \<% is a literal <%, \\<% is
// one backslash followed by a live tag, every other byte is copied. status:
// "ok", "live" (a live opener that is not the fixed tag: not literal text) or
// "ambiguous" (three or more backslashes before <%: the statement does not say).
func refScan(src string) (out string, status string) {
	var sb strings.Builder
	i := 0
	for i < len(src) {
		switch {
		case strings.HasPrefix(src[i:], "<%"):
			if !strings.HasPrefix(src[i:], tag) {
				return "", "live"
			}
			sb.WriteString("1")
			i += len(tag)
		case src[i] == '\\':
			n := 0
			for i+n < len(src) && src[i+n] == '\\' {
				n++
			}
			if strings.HasPrefix(src[i+n:], "<%") {
				switch n {
				case 1:
					sb.WriteString("<%")
					i += 3
				case 2:
					sb.WriteString("\\")
					i += 2 // the opener is live: handled by the next iteration
				default:
					return "", "ambiguous"
				}
			} else {
				sb.WriteString(src[i : i+n])
				i += n
			}
		default:
			sb.WriteByte(src[i])
			i++
		}
	}
	return sb.String(), "ok"
}

type TextCase struct {
	S     vk.Text `json:"s"`
	S2    vk.Text `json:"s2,omitempty"`
	Frame int     `json:"frame"`
}

var frameNames = []string{"s", "s+TAG", "TAG+s", "s+TAG+s2", "IF{s+TAG}", "FOR2{s+TAG}"}

func (c TextCase) source() (src string, wrap string) {
	s, s2 := string(c.S), string(c.S2)
	switch c.Frame {
	case 0:
		return s, ""
	case 1:
		return s + tag, ""
	case 2:
		return tag + s, ""
	case 3:
		return s + tag + s2, ""
	case 4:
		return s + tag, "if"
	default:
		return s + tag, "for"
	}
}

func checkText(r *vk.Run, c TextCase) *vk.Fail {
	defer r.Watch("text", c)()
	inner, wrap := c.source()
	want, status := refScan(inner)
	if status != "ok" {
		r.Exclude("not-literal-text:" + status)
		return nil
	}
	src := inner
	switch wrap {
	case "if":
		src = "<%= if (true) { %>" + inner + "<% } %>"
	case "for":
		src = "<%= for (i) in two { %>" + inner + "<% } %>"
		want = want + want
	}
	res := vk.Safe(func() (string, error) {
		return plush.Render(src, plush.NewContextWith(map[string]interface{}{"two": []int{1, 2}}))
	})
	nt := ""
	if strings.ContainsAny(inner, "\\<%") {
		nt = fmt.Sprintf("%d|%s", c.Frame, inner)
	}
	r.Count(nt, "text/"+frameNames[c.Frame])
	if nt != "" {
		r.Sample(func() interface{} { return map[string]interface{}{"template": vk.Text(src), "expected": vk.Text(want)} })
	}
	if res.Panicked() || res.Err != nil || res.Out != want {
		return &vk.Fail{Kind: "text", Case: c, Msg: fmt.Sprintf("template %q gave %s, the statement says %q", src, res, want)}
	}
	return nil
}

// ---- (2) string literals -------------------------------------------------------------------

type StrCase struct {
	V     vk.Text `json:"v"`
	Quote string  `json:"quote"` // `"` or "`"
	Place int     `json:"place"`
}

var strPlaces = []struct{ name, pre, post string }{
	{"top", "[", "]"},
	{"in if", "<%= if (true) { %>[", "]<% } %>"},
	{"as argument", "[", "]"}, // <%= id(LIT) %>
	{"let then emit", "[", "]"},
}

func spell(v, quote string) (string, bool) {
	if quote == "`" {
		if strings.Contains(v, "`") {
			return "", false
		}
		return "`" + v + "`", true
	}
	if strings.HasSuffix(v, "\\") || strings.Contains(v, "\\\"") {
		return "", false
	}
	return "\"" + strings.ReplaceAll(v, "\"", "\\\"") + "\"", true
}

func checkStr(r *vk.Run, c StrCase) *vk.Fail {
	defer r.Watch("strlit", c)()
	v := string(c.V)
	lit, ok := spell(v, c.Quote)
	if !ok || strings.ContainsRune(v, 0) {
		r.Exclude("string-not-expressible")
		return nil
	}
	pl := strPlaces[c.Place]
	var src string
	switch pl.name {
	case "as argument":
		src = pl.pre + "<%= id(" + lit + ") %>" + pl.post
	case "let then emit":
		src = "<% let z = " + lit + " %>" + pl.pre + "<%= z %>" + pl.post
	default:
		src = pl.pre + "<%= " + lit + " %>" + pl.post
	}
	res := vk.Safe(func() (string, error) {
		return plush.Render(src, plush.NewContextWith(map[string]interface{}{"id": func(x interface{}) interface{} { return x }}))
	})
	nt := ""
	if strings.ContainsAny(v, "\"`%<>#\\\n") {
		nt = c.Quote + "|" + v + "|" + pl.name
	}
	r.Count(nt, "string-literal/"+map[string]string{"\"": "double", "`": "back"}[c.Quote])
	if nt != "" {
		r.Sample(func() interface{} { return map[string]interface{}{"template": vk.Text(src), "denotes": vk.Text(v)} })
	}
	if res.Panicked() || res.Err != nil {
		return &vk.Fail{Kind: "strlit", Case: c, Msg: fmt.Sprintf("template %q (string denoting %q): %s", src, v, res)}
	}
	if m := match.Match([]match.Part{match.L("["), match.E(v), match.L("]")}, res.Out); m != "" {
		return &vk.Fail{Kind: "strlit", Case: c, Msg: fmt.Sprintf("template %q: the string denotes %q, output %q: %s", src, v, res.Out, m)}
	}
	return nil
}

// ---- (3) segment sequences -------------------------------------------------------------------

type Seg struct {
	K    string  `json:"k"`
	S    vk.Text `json:"s,omitempty"`
	N    int     `json:"n,omitempty"`
	Body []Seg   `json:"body,omitempty"`
}

type SegCase struct {
	Segs []Seg `json:"segs"`
}

var silentSrcs = []string{
	`1 + 2`, `"str<b>"`, `raw("<i>x</i>")`, `hv`, `sv`, `id("z")`, `id(hv)`, `[1, 2]`, `{a: 1}`, `true`, `nil`, `1.5`, `sv + "!"`, `!sv`, `len(sv)`,
	`let q = 5`, `let q = raw("<u>")`, "`back\nquoted %> <% `", `"%>"`, `uf()`, `two[0]`,
}

type builder struct {
	src   strings.Builder
	parts []match.Part
	data  map[string]interface{}
	nvar  int
	nfn   int
	err   string
}

func (b *builder) lit(s string) { b.parts = append(b.parts, match.L(s)) }

func (b *builder) emit(segs []Seg, depth int) {
	for _, s := range segs {
		switch s.K {
		case "text":
			t := string(s.S)
			if strings.Contains(t, "<%") || strings.ContainsRune(t, 0) {
				b.err = "text segment contains a tag opener or NUL"
				return
			}
			if strings.HasSuffix(b.src.String(), "<") && strings.HasPrefix(t, "%") {
				t = " " + t // two adjacent text segments must not spell a tag opener
			}
			if strings.HasSuffix(t, "\\") {
				t += "." // a trailing backslash would change the meaning of a tag that follows (covered by E1)
			}
			b.src.WriteString(t)
			b.lit(t)
		case "esc-tag": // \<%= 1 %> is literal text
			b.src.WriteString("\\<%= 1 %>")
			b.lit("<%= 1 %>")
		case "bs-tag": // \\<%= 2 %> is one backslash and a live tag
			b.src.WriteString("\\\\<%= 2 %>")
			b.lit("\\2")
		case "emit-int":
			fmt.Fprintf(&b.src, "<%%= %d %%>", s.N)
			b.lit(fmt.Sprint(s.N))
		case "emit-var":
			b.nvar++
			name := fmt.Sprintf("pv%d", b.nvar)
			b.data[name] = string(s.S)
			if string(s.S) == "" {
				b.data[name] = "x" // an empty string variable counts as unset
				s.S = "x"
			}
			b.src.WriteString("<%= " + name + " %>")
			b.parts = append(b.parts, match.E(string(s.S)))
		case "emit-html":
			b.nvar++
			name := fmt.Sprintf("ph%d", b.nvar)
			v := string(s.S)
			if v == "" {
				v = "<hr>"
			}
			b.data[name] = template.HTML(v)
			b.src.WriteString("<%= " + name + " %>")
			b.parts = append(b.parts, match.R(v))
		case "emit-str":
			q := "\""
			if s.N == 1 {
				q = "`"
			}
			lit, ok := spell(string(s.S), q)
			if !ok {
				lit, ok = spell(string(s.S), "`")
			}
			if !ok || strings.ContainsRune(string(s.S), 0) {
				b.err = "string literal not expressible"
				return
			}
			b.src.WriteString("<%= " + lit + " %>")
			b.parts = append(b.parts, match.E(string(s.S)))
		case "silent":
			b.src.WriteString("<% " + silentSrcs[s.N%len(silentSrcs)] + " %>")
		case "silent-if":
			b.src.WriteString("<% if (sv) { %>hidden text<%= sv %><% } %>")
		case "silent-for":
			b.src.WriteString("<% for (x) in two { %>hidden<%= x %><% } %>")
		case "assign":
			b.src.WriteString("<% let w = 1 %><% w = 2 %>")
		case "comment":
			c := string(s.S)
			if strings.Contains(c, "%>") || strings.ContainsRune(c, 0) {
				b.err = "comment body contains %>"
				return
			}
			b.src.WriteString("<%#" + c + "%>")
		case "if":
			if depth <= 0 {
				continue
			}
			b.src.WriteString("<%= if (true) { %>")
			b.emit(s.Body, depth-1)
			b.src.WriteString("<% } %>")
		case "else":
			if depth <= 0 {
				continue
			}
			b.src.WriteString("<%= if (false) { %>never<% } else { %>")
			b.emit(s.Body, depth-1)
			b.src.WriteString("<% } %>")
		case "for":
			if depth <= 0 {
				continue
			}
			n := s.N%3 + 1
			fmt.Fprintf(&b.src, "<%%= for (it) in arr%d { %%>", n)
			start := len(b.parts)
			b.emit(s.Body, depth-1)
			once := append([]match.Part(nil), b.parts[start:]...)
			for k := 1; k < n; k++ {
				b.parts = append(b.parts, once...)
			}
			b.src.WriteString("<% } %>")
		case "fn":
			if depth <= 0 {
				continue
			}
			b.nfn++
			name := fmt.Sprintf("fun%d", b.nfn)
			b.src.WriteString("<% let " + name + " = fn() { %>")
			start := len(b.parts)
			b.emit(s.Body, depth-1)
			body := append([]match.Part(nil), b.parts[start:]...)
			b.parts = b.parts[:start] // the definition itself emits nothing
			b.src.WriteString("<% } %><%= " + name + "() %>")
			b.parts = append(b.parts, body...)
		case "blk":
			if depth <= 0 {
				continue
			}
			b.src.WriteString("<%= blk() { %>")
			b.emit(s.Body, depth-1)
			b.src.WriteString("<% } %>")
		default:
			b.err = "unknown segment kind " + s.K
			return
		}
		if b.err != "" {
			return
		}
	}
}

func baseData() map[string]interface{} {
	return map[string]interface{}{
		"hv": template.HTML("<em>H</em>"), "sv": "s<v>", "two": []int{1, 2},
		"arr1": []int{1}, "arr2": []int{1, 2}, "arr3": []int{1, 2, 3},
		"id":  func(x interface{}) interface{} { return x },
		"blk": func(h plush.HelperContext) (template.HTML, error) { s, err := h.Block(); return template.HTML(s), err },
		"uf":  func() template.HTML { return "<uf>" },
	}
}

func checkSegs(r *vk.Run, c SegCase) *vk.Fail {
	defer r.Watch("segs", c)()
	b := &builder{data: baseData()}
	b.emit(c.Segs, 3)
	if b.err != "" {
		r.Exclude("inexpressible")
		return nil
	}
	src := b.src.String()
	res := vk.Safe(func() (string, error) { return plush.Render(src, plush.NewContextWith(b.data)) })
	nested := strings.Contains(src, "{ %>")
	nt := ""
	if strings.Contains(src, "<% ") && nested || strings.Contains(src, "\\") || strings.Contains(src, "<%#") || strings.ContainsAny(src, "`\n") {
		nt = src
	}
	cls := "segments/flat"
	if nested {
		cls = "segments/nested"
	}
	r.Count(nt, cls)
	if nt != "" {
		r.Sample(func() interface{} {
			return map[string]interface{}{"template": vk.Text(src), "expected": match.Describe(b.parts)}
		})
	}
	if res.Panicked() || res.Err != nil {
		return &vk.Fail{Kind: "segs", Case: c, Msg: fmt.Sprintf("template %q: %s", src, res)}
	}
	if m := match.Match(b.parts, res.Out); m != "" {
		return &vk.Fail{Kind: "segs", Case: c, Msg: fmt.Sprintf("template %q rendered %q; expected %s: %s", src, res.Out, match.Describe(b.parts), m)}
	}
	return nil
}

// text fragments for generated literal segments (never containing "<%")
var textFrags = []string{
	"a", "b c", "<", ">", "%", "%>", "< %", "=", "#", "\"", "'", "`", "{", "}", "(", ")", "\\", "\\<", "\\\\", "\\%", "<\\%", "\n", "\r\n", "\t", " ",
	"é", "漢", "\xff", "<b>", "</b>", "&amp;", "&", "<!-- c -->", "if (x) {", "%}", "{{x}}", "$", "@", "return", "<?php", "<script>", "-->",
}

func genText(t *rapid.T) string {
	n := rapid.IntRange(0, 6).Draw(t, "tn")
	var sb strings.Builder
	for i := 0; i < n; i++ {
		sb.WriteString(rapid.SampledFrom(textFrags).Draw(t, "tf"))
	}
	return strings.ReplaceAll(sb.String(), "<%", "< %")
}

func genSegs(t *rapid.T, depth int) []Seg {
	n := rapid.IntRange(1, 6).Draw(t, "nseg")
	var out []Seg
	for i := 0; i < n; i++ {
		k := rapid.IntRange(0, 17).Draw(t, "seg")
		switch {
		case k <= 2:
			out = append(out, Seg{K: "text", S: vk.Text(genText(t))})
		case k == 3:
			out = append(out, Seg{K: rapid.SampledFrom([]string{"esc-tag", "bs-tag"}).Draw(t, "esc")})
		case k == 4:
			out = append(out, Seg{K: "emit-int", N: rapid.IntRange(0, 99).Draw(t, "n")})
		case k == 5:
			out = append(out, Seg{K: "emit-var", S: vk.Text(gen.Payload(t, "pv"))})
		case k == 6:
			out = append(out, Seg{K: "emit-html", S: vk.Text(gen.Payload(t, "ph"))})
		case k == 7 || k == 8:
			out = append(out, Seg{K: "emit-str", S: vk.Text(strings.ReplaceAll(gen.Payload(t, "sl"), "\x00", "0")), N: rapid.IntRange(0, 1).Draw(t, "q")})
		case k == 9 || k == 10:
			out = append(out, Seg{K: "silent", N: rapid.IntRange(0, len(silentSrcs)-1).Draw(t, "sn")})
		case k == 11:
			out = append(out, Seg{K: rapid.SampledFrom([]string{"silent-if", "silent-for", "assign"}).Draw(t, "sk")})
		case k == 12:
			c := strings.ReplaceAll(strings.ReplaceAll(gen.Payload(t, "cm"), "%>", "% >"), "\x00", "0")
			out = append(out, Seg{K: "comment", S: vk.Text(c)})
		default:
			if depth > 0 {
				out = append(out, Seg{K: rapid.SampledFrom([]string{"if", "else", "for", "fn", "blk"}).Draw(t, "nest"), N: rapid.IntRange(0, 2).Draw(t, "reps"), Body: genSegs(t, depth-1)})
			} else {
				out = append(out, Seg{K: "text", S: vk.Text(genText(t))})
			}
		}
	}
	return out
}

// ---- the test -----------------------------------------------------------------------------------

const rule = "(E1) every string of length <= L (quick 4, thorough 6) over {a \\ < % > = # \"} that an independent reference scanner (written from the two escape rules of the statement) classifies as literal text, alone and in the frames s+TAG, TAG+s, s+TAG+s2, IF{s+TAG}, FOR2{s+TAG}; strings with a live opener or with >=3 backslashes before <% are outside the statement and counted under excluded. (E2) every string VALUE of length <= 5 (quick 4) over {a \\ \" ` % > < # newline} spelled as a double-quoted and as a back-quoted literal where expressible, at 4 places; the output must decode to exactly that value. (R) random segment sequences: literal text over an alphabet with <, %, >, \\, =, #, quotes, braces, newlines, multi-byte and invalid bytes; \\<%..%> and \\\\<%..%> forms; output tags of ints, string variables, trusted HTML, string literals of arbitrary contents; 21 kinds of silent tags (expressions of every value type incl. HTML-typed, let, assignment, helper calls, silent if / for with text bodies); comment tags with arbitrary contents; at top level and nested in <%= if %>, else, <%= for %> x n, function bodies and block helpers to depth 3. Oracle: the expected part list built alongside (literal / escaped payload / verbatim payload) checked with the entity-decoding matcher. (F, thorough) native fuzzing of the text scanner against the reference scanner. Non-trivial = text with \\, < or %, a string literal with a delimiter/quote/newline, a silent tag inside a block, a comment, or a multi-line construct; distinct by template."

func setup(t *testing.T) *vk.Run {
	r := vk.Start(t, "C02", rule,
		"NUL bytes are excluded (the statement says NUL-free); three or more backslashes before <% are ambiguous under the statement",
		"text segments of the random phase never contain '<%' and never end in a backslash directly before a tag (those shapes are covered exhaustively by E1)")
	r.Replayer("text", func(raw json.RawMessage) *vk.Fail {
		var c TextCase
		if f := vk.Decode(raw, &c); f != nil {
			return f
		}
		if c.Frame < 0 || c.Frame >= len(frameNames) {
			return &vk.Fail{Kind: "decode", Msg: "bad frame"}
		}
		return checkText(r, c)
	})
	r.Replayer("strlit", func(raw json.RawMessage) *vk.Fail {
		var c StrCase
		if f := vk.Decode(raw, &c); f != nil {
			return f
		}
		if c.Place < 0 || c.Place >= len(strPlaces) || (c.Quote != "\"" && c.Quote != "`") {
			return &vk.Fail{Kind: "decode", Msg: "bad case"}
		}
		return checkStr(r, c)
	})
	r.Replayer("segs", func(raw json.RawMessage) *vk.Fail {
		var c SegCase
		if f := vk.Decode(raw, &c); f != nil {
			return f
		}
		return checkSegs(r, c)
	})
	r.Replayer("gofuzz", func(raw json.RawMessage) *vk.Fail {
		var c struct {
			CorpusFile string `json:"corpus_file"`
		}
		if f := vk.Decode(raw, &c); f != nil {
			return f
		}
		for _, l := range strings.Split(c.CorpusFile, "\n") {
			l = strings.TrimSpace(l)
			if strings.HasPrefix(l, "[]byte(") && strings.HasSuffix(l, ")") {
				var s string
				if _, err := fmt.Sscanf(l[len("[]byte("):len(l)-1], "%q", &s); err == nil {
					return checkText(r, TextCase{S: vk.Text(strings.ReplaceAll(s, "\x00", "")), Frame: 1})
				}
			}
		}
		return &vk.Fail{Kind: "decode", Msg: "no value in fuzz corpus file"}
	})
	return r
}

func TestReplay(t *testing.T) { setup(t).ReplayEnv() }

func enumStrings(alpha []string, maxLen int) []string {
	out := []string{""}
	prev := []string{""}
	for l := 1; l <= maxLen; l++ {
		var cur []string
		for _, p := range prev {
			for _, a := range alpha {
				cur = append(cur, p+a)
			}
		}
		out = append(out, cur...)
		prev = cur
	}
	return out
}

func TestProp(t *testing.T) {
	r := setup(t)
	defer r.Finish()
	r.ReplayCommitted()

	// E1
	strs := enumStrings([]string{"a", "\\", "<", "%", ">", "=", "#", "\""}, r.Pick(4, 6))
	tails := []string{"", "b", "\\", "<", "%>", "\\<", "<%= 1 %>"}
	total := int64(len(strs)) * int64(5+len(tails))
	r.Subspace(fmt.Sprintf("literal text: %d strings over {a \\ < %% > = # \"} x frames {s, s+TAG, TAG+s, IF, FOR2, s+TAG+s2 for 7 tails}", len(strs)), total, true)
	r.Parallel(total, 0, func(i int64) {
		s := strs[i/int64(5+len(tails))]
		f := int(i % int64(5+len(tails)))
		switch {
		case f < 3:
			r.Check(checkText(r, TextCase{S: vk.Text(s), Frame: f}))
		case f == 3:
			r.Check(checkText(r, TextCase{S: vk.Text(s), Frame: 4}))
		case f == 4:
			r.Check(checkText(r, TextCase{S: vk.Text(s), Frame: 5}))
		default:
			r.Check(checkText(r, TextCase{S: vk.Text(s), S2: vk.Text(tails[f-5]), Frame: 3}))
		}
	})
	// E2
	vals := enumStrings([]string{"a", "\\", "\"", "`", "%", ">", "<", "#", "\n"}, r.Pick(4, 5))
	total = int64(len(vals)) * 2 * int64(len(strPlaces))
	r.Subspace(fmt.Sprintf("string literals: %d values over {a \\ \" ` %% > < # newline} x {double, back} quotes x 4 places", len(vals)), total, true)
	r.Parallel(total, 0, func(i int64) {
		pl := int(i % int64(len(strPlaces)))
		q := []string{"\"", "`"}[(i/int64(len(strPlaces)))%2]
		v := vals[i/int64(len(strPlaces))/2]
		if pl > 0 && len(v) > 3 && !r.Thorough() {
			return
		}
		r.Check(checkStr(r, StrCase{V: vk.Text(v), Quote: q, Place: pl}))
	})
	// R
	r.Rapid("segments", r.Pick(6000, 80000), func(t *rapid.T) *vk.Fail {
		return checkSegs(r, SegCase{Segs: genSegs(t, 3)})
	})
	_ = model.QuoteString
}

// FuzzText: native coverage-guided fuzzing of literal text around one tag
// against the reference scanner (thorough tier only).
func FuzzText(f *testing.F) {
	for _, s := range []string{"a", "\\", "\\\\", "a\\<", "\\<%", "<", "%>", "a\\\\", "é\xff", "<%"} {
		f.Add([]byte(s))
	}
	f.Fuzz(func(t *testing.T, b []byte) {
		if len(b) > 256 {
			b = b[:256]
		}
		s := strings.ReplaceAll(string(b), "\x00", "")
		inner := s + tag
		want, status := refScan(inner)
		if status != "ok" {
			t.Skip()
		}
		res := vk.Safe(func() (string, error) { return plush.Render(inner, plush.NewContext()) })
		if res.Panicked() || res.Err != nil || res.Out != want {
			t.Fatalf("template %q gave %s, the statement says %q", inner, res, want)
		}
	})
}
