// C19 — iterator and collection helpers produce exact sequences and partitions.
package c19

import (
	"encoding/json"
	"fmt"
	"math"
	"math/big"
	"reflect"
	"regexp"
	"strings"
	"testing"

	"verif/internal/vk"

	plush "github.com/gobuffalo/plush/v5"
	"github.com/gobuffalo/plush/v5/helpers/iterators"
	"github.com/gobuffalo/plush/v5/helpers/meta"
	"pgregory.net/rapid"
)

func TestMain(m *testing.M) { vk.Main(m) }

// ---- range / between / until -------------------------------------------------

type IterCase struct {
	Fn string `json:"fn"` // range | between | until
	A  int    `json:"a"`
	B  int    `json:"b"` // unused for until
}

func (c IterCase) String() string {
	if c.Fn == "until" {
		return fmt.Sprintf("until(%d)", c.A)
	}
	return fmt.Sprintf("%s(%d, %d)", c.Fn, c.A, c.B)
}

const steps = 64

func interval(c IterCase) (lo, hi *big.Int) {
	a, b := big.NewInt(int64(c.A)), big.NewInt(int64(c.B))
	one := big.NewInt(1)
	switch c.Fn {
	case "range":
		return a, b
	case "between":
		return new(big.Int).Add(a, one), new(big.Int).Sub(b, one)
	default:
		return big.NewInt(0), new(big.Int).Sub(a, one)
	}
}

func checkIter(r *vk.Run, c IterCase) *vk.Fail {
	defer r.Watch("iter", c)()
	fail := func(f string, a ...interface{}) *vk.Fail {
		return &vk.Fail{Kind: "iter", Case: c, Msg: c.String() + ": " + fmt.Sprintf(f, a...)}
	}
	lo, hi := interval(c)
	var it iterators.Iterator
	res := vk.Safe(func() (string, error) {
		switch c.Fn {
		case "range":
			it = iterators.Range(c.A, c.B)
		case "between":
			it = iterators.Between(c.A, c.B)
		default:
			it = iterators.Until(c.A)
		}
		return "", nil
	})
	if res.Panicked() {
		return fail("%s", res)
	}
	cur := new(big.Int).Set(lo)
	exhausted := false
	var msg string
	res = vk.Safe(func() (string, error) {
		for i := 0; i < steps; i++ {
			got := it.Next()
			if cur.Cmp(hi) > 0 { // model exhausted
				if got != nil {
					msg = fmt.Sprintf("step %d: expected exhaustion (interval [%v, %v]), got %v", i, lo, hi, got)
					return "", nil
				}
				exhausted = true
				for k := 0; k < 3; k++ {
					if again := it.Next(); again != nil {
						msg = fmt.Sprintf("yields %v after having been exhausted", again)
						return "", nil
					}
				}
				return "", nil
			}
			gi, ok := got.(int)
			if !ok || big.NewInt(int64(gi)).Cmp(cur) != 0 {
				msg = fmt.Sprintf("step %d: expected %v (interval [%v, %v]), got %v", i, cur, lo, hi, got)
				return "", nil
			}
			cur.Add(cur, big.NewInt(1))
		}
		return "", nil
	})
	if res.Panicked() {
		return fail("%s", res)
	}
	if msg != "" {
		return fail("%s", msg)
	}
	ext := c.A == math.MinInt || c.A == math.MaxInt || c.A == math.MinInt+1 || c.A == math.MaxInt-1 ||
		c.B == math.MinInt || c.B == math.MaxInt || c.B == math.MinInt+1 || c.B == math.MaxInt-1
	nt := ""
	if lo.Cmp(hi) > 0 || ext || lo.Sign() < 0 {
		nt = c.String()
	}
	cls := c.Fn
	if ext {
		cls += "/extreme"
	}
	r.Count(nt, cls)
	if nt != "" {
		r.Sample(func() interface{} {
			return map[string]interface{}{"call": c.String(), "interval": fmt.Sprintf("[%v, %v]", lo, hi)}
		})
	}
	// through a template for loop, when the direct walk showed it ends
	if exhausted {
		var want strings.Builder
		n := 0
		for x := new(big.Int).Set(lo); x.Cmp(hi) <= 0; x.Add(x, big.NewInt(1)) {
			fmt.Fprintf(&want, "%d:%v,", n, x)
			n++
		}
		src := `<%= for (k, i) in ` + c.Fn + `(a, b) { %><%= k %>:<%= i %>,<% } %>`
		if c.Fn == "until" {
			src = `<%= for (k, i) in until(a) { %><%= k %>:<%= i %>,<% } %>`
		}
		ctx := plush.NewContextWith(map[string]interface{}{"a": c.A, "b": c.B})
		tr := vk.Safe(func() (string, error) { return plush.Render(src, ctx) })
		r.Evals(1)
		if tr.Panicked() || tr.Err != nil || tr.Out != want.String() {
			return fail("template loop %q gave %s, want %q", src, tr, want.String())
		}
		// the one-variable loop form, and (arguments >= 0: a template has no negative literals) the
		// arguments spelled as number literals in the source, glued and spaced
		var wantV strings.Builder
		for x := new(big.Int).Set(lo); x.Cmp(hi) <= 0; x.Add(x, big.NewInt(1)) {
			fmt.Fprintf(&wantV, "%v,", x)
		}
		call := c.Fn + `(a, b)`
		if c.Fn == "until" {
			call = `until(a)`
		}
		const loopR = `<%= for (i) in r { %><%= i %>,<% } %>`
		srcs := []string{`<%= for (i) in ` + call + ` { %><%= i %>,<% } %>`,
			// the iterator reaches the loop through a variable, and as the result of a function of the template
			`<% let r = ` + call + ` %>` + loopR,
			`<% let f = fn(a, b) { return ` + call + ` } %><% let r = f(a, b) %>` + loopR,
			`<% let f = fn(p, q) { let a = p` + "\n" + `let b = q` + "\n" + `return ` + call + ` } %><%= for (i) in f(a, b) { %><%= i %>,<% } %>`}
		nCtx := len(srcs) // the sources below spell the arguments as literals
		if c.A >= 0 && (c.B >= 0 || c.Fn == "until") {
			lit, lit2 := fmt.Sprintf("%s(%d,%d)", c.Fn, c.A, c.B), fmt.Sprintf("%s( %d , %d )", c.Fn, c.A, c.B)
			if c.Fn == "until" {
				lit, lit2 = fmt.Sprintf("until(%d)", c.A), fmt.Sprintf("until( %d )", c.A)
			}
			srcs = append(srcs, `<%= for (i) in `+lit+` { %><%= i %>,<% } %>`, `<%= for (i) in `+lit2+` { %><%= i %>,<% } %>`)
		}
		for _, s2 := range srcs {
			ctx := plush.NewContextWith(map[string]interface{}{"a": c.A, "b": c.B})
			tr := vk.Safe(func() (string, error) { return plush.Render(s2, ctx) })
			r.Evals(1)
			if tr.Panicked() || tr.Err != nil || tr.Out != wantV.String() {
				return fail("template loop %q gave %s, want %q", s2, tr, wantV.String())
			}
		}
		// one parsed template executed several times, with the arguments moved by one in between
		// (parse once, execute per request: nothing of one execution may reach the next)
		for si, s2 := range srcs {
			if si != 0 && si != 2 && si != nCtx {
				continue
			}
			var tpl *plush.Template
			pr := vk.Safe(func() (string, error) {
				var err error
				tpl, err = plush.Parse(s2)
				return "", err
			})
			if pr.Panicked() || pr.Err != nil {
				return fail("Parse(%q): %s", s2, pr)
			}
			for round, d := range []int{0, 1, 0} {
				if d != 0 && (si >= nCtx || c.A == math.MaxInt || (c.Fn != "until" && c.B == math.MaxInt)) {
					continue // literals do not move; no room to move
				}
				sh := IterCase{Fn: c.Fn, A: c.A + d, B: c.B + d}
				w := loopText(sh, func(x *big.Int) string { return x.String() + "," })
				ctx := plush.NewContextWith(map[string]interface{}{"a": sh.A, "b": sh.B})
				tr := vk.Safe(func() (string, error) { return tpl.Exec(ctx) })
				r.Evals(1)
				if tr.Panicked() || tr.Err != nil || tr.Out != w {
					return fail("execution %d of the parsed template %q with a=%d b=%d gave %s, want %q", round+1, s2, sh.A, sh.B, tr, w)
				}
			}
		}
	}
	return nil
}

// ---- two iterators alive at the same time ------------------------------------------

// PairCase: two iterator calls whose Next calls are interleaved. Every call of
// range/between/until yields ITS interval whatever other iterators exist or have
// existed: the statement quantifies over calls, not over "the only iterator alive".
type PairCase struct {
	X     IterCase `json:"x"`
	Y     IterCase `json:"y"`
	Sched string   `json:"sched"`           // 'x' / 'y': one Next on that iterator
	Eager bool     `json:"eager,omitempty"` // true: both are created before the first Next; false: each at its first use
}

func mkIter(c IterCase) iterators.Iterator {
	switch c.Fn {
	case "range":
		return iterators.Range(c.A, c.B)
	case "between":
		return iterators.Between(c.A, c.B)
	}
	return iterators.Until(c.A)
}

func intervalSize(c IterCase) *big.Int {
	lo, hi := interval(c)
	if lo.Cmp(hi) > 0 {
		return big.NewInt(0)
	}
	d := new(big.Int).Sub(hi, lo)
	return d.Add(d, big.NewInt(1))
}

func loopText(c IterCase, f func(x *big.Int) string) string {
	lo, hi := interval(c)
	var b strings.Builder
	for x := new(big.Int).Set(lo); x.Cmp(hi) <= 0; x.Add(x, big.NewInt(1)) {
		b.WriteString(f(x))
	}
	return b.String()
}

func checkPair(r *vk.Run, c PairCase) *vk.Fail {
	defer r.Watch("pair", c)()
	name := fmt.Sprintf("x=%s y=%s sched=%s eager=%v", c.X, c.Y, c.Sched, c.Eager)
	fail := func(f string, a ...interface{}) *vk.Fail {
		return &vk.Fail{Kind: "pair", Case: c, Msg: name + ": " + fmt.Sprintf(f, a...)}
	}
	var its [2]iterators.Iterator
	var cur, hi [2]*big.Int
	cases := [2]IterCase{c.X, c.Y}
	for i := range cases {
		lo, h := interval(cases[i])
		cur[i], hi[i] = new(big.Int).Set(lo), h
	}
	var msg string
	res := vk.Safe(func() (string, error) {
		if c.Eager {
			its[0], its[1] = mkIter(c.X), mkIter(c.Y)
		}
		for k, ev := range c.Sched {
			i := 0
			if ev == 'y' {
				i = 1
			}
			if its[i] == nil {
				its[i] = mkIter(cases[i])
			}
			got := its[i].Next()
			if cur[i].Cmp(hi[i]) > 0 {
				if got != nil {
					msg = fmt.Sprintf("event %d (%c): %s is exhausted, yet Next gave %v", k, ev, cases[i], got)
					return "", nil
				}
				continue
			}
			gi, ok := got.(int)
			if !ok || big.NewInt(int64(gi)).Cmp(cur[i]) != 0 {
				msg = fmt.Sprintf("event %d (%c): %s should yield %v next, got %v", k, ev, cases[i], cur[i], got)
				return "", nil
			}
			cur[i].Add(cur[i], big.NewInt(1))
		}
		return "", nil
	})
	if res.Panicked() {
		return fail("%s", res)
	}
	if msg != "" {
		return fail("%s", msg)
	}
	nt := ""
	if strings.Contains(c.Sched, "x") && strings.Contains(c.Sched, "y") {
		nt = "P|" + name
	}
	r.Count(nt, "pair/direct")
	if nt != "" {
		r.Sample(func() interface{} { return c })
	}
	// through templates, when both intervals are short: a loop nested in a loop (the inner call is
	// evaluated once per outer turn while the outer iterator is alive) and three loops in a row
	six := big.NewInt(6)
	if intervalSize(c.X).Cmp(six) <= 0 && intervalSize(c.Y).Cmp(six) <= 0 {
		call := func(ic IterCase, p, q string) string {
			if ic.Fn == "until" {
				return "until(" + p + ")"
			}
			return ic.Fn + "(" + p + ", " + q + ")"
		}
		cx, cy := call(c.X, "a", "b"), call(c.Y, "c", "d")
		inner := loopText(c.Y, func(y *big.Int) string { return "%s." + y.String() + "," })
		wantNested := loopText(c.X, func(x *big.Int) string { return strings.ReplaceAll(inner, "%s", x.String()) + ";" })
		xs, ys := loopText(c.X, func(x *big.Int) string { return x.String() + "," }), loopText(c.Y, func(y *big.Int) string { return y.String() + "," })
		type tcase struct{ src, want string }
		mk := func(cx, cy string) []tcase {
			return []tcase{
				{`<%= for (i) in ` + cx + ` { %><%= for (j) in ` + cy + ` { %><%= i %>.<%= j %>,<% } %>;<% } %>`, wantNested},
				{`<%= for (i) in ` + cx + ` { %><%= i %>,<% } %>|<%= for (j) in ` + cy + ` { %><%= j %>,<% } %>|<%= for (i) in ` + cx + ` { %><%= i %>,<% } %>`, xs + "|" + ys + "|" + xs},
			}
		}
		tcs := mk(cx, cy)
		if lit := func(ic IterCase) bool { return ic.A >= 0 && (ic.B >= 0 || ic.Fn == "until") }; lit(c.X) && lit(c.Y) {
			// the arguments spelled as number literals: the calls are the same text on every turn
			tcs = append(tcs, mk(call(c.X, fmt.Sprint(c.X.A), fmt.Sprint(c.X.B)), call(c.Y, fmt.Sprint(c.Y.A), fmt.Sprint(c.Y.B)))...)
		}
		for _, tc := range tcs {
			ctx := plush.NewContextWith(map[string]interface{}{"a": c.X.A, "b": c.X.B, "c": c.Y.A, "d": c.Y.B})
			tr := vk.Safe(func() (string, error) { return plush.Render(tc.src, ctx) })
			r.Count(nt, "pair/template")
			if tr.Panicked() || tr.Err != nil || tr.Out != tc.want {
				return fail("template %q gave %s, want %q", tc.src, tr, tc.want)
			}
		}
	}
	return nil
}

// ---- groupBy -------------------------------------------------------------------

type item struct{ N int }

type intList []int
type strList []string

type GroupCase struct {
	Len   int    `json:"len"`
	N     int    `json:"n"`
	Elem  string `json:"elem"`            // string | int | struct | ptr | iface | nilptr | byte | nested | empty
	Form  string `json:"form"`            // slice | ptr-slice | ptr-array | array | named (int, string only) | nil-slice (len 0 only)
	Spare int    `json:"spare,omitempty"` // extra capacity behind the slice, filled with stale elements that are NOT part of xs
}

var ifaceType = reflect.TypeOf((*interface{})(nil)).Elem()

var arrayTypes = map[string]reflect.Type{
	"string": reflect.TypeOf(""), "int": reflect.TypeOf(0), "struct": reflect.TypeOf(item{}), "ptr": reflect.TypeOf(&item{}),
	// []interface{} is what an array literal of a template is; nil elements; 1-byte, uncomparable and zero-size elements
	"iface": ifaceType, "nilptr": reflect.TypeOf(&item{}), "byte": reflect.TypeOf(uint8(0)), "nested": reflect.TypeOf([]int{}), "empty": reflect.TypeOf(struct{}{}),
}

// elemValue is element number k of a sequence of the given element kind.
func elemValue(kind string, k int) reflect.Value {
	switch kind {
	case "string":
		return reflect.ValueOf(fmt.Sprintf("e%d", k))
	case "int":
		return reflect.ValueOf(k)
	case "struct":
		return reflect.ValueOf(item{k})
	case "ptr":
		return reflect.ValueOf(&item{k})
	case "nilptr":
		if k%3 == 1 {
			return reflect.Zero(arrayTypes[kind])
		}
		return reflect.ValueOf(&item{k})
	case "iface":
		switch k % 4 {
		case 0:
			return reflect.ValueOf(k)
		case 1:
			return reflect.ValueOf(fmt.Sprintf("e%d", k))
		case 2:
			return reflect.Zero(ifaceType)
		}
		return reflect.ValueOf(item{k})
	case "byte":
		return reflect.ValueOf(uint8(k % 251))
	case "nested":
		return reflect.ValueOf([]int{k, k + 1})
	}
	return reflect.ValueOf(struct{}{})
}

// backing builds a slice of n+spare elements of which the first n are the
// sequence and the rest stale elements in the spare capacity; flat lists the
// first n as interface values (the very same pointers for pointer elements).
func backing(elem string, n, spare int) (full reflect.Value, flat []interface{}) {
	et := arrayTypes[elem]
	full = reflect.MakeSlice(reflect.SliceOf(et), n+spare, n+spare)
	for i := 0; i < n+spare; i++ {
		k := i
		if i >= n {
			k = 9000 + i // stale element in the spare capacity
		}
		full.Index(i).Set(elemValue(elem, k))
		if i < n {
			flat = append(flat, full.Index(i).Interface())
		}
	}
	return full, flat
}

// build constructs the sequence and the flat list of its elements as interface values.
func (c GroupCase) build() (seq interface{}, flat []interface{}) {
	et := arrayTypes[c.Elem]
	if c.Form == "nil-slice" {
		return reflect.Zero(reflect.SliceOf(et)).Interface(), nil
	}
	full, flat := backing(c.Elem, c.Len, c.Spare)
	sl := full.Slice(0, c.Len) // len c.Len, cap c.Len+c.Spare
	switch c.Form {
	case "slice":
		return sl.Interface(), flat
	case "named":
		if c.Elem == "int" {
			return sl.Convert(reflect.TypeOf(intList(nil))).Interface(), flat
		}
		return sl.Convert(reflect.TypeOf(strList(nil))).Interface(), flat
	case "ptr-slice":
		p := reflect.New(sl.Type())
		p.Elem().Set(sl)
		return p.Interface(), flat
	default:
		at := reflect.ArrayOf(c.Len, et)
		p := reflect.New(at)
		reflect.Copy(p.Elem(), sl)
		if c.Form == "ptr-array" {
			return p.Interface(), flat
		}
		return p.Elem().Interface(), flat
	}
}

func (c GroupCase) valid() bool {
	if arrayTypes[c.Elem] == nil || c.Len < 0 || c.Len > 10000 || c.Spare < 0 || c.Spare > 1000 {
		return false
	}
	switch c.Form {
	case "slice", "ptr-slice", "ptr-array", "array":
		return true
	case "named":
		return c.Elem == "int" || c.Elem == "string"
	case "nil-slice":
		return c.Len == 0 && c.Spare == 0
	}
	return false
}

func drain(it interface{ Next() interface{} }) []interface{} {
	var out []interface{}
	for i := 0; i < 1000; i++ {
		g := it.Next()
		if g == nil {
			return out
		}
		out = append(out, g)
	}
	return append(out, "ITERATOR DID NOT END AFTER 1000 GROUPS")
}

// same: == where the type has it (ints, strings, structs of them, pointer
// identity, nil), reflect.DeepEqual for the uncomparable element kind.
func same(a, b interface{}) bool {
	if a == nil || b == nil {
		return a == nil && b == nil
	}
	ta := reflect.TypeOf(a)
	if ta != reflect.TypeOf(b) {
		return false
	}
	if ta.Comparable() {
		return a == b
	}
	return reflect.DeepEqual(a, b)
}

func sizesOf(groups []interface{}) []int {
	var out []int
	for _, g := range groups {
		gv := reflect.ValueOf(g)
		if gv.Kind() != reflect.Slice && gv.Kind() != reflect.Array {
			out = append(out, -1)
			continue
		}
		out = append(out, gv.Len())
	}
	return out
}

func lawCheck(groups []interface{}, flat []interface{}, n int) string {
	if len(groups) > n {
		return fmt.Sprintf("%d groups > n", len(groups))
	}
	var cat []interface{}
	size := -1
	for gi, g := range groups {
		gv := reflect.ValueOf(g)
		if gv.Kind() != reflect.Slice && gv.Kind() != reflect.Array {
			return fmt.Sprintf("group %d is a %T, not a sequence", gi, g)
		}
		if gv.Len() == 0 {
			return fmt.Sprintf("group %d is empty", gi)
		}
		if gi < len(groups)-1 {
			if size == -1 {
				size = gv.Len()
			} else if gv.Len() != size {
				return fmt.Sprintf("group %d has %d elements, earlier groups %d", gi, gv.Len(), size)
			}
		} else if size != -1 && gv.Len() > size {
			return fmt.Sprintf("last group has %d elements, earlier groups %d", gv.Len(), size)
		}
		for i := 0; i < gv.Len(); i++ {
			cat = append(cat, gv.Index(i).Interface())
		}
	}
	if len(cat) != len(flat) {
		return fmt.Sprintf("concatenation has %d elements, input %d", len(cat), len(flat))
	}
	for i := range cat {
		if !same(cat[i], flat[i]) {
			return fmt.Sprintf("element %d of the concatenation is %v, input has %v", i, cat[i], flat[i])
		}
	}
	return ""
}

func callGroupBy(impl int, n int, seq interface{}) (interface{ Next() interface{} }, error) {
	if impl == 0 {
		it, err := iterators.GroupBy(n, seq)
		if err != nil || it == nil {
			return nil, err
		}
		return it, nil
	}
	it, err := plush.GroupByHelper(n, seq)
	if err != nil || it == nil {
		return nil, err
	}
	return it, nil
}

var implNames = []string{"iterators.GroupBy", "plush.GroupByHelper"}

var groupTplRe = regexp.MustCompile(`\[(\d+)\|([^\]|]*)\]`)

func checkGroup(r *vk.Run, c GroupCase) *vk.Fail {
	defer r.Watch("group", c)()
	fail := func(f string, a ...interface{}) *vk.Fail {
		return &vk.Fail{Kind: "group", Case: c, Msg: fmt.Sprintf("groupBy(%d, %s of %d %s, spare %d): ", c.N, c.Form, c.Len, c.Elem, c.Spare) + fmt.Sprintf(f, a...)}
	}
	type outcome struct {
		groups []interface{}
		err    error
	}
	var outs [2]outcome
	for i, which := range implNames {
		seq, flat := c.build() // the very sequence this call works on: pointer elements are compared by identity
		var o outcome
		res := vk.Safe(func() (string, error) {
			it, err := callGroupBy(i, c.N, seq)
			o.err = err
			if err == nil {
				if it == nil {
					o.err = fmt.Errorf("nil iterator and nil error")
					return "", nil
				}
				o.groups = drain(it)
			}
			return "", nil
		})
		if res.Panicked() {
			return fail("%s: %s", which, res)
		}
		outs[i] = o
		if c.N <= 0 {
			if o.err == nil {
				return fail("%s: n<=0 must be an error, got %d groups", which, len(o.groups))
			}
			continue
		}
		if o.err != nil {
			return fail("%s: unexpected error %v", which, o.err)
		}
		if msg := lawCheck(o.groups, flat, c.N); msg != "" {
			return fail("%s: %s (groups %v)", which, msg, o.groups)
		}
	}
	if c.N <= 0 && c.Len <= 12 && (c.Elem == "int" || c.Elem == "string") {
		// through a template the error fails the render
		seq, _ := c.build()
		ctx := plush.NewContextWith(map[string]interface{}{"xs": seq, "n": c.N})
		src := `a<%= for (g) in groupBy(n, xs) { %>g<% } %>b`
		if c.N == 0 {
			src = `a<%= for (g) in groupBy(0, xs) { %>g<% } %>b`
		}
		tr := vk.Safe(func() (string, error) { return plush.Render(src, ctx) })
		r.Evals(1)
		if tr.Panicked() || tr.Err == nil {
			return fail("template %q gave %s, want an error", src, tr)
		}
	}
	var sizes []int
	if c.N > 0 {
		// "identically in both shipped implementations": with the concatenation law, equal group
		// sizes mean equal groups
		sizes = sizesOf(outs[0].groups)
		if s1 := sizesOf(outs[1].groups); fmt.Sprint(sizes) != fmt.Sprint(s1) {
			return fail("the two implementations disagree: group sizes %v vs %v", sizes, s1)
		}
	}
	nt := ""
	if c.N > 0 && c.Len > 0 && (c.Len%c.N != 0 || c.Form != "slice" || c.Len <= c.N) {
		nt = fmt.Sprintf("G|%d|%d|%s|%s", c.Len, c.N, c.Elem, c.Form)
	}
	r.Count(nt, "groupBy/"+c.Form)
	if nt != "" {
		r.Sample(func() interface{} { return map[string]interface{}{"case": c, "groups": len(outs[0].groups)} })
	}
	// through a template (ints and strings only: printable elements); every group also goes through len
	if c.N > 0 && (c.Elem == "int" || c.Elem == "string") && c.Len <= 12 {
		_, fl := c.build()
		flatTxt := ""
		for _, x := range fl {
			flatTxt += fmt.Sprint(x) + ","
		}
		sizesTxt := ""
		for _, s := range sizes {
			sizesTxt += fmt.Sprintf("[%d]", s)
		}
		const body = ` { %>[<%= len(g) %>|<%= for (x) in g { %><%= x %>,<% } %>]<% } %>`
		srcs := []string{`<%= for (g) in groupBy(n, xs)` + body}
		if c.Form == "slice" && c.Spare == 0 {
			// the sequence and n spelled as literals of the template: an array literal is a []interface{}
			var lit []string
			for _, x := range fl {
				if c.Elem == "string" {
					lit = append(lit, `"`+fmt.Sprint(x)+`"`)
				} else {
					lit = append(lit, fmt.Sprint(x))
				}
			}
			srcs = append(srcs, fmt.Sprintf(`<%%= for (g) in groupBy(%d, [%s])`, c.N, strings.Join(lit, ", "))+body)
		}
		for _, src := range srcs {
			seq, _ := c.build()
			ctx := plush.NewContextWith(map[string]interface{}{"xs": seq, "n": c.N})
			tr := vk.Safe(func() (string, error) { return plush.Render(src, ctx) })
			r.Evals(1)
			if tr.Panicked() || tr.Err != nil {
				return fail("template %q: %s", src, tr)
			}
			ms := groupTplRe.FindAllStringSubmatch(tr.Out, -1)
			got, whole, gotSizes := "", "", ""
			for _, m := range ms {
				whole += m[0]
				got += m[2]
				gotSizes += "[" + m[1] + "]"
				if m[1] != fmt.Sprint(strings.Count(m[2], ",")) {
					return fail("template %q: len(g) printed %s for the group %q (output %q)", src, m[1], m[2], tr.Out)
				}
			}
			if whole != tr.Out || got != flatTxt {
				return fail("template %q: groups concatenate to %q, want %q (output %q)", src, got, flatTxt, tr.Out)
			}
			if len(ms) > c.N || strings.Contains(tr.Out, "[0|") {
				return fail("template %q: output %q has more than n groups or an empty group", src, tr.Out)
			}
			if gotSizes != sizesTxt {
				return fail("template %q: group sizes %s, the direct call on an equal sequence gave %s", src, gotSizes, sizesTxt)
			}
		}
		// the same call evaluated once per turn of an enclosing loop: every turn sees the whole partition
		seq, _ := c.build()
		ctx := plush.NewContextWith(map[string]interface{}{"xs": seq, "n": c.N})
		src := `<%= for (t) in until(3) { %><%= for (g) in groupBy(n, xs) { %>[<%= len(g) %>]<% } %>;<% } %>`
		tr := vk.Safe(func() (string, error) { return plush.Render(src, ctx) })
		r.Evals(1)
		if want := strings.Repeat(sizesTxt+";", 3); tr.Panicked() || tr.Err != nil || tr.Out != want {
			return fail("template %q gave %s, want %q", src, tr, want)
		}
	}
	return nil
}

// ---- several groupBy calls over shared storage --------------------------------------

type GroupCall struct {
	L    int `json:"l"`
	N    int `json:"n"`
	Impl int `json:"impl"` // 0 iterators.GroupBy, 1 plush.GroupByHelper
}

// GroupSeqCase: a sequence of groupBy calls over ONE backing array. Form slice:
// call i gets the prefix full[:L]. Form ptr-slice: call i gets a pointer to a
// slice variable holding full[:L] - the same variable, re-assigned between the
// calls, when every iterator is drained at once; one variable per call when
// they are held (what a held iterator shows after its argument has been
// re-assigned is not stated). Form ptr-array: every call gets the same *[Cap]T
// (L is ignored). Each call must partition what it was given, whatever was
// asked before and whichever iterators are still alive.
type GroupSeqCase struct {
	Cap   int         `json:"cap"`
	Elem  string      `json:"elem"`
	Form  string      `json:"form"`
	Calls []GroupCall `json:"calls"`
	Hold  bool        `json:"hold,omitempty"` // true: all iterators are created first and drained last-to-first; false: each is drained at once
}

func (c GroupSeqCase) valid() bool {
	if arrayTypes[c.Elem] == nil || c.Cap < 0 || c.Cap > 10000 || len(c.Calls) > 64 {
		return false
	}
	if c.Form != "slice" && c.Form != "ptr-slice" && c.Form != "ptr-array" {
		return false
	}
	for _, k := range c.Calls {
		if k.L < 0 || k.L > c.Cap || k.N < 1 || k.Impl < 0 || k.Impl > 1 {
			return false
		}
	}
	return true
}

func checkGroupSeq(r *vk.Run, c GroupSeqCase) *vk.Fail {
	defer r.Watch("groupseq", c)()
	name := fmt.Sprintf("%s of %s over one backing array of %d, hold=%v, calls (l,n,impl) %v", c.Form, c.Elem, c.Cap, c.Hold, c.Calls)
	fail := func(f string, a ...interface{}) *vk.Fail {
		return &vk.Fail{Kind: "groupseq", Case: c, Msg: name + ": " + fmt.Sprintf(f, a...)}
	}
	full, flat := backing(c.Elem, c.Cap, 0)
	var arr, shared reflect.Value
	if c.Form == "ptr-array" {
		arr = reflect.New(reflect.ArrayOf(c.Cap, arrayTypes[c.Elem]))
		reflect.Copy(arr.Elem(), full)
	}
	if c.Form == "ptr-slice" {
		shared = reflect.New(full.Type())
	}
	type held struct {
		it   interface{ Next() interface{} }
		call GroupCall
		l    int
	}
	var hs []held
	var msg string
	res := vk.Safe(func() (string, error) {
		for i, k := range c.Calls {
			l := k.L
			var seq interface{}
			switch c.Form {
			case "slice":
				seq = full.Slice(0, l).Interface()
			case "ptr-slice":
				p := shared
				if c.Hold {
					p = reflect.New(full.Type())
				}
				p.Elem().Set(full.Slice(0, l))
				seq = p.Interface()
			default:
				l = c.Cap
				seq = arr.Interface()
			}
			it, err := callGroupBy(k.Impl, k.N, seq)
			if err != nil || it == nil {
				msg = fmt.Sprintf("call %d: %s(%d, %d elements): unexpected error %v", i, implNames[k.Impl], k.N, l, err)
				return "", nil
			}
			if c.Hold {
				hs = append(hs, held{it, k, l})
				continue
			}
			if m := lawCheck(drain(it), flat[:l], k.N); m != "" {
				msg = fmt.Sprintf("call %d: %s(%d, %d elements): %s", i, implNames[k.Impl], k.N, l, m)
				return "", nil
			}
		}
		for i := len(hs) - 1; i >= 0; i-- {
			h := hs[i]
			if m := lawCheck(drain(h.it), flat[:h.l], h.call.N); m != "" {
				msg = fmt.Sprintf("call %d (held, drained after the later ones): %s(%d, %d elements): %s", i, implNames[h.call.Impl], h.call.N, h.l, m)
				return "", nil
			}
		}
		return "", nil
	})
	if res.Panicked() {
		return fail("%s", res)
	}
	if msg != "" {
		return fail("%s", msg)
	}
	nt := ""
	if len(c.Calls) > 1 && c.Cap > 0 {
		nt = "S|" + name
	}
	r.Count(nt, "groupBy-sequence/"+c.Form)
	if nt != "" {
		r.Sample(func() interface{} { return c })
	}
	return nil
}

type NonSeqCase struct {
	Kind string `json:"kind"`
}

func nonSeq(kind string) interface{} {
	switch kind {
	case "int":
		return 7
	case "string":
		return "abc"
	case "map":
		return map[string]int{"a": 1}
	case "struct":
		return item{1}
	case "nil":
		return nil
	case "nil-ptr-slice":
		return (*[]int)(nil)
	case "func":
		return func() {}
	case "bool":
		return true
	case "ptr-int":
		n := 7
		return &n
	case "ptr-string":
		t := "abc"
		return &t
	case "ptr-map":
		return &map[string]int{"a": 1}
	case "ptr-struct":
		return &item{1}
	case "nil-ptr-array":
		return (*[3]int)(nil)
	case "chan":
		return make(chan int, 3)
	case "iterator":
		return iterators.Range(0, 3)
	}
	return 1.5
}

func checkNonSeq(r *vk.Run, c NonSeqCase) *vk.Fail {
	defer r.Watch("nonseq", c)()
	for _, which := range []string{"iterators.GroupBy", "plush.GroupByHelper"} {
		var err error
		res := vk.Safe(func() (string, error) {
			if which == "iterators.GroupBy" {
				_, err = iterators.GroupBy(2, nonSeq(c.Kind))
			} else {
				_, err = plush.GroupByHelper(2, nonSeq(c.Kind))
			}
			return "", nil
		})
		if res.Panicked() {
			return &vk.Fail{Kind: "nonseq", Case: c, Msg: fmt.Sprintf("%s(2, %s): %s", which, c.Kind, res)}
		}
		if err == nil {
			return &vk.Fail{Kind: "nonseq", Case: c, Msg: fmt.Sprintf("%s(2, %s): a non-sequence must be an error", which, c.Kind)}
		}
	}
	// through a template the error fails the render: no output, no panic
	ctx := plush.NewContextWith(map[string]interface{}{"x": nonSeq(c.Kind)})
	const src = `a<%= for (g) in groupBy(2, x) { %>g<% } %>b`
	tr := vk.Safe(func() (string, error) { return plush.Render(src, ctx) })
	r.Evals(1)
	if tr.Panicked() || tr.Err == nil {
		return &vk.Fail{Kind: "nonseq", Case: c, Msg: fmt.Sprintf("template %q with x = %s gave %s, want an error", src, c.Kind, tr)}
	}
	r.Count("N|"+c.Kind, "groupBy/non-sequence")
	return nil
}

// ---- len -------------------------------------------------------------------------

type nstr string
type nmap map[string]int

type LenCase struct {
	Kind string `json:"kind"` // see lenKinds and litKinds
	N    int    `json:"n"`
}

// values handed to len as Go values
var lenKinds = []string{"string", "ptr-string", "slice", "ptr-slice", "array", "ptr-array", "map", "ptr-map",
	"ptr-mbstring", "named-string", "ptr-named-string", "badutf8-string", "named-slice", "ptr-named-slice", "named-map",
	"slice-spare", "iface-slice", "ptr-iface-slice", "bytes", "iface-map", "struct-array", "ptr-struct-array"}

// values with one length only
var nilLenKinds = []string{"nil-slice", "nil-map", "ptr-nil-slice", "ptr-nil-map"}

// arguments spelled as literals of the template (template route only)
var litKinds = []string{"lit-array", "lit-string", "lit-mbstring", "lit-map"}

func isLit(kind string) bool { return strings.HasPrefix(kind, "lit-") }

func (c LenCase) valid() bool {
	if c.N < 0 || c.N > 100000 {
		return false
	}
	for _, k := range nilLenKinds {
		if k == c.Kind {
			return c.N == 0
		}
	}
	for _, k := range append(append([]string{}, lenKinds...), litKinds...) {
		if k == c.Kind {
			return !isLit(k) || c.N <= 2000
		}
	}
	return false
}

// want is the Go length by construction.
func (c LenCase) want() int {
	switch c.Kind {
	case "string", "ptr-mbstring", "named-string", "ptr-named-string", "lit-mbstring":
		return 2 * c.N // Go len counts bytes; é is two
	}
	return c.N
}

func (c LenCase) build() interface{} {
	switch c.Kind {
	case "string":
		return strings.Repeat("é", c.N)
	case "ptr-string":
		s := strings.Repeat("x", c.N)
		return &s
	case "ptr-mbstring":
		s := strings.Repeat("é", c.N)
		return &s
	case "named-string":
		return nstr(strings.Repeat("é", c.N))
	case "ptr-named-string":
		s := nstr(strings.Repeat("é", c.N))
		return &s
	case "badutf8-string":
		return strings.Repeat("\xff", c.N)
	case "slice":
		return make([]int, c.N)
	case "ptr-slice":
		s := make([]string, c.N)
		return &s
	case "named-slice":
		return make(intList, c.N)
	case "ptr-named-slice":
		s := make(strList, c.N, c.N+2)
		return &s
	case "slice-spare":
		return make([]int, c.N, c.N+5)
	case "iface-slice", "ptr-iface-slice":
		s := make([]interface{}, c.N, c.N+3)
		for i := range s {
			if i%2 == 0 {
				s[i] = i
			}
		}
		if c.Kind == "iface-slice" {
			return s
		}
		return &s
	case "bytes":
		return make([]byte, c.N, c.N+1)
	case "nil-slice":
		return []string(nil)
	case "ptr-nil-slice":
		var s []int
		return &s
	case "nil-map":
		return map[string]int(nil)
	case "ptr-nil-map":
		var m map[string]interface{}
		return &m
	case "array", "ptr-array":
		p := reflect.New(reflect.ArrayOf(c.N, reflect.TypeOf(0)))
		if c.Kind == "array" {
			return p.Elem().Interface()
		}
		return p.Interface()
	case "struct-array", "ptr-struct-array":
		p := reflect.New(reflect.ArrayOf(c.N, reflect.TypeOf(item{})))
		for i := 0; i < c.N; i++ {
			p.Elem().Index(i).Set(reflect.ValueOf(item{i + 1}))
		}
		if c.Kind == "struct-array" {
			return p.Elem().Interface()
		}
		return p.Interface()
	case "named-map":
		m := nmap{}
		for i := 0; i < c.N; i++ {
			m[fmt.Sprint("k", i)] = i
		}
		return m
	case "iface-map":
		m := map[string]interface{}{}
		for i := 0; i < c.N; i++ {
			m[fmt.Sprint("k", i)] = nil
			if i%2 == 0 {
				m[fmt.Sprint("k", i)] = i
			}
		}
		return m
	default:
		m := map[int]bool{}
		for i := 0; i < c.N; i++ {
			m[i] = true
		}
		if c.Kind == "map" {
			return m
		}
		return &m
	}
}

// literal spells the argument inside the template.
func (c LenCase) literal() string {
	var parts []string
	switch c.Kind {
	case "lit-string":
		return `"` + strings.Repeat("a", c.N) + `"`
	case "lit-mbstring":
		return `"` + strings.Repeat("é", c.N) + `"`
	case "lit-array":
		for i := 0; i < c.N; i++ {
			if i%2 == 0 {
				parts = append(parts, fmt.Sprint(i))
			} else {
				parts = append(parts, fmt.Sprintf(`"s%d"`, i))
			}
		}
		return "[" + strings.Join(parts, ", ") + "]"
	}
	for i := 0; i < c.N; i++ {
		parts = append(parts, fmt.Sprintf(`k%d: %d`, i, i))
	}
	return "{" + strings.Join(parts, ", ") + "}"
}

func checkLen(r *vk.Run, c LenCase) *vk.Fail {
	defer r.Watch("len", c)()
	want := c.want()
	arg, data := "x", map[string]interface{}{}
	if isLit(c.Kind) {
		arg = c.literal()
	} else {
		v := c.build()
		if rv := reflect.Indirect(reflect.ValueOf(v)); rv.Len() != want {
			panic(fmt.Sprintf("harness: %v built with length %d, want %d", c, rv.Len(), want))
		}
		var got int
		res := vk.Safe(func() (string, error) { got = meta.Len(v); return "", nil })
		if res.Panicked() || got != want {
			return &vk.Fail{Kind: "len", Case: c, Msg: fmt.Sprintf("Len(%s of %d) = %d (%s), Go len is %d", c.Kind, c.N, got, res, want)}
		}
		data["x"] = c.build()
	}
	src := `<%= len(` + arg + `) %>`
	tr := vk.Safe(func() (string, error) { return plush.Render(src, plush.NewContextWith(data)) })
	if tr.Panicked() || tr.Err != nil || tr.Out != fmt.Sprint(want) {
		return &vk.Fail{Kind: "len", Case: c, Msg: fmt.Sprintf("%s for %s of %d gave %s, want %d", src, c.Kind, c.N, tr, want)}
	}
	if want <= 40 {
		// the common idiom: a counting loop over the indexes
		if !isLit(c.Kind) {
			data = map[string]interface{}{"x": c.build()}
		}
		src := `<%= for (i) in until(len(` + arg + `)) { %><%= i %>,<% } %>`
		w := loopText(IterCase{Fn: "until", A: want}, func(x *big.Int) string { return x.String() + "," })
		tr := vk.Safe(func() (string, error) { return plush.Render(src, plush.NewContextWith(data)) })
		r.Evals(1)
		if tr.Panicked() || tr.Err != nil || tr.Out != w {
			return &vk.Fail{Kind: "len", Case: c, Msg: fmt.Sprintf("%s for %s of %d gave %s, want %q", src, c.Kind, c.N, tr, w)}
		}
	}
	nt := ""
	if c.Kind != "slice" || c.N == 0 {
		nt = fmt.Sprintf("L|%s|%d", c.Kind, c.N)
	}
	r.Count(nt, "len/"+c.Kind)
	return nil
}

// ---- the test ----------------------------------------------------------------------

const rule = "range/between/until: (E) all a, b, n in [-8,8] plus every combination of the int extremes {MinInt, MinInt+1, -1, 0, 1, MaxInt-1, MaxInt} in every argument position, +-3 neighbourhoods of them and of the limits of the narrower integer types (2^15, 2^16, 2^31, 2^32, 2^53 and their negatives); every value in [-1100,1160] in windows of 60 steps and the +-3 neighbourhood of +-2^k for every k in 3..62; (R) random ints. The oracle walks the iterator next to the interval computed with math/big for at most 64 steps (so termination is decided by 'exhausted exactly when the model is', never by running 2^63 steps), then re-runs finished cases through template for loops: two-variable and one-variable form, arguments from the context and (when >= 0) spelled as number literals, glued and spaced; the iterator reaching the loop through a let variable and as the result of a function of the template; one parsed template executed three times with the arguments moved by one in between. Pairs: (E) 11 calls x 11 calls x 8 interleavings of their Next calls x {both created first, each created at its first use} and (R) random calls and schedules: each iterator must yield its own interval while the other is alive, exhausted or created after it was exhausted; short pairs also as a loop nested in a loop and as three loops in a row. groupBy: (E) lengths 0..40 x n in [-2,12] x element types {string,int,struct,pointer} x forms {slice, pointer to slice, pointer to array, array} x spare capacity behind the slice {0,1,5} filled with stale elements; (E) lengths 0..8 x n in [-1,10] x further element types {interface{} with nil elements (the type of a template's array literal), pointers some of them nil, bytes, slices (uncomparable), zero-size structs} x the 4 forms, named slice types, typed nil slices; (E) n at 9 large values up to MaxInt (none between 2^17 and 2^58: a wrong implementation that allocates per requested group must fail at once, not exhaust the machine) x lengths 0..8; both shipped implementations, compared group by group; partition laws (concatenation = input, <= n groups, no empty group, all but the last of equal size, last not larger) + error for n<=0 and for 16 kinds of non-sequence (scalars, map, struct, func, chan, an iterator, nil, pointers to them, nil pointers), directly and as a failed render; small cases also through a nested template loop that prints len of every group, with the sequence from the context and spelled as an array literal, and once per turn of an enclosing loop. Sequences of calls: (E) all ordered pairs of (prefix length 0..6, n 1..4) over ONE backing array x implementation pairs x {prefix slices, one re-assigned pointer to slice, the same pointer to array} x {drained at once, all held then drained last-to-first}; (R) 2-5 calls over up to 40 elements. len: lengths 0..9 and around 16, 64, 256, 1000 of string/slice/array/map, pointers to them, named types, spare capacity, []interface{} and map[string]interface{}, invalid UTF-8, nil slice and map; literals of the template; directly, through a template and as until(len(x)). Non-trivial = empty or negative or extreme interval; a pair schedule that uses both iterators; len not divisible by n, len <= n or non-slice form; two or more calls over a non-empty backing array; non-slice or empty len argument. Distinct by call."

func setup(t *testing.T) *vk.Run {
	r := vk.Start(t, "C19", rule,
		"an iterator that agrees with the model for 64 steps on an interval longer than that is accepted without being run to its end",
		"group elements are compared with == (identity for pointer elements, DeepEqual for slice elements)",
		"what a held groupBy iterator yields after the slice variable it was given a pointer to has been re-assigned is not asserted")
	r.Replayer("iter", func(raw json.RawMessage) *vk.Fail {
		var c IterCase
		if f := vk.Decode(raw, &c); f != nil {
			return f
		}
		return checkIter(r, c)
	})
	r.Replayer("pair", func(raw json.RawMessage) *vk.Fail {
		var c PairCase
		if f := vk.Decode(raw, &c); f != nil {
			return f
		}
		if len(c.Sched) > 4096 || strings.Trim(c.Sched, "xy") != "" {
			return &vk.Fail{Kind: "decode", Msg: "bad pair case"}
		}
		return checkPair(r, c)
	})
	r.Replayer("group", func(raw json.RawMessage) *vk.Fail {
		var c GroupCase
		if f := vk.Decode(raw, &c); f != nil {
			return f
		}
		if !c.valid() {
			return &vk.Fail{Kind: "decode", Msg: "bad group case"}
		}
		return checkGroup(r, c)
	})
	r.Replayer("groupseq", func(raw json.RawMessage) *vk.Fail {
		var c GroupSeqCase
		if f := vk.Decode(raw, &c); f != nil {
			return f
		}
		if !c.valid() {
			return &vk.Fail{Kind: "decode", Msg: "bad groupseq case"}
		}
		return checkGroupSeq(r, c)
	})
	r.Replayer("nonseq", func(raw json.RawMessage) *vk.Fail {
		var c NonSeqCase
		if f := vk.Decode(raw, &c); f != nil {
			return f
		}
		return checkNonSeq(r, c)
	})
	r.Replayer("len", func(raw json.RawMessage) *vk.Fail {
		var c LenCase
		if f := vk.Decode(raw, &c); f != nil {
			return f
		}
		if !c.valid() {
			return &vk.Fail{Kind: "decode", Msg: "bad len case"}
		}
		return checkLen(r, c)
	})
	return r
}

func TestReplay(t *testing.T) { setup(t).ReplayEnv() }

var extremes = []int{math.MinInt, math.MinInt + 1, -1, 0, 1, math.MaxInt - 1, math.MaxInt}

// limits of the narrower integer types and of exact float64 integers
var narrow = []int{1 << 15, 1 << 16, 1 << 31, 1 << 32, 1 << 53, -(1 << 15), -(1 << 16), -(1 << 31), -(1 << 32), -(1 << 53)}

// large group counts: every one is legal ("at most n groups"). Deliberately no values between 2^17 and
// 2^58: an implementation that (wrongly) allocates per requested group must fail at once - a few hundred
// kilobytes, or a size the runtime refuses outright - and not take tens of gigabytes from the machine.
var bigN = []int{math.MaxInt, math.MaxInt - 1, math.MaxInt / 3, 1 << 62, 1 << 60, 1 << 16, 4097, 1000, 257}

var pairPool = []IterCase{
	{Fn: "range", A: 0, B: 2}, {Fn: "range", A: 1, B: 1}, {Fn: "range", A: 2, B: 1}, {Fn: "range", A: -1, B: 0},
	{Fn: "between", A: 0, B: 3}, {Fn: "between", A: 0, B: 1}, {Fn: "until", A: 3}, {Fn: "until", A: 0},
	{Fn: "range", A: math.MaxInt - 1, B: math.MaxInt}, {Fn: "range", A: math.MinInt, B: math.MinInt + 1}, {Fn: "between", A: math.MaxInt - 2, B: math.MaxInt},
}

var pairScheds = []string{"xyxyxyxyxy", "xxxxxyyyyyxy", "yyyyyxxxxxyx", "xxxxxyxyxyxyx", "xyyyyyxxxxxy", "xxyyxxyyxxyy", "xxxxxxyxyx", "yxxxxxxyyyyyx"}

func TestProp(t *testing.T) {
	r := setup(t)
	defer r.Finish()
	r.ReplayCommitted()

	var n int64
	for a := -8; a <= 8; a++ {
		r.Check(checkIter(r, IterCase{Fn: "until", A: a}))
		n++
		for b := -8; b <= 8; b++ {
			r.Check(checkIter(r, IterCase{Fn: "range", A: a, B: b}))
			r.Check(checkIter(r, IterCase{Fn: "between", A: a, B: b}))
			n += 2
		}
	}
	r.Subspace("range/between/until with all arguments in [-8,8]", n, true)
	n = 0
	for _, a := range extremes {
		r.Check(checkIter(r, IterCase{Fn: "until", A: a}))
		n++
		for _, b := range extremes {
			r.Check(checkIter(r, IterCase{Fn: "range", A: a, B: b}))
			r.Check(checkIter(r, IterCase{Fn: "between", A: a, B: b}))
			n += 2
		}
		for d := -3; d <= 3; d++ { // short intervals hugging each extreme
			if (d > 0 && a > math.MaxInt-d) || (d < 0 && a < math.MinInt-d) {
				continue
			}
			r.Check(checkIter(r, IterCase{Fn: "range", A: a, B: a + d}))
			r.Check(checkIter(r, IterCase{Fn: "range", A: a + d, B: a}))
			r.Check(checkIter(r, IterCase{Fn: "between", A: a, B: a + d}))
			r.Check(checkIter(r, IterCase{Fn: "between", A: a + d, B: a}))
			n += 4
		}
	}
	r.Subspace("range/between/until at the int extremes (7 values per argument position, +-3 neighbourhoods)", n, true)
	n = 0
	for _, a := range narrow {
		for d := -3; d <= 3; d++ {
			r.Check(checkIter(r, IterCase{Fn: "until", A: a + d}))
			r.Check(checkIter(r, IterCase{Fn: "range", A: a - 2, B: a + d}))
			r.Check(checkIter(r, IterCase{Fn: "range", A: a + d, B: a + 2}))
			r.Check(checkIter(r, IterCase{Fn: "between", A: a - 2, B: a + d}))
			r.Check(checkIter(r, IterCase{Fn: "between", A: a + d, B: a + 2}))
			r.Check(checkIter(r, IterCase{Fn: "range", A: 0, B: a + d}))
			r.Check(checkIter(r, IterCase{Fn: "range", A: a + d, B: 0}))
			n += 7
		}
	}
	r.Subspace("range/between/until around the limits of the narrower integer types (+-2^15, 2^16, 2^31, 2^32, 2^53, +-3)", n, true)

	// every mid-sized value: windows of 60 steps (the oracle walks 64) that together cover [-1100, 1160], and the
	// +-3 neighbourhood of every power of two (a value cache, a table or a narrower type is wrong from some such
	// value on, and right at both ends of the int range)
	n = 0
	for s := -1100; s <= 1100; s += 60 {
		r.Check(checkIter(r, IterCase{Fn: "range", A: s, B: s + 60}))
		r.Check(checkIter(r, IterCase{Fn: "between", A: s - 1, B: s + 61}))
		n += 2
	}
	for k := 3; k <= 62; k++ {
		for _, p := range []int{1 << k, -(1 << k)} {
			r.Check(checkIter(r, IterCase{Fn: "range", A: p - 3, B: p + 3}))
			r.Check(checkIter(r, IterCase{Fn: "between", A: p - 4, B: p + 4}))
			r.Check(checkIter(r, IterCase{Fn: "until", A: p + 3}))
			n += 3
		}
	}
	r.Subspace("range/between over every value in [-1100,1160] (windows of 60) and around +-2^k for k in 3..62 (+-3)", n, true)

	n = 0
	for _, x := range pairPool {
		for _, y := range pairPool {
			for _, s := range pairScheds {
				r.Check(checkPair(r, PairCase{X: x, Y: y, Sched: s}))
				r.Check(checkPair(r, PairCase{X: x, Y: y, Sched: s, Eager: true}))
				n += 2
			}
		}
	}
	r.Subspace("two iterators alive at once: 11 x 11 calls x 8 interleavings x {created first, created at first use}", n, true)

	maxLen := r.Pick(24, 40)
	elems := []string{"string", "int", "struct", "ptr"}
	forms := []string{"slice", "ptr-slice", "ptr-array", "array"}
	total := int64(maxLen+1) * 15 * int64(len(elems)*len(forms)) * 3
	r.Subspace(fmt.Sprintf("groupBy: lengths 0..%d x n in [-2,12] x 4 element types x 4 forms x spare capacity {0,1,5}, both implementations", maxLen), total, true)
	r.Parallel(total, 0, func(i int64) {
		spare := []int{0, 1, 5}[i%3]
		i /= 3
		f := forms[i%4]
		e := elems[(i/4)%4]
		nn := int((i/16)%15) - 2
		l := int(i / 16 / 15)
		r.Check(checkGroup(r, GroupCase{Len: l, N: nn, Elem: e, Form: f, Spare: spare}))
	})
	// further element types, named slice types, typed nil slices
	elems2 := []string{"iface", "nilptr", "byte", "nested", "empty"}
	allElems := append(append([]string{}, elems...), elems2...)
	var more []GroupCase
	for l := 0; l <= 8; l++ {
		for nn := -1; nn <= 10; nn++ {
			for _, sp := range []int{0, 3} {
				for _, e := range elems2 {
					for _, f := range forms {
						more = append(more, GroupCase{Len: l, N: nn, Elem: e, Form: f, Spare: sp})
					}
				}
				more = append(more, GroupCase{Len: l, N: nn, Elem: "int", Form: "named", Spare: sp}, GroupCase{Len: l, N: nn, Elem: "string", Form: "named", Spare: sp})
			}
			if l == 0 {
				for _, e := range allElems {
					more = append(more, GroupCase{N: nn, Elem: e, Form: "nil-slice"})
				}
			}
		}
	}
	r.Subspace("groupBy: lengths 0..8 x n in [-1,10] x {interface{} with nils, pointers with nils, bytes, slices, zero-size} x 4 forms x spare {0,3}; named slice types; typed nil slices", int64(len(more)), true)
	r.Parallel(int64(len(more)), 0, func(i int64) { r.Check(checkGroup(r, more[i])) })
	// n far above any length
	var huge []GroupCase
	for _, nn := range bigN {
		for l := 0; l <= 8; l++ {
			for _, e := range allElems {
				for _, f := range forms {
					huge = append(huge, GroupCase{Len: l, N: nn, Elem: e, Form: f, Spare: int(l % 2 * 3)})
				}
			}
		}
	}
	r.Subspace("groupBy: n in {MaxInt, MaxInt-1, MaxInt/3, 2^62, 2^60, 2^16, 4097, 1000, 257} x lengths 0..8 x 9 element types x 4 forms", int64(len(huge)), true)
	r.Parallel(int64(len(huge)), 0, func(i int64) { r.Check(checkGroup(r, huge[i])) })

	// sequences of calls over one backing array (sequential: the point is what one call leaves behind for the next)
	n = 0
	type ln struct{ l, n int }
	var lns []ln
	for l := 0; l <= 6; l++ {
		for nn := 1; nn <= 4; nn++ {
			lns = append(lns, ln{l, nn})
		}
	}
	var cell int64
	for _, f := range []string{"slice", "ptr-slice", "ptr-array"} {
		for _, p := range lns {
			for _, q := range lns {
				if f == "ptr-array" && (p.l != 6 || q.l != 6) {
					continue
				}
				for impl := 0; impl < 4; impl++ {
					for _, hold := range []bool{false, true} {
						cell++
						if !r.Mine(cell) {
							continue
						}
						e := []string{"int", "ptr", "string"}[int(cell)%3]
						r.Check(checkGroupSeq(r, GroupSeqCase{Cap: 6, Elem: e, Form: f, Hold: hold,
							Calls: []GroupCall{{L: p.l, N: p.n, Impl: impl & 1}, {L: q.l, N: q.n, Impl: impl >> 1}}}))
						n++
					}
				}
			}
		}
	}
	r.Subspace("groupBy twice over one backing array of 6: all ordered pairs of (prefix length 0..6, n 1..4) x 4 implementation pairs x 3 forms x {drained at once, held}", cell, true)
	// the same call again after another one (and three times in a row): p, q, p
	cell = 0
	for _, f := range []string{"slice", "ptr-slice", "ptr-array"} {
		for _, p := range lns {
			for _, q := range lns {
				if f == "ptr-array" && (p.l != 6 || q.l != 6) {
					continue
				}
				for impl := 0; impl < 2; impl++ {
					for _, hold := range []bool{false, true} {
						cell++
						if !r.Mine(cell) {
							continue
						}
						e := []string{"int", "ptr", "string"}[int(cell)%3]
						r.Check(checkGroupSeq(r, GroupSeqCase{Cap: 6, Elem: e, Form: f, Hold: hold,
							Calls: []GroupCall{{L: p.l, N: p.n, Impl: impl}, {L: q.l, N: q.n, Impl: impl}, {L: p.l, N: p.n, Impl: impl}}}))
					}
				}
			}
		}
	}
	r.Subspace("groupBy three times over one backing array of 6: calls p, q, p for all ordered pairs (p, q) x 2 implementations x 3 forms x {drained at once, held}", cell, true)

	for _, k := range []string{"int", "string", "map", "struct", "nil", "nil-ptr-slice", "func", "bool", "float",
		"ptr-int", "ptr-string", "ptr-map", "ptr-struct", "nil-ptr-array", "chan", "iterator"} {
		r.Check(checkNonSeq(r, NonSeqCase{Kind: k}))
	}
	lens := []int{0, 1, 2, 3, 4, 5, 6, 7, 8, 9, 15, 16, 17, 63, 64, 65, 255, 256, 257, 1000}
	n = 0
	for _, k := range lenKinds {
		for _, l := range lens {
			r.Check(checkLen(r, LenCase{Kind: k, N: l}))
			n++
		}
	}
	for _, k := range nilLenKinds {
		r.Check(checkLen(r, LenCase{Kind: k}))
		n++
	}
	for _, k := range litKinds {
		for _, l := range []int{0, 1, 2, 3, 4, 5, 6, 7, 8, 9, 16, 17, 33, 100} {
			r.Check(checkLen(r, LenCase{Kind: k, N: l}))
			n++
		}
	}
	r.Subspace("len: 22 kinds of Go value x 20 lengths (0..9, around 16, 64, 256, 1000), nil slice / map, 4 kinds of template literal x 14 lengths", n, true)

	pick := func(t *rapid.T, label string) int {
		switch rapid.IntRange(0, 4).Draw(t, label+"_k") {
		case 0:
			return rapid.SampledFrom(extremes).Draw(t, label+"_x") // extremes
		case 1:
			e := rapid.SampledFrom(extremes).Draw(t, label+"_x")
			d := rapid.IntRange(-70, 70).Draw(t, label+"_d")
			if (d > 0 && e > math.MaxInt-d) || (d < 0 && e < math.MinInt-d) {
				return e
			}
			return e + d
		case 2:
			return rapid.IntRange(-100, 100).Draw(t, label)
		case 3:
			return rapid.SampledFrom(narrow).Draw(t, label+"_x") + rapid.IntRange(-70, 70).Draw(t, label+"_d")
		}
		return rapid.Int().Draw(t, label)
	}
	iterCase := func(t *rapid.T, label string) IterCase {
		c := IterCase{Fn: rapid.SampledFrom([]string{"range", "between", "until"}).Draw(t, label+"fn"), A: pick(t, label+"a")}
		if c.Fn != "until" {
			c.B = pick(t, label+"b")
		}
		return c
	}
	r.Rapid("iterators", r.Pick(5000, 40000), func(t *rapid.T) *vk.Fail {
		return checkIter(r, iterCase(t, ""))
	})
	r.Rapid("pairs", r.Pick(3000, 30000), func(t *rapid.T) *vk.Fail {
		short := func(label string) IterCase { // mostly intervals that end within the schedule
			c := iterCase(t, label)
			if rapid.IntRange(0, 3).Draw(t, label+"short") > 0 {
				c.A = rapid.IntRange(-4, 6).Draw(t, label+"sa")
				c.B = c.A + rapid.IntRange(-2, 6).Draw(t, label+"sd")
			}
			return c
		}
		return checkPair(r, PairCase{X: short("x"), Y: short("y"), Eager: rapid.Bool().Draw(t, "eager"),
			Sched: rapid.StringOfN(rapid.SampledFrom([]rune("xy")), 0, 40, -1).Draw(t, "sched")})
	})
	r.Rapid("groupBy", r.Pick(3000, 40000), func(t *rapid.T) *vk.Fail {
		c := GroupCase{Len: rapid.IntRange(0, 300).Draw(t, "len"), Elem: rapid.SampledFrom(allElems).Draw(t, "elem"),
			Form: rapid.SampledFrom(forms).Draw(t, "form"), Spare: rapid.IntRange(0, 9).Draw(t, "spare")}
		switch rapid.IntRange(0, 5).Draw(t, "n_k") {
		case 0: // around the length, its half and its double: where the number and the size of the groups change
			base := []int{c.Len, c.Len / 2, (c.Len + 1) / 2, c.Len * 2, c.Len / 3}[rapid.IntRange(0, 4).Draw(t, "n_base")]
			c.N = base + rapid.IntRange(-2, 2).Draw(t, "n_d")
		case 1:
			c.N = rapid.SampledFrom(bigN).Draw(t, "n_big") - rapid.IntRange(0, 3).Draw(t, "n_d")
		default:
			c.N = rapid.IntRange(-3, 320).Draw(t, "n")
		}
		return checkGroup(r, c)
	})
	r.Rapid("groupBy-sequences", r.Pick(2000, 30000), func(t *rapid.T) *vk.Fail {
		c := GroupSeqCase{Cap: rapid.IntRange(0, 40).Draw(t, "cap"), Elem: rapid.SampledFrom(allElems).Draw(t, "elem"),
			Form: rapid.SampledFrom([]string{"slice", "ptr-slice", "ptr-array"}).Draw(t, "form"), Hold: rapid.Bool().Draw(t, "hold")}
		k := rapid.IntRange(2, 5).Draw(t, "calls")
		for i := 0; i < k; i++ {
			g := GroupCall{L: rapid.IntRange(0, c.Cap).Draw(t, "l"), N: rapid.IntRange(1, 12).Draw(t, "n"), Impl: rapid.IntRange(0, 1).Draw(t, "impl")}
			if i > 0 && rapid.IntRange(0, 2).Draw(t, "again") == 0 { // the same call once more
				g.L, g.N = c.Calls[i-1].L, c.Calls[i-1].N
			}
			c.Calls = append(c.Calls, g)
		}
		return checkGroupSeq(r, c)
	})
}
