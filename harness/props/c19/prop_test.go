// C19 — iterator and collection helpers produce exact sequences and partitions.
package c19

import (
	"encoding/json"
	"fmt"
	"math"
	"math/big"
	"reflect"
	"strings"
	"testing"

	"verif/internal/vk"

	plush "github.com/gobuffalo/plush/v5"
	"github.com/gobuffalo/plush/v5/helpers/iterators"
	"github.com/gobuffalo/plush/v5/helpers/meta"
	"pgregory.net/rapid"
)

func TestMain(m *testing.M) { vk.Main(m) }

// ---- range / between / until -------------------------------------------------

type IterCase struct {
	Fn string `json:"fn"` // range | between | until
	A  int    `json:"a"`
	B  int    `json:"b"` // unused for until
}

func (c IterCase) String() string {
	if c.Fn == "until" {
		return fmt.Sprintf("until(%d)", c.A)
	}
	return fmt.Sprintf("%s(%d, %d)", c.Fn, c.A, c.B)
}

const steps = 64

func interval(c IterCase) (lo, hi *big.Int) {
	a, b := big.NewInt(int64(c.A)), big.NewInt(int64(c.B))
	one := big.NewInt(1)
	switch c.Fn {
	case "range":
		return a, b
	case "between":
		return new(big.Int).Add(a, one), new(big.Int).Sub(b, one)
	default:
		return big.NewInt(0), new(big.Int).Sub(a, one)
	}
}

func checkIter(r *vk.Run, c IterCase) *vk.Fail {
	defer r.Watch("iter", c)()
	fail := func(f string, a ...interface{}) *vk.Fail {
		return &vk.Fail{Kind: "iter", Case: c, Msg: c.String() + ": " + fmt.Sprintf(f, a...)}
	}
	lo, hi := interval(c)
	var it iterators.Iterator
	res := vk.Safe(func() (string, error) {
		switch c.Fn {
		case "range":
			it = iterators.Range(c.A, c.B)
		case "between":
			it = iterators.Between(c.A, c.B)
		default:
			it = iterators.Until(c.A)
		}
		return "", nil
	})
	if res.Panicked() {
		return fail("%s", res)
	}
	cur := new(big.Int).Set(lo)
	exhausted := false
	var msg string
	res = vk.Safe(func() (string, error) {
		for i := 0; i < steps; i++ {
			got := it.Next()
			if cur.Cmp(hi) > 0 { // model exhausted
				if got != nil {
					msg = fmt.Sprintf("step %d: expected exhaustion (interval [%v, %v]), got %v", i, lo, hi, got)
					return "", nil
				}
				exhausted = true
				for k := 0; k < 3; k++ {
					if again := it.Next(); again != nil {
						msg = fmt.Sprintf("yields %v after having been exhausted", again)
						return "", nil
					}
				}
				return "", nil
			}
			gi, ok := got.(int)
			if !ok || big.NewInt(int64(gi)).Cmp(cur) != 0 {
				msg = fmt.Sprintf("step %d: expected %v (interval [%v, %v]), got %v", i, cur, lo, hi, got)
				return "", nil
			}
			cur.Add(cur, big.NewInt(1))
		}
		return "", nil
	})
	if res.Panicked() {
		return fail("%s", res)
	}
	if msg != "" {
		return fail("%s", msg)
	}
	ext := c.A == math.MinInt || c.A == math.MaxInt || c.A == math.MinInt+1 || c.A == math.MaxInt-1 ||
		c.B == math.MinInt || c.B == math.MaxInt || c.B == math.MinInt+1 || c.B == math.MaxInt-1
	nt := ""
	if lo.Cmp(hi) > 0 || ext || lo.Sign() < 0 {
		nt = c.String()
	}
	cls := c.Fn
	if ext {
		cls += "/extreme"
	}
	r.Count(nt, cls)
	if nt != "" {
		r.Sample(func() interface{} {
			return map[string]interface{}{"call": c.String(), "interval": fmt.Sprintf("[%v, %v]", lo, hi)}
		})
	}
	// through a template for loop, when the direct walk showed it ends
	if exhausted {
		var want strings.Builder
		n := 0
		for x := new(big.Int).Set(lo); x.Cmp(hi) <= 0; x.Add(x, big.NewInt(1)) {
			fmt.Fprintf(&want, "%d:%v,", n, x)
			n++
		}
		src := `<%= for (k, i) in ` + c.Fn + `(a, b) { %><%= k %>:<%= i %>,<% } %>`
		if c.Fn == "until" {
			src = `<%= for (k, i) in until(a) { %><%= k %>:<%= i %>,<% } %>`
		}
		ctx := plush.NewContextWith(map[string]interface{}{"a": c.A, "b": c.B})
		tr := vk.Safe(func() (string, error) { return plush.Render(src, ctx) })
		r.Evals(1)
		if tr.Panicked() || tr.Err != nil || tr.Out != want.String() {
			return fail("template loop %q gave %s, want %q", src, tr, want.String())
		}
	}
	return nil
}

// ---- groupBy -------------------------------------------------------------------

type item struct{ N int }

type GroupCase struct {
	Len   int    `json:"len"`
	N     int    `json:"n"`
	Elem  string `json:"elem"`            // string | int | struct | ptr
	Form  string `json:"form"`            // slice | ptr-slice | ptr-array | array
	Spare int    `json:"spare,omitempty"` // extra capacity behind the slice, filled with stale elements that are NOT part of xs
}

var arrayTypes = map[string]reflect.Type{
	"string": reflect.TypeOf(""), "int": reflect.TypeOf(0), "struct": reflect.TypeOf(item{}), "ptr": reflect.TypeOf(&item{}),
}

// build constructs the sequence and the flat list of its elements as interface values.
func (c GroupCase) build() (seq interface{}, flat []interface{}) {
	et := arrayTypes[c.Elem]
	full := reflect.MakeSlice(reflect.SliceOf(et), c.Len+c.Spare, c.Len+c.Spare)
	for i := 0; i < c.Len+c.Spare; i++ {
		k := i
		if i >= c.Len {
			k = 9000 + i // stale element in the spare capacity
		}
		var v reflect.Value
		switch c.Elem {
		case "string":
			v = reflect.ValueOf(fmt.Sprintf("e%d", k))
		case "int":
			v = reflect.ValueOf(k)
		case "struct":
			v = reflect.ValueOf(item{k})
		default:
			v = reflect.ValueOf(&item{k})
		}
		full.Index(i).Set(v)
		if i < c.Len {
			flat = append(flat, v.Interface())
		}
	}
	sl := full.Slice(0, c.Len) // len c.Len, cap c.Len+c.Spare
	switch c.Form {
	case "slice":
		return sl.Interface(), flat
	case "ptr-slice":
		p := reflect.New(sl.Type())
		p.Elem().Set(sl)
		return p.Interface(), flat
	default:
		at := reflect.ArrayOf(c.Len, et)
		p := reflect.New(at)
		reflect.Copy(p.Elem(), sl)
		if c.Form == "ptr-array" {
			return p.Interface(), flat
		}
		return p.Elem().Interface(), flat
	}
}

func drain(it interface{ Next() interface{} }) []interface{} {
	var out []interface{}
	for i := 0; i < 1000; i++ {
		g := it.Next()
		if g == nil {
			return out
		}
		out = append(out, g)
	}
	return append(out, "ITERATOR DID NOT END AFTER 1000 GROUPS")
}

func lawCheck(groups []interface{}, flat []interface{}, n int) string {
	if len(groups) > n {
		return fmt.Sprintf("%d groups > n", len(groups))
	}
	var cat []interface{}
	size := -1
	for gi, g := range groups {
		gv := reflect.ValueOf(g)
		if gv.Kind() != reflect.Slice && gv.Kind() != reflect.Array {
			return fmt.Sprintf("group %d is a %T, not a sequence", gi, g)
		}
		if gv.Len() == 0 {
			return fmt.Sprintf("group %d is empty", gi)
		}
		if gi < len(groups)-1 {
			if size == -1 {
				size = gv.Len()
			} else if gv.Len() != size {
				return fmt.Sprintf("group %d has %d elements, earlier groups %d", gi, gv.Len(), size)
			}
		} else if size != -1 && gv.Len() > size {
			return fmt.Sprintf("last group has %d elements, earlier groups %d", gv.Len(), size)
		}
		for i := 0; i < gv.Len(); i++ {
			cat = append(cat, gv.Index(i).Interface())
		}
	}
	if len(cat) != len(flat) {
		return fmt.Sprintf("concatenation has %d elements, input %d", len(cat), len(flat))
	}
	for i := range cat {
		if cat[i] != flat[i] { // ints, strings, comparable structs, pointer identity
			return fmt.Sprintf("element %d of the concatenation is %v, input has %v", i, cat[i], flat[i])
		}
	}
	return ""
}

func checkGroup(r *vk.Run, c GroupCase) *vk.Fail {
	defer r.Watch("group", c)()
	fail := func(f string, a ...interface{}) *vk.Fail {
		return &vk.Fail{Kind: "group", Case: c, Msg: fmt.Sprintf("groupBy(%d, %s of %d %s): ", c.N, c.Form, c.Len, c.Elem) + fmt.Sprintf(f, a...)}
	}
	type outcome struct {
		groups []interface{}
		err    error
	}
	run := func(which string) (outcome, *vk.Fail) {
		seq, _ := c.build()
		var o outcome
		res := vk.Safe(func() (string, error) {
			if which == "iterators.GroupBy" {
				it, err := iterators.GroupBy(c.N, seq)
				o.err = err
				if err == nil {
					o.groups = drain(it)
				}
			} else {
				it, err := plush.GroupByHelper(c.N, seq)
				o.err = err
				if err == nil {
					o.groups = drain(it)
				}
			}
			return "", nil
		})
		if res.Panicked() {
			return o, fail("%s: %s", which, res)
		}
		return o, nil
	}
	_, flat := c.build()
	var outs [2]outcome
	for i, which := range []string{"iterators.GroupBy", "plush.GroupByHelper"} {
		o, f := run(which)
		if f != nil {
			return f
		}
		outs[i] = o
		if c.N <= 0 {
			if o.err == nil {
				return fail("%s: n<=0 must be an error, got %d groups", which, len(o.groups))
			}
			continue
		}
		if o.err != nil {
			return fail("%s: unexpected error %v", which, o.err)
		}
		// rebuild flat from this run's sequence for pointer identity
		if msg := lawCheck(o.groups, flatOf(o.groups, flat, c), c.N); msg != "" {
			return fail("%s: %s (groups %v)", which, msg, o.groups)
		}
	}
	if c.N > 0 && len(outs[0].groups) != len(outs[1].groups) {
		return fail("the two implementations disagree: %d vs %d groups", len(outs[0].groups), len(outs[1].groups))
	}
	nt := ""
	if c.N > 0 && c.Len > 0 && (c.Len%c.N != 0 || c.Form != "slice" || c.Len <= c.N) {
		nt = fmt.Sprintf("G|%d|%d|%s|%s", c.Len, c.N, c.Elem, c.Form)
	}
	r.Count(nt, "groupBy/"+c.Form)
	if nt != "" {
		r.Sample(func() interface{} { return map[string]interface{}{"case": c, "groups": len(outs[0].groups)} })
	}
	// through a template (ints and strings only: printable elements)
	if c.N > 0 && (c.Elem == "int" || c.Elem == "string") && c.Len <= 12 {
		seq, fl := c.build()
		ctx := plush.NewContextWith(map[string]interface{}{"xs": seq, "n": c.N})
		tr := vk.Safe(func() (string, error) {
			return plush.Render(`<%= for (g) in groupBy(n, xs) { %>[<%= for (x) in g { %><%= x %>,<% } %>]<% } %>`, ctx)
		})
		r.Evals(1)
		if tr.Panicked() || tr.Err != nil {
			return fail("template: %s", tr)
		}
		flatTxt := ""
		for _, x := range fl {
			flatTxt += fmt.Sprint(x) + ","
		}
		got := strings.NewReplacer("[", "", "]", "").Replace(tr.Out)
		if got != flatTxt {
			return fail("template: groups concatenate to %q, want %q (output %q)", got, flatTxt, tr.Out)
		}
		if strings.Count(tr.Out, "[") > c.N || strings.Contains(tr.Out, "[]") {
			return fail("template: output %q has more than n groups or an empty group", tr.Out)
		}
	}
	return nil
}

// flatOf: pointer elements are rebuilt by every build(), so for pointer elements
// compare by pointee value instead of identity.
func flatOf(groups []interface{}, flat []interface{}, c GroupCase) []interface{} {
	if c.Elem != "ptr" {
		return flat
	}
	var out []interface{}
	for _, g := range groups {
		gv := reflect.ValueOf(g)
		if gv.Kind() != reflect.Slice && gv.Kind() != reflect.Array {
			return flat
		}
		for i := 0; i < gv.Len(); i++ {
			out = append(out, gv.Index(i).Interface())
		}
	}
	// order check by pointee value
	for i, p := range out {
		if q, ok := p.(*item); !ok || q == nil || q.N != i {
			return flat // let lawCheck report the mismatch
		}
	}
	if len(out) != len(flat) {
		return flat
	}
	return out
}

type NonSeqCase struct {
	Kind string `json:"kind"`
}

func nonSeq(kind string) interface{} {
	switch kind {
	case "int":
		return 7
	case "string":
		return "abc"
	case "map":
		return map[string]int{"a": 1}
	case "struct":
		return item{1}
	case "nil":
		return nil
	case "nil-ptr-slice":
		return (*[]int)(nil)
	case "func":
		return func() {}
	case "bool":
		return true
	}
	return 1.5
}

func checkNonSeq(r *vk.Run, c NonSeqCase) *vk.Fail {
	defer r.Watch("nonseq", c)()
	for _, which := range []string{"iterators.GroupBy", "plush.GroupByHelper"} {
		var err error
		res := vk.Safe(func() (string, error) {
			if which == "iterators.GroupBy" {
				_, err = iterators.GroupBy(2, nonSeq(c.Kind))
			} else {
				_, err = plush.GroupByHelper(2, nonSeq(c.Kind))
			}
			return "", nil
		})
		if res.Panicked() {
			return &vk.Fail{Kind: "nonseq", Case: c, Msg: fmt.Sprintf("%s(2, %s): %s", which, c.Kind, res)}
		}
		if err == nil {
			return &vk.Fail{Kind: "nonseq", Case: c, Msg: fmt.Sprintf("%s(2, %s): a non-sequence must be an error", which, c.Kind)}
		}
	}
	r.Count("N|"+c.Kind, "groupBy/non-sequence")
	return nil
}

// ---- len -------------------------------------------------------------------------

type LenCase struct {
	Kind string `json:"kind"` // string | slice | array | map | ptr-slice | ptr-array | ptr-map | ptr-string
	N    int    `json:"n"`
}

func (c LenCase) build() interface{} {
	switch c.Kind {
	case "string":
		return strings.Repeat("é", c.N) // Go len counts bytes
	case "ptr-string":
		s := strings.Repeat("x", c.N)
		return &s
	case "slice":
		return make([]int, c.N)
	case "ptr-slice":
		s := make([]string, c.N)
		return &s
	case "array", "ptr-array":
		p := reflect.New(reflect.ArrayOf(c.N, reflect.TypeOf(0)))
		if c.Kind == "array" {
			return p.Elem().Interface()
		}
		return p.Interface()
	default:
		m := map[int]bool{}
		for i := 0; i < c.N; i++ {
			m[i] = true
		}
		if c.Kind == "map" {
			return m
		}
		return &m
	}
}

func checkLen(r *vk.Run, c LenCase) *vk.Fail {
	defer r.Watch("len", c)()
	v := c.build()
	want := reflect.Indirect(reflect.ValueOf(v)).Len()
	var got int
	res := vk.Safe(func() (string, error) { got = meta.Len(v); return "", nil })
	if res.Panicked() || got != want {
		return &vk.Fail{Kind: "len", Case: c, Msg: fmt.Sprintf("Len(%s of %d) = %d (%s), Go len is %d", c.Kind, c.N, got, res, want)}
	}
	ctx := plush.NewContextWith(map[string]interface{}{"x": v})
	tr := vk.Safe(func() (string, error) { return plush.Render(`<%= len(x) %>`, ctx) })
	if tr.Panicked() || tr.Err != nil || tr.Out != fmt.Sprint(want) {
		return &vk.Fail{Kind: "len", Case: c, Msg: fmt.Sprintf("<%%= len(x) %%> for %s of %d gave %s, want %d", c.Kind, c.N, tr, want)}
	}
	nt := ""
	if c.Kind != "slice" || c.N == 0 {
		nt = fmt.Sprintf("L|%s|%d", c.Kind, c.N)
	}
	r.Count(nt, "len/"+c.Kind)
	return nil
}

// ---- the test ----------------------------------------------------------------------

const rule = "range/between/until: (E) all a, b, n in [-8,8] plus every combination of the int extremes {MinInt, MinInt+1, -1, 0, 1, MaxInt-1, MaxInt} in every argument position; (R) random ints. The oracle walks the iterator next to the interval computed with math/big for at most 64 steps (so termination is decided by 'exhausted exactly when the model is', never by running 2^63 steps), then re-runs finished cases through a template for loop. groupBy: (E) lengths 0..40 x n in [-2,12] x element types {string,int,struct,pointer} x forms {slice, pointer to slice, pointer to array, array} x spare capacity behind the slice {0,1,5} filled with stale elements; both shipped implementations; partition laws (concatenation = input, <= n groups, no empty group, all but the last of equal size, last not larger) + error for n<=0 and for non-sequences; small cases also through a nested template loop. len: lengths 0..6 of string/slice/array/map and pointers to them, directly and through a template. Non-trivial = empty or negative or extreme interval; len not divisible by n, len <= n or non-slice form; non-slice or empty len argument. Distinct by call."

func setup(t *testing.T) *vk.Run {
	r := vk.Start(t, "C19", rule,
		"an iterator that agrees with the model for 64 steps on an interval longer than that is accepted without being run to its end",
		"group elements are compared with == (pointee value for pointer elements)")
	r.Replayer("iter", func(raw json.RawMessage) *vk.Fail {
		var c IterCase
		if f := vk.Decode(raw, &c); f != nil {
			return f
		}
		return checkIter(r, c)
	})
	r.Replayer("group", func(raw json.RawMessage) *vk.Fail {
		var c GroupCase
		if f := vk.Decode(raw, &c); f != nil {
			return f
		}
		if arrayTypes[c.Elem] == nil || c.Len < 0 || c.Len > 10000 || c.Spare < 0 || c.Spare > 1000 {
			return &vk.Fail{Kind: "decode", Msg: "bad group case"}
		}
		return checkGroup(r, c)
	})
	r.Replayer("nonseq", func(raw json.RawMessage) *vk.Fail {
		var c NonSeqCase
		if f := vk.Decode(raw, &c); f != nil {
			return f
		}
		return checkNonSeq(r, c)
	})
	r.Replayer("len", func(raw json.RawMessage) *vk.Fail {
		var c LenCase
		if f := vk.Decode(raw, &c); f != nil {
			return f
		}
		return checkLen(r, c)
	})
	return r
}

func TestReplay(t *testing.T) { setup(t).ReplayEnv() }

var extremes = []int{math.MinInt, math.MinInt + 1, -1, 0, 1, math.MaxInt - 1, math.MaxInt}

func TestProp(t *testing.T) {
	r := setup(t)
	defer r.Finish()
	r.ReplayCommitted()

	var n int64
	for a := -8; a <= 8; a++ {
		r.Check(checkIter(r, IterCase{Fn: "until", A: a}))
		n++
		for b := -8; b <= 8; b++ {
			r.Check(checkIter(r, IterCase{Fn: "range", A: a, B: b}))
			r.Check(checkIter(r, IterCase{Fn: "between", A: a, B: b}))
			n += 2
		}
	}
	r.Subspace("range/between/until with all arguments in [-8,8]", n, true)
	n = 0
	for _, a := range extremes {
		r.Check(checkIter(r, IterCase{Fn: "until", A: a}))
		n++
		for _, b := range extremes {
			r.Check(checkIter(r, IterCase{Fn: "range", A: a, B: b}))
			r.Check(checkIter(r, IterCase{Fn: "between", A: a, B: b}))
			n += 2
		}
		for d := -3; d <= 3; d++ { // short intervals hugging each extreme
			if (d > 0 && a > math.MaxInt-d) || (d < 0 && a < math.MinInt-d) {
				continue
			}
			r.Check(checkIter(r, IterCase{Fn: "range", A: a, B: a + d}))
			r.Check(checkIter(r, IterCase{Fn: "range", A: a + d, B: a}))
			r.Check(checkIter(r, IterCase{Fn: "between", A: a, B: a + d}))
			r.Check(checkIter(r, IterCase{Fn: "between", A: a + d, B: a}))
			n += 4
		}
	}
	r.Subspace("range/between/until at the int extremes (7 values per argument position, +-3 neighbourhoods)", n, true)

	maxLen := r.Pick(24, 40)
	elems := []string{"string", "int", "struct", "ptr"}
	forms := []string{"slice", "ptr-slice", "ptr-array", "array"}
	total := int64(maxLen+1) * 15 * int64(len(elems)*len(forms)) * 3
	r.Subspace(fmt.Sprintf("groupBy: lengths 0..%d x n in [-2,12] x 4 element types x 4 forms x spare capacity {0,1,5}, both implementations", maxLen), total, true)
	r.Parallel(total, 0, func(i int64) {
		spare := []int{0, 1, 5}[i%3]
		i /= 3
		f := forms[i%4]
		e := elems[(i/4)%4]
		nn := int((i/16)%15) - 2
		l := int(i / 16 / 15)
		r.Check(checkGroup(r, GroupCase{Len: l, N: nn, Elem: e, Form: f, Spare: spare}))
	})
	for _, k := range []string{"int", "string", "map", "struct", "nil", "nil-ptr-slice", "func", "bool", "float"} {
		r.Check(checkNonSeq(r, NonSeqCase{Kind: k}))
	}
	for _, k := range []string{"string", "ptr-string", "slice", "ptr-slice", "array", "ptr-array", "map", "ptr-map"} {
		for l := 0; l <= 6; l++ {
			r.Check(checkLen(r, LenCase{Kind: k, N: l}))
		}
	}

	r.Rapid("iterators", r.Pick(5000, 60000), func(t *rapid.T) *vk.Fail {
		pick := func(label string) int {
			switch rapid.IntRange(0, 3).Draw(t, label+"_k") {
			case 0:
				return rapid.SampledFrom(extremes).Draw(t, label+"_x") // extremes
			case 1:
				e := rapid.SampledFrom(extremes).Draw(t, label+"_x")
				d := rapid.IntRange(-70, 70).Draw(t, label+"_d")
				if (d > 0 && e > math.MaxInt-d) || (d < 0 && e < math.MinInt-d) {
					return e
				}
				return e + d
			case 2:
				return rapid.IntRange(-100, 100).Draw(t, label)
			}
			return rapid.Int().Draw(t, label)
		}
		c := IterCase{Fn: rapid.SampledFrom([]string{"range", "between", "until"}).Draw(t, "fn"), A: pick("a")}
		if c.Fn != "until" {
			c.B = pick("b")
		}
		return checkIter(r, c)
	})
	r.Rapid("groupBy", r.Pick(3000, 40000), func(t *rapid.T) *vk.Fail {
		return checkGroup(r, GroupCase{Len: rapid.IntRange(0, 300).Draw(t, "len"), N: rapid.IntRange(-3, 320).Draw(t, "n"),
			Elem: rapid.SampledFrom(elems).Draw(t, "elem"), Form: rapid.SampledFrom(forms).Draw(t, "form"), Spare: rapid.IntRange(0, 9).Draw(t, "spare")})
	})
}
