// C06 — operators, precedence and associativity agree with a reference evaluator.
package c06

import (
	"encoding/json"
	"fmt"
	"hash/fnv"
	"html"
	"math"
	"reflect"
	"regexp"
	"strings"
	"sync"
	"testing"

	"verif/internal/model"
	"verif/internal/vk"

	plush "github.com/gobuffalo/plush/v5"
	"pgregory.net/rapid"
)

func TestMain(m *testing.M) { vk.Main(m) }

// ---- serialisable expression trees ---------------------------------------------

// E is the JSON form of an expression: exactly one field is used.
type E struct {
	Leaf  string `json:"leaf,omitempty"` // name of a pool leaf
	Op    string `json:"op,omitempty"`   // binary operator
	L     *E     `json:"l,omitempty"`
	R     *E     `json:"r,omitempty"`
	Not   *E     `json:"not,omitempty"`
	Paren *E     `json:"paren,omitempty"` // redundant parentheses
	Trace int    `json:"trace,omitempty"` // >0: wrapped in the recording helper t(Trace, x)
}

type Case struct {
	Expr E `json:"expr"`
}

// the leaf pool: name -> (model expression, whether it is a variable holding a value)
type leafDef struct {
	expr model.Expr
}

var data = map[string]interface{}{
	"n3": -3, "n1": -1, "nf": -2.5, "big": 9007199254740993, "vs": "v<s>", "vt": true, "vz": 0,
	"fbig": 2.5e9, "ftiny": 0.00001, // floats whose printed form uses an exponent
	"feps": 1e-10, "vf": false, "maxi": math.MaxInt64, "mini": math.MinInt64, "negz": math.Copysign(0, -1),
	"i5": 5, "i2": 2, "in4": -4, "i0": 0, // the reference sees integers; plush receives them as int64 (plushOverride)
	"xs": []interface{}{"e0", "e1", "e2", "e3"},
	// operands reached through an index, a key, a field, a field of an element: the reference knows a field path as a
	// plain name ("st.N"), plush receives the struct (plushExtra)
	"pa":   []interface{}{7, 2, 1.5, "a", true, false, 0.5, "b2"},
	"mp":   &model.OrderedMap{Keys: []interface{}{"k", "s", "b"}, Vals: map[interface{}]interface{}{"k": 7, "s": "a", "b": false}},
	"st.N": 7, "st.M": 2, "st.F": 1.5, "st.S": "a", "st.B": true, "st.In.N": 1, "ps[1].N": 2, "ps[0].S": "b2", "ps[0].B": false,
}

type inner struct{ N int }
type rec struct {
	N, M int
	F    float64
	S    string
	B    bool
	In   inner
}

// plushExtra: Go values only plush sees; leafNeeds names the one a leaf reads
var plushExtra = map[string]interface{}{
	"st": rec{N: 7, M: 2, F: 1.5, S: "a", B: true, In: inner{N: 1}},
	"ps": []rec{{N: 9, S: "b2", B: false}, {N: 2, S: "x", B: true}},
}

// decoys: template variables named like the fields and keys; they must not be mistaken for them
var decoys = map[string]interface{}{"N": 1000, "M": 2000, "F": 9.5, "S": "zz", "B": false, "In": 5, "k": "s", "s": "k"}

var leafNeeds = map[string]string{"st.N": "st", "st.M": "st", "st.F": "st", "st.S": "st", "st.B": "st", "st.In.N": "st", "ps[1].N": "ps", "ps[0].S": "ps", "ps[0].B": "ps"}

// constant helpers: operands that are calls
var constHelpers = map[string]interface{}{"h7": 7, "h2": 2, "hf": 1.5, "hs": "a", "hb": true, "hn": false}

func addConstHelpers(m map[string]model.Helper) map[string]model.Helper {
	for name, v := range constHelpers {
		v := v
		m[name] = func([]interface{}) (interface{}, error) { return v, nil }
	}
	return m
}

// plushOverride: Go values handed to plush in place of the reference's value of the same name. The int64 family are
// integer operands like any other; the reference computes with integers and sameVal compares int64 and int by value.
var plushOverride = map[string]interface{}{"i5": int64(5), "i2": int64(2), "in4": int64(-4), "i0": int64(0)}

func plushData(d map[string]interface{}) map[string]interface{} {
	m := make(map[string]interface{}, len(d))
	for k, v := range d {
		if _, path := leafNeeds[k]; path {
			continue
		}
		if o, ok := plushOverride[k]; ok {
			v = o
		}
		m[k] = v
	}
	for k, v := range plushExtra {
		m[k] = v
	}
	for k, v := range decoys {
		m[k] = v
	}
	return m
}

// dataFor: the variables an expression names, as plush receives them (model.Context copies the map for every render)
func dataFor(e *E, m map[string]interface{}) map[string]interface{} {
	switch {
	case e.Leaf != "":
		switch v := leaves[e.Leaf].(type) {
		case model.Var:
			if need, ok := leafNeeds[e.Leaf]; ok {
				m[need] = plushExtra[need]
				for k, v := range decoys {
					m[k] = v
				}
			} else if val, ok := data[v.Name]; ok {
				if o, ok := plushOverride[v.Name]; ok {
					val = o
				}
				m[v.Name] = val
			}
		case model.Idx:
			name := v.X.(model.Var).Name
			m[name] = data[name]
		}
	case e.Not != nil:
		dataFor(e.Not, m)
	case e.Paren != nil:
		dataFor(e.Paren, m)
	default:
		dataFor(e.L, m)
		dataFor(e.R, m)
	}
	return m
}

var leaves = map[string]model.Expr{
	"0": model.Lit{V: 0}, "1": model.Lit{V: 1}, "2": model.Lit{V: 2}, "7": model.Lit{V: 7},
	"n3": model.Var{Name: "n3"}, "n1": model.Var{Name: "n1"}, "big": model.Var{Name: "big"}, "vz": model.Var{Name: "vz"},
	"1.5": model.Lit{V: 1.5}, "0.0": model.Lit{V: 0.0}, "2.0": model.Lit{V: 2.0}, "nf": model.Var{Name: "nf"},
	"1000000.0": model.Lit{V: 1000000.0}, "fbig": model.Var{Name: "fbig"}, "ftiny": model.Var{Name: "ftiny"},
	`"a"`: model.Lit{V: "a"}, `"b2"`: model.Lit{V: "b2"}, `""`: model.Lit{V: ""}, `"^a"`: model.Lit{V: "^a"}, `"("`: model.Lit{V: "("}, "vs": model.Var{Name: "vs"},
	"true": model.Lit{V: true}, "false": model.Lit{V: false}, "vt": model.Var{Name: "vt"},
	"nil": model.Lit{V: nil}, "unk": model.Var{Name: "unk"},
	// boundaries: a two-digit literal, literals beyond 2^31 and 2^53, the largest literal, the extreme variables
	"10": model.Lit{V: 10}, "2147483648": model.Lit{V: 2147483648}, "9007199254740993": model.Lit{V: 9007199254740993},
	"9223372036854775807": model.Lit{V: math.MaxInt64}, "maxi": model.Var{Name: "maxi"}, "mini": model.Var{Name: "mini"},
	// floats that are not exactly representable (0.1 + 0.2 != 0.3), a literal printed with an exponent, minus zero
	"0.1": model.Lit{V: 0.1}, "0.2": model.Lit{V: 0.2}, "0.3": model.Lit{V: 0.3}, "0.5": model.Lit{V: 0.5},
	"123456789.0": model.Lit{V: 123456789.0}, "negz": model.Var{Name: "negz"}, "feps": model.Var{Name: "feps"},
	// strings that look like other operands or like operators, upper case
	`"A"`: model.Lit{V: "A"}, `"2"`: model.Lit{V: "2"}, `"1.5"`: model.Lit{V: "1.5"}, `"true"`: model.Lit{V: "true"},
	`"a && b"`: model.Lit{V: "a && b"}, `"é"`: model.Lit{V: "é"}, `"10"`: model.Lit{V: "10"}, `"q\"q"`: model.Lit{V: `q"q`},
	"vf": model.Var{Name: "vf"},
	// int64 family (own phases only: mixing int64 with int is not fixed by the statement)
	"i5": model.Var{Name: "i5"}, "i2": model.Var{Name: "i2"}, "in4": model.Var{Name: "in4"}, "i0": model.Var{Name: "i0"},
	// literals of several digits (phase Z only: what a literal spelled with leading zeros means)
	"12": model.Lit{V: 12}, "64": model.Lit{V: 64}, "100": model.Lit{V: 100}, "123": model.Lit{V: 123}, "777": model.Lit{V: 777}, "1000": model.Lit{V: 1000},
	"10.0": model.Lit{V: 10.0}, "12.5": model.Lit{V: 12.5}, "100.25": model.Lit{V: 100.25},
}

// zeroOnly: leaves that exist for phase Z and stay out of the other phases' pools
var zeroOnly = map[string]bool{"12": true, "64": true, "100": true, "123": true, "777": true, "1000": true, "10.0": true, "12.5": true, "100.25": true}

var i64Leaves = []string{"i5", "i2", "in4", "i0"}

// pathLeaves: operands that are not a literal or a plain name (own phases)
var pathLeaves = []string{"pa[0]", "pa[1]", "pa[2]", "pa[3]", "pa[4]", "pa[5]", `mp["k"]`, `mp["s"]`, `mp["b"]`, "st.N", "st.M", "st.F", "st.S", "st.B", "st.In.N",
	"ps[1].N", "ps[0].S", "ps[0].B", "h7()", "h2()", "hf()", "hs()", "hb()", "hn()"}

func init() {
	for i := 0; i < 8; i++ {
		leaves[fmt.Sprintf("pa[%d]", i)] = model.Idx{X: model.Var{Name: "pa"}, I: model.Lit{V: i}}
	}
	for _, k := range []string{"k", "s", "b"} {
		leaves[fmt.Sprintf("mp[%q]", k)] = model.Idx{X: model.Var{Name: "mp"}, I: model.Lit{V: k}}
	}
	for name := range leafNeeds {
		leaves[name] = model.Var{Name: name}
	}
	for name := range constHelpers {
		leaves[name+"()"] = model.Call{Fn: name}
	}
}

func isPath(name string) bool {
	for _, l := range pathLeaves {
		if l == name {
			return true
		}
	}
	return strings.HasPrefix(name, "pa[")
}

func isI64(name string) bool { return name == "i5" || name == "i2" || name == "in4" || name == "i0" }

var (
	intLeaves    = []string{"0", "1", "2", "7", "n3", "n1", "vz", "big", "10", "2147483648", "maxi"}
	floatLeaves  = []string{"1.5", "0.0", "2.0", "nf", "1000000.0", "fbig", "ftiny", "0.1", "0.2", "0.3", "negz", "feps"}
	stringLeaves = []string{`"a"`, `"b2"`, `""`, `"^a"`, "vs", `"("`, `"A"`, `"2"`, `"true"`, `"10"`}
	boolLeaves   = []string{"true", "false", "vt", "vf"}
	allLeaves    = []string{"0", "2", "7", "n3", "1.5", "0.0", "fbig", `"a"`, `"b2"`, "true", "false", "nil", "unk"}
	quickLeaves  = []string{"2", "n3", "1.5", `"a"`, "true", "nil", "unk"}
	binOps       = []string{"+", "-", "*", "/", "<", "<=", ">", ">=", "==", "!=", "~=", "&&", "||"}
)

func (e *E) toModel() model.Expr {
	var x model.Expr
	switch {
	case e.Leaf != "":
		l, ok := leaves[e.Leaf]
		if !ok {
			panic("unknown leaf " + e.Leaf)
		}
		x = l
	case e.Not != nil:
		x = model.Not{X: e.Not.toModel()}
	case e.Paren != nil:
		x = model.Paren{X: e.Paren.toModel()}
	default:
		x = model.Bin{Op: e.Op, L: e.L.toModel(), R: e.R.toModel()}
	}
	if e.Trace > 0 {
		x = model.Call{Fn: "t", Args: []model.Expr{model.Lit{V: e.Trace}, x}}
	}
	return x
}

func (e *E) valid() bool {
	n := 0
	if e.Leaf != "" {
		if _, ok := leaves[e.Leaf]; !ok {
			return false
		}
		n++
	}
	if e.Not != nil {
		n++
		if !e.Not.valid() {
			return false
		}
	}
	if e.Paren != nil {
		n++
		if !e.Paren.valid() {
			return false
		}
	}
	if e.Op != "" {
		n++
		ok := false
		for _, o := range binOps {
			ok = ok || o == e.Op
		}
		if !ok || e.L == nil || e.R == nil || !e.L.valid() || !e.R.valid() {
			return false
		}
	}
	return n == 1
}

// nesting: how deep the expression nests, parentheses and ! included
func (e *E) nesting() int {
	switch {
	case e == nil:
		return 0
	case e.Not != nil:
		return 1 + e.Not.nesting()
	case e.Paren != nil:
		return 1 + e.Paren.nesting()
	case e.L != nil || e.R != nil:
		l, r := e.L.nesting(), e.R.nesting()
		if r > l {
			l = r
		}
		return 1 + l
	}
	return 0
}

func (e *E) depth() int {
	switch {
	case e.Leaf != "":
		return 0
	case e.Not != nil:
		return 1 + e.Not.depth()
	case e.Paren != nil:
		return e.Paren.depth()
	}
	l, r := e.L.depth(), e.R.depth()
	if r > l {
		l = r
	}
	return 1 + l
}

// ---- oracle --------------------------------------------------------------------

type outcome struct {
	lenient string // the reference forgave an unknown identifier raised inside a tested expression
	val     interface{}
	isErr   bool
	trace   []int
}

// modelDataFor: the variables an expression names, as the reference sees them
func modelDataFor(e *E, m map[string]interface{}) map[string]interface{} {
	switch {
	case e.Leaf != "":
		switch v := leaves[e.Leaf].(type) {
		case model.Var:
			if val, ok := data[v.Name]; ok {
				m[v.Name] = val
			}
		case model.Idx:
			name := v.X.(model.Var).Name
			m[name] = data[name]
		}
	case e.Not != nil:
		modelDataFor(e.Not, m)
	case e.Paren != nil:
		modelDataFor(e.Paren, m)
	default:
		modelDataFor(e.L, m)
		modelDataFor(e.R, m)
	}
	return m
}

func runModel(x model.Expr) (outcome, string) { return runModelWith(x, data) }

func runModelWith(x model.Expr, data map[string]interface{}) (outcome, string) {
	return runModelOpt(x, data, false)
}

// floatFormsDiffer: the engine prints some float otherwise than Go's %v does. Then "string + x concatenates the printed
// form of x" has two readings - the form output tags print, or Go's - and either is accepted.
func floatFormsDiffer() bool {
	return engineFloatText(1e6) != "1e+06" || engineFloatText(1e-5) != "1e-05" || engineFloatText(1.23456789e8) != "1.23456789e+08"
}

func runModelOpt(x model.Expr, data map[string]interface{}, concatGo bool) (outcome, string) {
	var o outcome
	helpers := map[string]model.Helper{
		"t":   func(a []interface{}) (interface{}, error) { o.trace = append(o.trace, a[0].(int)); return a[1], nil },
		"cap": func(a []interface{}) (interface{}, error) { o.val = a[0]; return nil, nil },
	}
	res := model.RunOpt([]model.Node{model.Code{S: model.ExprS{X: model.Call{Fn: "cap", Args: []model.Expr{x}}}}}, data, addConstHelpers(helpers), nil, concatGo)
	if res.Unspec != "" {
		return o, res.Unspec
	}
	o.isErr = res.Err != ""
	o.lenient = res.Lenient
	return o, ""
}

func runPlush(src string, d map[string]interface{}, withConst bool) (outcome, vk.Res) {
	var o outcome
	helpers := map[string]model.Helper{
		"t":   func(a []interface{}) (interface{}, error) { o.trace = append(o.trace, a[0].(int)); return a[1], nil },
		"cap": func(a []interface{}) (interface{}, error) { o.val = a[0]; return nil, nil },
	}
	if withConst {
		addConstHelpers(helpers)
	}
	res := vk.Safe(func() (string, error) { return plush.Render(src, model.Context(d, helpers)) })
	o.isErr = res.Err != nil
	return o, res
}

func sameVal(a, b interface{}) bool {
	if ia, ok := a.(int64); ok {
		a = int(ia)
	}
	if ib, ok := b.(int64); ok {
		b = int(ib)
	}
	return reflect.DeepEqual(a, b)
}

// ---- spellings --------------------------------------------------------------------

// style is one way of writing an expression down. The reference printer writes single blanks and either the minimal or
// the full set of parentheses; the styles below are other legal spellings of the same tree: the tree is fixed by the
// parentheses the stated precedence order demands, blanks and line ends between tokens mean nothing.
type style struct {
	Name   string
	Before string // put before / after every binary operator
	After  string
	Pad    bool // blanks inside parentheses and after !
	LeafP  bool // every leaf in parentheses of its own
	BQuote bool // string literals between back quotes
	Zero   bool // float literals with one more trailing zero
}

var styles = []style{
	{Name: "glued"},
	{Name: "glued-right", Before: " "},           // 7 -2
	{Name: "glued-left", After: " ", Zero: true}, // 7- 2
	{Name: "wide", Before: "  ", After: "\t", Pad: true},
	{Name: "lines", Before: "\n", After: "\n", BQuote: true},
	{Name: "leafparens", Before: " ", After: " ", LeafP: true},
}

// lvl is the binding strength the statement gives: ! > * / > + - > < <= > >= > == != ~= > && ||
func lvl(op string) int {
	switch op {
	case "||", "&&":
		return 1
	case "==", "!=", "~=":
		return 2
	case "<", "<=", ">", ">=":
		return 3
	case "+", "-":
		return 4
	case "*", "/":
		return 5
	}
	panic("unknown operator " + op)
}

const lvlNot = 6

// an identifier may contain '-': a minus sign directly after a name would become part of the name
var identTail = regexp.MustCompile(`[A-Za-z_][A-Za-z0-9_-]*$`)

func (s style) expr(x model.Expr, min int) string {
	leafP := func(t string) string {
		if s.LeafP {
			return "(" + t + ")"
		}
		return t
	}
	switch t := x.(type) {
	case model.Lit:
		if str, ok := t.V.(string); ok && s.BQuote && !strings.Contains(str, "`") {
			return leafP("`" + str + "`")
		}
		txt := model.Printer{}.Expr(t)
		if _, ok := t.V.(float64); ok && s.Zero {
			txt += "0"
		}
		return leafP(txt)
	case model.Var:
		return leafP(t.Name)
	case model.Idx:
		return leafP(model.Printer{}.Expr(t))
	case model.Paren:
		if s.Pad {
			return "( " + s.expr(t.X, 0) + " )"
		}
		return "(" + s.expr(t.X, 0) + ")"
	case model.Not:
		sp := ""
		if s.Pad {
			sp = " "
		}
		txt := "!" + sp + s.expr(t.X, lvlNot)
		if min > lvlNot {
			return "(" + txt + ")"
		}
		return txt
	case model.Bin:
		l := lvl(t.Op)
		ls, rs := s.expr(t.L, l), s.expr(t.R, l+1)
		before := s.Before
		if before == "" && t.Op == "-" && identTail.MatchString(ls) {
			before = " "
		}
		txt := ls + before + t.Op + s.After + rs
		if l < min {
			return "(" + txt + ")"
		}
		return txt
	case model.Call:
		if len(t.Args) == 0 {
			return leafP(t.Fn + "()")
		}
		parts := make([]string, len(t.Args))
		for i, a := range t.Args {
			parts[i] = s.expr(a, 0)
		}
		sep := ", "
		if s.Before == "" && s.After == "" {
			sep = ","
		}
		return t.Fn + "(" + strings.Join(parts, sep) + ")"
	}
	panic(fmt.Sprintf("style: cannot print %T", x))
}

func hashOf(s string) uint32 {
	h := fnv.New32a()
	h.Write([]byte(s))
	return h.Sum32()
}

// checkExpr renders the minimal and the full parenthesisation and nstyles further spellings (all of them if < 0).
func checkExpr(r *vk.Run, c Case, class string) *vk.Fail { return checkExprN(r, c, class, 1) }

// sparse: the big depth-2 spaces are about tree shape, not about spelling: one further spelling for every eighth tree
const sparse = -4

func checkExprN(r *vk.Run, c Case, class string, nstyles int) *vk.Fail {
	defer r.Watch("expr", c)()
	x := c.Expr.toModel()
	want, unspec := runModelWith(x, modelDataFor(&c.Expr, map[string]interface{}{}))
	if unspec != "" {
		r.Exclude("unspecified")
		return nil
	}
	min := model.Printer{}.Expr(x)
	full := model.Printer{FullParens: true}.Expr(x)
	spellings := []string{min, full}
	if nstyles == sparse {
		nstyles = 0
		if hashOf(min)%8 == 1 {
			nstyles = 1
		}
	}
	if nstyles < 0 || nstyles > len(styles) {
		nstyles = len(styles)
	}
	for k, h := 0, int(hashOf(min)%uint32(len(styles))); k < nstyles; k++ {
		st := styles[(h+k)%len(styles)]
		if sp := st.expr(x, 0); sp != min && sp != full {
			spellings = append(spellings, sp)
			r.Class("spelling/" + st.Name)
		}
	}
	d := dataFor(&c.Expr, map[string]interface{}{})
	for _, spelling := range spellings {
		src := "<% cap(" + spelling + ") %>"
		got, res := runPlush(src, d, strings.Contains(min, "()"))
		fail := func(f string, a ...interface{}) *vk.Fail {
			return &vk.Fail{Kind: "expr", Case: c, Msg: fmt.Sprintf("%q: ", src) + fmt.Sprintf(f, a...)}
		}
		if res.Panicked() {
			return fail("%s", res)
		}
		if want.isErr {
			if !got.isErr {
				return fail("reference says this is an error, render succeeded with value %s", model.Describe(got.val))
			}
			if res.Out != "" {
				return fail("error with non-empty output %q", res.Out)
			}
			// evaluation order up to the failure must be a prefix-compatible trace
			continue
		}
		if got.isErr {
			if class == "Nest" && c.Expr.nesting() > 64 && !res.Panicked() {
				// how deep expressions may nest is not stated: beyond 64 levels an engine may refuse with an error
				r.Class("deep nesting refused with an error")
				return nil
			}
			if want.lenient != "" && res.Err != nil && strings.Contains(res.Err.Error(), "unknown identifier") {
				r.Exclude("nested unknown identifier not forgiven")
				return nil
			}
			return fail("reference value %s, render failed: %v", model.Describe(want.val), res.Err)
		}
		if !sameVal(got.val, want.val) && floatFormsDiffer() {
			if alt, u := runModelOpt(x, modelDataFor(&c.Expr, map[string]interface{}{}), true); u == "" && !alt.isErr && sameVal(got.val, alt.val) {
				r.Class("string + float spelled as Go prints it")
				continue
			}
		}
		if !sameVal(got.val, want.val) {
			return fail("value %s, reference says %s", model.Describe(got.val), model.Describe(want.val))
		}
		if !reflect.DeepEqual(got.trace, want.trace) {
			return fail("operands evaluated in order %v, reference says %v (left to right, short-circuit)", got.trace, want.trace)
		}
		if res.Out != "" {
			return fail("a code tag produced output %q", res.Out)
		}
	}
	nt := ""
	if c.Expr.depth() >= 2 || want.isErr {
		nt = min
	}
	if want.isErr {
		class += "/error"
	} else {
		class += fmt.Sprintf("/%T", want.val)
	}
	r.Count(nt, class)
	if nt != "" {
		r.Sample(func() interface{} {
			return map[string]interface{}{"minimal": min, "full": full, "other spellings": spellings[2:], "reference": fmt.Sprintf("%v err=%v", want.val, want.isErr), "trace": want.trace}
		})
	}
	return nil
}

// ---- one expression, several operand tuples in one render ------------------------------------

// SeqCase: ONE expression over the variables p and q is evaluated several times within one render, the operands
// changing kind from one evaluation to the next (an int pair, then a float pair, then strings ...). What an
// operator does may depend on its operands now, not on the operands the same source expression saw before.
type SeqCase struct {
	Expr E           `json:"expr"` // leaves may also be "p" and "q"
	Rows [][2]string `json:"rows"` // pool leaves supplying p and q for each evaluation
	Mode string      `json:"mode"` // fn: let f = fn(p, q) { return EXPR }, called once per row; loop: for (row) in rows { cap(EXPR over row[0], row[1]) }
}

func (e *E) toModelWith(sub map[string]model.Expr) model.Expr {
	if e.Leaf != "" {
		if x, ok := sub[e.Leaf]; ok {
			if e.Trace > 0 {
				return model.Call{Fn: "t", Args: []model.Expr{model.Lit{V: e.Trace}, x}}
			}
			return x
		}
		return e.toModel()
	}
	cp := *e
	cp.Trace = 0
	var x model.Expr
	switch {
	case e.Not != nil:
		x = model.Not{X: e.Not.toModelWith(sub)}
	case e.Paren != nil:
		x = model.Paren{X: e.Paren.toModelWith(sub)}
	default:
		x = model.Bin{Op: e.Op, L: e.L.toModelWith(sub), R: e.R.toModelWith(sub)}
	}
	if e.Trace > 0 {
		x = model.Call{Fn: "t", Args: []model.Expr{model.Lit{V: e.Trace}, x}}
	}
	return x
}

func (e *E) validPQ() bool {
	if e.Leaf == "p" || e.Leaf == "q" {
		return e.Not == nil && e.Paren == nil && e.Op == ""
	}
	switch {
	case e.Leaf != "":
		return e.valid()
	case e.Not != nil:
		return e.Op == "" && e.Paren == nil && e.Not.validPQ()
	case e.Paren != nil:
		return e.Op == "" && e.Paren.validPQ()
	}
	ok := false
	for _, o := range binOps {
		ok = ok || o == e.Op
	}
	return ok && e.L != nil && e.R != nil && e.L.validPQ() && e.R.validPQ()
}

func (e E) toModelP() model.Expr { return e.toModel() }

func leafValue(name string) interface{} {
	switch l := leaves[name].(type) {
	case model.Lit:
		return l.V
	case model.Var:
		return data[l.Name]
	}
	return nil
}

var seqModes = []string{"fn", "loop", "text", "exec"}

func validMode(m string) bool {
	for _, x := range seqModes {
		if x == m {
			return true
		}
	}
	return false
}

func checkSeq(r *vk.Run, c SeqCase, class string) *vk.Fail {
	defer r.Watch("seq", c)()
	if c.Mode == "text" || c.Mode == "exec" {
		for _, row := range c.Rows {
			if leafValue(row[0]) == nil || leafValue(row[1]) == nil {
				r.Exclude("unspecified") // a name bound to nil is an unset name (C10)
				return nil
			}
		}
	}
	d := map[string]interface{}{}
	for k, v := range data {
		d[k] = v
	}
	var prog []model.Node
	capOf := func(x model.Expr) model.Node {
		return model.Code{S: model.ExprS{X: model.Call{Fn: "cap", Args: []model.Expr{x}}}}
	}
	pq := map[string]model.Expr{"p": model.Var{Name: "p"}, "q": model.Var{Name: "q"}}
	switch c.Mode {
	case "fn":
		body := c.Expr.toModelWith(pq)
		prog = append(prog, model.Code{S: model.LetS{Name: "f", X: model.FnLit{Params: []string{"p", "q"}, Body: []model.Node{model.Code{S: model.ReturnS{X: body}}}}}})
		for _, row := range c.Rows {
			prog = append(prog, capOf(model.Call{Fn: "f", Args: []model.Expr{leaves[row[0]], leaves[row[1]]}}))
		}
	case "loop":
		var rows []interface{}
		for _, row := range c.Rows {
			rows = append(rows, []interface{}{leafValue(row[0]), leafValue(row[1])})
		}
		d["rows"] = rows
		body := c.Expr.toModelWith(map[string]model.Expr{
			"p": model.Idx{X: model.Var{Name: "row"}, I: model.Lit{V: 0}}, "q": model.Idx{X: model.Var{Name: "row"}, I: model.Lit{V: 1}}})
		prog = append(prog, model.Code{S: model.ForS{For: &model.For{Val: "row", Iter: model.Var{Name: "rows"}, Body: []model.Node{capOf(body)}}}})
	case "text":
		// the expression is WRITTEN once per row (same text, another node), p and q are rebound in between
		body := c.Expr.toModelWith(pq)
		for i, row := range c.Rows {
			if i == 0 {
				prog = append(prog, model.Code{S: model.LetS{Name: "p", X: leaves[row[0]]}}, model.Code{S: model.LetS{Name: "q", X: leaves[row[1]]}})
			} else {
				prog = append(prog, model.Code{S: model.AssignS{Name: "p", X: leaves[row[0]]}}, model.Code{S: model.AssignS{Name: "q", X: leaves[row[1]]}})
			}
			prog = append(prog, capOf(body))
		}
	case "exec":
		return checkSeqExec(r, c, class)
	default:
		return &vk.Fail{Kind: "decode", Msg: "unknown mode"}
	}
	var want, got seqRun
	ref := model.Run(prog, d, want.helpers())
	if ref.Unspec != "" {
		r.Exclude("unspecified")
		return nil
	}
	src := model.Printer{}.Nodes(prog)
	fail := func(f string, a ...interface{}) *vk.Fail {
		return &vk.Fail{Kind: "seq", Case: c, Msg: fmt.Sprintf("%s  rows %v: ", src, c.Rows) + fmt.Sprintf(f, a...)}
	}
	res := vk.Safe(func() (string, error) { return plush.Render(src, model.Context(plushData(d), got.helpers())) })
	kinds := map[string]bool{}
	for _, v := range want.vals {
		kinds[fmt.Sprintf("%T", v)] = true
	}
	nt := ""
	if len(c.Rows) >= 2 {
		nt = fmt.Sprintf("SEQ|%s|%v", src, c.Rows)
	}
	r.Count(nt, fmt.Sprintf("%s/%s/kinds=%d", class, c.Mode, len(kinds)))
	if nt != "" {
		r.Sample(func() interface{} {
			return map[string]interface{}{"template": src, "rows": c.Rows, "reference_values": fmt.Sprint(want.vals), "reference_error": ref.Err}
		})
	}
	if res.Panicked() {
		return fail("%s", res)
	}
	if ref.Err != "" {
		if res.Err == nil {
			return fail("reference says evaluation %d is an error (%s), render succeeded with values %v", len(want.vals)+1, ref.Err, got.vals)
		}
		return nil
	}
	if res.Err != nil {
		if ref.Lenient != "" && strings.Contains(res.Err.Error(), "unknown identifier") {
			r.Exclude("nested unknown identifier not forgiven")
			return nil
		}
		return fail("reference values %v, render failed: %v", want.vals, res.Err)
	}
	if len(got.vals) != len(want.vals) {
		return fail("%d values captured, reference says %d", len(got.vals), len(want.vals))
	}
	for i := range want.vals {
		if !sameVal(got.vals[i], want.vals[i]) && altSeqAgrees(prog, d, got, "", false) {
			return nil
		}
		if !sameVal(got.vals[i], want.vals[i]) {
			return fail("evaluation %d gave %s, reference says %s", i+1, model.Describe(got.vals[i]), model.Describe(want.vals[i]))
		}
	}
	if !reflect.DeepEqual(got.trace, want.trace) {
		return fail("operands evaluated in order %v, reference says %v", got.trace, want.trace)
	}
	return nil
}

// checkSeqExec: the template <% cap(EXPR) %> is parsed ONCE and executed once per row, p and q coming from the
// context of that execution; every execution is compared with the reference on its own.
func checkSeqExec(r *vk.Run, c SeqCase, class string) *vk.Fail {
	body := c.Expr.toModelWith(map[string]model.Expr{"p": model.Var{Name: "p"}, "q": model.Var{Name: "q"}})
	prog := []model.Node{model.Code{S: model.ExprS{X: model.Call{Fn: "cap", Args: []model.Expr{body}}}}}
	src := model.Printer{}.Nodes(prog)
	fail := func(f string, a ...interface{}) *vk.Fail {
		return &vk.Fail{Kind: "seq", Case: c, Msg: fmt.Sprintf("%s parsed once, executed for rows %v: ", src, c.Rows) + fmt.Sprintf(f, a...)}
	}
	var tmpl *plush.Template
	if res := vk.Safe(func() (string, error) { var err error; tmpl, err = plush.Parse(src); return "", err }); res.Panicked() || res.Err != nil {
		return fail("does not parse: %s", res)
	}
	kinds := map[string]bool{}
	for i, row := range c.Rows {
		d := map[string]interface{}{}
		for k, v := range data {
			d[k] = v
		}
		d["p"], d["q"] = leafValue(row[0]), leafValue(row[1])
		var want, got seqRun
		ref := model.Run(prog, d, want.helpers())
		if ref.Unspec != "" {
			r.Exclude("unspecified")
			return nil
		}
		res := vk.Safe(func() (string, error) { return tmpl.Exec(model.Context(plushData(d), got.helpers())) })
		switch {
		case res.Panicked():
			return fail("execution %d: %s", i+1, res)
		case ref.Err != "" && res.Err == nil:
			return fail("execution %d: reference says error (%s), got values %v", i+1, ref.Err, got.vals)
		case ref.Err != "":
			continue
		case res.Err != nil:
			if ref.Lenient != "" && strings.Contains(res.Err.Error(), "unknown identifier") {
				r.Exclude("nested unknown identifier not forgiven")
				return nil
			}
			return fail("execution %d: reference values %v, failed: %v", i+1, want.vals, res.Err)
		case len(got.vals) == 1 && !sameVal(got.vals[0], want.vals[0]) && altSeqAgrees(prog, d, got, "", false):
			// the other reading of "the printed form" in string + float
		case len(got.vals) != 1 || !sameVal(got.vals[0], want.vals[0]):
			return fail("execution %d gave %v, reference says %s", i+1, got.vals, model.Describe(want.vals[0]))
		case !reflect.DeepEqual(got.trace, want.trace):
			return fail("execution %d: operands evaluated in order %v, reference says %v", i+1, got.trace, want.trace)
		}
		kinds[fmt.Sprintf("%T", want.vals[0])] = true
	}
	nt := ""
	if len(c.Rows) >= 2 {
		nt = fmt.Sprintf("SEQ|exec|%s|%v", src, c.Rows)
	}
	r.Count(nt, fmt.Sprintf("%s/exec/kinds=%d", class, len(kinds)))
	return nil
}

// ---- the expression at other places of a template -----------------------------------------

// SiteCase: the value of an expression does not depend on where it stands. The same tree is the operand of an output
// tag, the right side of let / assignment, an element of an array or hash literal, an argument in second position, the
// value returned by and the argument passed to a template function, the condition of if / else if, an index.
type SiteCase struct {
	Expr E      `json:"expr"`
	Site string `json:"site"`
}

var sites = []string{"emit", "let", "assign", "arr", "arr0", "hash", "arg2", "fnret", "fnarg", "if", "elseif", "emitif", "index", "for", "twice"}

func validSite(s string) bool {
	for _, x := range sites {
		if x == s {
			return true
		}
	}
	return false
}

func siteProg(site string, x model.Expr) []model.Node {
	capOf := func(e model.Expr) model.Node {
		return model.Code{S: model.ExprS{X: model.Call{Fn: "cap", Args: []model.Expr{e}}}}
	}
	lit := func(v interface{}) model.Expr { return model.Lit{V: v} }
	v := model.Var{Name: "v"}
	switch site {
	case "emit":
		return []model.Node{model.Text{S: "["}, model.Emit{X: x}, model.Text{S: "]"}}
	case "let":
		return []model.Node{model.Code{S: model.LetS{Name: "v", X: x}}, capOf(v)}
	case "assign":
		return []model.Node{model.Code{S: model.LetS{Name: "v", X: lit(0)}}, model.Code{S: model.AssignS{Name: "v", X: x}}, capOf(v)}
	case "arr":
		return []model.Node{capOf(model.Idx{X: model.Arr{Els: []model.Expr{lit(1), x}}, I: lit(1)})}
	case "arr0":
		return []model.Node{capOf(model.Idx{X: model.Arr{Els: []model.Expr{x, lit(1)}}, I: lit(0)})}
	case "hash":
		return []model.Node{capOf(model.Idx{X: model.Hash{KVs: []model.KV{{K: "k", V: x}, {K: "j", V: lit(1)}}}, I: lit("k")})}
	case "arg2":
		return []model.Node{capOf(model.Call{Fn: "snd", Args: []model.Expr{lit(9), x}})}
	case "fnret":
		return []model.Node{model.Code{S: model.LetS{Name: "f", X: model.FnLit{Body: []model.Node{model.Code{S: model.ReturnS{X: x}}}}}}, capOf(model.Call{Fn: "f"})}
	case "fnarg":
		return []model.Node{model.Code{S: model.LetS{Name: "f", X: model.FnLit{Params: []string{"a"}, Body: []model.Node{model.Code{S: model.ReturnS{X: model.Var{Name: "a"}}}}}}}, capOf(model.Call{Fn: "f", Args: []model.Expr{x}})}
	case "if":
		return []model.Node{model.Code{S: model.IfS{If: &model.If{Cond: x, Then: []model.Node{capOf(lit(1))}, Else: []model.Node{capOf(lit(0))}, HasElse: true}}}}
	case "elseif":
		return []model.Node{model.Code{S: model.IfS{If: &model.If{Cond: lit(false), Then: []model.Node{capOf(lit(2))},
			ElseIfs: []model.ElseIf{{Cond: x, Then: []model.Node{capOf(lit(1))}}}, Else: []model.Node{capOf(lit(0))}, HasElse: true}}}}
	case "emitif":
		return []model.Node{model.EmitIf{If: &model.If{Cond: x, Then: []model.Node{model.Text{S: "T"}}, Else: []model.Node{model.Text{S: "F"}}, HasElse: true}}}
	case "index":
		return []model.Node{capOf(model.Idx{X: model.Var{Name: "xs"}, I: x})}
	case "for":
		return []model.Node{model.Code{S: model.ForS{For: &model.For{Val: "e", Iter: model.Arr{Els: []model.Expr{x}}, Body: []model.Node{capOf(model.Var{Name: "e"})}}}}}
	case "twice": // two statements in a row: the second begins where the first ends
		return []model.Node{capOf(x), model.Emit{X: x}, capOf(x)}
	}
	panic("unknown site " + site)
}

type seqRun struct {
	vals  []interface{}
	trace []int
}

func (o *seqRun) helpers() map[string]model.Helper {
	return addConstHelpers(map[string]model.Helper{
		"t":   func(a []interface{}) (interface{}, error) { o.trace = append(o.trace, a[0].(int)); return a[1], nil },
		"cap": func(a []interface{}) (interface{}, error) { o.vals = append(o.vals, a[0]); return nil, nil },
		"snd": func(a []interface{}) (interface{}, error) { return a[1], nil },
	})
}

// compareProg renders prog with both printers and compares output, captured values, helper order and error-ness
// with the reference interpreter. ok=false: the reference leaves the program open.
func compareProg(prog []model.Node, d map[string]interface{}, fail func(src, msg string) *vk.Fail) (f *vk.Fail, ok bool, ref model.Result, want seqRun) {
	ref = model.Run(prog, d, want.helpers())
	if ref.Unspec != "" {
		return nil, false, ref, want
	}
	for _, pr := range []model.Printer{{}, {FullParens: true}} {
		src := pr.Nodes(prog)
		var got seqRun
		res := vk.Safe(func() (string, error) { return plush.Render(src, model.Context(plushData(d), got.helpers())) })
		switch {
		case res.Panicked():
			return fail(src, res.String()), true, ref, want
		case ref.Err != "" && res.Err == nil:
			return fail(src, fmt.Sprintf("reference says this is an error (%s), render succeeded with output %q and values %v", ref.Err, res.Out, got.vals)), true, ref, want
		case ref.Err != "":
			if res.Out != "" {
				return fail(src, fmt.Sprintf("error with non-empty output %q", res.Out)), true, ref, want
			}
			continue
		case res.Err != nil:
			if ref.Lenient != "" && strings.Contains(res.Err.Error(), "unknown identifier") {
				return nil, false, ref, want // forgiving an unknown identifier raised inside a tested expression is not demanded
			}
			return fail(src, fmt.Sprintf("reference output %q values %v, render failed: %v", ref.Out, want.vals, res.Err)), true, ref, want
		}
		if altSeqAgrees(prog, d, got, res.Out, true) {
			continue
		}
		if html.UnescapeString(res.Out) != html.UnescapeString(ref.Out) {
			return fail(src, fmt.Sprintf("output %q, reference says %q", res.Out, ref.Out)), true, ref, want
		}
		if len(got.vals) != len(want.vals) {
			return fail(src, fmt.Sprintf("%d values captured %v, reference says %d %v", len(got.vals), got.vals, len(want.vals), want.vals)), true, ref, want
		}
		for i := range want.vals {
			if !sameVal(got.vals[i], want.vals[i]) {
				return fail(src, fmt.Sprintf("value %d is %s, reference says %s", i+1, model.Describe(got.vals[i]), model.Describe(want.vals[i]))), true, ref, want
			}
		}
		if !reflect.DeepEqual(got.trace, want.trace) {
			return fail(src, fmt.Sprintf("operands evaluated in order %v, reference says %v", got.trace, want.trace)), true, ref, want
		}
	}
	return nil, true, ref, want
}

// altSeqAgrees: the render agrees with the reference under the other reading of "the printed form" in string + float.
func altSeqAgrees(prog []model.Node, d map[string]interface{}, got seqRun, out string, withOut bool) bool {
	if !floatFormsDiffer() {
		return false
	}
	var want seqRun
	ref := model.RunOpt(prog, d, want.helpers(), nil, true)
	if ref.Unspec != "" || ref.Err != "" || len(got.vals) != len(want.vals) {
		return false
	}
	for i := range got.vals {
		if !sameVal(got.vals[i], want.vals[i]) {
			return false
		}
	}
	return reflect.DeepEqual(got.trace, want.trace) && (!withOut || html.UnescapeString(out) == html.UnescapeString(ref.Out))
}

func (e *E) hasLeaf(name string) bool {
	switch {
	case e.Leaf != "":
		return e.Leaf == name
	case e.Not != nil:
		return e.Not.hasLeaf(name)
	case e.Paren != nil:
		return e.Paren.hasLeaf(name)
	}
	return e.L.hasLeaf(name) || e.R.hasLeaf(name)
}

func checkSite(r *vk.Run, c SiteCase, class string) *vk.Fail {
	defer r.Watch("site", c)()
	x := c.Expr.toModel()
	// a name bound to nil is an unset name (C10), and what an unknown identifier nested in a larger expression means
	// at these places is another property's business: neither is asserted here
	if o, unspec := runModel(x); unspec != "" || (!o.isErr && o.val == nil) || c.Expr.hasLeaf("unk") {
		r.Exclude("unspecified")
		return nil
	}
	prog := siteProg(c.Site, x)
	f, ok, ref, want := compareProg(prog, data, func(src, msg string) *vk.Fail {
		return &vk.Fail{Kind: "site", Case: c, Msg: fmt.Sprintf("%q: %s", src, msg)}
	})
	if !ok {
		r.Exclude("unspecified")
		return nil
	}
	min := model.Printer{}.Nodes(prog)
	nt := ""
	if c.Site != "" {
		nt = "SITE|" + min
	}
	outcome := "value"
	if ref.Err != "" {
		outcome = "error"
	}
	r.Count(nt, class+"/"+c.Site+"/"+outcome)
	r.Sample(func() interface{} {
		return map[string]interface{}{"template": min, "reference_output": ref.Out, "reference_values": fmt.Sprint(want.vals), "reference_error": ref.Err}
	})
	return f
}

// ---- flat operator sequences and deep nesting ----------------------------------------------

// climb builds the tree the statement prescribes for the unparenthesised text l0 op0 l1 op1 l2 ...: operators of a
// higher level bind first, operators of one level group from the left.
func climb(ls []*E, ops []string) *E {
	pos := 0
	var parse func(min int) *E
	parse = func(min int) *E {
		left := ls[pos]
		for pos < len(ops) && lvl(ops[pos]) >= min {
			op := ops[pos]
			pos++
			right := parse(lvl(op) + 1)
			left = &E{Op: op, L: left, R: right}
		}
		return left
	}
	return parse(0)
}

// flatCase turns a flat sequence into a tree case and makes sure that the minimal spelling of that tree is the flat
// text again (a disagreement would be a defect of this harness, not of plush).
func flatCase(ls []*E, ops []string) Case {
	e := climb(ls, ops)
	var sb strings.Builder
	for i, l := range ls {
		if i > 0 {
			sb.WriteString(" " + ops[i-1] + " ")
		}
		sb.WriteString(model.Printer{}.Expr(l.toModel()))
	}
	if got := (model.Printer{}).Expr(e.toModel()); got != sb.String() {
		panic(fmt.Sprintf("harness: flat text %q, minimal spelling of its tree %q", sb.String(), got))
	}
	return Case{Expr: *e}
}

func nots(e *E, n int) *E {
	for ; n > 0; n-- {
		e = &E{Not: e}
	}
	return e
}

func parens(e *E, n int) *E {
	for ; n > 0; n-- {
		e = &E{Paren: e}
	}
	return e
}

// ---- generators ----------------------------------------------------------------

func leaf(name string) *E { return &E{Leaf: name} }

type gen struct {
	t     *rapid.T
	trace int
	lits  bool // phase Z: numeric operands are literals only
}

func (g *gen) wrap(e *E) *E {
	k := g.t
	switch rapid.IntRange(0, 9).Draw(k, "wrap") {
	case 0:
		return &E{Paren: e}
	case 1, 2:
		if e.Trace == 0 {
			g.trace++
			cp := *e
			cp.Trace = g.trace
			return &cp
		}
	}
	return e
}

func (g *gen) pick(names []string) *E { return leaf(rapid.SampledFrom(names).Draw(g.t, "leaf")) }

func (g *gen) typed(kind string, d int) *E {
	t := g.t
	if d <= 0 || rapid.IntRange(0, 4).Draw(t, "stop") == 0 {
		switch kind {
		case "int":
			if g.lits {
				return g.wrap(g.pick(zeroIntLeaves))
			}
			return g.wrap(g.pick(intLeaves))
		case "float":
			if g.lits {
				return g.wrap(g.pick(zeroFloatLeaves))
			}
			return g.wrap(g.pick(floatLeaves))
		case "string":
			return g.wrap(g.pick(stringLeaves))
		case "bool":
			return g.wrap(g.pick(boolLeaves))
		}
		return g.wrap(g.pick(allLeaves))
	}
	bin := func(op string, l, r *E) *E { return g.wrap(&E{Op: op, L: l, R: r}) }
	arith := []string{"+", "-", "*", "/"}
	cmp := []string{"<", "<=", ">", ">=", "==", "!="}
	switch kind {
	case "int":
		return bin(rapid.SampledFrom(arith).Draw(t, "op"), g.typed("int", d-1), g.typed("int", d-1))
	case "float":
		return bin(rapid.SampledFrom(arith).Draw(t, "op"), g.typed("float", d-1), g.typed("float", d-1))
	case "string":
		return bin("+", g.typed("string", d-1), g.typed(rapid.SampledFrom([]string{"string", "int", "float", "bool"}).Draw(t, "rk"), d-1))
	case "bool":
		switch rapid.IntRange(0, 8).Draw(t, "form") {
		case 0:
			return bin(rapid.SampledFrom(cmp).Draw(t, "op"), g.typed("int", d-1), g.typed("int", d-1))
		case 1:
			return bin(rapid.SampledFrom(cmp).Draw(t, "op"), g.typed("float", d-1), g.typed("float", d-1))
		case 2:
			return bin(rapid.SampledFrom(cmp).Draw(t, "op"), g.typed("string", d-1), g.typed("string", d-1))
		case 3:
			return bin("~=", g.typed("string", d-1), g.pick([]string{`"a"`, `"^a"`, `"b2"`, `""`, `"("`}))
		case 4:
			return bin(rapid.SampledFrom([]string{"==", "!="}).Draw(t, "op"), g.typed("bool", d-1), g.typed("bool", d-1))
		case 5:
			if rapid.Bool().Draw(t, "side") {
				return bin(rapid.SampledFrom([]string{"==", "!="}).Draw(t, "op"), g.pick([]string{"nil", "unk"}), g.typed("any", d-1))
			}
			return bin(rapid.SampledFrom([]string{"==", "!="}).Draw(t, "op"), g.typed("any", d-1), g.pick([]string{"nil", "unk"}))
		case 6, 7:
			return bin(rapid.SampledFrom([]string{"&&", "||"}).Draw(t, "op"), g.typed("any", d-1), g.typed("any", d-1))
		default:
			return g.wrap(&E{Not: g.typed("any", d-1)})
		}
	}
	// any
	switch rapid.IntRange(0, 5).Draw(t, "anykind") {
	case 0:
		return g.typed("int", d)
	case 1:
		return g.typed("float", d)
	case 2:
		return g.typed("string", d)
	case 3, 4:
		return g.typed("bool", d)
	}
	// deliberately untyped: mismatches must be errors
	return bin(rapid.SampledFrom(binOps).Draw(t, "op"), g.typed("any", d-1), g.typed("any", d-1))
}

const rule = "expression trees over a pool of int/float/string/bool/nil leaves (literals and variables, incl. negative numbers, a 2^53+1 integer as variable and as literal, literals 10 / 2^31 / the largest integer, the extreme integers as variables, floats whose printed form has an exponent (1000000.0, 123456789.0, 2.5e9, 0.00001, 1e-10), floats that are not exactly representable (0.1 0.2 0.3), minus zero, strings that look like numbers, truth values or operators, upper case, non-ASCII, an embedded quote, an unknown identifier) and the operators + - * / < <= > >= == != ~= && || ! and parentheses. (E) every tree of depth <=2 - all leaf pairs of the whole pool x 13 operators, !leaf, !!leaf, and both association shapes (a op1 b) op2 c / a op1 (b op2 c) over a 13-leaf (quick: 7-leaf) pool and five homogeneous pools; (F) FLAT unparenthesised sequences a o1 b o2 c o3 d for every operator triple x 8 (quick 6) operand rows, the tree being derived from the stated precedence order by a precedence-climbing parser of the check itself, and runs of 3..257 (thorough 3000) operands joined by one operator or the operators of one level; (N) redundant parentheses, repeated ! and right-nested chains to depth 400 (thorough 1500; beyond 64 levels a refusal with an error is accepted); (P) operands that are not literals or plain names: x[i], m[\"k\"], s.F, s.In.F, xs[i].F, f() - every pair x 13 operators and depth 2 over mixed spellings, with template variables named like the fields and keys present; (I) int64 variables: every pair x 13 operators and depth 2 (only trees whose integer leaves are all int64 are asserted); (the printed form of a float, in string + float and in emitted output, is what an output tag prints for that float: its spelling - exponent or plain decimals - is nobody's statement; in string + float both that form and Go's %v are accepted) (R) type-directed random trees to depth 5 in which every node is specified, plus deliberately ill-typed nodes that must be errors, with random redundant parentheses and operands wrapped in a recording helper t(i, x); typed random flat sequences of up to ~40 operands with negated operands and one ill-typed joint in ten. Every tree is printed with the minimal parentheses implied by the stated precedence/left-associativity and fully parenthesised, and (all of the small spaces, one in eight of the big depth-2 spaces) in one to six further SPELLINGS: operators glued to both operands, to the right one only (7 -2), to the left one only, two blanks / tab, line ends around every operator with back-quoted strings, every leaf in parentheses of its own, blanks inside parentheses and after !, float literals with a trailing zero (a minus sign is never glued to a preceding name: names may contain it); all spellings are rendered as <% cap(EXPR) %> and the captured typed Go value, the helper invocation order (left-to-right, short-circuit) and error-ness must equal the reference evaluator's. SITES: the same trees (all leaf pairs x 13 operators, all operator pairs in both shapes, random typed trees) as the operand of <%= %>, the right side of let and of assignment, an array element (first / last), a hash value, a second argument, the value returned by / the argument passed to a template function, the condition of if / else if / <%= if %>, an index, the element looped over, and three times in a row; output, captured values and helper order must equal the reference interpreter's for the whole template (values that are nil and trees naming the unknown identifier are left out: C10, C05). SEQUENCES: one expression over the variables p and q is evaluated 2-4 times (as the body of a template function called once per operand pair; inside a loop over the pairs; WRITTEN once per pair with p and q re-assigned in between; as one parsed template executed once per pair), the operand kinds changing from one evaluation to the next: (S1) p OP q for all 13 operators x every ordered pair (A, B) of 28 operand pairs that have a value - among them pairs of different kinds that print alike (2 2 / 2.0 2.0 / \"2\" \"2\") - evaluated A, B, A, and every value pair followed by every error pair; (SR) random shapes to depth 3 over p, q and literals with random rows; every captured value and the operand evaluation order must equal the reference evaluator's. (Z) LEADING ZEROS: the statement documents decimal numbers only (no octal or other notation, no negative literals, no exponent / hex / digit separators: none of these is generated), so a numeric literal spelled with leading zeros (010, 007, 00, 0123, 01.5, up to 40 zeros) and, for floats, further trailing zeros (1.50, 01.500) either means what it means without them or is refused with an error: the same tree is spelled with such literals and compared with the reference value of the UNPADDED tree - a successful render must give exactly that value and operand order, a refusal is accepted and counted (class .../refused with an error), and where the reference says error (010 / 00, 010 + true) the render must fail. (Z0) each of 22 numeric literals (ints of 1..19 digits incl. 10 12 64 100 123 777 1000, floats incl. 10.0 12.5 100.25) alone, negated, parenthesised x 8 pad widths x 0..2 trailing zeros; (Z1) every pair of a 28-leaf pool with a numeric literal on at least one side x 13 operators x 6 pad patterns (left only, right only, both, unequal, 25 zeros), the spelling rotating over minimal / full parentheses and the six further spellings (glued 7-010, 7 -010, tabs, line ends, (010)); (Z2) flat a o1 b o2 c o3 d for all 13^3 operator triples x 4 numeric rows; (Z3) numeric literal pairs x 13 operators and each literal alone at all 15 sites (<%= 010 %>, let, array element, hash value, argument, index, loop element ...); (ZR) random typed trees to depth 4 whose numeric operands are literals, one in four at a site, and random flat sequences, with random pad widths per literal, trailing zeros and spelling. Non-trivial for Z = at least one literal carries a leading zero (other cases are dropped and counted), distinct by template text. Trees whose meaning the statement does not fix (bool==non-bool, string<non-string, string+nil, int overflow, float Inf/NaN, ~= on non-strings, int64 mixed with int) are counted under excluded:unspecified and not asserted. Non-trivial = depth >= 2 or an error outcome (every site and every sequence of >= 2 evaluations); distinct by minimal spelling / template text."

// engineFloatText: the printed form of a float is what an output tag prints for it (no statement fixes its spelling);
// "string + x concatenates the printed form of x" is judged against that.
var floatTexts sync.Map

func engineFloatText(f float64) string {
	key := math.Float64bits(f)
	if s, ok := floatTexts.Load(key); ok {
		return s.(string)
	}
	res := vk.Safe(func() (string, error) {
		return plush.Render(`<%= x %>`, plush.NewContextWith(map[string]interface{}{"x": f}))
	})
	s := fmt.Sprint(f)
	if !res.Panicked() && res.Err == nil && res.Out != "" {
		s = res.Out
	}
	floatTexts.Store(key, s)
	return s
}

func setup(t *testing.T) *vk.Run {
	model.FloatText = engineFloatText
	r := vk.Start(t, "C06", rule,
		"the reference evaluator (internal/model) encodes the operator meanings given in the property statement; integer results are computed with math/big to recognise overflow",
		"negative numbers enter through variables because the language has no negative literals")
	r.Replayer("expr", func(raw json.RawMessage) *vk.Fail {
		var c Case
		if f := vk.Decode(raw, &c); f != nil {
			return f
		}
		if !c.Expr.valid() {
			return &vk.Fail{Kind: "decode", Msg: "malformed expression"}
		}
		return checkExpr(r, c, "replay")
	})
	r.Replayer("site", func(raw json.RawMessage) *vk.Fail {
		var c SiteCase
		if f := vk.Decode(raw, &c); f != nil {
			return f
		}
		if !c.Expr.valid() || !validSite(c.Site) {
			return &vk.Fail{Kind: "decode", Msg: "malformed site case"}
		}
		return checkSite(r, c, "replay")
	})
	r.Replayer("seq", func(raw json.RawMessage) *vk.Fail {
		var c SeqCase
		if f := vk.Decode(raw, &c); f != nil {
			return f
		}
		if !c.Expr.validPQ() || !validMode(c.Mode) {
			return &vk.Fail{Kind: "decode", Msg: "malformed sequence case"}
		}
		for _, row := range c.Rows {
			for _, l := range row {
				if _, ok := leaves[l]; !ok {
					return &vk.Fail{Kind: "decode", Msg: "unknown leaf " + l}
				}
			}
		}
		return checkSeq(r, c, "replay")
	})
	r.Replayer("zeros", func(raw json.RawMessage) *vk.Fail {
		var c ZCase
		if f := vk.Decode(raw, &c); f != nil {
			return f
		}
		if !c.valid() {
			return &vk.Fail{Kind: "decode", Msg: "malformed leading-zeros case"}
		}
		return checkZero(r, c, "replay")
	})
	return r
}

func TestReplay(t *testing.T) { setup(t).ReplayEnv() }

func TestProp(t *testing.T) {
	r := setup(t)
	defer r.Finish()
	r.ReplayCommitted()

	pool := allLeaves
	if r.Quick() {
		pool = quickLeaves
	}
	// depth 1: every leaf pair over the whole pool, and !leaf
	var all []string
	for k := range leaves {
		if !isI64(k) && !isPath(k) && !zeroOnly[k] {
			all = append(all, k)
		}
	}
	sortStrings(all)
	n1 := int64(len(all) * len(all) * len(binOps))
	r.Subspace(fmt.Sprintf("depth 1: every leaf pair of the full %d-leaf pool x 13 operators, plus !leaf and !!leaf", len(all)), n1+int64(2*len(all)), true)
	r.Parallel(n1, 0, func(i int64) {
		op := binOps[i%int64(len(binOps))]
		j := i / int64(len(binOps))
		a, b := all[j%int64(len(all))], all[j/int64(len(all))]
		r.Check(checkExprN(r, Case{Expr: E{Op: op, L: leaf(a), R: leaf(b)}}, "E1", r.Pick(1, -1)))
	})
	for _, a := range all {
		r.Check(checkExprN(r, Case{Expr: E{Not: leaf(a)}}, "E1", -1))
		r.Check(checkExprN(r, Case{Expr: E{Not: &E{Not: leaf(a)}}}, "E1", -1))
	}
	// depth 2: both association shapes
	np, no := int64(len(pool)), int64(len(binOps))
	n2 := np * np * np * no * no * 2
	r.Subspace(fmt.Sprintf("depth 2: %d^3 leaves x 13^2 operators x 2 association shapes", np), n2, true)
	r.Parallel(n2, 0, func(i int64) {
		shape := i % 2
		i /= 2
		o1, o2 := binOps[i%no], binOps[(i/no)%no]
		i /= no * no
		a, b, c := pool[i%np], pool[(i/np)%np], pool[i/np/np]
		var e E
		if shape == 0 {
			e = E{Op: o2, L: &E{Op: o1, L: leaf(a), R: leaf(b)}, R: leaf(c)}
		} else {
			e = E{Op: o1, L: leaf(a), R: &E{Op: o2, L: leaf(b), R: leaf(c)}}
		}
		r.Check(checkExprN(r, Case{Expr: e}, "E2", sparse))
	})
	// depth 2 over homogeneous pools, where most trees have values rather than errors
	for gi, grp := range [][]string{{"0", "2", "7", "n3"}, {"1.5", "0.0", "2.0", "nf"}, {`"a"`, `"b2"`, `""`, `"^a"`}, {"true", "false", "nil", "unk"}, {"2", `"a"`, "true", "1.5"}} {
		grp := grp
		ng := int64(len(grp))
		n := ng * ng * ng * no * no * 2
		r.Subspace(fmt.Sprintf("depth 2, homogeneous pool %v: %d^3 x 13^2 x 2 shapes", grp, ng), n, true)
		r.Parallel(n, 0, func(i int64) {
			shape := i % 2
			i /= 2
			o1, o2 := binOps[i%no], binOps[(i/no)%no]
			i /= no * no
			a, b, c := grp[i%ng], grp[(i/ng)%ng], grp[i/ng/ng]
			var e E
			if shape == 0 {
				e = E{Op: o2, L: &E{Op: o1, L: leaf(a), R: leaf(b)}, R: leaf(c)}
			} else {
				e = E{Op: o1, L: leaf(a), R: &E{Op: o2, L: leaf(b), R: leaf(c)}}
			}
			r.Check(checkExprN(r, Case{Expr: e}, fmt.Sprintf("E2h%d", gi), sparse))
		})
	}
	// ! inside and outside binary operators
	for _, a := range pool {
		for _, b := range pool {
			for _, op := range binOps {
				r.Check(checkExpr(r, Case{Expr: E{Op: op, L: &E{Not: leaf(a)}, R: leaf(b)}}, "E2not"))
				r.Check(checkExpr(r, Case{Expr: E{Not: &E{Op: op, L: leaf(a), R: leaf(b)}}}, "E2not"))
				r.Check(checkExpr(r, Case{Expr: E{Op: op, L: leaf(a), R: &E{Not: leaf(b)}}}, "E2not"))
			}
		}
	}

	flatPhases(r)
	nestPhases(r)
	i64Phases(r)
	pathPhases(r)
	sitePhases(r)
	zeroPhases(r)

	r.Rapid("typed-trees", r.Pick(8000, 120000), func(t *rapid.T) *vk.Fail {
		g := &gen{t: t}
		kind := rapid.SampledFrom([]string{"int", "float", "string", "bool", "bool", "any"}).Draw(t, "kind")
		e := g.typed(kind, rapid.IntRange(1, 5).Draw(t, "depth"))
		return checkExpr(r, Case{Expr: *e}, "R/"+kind)
	})
	r.Rapid("typed-trees-at-sites", r.Pick(2000, 30000), func(t *rapid.T) *vk.Fail {
		g := &gen{t: t}
		kind := rapid.SampledFrom([]string{"int", "float", "string", "bool", "bool", "any"}).Draw(t, "kind")
		e := g.typed(kind, rapid.IntRange(1, 4).Draw(t, "depth"))
		return checkSite(r, SiteCase{Expr: *e, Site: rapid.SampledFrom(sites).Draw(t, "site")}, "RS")
	})
	r.Rapid("flat-sequences", r.Pick(3000, 40000), func(t *rapid.T) *vk.Fail {
		ls, ops := (&gen{t: t}).flat()
		return checkExprN(r, flatCase(ls, ops), "RF", 1)
	})
	seqPhases(r)
}

// flatRows: four operands of one kind each (and mixed rows), so that most operator triples have a value
var flatRows = [][4]string{{"7", "2", "1", "10"}, {"10", "n3", "2", "7"}, {"1.5", "0.5", "2.0", "0.1"}, {`"a"`, `"b2"`, `"A"`, `"^a"`},
	{"true", "false", "vt", "vf"}, {"0.1", "0.2", "0.3", "0.5"}, {"false", "true", "nil", "true"}, {`"a"`, "2", "1.5", "true"}, {"2", "7", "true", "false"}}

// flatPhases: unparenthesised sequences a o1 b o2 c o3 d for EVERY operator triple (the depth-2 spaces hold pairs
// only), and long runs of one operator and of one level.
func flatPhases(r *vk.Run) {
	no := int64(len(binOps))
	rows := flatRows
	if r.Quick() {
		rows = flatRows[:6]
	}
	n := no * no * no * int64(len(rows))
	r.Subspace(fmt.Sprintf("flat: a o1 b o2 c o3 d, 13^3 operator triples x %d operand rows, no parentheses", len(rows)), n, true)
	r.Parallel(n, 0, func(i int64) {
		o1, o2, o3 := binOps[i%no], binOps[(i/no)%no], binOps[(i/no/no)%no]
		row := rows[i/no/no/no]
		r.Check(checkExprN(r, flatCase([]*E{leaf(row[0]), leaf(row[1]), leaf(row[2]), leaf(row[3])}, []string{o1, o2, o3}), "F3", 1))
	})
	// long runs: n operands joined by one operator, or by the operators of one level in turn
	type run struct {
		ops  []string
		head string
		tail []string
	}
	runs := []run{
		{[]string{"-"}, "big", []string{"1", "2", "7"}}, {[]string{"/"}, "big", []string{"2", "1", "n1"}}, {[]string{"+", "-"}, "10", []string{"7", "2", "n3"}},
		{[]string{"*", "/"}, "7", []string{"2", "2", "1"}}, {[]string{"-"}, "1000000.0", []string{"0.5", "1.5"}}, {[]string{"/"}, "fbig", []string{"2.0", "0.5", "1.5"}},
		{[]string{"+"}, `"b2"`, []string{"1", "1.5", "true", `"a"`}}, {[]string{"&&"}, "true", []string{"vt", "1", `"a"`}}, {[]string{"||"}, "false", []string{"vf", "nil", "unk"}},
		{[]string{"&&", "||"}, "true", []string{"false", "vt", "nil"}}, {[]string{"==", "!="}, "true", []string{"vt", "false", "vf"}}, {[]string{"==", "~="}, `"a"`, []string{`"a"`}},
		{[]string{"<"}, "1", []string{"2", "7"}}, {[]string{"+", "*", "-", "/"}, "10", []string{"7", "2", "1", "n3"}},
	}
	lens := []int{3, 4, 5, 6, 7, 8, 9, 12, 16, 17, 31, 32, 33, 63, 64, 65, 100, 255, 256, 257}
	if r.Thorough() {
		lens = append(lens, 500, 1000, 3000)
	}
	var m int64
	for _, ru := range runs {
		for _, n := range lens {
			if r.Mine(m) {
				ls := []*E{leaf(ru.head)}
				var ops []string
				for k := 1; k < n; k++ {
					ls = append(ls, leaf(ru.tail[(k-1)%len(ru.tail)]))
					ops = append(ops, ru.ops[(k-1)%len(ru.ops)])
				}
				r.Check(checkExprN(r, flatCase(ls, ops), "Flong", 1))
			}
			m++
		}
	}
	r.Subspace("flat: runs of 3..257 (thorough 3000) operands joined by one operator or by the operators of one level in turn, 14 operand/operator rows", m, true)
}

// nestPhases: the same small expression under d pairs of redundant parentheses, d-fold negation, right-nested
// chains a - (b - (c - ...)) of depth d.
func nestPhases(r *vk.Run) {
	var depths []int
	for d := 1; d <= 40; d++ {
		depths = append(depths, d)
	}
	depths = append(depths, 63, 64, 65, 100, 128, 200, 255, 256, 257, 400)
	if r.Thorough() {
		depths = append(depths, 1000, 1500)
	}
	var m int64
	for _, d := range depths {
		cases := []E{
			{Op: "-", L: parens(&E{Op: "-", L: leaf("7"), R: leaf("2")}, d), R: leaf("1")},
			{Op: "-", L: leaf("7"), R: parens(&E{Op: "-", L: leaf("2"), R: leaf("1")}, d)},
			{Op: "*", L: parens(&E{Op: "+", L: parens(leaf("7"), d), R: leaf("2")}, d), R: leaf("n3")},
			*nots(leaf("true"), d), *nots(leaf("nil"), d), *nots(leaf("0"), d),
			{Op: "==", L: nots(leaf("vt"), d), R: nots(leaf("false"), d+1)},
			{Op: "&&", L: nots(parens(nots(leaf("vf"), 1), d), 1), R: leaf("true")},
		}
		// right-nested: l1 op (l2 op (l3 op ...)): needs its parentheses, the full spelling nests twice as deep
		for _, op := range []string{"-", "/", "+", "&&", "=="} {
			pool := map[string][]string{"-": {"10", "7", "2", "1"}, "/": {"big", "2", "1", "n1"}, "+": {`"a"`, "1", "1.5", `"b2"`}, "&&": {"true", "vt", "1"}, "==": {"true", "false", "vt"}}[op]
			e := leaf(pool[d%len(pool)])
			for k := d - 1; k >= 0; k-- {
				e = &E{Op: op, L: leaf(pool[k%len(pool)]), R: e}
			}
			cases = append(cases, *e)
		}
		for _, e := range cases {
			if r.Mine(m) {
				r.Check(checkExprN(r, Case{Expr: e}, "Nest", 1))
			}
			m++
		}
	}
	r.Subspace("nesting: redundant parentheses, repeated !, right-nested chains of depth 1..40, 63..65, 100, 128, 200, 255..257, 400 (thorough 1500)", m, true)
}

// firstOf keeps, of all failures of one root cause, the one with the smallest cell index: one root cause, one
// VIOLATION, and the same witness whatever the scheduling of the parallel workers was.
type firstOf struct {
	mu    sync.Mutex
	class string
	at    int64
	f     *vk.Fail
	n     int
}

func (c *firstOf) add(i int64, f *vk.Fail) {
	if f == nil {
		return
	}
	c.mu.Lock()
	defer c.mu.Unlock()
	c.n++
	if c.f == nil || i < c.at {
		c.at, c.f = i, f
	}
}

func (c *firstOf) report(r *vk.Run) {
	if c.f == nil {
		return
	}
	c.f.Class = c.class
	c.f.Msg = fmt.Sprintf("[class %s, %d cases fail] ", c.class, c.n) + c.f.Msg
	r.Check(c.f)
}

// i64Phases: integer operands that reach the template as Go int64 (database keys, counters). Only trees whose
// integer leaves are ALL int64 variables are asserted; int64 mixed with an int literal or variable is a pair of
// different integer types, which the statement does not settle.
func i64Phases(r *vk.Run) {
	np, no := int64(len(i64Leaves)), int64(len(binOps))
	n1 := np * np * no
	r.Subspace("int64 operands: every pair of 4 int64 variables x 13 operators", n1, true)
	pair := &firstOf{class: "int64-pair"}
	for i := int64(0); i < n1; i++ {
		if r.Mine(i) {
			pair.add(i, checkExprN(r, Case{Expr: E{Op: binOps[i%no], L: leaf(i64Leaves[(i/no)%np]), R: leaf(i64Leaves[i/no/np])}}, "I64/1", 1))
		}
	}
	pair.report(r)
	np = int64(r.Pick(3, 4))
	n2 := np * np * np * no * no * 2
	r.Subspace(fmt.Sprintf("int64 operands: depth 2, %d^3 int64 variables x 13^2 operators x 2 association shapes", np), n2, true)
	meets := &firstOf{class: "int64-result-meets-int64"}
	defer meets.report(r)
	r.Parallel(n2, 0, func(i int64) {
		cell := i
		shape := i % 2
		i /= 2
		o1, o2 := binOps[i%no], binOps[(i/no)%no]
		i /= no * no
		a, b, c := i64Leaves[i%np], i64Leaves[(i/np)%np], i64Leaves[i/np/np]
		var e E
		if shape == 0 {
			e = E{Op: o2, L: &E{Op: o1, L: leaf(a), R: leaf(b)}, R: leaf(c)}
		} else {
			e = E{Op: o1, L: leaf(a), R: &E{Op: o2, L: leaf(b), R: leaf(c)}}
		}
		meets.add(cell, checkExprN(r, Case{Expr: e}, "I64/2", 0))
	})
}

// pathPhases: operands that are indexed elements, map values, struct fields (also nested and of an element) and
// calls: every pair x 13 operators, !operand, and depth 2 in both shapes over one operand of each spelling.
func pathPhases(r *vk.Run) {
	np, no := int64(len(pathLeaves)), int64(len(binOps))
	n1 := np * np * no
	r.Subspace(fmt.Sprintf("operands spelled as x[i], m[\"k\"], s.F, s.In.F, xs[i].F, f(): every pair of %d x 13 operators, plus !operand", np), n1+np, true)
	r.Parallel(n1, 0, func(i int64) {
		r.Check(checkExprN(r, Case{Expr: E{Op: binOps[i%no], L: leaf(pathLeaves[(i/no)%np]), R: leaf(pathLeaves[i/no/np])}}, "P1", r.Pick(1, -1)))
	})
	for _, a := range pathLeaves {
		r.Check(checkExprN(r, Case{Expr: E{Not: leaf(a)}}, "P1", -1))
	}
	groups := [][]string{{"pa[0]", "st.M", "h2()", "ps[1].N"}, {"pa[3]", "hn()", "st.In.N", `mp["b"]`}, {"pa[4]", "st.B", "hs()", "ps[0].S"}, {"st.S", `mp["k"]`, "2", "n3"}}
	for gi, grp := range groups[:r.Pick(2, 4)] {
		grp := grp[:r.Pick(3, 4)]
		ng := int64(len(grp))
		n := ng * ng * ng * no * no * 2
		r.Subspace(fmt.Sprintf("operands %v: depth 2, %d^3 x 13^2 x 2 shapes", grp, ng), n, true)
		r.Parallel(n, 0, func(i int64) {
			shape := i % 2
			i /= 2
			o1, o2 := binOps[i%no], binOps[(i/no)%no]
			i /= no * no
			a, b, c := grp[i%ng], grp[(i/ng)%ng], grp[i/ng/ng]
			var e E
			if shape == 0 {
				e = E{Op: o2, L: &E{Op: o1, L: leaf(a), R: leaf(b)}, R: leaf(c)}
			} else {
				e = E{Op: o1, L: leaf(a), R: &E{Op: o2, L: leaf(b), R: leaf(c)}}
			}
			r.Check(checkExprN(r, Case{Expr: e}, fmt.Sprintf("P2g%d", gi), sparse))
		})
	}
}

// sitePhases: every operator between every leaf pair, and every operator pair in both association shapes, at
// every site (the shapes rotate through the sites so that each operator pair meets each site).
func sitePhases(r *vk.Run) {
	pool := []string{"7", "2", "0", "n3", "1.5", "0.0", `"a"`, `"b2"`, `""`, "true", "false", "nil"}
	if r.Quick() {
		pool = []string{"7", "2", "0", "1.5", `"a"`, `""`, "true", "false"}
	}
	np, no, ns := int64(len(pool)), int64(len(binOps)), int64(len(sites))
	n1 := np * np * no * ns
	r.Subspace(fmt.Sprintf("sites: %d^2 leaf pairs x 13 operators x %d sites, plus !leaf and the bare leaf", np, ns), n1+2*np*ns, true)
	r.Parallel(n1, 0, func(i int64) {
		site := sites[i%ns]
		i /= ns
		op := binOps[i%no]
		i /= no
		r.Check(checkSite(r, SiteCase{Expr: E{Op: op, L: leaf(pool[i%np]), R: leaf(pool[i/np])}, Site: site}, "S1"))
	})
	for _, a := range pool {
		for _, site := range sites {
			r.Check(checkSite(r, SiteCase{Expr: E{Not: leaf(a)}, Site: site}, "S1"))
			r.Check(checkSite(r, SiteCase{Expr: *leaf(a), Site: site}, "S1"))
		}
	}
	trip := [][3]string{{"7", "2", "1"}, {"2", "7", "10"}, {"true", "false", "true"}, {"false", "true", "nil"}, {`"a"`, `"b2"`, `"a"`}, {`"a"`, "2", "1.5"}, {"1.5", "0.5", "2.0"},
		{"2", "true", `"a"`}, {"0", "7", "0"}, {"nil", "nil", "true"}, {"n3", "2", "n1"}, {`""`, "false", "7"}, {"7", "7", "7"}, {"true", "2", "2"}, {"2", "2", "true"}}
	nt := int64(len(trip))
	n2 := no * no * 2 * nt
	r.Subspace(fmt.Sprintf("sites: 13^2 operator pairs x 2 association shapes x %d operand triples, the site rotating with the triple so that every operator pair and shape stands at each of the %d sites", nt, ns), n2, true)
	r.Parallel(n2, 0, func(i int64) {
		shape := i % 2
		i /= 2
		o1, o2 := binOps[i%no], binOps[(i/no)%no]
		k := i / no / no
		tr := trip[k]
		var e E
		if shape == 0 {
			e = E{Op: o2, L: &E{Op: o1, L: leaf(tr[0]), R: leaf(tr[1])}, R: leaf(tr[2])}
		} else {
			e = E{Op: o1, L: leaf(tr[0]), R: &E{Op: o2, L: leaf(tr[1]), R: leaf(tr[2])}}
		}
		r.Check(checkSite(r, SiteCase{Expr: e, Site: sites[(k+i%no+(i/no)%no)%ns]}, "S2"))
	})
}

// flat draws a typed unparenthesised sequence: products inside sums inside comparisons inside equalities inside
// && / || chains, each level repeated at random, operands sometimes negated; some ill-typed joints on purpose.
func (g *gen) flat() ([]*E, []string) {
	t := g.t
	var ls []*E
	var ops []string
	add := func(op string, l *E) {
		if len(ls) > 0 {
			ops = append(ops, op)
		}
		ls = append(ls, l)
	}
	num := rapid.SampledFrom([][]string{{"7", "2", "1", "10", "n3", "0", "n1"}, {"1.5", "0.5", "2.0", "0.1", "nf", "0.0"}}).Draw(t, "numkind")
	sum := func(first string) {
		// prod ((+|-) prod)*
		for i, n := 0, rapid.IntRange(1, 4).Draw(t, "terms"); i < n; i++ {
			op := first
			if i > 0 {
				op = rapid.SampledFrom([]string{"+", "-"}).Draw(t, "addop")
			}
			for j, m := 0, rapid.IntRange(1, 3).Draw(t, "factors"); j < m; j++ {
				if j > 0 {
					op = rapid.SampledFrom([]string{"*", "/"}).Draw(t, "mulop")
				}
				add(op, leaf(rapid.SampledFrom(num).Draw(t, "num")))
			}
		}
	}
	strsum := func(first string) {
		add(first, leaf(rapid.SampledFrom([]string{`"a"`, `"b2"`, `""`, `"A"`}).Draw(t, "str")))
		for i, n := 0, rapid.IntRange(0, 3).Draw(t, "more"); i < n; i++ {
			add("+", leaf(rapid.SampledFrom([]string{`"a"`, "2", "1.5", "true", `"^a"`, "7"}).Draw(t, "strop")))
		}
	}
	rel := func(first string) {
		switch rapid.IntRange(0, 5).Draw(t, "rel") {
		case 0, 1, 2:
			sum(first)
			sum(rapid.SampledFrom([]string{"<", "<=", ">", ">=", "==", "!="}).Draw(t, "cmp"))
		case 3:
			strsum(first)
			strsum(rapid.SampledFrom([]string{"<", "<=", ">", ">=", "==", "!=", "~="}).Draw(t, "scmp"))
		case 4:
			add(first, nots(leaf(rapid.SampledFrom([]string{"true", "false", "vt", "vf", "nil", "unk", "2", `""`}).Draw(t, "b")), rapid.IntRange(0, 2).Draw(t, "nots")))
		default:
			sum(first) // a number where a truth value is expected: truthy
		}
	}
	eq := func(first string) {
		rel(first)
		for i, n := 0, rapid.IntRange(0, 2).Draw(t, "eqs"); i < n; i++ {
			op := rapid.SampledFrom([]string{"==", "!="}).Draw(t, "eqop")
			if rapid.IntRange(0, 2).Draw(t, "eqkind") == 0 {
				rel(op)
			} else {
				add(op, nots(leaf(rapid.SampledFrom([]string{"true", "false", "vt", "vf"}).Draw(t, "b2")), rapid.IntRange(0, 1).Draw(t, "nots2")))
			}
		}
	}
	eq("")
	for i, n := 0, rapid.IntRange(0, 4).Draw(t, "ands"); i < n; i++ {
		eq(rapid.SampledFrom([]string{"&&", "||"}).Draw(t, "andor"))
	}
	if rapid.IntRange(0, 9).Draw(t, "illtyped") == 0 && len(ops) > 0 {
		ops[rapid.IntRange(0, len(ops)-1).Draw(t, "at")] = rapid.SampledFrom(binOps).Draw(t, "anyop")
	}
	return ls, ops
}

// seqGroups: operand pairs of one kind each; a sequence walks through several groups
var seqGroups = [][]string{{"2", "7", "n3", "0"}, {"1.5", "2.0", "nf", "0.0"}, {`"a"`, `"b2"`, `""`, `"^a"`}, {"true", "false"}, {"nil"}}

func seqPhases(r *vk.Run) {
	// E: p OP q for every operator. The operand pairs are split by the reference into those with a value and those
	// that are errors; every ordered pair (A, B) of value pairs is evaluated A, B, A, and every value pair is
	// followed by every error pair (an operator that worked for the operands before still fails for these).
	var n int64
	reps := [][2]string{{"2", "7"}, {"7", "2"}, {"n3", "0"}, {"1.5", "2.0"}, {"nf", "1.5"}, {`"a"`, `"b2"`}, {`"b2"`, `"a"`}, {`"a"`, `"a"`}, {`""`, `"^a"`},
		{"true", "false"}, {"false", "false"}, {"nil", "nil"}, {"2", "1.5"}, {"1.5", "2"}, {`"a"`, "2"}, {`"a"`, "true"}, {"7", "0"}, {"2", "nil"}, {"true", "nil"}, {"2", `"a"`}, {"true", "2"},
		// operand pairs of different kinds that PRINT alike: 2 2 / 2.0 2.0 / "2" "2", true true / "true" "true"
		{"2", "2"}, {"2.0", "2.0"}, {`"2"`, `"2"`}, {"true", "true"}, {`"true"`, `"true"`}, {"10", "7"}, {"0.1", "0.2"}}
	for _, op := range binOps {
		var ok, bad [][2]string
		for _, row := range reps {
			o, unspec := runModel(E{Op: op, L: leaf(row[0]), R: leaf(row[1])}.toModelP())
			switch {
			case unspec != "":
			case o.isErr:
				bad = append(bad, row)
			default:
				ok = append(ok, row)
			}
		}
		for _, mode := range seqModes {
			usable := func(rows ...[2]string) bool {
				for _, row := range rows {
					if mode != "fn" && (row[0] == "nil" || row[1] == "nil") {
						return false // a nil element of a data row is fine, but keep the two modes' tables identical in meaning: nil enters through arguments only
					}
				}
				return true
			}
			for i := range ok {
				for j := range ok {
					if i != j && usable(ok[i], ok[j]) && (mode == "fn" || mode == "loop" || i < j || r.Thorough()) {
						if r.Mine(n) {
							r.Check(checkSeq(r, SeqCase{Expr: E{Op: op, L: leaf("p"), R: leaf("q")}, Rows: [][2]string{ok[i], ok[j], ok[i]}, Mode: mode}, "S1"))
						}
						n++
					}
				}
				for _, e := range bad {
					if usable(ok[i], e) {
						if r.Mine(n) {
							r.Check(checkSeq(r, SeqCase{Expr: E{Op: op, L: leaf("p"), R: leaf("q")}, Rows: [][2]string{ok[i], e}, Mode: mode}, "S1err"))
						}
						n++
					}
				}
			}
		}
	}
	r.Subspace("sequences: p OP q for 13 operators x {ordered pairs (A, B) of operand pairs with a value, evaluated A, B, A; value pair then error pair} over 28 operand pairs x {function, loop, text written once per pair, one parsed template executed per pair (quick: these two for A before B only)}", n, true)
	r.Rapid("sequences", r.Pick(4000, 60000), func(t *rapid.T) *vk.Fail {
		g := &gen{t: t}
		var shape func(d int) *E
		shape = func(d int) *E {
			if d <= 0 || rapid.IntRange(0, 3).Draw(t, "stop") == 0 {
				return g.wrap(leaf(rapid.SampledFrom([]string{"p", "q", "p", "q", "2", "1.5", `"a"`, "true", "nil", "unk"}).Draw(t, "leaf")))
			}
			if rapid.IntRange(0, 7).Draw(t, "not") == 0 {
				return g.wrap(&E{Not: shape(d - 1)})
			}
			return g.wrap(&E{Op: rapid.SampledFrom(binOps).Draw(t, "op"), L: shape(d - 1), R: shape(d - 1)})
		}
		c := SeqCase{Expr: *shape(rapid.IntRange(1, 3).Draw(t, "depth")), Mode: rapid.SampledFrom(seqModes).Draw(t, "mode")}
		homog := rapid.IntRange(0, 3).Draw(t, "homogeneous") > 0
		for i, n := 0, rapid.IntRange(2, 4).Draw(t, "rows"); i < n; i++ {
			pool := allLeaves
			if homog {
				pool = rapid.SampledFrom(seqGroups[:4]).Draw(t, "group")
			}
			var row [2]string
			for k := range row {
				row[k] = rapid.SampledFrom(pool).Draw(t, "operand")
				if row[k] == "unk" || (c.Mode == "loop" && row[k] == "nil") {
					row[k] = "2"
				}
			}
			c.Rows = append(c.Rows, row)
		}
		return checkSeq(r, c, "SR")
	})
}

func sortStrings(s []string) {
	for i := 1; i < len(s); i++ {
		for j := i; j > 0 && strings.Compare(s[j-1], s[j]) > 0; j-- {
			s[j-1], s[j] = s[j], s[j-1]
		}
	}
}

// ---- numeric literals spelled with leading zeros (phase Z) -------------------------------------

// ZCase: an expression whose numeric literals are respelled with leading zeros (010, 007, 00, 01.5) and, for floats,
// further trailing zeros (1.50). The statement knows decimal numbers only - no octal or any other notation is
// documented - so such a literal either means what it means without the zeros or is refused with an error. The oracle
// is the reference value of the UNPADDED tree: a render that succeeds must yield exactly that value; a refusal is
// accepted and counted; where the reference says error (010 / 00) the render must fail too.
type ZCase struct {
	Expr  E      `json:"expr"`
	Pads  []int  `json:"pads"`            // leading zeros of the k-th numeric literal, in reading order (cyclic)
	Trail []int  `json:"trail,omitempty"` // further trailing zeros of the k-th numeric literal if it is a float (cyclic)
	Style int    `json:"style"`           // 0 minimal parentheses, 1 full parentheses, 2+k: styles[k]
	Site  string `json:"site,omitempty"`  // "": <% cap(EXPR) %>; otherwise one of sites (Style 0 or 1)
}

var (
	zeroIntLeaves   = []string{"0", "1", "2", "7", "10", "12", "64", "100", "123", "777", "1000", "2147483648", "9223372036854775807"}
	zeroFloatLeaves = []string{"1.5", "0.0", "2.0", "0.1", "0.5", "10.0", "12.5", "100.25", "1000000.0"}
	zeroOtherLeaves = []string{`"a"`, `"10"`, "true", "n3", "nf", "nil"}
	zeroPads        = [][]int{{1, 0}, {0, 1}, {1, 1}, {2, 1}, {3, 0}, {0, 25}}
)

func (c *ZCase) valid() bool {
	if !c.Expr.valid() || c.Style < 0 || c.Style >= 2+len(styles) || len(c.Pads) == 0 {
		return false
	}
	if c.Site != "" && (!validSite(c.Site) || c.Style > 1) {
		return false
	}
	for _, p := range append(append([]int{}, c.Pads...), c.Trail...) {
		if p < 0 || p > 64 {
			return false
		}
	}
	return true
}

// respell: x with every numeric literal replaced by a name that prints as the padded spelling (every printer and
// style writes a name down as it is). *k counts numeric literals in reading order, *padded those given a leading zero.
func (c *ZCase) respell(x model.Expr, k, padded *int) model.Expr {
	switch t := x.(type) {
	case model.Lit:
		_, isInt := t.V.(int)
		_, isFloat := t.V.(float64)
		if !isInt && !isFloat {
			return x
		}
		i := *k
		*k++
		txt := model.Printer{}.Expr(t)
		if pad := c.Pads[i%len(c.Pads)]; pad > 0 {
			txt = strings.Repeat("0", pad) + txt
			*padded++
		}
		if isFloat && len(c.Trail) > 0 {
			txt += strings.Repeat("0", c.Trail[i%len(c.Trail)])
		}
		return model.Var{Name: txt}
	case model.Paren:
		return model.Paren{X: c.respell(t.X, k, padded)}
	case model.Not:
		return model.Not{X: c.respell(t.X, k, padded)}
	case model.Bin:
		l := c.respell(t.L, k, padded)
		return model.Bin{Op: t.Op, L: l, R: c.respell(t.R, k, padded)}
	case model.Call:
		if t.Fn == "t" && len(t.Args) == 2 { // the recording helper: its number is not an operand
			return model.Call{Fn: "t", Args: []model.Expr{t.Args[0], c.respell(t.Args[1], k, padded)}}
		}
	}
	return x
}

func checkZero(r *vk.Run, c ZCase, class string) *vk.Fail {
	defer r.Watch("zeros", c)()
	x := c.Expr.toModel()
	k, padded := 0, 0
	xz := c.respell(x, &k, &padded)
	if padded == 0 {
		r.Exclude("no literal with a leading zero")
		return nil
	}
	fail := func(src, f string, a ...interface{}) *vk.Fail {
		return &vk.Fail{Kind: "zeros", Case: c, Msg: fmt.Sprintf("%q (literals respelled with leading zeros; the same text without them is %q): ", src, model.Printer{}.Expr(x)) + fmt.Sprintf(f, a...)}
	}
	done := func(src, outcome string, sample func() interface{}) *vk.Fail {
		r.Count("Z|"+src, class+"/"+outcome)
		r.Sample(sample)
		return nil
	}
	if c.Site == "" {
		want, unspec := runModelWith(x, modelDataFor(&c.Expr, map[string]interface{}{}))
		if unspec != "" {
			r.Exclude("unspecified")
			return nil
		}
		var spelled string
		switch c.Style {
		case 0:
			spelled = model.Printer{}.Expr(xz)
		case 1:
			spelled = model.Printer{FullParens: true}.Expr(xz)
		default:
			spelled = styles[c.Style-2].expr(xz, 0)
			r.Class("zeros/spelling/" + styles[c.Style-2].Name)
		}
		src := "<% cap(" + spelled + ") %>"
		got, res := runPlush(src, dataFor(&c.Expr, map[string]interface{}{}), strings.Contains(spelled, "()"))
		sample := func() interface{} {
			return map[string]interface{}{"template": src, "without_zeros": model.Printer{}.Expr(x), "reference": fmt.Sprintf("%v err=%v", want.val, want.isErr), "render_error": fmt.Sprint(res.Err)}
		}
		switch {
		case res.Panicked():
			return fail(src, "%s", res)
		case want.isErr && !got.isErr:
			return fail(src, "reference says this is an error, render succeeded with value %s", model.Describe(got.val))
		case want.isErr:
			if res.Out != "" {
				return fail(src, "error with non-empty output %q", res.Out)
			}
			return done(src, "error", sample)
		case got.isErr:
			// no notation with leading zeros is documented: refusing the literal is as right as reading it as decimal
			return done(src, "refused with an error", sample)
		}
		if !sameVal(got.val, want.val) && floatFormsDiffer() {
			if alt, u := runModelOpt(x, modelDataFor(&c.Expr, map[string]interface{}{}), true); u == "" && !alt.isErr && sameVal(got.val, alt.val) {
				return done(src, "value", sample)
			}
		}
		if !sameVal(got.val, want.val) {
			return fail(src, "value %s, the decimal reading gives %s", model.Describe(got.val), model.Describe(want.val))
		}
		if !reflect.DeepEqual(got.trace, want.trace) {
			return fail(src, "operands evaluated in order %v, reference says %v", got.trace, want.trace)
		}
		if res.Out != "" {
			return fail(src, "a code tag produced output %q", res.Out)
		}
		return done(src, fmt.Sprintf("value %T", want.val), sample)
	}
	// at a site: the whole template against the reference interpreter run on the unpadded tree
	if o, unspec := runModel(x); unspec != "" || (!o.isErr && o.val == nil) || c.Expr.hasLeaf("unk") {
		r.Exclude("unspecified")
		return nil
	}
	prog := siteProg(c.Site, x)
	var want seqRun
	ref := model.Run(prog, data, want.helpers())
	if ref.Unspec != "" {
		r.Exclude("unspecified")
		return nil
	}
	src := model.Printer{FullParens: c.Style == 1}.Nodes(siteProg(c.Site, xz))
	var got seqRun
	res := vk.Safe(func() (string, error) { return plush.Render(src, model.Context(plushData(data), got.helpers())) })
	sample := func() interface{} {
		return map[string]interface{}{"template": src, "without_zeros": model.Printer{}.Nodes(prog), "reference_output": ref.Out, "reference_values": fmt.Sprint(want.vals), "reference_error": ref.Err, "render_error": fmt.Sprint(res.Err)}
	}
	switch {
	case res.Panicked():
		return fail(src, "%s", res)
	case ref.Err != "" && res.Err == nil:
		return fail(src, "reference says this is an error (%s), render succeeded with output %q and values %v", ref.Err, res.Out, got.vals)
	case ref.Err != "":
		if res.Out != "" {
			return fail(src, "error with non-empty output %q", res.Out)
		}
		return done(src, c.Site+"/error", sample)
	case res.Err != nil:
		return done(src, c.Site+"/refused with an error", sample)
	}
	if altSeqAgrees(prog, data, got, res.Out, true) {
		return done(src, c.Site+"/value", sample)
	}
	if html.UnescapeString(res.Out) != html.UnescapeString(ref.Out) {
		return fail(src, "output %q, the decimal reading gives %q", res.Out, ref.Out)
	}
	if len(got.vals) != len(want.vals) {
		return fail(src, "%d values captured %v, reference says %d %v", len(got.vals), got.vals, len(want.vals), want.vals)
	}
	for i := range want.vals {
		if !sameVal(got.vals[i], want.vals[i]) {
			return fail(src, "value %d is %s, the decimal reading gives %s", i+1, model.Describe(got.vals[i]), model.Describe(want.vals[i]))
		}
	}
	if !reflect.DeepEqual(got.trace, want.trace) {
		return fail(src, "operands evaluated in order %v, reference says %v", got.trace, want.trace)
	}
	return done(src, c.Site+"/value", sample)
}

func zeroPhases(r *vk.Run) {
	nst := int64(2 + len(styles))
	var nums []string
	nums = append(append(nums, zeroIntLeaves...), zeroFloatLeaves...)
	pool := append(append([]string{}, nums...), zeroOtherLeaves...)
	nn, np, no, npad := int64(len(nums)), int64(len(pool)), int64(len(binOps)), int64(len(zeroPads))
	// Z0: one literal alone, !literal, (literal): every pad 1..4, 8, 19, 25, 40; floats with 0..2 further trailing zeros
	pads1 := []int{1, 2, 3, 4, 8, 19, 25, 40}
	n0 := nn * int64(len(pads1)) * 3 * 3
	r.Subspace(fmt.Sprintf("leading zeros: each of %d numeric literals alone / negated / parenthesised x %d pad widths (1..40 zeros) x 0..2 further trailing zeros on floats", nn, len(pads1)), n0, true)
	r.Parallel(n0, 0, func(i int64) {
		trail := int(i % 3)
		i /= 3
		shape := i % 3
		i /= 3
		pad := pads1[i%int64(len(pads1))]
		st := int((i%int64(len(pads1)) + i/int64(len(pads1)) + shape + int64(trail)) % nst)
		e := leaf(nums[i/int64(len(pads1))])
		switch shape {
		case 1:
			e = &E{Not: e}
		case 2:
			e = &E{Paren: e}
		}
		r.Check(checkZero(r, ZCase{Expr: *e, Pads: []int{pad}, Trail: []int{trail}, Style: st}, "Z0"))
	})
	// Z1: every pair with a numeric literal on at least one side x 13 operators x 6 pad patterns, the spelling rotating
	n1 := np * np * no * npad
	r.Subspace(fmt.Sprintf("leading zeros: every pair of a %d-leaf pool (%d numeric literals of 1..19 digits, ints and floats) with a numeric literal on at least one side x 13 operators x %d pad patterns, spelling rotating over minimal / full parentheses and the %d further spellings", np, nn, npad, len(styles)), (np*np-int64(len(zeroOtherLeaves)*len(zeroOtherLeaves)))*no*npad, true)
	r.Parallel(n1, 0, func(i int64) {
		pads := zeroPads[i%npad]
		i /= npad
		st := int(i % nst)
		op := binOps[i%no]
		i /= no
		a, b := i%np, i/np
		if a >= nn && b >= nn {
			return
		}
		if a >= nn || b >= nn { // one numeric literal only: it takes the pattern's whole width
			pads = []int{pads[0] + pads[1]}
		}
		r.Check(checkZero(r, ZCase{Expr: E{Op: op, L: leaf(pool[a]), R: leaf(pool[b])}, Pads: pads, Style: st}, "Z1"))
	})
	// Z2: flat sequences a o1 b o2 c o3 d over numeric rows, every operator triple
	rows := [][4]string{{"10", "2", "12", "7"}, {"100", "10", "64", "12"}, {"10.0", "0.5", "12.5", "2.0"}, {"1000", "123", "10", "777"}}
	pads4 := [][]int{{1}, {1, 0, 2, 0}, {0, 1, 0, 3}, {2, 2, 1, 1}}
	n2 := no * no * no * int64(len(rows))
	r.Subspace(fmt.Sprintf("leading zeros: flat a o1 b o2 c o3 d, 13^3 operator triples x %d numeric rows, pad pattern and spelling rotating", len(rows)), n2, true)
	r.Parallel(n2, 0, func(i int64) {
		row := rows[i%int64(len(rows))]
		j := i / int64(len(rows))
		ops := []string{binOps[j%no], binOps[(j/no)%no], binOps[j/no/no]}
		c := flatCase([]*E{leaf(row[0]), leaf(row[1]), leaf(row[2]), leaf(row[3])}, ops)
		st := int(j % nst)
		if st == 1 {
			st = 0 // a flat sequence has no parentheses
		}
		r.Check(checkZero(r, ZCase{Expr: c.Expr, Pads: pads4[(i/3)%int64(len(pads4))], Style: st}, "Z2"))
	})
	// Z3: sites
	sp := []string{"0", "7", "10", "12", "100", "123", "10.0", "0.5"}
	ns, nsp := int64(len(sites)), int64(len(sp))
	n3 := nsp * nsp * no * ns
	r.Subspace(fmt.Sprintf("leading zeros at sites: %d^2 numeric literal pairs x 13 operators x %d sites, plus every numeric literal alone x %d sites x 4 pad widths", nsp, ns, ns), n3+nn*ns*4, true)
	r.Parallel(n3, 0, func(i int64) {
		site := sites[i%ns]
		i /= ns
		st := int(i % 2)
		pads := zeroPads[(i/2)%npad]
		op := binOps[i%no]
		i /= no
		r.Check(checkZero(r, ZCase{Expr: E{Op: op, L: leaf(sp[i%nsp]), R: leaf(sp[i/nsp])}, Pads: pads, Style: st, Site: site}, "Z3"))
	})
	r.Parallel(nn*ns*4, 0, func(i int64) {
		pad := []int{1, 2, 3, 25}[i%4]
		i /= 4
		r.Check(checkZero(r, ZCase{Expr: *leaf(nums[i/ns]), Pads: []int{pad}, Style: 0, Site: sites[i%ns]}, "Z3"))
	})
	// ZR: random typed trees and flat sequences whose numeric operands are literals, random pads, trailing zeros, spelling
	draw := func(t *rapid.T) ([]int, []int, int) {
		pads := rapid.SliceOfN(rapid.SampledFrom([]int{0, 1, 1, 1, 2, 2, 3, 5, 12, 25}), 1, 6).Draw(t, "pads")
		trail := rapid.SliceOfN(rapid.IntRange(0, 3), 1, 3).Draw(t, "trail")
		return pads, trail, rapid.IntRange(0, 1+len(styles)).Draw(t, "style")
	}
	r.Rapid("zeros-typed-trees", r.Pick(4000, 60000), func(t *rapid.T) *vk.Fail {
		g := &gen{t: t, lits: true}
		kind := rapid.SampledFrom([]string{"int", "int", "float", "string", "bool", "any"}).Draw(t, "kind")
		e := g.typed(kind, rapid.IntRange(1, 4).Draw(t, "depth"))
		pads, trail, st := draw(t)
		c := ZCase{Expr: *e, Pads: pads, Trail: trail, Style: st}
		if rapid.IntRange(0, 3).Draw(t, "atsite") == 0 {
			c.Site, c.Style = rapid.SampledFrom(sites).Draw(t, "site"), st%2
		}
		return checkZero(r, c, "ZR")
	})
	r.Rapid("zeros-flat-sequences", r.Pick(1500, 20000), func(t *rapid.T) *vk.Fail {
		ls, ops := (&gen{t: t}).flat()
		pads, trail, st := draw(t)
		if st == 1 {
			st = 0
		}
		return checkZero(r, ZCase{Expr: flatCase(ls, ops).Expr, Pads: pads, Trail: trail, Style: st}, "ZRF")
	})
}
