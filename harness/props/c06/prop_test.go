// C06 — operators, precedence and associativity agree with a reference evaluator.
package c06

import (
	"encoding/json"
	"fmt"
	"reflect"
	"strings"
	"testing"

	"verif/internal/model"
	"verif/internal/vk"

	plush "github.com/gobuffalo/plush/v5"
	"pgregory.net/rapid"
)

func TestMain(m *testing.M) { vk.Main(m) }

// ---- serialisable expression trees ---------------------------------------------

// E is the JSON form of an expression: exactly one field is used.
type E struct {
	Leaf  string `json:"leaf,omitempty"` // name of a pool leaf
	Op    string `json:"op,omitempty"`   // binary operator
	L     *E     `json:"l,omitempty"`
	R     *E     `json:"r,omitempty"`
	Not   *E     `json:"not,omitempty"`
	Paren *E     `json:"paren,omitempty"` // redundant parentheses
	Trace int    `json:"trace,omitempty"` // >0: wrapped in the recording helper t(Trace, x)
}

type Case struct {
	Expr E `json:"expr"`
}

// the leaf pool: name -> (model expression, whether it is a variable holding a value)
type leafDef struct {
	expr model.Expr
}

var data = map[string]interface{}{
	"n3": -3, "n1": -1, "nf": -2.5, "big": 9007199254740993, "vs": "v<s>", "vt": true, "vz": 0,
	"fbig": 2.5e9, "ftiny": 0.00001, // floats whose printed form uses an exponent
}

var leaves = map[string]model.Expr{
	"0": model.Lit{V: 0}, "1": model.Lit{V: 1}, "2": model.Lit{V: 2}, "7": model.Lit{V: 7},
	"n3": model.Var{Name: "n3"}, "n1": model.Var{Name: "n1"}, "big": model.Var{Name: "big"}, "vz": model.Var{Name: "vz"},
	"1.5": model.Lit{V: 1.5}, "0.0": model.Lit{V: 0.0}, "2.0": model.Lit{V: 2.0}, "nf": model.Var{Name: "nf"},
	"1000000.0": model.Lit{V: 1000000.0}, "fbig": model.Var{Name: "fbig"}, "ftiny": model.Var{Name: "ftiny"},
	`"a"`: model.Lit{V: "a"}, `"b2"`: model.Lit{V: "b2"}, `""`: model.Lit{V: ""}, `"^a"`: model.Lit{V: "^a"}, `"("`: model.Lit{V: "("}, "vs": model.Var{Name: "vs"},
	"true": model.Lit{V: true}, "false": model.Lit{V: false}, "vt": model.Var{Name: "vt"},
	"nil": model.Lit{V: nil}, "unk": model.Var{Name: "unk"},
}

var (
	intLeaves    = []string{"0", "1", "2", "7", "n3", "n1", "vz", "big"}
	floatLeaves  = []string{"1.5", "0.0", "2.0", "nf", "1000000.0", "fbig", "ftiny"}
	stringLeaves = []string{`"a"`, `"b2"`, `""`, `"^a"`, "vs", `"("`}
	boolLeaves   = []string{"true", "false", "vt"}
	allLeaves    = []string{"0", "2", "7", "n3", "1.5", "0.0", "fbig", `"a"`, `"b2"`, "true", "false", "nil", "unk"}
	quickLeaves  = []string{"2", "n3", "1.5", `"a"`, "true", "nil", "unk"}
	binOps       = []string{"+", "-", "*", "/", "<", "<=", ">", ">=", "==", "!=", "~=", "&&", "||"}
)

func (e *E) toModel() model.Expr {
	var x model.Expr
	switch {
	case e.Leaf != "":
		l, ok := leaves[e.Leaf]
		if !ok {
			panic("unknown leaf " + e.Leaf)
		}
		x = l
	case e.Not != nil:
		x = model.Not{X: e.Not.toModel()}
	case e.Paren != nil:
		x = model.Paren{X: e.Paren.toModel()}
	default:
		x = model.Bin{Op: e.Op, L: e.L.toModel(), R: e.R.toModel()}
	}
	if e.Trace > 0 {
		x = model.Call{Fn: "t", Args: []model.Expr{model.Lit{V: e.Trace}, x}}
	}
	return x
}

func (e *E) valid() bool {
	n := 0
	if e.Leaf != "" {
		if _, ok := leaves[e.Leaf]; !ok {
			return false
		}
		n++
	}
	if e.Not != nil {
		n++
		if !e.Not.valid() {
			return false
		}
	}
	if e.Paren != nil {
		n++
		if !e.Paren.valid() {
			return false
		}
	}
	if e.Op != "" {
		n++
		ok := false
		for _, o := range binOps {
			ok = ok || o == e.Op
		}
		if !ok || e.L == nil || e.R == nil || !e.L.valid() || !e.R.valid() {
			return false
		}
	}
	return n == 1
}

func (e *E) depth() int {
	switch {
	case e.Leaf != "":
		return 0
	case e.Not != nil:
		return 1 + e.Not.depth()
	case e.Paren != nil:
		return e.Paren.depth()
	}
	l, r := e.L.depth(), e.R.depth()
	if r > l {
		l = r
	}
	return 1 + l
}

// ---- oracle --------------------------------------------------------------------

type outcome struct {
	val   interface{}
	isErr bool
	trace []int
}

func runModel(x model.Expr) (outcome, string) {
	var o outcome
	helpers := map[string]model.Helper{
		"t":   func(a []interface{}) (interface{}, error) { o.trace = append(o.trace, a[0].(int)); return a[1], nil },
		"cap": func(a []interface{}) (interface{}, error) { o.val = a[0]; return nil, nil },
	}
	res := model.Run([]model.Node{model.Code{S: model.ExprS{X: model.Call{Fn: "cap", Args: []model.Expr{x}}}}}, data, helpers)
	if res.Unspec != "" {
		return o, res.Unspec
	}
	o.isErr = res.Err != ""
	return o, ""
}

func runPlush(src string) (outcome, vk.Res) {
	var o outcome
	helpers := map[string]model.Helper{
		"t":   func(a []interface{}) (interface{}, error) { o.trace = append(o.trace, a[0].(int)); return a[1], nil },
		"cap": func(a []interface{}) (interface{}, error) { o.val = a[0]; return nil, nil },
	}
	res := vk.Safe(func() (string, error) { return plush.Render(src, model.Context(data, helpers)) })
	o.isErr = res.Err != nil
	return o, res
}

func sameVal(a, b interface{}) bool {
	if ia, ok := a.(int64); ok {
		a = int(ia)
	}
	if ib, ok := b.(int64); ok {
		b = int(ib)
	}
	return reflect.DeepEqual(a, b)
}

func checkExpr(r *vk.Run, c Case, class string) *vk.Fail {
	defer r.Watch("expr", c)()
	x := c.Expr.toModel()
	want, unspec := runModel(x)
	if unspec != "" {
		r.Exclude("unspecified")
		return nil
	}
	min := model.Printer{}.Expr(x)
	full := model.Printer{FullParens: true}.Expr(x)
	for _, spelling := range []string{min, full} {
		src := "<% cap(" + spelling + ") %>"
		got, res := runPlush(src)
		fail := func(f string, a ...interface{}) *vk.Fail {
			return &vk.Fail{Kind: "expr", Case: c, Msg: fmt.Sprintf("%s: ", src) + fmt.Sprintf(f, a...)}
		}
		if res.Panicked() {
			return fail("%s", res)
		}
		if want.isErr {
			if !got.isErr {
				return fail("reference says this is an error, render succeeded with value %s", model.Describe(got.val))
			}
			if res.Out != "" {
				return fail("error with non-empty output %q", res.Out)
			}
			// evaluation order up to the failure must be a prefix-compatible trace
			continue
		}
		if got.isErr {
			return fail("reference value %s, render failed: %v", model.Describe(want.val), res.Err)
		}
		if !sameVal(got.val, want.val) {
			return fail("value %s, reference says %s", model.Describe(got.val), model.Describe(want.val))
		}
		if !reflect.DeepEqual(got.trace, want.trace) {
			return fail("operands evaluated in order %v, reference says %v (left to right, short-circuit)", got.trace, want.trace)
		}
		if res.Out != "" {
			return fail("a code tag produced output %q", res.Out)
		}
	}
	nt := ""
	if c.Expr.depth() >= 2 || want.isErr {
		nt = min
	}
	if want.isErr {
		class += "/error"
	} else {
		class += fmt.Sprintf("/%T", want.val)
	}
	r.Count(nt, class)
	if nt != "" {
		r.Sample(func() interface{} {
			return map[string]interface{}{"minimal": min, "full": full, "reference": fmt.Sprintf("%v err=%v", want.val, want.isErr), "trace": want.trace}
		})
	}
	return nil
}

// ---- one expression, several operand tuples in one render ------------------------------------

// SeqCase: ONE expression over the variables p and q is evaluated several times within one render, the operands
// changing kind from one evaluation to the next (an int pair, then a float pair, then strings ...). What an
// operator does may depend on its operands now, not on the operands the same source expression saw before.
type SeqCase struct {
	Expr E           `json:"expr"` // leaves may also be "p" and "q"
	Rows [][2]string `json:"rows"` // pool leaves supplying p and q for each evaluation
	Mode string      `json:"mode"` // fn: let f = fn(p, q) { return EXPR }, called once per row; loop: for (row) in rows { cap(EXPR over row[0], row[1]) }
}

func (e *E) toModelWith(sub map[string]model.Expr) model.Expr {
	if e.Leaf != "" {
		if x, ok := sub[e.Leaf]; ok {
			if e.Trace > 0 {
				return model.Call{Fn: "t", Args: []model.Expr{model.Lit{V: e.Trace}, x}}
			}
			return x
		}
		return e.toModel()
	}
	cp := *e
	cp.Trace = 0
	var x model.Expr
	switch {
	case e.Not != nil:
		x = model.Not{X: e.Not.toModelWith(sub)}
	case e.Paren != nil:
		x = model.Paren{X: e.Paren.toModelWith(sub)}
	default:
		x = model.Bin{Op: e.Op, L: e.L.toModelWith(sub), R: e.R.toModelWith(sub)}
	}
	if e.Trace > 0 {
		x = model.Call{Fn: "t", Args: []model.Expr{model.Lit{V: e.Trace}, x}}
	}
	return x
}

func (e *E) validPQ() bool {
	if e.Leaf == "p" || e.Leaf == "q" {
		return e.Not == nil && e.Paren == nil && e.Op == ""
	}
	switch {
	case e.Leaf != "":
		return e.valid()
	case e.Not != nil:
		return e.Op == "" && e.Paren == nil && e.Not.validPQ()
	case e.Paren != nil:
		return e.Op == "" && e.Paren.validPQ()
	}
	ok := false
	for _, o := range binOps {
		ok = ok || o == e.Op
	}
	return ok && e.L != nil && e.R != nil && e.L.validPQ() && e.R.validPQ()
}

func (e E) toModelP() model.Expr { return e.toModel() }

func leafValue(name string) interface{} {
	switch l := leaves[name].(type) {
	case model.Lit:
		return l.V
	case model.Var:
		return data[l.Name]
	}
	return nil
}

func checkSeq(r *vk.Run, c SeqCase, class string) *vk.Fail {
	defer r.Watch("seq", c)()
	d := map[string]interface{}{}
	for k, v := range data {
		d[k] = v
	}
	var prog []model.Node
	capOf := func(x model.Expr) model.Node {
		return model.Code{S: model.ExprS{X: model.Call{Fn: "cap", Args: []model.Expr{x}}}}
	}
	switch c.Mode {
	case "fn":
		body := c.Expr.toModelWith(map[string]model.Expr{"p": model.Var{Name: "p"}, "q": model.Var{Name: "q"}})
		prog = append(prog, model.Code{S: model.LetS{Name: "f", X: model.FnLit{Params: []string{"p", "q"}, Body: []model.Node{model.Code{S: model.ReturnS{X: body}}}}}})
		for _, row := range c.Rows {
			prog = append(prog, capOf(model.Call{Fn: "f", Args: []model.Expr{leaves[row[0]], leaves[row[1]]}}))
		}
	case "loop":
		var rows []interface{}
		for _, row := range c.Rows {
			rows = append(rows, []interface{}{leafValue(row[0]), leafValue(row[1])})
		}
		d["rows"] = rows
		body := c.Expr.toModelWith(map[string]model.Expr{
			"p": model.Idx{X: model.Var{Name: "row"}, I: model.Lit{V: 0}}, "q": model.Idx{X: model.Var{Name: "row"}, I: model.Lit{V: 1}}})
		prog = append(prog, model.Code{S: model.ForS{For: &model.For{Val: "row", Iter: model.Var{Name: "rows"}, Body: []model.Node{capOf(body)}}}})
	default:
		return &vk.Fail{Kind: "decode", Msg: "unknown mode"}
	}
	type run struct {
		vals  []interface{}
		trace []int
	}
	mk := func(o *run) map[string]model.Helper {
		return map[string]model.Helper{
			"t":   func(a []interface{}) (interface{}, error) { o.trace = append(o.trace, a[0].(int)); return a[1], nil },
			"cap": func(a []interface{}) (interface{}, error) { o.vals = append(o.vals, a[0]); return nil, nil },
		}
	}
	var want, got run
	ref := model.Run(prog, d, mk(&want))
	if ref.Unspec != "" {
		r.Exclude("unspecified")
		return nil
	}
	src := model.Printer{}.Nodes(prog)
	fail := func(f string, a ...interface{}) *vk.Fail {
		return &vk.Fail{Kind: "seq", Case: c, Msg: fmt.Sprintf("%s  rows %v: ", src, c.Rows) + fmt.Sprintf(f, a...)}
	}
	d2 := map[string]interface{}{}
	for k, v := range d {
		d2[k] = v
	}
	res := vk.Safe(func() (string, error) { return plush.Render(src, model.Context(d2, mk(&got))) })
	kinds := map[string]bool{}
	for _, v := range want.vals {
		kinds[fmt.Sprintf("%T", v)] = true
	}
	nt := ""
	if len(c.Rows) >= 2 {
		nt = fmt.Sprintf("SEQ|%s|%v", src, c.Rows)
	}
	r.Count(nt, fmt.Sprintf("%s/%s/kinds=%d", class, c.Mode, len(kinds)))
	if nt != "" {
		r.Sample(func() interface{} {
			return map[string]interface{}{"template": src, "rows": c.Rows, "reference_values": fmt.Sprint(want.vals), "reference_error": ref.Err}
		})
	}
	if res.Panicked() {
		return fail("%s", res)
	}
	if ref.Err != "" {
		if res.Err == nil {
			return fail("reference says evaluation %d is an error (%s), render succeeded with values %v", len(want.vals)+1, ref.Err, got.vals)
		}
		return nil
	}
	if res.Err != nil {
		return fail("reference values %v, render failed: %v", want.vals, res.Err)
	}
	if len(got.vals) != len(want.vals) {
		return fail("%d values captured, reference says %d", len(got.vals), len(want.vals))
	}
	for i := range want.vals {
		if !sameVal(got.vals[i], want.vals[i]) {
			return fail("evaluation %d gave %s, reference says %s", i+1, model.Describe(got.vals[i]), model.Describe(want.vals[i]))
		}
	}
	if !reflect.DeepEqual(got.trace, want.trace) {
		return fail("operands evaluated in order %v, reference says %v", got.trace, want.trace)
	}
	return nil
}

// ---- generators ----------------------------------------------------------------

func leaf(name string) *E { return &E{Leaf: name} }

type gen struct {
	t     *rapid.T
	trace int
}

func (g *gen) wrap(e *E) *E {
	k := g.t
	switch rapid.IntRange(0, 9).Draw(k, "wrap") {
	case 0:
		return &E{Paren: e}
	case 1, 2:
		if e.Trace == 0 {
			g.trace++
			cp := *e
			cp.Trace = g.trace
			return &cp
		}
	}
	return e
}

func (g *gen) pick(names []string) *E { return leaf(rapid.SampledFrom(names).Draw(g.t, "leaf")) }

func (g *gen) typed(kind string, d int) *E {
	t := g.t
	if d <= 0 || rapid.IntRange(0, 4).Draw(t, "stop") == 0 {
		switch kind {
		case "int":
			return g.wrap(g.pick(intLeaves))
		case "float":
			return g.wrap(g.pick(floatLeaves))
		case "string":
			return g.wrap(g.pick(stringLeaves))
		case "bool":
			return g.wrap(g.pick(boolLeaves))
		}
		return g.wrap(g.pick(allLeaves))
	}
	bin := func(op string, l, r *E) *E { return g.wrap(&E{Op: op, L: l, R: r}) }
	arith := []string{"+", "-", "*", "/"}
	cmp := []string{"<", "<=", ">", ">=", "==", "!="}
	switch kind {
	case "int":
		return bin(rapid.SampledFrom(arith).Draw(t, "op"), g.typed("int", d-1), g.typed("int", d-1))
	case "float":
		return bin(rapid.SampledFrom(arith).Draw(t, "op"), g.typed("float", d-1), g.typed("float", d-1))
	case "string":
		return bin("+", g.typed("string", d-1), g.typed(rapid.SampledFrom([]string{"string", "int", "float", "bool"}).Draw(t, "rk"), d-1))
	case "bool":
		switch rapid.IntRange(0, 8).Draw(t, "form") {
		case 0:
			return bin(rapid.SampledFrom(cmp).Draw(t, "op"), g.typed("int", d-1), g.typed("int", d-1))
		case 1:
			return bin(rapid.SampledFrom(cmp).Draw(t, "op"), g.typed("float", d-1), g.typed("float", d-1))
		case 2:
			return bin(rapid.SampledFrom(cmp).Draw(t, "op"), g.typed("string", d-1), g.typed("string", d-1))
		case 3:
			return bin("~=", g.typed("string", d-1), g.pick([]string{`"a"`, `"^a"`, `"b2"`, `""`, `"("`}))
		case 4:
			return bin(rapid.SampledFrom([]string{"==", "!="}).Draw(t, "op"), g.typed("bool", d-1), g.typed("bool", d-1))
		case 5:
			if rapid.Bool().Draw(t, "side") {
				return bin(rapid.SampledFrom([]string{"==", "!="}).Draw(t, "op"), g.pick([]string{"nil", "unk"}), g.typed("any", d-1))
			}
			return bin(rapid.SampledFrom([]string{"==", "!="}).Draw(t, "op"), g.typed("any", d-1), g.pick([]string{"nil", "unk"}))
		case 6, 7:
			return bin(rapid.SampledFrom([]string{"&&", "||"}).Draw(t, "op"), g.typed("any", d-1), g.typed("any", d-1))
		default:
			return g.wrap(&E{Not: g.typed("any", d-1)})
		}
	}
	// any
	switch rapid.IntRange(0, 5).Draw(t, "anykind") {
	case 0:
		return g.typed("int", d)
	case 1:
		return g.typed("float", d)
	case 2:
		return g.typed("string", d)
	case 3, 4:
		return g.typed("bool", d)
	}
	// deliberately untyped: mismatches must be errors
	return bin(rapid.SampledFrom(binOps).Draw(t, "op"), g.typed("any", d-1), g.typed("any", d-1))
}

const rule = "expression trees over a pool of int/float/string/bool/nil leaves (literals and variables, incl. negative numbers, a 2^53+1 integer, floats whose printed form has an exponent (1000000.0, 2.5e9, 0.00001), an unknown identifier) and the operators + - * / < <= > >= == != ~= && || ! and parentheses. (E) every tree of depth <=2 - all leaf pairs x 13 operators, !leaf, and both association shapes (a op1 b) op2 c / a op1 (b op2 c) over a 13-leaf (quick: 7-leaf) pool; (R) type-directed random trees to depth 5 in which every node is specified, plus deliberately ill-typed nodes that must be errors, with random redundant parentheses and operands wrapped in a recording helper t(i, x). Every tree is printed with the minimal parentheses implied by the stated precedence/left-associativity and fully parenthesised; both spellings are rendered as <% cap(EXPR) %> and the captured typed Go value, the helper invocation order (left-to-right, short-circuit) and error-ness must equal the reference evaluator's. SEQUENCES: one expression over the variables p and q is evaluated 2-4 times within one render (as the body of a template function called once per operand pair, or inside a loop over the pairs), the operand kinds changing from one evaluation to the next: (S1) p OP q for all 13 operators x every ordered pair (A, B) of 21 operand pairs that have a value, evaluated A, B, A, and every value pair followed by every error pair; (SR) random shapes to depth 3 over p, q and literals with random rows; every captured value and the operand evaluation order must equal the reference evaluator's. Trees whose meaning the statement does not fix (bool==non-bool, string<non-string, string+nil, int overflow, float Inf/NaN, ~= on non-strings) are counted under excluded:unspecified and not asserted. Non-trivial = depth >= 2 or an error outcome; distinct by minimal spelling."

func setup(t *testing.T) *vk.Run {
	r := vk.Start(t, "C06", rule,
		"the reference evaluator (internal/model) encodes the operator meanings given in the property statement; integer results are computed with math/big to recognise overflow",
		"negative numbers enter through variables because the language has no negative literals")
	r.Replayer("expr", func(raw json.RawMessage) *vk.Fail {
		var c Case
		if f := vk.Decode(raw, &c); f != nil {
			return f
		}
		if !c.Expr.valid() {
			return &vk.Fail{Kind: "decode", Msg: "malformed expression"}
		}
		return checkExpr(r, c, "replay")
	})
	r.Replayer("seq", func(raw json.RawMessage) *vk.Fail {
		var c SeqCase
		if f := vk.Decode(raw, &c); f != nil {
			return f
		}
		if !c.Expr.validPQ() || (c.Mode != "fn" && c.Mode != "loop") {
			return &vk.Fail{Kind: "decode", Msg: "malformed sequence case"}
		}
		for _, row := range c.Rows {
			for _, l := range row {
				if _, ok := leaves[l]; !ok {
					return &vk.Fail{Kind: "decode", Msg: "unknown leaf " + l}
				}
			}
		}
		return checkSeq(r, c, "replay")
	})
	return r
}

func TestReplay(t *testing.T) { setup(t).ReplayEnv() }

func TestProp(t *testing.T) {
	r := setup(t)
	defer r.Finish()
	r.ReplayCommitted()

	pool := allLeaves
	if r.Quick() {
		pool = quickLeaves
	}
	// depth 1: every leaf pair over the whole pool, and !leaf
	var all []string
	for k := range leaves {
		all = append(all, k)
	}
	sortStrings(all)
	n1 := int64(len(all) * len(all) * len(binOps))
	r.Subspace(fmt.Sprintf("depth 1: every leaf pair of the full %d-leaf pool x 13 operators, plus !leaf and !!leaf", len(all)), n1+int64(2*len(all)), true)
	r.Parallel(n1, 0, func(i int64) {
		op := binOps[i%int64(len(binOps))]
		j := i / int64(len(binOps))
		a, b := all[j%int64(len(all))], all[j/int64(len(all))]
		r.Check(checkExpr(r, Case{Expr: E{Op: op, L: leaf(a), R: leaf(b)}}, "E1"))
	})
	for _, a := range all {
		r.Check(checkExpr(r, Case{Expr: E{Not: leaf(a)}}, "E1"))
		r.Check(checkExpr(r, Case{Expr: E{Not: &E{Not: leaf(a)}}}, "E1"))
	}
	// depth 2: both association shapes
	np, no := int64(len(pool)), int64(len(binOps))
	n2 := np * np * np * no * no * 2
	r.Subspace(fmt.Sprintf("depth 2: %d^3 leaves x 13^2 operators x 2 association shapes", np), n2, true)
	r.Parallel(n2, 0, func(i int64) {
		shape := i % 2
		i /= 2
		o1, o2 := binOps[i%no], binOps[(i/no)%no]
		i /= no * no
		a, b, c := pool[i%np], pool[(i/np)%np], pool[i/np/np]
		var e E
		if shape == 0 {
			e = E{Op: o2, L: &E{Op: o1, L: leaf(a), R: leaf(b)}, R: leaf(c)}
		} else {
			e = E{Op: o1, L: leaf(a), R: &E{Op: o2, L: leaf(b), R: leaf(c)}}
		}
		r.Check(checkExpr(r, Case{Expr: e}, "E2"))
	})
	// depth 2 over homogeneous pools, where most trees have values rather than errors
	for gi, grp := range [][]string{{"0", "2", "7", "n3"}, {"1.5", "0.0", "2.0", "nf"}, {`"a"`, `"b2"`, `""`, `"^a"`}, {"true", "false", "nil", "unk"}, {"2", `"a"`, "true", "1.5"}} {
		grp := grp
		ng := int64(len(grp))
		n := ng * ng * ng * no * no * 2
		r.Subspace(fmt.Sprintf("depth 2, homogeneous pool %v: %d^3 x 13^2 x 2 shapes", grp, ng), n, true)
		r.Parallel(n, 0, func(i int64) {
			shape := i % 2
			i /= 2
			o1, o2 := binOps[i%no], binOps[(i/no)%no]
			i /= no * no
			a, b, c := grp[i%ng], grp[(i/ng)%ng], grp[i/ng/ng]
			var e E
			if shape == 0 {
				e = E{Op: o2, L: &E{Op: o1, L: leaf(a), R: leaf(b)}, R: leaf(c)}
			} else {
				e = E{Op: o1, L: leaf(a), R: &E{Op: o2, L: leaf(b), R: leaf(c)}}
			}
			r.Check(checkExpr(r, Case{Expr: e}, fmt.Sprintf("E2h%d", gi)))
		})
	}
	// ! inside and outside binary operators
	for _, a := range pool {
		for _, b := range pool {
			for _, op := range binOps {
				r.Check(checkExpr(r, Case{Expr: E{Op: op, L: &E{Not: leaf(a)}, R: leaf(b)}}, "E2not"))
				r.Check(checkExpr(r, Case{Expr: E{Not: &E{Op: op, L: leaf(a), R: leaf(b)}}}, "E2not"))
				r.Check(checkExpr(r, Case{Expr: E{Op: op, L: leaf(a), R: &E{Not: leaf(b)}}}, "E2not"))
			}
		}
	}

	r.Rapid("typed-trees", r.Pick(8000, 120000), func(t *rapid.T) *vk.Fail {
		g := &gen{t: t}
		kind := rapid.SampledFrom([]string{"int", "float", "string", "bool", "bool", "any"}).Draw(t, "kind")
		e := g.typed(kind, rapid.IntRange(1, 5).Draw(t, "depth"))
		return checkExpr(r, Case{Expr: *e}, "R/"+kind)
	})
	seqPhases(r)
}

// seqGroups: operand pairs of one kind each; a sequence walks through several groups
var seqGroups = [][]string{{"2", "7", "n3", "0"}, {"1.5", "2.0", "nf", "0.0"}, {`"a"`, `"b2"`, `""`, `"^a"`}, {"true", "false"}, {"nil"}}

func seqPhases(r *vk.Run) {
	// E: p OP q for every operator. The operand pairs are split by the reference into those with a value and those
	// that are errors; every ordered pair (A, B) of value pairs is evaluated A, B, A, and every value pair is
	// followed by every error pair (an operator that worked for the operands before still fails for these).
	var n int64
	reps := [][2]string{{"2", "7"}, {"7", "2"}, {"n3", "0"}, {"1.5", "2.0"}, {"nf", "1.5"}, {`"a"`, `"b2"`}, {`"b2"`, `"a"`}, {`"a"`, `"a"`}, {`""`, `"^a"`},
		{"true", "false"}, {"false", "false"}, {"nil", "nil"}, {"2", "1.5"}, {"1.5", "2"}, {`"a"`, "2"}, {`"a"`, "true"}, {"7", "0"}, {"2", "nil"}, {"true", "nil"}, {"2", `"a"`}, {"true", "2"}}
	for _, op := range binOps {
		var ok, bad [][2]string
		for _, row := range reps {
			o, unspec := runModel(E{Op: op, L: leaf(row[0]), R: leaf(row[1])}.toModelP())
			switch {
			case unspec != "":
			case o.isErr:
				bad = append(bad, row)
			default:
				ok = append(ok, row)
			}
		}
		for _, mode := range []string{"fn", "loop"} {
			usable := func(rows ...[2]string) bool {
				for _, row := range rows {
					if mode == "loop" && (row[0] == "nil" || row[1] == "nil") {
						return false // a nil element of a data row is fine, but keep the two modes' tables identical in meaning: nil enters through arguments only
					}
				}
				return true
			}
			for i := range ok {
				for j := range ok {
					if i != j && usable(ok[i], ok[j]) {
						if r.Mine(n) {
							r.Check(checkSeq(r, SeqCase{Expr: E{Op: op, L: leaf("p"), R: leaf("q")}, Rows: [][2]string{ok[i], ok[j], ok[i]}, Mode: mode}, "S1"))
						}
						n++
					}
				}
				for _, e := range bad {
					if usable(ok[i], e) {
						if r.Mine(n) {
							r.Check(checkSeq(r, SeqCase{Expr: E{Op: op, L: leaf("p"), R: leaf("q")}, Rows: [][2]string{ok[i], e}, Mode: mode}, "S1err"))
						}
						n++
					}
				}
			}
		}
	}
	r.Subspace("sequences: p OP q for 13 operators x {ordered pairs (A, B) of operand pairs with a value, evaluated A, B, A; value pair then error pair} over 21 operand pairs x {function, loop}", n, true)
	r.Rapid("sequences", r.Pick(4000, 60000), func(t *rapid.T) *vk.Fail {
		g := &gen{t: t}
		var shape func(d int) *E
		shape = func(d int) *E {
			if d <= 0 || rapid.IntRange(0, 3).Draw(t, "stop") == 0 {
				return g.wrap(leaf(rapid.SampledFrom([]string{"p", "q", "p", "q", "2", "1.5", `"a"`, "true", "nil", "unk"}).Draw(t, "leaf")))
			}
			if rapid.IntRange(0, 7).Draw(t, "not") == 0 {
				return g.wrap(&E{Not: shape(d - 1)})
			}
			return g.wrap(&E{Op: rapid.SampledFrom(binOps).Draw(t, "op"), L: shape(d - 1), R: shape(d - 1)})
		}
		c := SeqCase{Expr: *shape(rapid.IntRange(1, 3).Draw(t, "depth")), Mode: rapid.SampledFrom([]string{"fn", "loop"}).Draw(t, "mode")}
		homog := rapid.IntRange(0, 3).Draw(t, "homogeneous") > 0
		for i, n := 0, rapid.IntRange(2, 4).Draw(t, "rows"); i < n; i++ {
			pool := allLeaves
			if homog {
				pool = rapid.SampledFrom(seqGroups[:4]).Draw(t, "group")
			}
			var row [2]string
			for k := range row {
				row[k] = rapid.SampledFrom(pool).Draw(t, "operand")
				if row[k] == "unk" || (c.Mode == "loop" && row[k] == "nil") {
					row[k] = "2"
				}
			}
			c.Rows = append(c.Rows, row)
		}
		return checkSeq(r, c, "SR")
	})
}

func sortStrings(s []string) {
	for i := 1; i < len(s); i++ {
		for j := i; j > 0 && strings.Compare(s[j-1], s[j]) > 0; j-- {
			s[j-1], s[j] = s[j], s[j-1]
		}
	}
}
