// C12 — Go helpers receive exactly the supplied arguments, in order, or are not called.
//
// A helper of a generated signature is built with reflect.FuncOf/MakeFunc so that every invocation is recorded.
// The reference binder below is written from the property statement: it says, for a signature and a call, whether
// the function must be invoked (and with which values), must not be invoked (error naming the call), or whether the
// statement is silent (too few arguments for the fixed parameters).
package c12

import (
	"encoding/json"
	"errors"
	"fmt"
	"reflect"
	"strings"
	"testing"

	"verif/internal/vk"

	plush "github.com/gobuffalo/plush/v5"
	"github.com/gobuffalo/plush/v5/helpers/hctx"
	"pgregory.net/rapid"
)

func TestMain(m *testing.M) { vk.Main(m) }

// fname is the name under which the recorded function is called. It is not a substring of any other name or
// literal used in the generated templates, so "the error names the call" can be tested by containment.
const fname = "tgtFn"

const maxArgs = 6

// T is the pointee of the *T parameter type.
type T struct{ N int }

type myStr string

type sentinelErr struct{ id int }

func (s *sentinelErr) Error() string { return "c12-sentinel-error" }

var (
	tAny      = reflect.TypeOf((*interface{})(nil)).Elem()
	tErr      = reflect.TypeOf((*error)(nil)).Elem()
	tHCStruct = reflect.TypeOf(plush.HelperContext{})
	tHCIface  = reflect.TypeOf((*hctx.HelperContext)(nil)).Elem()
)

var fixedNames = []string{"string", "int", "float64", "bool", "any", "ptr", "ints"}

var fixedTypes = map[string]reflect.Type{
	"string": reflect.TypeOf(""), "int": reflect.TypeOf(0), "float64": reflect.TypeOf(0.0), "bool": reflect.TypeOf(false),
	"any": tAny, "ptr": reflect.TypeOf((*T)(nil)), "ints": reflect.TypeOf([]int(nil)),
}

var mapTypes = map[string]reflect.Type{"map": reflect.TypeOf(map[string]interface{}(nil)), "hmap": reflect.TypeOf(hctx.Map(nil))}
var hcTypes = map[string]reflect.Type{"struct": tHCStruct, "iface": tHCIface}
var varElemTypes = map[string]reflect.Type{"int": fixedTypes["int"], "string": fixedTypes["string"], "any": tAny}

var resShapes = []string{"()", "(T)", "(T,nil)", "(T,err)", "(nil)", "(err)"}
var resTypes = []string{"string", "int", "any"}

// Sig describes one helper signature of the family.
type Sig struct {
	Fixed []string `json:"fixed"`         // names from fixedNames
	Map   string   `json:"map,omitempty"` // "", "map" (map[string]interface{}), "hmap" (hctx.Map)
	HC    string   `json:"hc,omitempty"`  // "", "struct" (plush.HelperContext), "iface" (hctx.HelperContext)
	Var   string   `json:"var,omitempty"` // "", "int", "string", "any": element type of the variadic tail
	Res   string   `json:"res"`           // one of resShapes
	RT    string   `json:"rt,omitempty"`  // result type T: string | int | any
}

func (s Sig) validate() string {
	if len(s.Fixed) > 4 {
		return "too many fixed parameters"
	}
	for _, f := range s.Fixed {
		if fixedTypes[f] == nil {
			return "unknown fixed type " + f
		}
	}
	if s.Map != "" && mapTypes[s.Map] == nil {
		return "unknown map type"
	}
	if s.HC != "" && hcTypes[s.HC] == nil {
		return "unknown helper context type"
	}
	if s.Var != "" && (varElemTypes[s.Var] == nil || s.Map != "" || s.HC != "") {
		return "bad variadic tail"
	}
	ok := false
	for _, x := range resShapes {
		ok = ok || x == s.Res
	}
	if !ok {
		return "unknown result shape"
	}
	if strings.Contains(s.Res, "T") && s.RT != "string" && s.RT != "int" && s.RT != "any" {
		return "unknown result type"
	}
	return ""
}

// params returns the non-variadic parameter types and their roles ("fixed", "map", "hc").
func (s Sig) params() (types []reflect.Type, roles []string) {
	for _, f := range s.Fixed {
		types = append(types, fixedTypes[f])
		roles = append(roles, "fixed")
	}
	if s.Map != "" {
		types = append(types, mapTypes[s.Map])
		roles = append(roles, "map")
	}
	if s.HC != "" {
		types = append(types, hcTypes[s.HC])
		roles = append(roles, "hc")
	}
	return
}

func (s Sig) funcType() reflect.Type {
	in, _ := s.params()
	if s.Var != "" {
		in = append(in, reflect.SliceOf(varElemTypes[s.Var]))
	}
	var out []reflect.Type
	if strings.Contains(s.Res, "T") {
		out = append(out, map[string]reflect.Type{"string": fixedTypes["string"], "int": fixedTypes["int"], "any": tAny}[s.RT])
	}
	if strings.Contains(s.Res, "nil") || strings.Contains(s.Res, "err") {
		out = append(out, tErr)
	}
	return reflect.FuncOf(in, out, s.Var != "")
}

func (s Sig) String() string {
	ps := append([]string{}, s.Fixed...)
	if s.Map != "" {
		ps = append(ps, "opts:"+s.Map)
	}
	if s.HC != "" {
		ps = append(ps, "hc:"+s.HC)
	}
	if s.Var != "" {
		ps = append(ps, "..."+s.Var)
	}
	return "func(" + strings.Join(ps, ", ") + ") " + strings.Replace(s.Res, "T", s.RT, 1)
}

// ---- arguments ------------------------------------------------------------------

// argKinds are the ways an argument can be spelled in the call. Literal values depend on the position so that
// exchanged arguments are visible.
var argKinds = []string{"str", "int", "float", "true", "false", "nil", "hash", "array",
	"cvStr", "cvInt", "cvFloat", "cvBool", "cvPtr", "cvNilPtr", "cvInts", "cvI8", "cvMyStr", "cvHMap"}

var argKindSet = func() map[string]bool {
	m := map[string]bool{}
	for _, k := range argKinds {
		m[k] = true
	}
	return m
}()

func argSource(kind string, pos int) string {
	switch kind {
	case "str":
		return fmt.Sprintf(`"s%d"`, pos)
	case "int":
		return fmt.Sprint(10 + pos)
	case "float":
		return fmt.Sprintf("%d.5", pos)
	case "hash":
		return fmt.Sprintf("{a: %d}", pos)
	case "array":
		return fmt.Sprintf(`[%d, "z"]`, pos)
	}
	return kind // true false nil cvXxx
}

// env is the fresh world of one render: context data, recorders.
type env struct {
	c        Case
	ptr      *T
	ints     []int
	hmap     hctx.Map
	sentinel error
	evals    []int                  // argument positions in the order their wrappers ran
	seen     [maxArgs][]interface{} // what each wrapper received
	calls    []invocation           // invocations of the function under test
	harness  interface{}            // a panic inside the recorder itself
	data     map[string]interface{}
}

type got struct {
	v        interface{}
	zero     bool
	hcSeen   bool
	hasBlock bool
	block    vk.Res
}

type invocation struct {
	fixed    []got
	variadic []got
}

func (e *env) argValue(kind string, pos int) interface{} {
	switch kind {
	case "str":
		return fmt.Sprintf("s%d", pos)
	case "int":
		return 10 + pos
	case "float":
		return float64(pos) + 0.5
	case "true":
		return true
	case "false":
		return false
	case "nil":
		return nil
	case "hash":
		return map[string]interface{}{"a": pos}
	case "array":
		return []interface{}{pos, "z"}
	case "cvStr":
		return "cv"
	case "cvInt":
		return 77
	case "cvFloat":
		return 2.25
	case "cvBool":
		return true
	case "cvPtr":
		return e.ptr
	case "cvNilPtr":
		return (*T)(nil)
	case "cvInts":
		return e.ints
	case "cvI8":
		return int8(8)
	case "cvMyStr":
		return myStr("m")
	case "cvHMap":
		return e.hmap
	}
	panic("harness: unknown argument kind " + kind)
}

func newEnv(c Case) *env {
	e := &env{c: c, ptr: &T{N: 3}, ints: []int{4, 5}, hmap: hctx.Map{"k": 1}, sentinel: &sentinelErr{id: 1}}
	d := map[string]interface{}{"cvBlk": "7"}
	for _, k := range argKinds {
		if strings.HasPrefix(k, "cv") {
			d[k] = e.argValue(k, 0)
		}
	}
	for i := 0; i < maxArgs; i++ {
		i := i
		d[fmt.Sprintf("w%d", i)] = func(v interface{}) interface{} {
			e.evals = append(e.evals, i)
			e.seen[i] = append(e.seen[i], v)
			return v
		}
	}
	d[fname] = e.target()
	e.data = d
	return e
}

func (e *env) observe(v reflect.Value, role string) got {
	g := got{zero: v.IsZero()}
	if v.Kind() == reflect.Interface && v.IsNil() {
		g.v = nil
	} else {
		g.v = v.Interface()
	}
	if role == "hc" && !g.zero {
		h, ok := g.v.(hctx.HelperContext)
		if !ok {
			return g
		}
		g.hcSeen = true
		// calls into the code under test are guarded separately so that a panic there is not taken for a harness defect
		r := vk.Safe(func() (string, error) {
			g.hasBlock = h.HasBlock()
			return "", nil
		})
		if r.Panicked() {
			g.block = r
			return g
		}
		if g.hasBlock {
			g.block = vk.Safe(h.Block)
		}
	}
	return g
}

// target builds the recording function of the case's signature.
func (e *env) target() interface{} {
	s := e.c.Sig
	ft := s.funcType()
	_, roles := s.params()
	fn := reflect.MakeFunc(ft, func(in []reflect.Value) (out []reflect.Value) {
		defer func() {
			if p := recover(); p != nil {
				e.harness = p
				panic(p)
			}
		}()
		var inv invocation
		for i, v := range in {
			if s.Var != "" && i == len(in)-1 {
				for j := 0; j < v.Len(); j++ {
					inv.variadic = append(inv.variadic, e.observe(v.Index(j), "variadic"))
				}
				continue
			}
			inv.fixed = append(inv.fixed, e.observe(v, roles[i]))
		}
		e.calls = append(e.calls, inv)
		if strings.Contains(s.Res, "T") {
			switch s.RT {
			case "string":
				out = append(out, reflect.ValueOf("Rs"))
			case "int":
				out = append(out, reflect.ValueOf(4242))
			default:
				rv := reflect.New(tAny).Elem()
				rv.Set(reflect.ValueOf("Ra"))
				out = append(out, rv)
			}
		}
		if strings.Contains(s.Res, "nil") {
			out = append(out, reflect.Zero(tErr))
		} else if strings.Contains(s.Res, "err") {
			ev := reflect.New(tErr).Elem()
			ev.Set(reflect.ValueOf(e.sentinel))
			out = append(out, ev)
		}
		return out
	})
	return fn.Interface()
}

func (s Sig) resultText() string {
	if !strings.Contains(s.Res, "T") {
		return ""
	}
	switch s.RT {
	case "string":
		return "Rs"
	case "int":
		return "4242"
	}
	return "Ra"
}

// ---- the case ----------------------------------------------------------------------

type Case struct {
	Sig   Sig      `json:"sig"`
	Args  []string `json:"args"`  // argument kinds
	Wrap  uint     `json:"wrap"`  // bit i set: argument i is wrapped in the order-recording identity helper w<i>
	Block bool     `json:"block"` // the call carries a block
}

const blockSrc = `B<%= cvBlk %>E`
const blockText = "B7E"

func (c Case) validate() string {
	if m := c.Sig.validate(); m != "" {
		return m
	}
	if len(c.Args) > maxArgs {
		return "too many arguments"
	}
	for _, a := range c.Args {
		if !argKindSet[a] {
			return "unknown argument kind " + a
		}
	}
	return ""
}

func (c Case) wrapped(i int) bool { return c.Wrap&(1<<uint(i)) != 0 }

func (c Case) Template() string {
	var parts []string
	for i, a := range c.Args {
		s := argSource(a, i)
		if c.wrapped(i) {
			s = fmt.Sprintf("w%d(%s)", i, s)
		}
		parts = append(parts, s)
	}
	call := fname + "(" + strings.Join(parts, ", ") + ")"
	if c.Block {
		return "[<%= " + call + " { %>" + blockSrc + "<% } %>]"
	}
	return "[<%= " + call + " %>]"
}

func (c Case) Key() string { return c.Sig.String() + " | " + c.Template() }

// ---- reference binder (from the property statement) ---------------------------------

type slotWant struct {
	mode     string // value | zero | automap | autohc
	val      interface{}
	identity bool // the received value must be the very object held by the context
	pos      int
}

type expectation struct {
	unspecified string // statement silent: reason
	errClass    string // "" | too-many | not-assignable: error naming the call, function not invoked
	fixed       []slotWant
	variadic    []slotWant
	autoMap     bool
	autoHC      bool
	nilZero     string // "", "fixed", "variadic": a nil argument became a zero value
}

// fits: nil becomes the zero value of any parameter type; otherwise the value must be assignable.
func fits(v interface{}, pt reflect.Type) bool {
	return v == nil || reflect.TypeOf(v).AssignableTo(pt)
}

func bind(c Case, e *env) expectation {
	var x expectation
	types, roles := c.Sig.params()
	k, n := len(c.Sig.Fixed), len(c.Args)
	vals := make([]interface{}, n)
	for i, a := range c.Args {
		vals[i] = e.argValue(a, i)
	}
	want := func(i int) slotWant {
		if vals[i] == nil {
			return slotWant{mode: "zero", pos: i}
		}
		return slotWant{mode: "value", val: vals[i], identity: strings.HasPrefix(c.Args[i], "cv"), pos: i}
	}
	if c.Sig.Var == "" {
		N := len(types)
		if n > N {
			x.errClass = "too-many"
			return x
		}
		for i := 0; i < n; i++ {
			if !fits(vals[i], types[i]) {
				x.errClass = "not-assignable"
				return x
			}
		}
		if n < k {
			x.unspecified = "too-few-for-fixed"
			return x
		}
		for i := 0; i < N; i++ {
			switch {
			case i < n:
				w := want(i)
				if w.mode == "zero" {
					x.nilZero = "fixed"
				}
				x.fixed = append(x.fixed, w)
			case roles[i] == "map":
				x.autoMap = true
				x.fixed = append(x.fixed, slotWant{mode: "automap", pos: i})
			case roles[i] == "hc":
				x.autoHC = true
				x.fixed = append(x.fixed, slotWant{mode: "autohc", pos: i})
			default:
				panic("harness: omitted fixed parameter reached the binder")
			}
		}
		return x
	}
	// variadic
	et := varElemTypes[c.Sig.Var]
	for i := 0; i < n; i++ {
		pt := et
		if i < k {
			pt = types[i]
		}
		if !fits(vals[i], pt) {
			x.errClass = "not-assignable"
			return x
		}
	}
	if n < k {
		x.unspecified = "too-few-for-fixed"
		return x
	}
	for i := 0; i < n; i++ {
		w := want(i)
		if i < k {
			if w.mode == "zero" {
				x.nilZero = "fixed"
			}
			x.fixed = append(x.fixed, w)
		} else {
			if w.mode == "zero" {
				x.nilZero = "variadic"
			}
			x.variadic = append(x.variadic, w)
		}
	}
	return x
}

func (x expectation) class(c Case) string {
	switch {
	case x.unspecified != "":
		return "unspecified/" + x.unspecified
	case x.errClass != "":
		return "error/" + x.errClass
	}
	s := "invoke"
	switch {
	case x.autoMap && x.autoHC:
		s += "/auto-map+hc"
	case x.autoMap:
		s += "/auto-map"
	case x.autoHC:
		s += "/auto-hc"
	case c.Sig.Var != "":
		s += fmt.Sprintf("/variadic-%d", len(x.variadic))
	default:
		s += "/plain"
	}
	if c.Sig.HC != "" {
		s += "/hc-" + c.Sig.HC
	}
	if c.Block {
		s += "/block"
	}
	if strings.Contains(c.Sig.Res, "err") {
		s += "/error-result"
	}
	return s
}

func (x expectation) describe(c Case) string {
	switch {
	case x.unspecified != "":
		return "unspecified: " + x.unspecified
	case x.errClass != "":
		return "error naming " + fname + " (" + x.errClass + "), function not invoked"
	}
	var ps []string
	for _, w := range append(append([]slotWant{}, x.fixed...), x.variadic...) {
		switch w.mode {
		case "value":
			ps = append(ps, fmt.Sprintf("%#v", w.val))
		default:
			ps = append(ps, w.mode)
		}
	}
	return "invoked once with (" + strings.Join(ps, ", ") + ")"
}

// sameValue compares a received value with the supplied one. pt is the parameter's static type.
func sameValue(want, gotv interface{}, pt reflect.Type, identity bool) string {
	if gotv == nil {
		return fmt.Sprintf("received nil, supplied %#v", want)
	}
	wv, gv := reflect.ValueOf(want), reflect.ValueOf(gotv)
	if wv.Type() != gv.Type() {
		if pt.Kind() == reflect.Interface || !wv.Type().AssignableTo(gv.Type()) {
			return fmt.Sprintf("received %#v (%T), supplied %#v (%T)", gotv, gotv, want, want)
		}
		wv = wv.Convert(gv.Type())
	}
	if !reflect.DeepEqual(wv.Interface(), gv.Interface()) {
		return fmt.Sprintf("received %#v, supplied %#v", gotv, want)
	}
	if identity {
		switch wv.Kind() {
		case reflect.Ptr, reflect.Map, reflect.Slice:
			if wv.Pointer() != gv.Pointer() {
				return fmt.Sprintf("received a different object than the one supplied (%#v)", want)
			}
		}
	}
	return ""
}

func (x expectation) compareSlot(c Case, w slotWant, g got, pt reflect.Type, where string) string {
	switch w.mode {
	case "value":
		if m := sameValue(w.val, g.v, pt, w.identity); m != "" {
			return where + ": " + m
		}
	case "zero":
		if !g.zero {
			return fmt.Sprintf("%s: nil was supplied, expected the zero value of %s, received %#v (%T)", where, pt, g.v, g.v)
		}
		if g.v != nil && reflect.TypeOf(g.v) != pt {
			return fmt.Sprintf("%s: nil was supplied, expected the zero value of %s, received %#v (%T)", where, pt, g.v, g.v)
		}
	case "automap":
		rv := reflect.ValueOf(g.v)
		if g.v == nil || rv.Kind() != reflect.Map || rv.IsNil() || rv.Len() != 0 {
			return fmt.Sprintf("%s: omitted options map must be supplied as an empty map, received %#v", where, g.v)
		}
	case "autohc":
		if !g.hcSeen {
			return fmt.Sprintf("%s: omitted helper context must be supplied, received %#v (zero=%v)", where, g.v, g.zero)
		}
		if g.block.Panicked() {
			return fmt.Sprintf("%s: using the supplied helper context panicked: %s", where, g.block)
		}
		if g.hasBlock != c.Block {
			return fmt.Sprintf("%s: helper context HasBlock() = %v, block given = %v", where, g.hasBlock, c.Block)
		}
		if c.Block && (g.block.Err != nil || g.block.Out != blockText) {
			return fmt.Sprintf("%s: helper context Block() = %s, want %q", where, g.block, blockText)
		}
	}
	return ""
}

// ---- the oracle ----------------------------------------------------------------------

func checkCase(r *vk.Run, c Case) *vk.Fail {
	if m := c.validate(); m != "" {
		return &vk.Fail{Kind: "decode", Msg: m}
	}
	defer r.Watch("call", c)()
	e := newEnv(c)
	src := c.Template()
	res := vk.Safe(func() (string, error) { return plush.Render(src, plush.NewContextWith(e.data)) })
	if e.harness != nil {
		panic(fmt.Sprintf("harness defect: the recorder panicked: %v (case %s)", e.harness, c.Key()))
	}
	x := bind(c, e)
	cls := x.class(c)
	fail := func(f string, a ...interface{}) *vk.Fail {
		return &vk.Fail{Kind: "call", Class: cls, Case: c,
			Msg: fmt.Sprintf("%s called as %s: expected %s; %s; render gave %s", c.Sig, src, x.describe(c), fmt.Sprintf(f, a...), res)}
	}

	// evaluation order: on every path each argument at most once, left to right
	last := -1
	for _, p := range e.evals {
		if p <= last {
			return fail("arguments were evaluated in the order %v (each at most once, left to right)", e.evals)
		}
		last = p
	}
	if len(e.calls) > 1 {
		return fail("the function was invoked %d times", len(e.calls))
	}

	if x.unspecified != "" {
		r.Exclude("unspecified")
		r.Count("", cls)
		return nil
	}

	nt := ""
	if len(c.Args) > 0 || x.autoMap || x.autoHC {
		nt = c.Key()
	}
	r.Count(nt, cls)
	if x.nilZero != "" {
		r.Class("nil-to-zero/" + x.nilZero)
	}
	if nt != "" {
		r.Sample(func() interface{} {
			return map[string]interface{}{"signature": c.Sig.String(), "template": src, "expected": x.describe(c), "got": res.String(), "invocations": len(e.calls)}
		})
	}

	if x.errClass != "" {
		switch {
		case res.Panicked():
			return fail("the render panicked")
		case len(e.calls) != 0:
			return fail("the function was invoked")
		case res.Err == nil:
			return fail("the render succeeded")
		case !strings.Contains(res.Err.Error(), fname):
			return fail("the error does not name the call")
		}
		return nil
	}

	// must be invoked exactly once with exactly these values
	if res.Panicked() {
		return fail("the render panicked")
	}
	if len(e.calls) != 1 {
		return fail("the function was not invoked")
	}
	var wantEvals []int
	for i := range c.Args {
		if c.wrapped(i) {
			wantEvals = append(wantEvals, i)
		}
	}
	if !reflect.DeepEqual(append([]int{}, e.evals...), append([]int{}, wantEvals...)) {
		return fail("argument evaluations %v, want each wrapped argument exactly once: %v", e.evals, wantEvals)
	}
	for _, i := range wantEvals {
		v := e.argValue(c.Args[i], i)
		seen := e.seen[i][0]
		if v == nil {
			if seen != nil {
				return fail("identity helper w%d received %#v for nil", i, seen)
			}
		} else if m := sameValue(v, seen, tAny, strings.HasPrefix(c.Args[i], "cv")); m != "" {
			return fail("identity helper w%d: %s", i, m)
		}
	}
	inv := e.calls[0]
	types, _ := c.Sig.params()
	if len(inv.fixed) != len(x.fixed) {
		panic("harness: fixed parameter count mismatch")
	}
	for i, w := range x.fixed {
		if m := x.compareSlot(c, w, inv.fixed[i], types[i], fmt.Sprintf("parameter %d", i)); m != "" {
			return fail("%s", m)
		}
	}
	if len(inv.variadic) != len(x.variadic) {
		return fail("the variadic parameter received %d values, %d were supplied", len(inv.variadic), len(x.variadic))
	}
	for j, w := range x.variadic {
		if m := x.compareSlot(c, w, inv.variadic[j], varElemTypes[c.Sig.Var], fmt.Sprintf("variadic element %d", j)); m != "" {
			return fail("%s", m)
		}
	}
	// results
	if strings.Contains(c.Sig.Res, "err") {
		if res.Err == nil {
			return fail("the function returned a non-nil error, the render must fail")
		}
		if !errors.Is(res.Err, e.sentinel) {
			return fail("the render error does not wrap the function's error")
		}
		return nil
	}
	if res.Err != nil {
		return fail("unexpected render error")
	}
	if strings.Contains(c.Sig.Res, "T") {
		if wantOut := "[" + c.Sig.resultText() + "]"; res.Out != wantOut {
			return fail("output must be %q (the first result)", wantOut)
		}
	} else if !strings.HasPrefix(res.Out, "[") || !strings.HasSuffix(res.Out, "]") {
		return fail("output lost the surrounding text")
	}
	return nil
}

// ---- generators -----------------------------------------------------------------------

// fitting[typeKey] lists the argument kinds acceptable for a parameter type (by the reference rule).
func fittingKinds(pt reflect.Type) []string {
	e := newEnv(Case{Sig: Sig{Res: "()"}})
	var out []string
	for _, k := range argKinds {
		if fits(e.argValue(k, 0), pt) {
			out = append(out, k)
		}
	}
	return out
}

// canonical well-typed spellings per parameter type name, for the arity matrix
var canon = map[string][]string{
	"string": {"str", "cvStr", "nil"}, "int": {"int", "cvInt", "nil"}, "float64": {"float", "cvFloat", "nil"},
	"bool": {"true", "false", "cvBool"}, "any": {"hash", "array", "cvI8", "nil", "str", "cvNilPtr"}, "ptr": {"cvPtr", "cvNilPtr", "nil"},
	"ints": {"cvInts", "nil"}, "map": {"hash", "cvHMap", "nil"}, "hmap": {"hash", "cvHMap", "nil"}, "struct": {"nil"}, "iface": {"nil"},
}

// paramNameAt names the parameter type an argument at position i meets ("" beyond the last parameter).
func (s Sig) paramNameAt(i int) string {
	names := append([]string{}, s.Fixed...)
	if s.Map != "" {
		names = append(names, s.Map)
	}
	if s.HC != "" {
		names = append(names, s.HC)
	}
	if i < len(names) {
		return names[i]
	}
	if s.Var != "" {
		return s.Var
	}
	return ""
}

func allWrapped(n int) uint { return (1 << uint(n)) - 1 }

type tail struct{ m, h, v string }

var tails = []tail{{}, {m: "map"}, {m: "hmap"}, {h: "struct"}, {h: "iface"}, {m: "map", h: "struct"}, {m: "hmap", h: "iface"},
	{m: "map", h: "iface"}, {m: "hmap", h: "struct"}, {v: "int"}, {v: "string"}, {v: "any"}}

type resT struct{ res, rt string }

var allRes = []resT{{"()", ""}, {"(T)", "string"}, {"(T)", "int"}, {"(T)", "any"}, {"(T,nil)", "string"}, {"(T,nil)", "int"}, {"(T,nil)", "any"},
	{"(T,err)", "string"}, {"(T,err)", "int"}, {"(T,err)", "any"}, {"(nil)", ""}, {"(err)", ""}}

// E1: one parameter slot x every argument kind
func slotMatrix() []Case {
	var out []Case
	anyN := func(n int) []string {
		var s []string
		for i := 0; i < n; i++ {
			s = append(s, "any")
		}
		return s
	}
	ints := func(n int) []string {
		var s []string
		for i := 0; i < n; i++ {
			s = append(s, "int")
		}
		return s
	}
	emit := func(s Sig, pre []string) {
		for _, k := range argKinds {
			args := append(append([]string{}, pre...), k)
			for _, blk := range []bool{false, true} {
				for _, w := range []uint{0, allWrapped(len(args))} {
					out = append(out, Case{Sig: s, Args: args, Wrap: w, Block: blk})
				}
			}
		}
	}
	for p := 0; p < 3; p++ {
		for _, f := range fixedNames {
			emit(Sig{Fixed: append(anyN(p), f), Res: "(T)", RT: "string"}, ints(p))
		}
		for _, m := range []string{"map", "hmap"} {
			emit(Sig{Fixed: anyN(p), Map: m, Res: "(T)", RT: "string"}, ints(p))
		}
		for _, h := range []string{"struct", "iface"} {
			emit(Sig{Fixed: anyN(p), HC: h, Res: "(T)", RT: "string"}, ints(p))
		}
	}
	for _, v := range []string{"int", "string", "any"} {
		for p := 0; p < 2; p++ {
			for j := 0; j < 3; j++ {
				pre := ints(p)
				for t := 0; t < j; t++ {
					pre = append(pre, canon[v][t%2])
				}
				emit(Sig{Fixed: anyN(p), Var: v, Res: "(T)", RT: "string"}, pre)
			}
		}
	}
	return out
}

// E2: arity matrix with well-typed arguments
func arityMatrix(rots int) []Case {
	var out []Case
	for rot := 0; rot < rots; rot++ {
		for k := 0; k <= 3; k++ {
			var fixed []string
			for j := 0; j < k; j++ {
				fixed = append(fixed, fixedNames[(rot+2*j)%len(fixedNames)])
			}
			for _, tl := range tails {
				for _, rs := range allRes {
					s := Sig{Fixed: fixed, Map: tl.m, HC: tl.h, Var: tl.v, Res: rs.res, RT: rs.rt}
					types, _ := s.params()
					maxN := len(types) + 1
					if tl.v != "" {
						maxN = k + 3
					}
					if maxN > maxArgs {
						maxN = maxArgs
					}
					for n := 0; n <= maxN; n++ {
						var args []string
						for i := 0; i < n; i++ {
							name := s.paramNameAt(i)
							if name == "" {
								args = append(args, "int")
								continue
							}
							cs := canon[name]
							args = append(args, cs[(i+rot)%len(cs)])
						}
						for _, blk := range []bool{false, true} {
							for _, w := range []uint{0, allWrapped(n)} {
								if n == 0 && w != 0 {
									continue
								}
								out = append(out, Case{Sig: s, Args: args, Wrap: w, Block: blk})
							}
						}
					}
				}
			}
		}
	}
	return out
}

// E3: full product of small signatures and small calls
type product struct {
	sigs  []Sig
	kinds []string
	maxN  int
	calls int64 // number of argument lists of length 0..maxN
}

func newProduct(maxFixed, maxN int) *product {
	p := &product{kinds: argKinds, maxN: maxN}
	var lists [][]string
	lists = append(lists, nil)
	prev := [][]string{nil}
	for k := 1; k <= maxFixed; k++ {
		var next [][]string
		for _, l := range prev {
			for _, f := range fixedNames {
				next = append(next, append(append([]string{}, l...), f))
			}
		}
		lists = append(lists, next...)
		prev = next
	}
	for _, l := range lists {
		for _, tl := range tails {
			p.sigs = append(p.sigs, Sig{Fixed: l, Map: tl.m, HC: tl.h, Var: tl.v, Res: "(T)", RT: "string"})
		}
	}
	pow := int64(1)
	for n := 0; n <= maxN; n++ {
		p.calls += pow
		pow *= int64(len(p.kinds))
	}
	return p
}

func (p *product) size() int64 { return int64(len(p.sigs)) * p.calls * 2 }

func (p *product) at(i int64) Case {
	blk := i%2 == 1
	i /= 2
	ci := i % p.calls
	si := i / p.calls
	n := 0
	pow := int64(1)
	for ci >= pow {
		ci -= pow
		pow *= int64(len(p.kinds))
		n++
	}
	args := make([]string, n)
	for j := 0; j < n; j++ {
		args[j] = p.kinds[ci%int64(len(p.kinds))]
		ci /= int64(len(p.kinds))
	}
	w := allWrapped(n)
	if (i+si)%3 == 0 {
		w = 0
	}
	return Case{Sig: p.sigs[si], Args: args, Wrap: w, Block: blk}
}

func genCase(t *rapid.T, fit map[string][]string) Case {
	var s Sig
	k := rapid.IntRange(0, 3).Draw(t, "k")
	for i := 0; i < k; i++ {
		s.Fixed = append(s.Fixed, rapid.SampledFrom(fixedNames).Draw(t, "fixed"))
	}
	tl := rapid.SampledFrom(tails).Draw(t, "tail")
	s.Map, s.HC, s.Var = tl.m, tl.h, tl.v
	rs := rapid.SampledFrom(allRes).Draw(t, "res")
	s.Res, s.RT = rs.res, rs.rt
	types, _ := s.params()
	lo, hi := k, len(types)
	if s.Var != "" {
		hi = k + 3
	}
	if rapid.IntRange(0, 5).Draw(t, "arity-class") == 0 { // sometimes too few / too many
		lo, hi = 0, hi+1
	}
	if hi > maxArgs {
		hi = maxArgs
	}
	n := rapid.IntRange(lo, hi).Draw(t, "n")
	c := Case{Sig: s, Block: rapid.Bool().Draw(t, "block")}
	for i := 0; i < n; i++ {
		name := s.paramNameAt(i)
		if name != "" && rapid.IntRange(0, 3).Draw(t, "fitting") != 0 {
			c.Args = append(c.Args, rapid.SampledFrom(fit[name]).Draw(t, "arg"))
		} else {
			c.Args = append(c.Args, rapid.SampledFrom(argKinds).Draw(t, "arg"))
		}
	}
	c.Wrap = uint(rapid.IntRange(0, int(allWrapped(n))).Draw(t, "wrap"))
	return c
}

// ---- the test ---------------------------------------------------------------------------

const rule = "Signatures: 0-3 fixed parameters from {string,int,float64,bool,interface{},*T,[]int}, then optionally a trailing options map (map[string]interface{} | hctx.Map) and/or a helper context (plush.HelperContext struct | hctx.HelperContext interface), or a variadic tail (...int|...string|...interface{}); results (), (T), (T,error) and (error) with nil and non-nil error, T in {string,int,interface{}}. The function is built with reflect.MakeFunc and records every invocation (received values, HasBlock(), Block()). Calls: 0-6 arguments from {string, int, float, true, false, nil, hash literal, array literal, context variables: string, int, float64, bool, *T, typed nil *T, []int, int8, named string, hctx.Map}, literal values depend on the position; each argument optionally wrapped in an order-recording identity helper; with and without a block. (E1) every parameter slot type (fixed at positions 0-2, options map, helper context, variadic element 0-2) x every argument kind x block x wrapped/unwrapped; (E2) arity matrix: 0-3 fixed x 12 tails x 12 result shapes x 0..N+1 well-typed arguments x block x wrapped/unwrapped, parameter types rotated; (E3) full product of all signatures with <= K fixed parameters x 12 tails with all calls of <= n arguments of 18 kinds x block; (R) random signature x call, arguments biased to fit. Oracle = reference binder from the statement: invoked exactly once with exactly the supplied values in order (nil => zero value, omitted trailing map => empty map, omitted helper context => HasBlock()==block given and Block() renders the block, variadic gets the rest), or not invoked and an error containing the function name (too many arguments / not assignable); first result emitted; non-nil error => errors.Is. Arguments evaluated at most once, left to right, on every path; exactly once on success. Unspecified (not asserted beyond evaluation order): fewer arguments than fixed parameters. Non-trivial = specified and (at least one argument or an auto-supplied parameter). Distinct by signature + template."

func setup(t *testing.T) *vk.Run {
	r := vk.Start(t, "C12", rule,
		"the values of literals are those of the language (string, int, float64, bool, nil, map[string]interface{}, []interface{}); for wrapped arguments this is additionally confirmed by what the identity helper received",
		"assignable means reflect's AssignableTo on the dynamic type of the argument value",
		"the order-recording identity helpers are themselves Go helpers func(interface{}) interface{} called through the mechanism under test; every space is therefore also run with unwrapped arguments")
	r.Replayer("call", func(raw json.RawMessage) *vk.Fail {
		var c Case
		if f := vk.Decode(raw, &c); f != nil {
			return f
		}
		return checkCase(r, c)
	})
	return r
}

func TestReplay(t *testing.T) { setup(t).ReplayEnv() }

// regressions: witnesses of fixed findings (AF-20: nil in variadic position) and hand-picked corner calls
var regressions = []Case{
	{Sig: Sig{Var: "any", Res: "(T)", RT: "string"}, Args: []string{"nil"}},
	{Sig: Sig{Var: "string", Res: "(T)", RT: "string"}, Args: []string{"str", "nil"}},
	{Sig: Sig{Fixed: []string{"int"}, Var: "int", Res: "(T)", RT: "string"}, Args: []string{"int", "nil", "int"}, Wrap: 7},
	{Sig: Sig{Fixed: []string{"any"}, Map: "hmap", HC: "iface", Res: "(T,nil)", RT: "string"}, Args: []string{"array"}, Wrap: 1, Block: true},
	{Sig: Sig{Fixed: []string{"string"}, Map: "map", HC: "struct", Res: "(T,err)", RT: "int"}, Args: []string{"str"}, Block: true},
	{Sig: Sig{Map: "map", HC: "iface", Res: "(T)", RT: "any"}, Args: []string{"nil", "nil"}},
}

func TestProp(t *testing.T) {
	r := setup(t)
	defer r.Finish()
	r.ReplayCommitted()

	for _, c := range regressions {
		r.Check(checkCase(r, c))
	}

	run := func(name string, cases []Case) {
		r.Subspace(name, int64(len(cases)), true)
		r.Parallel(int64(len(cases)), 0, func(i int64) { r.Check(checkCase(r, cases[i])) })
	}
	run("E1 slot matrix: 51 parameter slots (7 fixed types x positions 0-2, 2 map types x 3, 2 helper-context types x 3, 3 variadic element types x 0-1 fixed x tail index 0-2) x 18 argument kinds x block x wrapped/unwrapped", slotMatrix())
	rots := r.Pick(2, 7)
	run(fmt.Sprintf("E2 arity matrix: 0-3 fixed parameters (%d type rotations) x 12 tails x 12 result shapes x 0..N+1 well-typed arguments x block x wrapped/unwrapped", rots), arityMatrix(rots))

	p := newProduct(2, r.Pick(2, 3))
	r.Subspace(fmt.Sprintf("E3 product: %d signatures (<= %d fixed parameters x 12 tails) x %d calls (<= %d arguments of 18 kinds) x block; wrapped except every third", len(p.sigs), 2, p.calls, p.maxN), p.size(), true)
	r.Parallel(p.size(), 0, func(i int64) { r.Check(checkCase(r, p.at(i))) })

	fit := map[string][]string{}
	for name, ty := range fixedTypes {
		fit[name] = fittingKinds(ty)
	}
	for name, ty := range mapTypes {
		fit[name] = fittingKinds(ty)
	}
	for name, ty := range hcTypes {
		fit[name] = fittingKinds(ty)
	}
	r.Rapid("random", r.Pick(6000, 60000), func(t *rapid.T) *vk.Fail { return checkCase(r, genCase(t, fit)) })
}
