// C12 — Go helpers receive exactly the supplied arguments, in order, or are not called.
//
// A helper of a generated signature is built with reflect.FuncOf/MakeFunc so that every invocation is recorded.
// The reference binder below is written from the property statement: it says, for a signature and a call, whether
// the function must be invoked (and with which values), must not be invoked (error naming the call), or whether the
// statement is silent (too few arguments for the fixed parameters).
package c12

import (
	"encoding/json"
	"errors"
	"fmt"
	"html/template"
	"reflect"
	"strings"
	"sync/atomic"
	"testing"

	"verif/internal/vk"

	plush "github.com/gobuffalo/plush/v5"
	"github.com/gobuffalo/plush/v5/helpers/hctx"
	"pgregory.net/rapid"
)

func TestMain(m *testing.M) { vk.Main(m) }

// fname is the name under which the recorded function is called. It is not a substring of any other name or
// literal used in the generated templates, so "the error names the call" can be tested by containment.
const fname = "tgtFn"

const maxArgs = 6

// T is the pointee of the *T parameter type.
type T struct{ N int }

type myStr string

type sentinelErr struct{ id int }

func (s *sentinelErr) Error() string { return "c12-sentinel-error" }

// Unwrap: the errors the recording functions return wrap an unknown-identifier error, as the error of a helper that
// rendered a snippet does. A function's error fails the render whatever it wraps and wherever the call stands.
func (s *sentinelErr) Unwrap() error { return &plush.ErrUnknownIdentifier{ID: "c12wrapped"} }

var (
	tAny      = reflect.TypeOf((*interface{})(nil)).Elem()
	tErr      = reflect.TypeOf((*error)(nil)).Elem()
	tHCStruct = reflect.TypeOf(plush.HelperContext{})
	tHCIface  = reflect.TypeOf((*hctx.HelperContext)(nil)).Elem()
)

// strT is a fmt.Stringer (pointer receiver).
type strT struct{ s string }

func (x *strT) String() string { return x.s }

// fixedNames is the core pool (full products); extFixedNames widens the slot matrix, the arity matrix and the random phases.
var fixedNames = []string{"string", "int", "float64", "bool", "any", "ptr", "ints"}
var extFixedNames = []string{"stringer", "err", "i64", "mystr", "anys", "tval", "fn"}
var allFixedNames = append(append([]string{}, fixedNames...), extFixedNames...)

var fixedTypes = map[string]reflect.Type{
	"string": reflect.TypeOf(""), "int": reflect.TypeOf(0), "float64": reflect.TypeOf(0.0), "bool": reflect.TypeOf(false),
	"any": tAny, "ptr": reflect.TypeOf((*T)(nil)), "ints": reflect.TypeOf([]int(nil)),
	"stringer": reflect.TypeOf((*fmt.Stringer)(nil)).Elem(), "err": tErr, "i64": reflect.TypeOf(int64(0)), "mystr": reflect.TypeOf(myStr("")),
	"anys": reflect.TypeOf([]interface{}(nil)), "tval": reflect.TypeOf(T{}), "fn": reflect.TypeOf((func(int) int)(nil)),
}

var mapTypes = map[string]reflect.Type{"map": reflect.TypeOf(map[string]interface{}(nil)), "hmap": reflect.TypeOf(hctx.Map(nil))}
var hcTypes = map[string]reflect.Type{"struct": tHCStruct, "iface": tHCIface}
var varElemTypes = map[string]reflect.Type{"int": fixedTypes["int"], "string": fixedTypes["string"], "any": tAny, "stringer": fixedTypes["stringer"]}

var resShapes = []string{"()", "(T)", "(T,nil)", "(T,err)", "(nil)", "(err)"}

// result type T; "anyerr" is interface{} like "any", but the value returned is an error value: the shape is (T), there
// is no error result, the value is the call's value
// "zint" / "zstr" / "nilany": int, string and interface{} results whose VALUE is the zero value (0, "", nil): still
// the call's value
var resTypes = []string{"string", "int", "any", "anyerr", "zint", "zstr", "nilany"}

var resGoTypes = map[string]reflect.Type{"string": reflect.TypeOf(""), "int": reflect.TypeOf(0), "any": tAny, "anyerr": tAny,
	"zint": reflect.TypeOf(0), "zstr": reflect.TypeOf(""), "nilany": tAny}

// knownOpen: shapes the generators steer away from (counted under excluded) while listed as true.
//
//	any-result-holding-error: a result DECLARED interface{} whose VALUE is an error. plush looks at the dynamic value
//	of the last result (res[len(res)-1].Interface().(error)) and fails the render; reading "a non-nil trailing error
//	result" as "a result of type error" the value would be the call's value instead. The statement does not settle
//	which reading is meant, so the shape is NOT ASSERTED (triage: DESIGN.md 5.1, statement ambiguous). It stays in
//	the generator behind this switch so that either reading can be checked by flipping it.
var knownOpen = map[string]bool{"any-result-holding-error": true}

// Sig describes one helper signature of the family.
type Sig struct {
	Fixed []string `json:"fixed"`         // names from fixedNames
	Map   string   `json:"map,omitempty"` // "", "map" (map[string]interface{}), "hmap" (hctx.Map)
	HC    string   `json:"hc,omitempty"`  // "", "struct" (plush.HelperContext), "iface" (hctx.HelperContext)
	Var   string   `json:"var,omitempty"` // "", "int", "string", "any": element type of the variadic tail
	Res   string   `json:"res"`           // one of resShapes
	RT    string   `json:"rt,omitempty"`  // result type T: string | int | any
}

func (s Sig) validate() string {
	if len(s.Fixed) > 4 {
		return "too many fixed parameters"
	}
	for _, f := range s.Fixed {
		if fixedTypes[f] == nil {
			return "unknown fixed type " + f
		}
	}
	if s.Map != "" && mapTypes[s.Map] == nil {
		return "unknown map type"
	}
	if s.HC != "" && hcTypes[s.HC] == nil {
		return "unknown helper context type"
	}
	if s.Var != "" && (varElemTypes[s.Var] == nil || s.Map != "" || s.HC != "") {
		return "bad variadic tail"
	}
	ok := false
	for _, x := range resShapes {
		ok = ok || x == s.Res
	}
	if !ok {
		return "unknown result shape"
	}
	if strings.Contains(s.Res, "T") && resGoTypes[s.RT] == nil {
		return "unknown result type"
	}
	return ""
}

// params returns the non-variadic parameter types and their roles ("fixed", "map", "hc").
func (s Sig) params() (types []reflect.Type, roles []string) {
	for _, f := range s.Fixed {
		types = append(types, fixedTypes[f])
		roles = append(roles, "fixed")
	}
	if s.Map != "" {
		types = append(types, mapTypes[s.Map])
		roles = append(roles, "map")
	}
	if s.HC != "" {
		types = append(types, hcTypes[s.HC])
		roles = append(roles, "hc")
	}
	return
}

func (s Sig) funcType() reflect.Type {
	in, _ := s.params()
	if s.Var != "" {
		in = append(in, reflect.SliceOf(varElemTypes[s.Var]))
	}
	var out []reflect.Type
	if strings.Contains(s.Res, "T") {
		out = append(out, resGoTypes[s.RT])
	}
	if strings.Contains(s.Res, "nil") || strings.Contains(s.Res, "err") {
		out = append(out, tErr)
	}
	return reflect.FuncOf(in, out, s.Var != "")
}

func (s Sig) anyErr() bool { return strings.Contains(s.Res, "T") && s.RT == "anyerr" }

func (s Sig) String() string {
	ps := append([]string{}, s.Fixed...)
	if s.Map != "" {
		ps = append(ps, "opts:"+s.Map)
	}
	if s.HC != "" {
		ps = append(ps, "hc:"+s.HC)
	}
	if s.Var != "" {
		ps = append(ps, "..."+s.Var)
	}
	return "func(" + strings.Join(ps, ", ") + ") " + strings.Replace(s.Res, "T", s.RT, 1)
}

// ---- arguments ------------------------------------------------------------------

// argKinds are the ways an argument can be spelled in the call. Literal values depend on the position so that
// exchanged arguments are visible.
// coreArgKinds are used by the full products; argKinds (core + extended) by the slot matrix, the route matrix and the
// random phases. The extended kinds add typed nils of map and slice type, values of interface-implementing, struct,
// func and further numeric types, and arguments that are expressions (infix, prefix, index, member, parenthesised).
var coreArgKinds = []string{"str", "int", "float", "true", "false", "nil", "hash", "array",
	"cvStr", "cvInt", "cvFloat", "cvBool", "cvPtr", "cvNilPtr", "cvInts", "cvI8", "cvMyStr", "cvHMap"}
var extArgKinds = []string{"cvNilMap", "cvNilInts", "cvErr", "cvStringer", "cvT", "cvAnys", "cvFn", "cvI64", "cvHTML", "cvUint",
	"sum", "cat", "cmp", "not", "idx", "member", "hidx", "paren"}
var argKinds = append(append([]string{}, coreArgKinds...), extArgKinds...)

var argKindSet = func() map[string]bool {
	m := map[string]bool{}
	for _, k := range argKinds {
		m[k] = true
	}
	return m
}()

func argSource(kind string, pos int) string {
	switch kind {
	case "str":
		return fmt.Sprintf(`"s%d"`, pos)
	case "int":
		return fmt.Sprint(10 + pos)
	case "float":
		return fmt.Sprintf("%d.5", pos)
	case "hash":
		return fmt.Sprintf("{a: %d}", pos)
	case "array":
		return fmt.Sprintf(`[%d, "z"]`, pos)
	case "sum":
		return fmt.Sprintf("%d + 20", pos)
	case "cat":
		return fmt.Sprintf(`"c" + "%d"`, pos)
	case "cmp":
		return fmt.Sprintf("%d == %d", pos, pos)
	case "not":
		return "!false"
	case "idx":
		return "cvInts[1]"
	case "member":
		return "cvPtr.N"
	case "hidx":
		return `cvHMap["k"]`
	case "paren":
		return fmt.Sprintf("(%d)", pos+30)
	}
	return kind // true false nil cvXxx
}

// env is the fresh world of one render: context data, recorders.
type env struct {
	sigs      []Sig // the recording target functions (one for a plain case, 2-3 for a sequence case)
	ptr       *T
	ints      []int
	hmap      hctx.Map
	argErr    error                  // the error value passed as an argument (kind cvErr)
	resErr    error                  // the error VALUE returned as first result by a function of result type anyerr
	str       *strT                  // kind cvStringer
	anys      []interface{}          // kind cvAnys
	fn        func(int) int          // kind cvFn
	decoy     bool                   // a function other than the one called was invoked
	capSeen   []interface{}          // what the use-site recorder zcap received
	sentinel  error                  // == sentinels[0]
	sentinels []error                // one per target
	evals     []int                  // argument positions in the order their wrappers ran
	seen      [maxArgs][]interface{} // what each wrapper received
	calls     []invocation           // invocations of the functions under test
	log       []event                // wrapper evaluations and invocations in the order they happened
	harness   interface{}            // a panic inside the recorder itself
	data      map[string]interface{}
}

// event is one entry of the chronological log: an argument wrapper ran (call < 0) or a target was invoked.
type event struct {
	pos  int         // wrapper: argument position
	v    interface{} // wrapper: value received
	call int         // index into env.calls, -1 for a wrapper event
}

func (ev event) String() string {
	if ev.call < 0 {
		return fmt.Sprintf("w%d", ev.pos)
	}
	return fmt.Sprintf("call#%d", ev.call)
}

type got struct {
	v        interface{}
	zero     bool
	hcSeen   bool
	hasBlock bool
	block    vk.Res
	block2   vk.Res // Block() called a second time
	mapLen   int    // role "map": number of entries AT THE MOMENT OF THE CALL
}

type invocation struct {
	tgt      int // which target function
	fixed    []got
	variadic []got
}

func (e *env) argValue(kind string, pos int) interface{} {
	switch kind {
	case "str":
		return fmt.Sprintf("s%d", pos)
	case "int":
		return 10 + pos
	case "float":
		return float64(pos) + 0.5
	case "true":
		return true
	case "false":
		return false
	case "nil":
		return nil
	case "hash":
		return map[string]interface{}{"a": pos}
	case "array":
		return []interface{}{pos, "z"}
	case "cvStr":
		return "cv"
	case "cvInt":
		return 77
	case "cvFloat":
		return 2.25
	case "cvBool":
		return true
	case "cvPtr":
		return e.ptr
	case "cvNilPtr":
		return (*T)(nil)
	case "cvInts":
		return e.ints
	case "cvI8":
		return int8(8)
	case "cvMyStr":
		return myStr("m")
	case "cvHMap":
		return e.hmap
	case "cvNilMap":
		return map[string]interface{}(nil)
	case "cvNilInts":
		return []int(nil)
	case "cvErr":
		return e.argErr
	case "cvStringer":
		return e.str
	case "cvT":
		return T{N: 9}
	case "cvAnys":
		return e.anys
	case "cvFn":
		return e.fn
	case "cvI64":
		return int64(64)
	case "cvHTML":
		return template.HTML("h")
	case "cvUint":
		return uint(3)
	case "sum":
		return pos + 20
	case "cat":
		return fmt.Sprintf("c%d", pos)
	case "cmp", "not":
		return true
	case "idx":
		return 5
	case "member":
		return 3
	case "hidx":
		return 1
	case "paren":
		return pos + 30
	}
	panic("harness: unknown argument kind " + kind)
}

// newEnv builds the world of a single-call case; the route decides how the template reaches the function.
func newEnv(c Case) *env {
	e := newEnvSigs([]Sig{c.Sig})
	f := e.data[fname]
	decoy := func() string { e.decoy = true; return "decoy" }
	switch c.Route {
	case "ptr":
		pv := reflect.New(reflect.TypeOf(f))
		pv.Elem().Set(reflect.ValueOf(f))
		e.data[fname] = pv.Interface()
	case "index":
		delete(e.data, fname)
		e.data[fname+"Arr"] = []interface{}{decoy, f, decoy}
	case "key":
		delete(e.data, fname)
		e.data[fname+"Map"] = map[string]interface{}{"k": f, "j": decoy}
	case "method":
		delete(e.data, fname)
		e.data[fname+"Rec"] = &methRec{e: e}
	case "methodv":
		delete(e.data, fname)
		e.data[fname+"Val"] = methRec{e: e}
	case "chain":
		delete(e.data, fname)
		e.data[fname+"Rec"] = &methRec{e: e}
	case "elem":
		delete(e.data, fname)
		e.data[fname+"Recs"] = []*methRec{nil, {e: e}}
	}
	return e
}

func newEnvSigs(sigs []Sig) *env {
	e := &env{sigs: sigs, ptr: &T{N: 3}, ints: []int{4, 5}, hmap: hctx.Map{"k": 1},
		argErr: &sentinelErr{id: 99}, resErr: &sentinelErr{id: 98}, str: &strT{s: "S"}, anys: []interface{}{1, "a"}, fn: func(i int) int { return i + 1 }}
	for j := range sigs {
		e.sentinels = append(e.sentinels, &sentinelErr{id: j})
	}
	e.sentinel = e.sentinels[0]
	d := map[string]interface{}{"cvBlk": "7"}
	for _, k := range argKinds {
		if strings.HasPrefix(k, "cv") {
			d[k] = e.argValue(k, 0)
		}
	}
	for i := 0; i < maxArgs; i++ {
		i := i
		d[fmt.Sprintf("w%d", i)] = func(v interface{}) interface{} {
			e.evals = append(e.evals, i)
			e.seen[i] = append(e.seen[i], v)
			e.log = append(e.log, event{pos: i, v: v, call: -1})
			return v
		}
	}
	d["zcap"] = func(v interface{}) interface{} {
		e.capSeen = append(e.capSeen, v)
		return v
	}
	if len(sigs) == 1 {
		d[fname] = e.target(0)
	} else {
		// sequence cases: the one call site resolves to a different function at every execution
		var fns []interface{}
		var idx []int
		for j := range sigs {
			f := e.target(j)
			fns = append(fns, f)
			idx = append(idx, j)
			d[fmt.Sprintf("fn%d", j)] = f
		}
		d["fns"] = fns
		d["idx"] = idx
	}
	e.data = d
	return e
}

func (e *env) observe(v reflect.Value, role string) got {
	g := got{zero: v.IsZero()}
	if v.Kind() == reflect.Interface && v.IsNil() {
		g.v = nil
	} else {
		g.v = v.Interface()
	}
	if role == "map" && v.Kind() == reflect.Map && !v.IsNil() {
		g.mapLen = v.Len()
		if g.mapLen == 0 {
			// like real option-taking helpers (tag and form helpers fill in defaults), the recorder WRITES into
			// an empty options map it was given: that map is its own, no later call may see the entry
			v.SetMapIndex(reflect.ValueOf("c12-default"), reflect.ValueOf(true))
		}
	}
	if role == "hc" && !g.zero {
		h, ok := g.v.(hctx.HelperContext)
		if !ok {
			return g
		}
		g.hcSeen = true
		// calls into the code under test are guarded separately so that a panic there is not taken for a harness defect
		r := vk.Safe(func() (string, error) {
			g.hasBlock = h.HasBlock()
			return "", nil
		})
		if r.Panicked() {
			g.block = r
			return g
		}
		if g.hasBlock {
			g.block = vk.Safe(h.Block)
			// a helper may render its block as often as it likes (each-like helpers do): always the same block
			g.block2 = vk.Safe(h.Block)
		}
	}
	return g
}

// target builds the recording function of the case's signature.
func (e *env) target(tgt int) interface{} {
	return reflect.MakeFunc(e.sigs[tgt].funcType(), e.body(tgt)).Interface()
}

// body is the recording implementation shared by the MakeFunc targets and the hand-written methods.
func (e *env) body(tgt int) func(in []reflect.Value) []reflect.Value {
	s := e.sigs[tgt]
	_, roles := s.params()
	return func(in []reflect.Value) (out []reflect.Value) {
		defer func() {
			if p := recover(); p != nil {
				e.harness = p
				panic(p)
			}
		}()
		inv := invocation{tgt: tgt}
		for i, v := range in {
			if s.Var != "" && i == len(in)-1 {
				for j := 0; j < v.Len(); j++ {
					inv.variadic = append(inv.variadic, e.observe(v.Index(j), "variadic"))
				}
				continue
			}
			inv.fixed = append(inv.fixed, e.observe(v, roles[i]))
		}
		e.calls = append(e.calls, inv)
		e.log = append(e.log, event{call: len(e.calls) - 1})
		if strings.Contains(s.Res, "T") {
			switch s.RT {
			case "string":
				out = append(out, reflect.ValueOf(s.resultTextOf(tgt)))
			case "int":
				out = append(out, reflect.ValueOf(4242+tgt))
			case "anyerr":
				rv := reflect.New(tAny).Elem()
				rv.Set(reflect.ValueOf(e.resErr))
				out = append(out, rv)
			case "zint", "zstr", "nilany":
				out = append(out, reflect.Zero(resGoTypes[s.RT]))
			default:
				rv := reflect.New(tAny).Elem()
				rv.Set(reflect.ValueOf(s.resultTextOf(tgt)))
				out = append(out, rv)
			}
		}
		if strings.Contains(s.Res, "nil") {
			out = append(out, reflect.Zero(tErr))
		} else if strings.Contains(s.Res, "err") {
			ev := reflect.New(tErr).Elem()
			ev.Set(reflect.ValueOf(e.sentinels[tgt]))
			out = append(out, ev)
		}
		return out
	}
}

// ---- methods ---------------------------------------------------------------------------

// methRec carries real Go methods (reflect.MakeFunc cannot make methods) of twelve signatures of the family. Every
// method hands its parameters, by address so that interface-typed parameters keep their static type, to the same
// recording body as the MakeFunc targets. The template reaches them as tgtFnRec.ZqX(...) (a *methRec in the context)
// or tgtFnVal.ZqX(...) (a methRec VALUE in the context: the pointer-receiver methods are found through a copy).
type methRec struct{ e *env }

func (r *methRec) call(ps ...interface{}) []reflect.Value {
	in := make([]reflect.Value, len(ps))
	for i, p := range ps {
		in[i] = reflect.ValueOf(p).Elem()
	}
	return r.e.body(0)(in)
}

func (r *methRec) Self() *methRec { return r }

func outStr(out []reflect.Value) string { return out[0].Interface().(string) }
func outErr(out []reflect.Value) error {
	err, _ := out[len(out)-1].Interface().(error)
	return err
}

func (r *methRec) ZqA() string                                   { return outStr(r.call()) }
func (r *methRec) ZqB(a string) string                           { return outStr(r.call(&a)) }
func (r *methRec) ZqC(a interface{}, b int) string               { return outStr(r.call(&a, &b)) }
func (r *methRec) ZqD(a string, m map[string]interface{}) string { return outStr(r.call(&a, &m)) }
func (r *methRec) ZqE(hc plush.HelperContext) string             { return outStr(r.call(&hc)) }
func (r *methRec) ZqF(hc hctx.HelperContext) (string, error) {
	out := r.call(&hc)
	return outStr(out), outErr(out)
}
func (r *methRec) ZqG(a string, m hctx.Map, hc plush.HelperContext) string {
	return outStr(r.call(&a, &m, &hc))
}
func (r *methRec) ZqH(m map[string]interface{}, hc hctx.HelperContext) string {
	return outStr(r.call(&m, &hc))
}
func (r *methRec) ZqI(xs ...interface{}) string   { return outStr(r.call(&xs)) }
func (r *methRec) ZqJ(a int, xs ...string) string { return outStr(r.call(&a, &xs)) }
func (r *methRec) ZqK(p *T) (string, error) {
	out := r.call(&p)
	return outStr(out), outErr(out)
}
func (r *methRec) ZqL(a interface{}) { r.call(&a) }

type methSig struct {
	name string
	sig  Sig
}

var methSigs = []methSig{
	{"ZqA", Sig{Res: "(T)", RT: "string"}},
	{"ZqB", Sig{Fixed: []string{"string"}, Res: "(T)", RT: "string"}},
	{"ZqC", Sig{Fixed: []string{"any", "int"}, Res: "(T)", RT: "string"}},
	{"ZqD", Sig{Fixed: []string{"string"}, Map: "map", Res: "(T)", RT: "string"}},
	{"ZqE", Sig{HC: "struct", Res: "(T)", RT: "string"}},
	{"ZqF", Sig{HC: "iface", Res: "(T,nil)", RT: "string"}},
	{"ZqG", Sig{Fixed: []string{"string"}, Map: "hmap", HC: "struct", Res: "(T)", RT: "string"}},
	{"ZqH", Sig{Map: "map", HC: "iface", Res: "(T)", RT: "string"}},
	{"ZqI", Sig{Var: "any", Res: "(T)", RT: "string"}},
	{"ZqJ", Sig{Fixed: []string{"int"}, Var: "string", Res: "(T)", RT: "string"}},
	{"ZqK", Sig{Fixed: []string{"ptr"}, Res: "(T,err)", RT: "string"}},
	{"ZqL", Sig{Fixed: []string{"any"}, Res: "()"}},
}

// methodOf names the method with exactly this signature ("" if there is none).
func methodOf(s Sig) string {
	for _, m := range methSigs {
		if m.sig.String() == s.String() {
			return m.name
		}
	}
	return ""
}

func (s Sig) resultText() string { return s.resultTextOf(0) }

// resultTextOf is what target number tgt returns as its first result (distinct per target, so that the output
// shows which function produced which part).
func (s Sig) resultTextOf(tgt int) string {
	if !strings.Contains(s.Res, "T") {
		return ""
	}
	suffix := ""
	if tgt > 0 {
		suffix = fmt.Sprint(tgt)
	}
	switch s.RT {
	case "string":
		return "Rs" + suffix
	case "int":
		return fmt.Sprint(4242 + tgt)
	case "zint":
		return "0"
	case "zstr", "nilany":
		return ""
	}
	return "Ra" + suffix
}

// ---- the case ----------------------------------------------------------------------

type Case struct {
	Sig   Sig      `json:"sig"`
	Args  []string `json:"args"`  // argument kinds
	Wrap  uint     `json:"wrap"`  // bit i set: argument i is wrapped in the order-recording identity helper w<i>
	Block bool     `json:"block"` // the call carries a block
	// Route: how the template reaches the function. "" tgtFn(...) | ptr: tgtFn holds a POINTER to the function |
	// index: tgtFnArr[1](...) | key: tgtFnMap["k"](...) | method: tgtFnRec.ZqX(...) | methodv: tgtFnVal.ZqX(...)
	Route string `json:"route,omitempty"`
	// Use: what is done with the call's value. "" emitted | silent: <% CALL %> | let: let zv = CALL, zv emitted by a
	// later tag | cap: zcap(CALL), a helper recording the typed value it receives
	Use string `json:"use,omitempty"`
}

// chain and elem: the method is the last call of a chain / hangs off an indexed element (tgtFnRec.Self().ZqX(..), tgtFnRecs[1].ZqX(..))
var routes = []string{"", "ptr", "index", "key", "method", "methodv", "chain", "elem"}

// the last three stand where an unknown identifier would be forgiven: a function's error is not
// for: the call is the iterable of a loop - the braces after it are the loop's body, not the call's block
var uses = []string{"", "silent", "let", "cap", "if", "not", "or", "for"}

const blockSrc = `B<%= cvBlk %>E`
const blockText = "B7E"

func (c Case) validate() string {
	if m := c.Sig.validate(); m != "" {
		return m
	}
	if len(c.Args) > maxArgs {
		return "too many arguments"
	}
	for _, a := range c.Args {
		if !argKindSet[a] {
			return "unknown argument kind " + a
		}
	}
	switch c.Route {
	case "", "ptr", "index", "key":
	case "method", "methodv", "chain", "elem":
		if methodOf(c.Sig) == "" {
			return "no method of this signature"
		}
	default:
		return "unknown route"
	}
	switch c.Use {
	case "", "silent", "cap":
	case "if", "not", "or":
		if c.Block {
			return "a call with a block is not written inside a condition"
		}
	case "for":
		if c.Block {
			return "the braces after the iterable are the loop's"
		}
	case "let":
		if !strings.Contains(c.Sig.Res, "T") || c.Sig.RT == "nilany" {
			return "use let needs a first result that is not nil"
		}
	default:
		return "unknown use"
	}
	return ""
}

// callee is the spelling of the function in the call; callName is what an error about the call must contain.
func (c Case) callee() string {
	switch c.Route {
	case "index":
		return fname + "Arr[1]"
	case "key":
		return fname + `Map["k"]`
	case "method":
		return fname + "Rec." + methodOf(c.Sig)
	case "methodv":
		return fname + "Val." + methodOf(c.Sig)
	case "chain":
		return fname + "Rec.Self().Self()." + methodOf(c.Sig)
	case "elem":
		return fname + "Recs[1]." + methodOf(c.Sig)
	}
	return fname
}

func (c Case) callName() string {
	if c.Route == "method" || c.Route == "methodv" || c.Route == "chain" || c.Route == "elem" {
		return methodOf(c.Sig)
	}
	return fname
}

// wrapped: the identity helpers are func(interface{}) interface{}; an error VALUE passing through one is the shape of
// the class any-result-holding-error, so such an argument stays unwrapped while that class is open.
func (c Case) wrapped(i int) bool {
	if knownOpen["any-result-holding-error"] && i < len(c.Args) && c.Args[i] == "cvErr" {
		return false
	}
	return c.Wrap&(1<<uint(i)) != 0
}

func (c Case) Template() string {
	var parts []string
	for i, a := range c.Args {
		s := argSource(a, i)
		if c.wrapped(i) {
			s = fmt.Sprintf("w%d(%s)", i, s)
		}
		parts = append(parts, s)
	}
	call := c.callee() + "(" + strings.Join(parts, ", ") + ")"
	if c.Block {
		call += " { %>" + blockSrc + "<% }"
	}
	switch c.Use {
	case "silent":
		return "[<% " + call + " %>]"
	case "let":
		return "[<% let zv = " + call + " %>][<%= zv %>]"
	case "cap":
		return "[<%= zcap(" + call + ") %>]"
	case "if":
		return "[<%= if (" + call + ") { %>yes<% } else { %>no<% } %>]"
	case "not":
		return "[<%= !" + call + " %>]"
	case "or":
		return "[<%= " + call + " || false %>]"
	case "for":
		return "[<%= for (zi) in " + call + " { %>zb<% } %>]"
	}
	return "[<%= " + call + " %>]"
}

func (c Case) Key() string {
	k := c.Sig.String() + " | " + c.Template()
	if c.Route == "ptr" {
		k += " | through a pointer"
	}
	return k
}

// ---- reference binder (from the property statement) ---------------------------------

type slotWant struct {
	mode     string // value | zero | automap | autohc
	val      interface{}
	identity bool // the received value must be the very object held by the context
	pos      int
	blk      bool   // autohc: the call carries a block
	blkText  string // autohc: what that block renders
}

type expectation struct {
	unspecified string // statement silent: reason
	errClass    string // "" | too-many | not-assignable: error naming the call, function not invoked
	fixed       []slotWant
	variadic    []slotWant
	autoMap     bool
	autoHC      bool
	nilZero     string // "", "fixed", "variadic": a nil argument became a zero value
}

// fits: nil becomes the zero value of any parameter type; otherwise the value must be assignable.
func fits(v interface{}, pt reflect.Type) bool {
	return v == nil || reflect.TypeOf(v).AssignableTo(pt)
}

func bind(c Case, e *env) expectation {
	vals := make([]interface{}, len(c.Args))
	ident := make([]bool, len(c.Args))
	for i, a := range c.Args {
		vals[i] = e.argValue(a, i)
		ident[i] = strings.HasPrefix(a, "cv")
	}
	return bindVals(c.Sig, vals, ident, c.Block, blockText)
}

// bindVals is the reference binder: signature x supplied values (x block given, and what the block renders).
func bindVals(sig Sig, vals []interface{}, ident []bool, block bool, blkText string) expectation {
	var x expectation
	types, roles := sig.params()
	k, n := len(sig.Fixed), len(vals)
	want := func(i int) slotWant {
		if vals[i] == nil {
			return slotWant{mode: "zero", pos: i}
		}
		return slotWant{mode: "value", val: vals[i], identity: ident[i], pos: i}
	}
	if sig.Var == "" {
		N := len(types)
		if n > N {
			x.errClass = "too-many"
			return x
		}
		for i := 0; i < n; i++ {
			if !fits(vals[i], types[i]) {
				x.errClass = "not-assignable"
				return x
			}
		}
		if n < k {
			x.unspecified = "too-few-for-fixed"
			return x
		}
		for i := 0; i < N; i++ {
			switch {
			case i < n:
				w := want(i)
				if w.mode == "zero" {
					x.nilZero = "fixed"
				}
				x.fixed = append(x.fixed, w)
			case roles[i] == "map":
				x.autoMap = true
				x.fixed = append(x.fixed, slotWant{mode: "automap", pos: i})
			case roles[i] == "hc":
				x.autoHC = true
				x.fixed = append(x.fixed, slotWant{mode: "autohc", pos: i, blk: block, blkText: blkText})
			default:
				panic("harness: omitted fixed parameter reached the binder")
			}
		}
		return x
	}
	// variadic
	et := varElemTypes[sig.Var]
	for i := 0; i < n; i++ {
		pt := et
		if i < k {
			pt = types[i]
		}
		if !fits(vals[i], pt) {
			x.errClass = "not-assignable"
			return x
		}
	}
	if n < k {
		x.unspecified = "too-few-for-fixed"
		return x
	}
	for i := 0; i < n; i++ {
		w := want(i)
		if i < k {
			if w.mode == "zero" {
				x.nilZero = "fixed"
			}
			x.fixed = append(x.fixed, w)
		} else {
			if w.mode == "zero" {
				x.nilZero = "variadic"
			}
			x.variadic = append(x.variadic, w)
		}
	}
	return x
}

func (x expectation) class(c Case) string {
	switch {
	case x.unspecified != "":
		return "unspecified/" + x.unspecified
	case x.errClass != "":
		return "error/" + x.errClass
	}
	s := "invoke"
	switch {
	case x.autoMap && x.autoHC:
		s += "/auto-map+hc"
	case x.autoMap:
		s += "/auto-map"
	case x.autoHC:
		s += "/auto-hc"
	case c.Sig.Var != "":
		s += fmt.Sprintf("/variadic-%d", len(x.variadic))
	default:
		s += "/plain"
	}
	if c.Sig.HC != "" {
		s += "/hc-" + c.Sig.HC
	}
	if c.Block {
		s += "/block"
	}
	if strings.Contains(c.Sig.Res, "err") {
		s += "/error-result"
	}
	return s
}

func (x expectation) describe(c Case) string {
	switch {
	case x.unspecified != "":
		return "unspecified: " + x.unspecified
	case x.errClass != "":
		return "error naming " + fname + " (" + x.errClass + "), function not invoked"
	}
	var ps []string
	for _, w := range append(append([]slotWant{}, x.fixed...), x.variadic...) {
		switch w.mode {
		case "value":
			ps = append(ps, fmt.Sprintf("%#v", w.val))
		default:
			ps = append(ps, w.mode)
		}
	}
	return "invoked once with (" + strings.Join(ps, ", ") + ")"
}

// sameValue compares a received value with the supplied one. pt is the parameter's static type.
func sameValue(want, gotv interface{}, pt reflect.Type, identity bool) string {
	if gotv == nil {
		return fmt.Sprintf("received nil, supplied %#v", want)
	}
	wv, gv := reflect.ValueOf(want), reflect.ValueOf(gotv)
	if wv.Type() != gv.Type() {
		if pt.Kind() == reflect.Interface || !wv.Type().AssignableTo(gv.Type()) {
			return fmt.Sprintf("received %#v (%T), supplied %#v (%T)", gotv, gotv, want, want)
		}
		wv = wv.Convert(gv.Type())
	}
	if wv.Kind() == reflect.Func {
		// funcs are not comparable: the code pointer must be the same (the type already is)
		if wv.Pointer() != gv.Pointer() {
			return fmt.Sprintf("received another function than the one supplied (%T)", want)
		}
		return ""
	}
	if !reflect.DeepEqual(wv.Interface(), gv.Interface()) {
		return fmt.Sprintf("received %#v, supplied %#v", gotv, want)
	}
	if identity {
		switch wv.Kind() {
		case reflect.Ptr, reflect.Map, reflect.Slice:
			if wv.Pointer() != gv.Pointer() {
				return fmt.Sprintf("received a different object than the one supplied (%#v)", want)
			}
		}
	}
	return ""
}

func (x expectation) compareSlot(c Case, w slotWant, g got, pt reflect.Type, where string) string {
	switch w.mode {
	case "value":
		if m := sameValue(w.val, g.v, pt, w.identity); m != "" {
			return where + ": " + m
		}
	case "zero":
		if !g.zero {
			return fmt.Sprintf("%s: nil was supplied, expected the zero value of %s, received %#v (%T)", where, pt, g.v, g.v)
		}
		if g.v != nil && reflect.TypeOf(g.v) != pt {
			return fmt.Sprintf("%s: nil was supplied, expected the zero value of %s, received %#v (%T)", where, pt, g.v, g.v)
		}
	case "automap":
		rv := reflect.ValueOf(g.v)
		if g.v == nil || rv.Kind() != reflect.Map || rv.IsNil() || g.mapLen != 0 {
			return fmt.Sprintf("%s: omitted options map must be supplied as an empty map, received %#v", where, g.v)
		}
	case "autohc":
		if !g.hcSeen {
			return fmt.Sprintf("%s: omitted helper context must be supplied, received %#v (zero=%v)", where, g.v, g.zero)
		}
		if g.block.Panicked() {
			return fmt.Sprintf("%s: using the supplied helper context panicked: %s", where, g.block)
		}
		if g.hasBlock != w.blk {
			return fmt.Sprintf("%s: helper context HasBlock() = %v, block given = %v", where, g.hasBlock, w.blk)
		}
		if w.blk && (g.block.Err != nil || g.block.Out != w.blkText) {
			return fmt.Sprintf("%s: helper context Block() = %s, want %q", where, g.block, w.blkText)
		}
		if w.blk && (g.block2.Err != nil || g.block2.Out != w.blkText) {
			return fmt.Sprintf("%s: helper context Block() called a second time = %s, want %q", where, g.block2, w.blkText)
		}
	}
	return ""
}

// ---- the oracle ----------------------------------------------------------------------

func checkCase(r *vk.Run, c Case) *vk.Fail {
	if m := c.validate(); m != "" {
		return &vk.Fail{Kind: "decode", Msg: m}
	}
	if c.Sig.anyErr() {
		if knownOpen["any-result-holding-error"] {
			r.Exclude("any-result-holding-error")
			return nil
		}
		r.Class("any-result-holding-error")
	}
	defer r.Watch("call", c)()
	e := newEnv(c)
	src := c.Template()
	res := vk.Safe(func() (string, error) { return plush.Render(src, plush.NewContextWith(e.data)) })
	if e.harness != nil {
		panic(fmt.Sprintf("harness defect: the recorder panicked: %v (case %s)", e.harness, c.Key()))
	}
	x := bind(c, e)
	cls := x.class(c)
	fail := func(f string, a ...interface{}) *vk.Fail {
		return &vk.Fail{Kind: "call", Class: cls, Case: c,
			Msg: fmt.Sprintf("%s called as %s: expected %s; %s; render gave %s", c.Sig, src, x.describe(c), fmt.Sprintf(f, a...), res)}
	}

	// evaluation order: on every path each argument at most once, left to right
	last := -1
	for _, p := range e.evals {
		if p <= last {
			return fail("arguments were evaluated in the order %v (each at most once, left to right)", e.evals)
		}
		last = p
	}
	if len(e.calls) > 1 {
		return fail("the function was invoked %d times", len(e.calls))
	}
	if e.decoy {
		return fail("a function other than the one called was invoked")
	}

	if x.unspecified != "" {
		r.Exclude("unspecified")
		r.Count("", cls)
		return nil
	}

	nt := ""
	if len(c.Args) > 0 || x.autoMap || x.autoHC {
		nt = c.Key()
	}
	r.Count(nt, cls)
	if x.nilZero != "" {
		r.Class("nil-to-zero/" + x.nilZero)
	}
	if c.Route != "" {
		r.Class("route/" + c.Route)
	}
	if c.Use != "" {
		r.Class("use/" + c.Use)
	}
	if nt != "" {
		r.Sample(func() interface{} {
			return map[string]interface{}{"signature": c.Sig.String(), "template": src, "expected": x.describe(c), "got": res.String(), "invocations": len(e.calls)}
		})
	}

	if x.errClass != "" {
		switch {
		case res.Panicked():
			return fail("the render panicked")
		case len(e.calls) != 0:
			return fail("the function was invoked")
		case res.Err == nil:
			return fail("the render succeeded")
		case !strings.Contains(res.Err.Error(), c.callName()):
			return fail("the error does not name the call")
		case len(e.capSeen) != 0:
			return fail("the failed call's value was used")
		}
		return nil
	}

	// must be invoked exactly once with exactly these values
	if res.Panicked() {
		return fail("the render panicked")
	}
	if len(e.calls) != 1 {
		return fail("the function was not invoked")
	}
	var wantEvals []int
	for i := range c.Args {
		if c.wrapped(i) {
			wantEvals = append(wantEvals, i)
		}
	}
	if !reflect.DeepEqual(append([]int{}, e.evals...), append([]int{}, wantEvals...)) {
		return fail("argument evaluations %v, want each wrapped argument exactly once: %v", e.evals, wantEvals)
	}
	for _, i := range wantEvals {
		v := e.argValue(c.Args[i], i)
		seen := e.seen[i][0]
		if v == nil {
			if seen != nil {
				return fail("identity helper w%d received %#v for nil", i, seen)
			}
		} else if m := sameValue(v, seen, tAny, strings.HasPrefix(c.Args[i], "cv")); m != "" {
			return fail("identity helper w%d: %s", i, m)
		}
	}
	inv := e.calls[0]
	types, _ := c.Sig.params()
	if len(inv.fixed) != len(x.fixed) {
		panic("harness: fixed parameter count mismatch")
	}
	for i, w := range x.fixed {
		if m := x.compareSlot(c, w, inv.fixed[i], types[i], fmt.Sprintf("parameter %d", i)); m != "" {
			return fail("%s", m)
		}
	}
	if len(inv.variadic) != len(x.variadic) {
		return fail("the variadic parameter received %d values, %d were supplied", len(inv.variadic), len(x.variadic))
	}
	for j, w := range x.variadic {
		if m := x.compareSlot(c, w, inv.variadic[j], varElemTypes[c.Sig.Var], fmt.Sprintf("variadic element %d", j)); m != "" {
			return fail("%s", m)
		}
	}
	// results
	if c.Use == "for" && !strings.Contains(c.Sig.Res, "err") {
		// what ranging over the call's value gives is C08's matter; here: the call was bound like any other, without a block
		return nil
	}
	if strings.Contains(c.Sig.Res, "err") {
		if res.Err == nil {
			return fail("the function returned a non-nil error, the render must fail")
		}
		if !errors.Is(res.Err, e.sentinel) {
			return fail("the render error does not wrap the function's error")
		}
		if len(e.capSeen) != 0 {
			return fail("the failed call's value was used")
		}
		return nil
	}
	if res.Err != nil {
		return fail("unexpected render error")
	}
	hasT := strings.Contains(c.Sig.Res, "T")
	if c.Use == "cap" {
		// the call's value is the first result, with its type
		if len(e.capSeen) != 1 {
			return fail("the helper wrapped around the call ran %d times", len(e.capSeen))
		}
		wantV := resultValue(c.Sig, 0)
		if c.Sig.anyErr() {
			wantV = e.resErr
		}
		if c.Sig.anyErr() && e.capSeen[0] != wantV || !reflect.DeepEqual(e.capSeen[0], wantV) {
			return fail("the call's value was %#v, the first result is %#v", e.capSeen[0], wantV)
		}
	}
	if c.Use == "if" || c.Use == "not" || c.Use == "or" {
		if c.Sig.anyErr() {
			return nil
		}
		// the call's value tested: no result, nil and "" are falsy, every other first result is truthy (C07)
		truthy := hasT && c.Sig.RT != "zstr" && c.Sig.RT != "nilany"
		wantOut := map[string]map[bool]string{"if": {true: "[yes]", false: "[no]"}, "not": {true: "[false]", false: "[true]"}, "or": {true: "[true]", false: "[false]"}}[c.Use][truthy]
		if res.Out != wantOut {
			return fail("output must be %q (the first result tested)", wantOut)
		}
		return nil
	}
	switch {
	case c.Use == "silent":
		if res.Out != "[]" {
			return fail("output must be %q (a tag without = emits nothing)", "[]")
		}
	case c.Sig.anyErr():
		// how an error value prints is not this property's business
		if !strings.HasPrefix(res.Out, "[") || !strings.HasSuffix(res.Out, "]") {
			return fail("output lost the surrounding text")
		}
	case c.Use == "let":
		if wantOut := "[][" + c.Sig.resultText() + "]"; res.Out != wantOut {
			return fail("output must be %q (the first result, held in a variable)", wantOut)
		}
	case hasT:
		if wantOut := "[" + c.Sig.resultText() + "]"; res.Out != wantOut {
			return fail("output must be %q (the first result)", wantOut)
		}
	case !strings.HasPrefix(res.Out, "[") || !strings.HasSuffix(res.Out, "]"):
		return fail("output lost the surrounding text")
	}
	return nil
}

// ---- keeping an open defect from flooding the report ------------------------------------------

// A case is "in the open class" when it cannot pass while the defect any-result-holding-error is unrepaired: the
// function's interface{} result holds an error value, or an error value travels through an identity wrapper (itself a
// func(interface{}) interface{}). Such cases stay in every space; but after openLimit of them have been reported by
// the exhaustive spaces the rest is counted under excluded instead of printing thousands of VIOLATION lines, and the
// random phases that start after that skip the class (decided once per phase, so shrinking stays deterministic).
// With the defect repaired nothing is ever reported, so nothing is ever skipped.
const openLimit = 3

var openReported int64

func (c Case) inOpenClass() bool {
	if c.Sig.anyErr() {
		return true
	}
	for i, a := range c.Args {
		if a == "cvErr" && c.wrapped(i) {
			return true
		}
	}
	return false
}

func (sc SeqCase) inOpenClass() bool {
	for j := range sc.Sigs {
		if sc.one(j).inOpenClass() {
			return true
		}
	}
	return false
}

// limited is used by the exhaustive spaces, skipOpen by the random phases.
func limited(r *vk.Run, in bool, f *vk.Fail) *vk.Fail {
	if f == nil || !in {
		return f
	}
	if atomic.AddInt64(&openReported, 1) > openLimit {
		r.Exclude("any-result-holding-error: reported already")
		return nil
	}
	return f
}

func skipOpen(r *vk.Run, in, phaseSkips bool) bool {
	if in && phaseSkips {
		r.Exclude("any-result-holding-error: reported already")
		return true
	}
	return false
}

// ---- one call site, several functions ------------------------------------------------------

// SeqCase executes ONE call site tgtFn(ARGS) several times within a single render, the callee resolving to a
// different recording function at each execution. The reference binder is applied to every execution on its own.
type SeqCase struct {
	Sigs  []Sig    `json:"sigs"` // 2-3 targets, in execution order
	Args  []string `json:"args"`
	Wrap  uint     `json:"wrap"`
	Block bool     `json:"block"` // not in mode "ufn"
	Mode  string   `json:"mode"`  // loop: for (tgtFn) in fns | let: for (i) in idx { let tgtFn = fns[i] } | ufn: user function called after rebinding tgtFn
}

var seqModes = []string{"loop", "let", "ufn"}

func (sc SeqCase) one(j int) Case {
	return Case{Sig: sc.Sigs[j], Args: sc.Args, Wrap: sc.Wrap, Block: sc.Block}
}

func (sc SeqCase) validate() string {
	if len(sc.Sigs) < 2 || len(sc.Sigs) > 4 {
		return "a sequence case needs 2-4 signatures"
	}
	for j := range sc.Sigs {
		if m := sc.one(j).validate(); m != "" {
			return m
		}
	}
	switch sc.Mode {
	case "loop", "let":
	case "ufn":
		if sc.Block {
			return "mode ufn has no block"
		}
	default:
		return "unknown mode"
	}
	return ""
}

func (sc SeqCase) Template() string {
	full := sc.one(0).Template() // "[<%= tgtFn(ARGS) ... %>]"
	switch sc.Mode {
	case "loop":
		return "<%= for (" + fname + ") in fns { %>" + full + "<% } %>"
	case "let":
		return "<%= for (i) in idx { %><% let " + fname + " = fns[i] %>" + full + "<% } %>"
	}
	call := strings.TrimSuffix(strings.TrimPrefix(full, "[<%= "), " %>]")
	var b strings.Builder
	b.WriteString("<% let " + fname + " = fn0 %><% let run = fn() { return " + call + " } %>[<%= run() %>]")
	for j := 1; j < len(sc.Sigs); j++ {
		fmt.Fprintf(&b, "<%% %s = fn%d %%>[<%%= run() %%>]", fname, j)
	}
	return b.String()
}

func (sc SeqCase) Key() string {
	var ss []string
	for _, s := range sc.Sigs {
		ss = append(ss, s.String())
	}
	return strings.Join(ss, " ; ") + " | " + sc.Template()
}

func checkSeq(r *vk.Run, sc SeqCase) *vk.Fail {
	if m := sc.validate(); m != "" {
		return &vk.Fail{Kind: "decode", Msg: m}
	}
	for _, s := range sc.Sigs {
		if knownOpen["any-result-holding-error"] && s.anyErr() {
			r.Exclude("any-result-holding-error")
			return nil
		}
	}
	defer r.Watch("seq", sc)()
	e := newEnvSigs(sc.Sigs)
	src := sc.Template()
	res := vk.Safe(func() (string, error) { return plush.Render(src, plush.NewContextWith(e.data)) })
	if e.harness != nil {
		panic(fmt.Sprintf("harness defect: the recorder panicked: %v (case %s)", e.harness, sc.Key()))
	}
	var outcomes []string
	cls := func() string { return "seq/" + sc.Mode + "/" + strings.Join(outcomes, ",") }
	differ := false
	for j := 1; j < len(sc.Sigs); j++ {
		differ = differ || sc.Sigs[j].funcType() != sc.Sigs[0].funcType()
	}
	count := func() {
		nt := ""
		if differ {
			nt = sc.Key()
		}
		r.Count(nt, cls())
	}
	var wantOut strings.Builder
	outKnown := true
	pos := 0
	for j := range sc.Sigs {
		c := sc.one(j)
		x := bind(c, e)
		fail := func(f string, a ...interface{}) *vk.Fail {
			return &vk.Fail{Kind: "seq", Class: cls(), Case: sc,
				Msg: fmt.Sprintf("%s: execution %d of the call site resolves to %s: expected %s; %s; events %v; render gave %s", src, j, c.Sig, x.describe(c), fmt.Sprintf(f, a...), e.log, res)}
		}
		switch {
		case x.unspecified != "":
			// the statement does not say whether this execution fails or calls: nothing after it can be judged
			outcomes = append(outcomes, "unspecified")
			r.Exclude("unspecified")
			count()
			return nil
		case x.errClass != "":
			outcomes = append(outcomes, "error")
			count()
			last := -1
			for ; pos < len(e.log); pos++ {
				ev := e.log[pos]
				if ev.call >= 0 {
					return fail("a function was invoked (target %d)", e.calls[ev.call].tgt)
				}
				if ev.pos <= last {
					return fail("arguments evaluated more than once or out of order after the failing execution started")
				}
				last = ev.pos
			}
			switch {
			case res.Panicked():
				return fail("the render panicked")
			case res.Err == nil:
				return fail("the render succeeded")
			case !strings.Contains(res.Err.Error(), fname):
				return fail("the error does not name the call")
			}
			return nil
		}
		outcomes = append(outcomes, "invoke")
		for i := range c.Args {
			if !c.wrapped(i) {
				continue
			}
			if pos >= len(e.log) || e.log[pos].call >= 0 || e.log[pos].pos != i {
				count()
				return fail("argument %d must be evaluated next (event %d)", i, pos)
			}
			v := e.argValue(c.Args[i], i)
			seen := e.log[pos].v
			if v == nil {
				if seen != nil {
					count()
					return fail("identity helper w%d received %#v for nil", i, seen)
				}
			} else if m := sameValue(v, seen, tAny, strings.HasPrefix(c.Args[i], "cv")); m != "" {
				count()
				return fail("identity helper w%d: %s", i, m)
			}
			pos++
		}
		if pos >= len(e.log) || e.log[pos].call < 0 || e.calls[e.log[pos].call].tgt != j {
			count()
			return fail("function %d must be invoked next (event %d)", j, pos)
		}
		inv := e.calls[e.log[pos].call]
		pos++
		types, _ := c.Sig.params()
		if len(inv.fixed) != len(x.fixed) {
			panic("harness: fixed parameter count mismatch")
		}
		for i, w := range x.fixed {
			if m := x.compareSlot(c, w, inv.fixed[i], types[i], fmt.Sprintf("parameter %d", i)); m != "" {
				count()
				return fail("%s", m)
			}
		}
		if len(inv.variadic) != len(x.variadic) {
			count()
			return fail("the variadic parameter received %d values, %d were supplied", len(inv.variadic), len(x.variadic))
		}
		for k, w := range x.variadic {
			if m := x.compareSlot(c, w, inv.variadic[k], varElemTypes[c.Sig.Var], fmt.Sprintf("variadic element %d", k)); m != "" {
				count()
				return fail("%s", m)
			}
		}
		if strings.Contains(c.Sig.Res, "err") {
			outcomes[len(outcomes)-1] = "invoke+error-result"
			count()
			switch {
			case pos != len(e.log):
				return fail("the function returned a non-nil error, nothing may be evaluated after it")
			case res.Panicked():
				return fail("the render panicked")
			case res.Err == nil:
				return fail("the function returned a non-nil error, the render must fail")
			case !errors.Is(res.Err, e.sentinels[j]):
				return fail("the render error does not wrap the function's error")
			}
			return nil
		}
		if strings.Contains(c.Sig.Res, "T") && !c.Sig.anyErr() {
			wantOut.WriteString("[" + c.Sig.resultTextOf(j) + "]")
		} else {
			outKnown = false
		}
	}
	count()
	r.Sample(func() interface{} {
		return map[string]interface{}{"signatures": sc.Key(), "template": src, "outcomes": cls(), "got": res.String(), "events": fmt.Sprint(e.log)}
	})
	fail := func(f string, a ...interface{}) *vk.Fail {
		return &vk.Fail{Kind: "seq", Class: cls(), Case: sc,
			Msg: fmt.Sprintf("%s: every execution must invoke its function; %s; events %v; render gave %s", src, fmt.Sprintf(f, a...), e.log, res)}
	}
	switch {
	case pos != len(e.log):
		return fail("%d events after the last expected one", len(e.log)-pos)
	case res.Panicked():
		return fail("the render panicked")
	case res.Err != nil:
		return fail("unexpected render error")
	case outKnown && res.Out != wantOut.String():
		return fail("output must be %q", wantOut.String())
	}
	return nil
}

// seqSigs: the signatures paired exhaustively (<= maxFixed fixed parameters of the given types x 12 tails).
func seqSigs(fixed []string) []Sig {
	lists := [][]string{nil}
	for _, f := range fixed {
		lists = append(lists, []string{f})
	}
	var out []Sig
	for _, l := range lists {
		for _, tl := range tails {
			out = append(out, Sig{Fixed: l, Map: tl.m, HC: tl.h, Var: tl.v, Res: "(T)", RT: "string"})
		}
	}
	return out
}

// seqProduct: all ordered pairs of seqSigs x all argument lists of length <= maxN over kinds; mode and block by index.
type seqProduct struct {
	sigs   []Sig
	kinds  []string
	maxN   int
	calls  int64
	blocks int64 // 1: block alternates with the index, 2: both
}

func newSeqProduct(fixed, kinds []string, maxN int, blocks int64) *seqProduct {
	p := &seqProduct{sigs: seqSigs(fixed), kinds: kinds, maxN: maxN, blocks: blocks}
	pow := int64(1)
	for n := 0; n <= maxN; n++ {
		p.calls += pow
		pow *= int64(len(kinds))
	}
	return p
}

func (p *seqProduct) size() int64 {
	return int64(len(p.sigs)) * int64(len(p.sigs)) * p.calls * p.blocks
}

func (p *seqProduct) at(i int64) SeqCase {
	orig := i
	blk := i%2 == 1
	if p.blocks == 2 {
		i /= 2
	}
	ci := i % p.calls
	i /= p.calls
	a, b := i%int64(len(p.sigs)), i/int64(len(p.sigs))
	n := 0
	pow := int64(1)
	for ci >= pow {
		ci -= pow
		pow *= int64(len(p.kinds))
		n++
	}
	args := make([]string, n)
	for j := 0; j < n; j++ {
		args[j] = p.kinds[ci%int64(len(p.kinds))]
		ci /= int64(len(p.kinds))
	}
	sc := SeqCase{Sigs: []Sig{p.sigs[a], p.sigs[b]}, Args: args, Wrap: allWrapped(n), Block: blk, Mode: seqModes[(orig/2)%3]}
	if (orig/6)%3 == 0 {
		sc.Wrap = 0
	}
	if sc.Mode == "ufn" {
		sc.Block = false
	}
	return sc
}

// seqArity: ordered pairs of signatures with all result shapes, arguments well typed for one of the two.
func seqArity(maxFixed int) []SeqCase {
	var sigs []Sig
	res := []resT{{"(T)", "string"}, {"(T,err)", "int"}, {"(err)", ""}, {"()", ""}}
	for k := 0; k <= maxFixed; k++ {
		var fixed []string
		for j := 0; j < k; j++ {
			fixed = append(fixed, fixedNames[(1+3*j+k)%len(fixedNames)])
		}
		for _, tl := range tails {
			for _, rs := range res {
				sigs = append(sigs, Sig{Fixed: fixed, Map: tl.m, HC: tl.h, Var: tl.v, Res: rs.res, RT: rs.rt})
			}
		}
	}
	var out []SeqCase
	n := 0
	for _, a := range sigs {
		for _, b := range sigs {
			for _, which := range []Sig{a, b} {
				types, _ := which.params()
				lo, hi := len(which.Fixed), len(types)
				if which.Var != "" {
					hi = lo + 2
				}
				for cnt := lo; cnt <= hi; cnt++ {
					var args []string
					for i := 0; i < cnt; i++ {
						cs := canon[which.paramNameAt(i)]
						args = append(args, cs[(i+n)%len(cs)])
					}
					sc := SeqCase{Sigs: []Sig{a, b}, Args: args, Wrap: allWrapped(cnt), Block: n%2 == 0, Mode: seqModes[n%3]}
					if n%5 == 0 {
						sc.Wrap = 0
					}
					if sc.Mode == "ufn" {
						sc.Block = false
					}
					out = append(out, sc)
					n++
				}
			}
		}
	}
	return out
}

func genSig(t *rapid.T) Sig {
	var s Sig
	k := rapid.IntRange(0, 3).Draw(t, "k")
	for i := 0; i < k; i++ {
		s.Fixed = append(s.Fixed, rapid.SampledFrom(allFixedNames).Draw(t, "fixed"))
	}
	tl := rapid.SampledFrom(extTails).Draw(t, "tail")
	s.Map, s.HC, s.Var = tl.m, tl.h, tl.v
	rs := rapid.SampledFrom(allRes).Draw(t, "res")
	s.Res, s.RT = rs.res, rs.rt
	return s
}

func genSeq(t *rapid.T, fit map[string][]string) SeqCase {
	sc := SeqCase{Mode: rapid.SampledFrom(seqModes).Draw(t, "mode")}
	ns := rapid.IntRange(2, 3).Draw(t, "nsigs")
	for j := 0; j < ns; j++ {
		s := genSig(t)
		if j > 0 && rapid.IntRange(0, 2).Draw(t, "related") == 0 {
			// a close relative of the first: same fixed parameters, another tail (this is where a stale signature hurts silently)
			s.Fixed = append([]string{}, sc.Sigs[0].Fixed...)
		}
		if j < ns-1 && rapid.IntRange(0, 3).Draw(t, "keep-going") != 0 && strings.Contains(s.Res, "err") {
			s.Res = strings.Replace(s.Res, "err", "nil", 1)
		}
		sc.Sigs = append(sc.Sigs, s)
	}
	lead := sc.Sigs[rapid.IntRange(0, ns-1).Draw(t, "lead")] // arguments are drawn to fit this one
	types, _ := lead.params()
	lo, hi := len(lead.Fixed), len(types)
	if lead.Var != "" {
		hi = lo + 3
	}
	if hi > maxArgs {
		hi = maxArgs
	}
	n := rapid.IntRange(lo, hi).Draw(t, "n")
	for i := 0; i < n; i++ {
		name := lead.paramNameAt(i)
		if name != "" && rapid.IntRange(0, 5).Draw(t, "fitting") != 0 {
			sc.Args = append(sc.Args, rapid.SampledFrom(fit[name]).Draw(t, "arg"))
		} else {
			sc.Args = append(sc.Args, rapid.SampledFrom(argKinds).Draw(t, "arg"))
		}
	}
	sc.Wrap = uint(rapid.IntRange(0, int(allWrapped(n))).Draw(t, "wrap"))
	if sc.Mode != "ufn" {
		sc.Block = rapid.Bool().Draw(t, "block")
	}
	return sc
}

// ---- several call sites in one template -------------------------------------------------------

// TreeCase is a template with SEVERAL calls of 2-4 recording functions: one after the other, one as an argument of
// another, one inside the block of another, optionally the whole body inside a loop. A reference evaluation walks the
// tree and lists the invocations that must happen, in order, each with the values the reference binder demands
// (nested calls hand their first result to the outer call; an auto-supplied helper context carries THAT call's block,
// which renders what the walk says it renders - twice, since the recorder calls Block() twice; every auto-supplied
// options map is empty when its call starts although every recorder writes into the map it was given).
type TNode struct {
	Tgt   int     `json:"tgt"`
	Args  []TArg  `json:"args,omitempty"`
	Blk   bool    `json:"blk,omitempty"`
	Block []TItem `json:"block,omitempty"`
}

type TArg struct {
	Kind string `json:"kind,omitempty"` // an argument kind, or "loopvar" (the loop variable x)
	Call *TNode `json:"call,omitempty"` // the argument is itself a call
}

type TItem struct {
	Text string `json:"text,omitempty"`
	Var  bool   `json:"var,omitempty"` // <%= x %>
	Call *TNode `json:"call,omitempty"`
}

type TreeCase struct {
	Sigs  []Sig   `json:"sigs"`
	Items []TItem `json:"items"`
	Loop  int     `json:"loop,omitempty"` // > 0: the items are the body of for (x) in xs, xs = [0 .. Loop-1]
	// Outer > 0 (only with Loop > 0): that loop is itself the body of for (y) in ys with Outer elements, so the inner
	// loop - and every call site in it - is entered several times
	Outer int `json:"outer,omitempty"`
}

func tfn(j int) string { return fmt.Sprintf("fn%d", j) }

func (n *TNode) src() string {
	var parts []string
	for i, a := range n.Args {
		switch {
		case a.Call != nil:
			parts = append(parts, a.Call.src())
		case a.Kind == "loopvar":
			parts = append(parts, "x")
		default:
			parts = append(parts, argSource(a.Kind, i))
		}
	}
	out := tfn(n.Tgt) + "(" + strings.Join(parts, ", ") + ")"
	if n.Blk {
		out += " { %>" + itemsSrc(n.Block) + "<% }"
	}
	return out
}

func itemsSrc(items []TItem) string {
	var b strings.Builder
	for _, it := range items {
		switch {
		case it.Call != nil:
			b.WriteString("<%= " + it.Call.src() + " %>")
		case it.Var:
			b.WriteString("<%= x %>")
		default:
			b.WriteString(it.Text)
		}
	}
	return b.String()
}

func (tc TreeCase) Template() string {
	body := itemsSrc(tc.Items)
	if tc.Loop > 0 {
		body = "<%= for (x) in xs { %>" + body + "<% } %>"
	}
	if tc.Outer > 0 {
		body = "<%= for (y) in ys { %>" + body + "<% } %>"
	}
	return body
}

func (tc TreeCase) Key() string {
	var ss []string
	for _, s := range tc.Sigs {
		ss = append(ss, s.String())
	}
	return strings.Join(ss, " ; ") + " | " + tc.Template()
}

func (tc TreeCase) validate() string {
	if len(tc.Sigs) < 2 || len(tc.Sigs) > 4 {
		return "a tree case needs 2-4 signatures"
	}
	for _, s := range tc.Sigs {
		if m := s.validate(); m != "" {
			return m
		}
		if s.anyErr() {
			return "result type anyerr is not used in trees"
		}
	}
	if tc.Loop < 0 || tc.Loop > 1200 || tc.Outer < 0 || tc.Outer > 4 || tc.Outer > 0 && tc.Loop == 0 {
		return "bad loop count"
	}
	nodes := 0
	var walkItems func(items []TItem, depth int) string
	var walkNode func(n *TNode, depth int) string
	walkNode = func(n *TNode, depth int) string {
		nodes++
		if n == nil || depth > 6 || nodes > 64 || n.Tgt < 0 || n.Tgt >= len(tc.Sigs) || len(n.Args) > maxArgs || (!n.Blk && len(n.Block) > 0) {
			return "bad call node"
		}
		for _, a := range n.Args {
			switch {
			case a.Call != nil:
				if m := walkNode(a.Call, depth+1); m != "" {
					return m
				}
			case a.Kind == "loopvar":
				if tc.Loop == 0 {
					return "loop variable outside a loop"
				}
			case !argKindSet[a.Kind]:
				return "unknown argument kind " + a.Kind
			}
		}
		return walkItems(n.Block, depth+1)
	}
	walkItems = func(items []TItem, depth int) string {
		for _, it := range items {
			switch {
			case it.Call != nil:
				if m := walkNode(it.Call, depth); m != "" {
					return m
				}
			case it.Var:
				if tc.Loop == 0 {
					return "loop variable outside a loop"
				}
			default:
				for _, ch := range it.Text {
					if !(ch >= 'a' && ch <= 'z' || ch >= '0' && ch <= '9' || ch == ' ' || ch == '.') {
						return "text items are plain"
					}
				}
			}
		}
		return ""
	}
	return walkItems(tc.Items, 0)
}

type wantCall struct {
	node *TNode
	x    expectation
}

type treeEval struct {
	tc          TreeCase
	e           *env
	want        []wantCall
	x           int // the loop variable
	depthBlock  int // > 0 while the walk is inside a block
	unspecified string
	failed      bool
	failName    string // a binder error: the error names this call
	failErr     error  // an error result: the render error wraps it
}

// resultValue is the first result of target j as a value (nil when there is none, or when it is a nil error).
func resultValue(s Sig, j int) interface{} {
	if !strings.Contains(s.Res, "T") {
		return nil
	}
	switch s.RT {
	case "int":
		return 4242 + j
	case "zint":
		return 0
	case "nilany":
		return nil
	}
	return s.resultTextOf(j)
}

func textOf(v interface{}) string {
	if v == nil {
		return ""
	}
	return fmt.Sprint(v)
}

func (t *treeEval) stop() bool { return t.failed || t.unspecified != "" }

func (t *treeEval) call(n *TNode) interface{} {
	sig := t.tc.Sigs[n.Tgt]
	vals := make([]interface{}, len(n.Args))
	ident := make([]bool, len(n.Args))
	nested := false
	for _, a := range n.Args {
		nested = nested || a.Call != nil
	}
	if nested {
		// The statement does not say whether, or which, arguments of a call that fails in the binder (arity, an
		// unassignable argument) are evaluated. The values of nested calls are known beforehand (every target
		// returns a fixed value), so this is decided before any nested call is walked.
		pre := make([]interface{}, len(n.Args))
		for i, a := range n.Args {
			switch {
			case a.Call != nil:
				pre[i] = resultValue(t.tc.Sigs[a.Call.Tgt], a.Call.Tgt)
			case a.Kind == "loopvar":
				pre[i] = t.x
			default:
				pre[i] = t.e.argValue(a.Kind, i)
			}
		}
		if px := bindVals(sig, pre, ident, n.Blk, ""); px.errClass != "" {
			t.unspecified = "failing-call-with-calls-as-arguments"
			return nil
		}
	}
	for i, a := range n.Args {
		switch {
		case a.Call != nil:
			vals[i] = t.call(a.Call)
			if t.stop() {
				return nil
			}
		case a.Kind == "loopvar":
			vals[i] = t.x
		default:
			vals[i] = t.e.argValue(a.Kind, i)
			ident[i] = strings.HasPrefix(a.Kind, "cv")
		}
	}
	x := bindVals(sig, vals, ident, n.Blk, "")
	switch {
	case x.unspecified != "":
		t.unspecified = x.unspecified
		return nil
	case x.errClass != "" && t.depthBlock > 0:
		// the recorder does not hand on an error of its block: what the render does then is not ours to say
		t.unspecified = "failure-inside-a-block"
		return nil
	case x.errClass != "":
		t.failed, t.failName = true, tfn(n.Tgt)
		return nil
	}
	if x.autoHC && n.Blk {
		// the recorder renders the block twice, before it records its own invocation
		txt := ""
		for rep := 0; rep < 2; rep++ {
			t.depthBlock++
			txt = t.items(n.Block)
			t.depthBlock--
			if t.stop() {
				return nil
			}
		}
		for i := range x.fixed {
			if x.fixed[i].mode == "autohc" {
				x.fixed[i].blkText = txt
			}
		}
	}
	t.want = append(t.want, wantCall{node: n, x: x})
	if strings.Contains(sig.Res, "err") {
		if t.depthBlock > 0 {
			t.unspecified = "failure-inside-a-block"
			return nil
		}
		t.failed, t.failErr = true, t.e.sentinels[n.Tgt]
		return nil
	}
	return resultValue(sig, n.Tgt)
}

func (t *treeEval) items(items []TItem) string {
	var b strings.Builder
	for _, it := range items {
		switch {
		case it.Call != nil:
			v := t.call(it.Call)
			if t.stop() {
				return ""
			}
			b.WriteString(textOf(v))
		case it.Var:
			b.WriteString(fmt.Sprint(t.x))
		default:
			b.WriteString(it.Text)
		}
	}
	return b.String()
}

func checkTree(r *vk.Run, tc TreeCase) *vk.Fail {
	if m := tc.validate(); m != "" {
		return &vk.Fail{Kind: "decode", Msg: m}
	}
	defer r.Watch("tree", tc)()
	e := newEnvSigs(tc.Sigs)
	if tc.Loop > 0 {
		xs := make([]int, tc.Loop)
		for i := range xs {
			xs[i] = i
		}
		e.data["xs"] = xs
	}
	if tc.Outer > 0 {
		e.data["ys"] = make([]int, tc.Outer)
	}
	src := tc.Template()
	res := vk.Safe(func() (string, error) { return plush.Render(src, plush.NewContextWith(e.data)) })
	if e.harness != nil {
		panic(fmt.Sprintf("harness defect: the recorder panicked: %v (case %s)", e.harness, tc.Key()))
	}
	t := &treeEval{tc: tc, e: e}
	var wantOut strings.Builder
	outer := tc.Outer
	if outer == 0 {
		outer = 1
	}
	for y := 0; y < outer && !t.stop(); y++ {
		if tc.Loop > 0 {
			for t.x = 0; t.x < tc.Loop && !t.stop(); t.x++ {
				wantOut.WriteString(t.items(tc.Items))
			}
		} else {
			wantOut.WriteString(t.items(tc.Items))
		}
	}
	if t.unspecified != "" {
		r.Exclude("unspecified")
		r.Count("", "tree/unspecified/"+t.unspecified)
		return nil
	}
	cls := "tree/ok"
	switch {
	case t.failName != "":
		cls = "tree/binder-error"
	case t.failed:
		cls = "tree/error-result"
	}
	if tc.Loop > 0 {
		cls += "/loop"
	}
	if tc.Outer > 0 {
		cls += "-in-loop"
	}
	r.Count(tc.Key(), cls)
	r.Sample(func() interface{} {
		return map[string]interface{}{"signatures": tc.Key(), "template": src, "expected invocations": len(t.want), "class": cls, "got": res.String()}
	})
	fail := func(f string, a ...interface{}) *vk.Fail {
		var got []string
		for _, c := range e.calls {
			got = append(got, tfn(c.tgt))
		}
		var want []string
		for _, w := range t.want {
			want = append(want, tfn(w.node.Tgt))
		}
		short := func(l []string) string {
			if len(l) > 16 {
				return fmt.Sprintf("%v ... (%d in all)", l[:16], len(l))
			}
			return fmt.Sprint(l)
		}
		return &vk.Fail{Kind: "tree", Class: cls, Case: tc,
			Msg: fmt.Sprintf("%s: %s; invocations expected %s, happened %s; render gave %s", tc.Key(), fmt.Sprintf(f, a...), short(want), short(got), vk.Text(oneLine(res.String(), 300)))}
	}
	if res.Panicked() {
		return fail("the render panicked")
	}
	for i, w := range t.want {
		if i >= len(e.calls) {
			return fail("invocation %d (%s) did not happen", i, w.node.src())
		}
		inv := e.calls[i]
		if inv.tgt != w.node.Tgt {
			return fail("invocation %d must be %s, was %s", i, w.node.src(), tfn(inv.tgt))
		}
		sig := tc.Sigs[w.node.Tgt]
		types, _ := sig.params()
		if len(inv.fixed) != len(w.x.fixed) {
			panic("harness: fixed parameter count mismatch")
		}
		one := Case{Sig: sig, Block: w.node.Blk}
		for k, sw := range w.x.fixed {
			if m := w.x.compareSlot(one, sw, inv.fixed[k], types[k], fmt.Sprintf("parameter %d", k)); m != "" {
				return fail("invocation %d, %s: %s", i, w.node.src(), m)
			}
		}
		if len(inv.variadic) != len(w.x.variadic) {
			return fail("invocation %d, %s: the variadic parameter received %d values, %d were supplied", i, w.node.src(), len(inv.variadic), len(w.x.variadic))
		}
		for k, sw := range w.x.variadic {
			if m := w.x.compareSlot(one, sw, inv.variadic[k], varElemTypes[sig.Var], fmt.Sprintf("variadic element %d", k)); m != "" {
				return fail("invocation %d, %s: %s", i, w.node.src(), m)
			}
		}
	}
	if len(e.calls) > len(t.want) {
		return fail("%d invocations more than expected", len(e.calls)-len(t.want))
	}
	switch {
	case t.failName != "":
		if res.Err == nil {
			return fail("the call of %s must fail the render", t.failName)
		}
		if !strings.Contains(res.Err.Error(), t.failName) {
			return fail("the error does not name the call of %s", t.failName)
		}
	case t.failed:
		if res.Err == nil {
			return fail("a function returned a non-nil error, the render must fail")
		}
		if !errors.Is(res.Err, t.failErr) {
			return fail("the render error does not wrap the function's error")
		}
	case res.Err != nil:
		return fail("unexpected render error")
	case res.Out != wantOut.String():
		return fail("output must be %q", wantOut.String())
	}
	return nil
}

// canonArgs: one well-typed literal argument per fixed parameter (and one variadic element), rotated by rot.
func canonArgs(s Sig, rot int) []TArg {
	var out []TArg
	n := len(s.Fixed)
	if s.Var != "" {
		n++
	}
	for i := 0; i < n; i++ {
		cs := canon[s.paramNameAt(i)]
		out = append(out, TArg{Kind: cs[(i+rot)%len(cs)]})
	}
	return out
}

// treePool: the signatures combined exhaustively in the fixed tree shapes.
var treePool = []Sig{
	{Fixed: []string{"any"}, Res: "(T)", RT: "string"},
	{Fixed: []string{"string"}, Map: "map", HC: "struct", Res: "(T)", RT: "string"},
	{HC: "iface", Res: "(T,nil)", RT: "string"},
	{Var: "any", Res: "(T)", RT: "string"},
	{Fixed: []string{"any"}, Var: "string", Res: "(T)", RT: "string"},
	{Map: "hmap", HC: "iface", Res: "(T)", RT: "int"},
	{Fixed: []string{"string"}, Res: "(T)", RT: "any"},
	{Fixed: []string{"any", "any"}, HC: "struct", Res: "(T)", RT: "string"},
	{Fixed: []string{"int"}, Map: "map", Res: "(T)", RT: "int"},
	{Map: "map", Res: "()"},
}

// treeShapes: the fixed shapes for an ordered pair of signatures (A = fn0, B = fn1).
func treeShapes(a, b Sig, rot int) []TreeCase {
	sigs := []Sig{a, b}
	A := func(blk bool, block ...TItem) *TNode {
		return &TNode{Tgt: 0, Args: canonArgs(a, rot), Blk: blk, Block: block}
	}
	B := func(blk bool, block ...TItem) *TNode {
		return &TNode{Tgt: 1, Args: canonArgs(b, rot+1), Blk: blk, Block: block}
	}
	txt := func(s string) TItem { return TItem{Text: s} }
	call := func(n *TNode) TItem { return TItem{Call: n} }
	withArg := func(n *TNode, i int, arg TArg) *TNode {
		if i < len(n.Args) {
			n.Args[i] = arg
		} else {
			n.Args = append(n.Args, arg)
		}
		return n
	}
	var out []TreeCase
	add := func(loop int, items ...TItem) { out = append(out, TreeCase{Sigs: sigs, Items: items, Loop: loop}) }
	// one after the other, each with its own block, then the first again without a block
	add(0, call(A(true, txt("pa"))), txt("t"), call(B(true, txt("pb"))), call(A(false)), call(B(false)))
	// the same two sites without blocks first (nothing may be left over for the calls that follow)
	add(0, call(A(false)), call(B(true, txt("pb"))), call(A(true, txt("pa"))))
	// B as the first / as the last argument of A, A carrying a block
	add(0, call(withArg(A(true, txt("u")), 0, TArg{Call: B(false)})), txt("v"))
	add(0, call(withArg(A(true, txt("u")), len(canonArgs(a, rot))-1+btoi(len(canonArgs(a, rot)) == 0), TArg{Call: B(false)})))
	// B with a block of its own as an argument of A with another block
	add(0, call(withArg(A(true, txt("outer")), 0, TArg{Call: B(true, txt("inner"))})))
	// B inside the block of A; A again inside the block of B inside the block of A
	add(0, call(A(true, txt("t"), call(B(true, txt("u"))), txt("v"))), call(B(false)))
	add(0, call(A(true, call(B(true, call(A(true, txt("w"))), txt("z"))))))
	// in a loop: the block shows the loop variable; the loop variable as first argument
	add(3, call(A(true, txt("i"), TItem{Var: true})), call(B(true, TItem{Var: true}, TItem{Var: true})))
	add(2, call(withArg(A(true, TItem{Var: true}), 0, TArg{Kind: "loopvar"})), txt("."), call(B(false)))
	add(2, call(A(true, call(withArg(B(true, TItem{Var: true}), 0, TArg{Kind: "loopvar"})))))
	// the loop entered twice: every site in it runs again in a fresh loop scope
	add(2, call(A(true, TItem{Var: true})), call(B(true, txt("k"), TItem{Var: true})))
	out[len(out)-1].Outer = 2
	add(3, call(withArg(A(true, TItem{Var: true}, call(B(true, TItem{Var: true}))), 0, TArg{Kind: "loopvar"})))
	out[len(out)-1].Outer = 2
	return out
}

// longTrees: 1100 iterations of a loop whose body calls with a block, without a block, with a call as argument and
// with a call inside the block.
func longTrees() []TreeCase {
	sigs := []Sig{{Fixed: []string{"any"}, HC: "struct", Res: "(T)", RT: "string"}, {Map: "map", HC: "iface", Res: "(T)", RT: "int"}}
	x := TArg{Kind: "loopvar"}
	return []TreeCase{
		{Sigs: sigs, Loop: 1100, Items: []TItem{{Call: &TNode{Tgt: 0, Args: []TArg{x}, Blk: true, Block: []TItem{{Var: true}}}}}},
		{Sigs: sigs, Loop: 1100, Items: []TItem{{Call: &TNode{Tgt: 0, Args: []TArg{x}}}, {Text: "."}}},
		{Sigs: sigs, Loop: 1100, Items: []TItem{{Call: &TNode{Tgt: 0, Args: []TArg{{Call: &TNode{Tgt: 1}}}}}}},
		{Sigs: sigs, Loop: 550, Items: []TItem{{Call: &TNode{Tgt: 0, Args: []TArg{x}, Blk: true, Block: []TItem{{Call: &TNode{Tgt: 1, Blk: true, Block: []TItem{{Var: true}}}}}}}}},
	}
}

func oneLine(s string, max int) string {
	if len(s) > max {
		return s[:max] + "..."
	}
	return s
}

func btoi(b bool) int {
	if b {
		return 1
	}
	return 0
}

var fitEnv = newEnvSigs([]Sig{{Res: "()"}})

func genTree(t *rapid.T, fit map[string][]string) TreeCase {
	tc := TreeCase{}
	ns := rapid.IntRange(2, 4).Draw(t, "nsigs")
	for j := 0; j < ns; j++ {
		s := genSig(t)
		if s.anyErr() {
			s.RT = "any"
		}
		if strings.Contains(s.Res, "err") && rapid.IntRange(0, 5).Draw(t, "keep-error") != 0 {
			s.Res = strings.Replace(s.Res, "err", "nil", 1)
		}
		tc.Sigs = append(tc.Sigs, s)
	}
	if rapid.IntRange(0, 2).Draw(t, "looped") == 0 {
		tc.Loop = rapid.IntRange(1, 3).Draw(t, "loop")
		if rapid.IntRange(0, 2).Draw(t, "outer-loop") == 0 {
			tc.Outer = rapid.IntRange(1, 3).Draw(t, "outer")
		}
	}
	budget := 10
	var node func(depth, force int) *TNode
	var items func(depth, max int) []TItem
	node = func(depth, force int) *TNode {
		budget--
		n := &TNode{Tgt: force}
		if force < 0 {
			n.Tgt = rapid.IntRange(0, ns-1).Draw(t, "tgt")
		}
		s := tc.Sigs[n.Tgt]
		types, _ := s.params()
		lo, hi := len(s.Fixed), len(types)
		if s.Var != "" {
			hi = lo + 2
		}
		if rapid.IntRange(0, 11).Draw(t, "one-more") == 0 {
			hi++
		}
		if hi > maxArgs {
			hi = maxArgs
		}
		cnt := rapid.IntRange(lo, hi).Draw(t, "n")
		for i := 0; i < cnt; i++ {
			name := s.paramNameAt(i)
			switch pick := rapid.IntRange(0, 9).Draw(t, "arg-class"); {
			case pick < 3 && depth < 3 && budget > 0:
				// a nested call whose result fits the parameter, if some target has one (a binder failure around
				// nested calls is not judged); one time in eight any target
				force := -1
				if pt := s.paramTypeAt(i); pt != nil && rapid.IntRange(0, 7).Draw(t, "any-target") != 0 {
					var cands []int
					for j, sj := range tc.Sigs {
						if fits(resultValue(sj, j), pt) {
							cands = append(cands, j)
						}
					}
					if len(cands) == 0 {
						n.Args = append(n.Args, TArg{Kind: rapid.SampledFrom(fit[name]).Draw(t, "arg")})
						continue
					}
					force = cands[rapid.IntRange(0, len(cands)-1).Draw(t, "fitting-target")]
				}
				sub := node(depth+1, force)
				n.Args = append(n.Args, TArg{Call: sub})
			case pick == 3 && tc.Loop > 0:
				n.Args = append(n.Args, TArg{Kind: "loopvar"})
			case pick == 4 || name == "":
				n.Args = append(n.Args, TArg{Kind: rapid.SampledFrom(argKinds).Draw(t, "arg")})
			default:
				n.Args = append(n.Args, TArg{Kind: rapid.SampledFrom(fit[name]).Draw(t, "arg")})
			}
		}
		nested := false
		for _, a := range n.Args {
			nested = nested || a.Call != nil
		}
		if nested && rapid.IntRange(0, 9).Draw(t, "leave-misfits") != 0 {
			// a binder failure around nested calls is not judged: make the remaining arguments fit
			if max := len(types); s.Var == "" && len(n.Args) > max {
				n.Args = n.Args[:max]
			}
			for i, a := range n.Args {
				pt := s.paramTypeAt(i)
				if a.Call != nil || pt == nil {
					continue
				}
				if a.Kind == "loopvar" && !fits(0, pt) || a.Kind != "loopvar" && !fits(fitEnv.argValue(a.Kind, i), pt) {
					n.Args[i] = TArg{Kind: rapid.SampledFrom(fit[s.paramNameAt(i)]).Draw(t, "refit")}
				}
			}
		}
		if rapid.Bool().Draw(t, "blk") {
			n.Blk = true
			n.Block = items(depth+1, 3)
		}
		return n
	}
	items = func(depth, max int) []TItem {
		var out []TItem
		cnt := rapid.IntRange(0, max).Draw(t, "items")
		for i := 0; i < cnt; i++ {
			switch pick := rapid.IntRange(0, 5).Draw(t, "item-class"); {
			case pick < 3 && depth < 3 && budget > 0:
				out = append(out, TItem{Call: node(depth, -1)})
			case pick == 3 && tc.Loop > 0:
				out = append(out, TItem{Var: true})
			default:
				out = append(out, TItem{Text: rapid.SampledFrom([]string{"a", "bb", "c ", ".", "t9"}).Draw(t, "text")})
			}
		}
		return out
	}
	tc.Items = append(tc.Items, TItem{Call: node(0, -1)})
	tc.Items = append(tc.Items, items(0, 3)...)
	return tc
}

// ---- generators -----------------------------------------------------------------------

// fitting[typeKey] lists the argument kinds acceptable for a parameter type (by the reference rule).
func fittingKinds(pt reflect.Type) []string {
	e := newEnv(Case{Sig: Sig{Res: "()"}})
	var out []string
	for _, k := range argKinds {
		if fits(e.argValue(k, 0), pt) {
			out = append(out, k)
		}
	}
	return out
}

// canonical well-typed spellings per parameter type name, for the arity matrix
var canon = map[string][]string{
	"string": {"str", "cvStr", "nil"}, "int": {"int", "cvInt", "nil"}, "float64": {"float", "cvFloat", "nil"},
	"bool": {"true", "false", "cvBool"}, "any": {"hash", "array", "cvI8", "nil", "str", "cvNilPtr"}, "ptr": {"cvPtr", "cvNilPtr", "nil"},
	"ints": {"cvInts", "nil"}, "map": {"hash", "cvHMap", "nil"}, "hmap": {"hash", "cvHMap", "nil"}, "struct": {"nil"}, "iface": {"nil"},
	"stringer": {"cvStringer", "nil"}, "err": {"cvErr", "nil"}, "i64": {"cvI64", "nil"}, "mystr": {"cvMyStr", "nil"},
	"anys": {"array", "cvAnys", "nil"}, "tval": {"cvT", "nil"}, "fn": {"cvFn", "nil"},
}

// paramNameAt names the parameter type an argument at position i meets ("" beyond the last parameter).
func (s Sig) paramNameAt(i int) string {
	names := append([]string{}, s.Fixed...)
	if s.Map != "" {
		names = append(names, s.Map)
	}
	if s.HC != "" {
		names = append(names, s.HC)
	}
	if i < len(names) {
		return names[i]
	}
	if s.Var != "" {
		return s.Var
	}
	return ""
}

// paramTypeAt is the type an argument at position i meets (nil beyond the last parameter).
func (s Sig) paramTypeAt(i int) reflect.Type {
	types, _ := s.params()
	if i < len(types) {
		return types[i]
	}
	if s.Var != "" {
		return varElemTypes[s.Var]
	}
	return nil
}

func allWrapped(n int) uint { return (1 << uint(n)) - 1 }

type tail struct{ m, h, v string }

// extTails adds a variadic tail whose element type is a non-empty interface (slot matrix and random phases).
var extTails = append(append([]tail{}, tails...), tail{v: "stringer"})

var tails = []tail{{}, {m: "map"}, {m: "hmap"}, {h: "struct"}, {h: "iface"}, {m: "map", h: "struct"}, {m: "hmap", h: "iface"},
	{m: "map", h: "iface"}, {m: "hmap", h: "struct"}, {v: "int"}, {v: "string"}, {v: "any"}}

type resT struct{ res, rt string }

var allRes = []resT{{"()", ""}, {"(T)", "string"}, {"(T)", "int"}, {"(T)", "any"}, {"(T,nil)", "string"}, {"(T,nil)", "int"}, {"(T,nil)", "any"},
	{"(T,err)", "string"}, {"(T,err)", "int"}, {"(T,err)", "any"}, {"(nil)", ""}, {"(err)", ""},
	{"(T)", "anyerr"}, {"(T,nil)", "anyerr"}, {"(T,err)", "anyerr"},
	{"(T)", "zint"}, {"(T)", "zstr"}, {"(T)", "nilany"}, {"(T,nil)", "zint"}, {"(T,nil)", "zstr"}, {"(T,nil)", "nilany"}}

// E1: one parameter slot x every argument kind
func slotMatrix() []Case {
	var out []Case
	anyN := func(n int) []string {
		var s []string
		for i := 0; i < n; i++ {
			s = append(s, "any")
		}
		return s
	}
	ints := func(n int) []string {
		var s []string
		for i := 0; i < n; i++ {
			s = append(s, "int")
		}
		return s
	}
	emit := func(s Sig, pre []string) {
		for _, k := range argKinds {
			args := append(append([]string{}, pre...), k)
			for _, blk := range []bool{false, true} {
				for _, w := range []uint{0, allWrapped(len(args))} {
					out = append(out, Case{Sig: s, Args: args, Wrap: w, Block: blk})
				}
			}
		}
	}
	for p := 0; p < 3; p++ {
		for _, f := range allFixedNames {
			emit(Sig{Fixed: append(anyN(p), f), Res: "(T)", RT: "string"}, ints(p))
		}
		for _, m := range []string{"map", "hmap"} {
			emit(Sig{Fixed: anyN(p), Map: m, Res: "(T)", RT: "string"}, ints(p))
		}
		for _, h := range []string{"struct", "iface"} {
			emit(Sig{Fixed: anyN(p), HC: h, Res: "(T)", RT: "string"}, ints(p))
		}
	}
	for _, v := range []string{"int", "string", "any", "stringer"} {
		for p := 0; p < 2; p++ {
			for j := 0; j < 3; j++ {
				pre := ints(p)
				for t := 0; t < j; t++ {
					pre = append(pre, canon[v][t%2])
				}
				emit(Sig{Fixed: anyN(p), Var: v, Res: "(T)", RT: "string"}, pre)
			}
		}
	}
	return out
}

// E2: arity matrix with well-typed arguments
func arityMatrix(rots int) []Case {
	var out []Case
	for rot := 0; rot < rots; rot++ {
		for k := 0; k <= 3; k++ {
			var fixed []string
			for j := 0; j < k; j++ {
				fixed = append(fixed, allFixedNames[(rot+2*j)%len(allFixedNames)])
			}
			for _, tl := range tails {
				for _, rs := range allRes {
					s := Sig{Fixed: fixed, Map: tl.m, HC: tl.h, Var: tl.v, Res: rs.res, RT: rs.rt}
					types, _ := s.params()
					maxN := len(types) + 1
					if tl.v != "" {
						maxN = k + 3
					}
					if maxN > maxArgs {
						maxN = maxArgs
					}
					for n := 0; n <= maxN; n++ {
						var args []string
						for i := 0; i < n; i++ {
							name := s.paramNameAt(i)
							if name == "" {
								args = append(args, "int")
								continue
							}
							cs := canon[name]
							args = append(args, cs[(i+rot)%len(cs)])
						}
						for _, blk := range []bool{false, true} {
							for _, w := range []uint{0, allWrapped(n)} {
								if n == 0 && w != 0 {
									continue
								}
								out = append(out, Case{Sig: s, Args: args, Wrap: w, Block: blk})
							}
						}
					}
				}
			}
		}
	}
	return out
}

// E3: full product of small signatures and small calls
type product struct {
	sigs  []Sig
	kinds []string
	maxN  int
	calls int64 // number of argument lists of length 0..maxN
	both  bool  // with and without block for every cell (otherwise the block alternates with the index)
}

func newProduct(maxFixed, maxN int) *product {
	p := &product{kinds: coreArgKinds, maxN: maxN}
	var lists [][]string
	lists = append(lists, nil)
	prev := [][]string{nil}
	for k := 1; k <= maxFixed; k++ {
		var next [][]string
		for _, l := range prev {
			for _, f := range fixedNames {
				next = append(next, append(append([]string{}, l...), f))
			}
		}
		lists = append(lists, next...)
		prev = next
	}
	for _, l := range lists {
		for _, tl := range tails {
			p.sigs = append(p.sigs, Sig{Fixed: l, Map: tl.m, HC: tl.h, Var: tl.v, Res: "(T)", RT: "string"})
		}
	}
	pow := int64(1)
	for n := 0; n <= maxN; n++ {
		p.calls += pow
		pow *= int64(len(p.kinds))
	}
	return p
}

func (p *product) size() int64 {
	if p.both {
		return int64(len(p.sigs)) * p.calls * 2
	}
	return int64(len(p.sigs)) * p.calls
}

func (p *product) at(i int64) Case {
	blk := i%2 == 1
	if p.both {
		i /= 2
	}
	ci := i % p.calls
	si := i / p.calls
	n := 0
	pow := int64(1)
	for ci >= pow {
		ci -= pow
		pow *= int64(len(p.kinds))
		n++
	}
	args := make([]string, n)
	for j := 0; j < n; j++ {
		args[j] = p.kinds[ci%int64(len(p.kinds))]
		ci /= int64(len(p.kinds))
	}
	w := allWrapped(n)
	if (i+si)%3 == 0 {
		w = 0
	}
	return Case{Sig: p.sigs[si], Args: args, Wrap: w, Block: blk}
}

func genCase(t *rapid.T, fit map[string][]string) Case {
	s := genSig(t)
	k := len(s.Fixed)
	types, _ := s.params()
	lo, hi := k, len(types)
	if s.Var != "" {
		hi = k + 3
	}
	if rapid.IntRange(0, 5).Draw(t, "arity-class") == 0 { // sometimes too few / too many
		lo, hi = 0, hi+1
	}
	if hi > maxArgs {
		hi = maxArgs
	}
	n := rapid.IntRange(lo, hi).Draw(t, "n")
	c := Case{Sig: s, Block: rapid.Bool().Draw(t, "block")}
	for i := 0; i < n; i++ {
		name := s.paramNameAt(i)
		if name != "" && rapid.IntRange(0, 3).Draw(t, "fitting") != 0 {
			c.Args = append(c.Args, rapid.SampledFrom(fit[name]).Draw(t, "arg"))
		} else {
			c.Args = append(c.Args, rapid.SampledFrom(argKinds).Draw(t, "arg"))
		}
	}
	c.Wrap = uint(rapid.IntRange(0, int(allWrapped(n))).Draw(t, "wrap"))
	if rapid.IntRange(0, 2).Draw(t, "routed") == 0 {
		c.Route = rapid.SampledFrom(routes[:4]).Draw(t, "route")
	}
	if rapid.IntRange(0, 2).Draw(t, "used") == 0 {
		c.Use = rapid.SampledFrom(uses).Draw(t, "use")
		if c.Use == "let" && (!strings.Contains(s.Res, "T") || s.RT == "nilany") {
			c.Use = "cap"
		}
		if (c.Use == "if" || c.Use == "not" || c.Use == "or" || c.Use == "for") && c.Block {
			c.Use = ""
		}
	}
	return c
}

// E4: every route to the function x every use of the call's value, over the twelve signatures that also exist as
// methods: 0..N+1 well-typed arguments, and every argument slot once with every core argument kind.
func routeMatrix() []Case {
	var out []Case
	for _, ms := range methSigs {
		s := ms.sig
		types, _ := s.params()
		maxN := len(types) + 1
		if s.Var != "" {
			maxN = len(s.Fixed) + 2
		}
		var lists [][]string
		for n := 0; n <= maxN; n++ {
			var args []string
			for i := 0; i < n; i++ {
				name := s.paramNameAt(i)
				if name == "" {
					args = append(args, "int")
					continue
				}
				args = append(args, canon[name][(i+n)%len(canon[name])])
			}
			lists = append(lists, args)
			if n > 0 && n < maxN || s.Var != "" && n > 0 {
				for _, k := range coreArgKinds { // the last slot with every kind
					lists = append(lists, append(append([]string{}, args[:n-1]...), k))
				}
			}
		}
		for _, route := range routes {
			for _, use := range uses {
				if use == "let" && !strings.Contains(s.Res, "T") {
					continue
				}
				for li, args := range lists {
					for _, blk := range []bool{false, true} {
						if blk && (use == "if" || use == "not" || use == "or" || use == "for") {
							continue
						}
						w := allWrapped(len(args))
						if (li+len(out))%3 == 0 {
							w = 0
						}
						out = append(out, Case{Sig: s, Args: args, Wrap: w, Block: blk, Route: route, Use: use})
					}
				}
			}
		}
	}
	return out
}

// ---- the test ---------------------------------------------------------------------------

const rule = "Signatures: 0-3 fixed parameters from {string,int,float64,bool,interface{},*T,[]int} (core; the slot matrix, the arity matrix and the random phases add fmt.Stringer, error, int64, a named string type, []interface{}, a struct by value, func(int) int), then optionally a trailing options map (map[string]interface{} | hctx.Map) and/or a helper context (plush.HelperContext struct | hctx.HelperContext interface), or a variadic tail (...int|...string|...interface{}|...fmt.Stringer); results (), (T), (T,error) and (error) with nil and non-nil error, T in {string,int,interface{}} returning a fixed non-zero value, plus T returning the zero value (0, the empty string, a nil interface{}) and interface{} returning an ERROR VALUE (generated but not asserted: whether that is the call's value or a failing call is not settled by the statement - excluded class any-result-holding-error). The function is built with reflect.MakeFunc (twelve signatures also exist as hand-written methods) and records every invocation (received values, HasBlock(), Block() called twice). Calls: 0-6 arguments from {string, int, float, true, false, nil, hash literal, array literal, context variables: string, int, float64, bool, *T, typed nil *T, []int, int8, named string, hctx.Map} (core) plus {typed nil map, typed nil slice, error value, fmt.Stringer, struct value, []interface{}, func value, int64, template.HTML, uint, and the expressions a + b, string + string, a == b, !false, slice[i], pointer.Field, map[key], (n)}, literal values depend on the position; each argument optionally wrapped in an order-recording identity helper; with and without a block. ROUTES to the function: by name, through a pointer to the func, as element of a slice (tgtFnArr[1](...), decoys around it), as value of a map, as method through a pointer and through a struct value held in the context, as the last call of a chain (tgtFnRec.Self().Self().M(..)) and as a method of an indexed element (tgtFnRecs[1].M(..)). USES of the call's value: emitted, silent tag (must emit nothing), let then emitted by a later tag, argument of a recording helper (the TYPED first result must arrive), and three places where an unknown identifier would be forgiven - condition of an if, operand of !, operand of || - where a function's error fails the render all the same, and as the ITERABLE of a for loop (the braces that follow are the loop's body: the call is bound without a block) (the errors returned wrap an unknown-identifier error, as a helper that rendered a snippet returns). (E1) every parameter slot type (fixed at positions 0-2, options map, helper context, variadic element 0-2) x every argument kind x block x wrapped/unwrapped; (E2) arity matrix: 0-3 fixed x 12 tails x 21 result shapes x 0..N+1 well-typed arguments x block x wrapped/unwrapped, parameter types rotated; (E4) 12 method signatures x 6 routes x 4 uses x (0..N+1 well-typed arguments + last slot with every core kind) x block; (E5) 21 result shapes x 4 uses x 3 tails x block; (E3) full product of all signatures with <= K core fixed parameters x 12 tails with all calls of <= n arguments of the 18 core kinds x block; (R) random signature x call x route x use, arguments biased to fit. Oracle = reference binder from the statement: invoked exactly once with exactly the supplied values in order (nil => zero value, omitted trailing map => a map that is empty at the moment of the call, and the recorder writes an entry into every empty map it receives, as option-defaulting helpers do, omitted helper context => HasBlock()==block given and Block() renders the block, both times it is called, variadic gets the rest), or not invoked and an error containing the function (method) name (too many arguments / not assignable); first result is the value; non-nil error => errors.Is. Arguments evaluated at most once, left to right, on every path; exactly once on success. Unspecified (not asserted beyond evaluation order): fewer arguments than fixed parameters. Non-trivial = specified and (at least one argument or an auto-supplied parameter). Distinct by signature + template. SEQUENCES: one call site tgtFn(ARGS) is executed 2-3 times within one render, the callee resolving to a recording function of a different signature each time (loop: for (tgtFn) in fns; let: for (i) in idx { let tgtFn = fns[i] }; ufn: the site sits in a template-defined function called again after tgtFn is reassigned). The reference binder is applied to every execution independently against the chronological log of wrapper evaluations and invocations: everything up to the first execution that must fail (or returns a non-nil error) must have happened exactly, nothing after it; a sequence stops being judged at the first unspecified execution. (S1) all ordered pairs of signatures (<= 1 fixed parameter x 12 tails) x all calls of <= 2 arguments of a reduced kind set; (S2) ordered pairs over 0-K fixed x 12 tails x 4 result shapes with arguments well typed for either member; (SR) random 2-3 signatures. Sequence cases are non-trivial when the function types differ. TREES: one template with SEVERAL calls of 2-4 recording functions: one after the other (each with its own block, then again without), a call as an argument of a call (the outer receives the inner's typed first result; a block belongs to the call it follows), calls inside the block of a call (three levels), the body optionally inside for (x) in xs with blocks and arguments showing x, that loop optionally entered several times from an outer loop, and four loops of 550-1100 iterations. A reference walk lists the invocations that must happen, in order (arguments, then the block twice, then the call itself), each judged by the reference binder; the walk stops at the first call that must fail (binder error: the error names it; error result: errors.Is) and nothing may happen after it; output = texts + first results. Not judged: a call that fails in the binder while it has calls among its arguments (which arguments are evaluated then is not stated), a failure inside a block (the recorder swallows Block()'s error). (T1) ordered pairs of 10 signatures x 12 shapes; (TR) random trees. Tree cases are always non-trivial."

func setup(t *testing.T) *vk.Run {
	r := vk.Start(t, "C12", rule,
		"the values of literals are those of the language (string, int, float64, bool, nil, map[string]interface{}, []interface{}); for wrapped arguments this is additionally confirmed by what the identity helper received",
		"assignable means reflect's AssignableTo on the dynamic type of the argument value",
		"the order-recording identity helpers are themselves Go helpers func(interface{}) interface{} called through the mechanism under test; every space is therefore also run with unwrapped arguments",
		"a result DECLARED interface{} whose value happens to be an error is shape (T): the statement's 'non-nil trailing error result' is a result of type error (shapes (T, error) and (error))",
		"the values of the expression arguments (a + b, a == b, !false, slice[i], pointer.Field, map[key]) are those of the language (C06, C11)",
		"a silent tag emits nothing (C02); a block renders its text and the values it emits, inside a loop with the loop variable of the current iteration (C08, C09)")
	for _, ms := range methSigs { // harness self-test: the hand-written methods have the signatures the table says
		m, ok := reflect.TypeOf(&methRec{}).MethodByName(ms.name)
		want := ms.sig.funcType()
		if !ok || m.Type.NumIn() != want.NumIn()+1 || m.Type.NumOut() != want.NumOut() || m.Type.IsVariadic() != want.IsVariadic() {
			panic("harness: method table out of step with the methods: " + ms.name)
		}
		for i := 0; i < want.NumIn(); i++ {
			if m.Type.In(i+1) != want.In(i) {
				panic("harness: method table out of step with the methods: " + ms.name)
			}
		}
		for i := 0; i < want.NumOut(); i++ {
			if m.Type.Out(i) != want.Out(i) {
				panic("harness: method table out of step with the methods: " + ms.name)
			}
		}
	}
	r.Replayer("call", func(raw json.RawMessage) *vk.Fail {
		var c Case
		if f := vk.Decode(raw, &c); f != nil {
			return f
		}
		return checkCase(r, c)
	})
	r.Replayer("seq", func(raw json.RawMessage) *vk.Fail {
		var c SeqCase
		if f := vk.Decode(raw, &c); f != nil {
			return f
		}
		return checkSeq(r, c)
	})
	r.Replayer("tree", func(raw json.RawMessage) *vk.Fail {
		var c TreeCase
		if f := vk.Decode(raw, &c); f != nil {
			return f
		}
		return checkTree(r, c)
	})
	return r
}

func TestReplay(t *testing.T) { setup(t).ReplayEnv() }

// regressions: witnesses of fixed findings (AF-20: nil in variadic position) and hand-picked corner calls
var regressions = []Case{
	{Sig: Sig{Var: "any", Res: "(T)", RT: "string"}, Args: []string{"nil"}},
	{Sig: Sig{Var: "string", Res: "(T)", RT: "string"}, Args: []string{"str", "nil"}},
	{Sig: Sig{Fixed: []string{"int"}, Var: "int", Res: "(T)", RT: "string"}, Args: []string{"int", "nil", "int"}, Wrap: 7},
	{Sig: Sig{Fixed: []string{"any"}, Map: "hmap", HC: "iface", Res: "(T,nil)", RT: "string"}, Args: []string{"array"}, Wrap: 1, Block: true},
	{Sig: Sig{Fixed: []string{"string"}, Map: "map", HC: "struct", Res: "(T,err)", RT: "int"}, Args: []string{"str"}, Block: true},
	{Sig: Sig{Map: "map", HC: "iface", Res: "(T)", RT: "any"}, Args: []string{"nil", "nil"}},
}

// hand-picked sequences: the second function needs something the first does not
var seqRegressions = []SeqCase{
	{Sigs: []Sig{{Fixed: []string{"string"}, Res: "(T)", RT: "string"}, {Fixed: []string{"string"}, Map: "map", HC: "struct", Res: "(T)", RT: "string"}}, Args: []string{"str"}, Wrap: 1, Block: true, Mode: "loop"},
	{Sigs: []Sig{{Fixed: []string{"string"}, Res: "(T)", RT: "string"}, {Fixed: []string{"ptr"}, Res: "(T)", RT: "string"}}, Args: []string{"nil"}, Mode: "let"},
	{Sigs: []Sig{{Fixed: []string{"any"}, Res: "(T)", RT: "string"}, {Fixed: []string{"int"}, Res: "(T)", RT: "string"}, {Var: "any", Res: "(T)", RT: "string"}}, Args: []string{"str"}, Wrap: 1, Mode: "ufn"},
	{Sigs: []Sig{{Var: "any", Res: "(T)", RT: "string"}, {Fixed: []string{"int"}, HC: "iface", Res: "(T,nil)", RT: "int"}}, Args: []string{"int"}, Block: true, Mode: "loop"},
}

func TestProp(t *testing.T) {
	r := setup(t)
	defer r.Finish()
	r.ReplayCommitted()

	for _, c := range regressions {
		r.Check(checkCase(r, c))
	}

	run := func(name string, cases []Case) {
		r.Subspace(name, int64(len(cases)), true)
		r.Parallel(int64(len(cases)), 0, func(i int64) { r.Check(limited(r, cases[i].inOpenClass(), checkCase(r, cases[i]))) })
	}
	var useCases []Case
	for _, rs := range allRes {
		for _, use := range uses {
			for _, tl := range []tail{{}, {h: "iface"}, {v: "any"}} {
				for _, blk := range []bool{false, true} {
					c := Case{Sig: Sig{Fixed: []string{"any"}, HC: tl.h, Var: tl.v, Res: rs.res, RT: rs.rt}, Args: []string{"int"}, Wrap: uint(len(useCases) % 2), Block: blk, Use: use}
					if c.validate() == "" {
						useCases = append(useCases, c)
					}
				}
			}
		}
	}
	run("E5 use matrix: 21 result shapes (incl. results whose value is 0, the empty string, nil, an error value held in interface{}) x 4 uses of the call's value x 3 tails x block", useCases)

	run("E1 slot matrix: 78 parameter slots (14 fixed types x positions 0-2, 2 map types x 3, 2 helper-context types x 3, 4 variadic element types x 0-1 fixed x tail index 0-2) x 36 argument kinds x block x wrapped/unwrapped", slotMatrix())
	rots := r.Pick(3, 14)
	run(fmt.Sprintf("E2 arity matrix: 0-3 fixed parameters (%d type rotations) x 12 tails x 21 result shapes x 0..N+1 well-typed arguments x block x wrapped/unwrapped", rots), arityMatrix(rots))

	run("E4 route matrix: 12 signatures that also exist as methods x 6 routes to the function (name, pointer to func, slice element, map value, method through pointer, method through struct value) x 4 uses of the value (emitted, silent tag, let then emitted, argument of a recording helper) x (0..N+1 well-typed arguments + last slot with every core kind) x block", routeMatrix())

	p := newProduct(2, r.Pick(2, 3))
	p.both = r.Thorough()
	r.Subspace(fmt.Sprintf("E3 product: %d signatures (<= %d fixed parameters x 12 tails) x %d calls (<= %d arguments of 18 kinds), block: %s; wrapped except every third", len(p.sigs), 2, p.calls, p.maxN, map[bool]string{true: "both", false: "alternating with the index"}[p.both]), p.size(), true)
	r.Parallel(p.size(), 0, func(i int64) {
		c := p.at(i)
		r.Check(limited(r, c.inOpenClass(), checkCase(r, c)))
	})

	fit := map[string][]string{}
	for name, ty := range fixedTypes {
		fit[name] = fittingKinds(ty)
	}
	for name, ty := range mapTypes {
		fit[name] = fittingKinds(ty)
	}
	for name, ty := range hcTypes {
		fit[name] = fittingKinds(ty)
	}
	skips := atomic.LoadInt64(&openReported) >= openLimit
	r.Rapid("random", r.Pick(6000, 60000), func(t *rapid.T) *vk.Fail {
		c := genCase(t, fit)
		if skipOpen(r, c.inOpenClass(), skips) {
			return nil
		}
		return checkCase(r, c)
	})

	// one call site executed for several functions of different signatures within one render
	for _, sc := range seqRegressions {
		r.Check(checkSeq(r, sc))
	}
	var sp *seqProduct
	if r.Quick() {
		sp = newSeqProduct([]string{"string", "any", "ptr"}, []string{"str", "int", "nil", "hash", "cvPtr", "cvHMap"}, 2, 1)
	} else {
		sp = newSeqProduct(fixedNames, []string{"str", "int", "float", "nil", "hash", "array", "cvPtr", "cvNilPtr", "cvHMap", "cvMyStr"}, 2, 2)
	}
	r.Subspace(fmt.Sprintf("S1 one call site, two functions: %d x %d ordered signature pairs (<= 1 fixed parameter of %d types x 12 tails) x %d calls (<= %d arguments of %d kinds) x block (%d); modes loop/let/ufn and wrapped/unwrapped by index",
		len(sp.sigs), len(sp.sigs), (len(sp.sigs)/12)-1, sp.calls, sp.maxN, len(sp.kinds), sp.blocks), sp.size(), true)
	r.Parallel(sp.size(), 0, func(i int64) {
		sc := sp.at(i)
		r.Check(limited(r, sc.inOpenClass(), checkSeq(r, sc)))
	})
	sa := seqArity(r.Pick(1, 2))
	r.Subspace(fmt.Sprintf("S2 one call site, two functions: ordered pairs of signatures (0-%d fixed x 12 tails x 4 result shapes) x well-typed argument lists for either member; modes, block, wrapping by index", r.Pick(1, 2)), int64(len(sa)), true)
	r.Parallel(int64(len(sa)), 0, func(i int64) { r.Check(limited(r, sa[i].inOpenClass(), checkSeq(r, sa[i]))) })
	skips = atomic.LoadInt64(&openReported) >= openLimit
	r.Rapid("sequences", r.Pick(6000, 60000), func(t *rapid.T) *vk.Fail {
		sc := genSeq(t, fit)
		if skipOpen(r, sc.inOpenClass(), skips) {
			return nil
		}
		return checkSeq(r, sc)
	})

	// several call sites in one template: in sequence, nested as arguments, nested in blocks, in a loop
	var trees []TreeCase
	for rot := 0; rot < r.Pick(1, 3); rot++ {
		for _, a := range treePool {
			for _, b := range treePool {
				trees = append(trees, treeShapes(a, b, rot)...)
			}
		}
	}
	r.Subspace(fmt.Sprintf("T1 several call sites: %d x %d ordered signature pairs x 12 shapes (two sites with their own blocks then again without, a call as first / last argument of a call with a block, a call with a block as argument of a call with another block, a call in the block of a call, three levels of blocks, loops whose blocks and arguments show the loop variable, such a loop entered twice from an outer loop) x %d argument rotations", len(treePool), len(treePool), r.Pick(1, 3)), int64(len(trees)), true)
	r.Parallel(int64(len(trees)), 0, func(i int64) { r.Check(checkTree(r, trees[i])) })
	// many calls within ONE render: whatever is kept per render must not run out or pile up
	for _, tc := range longTrees() {
		r.Check(checkTree(r, tc))
	}
	r.Rapid("trees", r.Pick(6000, 40000), func(t *rapid.T) *vk.Fail { return checkTree(r, genTree(t, fit)) })
}
