// C12 — Go helpers receive exactly the supplied arguments, in order, or are not called.
//
// A helper of a generated signature is built with reflect.FuncOf/MakeFunc so that every invocation is recorded.
// The reference binder below is written from the property statement: it says, for a signature and a call, whether
// the function must be invoked (and with which values), must not be invoked (error naming the call), or whether the
// statement is silent (too few arguments for the fixed parameters).
package c12

import (
	"encoding/json"
	"errors"
	"fmt"
	"reflect"
	"strings"
	"testing"

	"verif/internal/vk"

	plush "github.com/gobuffalo/plush/v5"
	"github.com/gobuffalo/plush/v5/helpers/hctx"
	"pgregory.net/rapid"
)

func TestMain(m *testing.M) { vk.Main(m) }

// fname is the name under which the recorded function is called. It is not a substring of any other name or
// literal used in the generated templates, so "the error names the call" can be tested by containment.
const fname = "tgtFn"

const maxArgs = 6

// T is the pointee of the *T parameter type.
type T struct{ N int }

type myStr string

type sentinelErr struct{ id int }

func (s *sentinelErr) Error() string { return "c12-sentinel-error" }

var (
	tAny      = reflect.TypeOf((*interface{})(nil)).Elem()
	tErr      = reflect.TypeOf((*error)(nil)).Elem()
	tHCStruct = reflect.TypeOf(plush.HelperContext{})
	tHCIface  = reflect.TypeOf((*hctx.HelperContext)(nil)).Elem()
)

var fixedNames = []string{"string", "int", "float64", "bool", "any", "ptr", "ints"}

var fixedTypes = map[string]reflect.Type{
	"string": reflect.TypeOf(""), "int": reflect.TypeOf(0), "float64": reflect.TypeOf(0.0), "bool": reflect.TypeOf(false),
	"any": tAny, "ptr": reflect.TypeOf((*T)(nil)), "ints": reflect.TypeOf([]int(nil)),
}

var mapTypes = map[string]reflect.Type{"map": reflect.TypeOf(map[string]interface{}(nil)), "hmap": reflect.TypeOf(hctx.Map(nil))}
var hcTypes = map[string]reflect.Type{"struct": tHCStruct, "iface": tHCIface}
var varElemTypes = map[string]reflect.Type{"int": fixedTypes["int"], "string": fixedTypes["string"], "any": tAny}

var resShapes = []string{"()", "(T)", "(T,nil)", "(T,err)", "(nil)", "(err)"}
var resTypes = []string{"string", "int", "any"}

// Sig describes one helper signature of the family.
type Sig struct {
	Fixed []string `json:"fixed"`         // names from fixedNames
	Map   string   `json:"map,omitempty"` // "", "map" (map[string]interface{}), "hmap" (hctx.Map)
	HC    string   `json:"hc,omitempty"`  // "", "struct" (plush.HelperContext), "iface" (hctx.HelperContext)
	Var   string   `json:"var,omitempty"` // "", "int", "string", "any": element type of the variadic tail
	Res   string   `json:"res"`           // one of resShapes
	RT    string   `json:"rt,omitempty"`  // result type T: string | int | any
}

func (s Sig) validate() string {
	if len(s.Fixed) > 4 {
		return "too many fixed parameters"
	}
	for _, f := range s.Fixed {
		if fixedTypes[f] == nil {
			return "unknown fixed type " + f
		}
	}
	if s.Map != "" && mapTypes[s.Map] == nil {
		return "unknown map type"
	}
	if s.HC != "" && hcTypes[s.HC] == nil {
		return "unknown helper context type"
	}
	if s.Var != "" && (varElemTypes[s.Var] == nil || s.Map != "" || s.HC != "") {
		return "bad variadic tail"
	}
	ok := false
	for _, x := range resShapes {
		ok = ok || x == s.Res
	}
	if !ok {
		return "unknown result shape"
	}
	if strings.Contains(s.Res, "T") && s.RT != "string" && s.RT != "int" && s.RT != "any" {
		return "unknown result type"
	}
	return ""
}

// params returns the non-variadic parameter types and their roles ("fixed", "map", "hc").
func (s Sig) params() (types []reflect.Type, roles []string) {
	for _, f := range s.Fixed {
		types = append(types, fixedTypes[f])
		roles = append(roles, "fixed")
	}
	if s.Map != "" {
		types = append(types, mapTypes[s.Map])
		roles = append(roles, "map")
	}
	if s.HC != "" {
		types = append(types, hcTypes[s.HC])
		roles = append(roles, "hc")
	}
	return
}

func (s Sig) funcType() reflect.Type {
	in, _ := s.params()
	if s.Var != "" {
		in = append(in, reflect.SliceOf(varElemTypes[s.Var]))
	}
	var out []reflect.Type
	if strings.Contains(s.Res, "T") {
		out = append(out, map[string]reflect.Type{"string": fixedTypes["string"], "int": fixedTypes["int"], "any": tAny}[s.RT])
	}
	if strings.Contains(s.Res, "nil") || strings.Contains(s.Res, "err") {
		out = append(out, tErr)
	}
	return reflect.FuncOf(in, out, s.Var != "")
}

func (s Sig) String() string {
	ps := append([]string{}, s.Fixed...)
	if s.Map != "" {
		ps = append(ps, "opts:"+s.Map)
	}
	if s.HC != "" {
		ps = append(ps, "hc:"+s.HC)
	}
	if s.Var != "" {
		ps = append(ps, "..."+s.Var)
	}
	return "func(" + strings.Join(ps, ", ") + ") " + strings.Replace(s.Res, "T", s.RT, 1)
}

// ---- arguments ------------------------------------------------------------------

// argKinds are the ways an argument can be spelled in the call. Literal values depend on the position so that
// exchanged arguments are visible.
var argKinds = []string{"str", "int", "float", "true", "false", "nil", "hash", "array",
	"cvStr", "cvInt", "cvFloat", "cvBool", "cvPtr", "cvNilPtr", "cvInts", "cvI8", "cvMyStr", "cvHMap"}

var argKindSet = func() map[string]bool {
	m := map[string]bool{}
	for _, k := range argKinds {
		m[k] = true
	}
	return m
}()

func argSource(kind string, pos int) string {
	switch kind {
	case "str":
		return fmt.Sprintf(`"s%d"`, pos)
	case "int":
		return fmt.Sprint(10 + pos)
	case "float":
		return fmt.Sprintf("%d.5", pos)
	case "hash":
		return fmt.Sprintf("{a: %d}", pos)
	case "array":
		return fmt.Sprintf(`[%d, "z"]`, pos)
	}
	return kind // true false nil cvXxx
}

// env is the fresh world of one render: context data, recorders.
type env struct {
	sigs      []Sig // the recording target functions (one for a plain case, 2-3 for a sequence case)
	ptr       *T
	ints      []int
	hmap      hctx.Map
	sentinel  error                  // == sentinels[0]
	sentinels []error                // one per target
	evals     []int                  // argument positions in the order their wrappers ran
	seen      [maxArgs][]interface{} // what each wrapper received
	calls     []invocation           // invocations of the functions under test
	log       []event                // wrapper evaluations and invocations in the order they happened
	harness   interface{}            // a panic inside the recorder itself
	data      map[string]interface{}
}

// event is one entry of the chronological log: an argument wrapper ran (call < 0) or a target was invoked.
type event struct {
	pos  int         // wrapper: argument position
	v    interface{} // wrapper: value received
	call int         // index into env.calls, -1 for a wrapper event
}

func (ev event) String() string {
	if ev.call < 0 {
		return fmt.Sprintf("w%d", ev.pos)
	}
	return fmt.Sprintf("call#%d", ev.call)
}

type got struct {
	v        interface{}
	zero     bool
	hcSeen   bool
	hasBlock bool
	block    vk.Res
	mapLen   int // role "map": number of entries AT THE MOMENT OF THE CALL
}

type invocation struct {
	tgt      int // which target function
	fixed    []got
	variadic []got
}

func (e *env) argValue(kind string, pos int) interface{} {
	switch kind {
	case "str":
		return fmt.Sprintf("s%d", pos)
	case "int":
		return 10 + pos
	case "float":
		return float64(pos) + 0.5
	case "true":
		return true
	case "false":
		return false
	case "nil":
		return nil
	case "hash":
		return map[string]interface{}{"a": pos}
	case "array":
		return []interface{}{pos, "z"}
	case "cvStr":
		return "cv"
	case "cvInt":
		return 77
	case "cvFloat":
		return 2.25
	case "cvBool":
		return true
	case "cvPtr":
		return e.ptr
	case "cvNilPtr":
		return (*T)(nil)
	case "cvInts":
		return e.ints
	case "cvI8":
		return int8(8)
	case "cvMyStr":
		return myStr("m")
	case "cvHMap":
		return e.hmap
	}
	panic("harness: unknown argument kind " + kind)
}

func newEnv(c Case) *env { return newEnvSigs([]Sig{c.Sig}) }

func newEnvSigs(sigs []Sig) *env {
	e := &env{sigs: sigs, ptr: &T{N: 3}, ints: []int{4, 5}, hmap: hctx.Map{"k": 1}}
	for j := range sigs {
		e.sentinels = append(e.sentinels, &sentinelErr{id: j})
	}
	e.sentinel = e.sentinels[0]
	d := map[string]interface{}{"cvBlk": "7"}
	for _, k := range argKinds {
		if strings.HasPrefix(k, "cv") {
			d[k] = e.argValue(k, 0)
		}
	}
	for i := 0; i < maxArgs; i++ {
		i := i
		d[fmt.Sprintf("w%d", i)] = func(v interface{}) interface{} {
			e.evals = append(e.evals, i)
			e.seen[i] = append(e.seen[i], v)
			e.log = append(e.log, event{pos: i, v: v, call: -1})
			return v
		}
	}
	if len(sigs) == 1 {
		d[fname] = e.target(0)
	} else {
		// sequence cases: the one call site resolves to a different function at every execution
		var fns []interface{}
		var idx []int
		for j := range sigs {
			f := e.target(j)
			fns = append(fns, f)
			idx = append(idx, j)
			d[fmt.Sprintf("fn%d", j)] = f
		}
		d["fns"] = fns
		d["idx"] = idx
	}
	e.data = d
	return e
}

func (e *env) observe(v reflect.Value, role string) got {
	g := got{zero: v.IsZero()}
	if v.Kind() == reflect.Interface && v.IsNil() {
		g.v = nil
	} else {
		g.v = v.Interface()
	}
	if role == "map" && v.Kind() == reflect.Map && !v.IsNil() {
		g.mapLen = v.Len()
		if g.mapLen == 0 {
			// like real option-taking helpers (tag and form helpers fill in defaults), the recorder WRITES into
			// an empty options map it was given: that map is its own, no later call may see the entry
			v.SetMapIndex(reflect.ValueOf("c12-default"), reflect.ValueOf(true))
		}
	}
	if role == "hc" && !g.zero {
		h, ok := g.v.(hctx.HelperContext)
		if !ok {
			return g
		}
		g.hcSeen = true
		// calls into the code under test are guarded separately so that a panic there is not taken for a harness defect
		r := vk.Safe(func() (string, error) {
			g.hasBlock = h.HasBlock()
			return "", nil
		})
		if r.Panicked() {
			g.block = r
			return g
		}
		if g.hasBlock {
			g.block = vk.Safe(h.Block)
		}
	}
	return g
}

// target builds the recording function of the case's signature.
func (e *env) target(tgt int) interface{} {
	s := e.sigs[tgt]
	ft := s.funcType()
	_, roles := s.params()
	fn := reflect.MakeFunc(ft, func(in []reflect.Value) (out []reflect.Value) {
		defer func() {
			if p := recover(); p != nil {
				e.harness = p
				panic(p)
			}
		}()
		inv := invocation{tgt: tgt}
		for i, v := range in {
			if s.Var != "" && i == len(in)-1 {
				for j := 0; j < v.Len(); j++ {
					inv.variadic = append(inv.variadic, e.observe(v.Index(j), "variadic"))
				}
				continue
			}
			inv.fixed = append(inv.fixed, e.observe(v, roles[i]))
		}
		e.calls = append(e.calls, inv)
		e.log = append(e.log, event{call: len(e.calls) - 1})
		if strings.Contains(s.Res, "T") {
			switch s.RT {
			case "string":
				out = append(out, reflect.ValueOf(s.resultTextOf(tgt)))
			case "int":
				out = append(out, reflect.ValueOf(4242+tgt))
			default:
				rv := reflect.New(tAny).Elem()
				rv.Set(reflect.ValueOf(s.resultTextOf(tgt)))
				out = append(out, rv)
			}
		}
		if strings.Contains(s.Res, "nil") {
			out = append(out, reflect.Zero(tErr))
		} else if strings.Contains(s.Res, "err") {
			ev := reflect.New(tErr).Elem()
			ev.Set(reflect.ValueOf(e.sentinels[tgt]))
			out = append(out, ev)
		}
		return out
	})
	return fn.Interface()
}

func (s Sig) resultText() string { return s.resultTextOf(0) }

// resultTextOf is what target number tgt returns as its first result (distinct per target, so that the output
// shows which function produced which part).
func (s Sig) resultTextOf(tgt int) string {
	if !strings.Contains(s.Res, "T") {
		return ""
	}
	suffix := ""
	if tgt > 0 {
		suffix = fmt.Sprint(tgt)
	}
	switch s.RT {
	case "string":
		return "Rs" + suffix
	case "int":
		return fmt.Sprint(4242 + tgt)
	}
	return "Ra" + suffix
}

// ---- the case ----------------------------------------------------------------------

type Case struct {
	Sig   Sig      `json:"sig"`
	Args  []string `json:"args"`  // argument kinds
	Wrap  uint     `json:"wrap"`  // bit i set: argument i is wrapped in the order-recording identity helper w<i>
	Block bool     `json:"block"` // the call carries a block
}

const blockSrc = `B<%= cvBlk %>E`
const blockText = "B7E"

func (c Case) validate() string {
	if m := c.Sig.validate(); m != "" {
		return m
	}
	if len(c.Args) > maxArgs {
		return "too many arguments"
	}
	for _, a := range c.Args {
		if !argKindSet[a] {
			return "unknown argument kind " + a
		}
	}
	return ""
}

func (c Case) wrapped(i int) bool { return c.Wrap&(1<<uint(i)) != 0 }

func (c Case) Template() string {
	var parts []string
	for i, a := range c.Args {
		s := argSource(a, i)
		if c.wrapped(i) {
			s = fmt.Sprintf("w%d(%s)", i, s)
		}
		parts = append(parts, s)
	}
	call := fname + "(" + strings.Join(parts, ", ") + ")"
	if c.Block {
		return "[<%= " + call + " { %>" + blockSrc + "<% } %>]"
	}
	return "[<%= " + call + " %>]"
}

func (c Case) Key() string { return c.Sig.String() + " | " + c.Template() }

// ---- reference binder (from the property statement) ---------------------------------

type slotWant struct {
	mode     string // value | zero | automap | autohc
	val      interface{}
	identity bool // the received value must be the very object held by the context
	pos      int
}

type expectation struct {
	unspecified string // statement silent: reason
	errClass    string // "" | too-many | not-assignable: error naming the call, function not invoked
	fixed       []slotWant
	variadic    []slotWant
	autoMap     bool
	autoHC      bool
	nilZero     string // "", "fixed", "variadic": a nil argument became a zero value
}

// fits: nil becomes the zero value of any parameter type; otherwise the value must be assignable.
func fits(v interface{}, pt reflect.Type) bool {
	return v == nil || reflect.TypeOf(v).AssignableTo(pt)
}

func bind(c Case, e *env) expectation {
	var x expectation
	types, roles := c.Sig.params()
	k, n := len(c.Sig.Fixed), len(c.Args)
	vals := make([]interface{}, n)
	for i, a := range c.Args {
		vals[i] = e.argValue(a, i)
	}
	want := func(i int) slotWant {
		if vals[i] == nil {
			return slotWant{mode: "zero", pos: i}
		}
		return slotWant{mode: "value", val: vals[i], identity: strings.HasPrefix(c.Args[i], "cv"), pos: i}
	}
	if c.Sig.Var == "" {
		N := len(types)
		if n > N {
			x.errClass = "too-many"
			return x
		}
		for i := 0; i < n; i++ {
			if !fits(vals[i], types[i]) {
				x.errClass = "not-assignable"
				return x
			}
		}
		if n < k {
			x.unspecified = "too-few-for-fixed"
			return x
		}
		for i := 0; i < N; i++ {
			switch {
			case i < n:
				w := want(i)
				if w.mode == "zero" {
					x.nilZero = "fixed"
				}
				x.fixed = append(x.fixed, w)
			case roles[i] == "map":
				x.autoMap = true
				x.fixed = append(x.fixed, slotWant{mode: "automap", pos: i})
			case roles[i] == "hc":
				x.autoHC = true
				x.fixed = append(x.fixed, slotWant{mode: "autohc", pos: i})
			default:
				panic("harness: omitted fixed parameter reached the binder")
			}
		}
		return x
	}
	// variadic
	et := varElemTypes[c.Sig.Var]
	for i := 0; i < n; i++ {
		pt := et
		if i < k {
			pt = types[i]
		}
		if !fits(vals[i], pt) {
			x.errClass = "not-assignable"
			return x
		}
	}
	if n < k {
		x.unspecified = "too-few-for-fixed"
		return x
	}
	for i := 0; i < n; i++ {
		w := want(i)
		if i < k {
			if w.mode == "zero" {
				x.nilZero = "fixed"
			}
			x.fixed = append(x.fixed, w)
		} else {
			if w.mode == "zero" {
				x.nilZero = "variadic"
			}
			x.variadic = append(x.variadic, w)
		}
	}
	return x
}

func (x expectation) class(c Case) string {
	switch {
	case x.unspecified != "":
		return "unspecified/" + x.unspecified
	case x.errClass != "":
		return "error/" + x.errClass
	}
	s := "invoke"
	switch {
	case x.autoMap && x.autoHC:
		s += "/auto-map+hc"
	case x.autoMap:
		s += "/auto-map"
	case x.autoHC:
		s += "/auto-hc"
	case c.Sig.Var != "":
		s += fmt.Sprintf("/variadic-%d", len(x.variadic))
	default:
		s += "/plain"
	}
	if c.Sig.HC != "" {
		s += "/hc-" + c.Sig.HC
	}
	if c.Block {
		s += "/block"
	}
	if strings.Contains(c.Sig.Res, "err") {
		s += "/error-result"
	}
	return s
}

func (x expectation) describe(c Case) string {
	switch {
	case x.unspecified != "":
		return "unspecified: " + x.unspecified
	case x.errClass != "":
		return "error naming " + fname + " (" + x.errClass + "), function not invoked"
	}
	var ps []string
	for _, w := range append(append([]slotWant{}, x.fixed...), x.variadic...) {
		switch w.mode {
		case "value":
			ps = append(ps, fmt.Sprintf("%#v", w.val))
		default:
			ps = append(ps, w.mode)
		}
	}
	return "invoked once with (" + strings.Join(ps, ", ") + ")"
}

// sameValue compares a received value with the supplied one. pt is the parameter's static type.
func sameValue(want, gotv interface{}, pt reflect.Type, identity bool) string {
	if gotv == nil {
		return fmt.Sprintf("received nil, supplied %#v", want)
	}
	wv, gv := reflect.ValueOf(want), reflect.ValueOf(gotv)
	if wv.Type() != gv.Type() {
		if pt.Kind() == reflect.Interface || !wv.Type().AssignableTo(gv.Type()) {
			return fmt.Sprintf("received %#v (%T), supplied %#v (%T)", gotv, gotv, want, want)
		}
		wv = wv.Convert(gv.Type())
	}
	if !reflect.DeepEqual(wv.Interface(), gv.Interface()) {
		return fmt.Sprintf("received %#v, supplied %#v", gotv, want)
	}
	if identity {
		switch wv.Kind() {
		case reflect.Ptr, reflect.Map, reflect.Slice:
			if wv.Pointer() != gv.Pointer() {
				return fmt.Sprintf("received a different object than the one supplied (%#v)", want)
			}
		}
	}
	return ""
}

func (x expectation) compareSlot(c Case, w slotWant, g got, pt reflect.Type, where string) string {
	switch w.mode {
	case "value":
		if m := sameValue(w.val, g.v, pt, w.identity); m != "" {
			return where + ": " + m
		}
	case "zero":
		if !g.zero {
			return fmt.Sprintf("%s: nil was supplied, expected the zero value of %s, received %#v (%T)", where, pt, g.v, g.v)
		}
		if g.v != nil && reflect.TypeOf(g.v) != pt {
			return fmt.Sprintf("%s: nil was supplied, expected the zero value of %s, received %#v (%T)", where, pt, g.v, g.v)
		}
	case "automap":
		rv := reflect.ValueOf(g.v)
		if g.v == nil || rv.Kind() != reflect.Map || rv.IsNil() || g.mapLen != 0 {
			return fmt.Sprintf("%s: omitted options map must be supplied as an empty map, received %#v", where, g.v)
		}
	case "autohc":
		if !g.hcSeen {
			return fmt.Sprintf("%s: omitted helper context must be supplied, received %#v (zero=%v)", where, g.v, g.zero)
		}
		if g.block.Panicked() {
			return fmt.Sprintf("%s: using the supplied helper context panicked: %s", where, g.block)
		}
		if g.hasBlock != c.Block {
			return fmt.Sprintf("%s: helper context HasBlock() = %v, block given = %v", where, g.hasBlock, c.Block)
		}
		if c.Block && (g.block.Err != nil || g.block.Out != blockText) {
			return fmt.Sprintf("%s: helper context Block() = %s, want %q", where, g.block, blockText)
		}
	}
	return ""
}

// ---- the oracle ----------------------------------------------------------------------

func checkCase(r *vk.Run, c Case) *vk.Fail {
	if m := c.validate(); m != "" {
		return &vk.Fail{Kind: "decode", Msg: m}
	}
	defer r.Watch("call", c)()
	e := newEnv(c)
	src := c.Template()
	res := vk.Safe(func() (string, error) { return plush.Render(src, plush.NewContextWith(e.data)) })
	if e.harness != nil {
		panic(fmt.Sprintf("harness defect: the recorder panicked: %v (case %s)", e.harness, c.Key()))
	}
	x := bind(c, e)
	cls := x.class(c)
	fail := func(f string, a ...interface{}) *vk.Fail {
		return &vk.Fail{Kind: "call", Class: cls, Case: c,
			Msg: fmt.Sprintf("%s called as %s: expected %s; %s; render gave %s", c.Sig, src, x.describe(c), fmt.Sprintf(f, a...), res)}
	}

	// evaluation order: on every path each argument at most once, left to right
	last := -1
	for _, p := range e.evals {
		if p <= last {
			return fail("arguments were evaluated in the order %v (each at most once, left to right)", e.evals)
		}
		last = p
	}
	if len(e.calls) > 1 {
		return fail("the function was invoked %d times", len(e.calls))
	}

	if x.unspecified != "" {
		r.Exclude("unspecified")
		r.Count("", cls)
		return nil
	}

	nt := ""
	if len(c.Args) > 0 || x.autoMap || x.autoHC {
		nt = c.Key()
	}
	r.Count(nt, cls)
	if x.nilZero != "" {
		r.Class("nil-to-zero/" + x.nilZero)
	}
	if nt != "" {
		r.Sample(func() interface{} {
			return map[string]interface{}{"signature": c.Sig.String(), "template": src, "expected": x.describe(c), "got": res.String(), "invocations": len(e.calls)}
		})
	}

	if x.errClass != "" {
		switch {
		case res.Panicked():
			return fail("the render panicked")
		case len(e.calls) != 0:
			return fail("the function was invoked")
		case res.Err == nil:
			return fail("the render succeeded")
		case !strings.Contains(res.Err.Error(), fname):
			return fail("the error does not name the call")
		}
		return nil
	}

	// must be invoked exactly once with exactly these values
	if res.Panicked() {
		return fail("the render panicked")
	}
	if len(e.calls) != 1 {
		return fail("the function was not invoked")
	}
	var wantEvals []int
	for i := range c.Args {
		if c.wrapped(i) {
			wantEvals = append(wantEvals, i)
		}
	}
	if !reflect.DeepEqual(append([]int{}, e.evals...), append([]int{}, wantEvals...)) {
		return fail("argument evaluations %v, want each wrapped argument exactly once: %v", e.evals, wantEvals)
	}
	for _, i := range wantEvals {
		v := e.argValue(c.Args[i], i)
		seen := e.seen[i][0]
		if v == nil {
			if seen != nil {
				return fail("identity helper w%d received %#v for nil", i, seen)
			}
		} else if m := sameValue(v, seen, tAny, strings.HasPrefix(c.Args[i], "cv")); m != "" {
			return fail("identity helper w%d: %s", i, m)
		}
	}
	inv := e.calls[0]
	types, _ := c.Sig.params()
	if len(inv.fixed) != len(x.fixed) {
		panic("harness: fixed parameter count mismatch")
	}
	for i, w := range x.fixed {
		if m := x.compareSlot(c, w, inv.fixed[i], types[i], fmt.Sprintf("parameter %d", i)); m != "" {
			return fail("%s", m)
		}
	}
	if len(inv.variadic) != len(x.variadic) {
		return fail("the variadic parameter received %d values, %d were supplied", len(inv.variadic), len(x.variadic))
	}
	for j, w := range x.variadic {
		if m := x.compareSlot(c, w, inv.variadic[j], varElemTypes[c.Sig.Var], fmt.Sprintf("variadic element %d", j)); m != "" {
			return fail("%s", m)
		}
	}
	// results
	if strings.Contains(c.Sig.Res, "err") {
		if res.Err == nil {
			return fail("the function returned a non-nil error, the render must fail")
		}
		if !errors.Is(res.Err, e.sentinel) {
			return fail("the render error does not wrap the function's error")
		}
		return nil
	}
	if res.Err != nil {
		return fail("unexpected render error")
	}
	if strings.Contains(c.Sig.Res, "T") {
		if wantOut := "[" + c.Sig.resultText() + "]"; res.Out != wantOut {
			return fail("output must be %q (the first result)", wantOut)
		}
	} else if !strings.HasPrefix(res.Out, "[") || !strings.HasSuffix(res.Out, "]") {
		return fail("output lost the surrounding text")
	}
	return nil
}

// ---- one call site, several functions ------------------------------------------------------

// SeqCase executes ONE call site tgtFn(ARGS) several times within a single render, the callee resolving to a
// different recording function at each execution. The reference binder is applied to every execution on its own.
type SeqCase struct {
	Sigs  []Sig    `json:"sigs"` // 2-3 targets, in execution order
	Args  []string `json:"args"`
	Wrap  uint     `json:"wrap"`
	Block bool     `json:"block"` // not in mode "ufn"
	Mode  string   `json:"mode"`  // loop: for (tgtFn) in fns | let: for (i) in idx { let tgtFn = fns[i] } | ufn: user function called after rebinding tgtFn
}

var seqModes = []string{"loop", "let", "ufn"}

func (sc SeqCase) one(j int) Case {
	return Case{Sig: sc.Sigs[j], Args: sc.Args, Wrap: sc.Wrap, Block: sc.Block}
}

func (sc SeqCase) validate() string {
	if len(sc.Sigs) < 2 || len(sc.Sigs) > 4 {
		return "a sequence case needs 2-4 signatures"
	}
	for j := range sc.Sigs {
		if m := sc.one(j).validate(); m != "" {
			return m
		}
	}
	switch sc.Mode {
	case "loop", "let":
	case "ufn":
		if sc.Block {
			return "mode ufn has no block"
		}
	default:
		return "unknown mode"
	}
	return ""
}

func (sc SeqCase) Template() string {
	full := sc.one(0).Template() // "[<%= tgtFn(ARGS) ... %>]"
	switch sc.Mode {
	case "loop":
		return "<%= for (" + fname + ") in fns { %>" + full + "<% } %>"
	case "let":
		return "<%= for (i) in idx { %><% let " + fname + " = fns[i] %>" + full + "<% } %>"
	}
	call := strings.TrimSuffix(strings.TrimPrefix(full, "[<%= "), " %>]")
	var b strings.Builder
	b.WriteString("<% let " + fname + " = fn0 %><% let run = fn() { return " + call + " } %>[<%= run() %>]")
	for j := 1; j < len(sc.Sigs); j++ {
		fmt.Fprintf(&b, "<%% %s = fn%d %%>[<%%= run() %%>]", fname, j)
	}
	return b.String()
}

func (sc SeqCase) Key() string {
	var ss []string
	for _, s := range sc.Sigs {
		ss = append(ss, s.String())
	}
	return strings.Join(ss, " ; ") + " | " + sc.Template()
}

func checkSeq(r *vk.Run, sc SeqCase) *vk.Fail {
	if m := sc.validate(); m != "" {
		return &vk.Fail{Kind: "decode", Msg: m}
	}
	defer r.Watch("seq", sc)()
	e := newEnvSigs(sc.Sigs)
	src := sc.Template()
	res := vk.Safe(func() (string, error) { return plush.Render(src, plush.NewContextWith(e.data)) })
	if e.harness != nil {
		panic(fmt.Sprintf("harness defect: the recorder panicked: %v (case %s)", e.harness, sc.Key()))
	}
	var outcomes []string
	cls := func() string { return "seq/" + sc.Mode + "/" + strings.Join(outcomes, ",") }
	differ := false
	for j := 1; j < len(sc.Sigs); j++ {
		differ = differ || sc.Sigs[j].funcType() != sc.Sigs[0].funcType()
	}
	count := func() {
		nt := ""
		if differ {
			nt = sc.Key()
		}
		r.Count(nt, cls())
	}
	var wantOut strings.Builder
	outKnown := true
	pos := 0
	for j := range sc.Sigs {
		c := sc.one(j)
		x := bind(c, e)
		fail := func(f string, a ...interface{}) *vk.Fail {
			return &vk.Fail{Kind: "seq", Class: cls(), Case: sc,
				Msg: fmt.Sprintf("%s: execution %d of the call site resolves to %s: expected %s; %s; events %v; render gave %s", src, j, c.Sig, x.describe(c), fmt.Sprintf(f, a...), e.log, res)}
		}
		switch {
		case x.unspecified != "":
			// the statement does not say whether this execution fails or calls: nothing after it can be judged
			outcomes = append(outcomes, "unspecified")
			r.Exclude("unspecified")
			count()
			return nil
		case x.errClass != "":
			outcomes = append(outcomes, "error")
			count()
			last := -1
			for ; pos < len(e.log); pos++ {
				ev := e.log[pos]
				if ev.call >= 0 {
					return fail("a function was invoked (target %d)", e.calls[ev.call].tgt)
				}
				if ev.pos <= last {
					return fail("arguments evaluated more than once or out of order after the failing execution started")
				}
				last = ev.pos
			}
			switch {
			case res.Panicked():
				return fail("the render panicked")
			case res.Err == nil:
				return fail("the render succeeded")
			case !strings.Contains(res.Err.Error(), fname):
				return fail("the error does not name the call")
			}
			return nil
		}
		outcomes = append(outcomes, "invoke")
		for i := range c.Args {
			if !c.wrapped(i) {
				continue
			}
			if pos >= len(e.log) || e.log[pos].call >= 0 || e.log[pos].pos != i {
				count()
				return fail("argument %d must be evaluated next (event %d)", i, pos)
			}
			v := e.argValue(c.Args[i], i)
			seen := e.log[pos].v
			if v == nil {
				if seen != nil {
					count()
					return fail("identity helper w%d received %#v for nil", i, seen)
				}
			} else if m := sameValue(v, seen, tAny, strings.HasPrefix(c.Args[i], "cv")); m != "" {
				count()
				return fail("identity helper w%d: %s", i, m)
			}
			pos++
		}
		if pos >= len(e.log) || e.log[pos].call < 0 || e.calls[e.log[pos].call].tgt != j {
			count()
			return fail("function %d must be invoked next (event %d)", j, pos)
		}
		inv := e.calls[e.log[pos].call]
		pos++
		types, _ := c.Sig.params()
		if len(inv.fixed) != len(x.fixed) {
			panic("harness: fixed parameter count mismatch")
		}
		for i, w := range x.fixed {
			if m := x.compareSlot(c, w, inv.fixed[i], types[i], fmt.Sprintf("parameter %d", i)); m != "" {
				count()
				return fail("%s", m)
			}
		}
		if len(inv.variadic) != len(x.variadic) {
			count()
			return fail("the variadic parameter received %d values, %d were supplied", len(inv.variadic), len(x.variadic))
		}
		for k, w := range x.variadic {
			if m := x.compareSlot(c, w, inv.variadic[k], varElemTypes[c.Sig.Var], fmt.Sprintf("variadic element %d", k)); m != "" {
				count()
				return fail("%s", m)
			}
		}
		if strings.Contains(c.Sig.Res, "err") {
			outcomes[len(outcomes)-1] = "invoke+error-result"
			count()
			switch {
			case pos != len(e.log):
				return fail("the function returned a non-nil error, nothing may be evaluated after it")
			case res.Panicked():
				return fail("the render panicked")
			case res.Err == nil:
				return fail("the function returned a non-nil error, the render must fail")
			case !errors.Is(res.Err, e.sentinels[j]):
				return fail("the render error does not wrap the function's error")
			}
			return nil
		}
		if strings.Contains(c.Sig.Res, "T") {
			wantOut.WriteString("[" + c.Sig.resultTextOf(j) + "]")
		} else {
			outKnown = false
		}
	}
	count()
	r.Sample(func() interface{} {
		return map[string]interface{}{"signatures": sc.Key(), "template": src, "outcomes": cls(), "got": res.String(), "events": fmt.Sprint(e.log)}
	})
	fail := func(f string, a ...interface{}) *vk.Fail {
		return &vk.Fail{Kind: "seq", Class: cls(), Case: sc,
			Msg: fmt.Sprintf("%s: every execution must invoke its function; %s; events %v; render gave %s", src, fmt.Sprintf(f, a...), e.log, res)}
	}
	switch {
	case pos != len(e.log):
		return fail("%d events after the last expected one", len(e.log)-pos)
	case res.Panicked():
		return fail("the render panicked")
	case res.Err != nil:
		return fail("unexpected render error")
	case outKnown && res.Out != wantOut.String():
		return fail("output must be %q", wantOut.String())
	}
	return nil
}

// seqSigs: the signatures paired exhaustively (<= maxFixed fixed parameters of the given types x 12 tails).
func seqSigs(fixed []string) []Sig {
	lists := [][]string{nil}
	for _, f := range fixed {
		lists = append(lists, []string{f})
	}
	var out []Sig
	for _, l := range lists {
		for _, tl := range tails {
			out = append(out, Sig{Fixed: l, Map: tl.m, HC: tl.h, Var: tl.v, Res: "(T)", RT: "string"})
		}
	}
	return out
}

// seqProduct: all ordered pairs of seqSigs x all argument lists of length <= maxN over kinds; mode and block by index.
type seqProduct struct {
	sigs   []Sig
	kinds  []string
	maxN   int
	calls  int64
	blocks int64 // 1: block alternates with the index, 2: both
}

func newSeqProduct(fixed, kinds []string, maxN int, blocks int64) *seqProduct {
	p := &seqProduct{sigs: seqSigs(fixed), kinds: kinds, maxN: maxN, blocks: blocks}
	pow := int64(1)
	for n := 0; n <= maxN; n++ {
		p.calls += pow
		pow *= int64(len(kinds))
	}
	return p
}

func (p *seqProduct) size() int64 {
	return int64(len(p.sigs)) * int64(len(p.sigs)) * p.calls * p.blocks
}

func (p *seqProduct) at(i int64) SeqCase {
	orig := i
	blk := i%2 == 1
	if p.blocks == 2 {
		i /= 2
	}
	ci := i % p.calls
	i /= p.calls
	a, b := i%int64(len(p.sigs)), i/int64(len(p.sigs))
	n := 0
	pow := int64(1)
	for ci >= pow {
		ci -= pow
		pow *= int64(len(p.kinds))
		n++
	}
	args := make([]string, n)
	for j := 0; j < n; j++ {
		args[j] = p.kinds[ci%int64(len(p.kinds))]
		ci /= int64(len(p.kinds))
	}
	sc := SeqCase{Sigs: []Sig{p.sigs[a], p.sigs[b]}, Args: args, Wrap: allWrapped(n), Block: blk, Mode: seqModes[(orig/2)%3]}
	if (orig/6)%3 == 0 {
		sc.Wrap = 0
	}
	if sc.Mode == "ufn" {
		sc.Block = false
	}
	return sc
}

// seqArity: ordered pairs of signatures with all result shapes, arguments well typed for one of the two.
func seqArity(maxFixed int) []SeqCase {
	var sigs []Sig
	res := []resT{{"(T)", "string"}, {"(T,err)", "int"}, {"(err)", ""}, {"()", ""}}
	for k := 0; k <= maxFixed; k++ {
		var fixed []string
		for j := 0; j < k; j++ {
			fixed = append(fixed, fixedNames[(1+3*j+k)%len(fixedNames)])
		}
		for _, tl := range tails {
			for _, rs := range res {
				sigs = append(sigs, Sig{Fixed: fixed, Map: tl.m, HC: tl.h, Var: tl.v, Res: rs.res, RT: rs.rt})
			}
		}
	}
	var out []SeqCase
	n := 0
	for _, a := range sigs {
		for _, b := range sigs {
			for _, which := range []Sig{a, b} {
				types, _ := which.params()
				lo, hi := len(which.Fixed), len(types)
				if which.Var != "" {
					hi = lo + 2
				}
				for cnt := lo; cnt <= hi; cnt++ {
					var args []string
					for i := 0; i < cnt; i++ {
						cs := canon[which.paramNameAt(i)]
						args = append(args, cs[(i+n)%len(cs)])
					}
					sc := SeqCase{Sigs: []Sig{a, b}, Args: args, Wrap: allWrapped(cnt), Block: n%2 == 0, Mode: seqModes[n%3]}
					if n%5 == 0 {
						sc.Wrap = 0
					}
					if sc.Mode == "ufn" {
						sc.Block = false
					}
					out = append(out, sc)
					n++
				}
			}
		}
	}
	return out
}

func genSig(t *rapid.T) Sig {
	var s Sig
	k := rapid.IntRange(0, 3).Draw(t, "k")
	for i := 0; i < k; i++ {
		s.Fixed = append(s.Fixed, rapid.SampledFrom(fixedNames).Draw(t, "fixed"))
	}
	tl := rapid.SampledFrom(tails).Draw(t, "tail")
	s.Map, s.HC, s.Var = tl.m, tl.h, tl.v
	rs := rapid.SampledFrom(allRes).Draw(t, "res")
	s.Res, s.RT = rs.res, rs.rt
	return s
}

func genSeq(t *rapid.T, fit map[string][]string) SeqCase {
	sc := SeqCase{Mode: rapid.SampledFrom(seqModes).Draw(t, "mode")}
	ns := rapid.IntRange(2, 3).Draw(t, "nsigs")
	for j := 0; j < ns; j++ {
		s := genSig(t)
		if j > 0 && rapid.IntRange(0, 2).Draw(t, "related") == 0 {
			// a close relative of the first: same fixed parameters, another tail (this is where a stale signature hurts silently)
			s.Fixed = append([]string{}, sc.Sigs[0].Fixed...)
		}
		if j < ns-1 && rapid.IntRange(0, 3).Draw(t, "keep-going") != 0 && strings.Contains(s.Res, "err") {
			s.Res = strings.Replace(s.Res, "err", "nil", 1)
		}
		sc.Sigs = append(sc.Sigs, s)
	}
	lead := sc.Sigs[rapid.IntRange(0, ns-1).Draw(t, "lead")] // arguments are drawn to fit this one
	types, _ := lead.params()
	lo, hi := len(lead.Fixed), len(types)
	if lead.Var != "" {
		hi = lo + 3
	}
	if hi > maxArgs {
		hi = maxArgs
	}
	n := rapid.IntRange(lo, hi).Draw(t, "n")
	for i := 0; i < n; i++ {
		name := lead.paramNameAt(i)
		if name != "" && rapid.IntRange(0, 5).Draw(t, "fitting") != 0 {
			sc.Args = append(sc.Args, rapid.SampledFrom(fit[name]).Draw(t, "arg"))
		} else {
			sc.Args = append(sc.Args, rapid.SampledFrom(argKinds).Draw(t, "arg"))
		}
	}
	sc.Wrap = uint(rapid.IntRange(0, int(allWrapped(n))).Draw(t, "wrap"))
	if sc.Mode != "ufn" {
		sc.Block = rapid.Bool().Draw(t, "block")
	}
	return sc
}

// ---- generators -----------------------------------------------------------------------

// fitting[typeKey] lists the argument kinds acceptable for a parameter type (by the reference rule).
func fittingKinds(pt reflect.Type) []string {
	e := newEnv(Case{Sig: Sig{Res: "()"}})
	var out []string
	for _, k := range argKinds {
		if fits(e.argValue(k, 0), pt) {
			out = append(out, k)
		}
	}
	return out
}

// canonical well-typed spellings per parameter type name, for the arity matrix
var canon = map[string][]string{
	"string": {"str", "cvStr", "nil"}, "int": {"int", "cvInt", "nil"}, "float64": {"float", "cvFloat", "nil"},
	"bool": {"true", "false", "cvBool"}, "any": {"hash", "array", "cvI8", "nil", "str", "cvNilPtr"}, "ptr": {"cvPtr", "cvNilPtr", "nil"},
	"ints": {"cvInts", "nil"}, "map": {"hash", "cvHMap", "nil"}, "hmap": {"hash", "cvHMap", "nil"}, "struct": {"nil"}, "iface": {"nil"},
}

// paramNameAt names the parameter type an argument at position i meets ("" beyond the last parameter).
func (s Sig) paramNameAt(i int) string {
	names := append([]string{}, s.Fixed...)
	if s.Map != "" {
		names = append(names, s.Map)
	}
	if s.HC != "" {
		names = append(names, s.HC)
	}
	if i < len(names) {
		return names[i]
	}
	if s.Var != "" {
		return s.Var
	}
	return ""
}

func allWrapped(n int) uint { return (1 << uint(n)) - 1 }

type tail struct{ m, h, v string }

var tails = []tail{{}, {m: "map"}, {m: "hmap"}, {h: "struct"}, {h: "iface"}, {m: "map", h: "struct"}, {m: "hmap", h: "iface"},
	{m: "map", h: "iface"}, {m: "hmap", h: "struct"}, {v: "int"}, {v: "string"}, {v: "any"}}

type resT struct{ res, rt string }

var allRes = []resT{{"()", ""}, {"(T)", "string"}, {"(T)", "int"}, {"(T)", "any"}, {"(T,nil)", "string"}, {"(T,nil)", "int"}, {"(T,nil)", "any"},
	{"(T,err)", "string"}, {"(T,err)", "int"}, {"(T,err)", "any"}, {"(nil)", ""}, {"(err)", ""}}

// E1: one parameter slot x every argument kind
func slotMatrix() []Case {
	var out []Case
	anyN := func(n int) []string {
		var s []string
		for i := 0; i < n; i++ {
			s = append(s, "any")
		}
		return s
	}
	ints := func(n int) []string {
		var s []string
		for i := 0; i < n; i++ {
			s = append(s, "int")
		}
		return s
	}
	emit := func(s Sig, pre []string) {
		for _, k := range argKinds {
			args := append(append([]string{}, pre...), k)
			for _, blk := range []bool{false, true} {
				for _, w := range []uint{0, allWrapped(len(args))} {
					out = append(out, Case{Sig: s, Args: args, Wrap: w, Block: blk})
				}
			}
		}
	}
	for p := 0; p < 3; p++ {
		for _, f := range fixedNames {
			emit(Sig{Fixed: append(anyN(p), f), Res: "(T)", RT: "string"}, ints(p))
		}
		for _, m := range []string{"map", "hmap"} {
			emit(Sig{Fixed: anyN(p), Map: m, Res: "(T)", RT: "string"}, ints(p))
		}
		for _, h := range []string{"struct", "iface"} {
			emit(Sig{Fixed: anyN(p), HC: h, Res: "(T)", RT: "string"}, ints(p))
		}
	}
	for _, v := range []string{"int", "string", "any"} {
		for p := 0; p < 2; p++ {
			for j := 0; j < 3; j++ {
				pre := ints(p)
				for t := 0; t < j; t++ {
					pre = append(pre, canon[v][t%2])
				}
				emit(Sig{Fixed: anyN(p), Var: v, Res: "(T)", RT: "string"}, pre)
			}
		}
	}
	return out
}

// E2: arity matrix with well-typed arguments
func arityMatrix(rots int) []Case {
	var out []Case
	for rot := 0; rot < rots; rot++ {
		for k := 0; k <= 3; k++ {
			var fixed []string
			for j := 0; j < k; j++ {
				fixed = append(fixed, fixedNames[(rot+2*j)%len(fixedNames)])
			}
			for _, tl := range tails {
				for _, rs := range allRes {
					s := Sig{Fixed: fixed, Map: tl.m, HC: tl.h, Var: tl.v, Res: rs.res, RT: rs.rt}
					types, _ := s.params()
					maxN := len(types) + 1
					if tl.v != "" {
						maxN = k + 3
					}
					if maxN > maxArgs {
						maxN = maxArgs
					}
					for n := 0; n <= maxN; n++ {
						var args []string
						for i := 0; i < n; i++ {
							name := s.paramNameAt(i)
							if name == "" {
								args = append(args, "int")
								continue
							}
							cs := canon[name]
							args = append(args, cs[(i+rot)%len(cs)])
						}
						for _, blk := range []bool{false, true} {
							for _, w := range []uint{0, allWrapped(n)} {
								if n == 0 && w != 0 {
									continue
								}
								out = append(out, Case{Sig: s, Args: args, Wrap: w, Block: blk})
							}
						}
					}
				}
			}
		}
	}
	return out
}

// E3: full product of small signatures and small calls
type product struct {
	sigs  []Sig
	kinds []string
	maxN  int
	calls int64 // number of argument lists of length 0..maxN
	both  bool  // with and without block for every cell (otherwise the block alternates with the index)
}

func newProduct(maxFixed, maxN int) *product {
	p := &product{kinds: argKinds, maxN: maxN}
	var lists [][]string
	lists = append(lists, nil)
	prev := [][]string{nil}
	for k := 1; k <= maxFixed; k++ {
		var next [][]string
		for _, l := range prev {
			for _, f := range fixedNames {
				next = append(next, append(append([]string{}, l...), f))
			}
		}
		lists = append(lists, next...)
		prev = next
	}
	for _, l := range lists {
		for _, tl := range tails {
			p.sigs = append(p.sigs, Sig{Fixed: l, Map: tl.m, HC: tl.h, Var: tl.v, Res: "(T)", RT: "string"})
		}
	}
	pow := int64(1)
	for n := 0; n <= maxN; n++ {
		p.calls += pow
		pow *= int64(len(p.kinds))
	}
	return p
}

func (p *product) size() int64 {
	if p.both {
		return int64(len(p.sigs)) * p.calls * 2
	}
	return int64(len(p.sigs)) * p.calls
}

func (p *product) at(i int64) Case {
	blk := i%2 == 1
	if p.both {
		i /= 2
	}
	ci := i % p.calls
	si := i / p.calls
	n := 0
	pow := int64(1)
	for ci >= pow {
		ci -= pow
		pow *= int64(len(p.kinds))
		n++
	}
	args := make([]string, n)
	for j := 0; j < n; j++ {
		args[j] = p.kinds[ci%int64(len(p.kinds))]
		ci /= int64(len(p.kinds))
	}
	w := allWrapped(n)
	if (i+si)%3 == 0 {
		w = 0
	}
	return Case{Sig: p.sigs[si], Args: args, Wrap: w, Block: blk}
}

func genCase(t *rapid.T, fit map[string][]string) Case {
	s := genSig(t)
	k := len(s.Fixed)
	types, _ := s.params()
	lo, hi := k, len(types)
	if s.Var != "" {
		hi = k + 3
	}
	if rapid.IntRange(0, 5).Draw(t, "arity-class") == 0 { // sometimes too few / too many
		lo, hi = 0, hi+1
	}
	if hi > maxArgs {
		hi = maxArgs
	}
	n := rapid.IntRange(lo, hi).Draw(t, "n")
	c := Case{Sig: s, Block: rapid.Bool().Draw(t, "block")}
	for i := 0; i < n; i++ {
		name := s.paramNameAt(i)
		if name != "" && rapid.IntRange(0, 3).Draw(t, "fitting") != 0 {
			c.Args = append(c.Args, rapid.SampledFrom(fit[name]).Draw(t, "arg"))
		} else {
			c.Args = append(c.Args, rapid.SampledFrom(argKinds).Draw(t, "arg"))
		}
	}
	c.Wrap = uint(rapid.IntRange(0, int(allWrapped(n))).Draw(t, "wrap"))
	return c
}

// ---- the test ---------------------------------------------------------------------------

const rule = "Signatures: 0-3 fixed parameters from {string,int,float64,bool,interface{},*T,[]int}, then optionally a trailing options map (map[string]interface{} | hctx.Map) and/or a helper context (plush.HelperContext struct | hctx.HelperContext interface), or a variadic tail (...int|...string|...interface{}); results (), (T), (T,error) and (error) with nil and non-nil error, T in {string,int,interface{}}. The function is built with reflect.MakeFunc and records every invocation (received values, HasBlock(), Block()). Calls: 0-6 arguments from {string, int, float, true, false, nil, hash literal, array literal, context variables: string, int, float64, bool, *T, typed nil *T, []int, int8, named string, hctx.Map}, literal values depend on the position; each argument optionally wrapped in an order-recording identity helper; with and without a block. (E1) every parameter slot type (fixed at positions 0-2, options map, helper context, variadic element 0-2) x every argument kind x block x wrapped/unwrapped; (E2) arity matrix: 0-3 fixed x 12 tails x 12 result shapes x 0..N+1 well-typed arguments x block x wrapped/unwrapped, parameter types rotated; (E3) full product of all signatures with <= K fixed parameters x 12 tails with all calls of <= n arguments of 18 kinds x block; (R) random signature x call, arguments biased to fit. Oracle = reference binder from the statement: invoked exactly once with exactly the supplied values in order (nil => zero value, omitted trailing map => a map that is empty at the moment of the call, and the recorder writes an entry into every empty map it receives, as option-defaulting helpers do, omitted helper context => HasBlock()==block given and Block() renders the block, variadic gets the rest), or not invoked and an error containing the function name (too many arguments / not assignable); first result emitted; non-nil error => errors.Is. Arguments evaluated at most once, left to right, on every path; exactly once on success. Unspecified (not asserted beyond evaluation order): fewer arguments than fixed parameters. Non-trivial = specified and (at least one argument or an auto-supplied parameter). Distinct by signature + template. SEQUENCES: one call site tgtFn(ARGS) is executed 2-3 times within one render, the callee resolving to a recording function of a different signature each time (loop: for (tgtFn) in fns; let: for (i) in idx { let tgtFn = fns[i] }; ufn: the site sits in a template-defined function called again after tgtFn is reassigned). The reference binder is applied to every execution independently against the chronological log of wrapper evaluations and invocations: everything up to the first execution that must fail (or returns a non-nil error) must have happened exactly, nothing after it; a sequence stops being judged at the first unspecified execution. (S1) all ordered pairs of signatures (<= 1 fixed parameter x 12 tails) x all calls of <= 2 arguments of a reduced kind set; (S2) ordered pairs over 0-K fixed x 12 tails x 4 result shapes with arguments well typed for either member; (SR) random 2-3 signatures. Sequence cases are non-trivial when the function types differ."

func setup(t *testing.T) *vk.Run {
	r := vk.Start(t, "C12", rule,
		"the values of literals are those of the language (string, int, float64, bool, nil, map[string]interface{}, []interface{}); for wrapped arguments this is additionally confirmed by what the identity helper received",
		"assignable means reflect's AssignableTo on the dynamic type of the argument value",
		"the order-recording identity helpers are themselves Go helpers func(interface{}) interface{} called through the mechanism under test; every space is therefore also run with unwrapped arguments")
	r.Replayer("call", func(raw json.RawMessage) *vk.Fail {
		var c Case
		if f := vk.Decode(raw, &c); f != nil {
			return f
		}
		return checkCase(r, c)
	})
	r.Replayer("seq", func(raw json.RawMessage) *vk.Fail {
		var c SeqCase
		if f := vk.Decode(raw, &c); f != nil {
			return f
		}
		return checkSeq(r, c)
	})
	return r
}

func TestReplay(t *testing.T) { setup(t).ReplayEnv() }

// regressions: witnesses of fixed findings (AF-20: nil in variadic position) and hand-picked corner calls
var regressions = []Case{
	{Sig: Sig{Var: "any", Res: "(T)", RT: "string"}, Args: []string{"nil"}},
	{Sig: Sig{Var: "string", Res: "(T)", RT: "string"}, Args: []string{"str", "nil"}},
	{Sig: Sig{Fixed: []string{"int"}, Var: "int", Res: "(T)", RT: "string"}, Args: []string{"int", "nil", "int"}, Wrap: 7},
	{Sig: Sig{Fixed: []string{"any"}, Map: "hmap", HC: "iface", Res: "(T,nil)", RT: "string"}, Args: []string{"array"}, Wrap: 1, Block: true},
	{Sig: Sig{Fixed: []string{"string"}, Map: "map", HC: "struct", Res: "(T,err)", RT: "int"}, Args: []string{"str"}, Block: true},
	{Sig: Sig{Map: "map", HC: "iface", Res: "(T)", RT: "any"}, Args: []string{"nil", "nil"}},
}

// hand-picked sequences: the second function needs something the first does not
var seqRegressions = []SeqCase{
	{Sigs: []Sig{{Fixed: []string{"string"}, Res: "(T)", RT: "string"}, {Fixed: []string{"string"}, Map: "map", HC: "struct", Res: "(T)", RT: "string"}}, Args: []string{"str"}, Wrap: 1, Block: true, Mode: "loop"},
	{Sigs: []Sig{{Fixed: []string{"string"}, Res: "(T)", RT: "string"}, {Fixed: []string{"ptr"}, Res: "(T)", RT: "string"}}, Args: []string{"nil"}, Mode: "let"},
	{Sigs: []Sig{{Fixed: []string{"any"}, Res: "(T)", RT: "string"}, {Fixed: []string{"int"}, Res: "(T)", RT: "string"}, {Var: "any", Res: "(T)", RT: "string"}}, Args: []string{"str"}, Wrap: 1, Mode: "ufn"},
	{Sigs: []Sig{{Var: "any", Res: "(T)", RT: "string"}, {Fixed: []string{"int"}, HC: "iface", Res: "(T,nil)", RT: "int"}}, Args: []string{"int"}, Block: true, Mode: "loop"},
}

func TestProp(t *testing.T) {
	r := setup(t)
	defer r.Finish()
	r.ReplayCommitted()

	for _, c := range regressions {
		r.Check(checkCase(r, c))
	}

	run := func(name string, cases []Case) {
		r.Subspace(name, int64(len(cases)), true)
		r.Parallel(int64(len(cases)), 0, func(i int64) { r.Check(checkCase(r, cases[i])) })
	}
	run("E1 slot matrix: 51 parameter slots (7 fixed types x positions 0-2, 2 map types x 3, 2 helper-context types x 3, 3 variadic element types x 0-1 fixed x tail index 0-2) x 18 argument kinds x block x wrapped/unwrapped", slotMatrix())
	rots := r.Pick(2, 7)
	run(fmt.Sprintf("E2 arity matrix: 0-3 fixed parameters (%d type rotations) x 12 tails x 12 result shapes x 0..N+1 well-typed arguments x block x wrapped/unwrapped", rots), arityMatrix(rots))

	p := newProduct(2, r.Pick(2, 3))
	p.both = r.Thorough()
	r.Subspace(fmt.Sprintf("E3 product: %d signatures (<= %d fixed parameters x 12 tails) x %d calls (<= %d arguments of 18 kinds), block: %s; wrapped except every third", len(p.sigs), 2, p.calls, p.maxN, map[bool]string{true: "both", false: "alternating with the index"}[p.both]), p.size(), true)
	r.Parallel(p.size(), 0, func(i int64) { r.Check(checkCase(r, p.at(i))) })

	fit := map[string][]string{}
	for name, ty := range fixedTypes {
		fit[name] = fittingKinds(ty)
	}
	for name, ty := range mapTypes {
		fit[name] = fittingKinds(ty)
	}
	for name, ty := range hcTypes {
		fit[name] = fittingKinds(ty)
	}
	r.Rapid("random", r.Pick(6000, 60000), func(t *rapid.T) *vk.Fail { return checkCase(r, genCase(t, fit)) })

	// one call site executed for several functions of different signatures within one render
	for _, sc := range seqRegressions {
		r.Check(checkSeq(r, sc))
	}
	var sp *seqProduct
	if r.Quick() {
		sp = newSeqProduct([]string{"string", "any", "ptr"}, []string{"str", "int", "nil", "hash", "cvPtr", "cvHMap"}, 2, 1)
	} else {
		sp = newSeqProduct(fixedNames, []string{"str", "int", "float", "nil", "hash", "array", "cvPtr", "cvNilPtr", "cvHMap", "cvMyStr"}, 2, 2)
	}
	r.Subspace(fmt.Sprintf("S1 one call site, two functions: %d x %d ordered signature pairs (<= 1 fixed parameter of %d types x 12 tails) x %d calls (<= %d arguments of %d kinds) x block (%d); modes loop/let/ufn and wrapped/unwrapped by index",
		len(sp.sigs), len(sp.sigs), (len(sp.sigs)/12)-1, sp.calls, sp.maxN, len(sp.kinds), sp.blocks), sp.size(), true)
	r.Parallel(sp.size(), 0, func(i int64) { r.Check(checkSeq(r, sp.at(i))) })
	sa := seqArity(r.Pick(1, 2))
	r.Subspace(fmt.Sprintf("S2 one call site, two functions: ordered pairs of signatures (0-%d fixed x 12 tails x 4 result shapes) x well-typed argument lists for either member; modes, block, wrapping by index", r.Pick(1, 2)), int64(len(sa)), true)
	r.Parallel(int64(len(sa)), 0, func(i int64) { r.Check(checkSeq(r, sa[i])) })
	r.Rapid("sequences", r.Pick(6000, 60000), func(t *rapid.T) *vk.Fail { return checkSeq(r, genSeq(t, fit)) })
}
